(* C17 -- time-window operators respect their window boundaries.

   Machines: Ops/Timed.v (written from reactivex/operators/_takewithtime.py,
   _skipwithtime.py, _takeuntilwithtime.py, _skipuntilwithtime.py,
   _takelastwithtime.py, _skiplastwithtime.py, _timeout.py,
   _timeoutwithmapper.py -- the working tree, i.e. with
   proposed_fixes/C17-take-last-with-time-boundary.diff), tied to the
   implementation by the K2 correspondence (harness/props/C17.py).  Closed
   world, notation and conventions: see Props/C15.v.  [due_at ts t0] = t0 +
   max(0, delay) is the instant the timer scheduled at subscription fires;
   at that very instant a notification of the source goes first -- this is
   where the model pins down what the property statement leaves open. *)
From RxVerif Require Import Base.Prelude Ops.Machine Ops.Multi Ops.MultiFacts Ops.Timed Ops.TimedSim
  Ops.TimedFacts Ops.TimedWindowFacts Ops.TimedMapperFacts.

(* take_with_time / take_until_with_time: for ANY notification sequence, the
   notifications up to and at the boundary pass, then completion at the boundary
   (unless the source terminated by then) *)
Theorem C17_take_until_with_time_spec : forall A ts t0 (es : list (Z * ev A)),
  timed_emits t0 (simulate (x_take_until_with_time ts t0) t0 (ext_of es)) = take_spec (due_at ts t0) es.
Proof. exact @take_until_with_time_spec. Qed.
Print Assumptions C17_take_until_with_time_spec.

Theorem C17_take_with_time_spec : forall A d t0 (es : list (Z * ev A)),
  timed_emits t0 (simulate (x_take_until_with_time (Rel d) t0) t0 (ext_of es)) = take_spec (t0 + clamp d) es.
Proof. exact @take_with_time_spec. Qed.
Print Assumptions C17_take_with_time_spec.

Theorem C17_take_closed_form : forall A D (es : list (Z * ev A)), tsorted es ->
  take_spec D es =
  let k := filter (fun te => fst te <=? D) es in
  upto_term k ++ (if has_term k then [] else [(D, Done)]).
Proof. exact @take_spec_sorted. Qed.
Print Assumptions C17_take_closed_form.

(* skip_with_time (timer scheduled first) / skip_until_with_time (source
   subscribed first): exactly the elements strictly after the boundary pass; the
   terminal passes in any case *)
Theorem C17_skip_until_with_time_spec : forall A timer_first ts t0 (es : list (Z * ev A)), tsorted es ->
  timed_emits t0 (simulate (x_skip_until_with_time timer_first ts t0) t0 (ext_of es))
  = upto_term (filter (fun te => is_terminal (snd te) || (due_at ts t0 <? fst te)) es).
Proof. exact @skip_until_with_time_closed. Qed.
Print Assumptions C17_skip_until_with_time_spec.

(* take_last_with_time(d): at completion time T exactly the elements with
   T - t < d, in order, all at T -- a rule on (t, T, d) only *)
Theorem C17_take_last_with_time_spec : forall A t0 d (tl : list (Z * A)) tm,
  (forall T, tm = TTDone T -> Forall (fun tx => fst tx <= T) tl) ->
  timed_emits t0 (simulate (x_take_last_with_time d) t0 (ext_of (tevents tl tm)))
  = match tm with
    | TTDone T => at_time T (filter (fun tx => T - fst tx <? d) tl) ++ [(T, Done)]
    | TTErr t e => [(t, Err e)]
    | TTNever => []
    end.
Proof. exact @take_last_with_time_spec. Qed.
Print Assumptions C17_take_last_with_time_spec.

Theorem C17_take_last_with_time_boundary_independent : forall A t0 d (tl : list (Z * A)) T x,
  Forall (fun tx => fst tx <= T) tl ->
  (In (T, Next x) (timed_emits t0 (simulate (x_take_last_with_time d) t0 (ext_of (tevents tl (TTDone T)))))
   <-> exists t, In (t, x) tl /\ T - t < d).
Proof. exact @take_last_with_time_boundary_independent. Qed.
Print Assumptions C17_take_last_with_time_boundary_independent.

(* the code before the fix (`<=` at completion, `>=` when trimming): the fate of
   the element aged exactly d at completion depends on an unrelated arrival *)
Theorem C17_take_last_with_time_orig_boundary_refuted :
  In (10, Next 1) (timed_emits 0 (simulate (x_take_last_with_time_orig 10) 0
                                   (ext_of (tevents [(0, 1)] (TTDone 10)))))
  /\ ~ In (10, Next 1) (timed_emits 0 (simulate (x_take_last_with_time_orig 10) 0
                                        (ext_of (tevents [(0, 1); (10, 2)] (TTDone 10))))).
Proof. exact take_last_with_time_orig_boundary_refuted. Qed.
Print Assumptions C17_take_last_with_time_orig_boundary_refuted.

(* skip_last_with_time(d), time-sorted source completing at T: by the completion
   exactly the elements with T - t >= d have been emitted, in order -- again a
   rule on (t, T, d) only.  (Each is emitted at the first notification at which
   its age reached d; the instants are not part of this statement.) *)
Theorem C17_skip_last_with_time_spec : forall A t0 d (tl : list (Z * A)) T,
  tsorted tl -> Forall (fun tx => fst tx <= T) tl ->
  map snd (timed_emits t0 (simulate (x_skip_last_with_time d) t0 (ext_of (tevents tl (TTDone T)))))
  = map (fun tx => Next (snd tx)) (filter (fun tx => d <=? T - fst tx) tl) ++ [Done].
Proof. exact @skip_last_with_time_spec. Qed.
Print Assumptions C17_skip_last_with_time_spec.

(* timeout(due): [timeout_spec] walks ANY notification sequence with the instant
   at which the running timer fires: an element up to and at that instant is
   forwarded and re-arms it, a terminal up to and at it ends the sequence (the
   timer never acts after the source terminated), otherwise the switch happens
   exactly at that instant.  Without a fallback: on_error(Timeout) there. *)
Theorem C17_timeout_no_fallback_spec : forall A ts t0 (es : list (Z * ev A)),
  timed_emits t0 (simulate (x_timeout ts false t0) t0 (ext_of es))
  = fst (timeout_spec ts (due_at ts t0) es)
    ++ match snd (timeout_spec ts (due_at ts t0) es) with Some due => [(due, Err TIMEOUT_ERR)] | None => [] end.
Proof. exact @timeout_spec_no_fallback. Qed.
Print Assumptions C17_timeout_no_fallback_spec.

(* with a fallback (source 1): it is subscribed exactly at the switch instant and never otherwise *)
Theorem C17_timeout_fallback_spec : forall A ts t0 (es : list (Z * ev A)),
  sim_emits (snd (simulate (x_timeout ts true t0) t0 (ext_of es))) = fst (timeout_spec ts (due_at ts t0) es)
  /\ sim_subs (snd (simulate (x_timeout ts true t0) t0 (ext_of es)))
     = match snd (timeout_spec ts (due_at ts t0) es) with Some d => [(d, 1%nat)] | None => [] end.
Proof. exact @timeout_spec_fallback. Qed.
Print Assumptions C17_timeout_fallback_spec.

(* closed form of the switch instant, relative due time d >= 0, conforming
   timeline: the first [last + d] (last = subscription or latest element) that is
   strictly before the next notification; none if the source terminates first *)
Theorem C17_timeout_switch_instant : forall A d (tl : list (Z * A)) tm last, 0 <= d ->
  snd (timeout_spec (Rel d) (last + d) (tevents tl tm)) = first_gap d last tl tm.
Proof. exact @timeout_spec_switch. Qed.
Print Assumptions C17_timeout_switch_instant.

(* timeout_with_mapper, step level (the instants at which the timeout observables
   notify are inputs).  PARTIAL: no closed form over absolute time; whole-run
   behaviour is covered by the K2 correspondence. *)
Theorem C17_timeout_with_mapper_step_partial : forall A hf ho (mapper : option (A -> nat -> res unit)) (s : twm_st) now,
  let m := x_timeout_with_mapper hf ho mapper in
  (forall k e, k <> 0%nat -> k <> 2%nat -> lookup k (tw_timers s) = Some (tw_id s) -> not_err e ->
     emitted_cmds (snd (fst (x_step m s now (ISrc k e)))) = []
     /\ (ho = true -> In (CSub 2%nat) (snd (fst (x_step m s now (ISrc k e))))
                      /\ In (CUnsub 0%nat) (snd (fst (x_step m s now (ISrc k e))))
                      /\ snd (x_step m s now (ISrc k e)) = Cont)
     /\ (ho = false -> e = Done -> snd (x_step m s now (ISrc k e)) = Fail TIMEOUT_ERR))
  /\ (forall k e my, k <> 0%nat -> k <> 2%nat -> lookup k (tw_timers s) = Some my -> my <> tw_id s ->
        emitted_cmds (snd (fst (x_step m s now (ISrc k e)))) = []
        /\ ~ In (CSub 2%nat) (snd (fst (x_step m s now (ISrc k e))))
        /\ snd (x_step m s now (ISrc k e)) = Cont)
  /\ (forall e, tw_id (fst (fst (x_step m s now (ISrc 0%nat e)))) = S (tw_id s))
  /\ (forall x, exists rest, snd (fst (x_step m s now (ISrc 0%nat (Next x)))) = CEmit x :: rest)
  /\ (snd (x_step m s now (ISrc 0%nat Done)) = Complete)
  /\ (forall c, snd (x_step m s now (ISrc 0%nat (Err c))) = Fail c).
Proof. exact @timeout_with_mapper_step_partial. Qed.
Print Assumptions C17_timeout_with_mapper_step_partial.

(* ---- non-vacuity / worked instances ----------------------------------------- *)
Example C17_ex_sorted : tsorted (tevents [(0, 1); (10, 0); (10, 2); (15, 3)] (TTDone 30)).
Proof. cbn. repeat split; repeat constructor; cbn; lia. Qed.

Example C17_ex_take_with_time :
  timed_emits 0 (simulate (x_take_until_with_time (Rel 10) 0) 0 (ext_of (tevents [(0, 1); (10, 0); (10, 2); (15, 3)] (TTDone 30))))
  = [(0, Next 1); (10, Next 0); (10, Next 2); (10, Done)].
Proof. vm_compute. reflexivity. Qed.

Example C17_ex_skip_with_time :
  timed_emits 0 (simulate (x_skip_until_with_time true (Rel 10) 0) 0 (ext_of (tevents [(0, 1); (10, 0); (10, 2); (15, 3)] (TTDone 30))))
  = [(15, Next 3); (30, Done)].
Proof. vm_compute. reflexivity. Qed.

Example C17_ex_take_last_with_time :
  timed_emits 0 (simulate (x_take_last_with_time 10) 0 (ext_of (tevents [(0, 1); (10, 0); (15, 3)] (TTDone 20))))
  = [(20, Next 3); (20, Done)].
Proof. vm_compute. reflexivity. Qed.

Example C17_ex_skip_last_with_time :
  timed_emits 0 (simulate (x_skip_last_with_time 10) 0 (ext_of (tevents [(0, 1); (10, 0); (15, 3)] (TTDone 20))))
  = [(10, Next 1); (20, Next 0); (20, Done)].
Proof. vm_compute. reflexivity. Qed.

(* an element exactly at the due instant re-arms the timer; the gap after it is too long *)
Example C17_ex_timeout :
  timed_emits 0 (simulate (x_timeout (Rel 10) false 0) 0 (ext_of (tevents [(10, 1); (15, 0)] (TTDone 40))))
  = [(10, Next 1); (15, Next 0); (25, Err TIMEOUT_ERR)].
Proof. vm_compute. reflexivity. Qed.

Example C17_ex_timeout_never_after_terminal :
  timed_emits 0 (simulate (x_timeout (Rel 10) false 0) 0 (ext_of (tevents [(5, 1)] (TTDone 15))))
  = [(5, Next 1); (15, Done)].
Proof. vm_compute. reflexivity. Qed.

(* ==== added after the theorem-quality audit (proofs: Ops/TimedWindowFacts2.v) ==== *)
From RxVerif Require Import Ops.TimedSubFacts Ops.TimedWindowFacts2.

(* timeout with a fallback over a TWO-port closed world ([ext2_of]: port 0 the
   source, port 1 the fallback observable).  For EVERY interleaving:
   [timeout2_spec] walks the timeline with the running due instant -- up to and
   at it a source element is forwarded and re-arms the timer, a source terminal
   ends the sequence, a fallback notification is not heard (the fallback is not
   subscribed yet); at the first notification later than it the operator
   switches and the output continues with the fallback's notifications from
   that position on, up to and including its first terminal -- the source's
   notifications from there on are ignored. *)
Theorem C17_timeout_fallback_walk : forall A ts t0 (ins : list (Z * nat * ev A)),
  timed_emits t0 (simulate (x_timeout ts true t0) t0 (ext2_of ins)) = timeout2_spec ts (due_at ts t0) ins.
Proof. exact @timeout_fallback_walk. Qed.
Print Assumptions C17_timeout_fallback_walk.

(* both ports on one time-sorted timeline: before the switch instant d the
   source's part as [timeout_spec] gives it; after it EXACTLY the fallback's
   notifications later than d (elements, error, completion), nothing of the
   source.  A fallback notification at the instant d itself comes before the
   timer in the closed world and is not heard. *)
Theorem C17_timeout_mirrors_fallback : forall A ts t0 (ins : list (Z * nat * ev A)), tsorted2 ins ->
  timed_emits t0 (simulate (x_timeout ts true t0) t0 (ext2_of ins))
  = fst (timeout_spec ts (due_at ts t0) (port 0 ins))
    ++ match snd (timeout_spec ts (due_at ts t0) (port 0 ins)) with
       | Some d => upto_term (filter (fun te => d <? fst te) (port 1 ins))
       | None => []
       end.
Proof. exact @timeout_mirrors_fallback. Qed.
Print Assumptions C17_timeout_mirrors_fallback.

(* skip_last_with_time(d) WITH the instants, time-sorted elements, any terminal
   at any instant: every element is emitted at the first notification instant --
   its own, a later element's, or the completion's -- at which its age reached d
   ([sl_out]); an error passes and the elements still queued are dropped (it
   flushes nothing: [done_time (TTErr _ _) = []]); without a terminal likewise. *)
Theorem C17_skip_last_with_time_instants : forall A t0 d (tl : list (Z * A)) tm, tsorted tl ->
  timed_emits t0 (simulate (x_skip_last_with_time d) t0 (ext_of (tevents tl tm)))
  = sl_out d tl tm ++ term_ev tm.
Proof. exact @skip_last_with_time_instants. Qed.
Print Assumptions C17_skip_last_with_time_instants.

(* [sl_out], one element at a time *)
Theorem C17_skip_last_out_unfold : forall A d t (x : A) rest tm,
  sl_out d ((t, x) :: rest) tm
  = match find (fun u => d <=? u - t) (t :: map fst rest ++ match tm with TTDone T => [T] | _ => [] end) with
    | Some u => [(u, Next x)]
    | None => []
    end ++ sl_out d rest tm.
Proof. exact @sl_out_unfold. Qed.
Print Assumptions C17_skip_last_out_unfold.

(* the window boundary: whatever is emitted had reached age d at the emission instant *)
Theorem C17_skip_last_with_time_only_aged : forall A t0 d (tl : list (Z * A)) tm u x, tsorted tl ->
  In (u, Next x) (timed_emits t0 (simulate (x_skip_last_with_time d) t0 (ext_of (tevents tl tm)))) ->
  exists t, In (t, x) tl /\ d <= u - t /\ In u (map fst tl ++ done_time tm).
Proof. exact @skip_last_with_time_only_aged. Qed.
Print Assumptions C17_skip_last_with_time_only_aged.

(* timeout with an ABSOLUTE due time D in closed form (time-sorted
   notifications, none before the subscription): every element re-arms the timer
   for the same instant max t0 D, so the notifications up to and at it pass and
   the switch happens exactly there unless the source terminated by then *)
Theorem C17_timeout_abs_closed_form : forall A D t0 (es : list (Z * ev A)), tsorted es ->
  Forall (fun te => t0 <= fst te) es ->
  timeout_spec (Abs D) (due_at (Abs D) t0) es =
  let k := filter (fun te => fst te <=? Z.max t0 D) es in
  (upto_term k, if has_term k then None else Some (Z.max t0 D)).
Proof. exact @timeout_abs_closed_form. Qed.
Print Assumptions C17_timeout_abs_closed_form.

Theorem C17_timeout_abs_no_fallback : forall A D t0 (es : list (Z * ev A)), tsorted es ->
  Forall (fun te => t0 <= fst te) es ->
  timed_emits t0 (simulate (x_timeout (Abs D) false t0) t0 (ext_of es)) =
  let k := filter (fun te => fst te <=? Z.max t0 D) es in
  upto_term k ++ (if has_term k then [] else [(Z.max t0 D, Err TIMEOUT_ERR)]).
Proof. exact @timeout_abs_no_fallback. Qed.
Print Assumptions C17_timeout_abs_no_fallback.

Theorem C17_timeout_abs_mirrors_fallback : forall A D t0 (ins : list (Z * nat * ev A)), tsorted2 ins ->
  Forall (fun y => t0 <= fst (fst y)) ins ->
  timed_emits t0 (simulate (x_timeout (Abs D) true t0) t0 (ext2_of ins)) =
  let k := filter (fun te => fst te <=? Z.max t0 D) (port 0 ins) in
  upto_term k ++ (if has_term k then [] else upto_term (filter (fun te => Z.max t0 D <? fst te) (port 1 ins))).
Proof. exact @timeout_abs_mirrors_fallback. Qed.
Print Assumptions C17_timeout_abs_mirrors_fallback.

(* the hypothesis "none before the subscription" is needed: an element before t0
   re-arms an absolute timer that lies in the past for ITS OWN instant *)
Example C17_timeout_abs_closed_form_needs_lower_bound_refuted :
  timeout_spec (Abs 0) (due_at (Abs 0) 5) [(1, Next 7); (3, Next 8)] = ([(1, Next 7)], Some 1)
  /\ timeout_spec (Abs 0) (due_at (Abs 0) 5) [(1, Next 7); (3, Next 8)]
     <> (let k := filter (fun te : Z * ev Z => fst te <=? Z.max 5 0) [(1, Next 7); (3, Next 8)] in
         (upto_term k, if has_term k then None else Some (Z.max 5 0))).
Proof. vm_compute. split; [reflexivity|discriminate]. Qed.

(* ---- non-vacuity / worked instances ---- *)
Example C17_ex_two_port_sorted :
  tsorted2 [(5, 0%nat, Next 1); (8, 1%nat, Next 7); (15, 1%nat, Next 8); (20, 1%nat, Next 9);
            (22, 0%nat, Next 2); (25, 1%nat, Done); (30, 1%nat, Next 3)].
Proof. cbn. repeat split; repeat constructor; cbn; lia. Qed.

(* switch at 5 + 10 = 15: the fallback's notifications at 8 and AT 15 are not
   heard, the source's element at 22 is ignored, nothing after the fallback's completion *)
Example C17_ex_timeout_mirrors_fallback :
  timed_emits 0 (simulate (x_timeout (Rel 10) true 0) 0
    (ext2_of [(5, 0%nat, Next 1); (8, 1%nat, Next 7); (15, 1%nat, Next 8); (20, 1%nat, Next 9);
              (22, 0%nat, Next 2); (25, 1%nat, Done); (30, 1%nat, Next 3)]))
  = [(5, Next 1); (20, Next 9); (25, Done)].
Proof. vm_compute. reflexivity. Qed.

Example C17_ex_timeout_mirrors_fallback_error :
  timed_emits 0 (simulate (x_timeout (Rel 10) true 0) 0
    (ext2_of [(5, 0%nat, Next 1); (20, 1%nat, Next 9); (21, 1%nat, Err 4); (22, 1%nat, Next 3)]))
  = [(5, Next 1); (20, Next 9); (21, Err 4)].
Proof. vm_compute. reflexivity. Qed.

(* the source terminates first: the fallback is never heard *)
Example C17_ex_timeout_no_switch :
  timed_emits 0 (simulate (x_timeout (Rel 10) true 0) 0
    (ext2_of [(5, 0%nat, Next 1); (8, 1%nat, Next 7); (12, 0%nat, Done); (40, 1%nat, Next 9)]))
  = [(5, Next 1); (12, Done)].
Proof. vm_compute. reflexivity. Qed.

(* skip_last_with_time(10): 1 (arrived at 0) leaves at the element at 10, 0 (at 10) at the
   completion at 20; 3 (at 15) never; with an error at 20 instead, 0 is dropped as well *)
Example C17_ex_skip_last_instants :
  sl_out 10 [(0, 1); (10, 0); (15, 3)] (TTDone 20) ++ term_ev (TTDone 20) = [(10, Next 1); (20, Next 0); (20, Done)]
  /\ sl_out 10 [(0, 1); (10, 0); (15, 3)] (TTErr 20 4) ++ term_ev (TTErr 20 4) = [(10, Next 1); (20, Err 4)]
  /\ sl_out 10 [(0, 1); (10, 0); (15, 3)] TTNever ++ term_ev TTNever = [(10, Next 1)].
Proof. vm_compute. repeat split; reflexivity. Qed.

Example C17_ex_skip_last_error :
  timed_emits 0 (simulate (x_skip_last_with_time 10) 0 (ext_of (tevents [(0, 1); (10, 0); (15, 3)] (TTErr 20 4))))
  = [(10, Next 1); (20, Err 4)].
Proof. vm_compute. reflexivity. Qed.

(* absolute due time 12, subscription at 0: elements at 5 and 12 pass (neither moves the
   timer), switch at 12; due time in the past (subscription at 20): switch at 20 *)
Example C17_ex_timeout_abs :
  timed_emits 0 (simulate (x_timeout (Abs 12) false 0) 0 (ext_of (tevents [(5, 1); (12, 0); (13, 2)] (TTDone 40))))
  = [(5, Next 1); (12, Next 0); (12, Err TIMEOUT_ERR)]
  /\ timed_emits 20 (simulate (x_timeout (Abs 12) false 20) 20 (ext_of (tevents [(21, 1); (22, 2)] (TTDone 40))))
  = [(20, Err TIMEOUT_ERR)].
Proof. vm_compute. split; reflexivity. Qed.

(* ==== the remaining PARTIAL items (proofs: Ops/TimeoutMapperRun.v, Ops/SkipLastUnsorted.v) ==== *)
From RxVerif Require Import Ops.SimPortSteps Ops.TimeoutMapperRun Ops.SkipLastUnsorted.

(* timeout_with_mapper at RUN level.  Ports: 0 the source, 1 the first timeout observable (if
   given), 2 the fallback (if given), 3 + j the timeout observable the mapper made for the j-th
   element it accepted.  For EVERY interleaving of their notifications the closed world of the
   machine is the walk [twm_spec] (its equations: next theorem): a source element is forwarded
   and installs a fresh current timeout observable (the previous one is unsubscribed), a source
   terminal ends the sequence; the CURRENT timeout observable's first on_next / on_completed
   switches -- from there on exactly the fallback's notifications up to its first terminal,
   nothing of the source, or the Timeout error at that instant when there is no fallback -- and
   its error is passed on; a stale timeout observable, the fallback before the switch, an
   unknown port are not heard. *)
Theorem C17_timeout_with_mapper_walk : forall A hf ho (mapper : option (A -> nat -> res unit)) t0
  (ins : list (Z * nat * ev A)),
  timed_emits t0 (simulate (x_timeout_with_mapper hf ho mapper) t0 (ext2_of ins)) = twm_out hf ho mapper ins.
Proof. exact @timeout_with_mapper_walk. Qed.
Print Assumptions C17_timeout_with_mapper_walk.

Theorem C17_timeout_with_mapper_walk_unfold : forall A hf ho (mapper : option (A -> nat -> res unit)) cnt cur t k e rest,
  twm_out hf ho mapper = twm_spec ho mapper 0 (if hf then Some 1%nat else None)
  /\ twm_spec ho mapper cnt cur [] = []
  /\ twm_spec ho mapper cnt cur ((t, k, e) :: rest)
     = match k with
       | O => match e with
              | Next x => (t, Next x) ::
                          match mapper with
                          | None => twm_spec ho mapper cnt None rest
                          | Some f => match f x cnt with
                                      | Raise c => [(t, Err c)]
                                      | Ok _ => twm_spec ho mapper (S cnt) (Some (3 + cnt)%nat) rest
                                      end
                          end
              | _ => [(t, e)]
              end
       | S _ => if is_cur k cur
                then match e with
                     | Err c => [(t, Err c)]
                     | _ => if ho then upto_term (port 2 rest) else [(t, Err TIMEOUT_ERR)]
                     end
                else twm_spec ho mapper cnt cur rest
       end.
Proof. exact @twm_spec_unfold. Qed.
Print Assumptions C17_timeout_with_mapper_walk_unfold.

(* readings.  The first timeout observable: its first notification before any notification of
   the source switches (or passes its error on) at that instant, whatever other ports send *)
Theorem C17_timeout_with_mapper_first_timeout : forall A ho (mapper : option (A -> nat -> res unit)) t0
  (mid rest : list (Z * nat * ev A)) t e,
  Forall (fun i => tport i <> 0%nat /\ tport i <> 1%nat) mid ->
  timed_emits t0 (simulate (x_timeout_with_mapper true ho mapper) t0 (ext2_of (mid ++ (t, 1%nat, e) :: rest)))
  = twm_switch ho t e rest.
Proof. exact @timeout_with_mapper_first_timeout. Qed.
Print Assumptions C17_timeout_with_mapper_first_timeout.

(* the timeout observable made for an element: after the source's elements pre ++ [x] (a
   mapper that does not raise), whatever the STALE timeout observables (ports 1, 3 .. 2 + |pre|),
   the fallback and unknown ports send in between, the first notification of port 3 + |pre| --
   the observable made for x -- switches at that instant; before it exactly the source's
   elements were forwarded, at their instants *)
Theorem C17_timeout_with_mapper_element_timeout : forall A hf ho (f : A -> nat -> res unit) t0
  (pre mid rest : list (Z * nat * ev A)) tx x t e,
  mapper_accepts f -> Forall src_next pre ->
  Forall (fun i => tport i <> 0%nat /\ tport i <> (3 + length pre)%nat) mid ->
  timed_emits t0 (simulate (x_timeout_with_mapper hf ho (Some f)) t0
      (ext2_of (pre ++ (tx, 0%nat, Next x) :: mid ++ (t, (3 + length pre)%nat, e) :: rest)))
  = map tnote pre ++ (tx, Next x) :: twm_switch ho t e rest.
Proof. exact @timeout_with_mapper_element_timeout. Qed.
Print Assumptions C17_timeout_with_mapper_element_timeout.

(* no timeout observable ever notifies: the source's notifications up to its first terminal,
   nothing else (the fallback is never heard) *)
Theorem C17_timeout_with_mapper_no_timeout : forall A hf ho (mapper : option (A -> nat -> res unit)) t0
  (ins : list (Z * nat * ev A)),
  mapper_ok mapper -> Forall (fun i => tport i = 0%nat \/ tport i = 2%nat) ins ->
  timed_emits t0 (simulate (x_timeout_with_mapper hf ho mapper) t0 (ext2_of ins)) = upto_term (port 0 ins).
Proof. exact @timeout_with_mapper_no_timeout. Qed.
Print Assumptions C17_timeout_with_mapper_no_timeout.

(* skip_last_with_time WITHOUT sortedness.  (1) any notification sequence at any instants: the
   walk with the FIFO queue -- at an on_next the element is appended, then (and at on_completed)
   the maximal aged PREFIX of the queue leaves ([pop_aged]): the head blocks *)
Theorem C17_skip_last_with_time_walk : forall A t0 d (es : list (Z * ev A)),
  timed_emits t0 (simulate (x_skip_last_with_time d) t0 (ext_of es)) = slw_spec d [] es.
Proof. exact @skip_last_with_time_walk. Qed.
Print Assumptions C17_skip_last_with_time_walk.

(* (2) elements then at most one terminal, instants in ANY order: closed form by release index.
   U = the instants of the popping notifications (the elements', then the completion's); element
   i leaves at U[j] for the least j >= i, j >= its predecessor's release index, with
   d <= U[j] - t_i; if there is none it never leaves and neither does any later element
   ([slu_out], equations: next theorem).  An error flushes nothing. *)
Theorem C17_skip_last_with_time_unsorted : forall A t0 d (tl : list (Z * A)) tm,
  timed_emits t0 (simulate (x_skip_last_with_time d) t0 (ext_of (tevents tl tm)))
  = slu_out d (map fst tl ++ done_time tm) 0 0 tl ++ term_ev tm.
Proof. exact @skip_last_with_time_unsorted. Qed.
Print Assumptions C17_skip_last_with_time_unsorted.

Theorem C17_skip_last_unsorted_out_unfold : forall A d U lo i t (x : A) rest,
  slu_out d U lo i ((t, x) :: rest)
  = match find (fun j => d <=? nth j U 0 - t) (seq (Nat.max lo i) (length U - Nat.max lo i)) with
    | Some j => (nth j U 0, Next x) :: slu_out d U j (S i) rest
    | None => []
    end.
Proof. exact @slu_out_unfold. Qed.
Print Assumptions C17_skip_last_unsorted_out_unfold.

(* (3) what it implies, still without sortedness: the emitted elements are a prefix of the
   source's (FIFO) ... *)
Theorem C17_skip_last_with_time_unsorted_prefix : forall A t0 d (tl : list (Z * A)) tm,
  exists n, map snd (timed_emits t0 (simulate (x_skip_last_with_time d) t0 (ext_of (tevents tl tm))))
            = map (fun tx => Next (snd tx)) (firstn n tl) ++ map snd (@term_ev A tm).
Proof. exact @skip_last_with_time_unsorted_prefix. Qed.
Print Assumptions C17_skip_last_with_time_unsorted_prefix.

(* ... and the k-th emission is the k-th element, at the instant of a notification not before
   its own arrival at which its age had reached d (the window boundary) *)
Theorem C17_skip_last_with_time_unsorted_only_aged : forall A t0 d (tl : list (Z * A)) tm k u e,
  nth_error (timed_emits t0 (simulate (x_skip_last_with_time d) t0 (ext_of (tevents tl tm)))) k = Some (u, e) ->
  is_terminal e = false ->
  exists t x j, nth_error tl k = Some (t, x) /\ e = Next x /\ (k <= j < length tl + length (done_time tm))%nat
                /\ u = nth j (map fst tl ++ done_time tm) 0 /\ d <= u - t.
Proof. exact @skip_last_with_time_unsorted_only_aged. Qed.
Print Assumptions C17_skip_last_with_time_unsorted_only_aged.

(* on a sorted timeline the two closed forms coincide; on an unsorted one the earlier closed
   form is NOT what the code does (an aged element waits behind a younger head) *)
Theorem C17_skip_last_unsorted_is_sorted_form : forall A d (tl : list (Z * A)) tm, tsorted tl ->
  slu_out d (map fst tl ++ done_time tm) 0 0 tl = sl_out d tl tm.
Proof. exact @slu_out_sorted. Qed.
Print Assumptions C17_skip_last_unsorted_is_sorted_form.

Theorem C17_skip_last_with_time_instants_unsorted_refuted :
  timed_emits 0 (simulate (x_skip_last_with_time 5) 0 (ext_of (tevents [(10, 1); (0, 2); (12, 3)] TTNever))) = []
  /\ sl_out 5 [(10, 1); (0, 2); (12, 3)] TTNever ++ @term_ev Z TTNever = [(12, Next 2)].
Proof. exact skip_last_with_time_instants_unsorted_refuted. Qed.
Print Assumptions C17_skip_last_with_time_instants_unsorted_refuted.

(* ---- non-vacuity / worked instances ---- *)
Definition C17_ex_mapper : Z -> nat -> res unit := fun _ _ => Ok tt.
Example C17_ex_mapper_accepts : mapper_accepts C17_ex_mapper /\ mapper_ok (Some C17_ex_mapper) /\ mapper_ok (@None (Z -> nat -> res unit)).
Proof. repeat split. intros y i. exists tt. reflexivity. intros y i. exists tt. reflexivity. Qed.

(* the fallback early (1), elements 5 and 6, the FIRST timeout observable late (3: stale), the
   observable made for 5 late (5: stale), the one made for 6 completes at 6: switch; the source's
   element at 6 is ignored, the fallback is mirrored up to its completion *)
Example C17_ex_timeout_with_mapper :
  Forall src_next [(2, 0%nat, Next 5)]
  /\ Forall (fun i : Z * nat * ev Z => tport i <> 0%nat /\ tport i <> (3 + 1)%nat) [(5, 3%nat, Done)]
  /\ timed_emits 0 (simulate (x_timeout_with_mapper true true (Some C17_ex_mapper)) 0
      (ext2_of [(1, 2%nat, Next 50); (2, 0%nat, Next 5); (3, 1%nat, Next 0); (4, 0%nat, Next 6); (5, 3%nat, Done);
                (6, 4%nat, Done); (6, 0%nat, Next 9); (7, 2%nat, Next 51); (8, 4%nat, Next 1); (9, 2%nat, Done);
                (10, 2%nat, Next 52)]))
     = [(2, Next 5); (4, Next 6); (7, Next 51); (9, Done)]
  /\ timed_emits 0 (simulate (x_timeout_with_mapper true false (Some C17_ex_mapper)) 0
      (ext2_of [(2, 0%nat, Next 5); (3, 1%nat, Next 0); (4, 0%nat, Next 6); (5, 3%nat, Done); (6, 4%nat, Next 0);
                (6, 0%nat, Next 9); (7, 2%nat, Next 51)]))
     = [(2, Next 5); (4, Next 6); (6, Err TIMEOUT_ERR)].
Proof.
  split; [repeat constructor; exists 5; reflexivity|]. split; [repeat constructor; cbn; lia|].
  vm_compute. split; reflexivity.
Qed.

(* readings 0 10 4 9 16, completion at 17, d = 5: the element with reading 4 has age 5 at the
   notification with reading 9 but waits behind the head (reading 10) until 16 *)
Example C17_ex_skip_last_unsorted :
  let tl := [(0, 1); (10, 2); (4, 3); (9, 4); (16, 5)] in
  timed_emits 0 (simulate (x_skip_last_with_time 5) 0 (ext_of (tevents tl (TTDone 17))))
  = [(10, Next 1); (16, Next 2); (16, Next 3); (16, Next 4); (17, Done)]
  /\ slu_out 5 (map fst tl ++ done_time (TTDone 17)) 0 0 tl ++ @term_ev Z (TTDone 17)
     = [(10, Next 1); (16, Next 2); (16, Next 3); (16, Next 4); (17, Done)]
  /\ sl_out 5 tl (TTDone 17) = [(10, Next 1); (16, Next 2); (9, Next 3); (16, Next 4)].
Proof. vm_compute. repeat split; reflexivity. Qed.
