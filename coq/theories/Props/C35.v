(* C35 -- periodic scheduling threads state, keeps the period and stops
   (virtual-time part, and -- second half of this file -- the dedicated-thread loop of
   NewThreadScheduler.schedule_periodic; the other thread-based schedulers are not
   covered here).

   Model: PeriodicScheduler.schedule_periodic as part of Core/VTime.v
   ([SPeriodic], the [PPer] payload = the [periodic] closure, [SPCancel] =
   disposing the returned disposable), specification in Core/Periodic.v; tied to
   the code by the K1 correspondence of harness/props/C35.py. *)
From RxVerif Require Import Base.Prelude Core.VTime Core.VTimeFacts Core.Periodic Core.PeriodicFacts Core.IntervalEmits Core.PeriodicLast.
From RxVerif Require Core.NTPeriodicQuiet.
From RxVerif Require Core.NewThreadPeriodic Core.NewThreadPeriodicFacts.
Module NTP := RxVerif.Core.NewThreadPeriodic.
From RxVerif Require Core.PeriodicRT.
Module PRT := RxVerif.Core.PeriodicRT.
Module NTPF := RxVerif.Core.NewThreadPeriodicFacts.

(* schedule_periodic(p, f, st0) on a fresh scheduler at clock c0, then
   advance_to(t): the calls made, oldest first, are exactly [solo_spec], for every
   period p >= 0, action table f (each call may take any amount of virtual time:
   PNext _ sl _ sleeps sl microseconds), initial state, clock kind and fuel *)
Theorem C35_calls : forall c fuel c0 p f st0 t, 0 <= p -> c0 < t ->
  let r := run c fuel (init c0) (solo_history p f st0 t) in
  rev (ticks_of 0 (log (state_of r))) = solo_spec f p fuel c0 (c0 + p) st0 t /\
  (match r with ROutOfFuel _ => length (solo_spec f p fuel c0 (c0 + p) st0 t) = fuel
              | RDeadlock _ => False | RDone _ => True end).
Proof. exact periodic_solo. Qed.
Print Assumptions C35_calls.

Theorem C35_terminates : forall c fuel c0 p f st0 t, 0 < p -> c0 < t ->
  (Z.to_nat ((t - c0) / p) < fuel)%nat ->
  exists s', run c fuel (init c0) (solo_history p f st0 t) = RDone s'.
Proof. exact periodic_solo_terminates. Qed.
Print Assumptions C35_terminates.

(* ELAPSED-TIME COMPENSATION.  For all action tables, i.e. all sequences of call
   durations e_0, e_1, ...: if no earlier call took longer than the period
   ([ontime]), the k-th call (k = 0, 1, ...) starts exactly at c0 + (k+1)*p, with the
   state returned by the previous call *)
Theorem C35_kth_call_on_time : forall f p n c0 st0 t k stk, 0 <= p ->
  nth_error (solo_spec f p n c0 (c0 + p) st0 t) k = Some stk -> ontime f p st0 k ->
  snd stk = c0 + (Z.of_nat k + 1) * p.
Proof. exact solo_kth_ontime. Qed.
Print Assumptions C35_kth_call_on_time.

(* ... and in general (overruns allowed) it starts at c0 + p + the sum over the
   earlier calls of max(p, duration of the call) -- a call that overruns delays its
   successor to its own end, nothing is caught up and no call is ever early -- again
   with the threaded state *)
Theorem C35_kth_call : forall f p n c0 st0 t k stk, 0 <= p ->
  nth_error (solo_spec f p n c0 (c0 + p) st0 t) k = Some stk ->
  snd stk = c0 + p + tsum f p st0 k /\ c0 + (Z.of_nat k + 1) * p <= snd stk /\
  pstate f st0 k = Some (fst stk).
Proof. exact solo_kth_general. Qed.
Print Assumptions C35_kth_call.

(* the calls stop only because the pending call is due after t ([pdue]: one period
   after the START of the last call), or because the last call did not return a state
   (the action raised or the subscription was disposed) *)
Theorem C35_calls_complete : forall f p, 0 < p -> forall n clk due st t,
  (Z.to_nat ((t - due) / p + 1) <= n)%nat ->
  let l := solo_spec f p n clk due st t in
  pdue f p clk due st (length l) > t \/
  (exists k x, length l = S k /\ pstate f st k = Some x /\
               match plookup f x with PNext _ _ _ => False | _ => True end).
Proof. exact solo_spec_complete. Qed.
Print Assumptions C35_calls_complete.

(* In EVERY history (any other actions, any interleaving of start/advance_to,
   disposal from anywhere): no call after the returned disposable was disposed *)
Theorem C35_no_call_after_dispose : forall c fuel c0 hs,
  no_tick_after_dispose (log (state_of (run c fuel (init c0) hs))).
Proof. exact no_tick_after_dispose_run. Qed.
Print Assumptions C35_no_call_after_dispose.

(* a call that raises disposes the subscription (hence is the last one), and so
   does any call that does not return a next state *)
Theorem C35_raise_disposes : forall s pid st e s',
  invoke s (PPer pid st) = BRaise e s' -> In (EPDispose pid) (log s').
Proof. exact periodic_raise_disposes. Qed.
Print Assumptions C35_raise_disposes.

Theorem C35_stop_disposes : forall s pid st pi,
  nth_error (pers s) pid = Some pi -> p_disposed pi = false ->
  match plookup (p_fn pi) st with PNext _ _ _ => False | _ => True end ->
  In (EPDispose pid) (log (bstate (invoke s (PPer pid st)))).
Proof. exact periodic_stop_disposes. Qed.
Print Assumptions C35_stop_disposes.

(* ... glued, for EVERY history (any other actions and subscriptions, any interleaving of
   start / advance_to / advance_by / dispose, several subscriptions, any fuel, both clock
   kinds): after a call that did not return a next state (log newest first: l1 is what happened
   AFTER that call) the subscription is disposed and its action is NEVER called again *)
Theorem C35_failed_call_is_last : forall c fuel c0 hs l1 l0 pid st k pi,
  let s := state_of (run c fuel (init c0) hs) in
  log s = l1 ++ ETick pid st k :: l0 -> nth_error (pers s) pid = Some pi ->
  match plookup (p_fn pi) st with PNext _ _ _ => False | _ => True end ->
  ticks_of pid l1 = [] /\ In (EPDispose pid) l1.
Proof. exact failed_call_is_last. Qed.
Print Assumptions C35_failed_call_is_last.

(* hypotheses satisfiable: another action, two advance_to calls; the third call (state 2, clock 6)
   raises; five events follow it in the log, none of them a call *)
Example C35_witness_failed_call :
  let f : ptable := ([(0, PNext [] 0%N 1); (1, PNext [] 0%N 2)], PRaise [] 1) in
  let s := state_of (run (Cfg Numeric false) 20 (init 0)
             [TDo (SSched (Abs 1) 0 [SNote 1]); TDo (SPeriodic 2 f 0); TAdvTo 5; TDo (SSched (Rel 1) 1 []); TAdvTo 20]) in
  log s = firstn 5 (log s) ++ ETick 0 2 6 :: skipn 6 (log s) /\
  option_map p_fn (nth_error (pers s) 0) = Some f /\ plookup f 2 = PRaise [] 1 /\
  rev (ticks_of 0 (log s)) = [(0, 2); (1, 4); (2, 6)].
Proof. vm_compute. repeat split; reflexivity. Qed.

(* interval(p) / timer(p, p): schedule_periodic(p, count -> on_next(count); count + 1, 0).
   For every period p >= 0, every bound m, target t and table size n: the k-th call
   (k = 0, 1, .., n), if it is made, carries k and is made at c0 + (k+1)*p ... *)
Theorem C35_interval_emits : forall n m p c0 t k stk, 0 <= p -> (k <= n)%nat ->
  nth_error (solo_spec (count_table n) p m c0 (c0 + p) 0 t) k = Some stk ->
  stk = (Z.of_nat k, c0 + (Z.of_nat k + 1) * p).
Proof. exact interval_emits. Qed.
Print Assumptions C35_interval_emits.

(* ... and it IS made whenever c0 + (k+1)*p <= t *)
Theorem C35_interval_has_kth : forall n m p c0 t k, 0 <= p -> (k <= n)%nat -> (k < m)%nat ->
  c0 + (Z.of_nat k + 1) * p <= t ->
  nth_error (solo_spec (count_table n) p m c0 (c0 + p) 0 t) k
  = Some (Z.of_nat k, c0 + (Z.of_nat k + 1) * p).
Proof. exact interval_has_kth. Qed.
Print Assumptions C35_interval_has_kth.

(* the same composed with C35_calls, on the machine: interval(p) subscribed on a fresh
   scheduler at clock c0, then advance_to(t) *)
Theorem C35_interval_run_kth : forall c fuel n p c0 t k stk, 0 <= p -> c0 < t -> (k <= n)%nat ->
  nth_error (rev (ticks_of 0 (log (state_of (run c fuel (init c0) (solo_history p (count_table n) 0 t)))))) k
    = Some stk ->
  stk = (Z.of_nat k, c0 + (Z.of_nat k + 1) * p).
Proof. exact interval_run_kth. Qed.
Print Assumptions C35_interval_run_kth.

Theorem C35_interval_run_has_kth : forall c fuel n p c0 t k, 0 <= p -> c0 < t -> (k <= n)%nat ->
  (k < fuel)%nat -> c0 + (Z.of_nat k + 1) * p <= t ->
  nth_error (rev (ticks_of 0 (log (state_of (run c fuel (init c0) (solo_history p (count_table n) 0 t)))))) k
    = Some (Z.of_nat k, c0 + (Z.of_nat k + 1) * p).
Proof. exact interval_run_has_kth. Qed.
Print Assumptions C35_interval_run_has_kth.

(* ---- witnesses ------------------------------------------------------ *)

(* interval(3) subscribed at clock 200: 0,1,2,... at 203, 206, ... *)
Example C35_witness_interval :
  observe (run (Cfg Numeric false) 10 (init 200) (solo_history 3 (count_table 8) 0 215))
  = [OClock 200; OTick 0 0 203; OTick 0 1 206; OTick 0 2 209; OTick 0 3 212; OTick 0 4 215; OClock 215].
Proof. vm_compute. reflexivity. Qed.

(* the action raises at its third call: the exception leaves advance_to, no fourth call
   even when time advances further (after stop(): see C29's note on _is_enabled) *)
Example C35_witness_raise :
  observe (run (Cfg Datetime false) 10 (init 0)
             [TDo (SPeriodic 2 ([(0, PNext [] 0%N 5); (5, PNext [] 0%N 6)], PRaise [] 1) 0); TAdvTo 7;
              TDo SStop; TAdvTo 20])
  = [OClock 0; OTick 0 0 2; OTick 0 5 4; OTick 0 6 6; OExc 1; OClock 6; OClock 6; OClock 20].
Proof. vm_compute. reflexivity. Qed.

(* disposed by another action at time 5: calls at 2 and 4 only *)
Example C35_witness_dispose :
  observe (run (Cfg Numeric false) 10 (init 0)
             [TDo (SPeriodic 2 (count_table 8) 0); TDo (SSched (Abs 5) 0 [SPCancel 0]); TAdvTo 20])
  = [OClock 0; OClock 0; OTick 0 0 2; OTick 0 1 4; ORun 0 5; OClock 20].
Proof. vm_compute. reflexivity. Qed.

(* calls that take virtual time: 0.25 s and 2.5 s within a 3 s period are compensated
   (calls at 3, 6, 9 s); the third call takes 4 s > period: the fourth starts when it
   ends (13 s), the fifth one period after that START (16 s) *)
Example C35_witness_elapsed :
  observe (run (Cfg Numeric false) 10 (init 0)
     (solo_history 3000000 ([(0, PNext [] 250000%N 1); (1, PNext [] 2500000%N 2); (2, PNext [] 4000000%N 3)],
                            PNext [] 0%N 9) 0 17000000))
  = [OClock 0; OTick 0 0 3000000; OTick 0 1 6000000; OTick 0 2 9000000; OTick 0 3 13000000;
     OTick 0 9 16000000; OClock 17000000].
Proof. vm_compute. reflexivity. Qed.

Example C35_witness_ontime :
  ontime ([(0, PNext [] 250000%N 1); (1, PNext [] 2500000%N 2); (2, PNext [] 4000000%N 3)], PNext [] 0%N 9)
         3000000 0 2.
Proof.
  intros j x Hj Hx. assert (D : j = 0%nat \/ j = 1%nat) by lia.
  destruct D as [D|D]; subst j; vm_compute in Hx; inversion Hx; subst; vm_compute; intro Q; discriminate Q.
Qed.

(* the hypotheses of C35_calls / C35_calls_complete are satisfiable *)
Example C35_witness_hyps : 0 <= 3 /\ 200 < 215 /\ (Z.to_nat ((215 - 203) / 3 + 1) <= 10)%nat.
Proof. split; [lia | split; [lia | vm_compute; lia]]. Qed.

(* the hypotheses of C35_interval_run_has_kth hold for the run of C35_witness_interval
   (fifth tick, k = 4: state 4 at 215) *)
Example C35_witness_interval_hyps :
  0 <= 3 /\ 200 < 215 /\ (4 <= 8)%nat /\ (4 < 10)%nat /\ 200 + (Z.of_nat 4 + 1) * 3 <= 215.
Proof. vm_compute. repeat split; try lia; discriminate. Qed.

(* ===== NewThreadScheduler.schedule_periodic: the loop on its dedicated thread =====

   Model: Core/NewThreadPeriodic.v ([NTP.periodic p f st0 c0 d0 script]: loop state =
   (user state, next timeout, disposed flag, clock); the script has one record per
   iteration -- duration of the invocation, whether it raises, and dispose() calls
   while the loop waits / before its test / between test and action / during the
   invocation); tied to the code by the correspondence of harness/props/C35.py
   (harness/ntpdrv.py drives the real loop with a controlled clock, Event and
   thread).  All theorems are for EVERY period (any sign), state transformer,
   initial state, start clock and script.  Zero latency: the clock moves only in
   disposed.wait and in the action. *)

(* (a) state threading: the k-th invocation (k = 0, 1, ...) is handed f^k(st0); the
   state passed to invocation k+1 is what invocation k returned (whatever it is:
   `state = action(state)`, a returned None is threaded like any other value) *)
Theorem C35_nt_state_threading : forall (T : Type) p (f : T -> T) st0 c0 d0 sc k c x c' x',
  nth_error (NTP.invs (fst (NTP.periodic p f st0 c0 d0 sc))) k = Some (c, x) ->
  nth_error (NTP.invs (fst (NTP.periodic p f st0 c0 d0 sc))) (S k) = Some (c', x') ->
  x' = f x.
Proof. exact (@NTPF.periodic_threading). Qed.
Print Assumptions C35_nt_state_threading.

Theorem C35_nt_kth_state : forall (T : Type) p (f : T -> T) st0 c0 d0 sc k c x,
  nth_error (NTP.invs (fst (NTP.periodic p f st0 c0 d0 sc))) k = Some (c, x) -> x = Nat.iter k f st0.
Proof. exact (@NTPF.periodic_state_kth). Qed.
Print Assumptions C35_nt_kth_state.

(* (b) the loop tests the flag before EVERY invocation -- also when the timeout is <= 0
   and nothing is waited for: an invocation entered at clock c is preceded by a test at
   clock c that reported False, with nothing but dispose() calls at c in between *)
Theorem C35_nt_tested_before_every_invocation : forall (T : Type) p (f : T -> T) st0 c0 d0 sc l1 c x l2,
  fst (NTP.periodic p f st0 c0 d0 sc) = l1 ++ NTP.EInv c x :: l2 ->
  exists l0 w, l1 = l0 ++ NTP.ETest c false :: w /\ Forall (fun e => e = NTP.EDisp c) w.
Proof. exact (@NTPF.periodic_tested_before_every_invocation). Qed.
Print Assumptions C35_nt_tested_before_every_invocation.

(* ... a test that comes after a dispose() call reports True and nothing follows it
   (run() returns) ... *)
Theorem C35_nt_test_after_dispose_stops : forall (T : Type) p (f : T -> T) st0 c0 d0 sc l1 c l2 c' b l3,
  fst (NTP.periodic p f st0 c0 d0 sc) = l1 ++ NTP.EDisp c :: l2 ++ NTP.ETest c' b :: l3 ->
  b = true /\ l3 = [].
Proof. exact (@NTPF.periodic_test_after_dispose). Qed.
Print Assumptions C35_nt_test_after_dispose_stops.

(* ... hence NO invocation starts at a later clock instant than a dispose() call; the
   only invocation that can still start after the call is the one whose test the loop
   had already passed (dispose() from another thread between `disposed.is_set()` and
   `action(state)`), and it starts at the very instant of the call *)
Theorem C35_nt_no_start_after_dispose : forall (T : Type) p (f : T -> T) st0 c0 d0 sc l1 c l2,
  fst (NTP.periodic p f st0 c0 d0 sc) = l1 ++ NTP.EDisp c :: l2 ->
  NTP.invs l2 = [] \/ exists x, NTP.invs l2 = [(c, x)].
Proof. exact (@NTPF.periodic_after_dispose). Qed.
Print Assumptions C35_nt_no_start_after_dispose.

(* ... a dispose() during an invocation -- from inside the action or from another
   thread, however long the invocation takes (also >= the period, when nothing is
   waited for afterwards) -- makes that invocation the last one *)
Theorem C35_nt_dispose_during_invocation_is_last :
  forall (T : Type) p (f : T -> T) st0 c0 d0 sc l1 c x l2 c' l3,
  fst (NTP.periodic p f st0 c0 d0 sc) = l1 ++ NTP.EInv c x :: l2 ++ NTP.EDisp c' :: l3 ->
  forallb (fun e => negb (NTPF.is_test e)) l2 = true -> NTP.invs l3 = [].
Proof. exact (@NTPF.periodic_dispose_during_invocation). Qed.
Print Assumptions C35_nt_dispose_during_invocation_is_last.

(* ... and a dispose() before the new thread executes its first instruction: no
   invocation at all, whatever the period (0 included) *)
Theorem C35_nt_disposed_before_start : forall (T : Type) p (f : T -> T) st0 c0 sc,
  NTP.invs (fst (NTP.periodic p f st0 c0 true sc)) = [].
Proof. exact (@NTPF.periodic_disposed_before_start). Qed.
Print Assumptions C35_nt_disposed_before_start.

(* an invocation that raises is the last event (the exception leaves run()) *)
Theorem C35_nt_raise_is_last : forall (T : Type) p (f : T -> T) st0 c0 d0 sc l1 c l2,
  fst (NTP.periodic p f st0 c0 d0 sc) = l1 ++ NTP.ERaise c :: l2 -> l2 = [].
Proof. exact (@NTPF.periodic_raise_last). Qed.
Print Assumptions C35_nt_raise_is_last.

(* (c) spacing: invocation k+1 starts EXACTLY max(period, duration of invocation k) after
   the start of invocation k: one period when the action is not slower than the period
   (the time it took is subtracted from the next wait), at its end when it overruns
   (nothing is caught up); never less than a period *)
Theorem C35_nt_spacing : forall (T : Type) p (f : T -> T) st0 c0 d0 sc k c x c' x',
  nth_error (NTP.invs (fst (NTP.periodic p f st0 c0 d0 sc))) k = Some (c, x) ->
  nth_error (NTP.invs (fst (NTP.periodic p f st0 c0 d0 sc))) (S k) = Some (c', x') ->
  exists it, nth_error sc k = Some it /\ c' = c + Z.max p (NTP.dur_of it) /\
             c + p <= c' /\ c + NTP.dur_of it <= c' /\ (NTP.dur_of it <= p -> c' = c + p).
Proof. exact (@NTPF.periodic_spacing). Qed.
Print Assumptions C35_nt_spacing.

(* closed form: state f^k(st0) at c0 + max(0, p) + sum over j < k of max(p, duration j) *)
Theorem C35_nt_kth_call : forall (T : Type) p (f : T -> T) st0 c0 d0 sc k c x,
  nth_error (NTP.invs (fst (NTP.periodic p f st0 c0 d0 sc))) k = Some (c, x) ->
  x = Nat.iter k f st0 /\ c = c0 + Z.max 0 p + NTP.gaps p sc k /\ (k < length sc)%nat.
Proof. exact (@NTPF.periodic_kth). Qed.
Print Assumptions C35_nt_kth_call.

(* exactly (k+1) periods after scheduling while no earlier invocation overran; never earlier *)
Theorem C35_nt_kth_call_on_time : forall (T : Type) p (f : T -> T) st0 c0 d0 sc k c x, 0 <= p ->
  nth_error (NTP.invs (fst (NTP.periodic p f st0 c0 d0 sc))) k = Some (c, x) ->
  (forall j it, (j < k)%nat -> nth_error sc j = Some it -> NTP.dur_of it <= p) ->
  c = c0 + (Z.of_nat k + 1) * p.
Proof. exact (@NTPF.periodic_kth_ontime). Qed.
Print Assumptions C35_nt_kth_call_on_time.

Theorem C35_nt_never_early : forall (T : Type) p (f : T -> T) st0 c0 d0 sc k c x,
  nth_error (NTP.invs (fst (NTP.periodic p f st0 c0 d0 sc))) k = Some (c, x) ->
  c0 + (Z.of_nat k + 1) * p <= c.
Proof. exact (@NTPF.periodic_kth_lower). Qed.
Print Assumptions C35_nt_never_early.

(* (d) the first invocation: exactly max(0, period) after scheduling, with the initial state *)
Theorem C35_nt_first_call : forall (T : Type) p (f : T -> T) st0 c0 d0 sc c x,
  nth_error (NTP.invs (fst (NTP.periodic p f st0 c0 d0 sc))) 0 = Some (c, x) ->
  c = c0 + Z.max 0 p /\ c0 + p <= c /\ x = st0.
Proof. exact (@NTPF.periodic_first). Qed.
Print Assumptions C35_nt_first_call.

(* (e) the loop really invokes: when nobody disposes and no invocation raises (any
   durations, any period, any action), there is one invocation per iteration and the
   loop is still running; with C35_nt_kth_call this names the k-th invocation *)
Theorem C35_nt_quiet_runs : forall (T : Type) p (f : T -> T) st0 c0 durs,
  length (NTP.invs (fst (NTP.periodic p f st0 c0 false (map NTP.quiet durs)))) = length durs /\
  snd (NTP.periodic p f st0 c0 false (map NTP.quiet durs)) = NTP.Running.
Proof. exact (@NTPeriodicQuiet.periodic_quiet_runs). Qed.
Print Assumptions C35_nt_quiet_runs.

Theorem C35_nt_quiet_kth : forall (T : Type) p (f : T -> T) st0 c0 durs k, (k < length durs)%nat ->
  nth_error (NTP.invs (fst (NTP.periodic p f st0 c0 false (map NTP.quiet durs)))) k
  = Some (c0 + Z.max 0 p + NTP.gaps p (map NTP.quiet durs) k, Nat.iter k f st0).
Proof. exact (@NTPeriodicQuiet.periodic_quiet_kth). Qed.
Print Assumptions C35_nt_quiet_kth.

(* ---- witnesses (new-thread loop) ------------------------------------------ *)

(* period 3 s scheduled at clock 200 us: invocations that take 0.25 s and 2.5 s are
   compensated (waits of 2.75 s and 0.5 s), the third takes 4 s > period: the fourth starts
   when it ends, without a wait; dispose() from another thread 1 s into the last wait
   wakes the loop, which stops *)
Example C35_nt_witness_elapsed :
  NTP.periodic 3000000 (fun x => x + 1) 0 200 false
    [NTP.quiet 250000; NTP.quiet 2500000; NTP.quiet 4000000; NTP.quiet 0;
     NTP.Iter (Some 1000000) false false 0 None false]
  = ([NTP.EWait 200 3000000; NTP.ETest 3000200 false; NTP.EInv 3000200 0; NTP.EEnd 3250200;
      NTP.EWait 3250200 2750000; NTP.ETest 6000200 false; NTP.EInv 6000200 1; NTP.EEnd 8500200;
      NTP.EWait 8500200 500000; NTP.ETest 9000200 false; NTP.EInv 9000200 2; NTP.EEnd 13000200;
      NTP.ETest 13000200 false; NTP.EInv 13000200 3; NTP.EEnd 13000200;
      NTP.EWait 13000200 3000000; NTP.EDisp 14000200; NTP.ETest 14000200 true], NTP.Stopped).
Proof. vm_compute. reflexivity. Qed.

(* the overrunning invocation (1 ms >= period 1 ms: no wait follows) is disposed from
   inside, 0.4 ms after it started: the flag is tested all the same, no third invocation *)
Example C35_nt_witness_overrun_disposed :
  NTP.periodic 1000 (fun x => x + 1) 0 0 false
    [NTP.quiet 2500; NTP.Iter None false false 1000 (Some 400) false; NTP.quiet 0]
  = ([NTP.EWait 0 1000; NTP.ETest 1000 false; NTP.EInv 1000 0; NTP.EEnd 3500;
      NTP.ETest 3500 false; NTP.EInv 3500 1; NTP.EDisp 3900; NTP.EEnd 4500;
      NTP.ETest 4500 true], NTP.Stopped).
Proof. vm_compute. reflexivity. Qed.

(* period 0; dispose() from another thread in the dispatch window (after the test, before
   the action is entered): that one invocation still starts, at the instant of the call *)
Example C35_nt_witness_window :
  NTP.periodic 0 (fun x => x + 1) 0 50 false
    [NTP.quiet 0; NTP.Iter None false true 7 None false; NTP.quiet 0]
  = ([NTP.ETest 50 false; NTP.EInv 50 0; NTP.EEnd 50; NTP.ETest 50 false; NTP.EDisp 50;
      NTP.EInv 50 1; NTP.EEnd 57; NTP.ETest 57 true], NTP.Stopped).
Proof. vm_compute. reflexivity. Qed.

(* the second invocation raises: the thread dies, nothing follows *)
Example C35_nt_witness_raise :
  NTP.periodic 1000 (fun x => x + 1) 0 0 false
    [NTP.quiet 10; NTP.Iter None false false 10 None true; NTP.quiet 0]
  = ([NTP.EWait 0 1000; NTP.ETest 1000 false; NTP.EInv 1000 0; NTP.EEnd 1010;
      NTP.EWait 1010 990; NTP.ETest 2000 false; NTP.EInv 2000 1; NTP.ERaise 2010], NTP.Died).
Proof. vm_compute. reflexivity. Qed.

(* the hypotheses of C35_nt_spacing / C35_nt_dispose_during_invocation_is_last are satisfiable *)
Example C35_nt_witness_hyps :
  let tr := fst (NTP.periodic 1000 (fun x => x + 1) 0 0 false
                   [NTP.quiet 2500; NTP.Iter None false false 1000 (Some 400) false; NTP.quiet 0]) in
  nth_error (NTP.invs tr) 0 = Some (1000, 0) /\ nth_error (NTP.invs tr) 1 = Some (3500, 1) /\
  tr = [NTP.EWait 0 1000; NTP.ETest 1000 false; NTP.EInv 1000 0; NTP.EEnd 3500; NTP.ETest 3500 false]
       ++ NTP.EInv 3500 1 :: [] ++ NTP.EDisp 3900 :: [NTP.EEnd 4500; NTP.ETest 4500 true] /\
  forallb (fun e : NTP.ev Z => negb (NTPF.is_test e)) [] = true.
Proof. vm_compute. repeat split; reflexivity. Qed.

(* ------------------------------------------------------------------------------------------ *)
(* The generic closure on a REAL-TIME scheduler (EventLoopScheduler, TimeoutScheduler): the     *)
(* arithmetic of the re-scheduling delay (Core/PeriodicRT.v), for all clock readings.  These    *)
(* are the bounds the direct oracle of the K3 family (harness/eldrv.py: periodic_oracle)        *)
(* demands on every explored interleaving; that an item never starts before its due time is     *)
(* C31 / C34.  Nothing here is tied to the code by a correspondence (oracle-only family).       *)

Theorem C35_rt_next_tick_due_a_period_later : forall p t,
  PRT.rt_mono t -> PRT.r_now1 t + p <= PRT.rt_next_due p t.
Proof. exact PRT.rt_next_due_ge_period. Qed.
Print Assumptions C35_rt_next_tick_due_a_period_later.

Theorem C35_rt_compensation_exact : forall p t,
  PRT.rt_mono t -> PRT.r_now3 t = PRT.r_now2 t -> PRT.r_now2 t - PRT.r_now1 t <= p ->
  PRT.rt_next_due p t = PRT.r_now1 t + p.
Proof. exact PRT.rt_next_due_exact. Qed.
Print Assumptions C35_rt_compensation_exact.

Theorem C35_rt_spacing : forall p l due k a b,
  PRT.rt_chain p due l -> nth_error l k = Some a -> nth_error l (S k) = Some b ->
  PRT.r_now1 a + p <= PRT.r_now1 b.
Proof. exact PRT.rt_spacing. Qed.
Print Assumptions C35_rt_spacing.

Theorem C35_rt_kth_tick_lower_bound : forall p, 0 <= p -> forall l due k a,
  PRT.rt_chain p due l -> nth_error l k = Some a -> due + Z.of_nat k * p <= PRT.r_now1 a.
Proof. exact PRT.rt_kth_lower_bound. Qed.
Print Assumptions C35_rt_kth_tick_lower_bound.

(* non-vacuity: a chain with an on-time tick, an overrunning one and a late one *)
Example C35_rt_witness :
  let l := [PRT.RTick 1000 1200 1200; PRT.RTick 2000 4500 4600; PRT.RTick 4700 4700 4700] in
  PRT.rt_chain 1000 1000 l /\ map (PRT.rt_next_due 1000) l = [2000; 4600; 5700].
Proof. vm_compute. repeat split; intro; discriminate. Qed.
