(* C35 -- periodic scheduling threads state, keeps the period and stops
   (virtual-time part; thread-based schedulers are not covered here).

   Model: PeriodicScheduler.schedule_periodic as part of Core/VTime.v
   ([SPeriodic], the [PPer] payload = the [periodic] closure, [SPCancel] =
   disposing the returned disposable), specification in Core/Periodic.v; tied to
   the code by the K1 correspondence of harness/props/C35.py. *)
From RxVerif Require Import Base.Prelude Core.VTime Core.VTimeFacts Core.Periodic Core.PeriodicFacts.

(* schedule_periodic(p, f, st0) on a fresh scheduler at clock c0, then
   advance_to(t): the calls made, oldest first, are exactly [solo_spec], for every
   period p >= 0, action table f (each call may take any amount of virtual time:
   PNext _ sl _ sleeps sl microseconds), initial state, clock kind and fuel *)
Theorem C35_calls : forall c fuel c0 p f st0 t, 0 <= p -> c0 < t ->
  let r := run c fuel (init c0) (solo_history p f st0 t) in
  rev (ticks_of 0 (log (state_of r))) = solo_spec f p fuel c0 (c0 + p) st0 t /\
  (match r with ROutOfFuel _ => length (solo_spec f p fuel c0 (c0 + p) st0 t) = fuel
              | RDeadlock _ => False | RDone _ => True end).
Proof. exact periodic_solo. Qed.
Print Assumptions C35_calls.

Theorem C35_terminates : forall c fuel c0 p f st0 t, 0 < p -> c0 < t ->
  (Z.to_nat ((t - c0) / p) < fuel)%nat ->
  exists s', run c fuel (init c0) (solo_history p f st0 t) = RDone s'.
Proof. exact periodic_solo_terminates. Qed.
Print Assumptions C35_terminates.

(* ELAPSED-TIME COMPENSATION.  For all action tables, i.e. all sequences of call
   durations e_0, e_1, ...: if no earlier call took longer than the period
   ([ontime]), the k-th call (k = 0, 1, ...) starts exactly at c0 + (k+1)*p, with the
   state returned by the previous call *)
Theorem C35_kth_call_on_time : forall f p n c0 st0 t k stk, 0 <= p ->
  nth_error (solo_spec f p n c0 (c0 + p) st0 t) k = Some stk -> ontime f p st0 k ->
  snd stk = c0 + (Z.of_nat k + 1) * p.
Proof. exact solo_kth_ontime. Qed.
Print Assumptions C35_kth_call_on_time.

(* ... and in general (overruns allowed) it starts at c0 + p + the sum over the
   earlier calls of max(p, duration of the call) -- a call that overruns delays its
   successor to its own end, nothing is caught up and no call is ever early -- again
   with the threaded state *)
Theorem C35_kth_call : forall f p n c0 st0 t k stk, 0 <= p ->
  nth_error (solo_spec f p n c0 (c0 + p) st0 t) k = Some stk ->
  snd stk = c0 + p + tsum f p st0 k /\ c0 + (Z.of_nat k + 1) * p <= snd stk /\
  pstate f st0 k = Some (fst stk).
Proof. exact solo_kth_general. Qed.
Print Assumptions C35_kth_call.

(* the calls stop only because the pending call is due after t ([pdue]: one period
   after the START of the last call), or because the last call did not return a state
   (the action raised or the subscription was disposed) *)
Theorem C35_calls_complete : forall f p, 0 < p -> forall n clk due st t,
  (Z.to_nat ((t - due) / p + 1) <= n)%nat ->
  let l := solo_spec f p n clk due st t in
  pdue f p clk due st (length l) > t \/
  (exists k x, length l = S k /\ pstate f st k = Some x /\
               match plookup f x with PNext _ _ _ => False | _ => True end).
Proof. exact solo_spec_complete. Qed.
Print Assumptions C35_calls_complete.

(* In EVERY history (any other actions, any interleaving of start/advance_to,
   disposal from anywhere): no call after the returned disposable was disposed *)
Theorem C35_no_call_after_dispose : forall c fuel c0 hs,
  no_tick_after_dispose (log (state_of (run c fuel (init c0) hs))).
Proof. exact no_tick_after_dispose_run. Qed.
Print Assumptions C35_no_call_after_dispose.

(* a call that raises disposes the subscription (hence is the last one), and so
   does any call that does not return a next state *)
Theorem C35_raise_disposes : forall s pid st e s',
  invoke s (PPer pid st) = BRaise e s' -> In (EPDispose pid) (log s').
Proof. exact periodic_raise_disposes. Qed.
Print Assumptions C35_raise_disposes.

Theorem C35_stop_disposes : forall s pid st pi,
  nth_error (pers s) pid = Some pi -> p_disposed pi = false ->
  match plookup (p_fn pi) st with PNext _ _ _ => False | _ => True end ->
  In (EPDispose pid) (log (bstate (invoke s (PPer pid st)))).
Proof. exact periodic_stop_disposes. Qed.
Print Assumptions C35_stop_disposes.

(* ---- witnesses ------------------------------------------------------ *)

(* interval(3) subscribed at clock 200: 0,1,2,... at 203, 206, ... *)
Example C35_witness_interval :
  observe (run (Cfg Numeric false) 10 (init 200) (solo_history 3 (count_table 8) 0 215))
  = [OClock 200; OTick 0 0 203; OTick 0 1 206; OTick 0 2 209; OTick 0 3 212; OTick 0 4 215; OClock 215].
Proof. vm_compute. reflexivity. Qed.

(* the action raises at its third call: the exception leaves advance_to, no fourth call
   even when time advances further (after stop(): see C29's note on _is_enabled) *)
Example C35_witness_raise :
  observe (run (Cfg Datetime false) 10 (init 0)
             [TDo (SPeriodic 2 ([(0, PNext [] 0%N 5); (5, PNext [] 0%N 6)], PRaise [] 1) 0); TAdvTo 7;
              TDo SStop; TAdvTo 20])
  = [OClock 0; OTick 0 0 2; OTick 0 5 4; OTick 0 6 6; OExc 1; OClock 6; OClock 6; OClock 20].
Proof. vm_compute. reflexivity. Qed.

(* disposed by another action at time 5: calls at 2 and 4 only *)
Example C35_witness_dispose :
  observe (run (Cfg Numeric false) 10 (init 0)
             [TDo (SPeriodic 2 (count_table 8) 0); TDo (SSched (Abs 5) 0 [SPCancel 0]); TAdvTo 20])
  = [OClock 0; OClock 0; OTick 0 0 2; OTick 0 1 4; ORun 0 5; OClock 20].
Proof. vm_compute. reflexivity. Qed.

(* calls that take virtual time: 0.25 s and 2.5 s within a 3 s period are compensated
   (calls at 3, 6, 9 s); the third call takes 4 s > period: the fourth starts when it
   ends (13 s), the fifth one period after that START (16 s) *)
Example C35_witness_elapsed :
  observe (run (Cfg Numeric false) 10 (init 0)
     (solo_history 3000000 ([(0, PNext [] 250000%N 1); (1, PNext [] 2500000%N 2); (2, PNext [] 4000000%N 3)],
                            PNext [] 0%N 9) 0 17000000))
  = [OClock 0; OTick 0 0 3000000; OTick 0 1 6000000; OTick 0 2 9000000; OTick 0 3 13000000;
     OTick 0 9 16000000; OClock 17000000].
Proof. vm_compute. reflexivity. Qed.

Example C35_witness_ontime :
  ontime ([(0, PNext [] 250000%N 1); (1, PNext [] 2500000%N 2); (2, PNext [] 4000000%N 3)], PNext [] 0%N 9)
         3000000 0 2.
Proof.
  intros j x Hj Hx. assert (D : j = 0%nat \/ j = 1%nat) by lia.
  destruct D as [D|D]; subst j; vm_compute in Hx; inversion Hx; subst; vm_compute; intro Q; discriminate Q.
Qed.

(* the hypotheses of C35_calls / C35_calls_complete are satisfiable *)
Example C35_witness_hyps : 0 <= 3 /\ 200 < 215 /\ (Z.to_nat ((215 - 203) / 3 + 1) <= 10)%nat.
Proof. split; [lia | split; [lia | vm_compute; lia]]. Qed.
