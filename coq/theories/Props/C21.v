(* C21 -- a BehaviorSubject hands its current value to every new subscriber.
   Model: Subjects/Behavior.v (the methods BehaviorSubject overrides) run by the
   engine of Subjects/Subject.v; tied to reactivex/subject/behaviorsubject.py by
   the K1 correspondence of harness/props/C21.py.  Specification: Subjects/Family.v. *)
From RxVerif Require Import Base.Prelude Ops.Machine Subjects.Subject Subjects.Behavior Subjects.Family
  Subjects.SubjectFacts Subjects.FamilyFacts.

(* Refinement: on EVERY history of top-level calls and for every initial value
   (None included: the element type is abstract) the BehaviorSubject's complete
   log is the log of the broadcast specification in which a new subscriber of a
   live subject is greeted with the current value. *)
Theorem C21_refines_broadcast_spec :
  forall (A : Type) (pynone v0 : A) (h : list (@op A)),
  exists fuel0, forall fuel, (fuel0 <= fuel)%nat ->
    run_history (behavior_cls pynone) v0 fuel (h, []) = (spec KBehavior v0 h, true).
Proof. exact (fun A pynone v0 h => refines_spec pynone KBehavior v0 h). Qed.
Print Assumptions C21_refines_broadcast_spec.

Theorem C21_observer_view :
  forall (A : Type) (pynone v0 : A) (h : list (@op A)),
  exists fuel0, forall fuel, (fuel0 <= fuel)%nat ->
    snd (run_history (behavior_cls pynone) v0 fuel (h, [])) = true /\
    forall o, view o (fst (run_history (behavior_cls pynone) v0 fuel (h, [])))
              = oview KBehavior o Before (g_init v0) h.
Proof. exact (fun A pynone v0 h => class_observer_view pynone KBehavior v0 h). Qed.
Print Assumptions C21_observer_view.

(* the current value comes first: an observer subscribing to a live subject
   after the calls [pre] receives the last on_next value of [pre] (the initial
   value if there was none) BEFORE any later notification, then behaves as a
   Subject subscriber ([oview ... Active]) *)
Theorem C21_current_value_first :
  forall (A : Type) (v0 : A) (o : nat) (pre h : list (@op A)),
    no_sub o pre -> live (g_run (g_init v0) pre) = true ->
    oview KBehavior o Before (g_init v0) (pre ++ OSub o :: h) =
    Next (last_next v0 pre) :: oview KBehavior o Active (g_run (g_init v0) pre) h.
Proof. exact (@behavior_greeting). Qed.
Print Assumptions C21_current_value_first.

(* a subscriber arriving after termination receives only the terminal
   notification (no value); after dispose() only DisposedException *)
Theorem C21_late_subscriber :
  forall (A : Type) (o : nat) (g : @gstate A) (h : list (@op A)),
    live g = false -> oview KBehavior o Before g (OSub o :: h) = greet KBehavior g.
Proof. exact (fun A => late_subscriber KBehavior). Qed.
Print Assumptions C21_late_subscriber.

Theorem C21_late_subscriber_terminal :
  forall (A : Type) (g : @gstate A) (t : ev A), g_status g = Ended t -> greet KBehavior g = [t].
Proof. exact (@greet_ended_behavior). Qed.
Print Assumptions C21_late_subscriber_terminal.

Theorem C21_late_subscriber_disposed :
  forall (A : Type) (g : @gstate A), g_status g = Disposed -> greet KBehavior g = [Err disposed_exn].
Proof. exact (fun A => greet_disposed KBehavior). Qed.
Print Assumptions C21_late_subscriber_disposed.

(* ---- arbitrary call trees ---- *)
Theorem C21_views_wellformed :
  forall (A : Type) (pynone : A) (react : nat -> nat -> list (@op A)) (v0 : A) (top : list (@op A)) (fuel o : nat),
    wellformed (view o (log_of (run (behavior_cls pynone) react fuel (init_cfg v0 top)))) = true.
Proof. exact (fun A pynone react => views_wellformed (behavior_cls pynone) react). Qed.
Print Assumptions C21_views_wellformed.

Theorem C21_unsubscribed_gets_nothing_more :
  forall (A : Type) (pynone : A) (react : nat -> nat -> list (@op A)) s m k l o os n,
    m o = Some os -> handle os = true ->
    view o (log_of (run (behavior_cls pynone) react n (Cfg s m (IOp (OUnsub o) :: k) l))) = view o (rev l).
Proof. exact (fun A pynone react => unsubscribed_gets_nothing_more (behavior_cls pynone) react). Qed.
Print Assumptions C21_unsubscribed_gets_nothing_more.

Theorem C21_disposed_emit_raises :
  forall (A : Type) (pynone : A) (react : nat -> nat -> list (@op A)) (s : @sstate A) m k l p,
    is_disposed s = true -> is_emission p = true ->
    step (behavior_cls pynone) react (Cfg s m (IOp p :: k) l) = Cfg s m k (ERaised disposed_exn :: EOp p :: l).
Proof. exact (fun A pynone react => disposed_emit_raises pynone KBehavior react). Qed.
Print Assumptions C21_disposed_emit_raises.

Theorem C21_disposed_subscribe_fails :
  forall (A : Type) (pynone : A) (react : nat -> nat -> list (@op A)) (s : @sstate A) m k l o,
    is_disposed s = true -> m o = None ->
    step (behavior_cls pynone) react (Cfg s m (IOp (OSub o) :: k) l) =
    Cfg s (upd m o (called true fresh_ostate)) (map IOp (react o 0%nat) ++ ISubRet o None :: k)
        (EGot o (Err disposed_exn) :: EOp (OSub o) :: l).
Proof. exact (fun A pynone react => disposed_subscribe_fails pynone KBehavior react). Qed.
Print Assumptions C21_disposed_subscribe_fails.

Theorem C21_disposed_forever :
  forall (A : Type) (pynone : A) (react : nat -> nat -> list (@op A)) n (c : @cfg A),
    is_disposed (c_st c) = true -> is_disposed (c_st (run (behavior_cls pynone) react n c)) = true.
Proof. exact (fun A pynone react => disposed_forever pynone KBehavior react). Qed.
Print Assumptions C21_disposed_forever.


(* a subscribed observer stays registered: on every call tree, an observer whose
   wrapper is not stopped (it subscribed, has not unsubscribed, has received no
   terminal) is in the observer list of a live subject -- i.e. in the snapshot
   `self.observers.copy()` of the next emission *)
Theorem C21_subscribed_observer_is_in_the_snapshot :
  forall (A : Type) (pynone : A) (react : nat -> nat -> list (@op A)) (v0 : A) (top : list (@op A)) (fuel o : nat) os,
    let c := run (behavior_cls pynone) react fuel (init_cfg v0 top) in
    c_obs c o = Some os -> a_stopped os = false -> subject_live (c_st c) -> In o (observers (c_st c)).
Proof. exact (fun A pynone react v0 => live_observer_registered pynone KBehavior react v0). Qed.
Print Assumptions C21_subscribed_observer_is_in_the_snapshot.

Theorem C21_emission_goes_to_the_snapshot :
  forall (A : Type) (pynone : A) (s : @sstate A) (v : A),
    snd (c_next (behavior_cls pynone) s v) = map (fun o => IDeliver o (Next v)) (observers s).
Proof. exact (@behavior_next_snapshot). Qed.
Print Assumptions C21_emission_goes_to_the_snapshot.

(* ---- witnesses (pool ids: 0 = None, 1 = 0, 2 = False, 3 = '') ---- *)
(* initial value None handed to the first subscriber; the second one gets the
   last value; after completion the third gets only completion *)
Example C21_witness_flat :
  run_history (behavior_cls 0) 0 100
    ([OSub 0%nat; ONext 2; OSub 1%nat; ONext 3; ODone; OSub 2%nat], [])
  = ([EOp (OSub 0%nat); EGot 0%nat (Next 0); EOp (ONext 2); EGot 0%nat (Next 2);
      EOp (OSub 1%nat); EGot 1%nat (Next 2); EOp (ONext 3); EGot 0%nat (Next 3); EGot 1%nat (Next 3);
      EOp ODone; EGot 0%nat Done; EGot 1%nat Done; EOp (OSub 2%nat); EGot 2%nat Done], true).
Proof. vm_compute. reflexivity. Qed.

(* re-entrancy: observer 0 emits from inside the callback that hands it the
   current value (it is already registered, so it receives its own emission) *)
Example C21_witness_reentrant :
  run_history (behavior_cls 0) 7 100 ([OSub 0%nat; OSub 1%nat], [(0%nat, [[ONext 5]])])
  = ([EOp (OSub 0%nat); EGot 0%nat (Next 7); EOp (ONext 5); EGot 0%nat (Next 5);
      EOp (OSub 1%nat); EGot 1%nat (Next 5)], true).
Proof. vm_compute. reflexivity. Qed.

Example C21_witness_hyp :
  no_sub 1%nat [OSub 0%nat; ONext 2] /\ live (g_run (g_init 0) [OSub 0%nat; ONext 2]) = true
  /\ last_next 0 [OSub 0%nat; ONext 2] = 2.
Proof. split; [intros p [<-|[<-|[]]]; discriminate|split; reflexivity]. Qed.

(* ---- WHO RECEIVES WHICH NOTIFICATIONS on every call tree: observers that subscribe, unsubscribe,
        emit, terminate or dispose from inside their callbacks (Subjects/BroadcastTreeFacts.v, shared
        with C20; [entitled], [vals], [pendn], [sub_ev], [end_ev]: Subjects/SubjectTreeFacts.v) ----
   [tree_entitled KBehavior v0 o log] reads the chronological log of calls with the specification's
   functions: o's FIRST subscribe call is answered with [greet KBehavior g] -- the CURRENT VALUE if
   the calls logged before it left the subject live, else the terminal notification /
   DisposedException --, every later call p with [bcast KBehavior g p].  At every moment of every run
        received ++ about to be delivered ++ dropped   is a PERMUTATION of the entitlement,
   nothing was dropped while o's wrapper is live, no terminal notification was dropped unless an
   unsubscribe call for o occurs in the log.  Order is not claimed (deliveries are depth first). *)
From RxVerif Require Import Subjects.SubjectTreeFacts Subjects.BroadcastTreeFacts.

Theorem C21_tree_notifications_are_the_entitlement :
  forall (A : Type) (pynone : A) (react : nat -> nat -> list (@op A)) (v0 : A) (top : list (@op A)) (fuel o : nat),
    let c := run (behavior_cls pynone) react fuel (init_cfg v0 top) in
    exists dropped,
      Permutation.Permutation (view o (log_of c) ++ pend o (c_k c) ++ dropped) (tree_entitled KBehavior v0 o (log_of c)) /\
      (forall os, c_obs c o = Some os -> a_stopped os = false -> dropped = []) /\
      (existsb (unsub_ev o) (log_of c) = false -> has_term dropped = false).
Proof. exact (fun A pynone react v0 => tree_notifications pynone KBehavior behavior_not_async react v0). Qed.
Print Assumptions C21_tree_notifications_are_the_entitlement.

Theorem C21_tree_entitled_to_at_most_one_terminal :
  forall (A : Type) (v0 : A) (o : nat) (log : list (@event A)),
    (nterm (tree_entitled KBehavior v0 o log) <= 1)%nat.
Proof. exact (fun A v0 => tree_entitled_term_once KBehavior behavior_not_async v0). Qed.
Print Assumptions C21_tree_entitled_to_at_most_one_terminal.

(* THE VALUES: what o received ++ is about to receive ++ dropped is a permutation of
        greeting ++ the emissions made while o was subscribed
   where [greeting v0 o log] is the subject's current value at o's first subscribe call if the
   subject was live then (else nothing) and [entitled o log] is C20's entitlement: the arguments of
   the on_next calls made after o's subscribe call and before any terminating call. *)
Theorem C21_tree_values_are_greeting_plus_emissions_while_subscribed :
  forall (A : Type) (pynone : A) (react : nat -> nat -> list (@op A)) (v0 : A) (top : list (@op A)) (fuel o : nat),
    let c := run (behavior_cls pynone) react fuel (init_cfg v0 top) in
    exists dropped,
      Permutation.Permutation (vals (view o (log_of c)) ++ pendn o (c_k c) ++ dropped)
                              (greeting v0 o (log_of c) ++ entitled o (log_of c)) /\
      (forall os, c_obs c o = Some os -> a_stopped os = false -> dropped = []).
Proof. exact (@behavior_tree_values). Qed.
Print Assumptions C21_tree_values_are_greeting_plus_emissions_while_subscribed.

(* finished run, wrapper still live: EXACTLY (as a multiset) the greeting and every emission made
   while subscribed, each once *)
Theorem C21_tree_live_observer_received_greeting_and_every_emission :
  forall (A : Type) (pynone : A) (react : nat -> nat -> list (@op A)) (v0 : A) (top : list (@op A)) (fuel o : nat) os,
    let c := run (behavior_cls pynone) react fuel (init_cfg v0 top) in
    c_k c = [] -> c_obs c o = Some os -> a_stopped os = false ->
    Permutation.Permutation (vals (view o (log_of c))) (greeting v0 o (log_of c) ++ entitled o (log_of c)).
Proof. exact (@behavior_tree_finished). Qed.
Print Assumptions C21_tree_live_observer_received_greeting_and_every_emission.

(* the multiset of values is the value part of the full entitlement *)
Theorem C21_tree_entitlement_values :
  forall (A : Type) (v0 : A) (o : nat) (log : list (@event A)),
    Permutation.Permutation (vals (tree_entitled KBehavior v0 o log)) (greeting v0 o log ++ entitled o log).
Proof. exact (@vals_entitled_behavior). Qed.
Print Assumptions C21_tree_entitlement_values.

(* soundness, declaratively: a value delivered to o is the argument of an on_next call made AFTER
   o's subscribe call and before any terminating call, OR it is the greeting: the LATEST on_next
   value (the initial value if none) at the moment of o's FIRST subscribe call, made before any
   terminating call ([calls_of p1] = the calls logged before it, made by anybody) *)
Theorem C21_tree_delivery_was_the_greeting_or_subscribed_before_the_call :
  forall (A : Type) (pynone : A) (react : nat -> nat -> list (@op A)) (v0 : A) (top : list (@op A)) (fuel o : nat) (v : A),
    let c := run (behavior_cls pynone) react fuel (init_cfg v0 top) in
    In (Next v) (view o (log_of c)) ->
    (exists p1 p2 p3, log_of c = p1 ++ EOp (OSub o) :: p2 ++ EOp (ONext v) :: p3 /\
                      existsb end_ev (p1 ++ EOp (OSub o) :: p2) = false) \/
    (exists p1 p3, log_of c = p1 ++ EOp (OSub o) :: p3 /\ existsb (sub_ev o) p1 = false /\
                   existsb end_ev p1 = false /\ v = last_next v0 (calls_of p1)).
Proof. exact (@behavior_tree_value_origin). Qed.
Print Assumptions C21_tree_delivery_was_the_greeting_or_subscribed_before_the_call.

(* THE GREETING COMES AT ONCE AND IS THE LATEST VALUE, on trees: when o's first subscribe call is
   made (by the driver or from inside any callback, e.g. inside the delivery of the very value) and
   no terminating call was made before, the NEXT entry of the log is the delivery to o of the last
   on_next value logged before the call (the initial value if none) -- before any later
   notification, before any re-entrant call.  (rest = []: the machine has not yet taken that step) *)
Theorem C21_tree_greeting_is_the_latest_value_at_once :
  forall (A : Type) (pynone : A) (react : nat -> nat -> list (@op A)) (v0 : A) (top : list (@op A)) (fuel o : nat)
         (p1 rest : list (@event A)),
    let c := run (behavior_cls pynone) react fuel (init_cfg v0 top) in
    log_of c = p1 ++ EOp (OSub o) :: rest -> existsb (sub_ev o) p1 = false -> existsb end_ev p1 = false ->
    (rest = [] /\ c_k c <> []) \/ exists rest', rest = EGot o (Next (last_next v0 (calls_of p1))) :: rest'.
Proof. exact (@behavior_tree_greeting_at_once). Qed.
Print Assumptions C21_tree_greeting_is_the_latest_value_at_once.

(* TERMINAL NOTIFICATIONS.  o subscribed, then -- before any terminating call -- on_error(e) /
   on_completed() is called by the driver or from inside any callback, and no unsubscribe call for o
   is made in the run: when the run has finished o has received that terminal EXACTLY ONCE and
   NOTHING AFTER it *)
Theorem C21_tree_terminal_reaches_every_subscribed_observer :
  forall (A : Type) (pynone : A) (react : nat -> nat -> list (@op A)) (v0 : A) (top : list (@op A)) (fuel o : nat)
         (p1 p2 p3 : list (@event A)) (p : @op A) (t : ev A),
    let c := run (behavior_cls pynone) react fuel (init_cfg v0 top) in
    c_k c = [] ->
    log_of c = p1 ++ EOp (OSub o) :: p2 ++ EOp p :: p3 ->
    existsb end_ev (p1 ++ EOp (OSub o) :: p2) = false -> is_term_call p t ->
    existsb (unsub_ev o) (log_of c) = false ->
    exists vs, view o (log_of c) = map Next vs ++ [t].
Proof. exact (fun A pynone react v0 => tree_terminal_call_reaches pynone KBehavior behavior_not_async react v0). Qed.
Print Assumptions C21_tree_terminal_reaches_every_subscribed_observer.

Theorem C21_tree_terminal_is_never_lost :
  forall (A : Type) (pynone : A) (react : nat -> nat -> list (@op A)) (v0 : A) (top : list (@op A)) (fuel o : nat)
         (p1 p2 p3 : list (@event A)) (p : @op A) (t : ev A),
    let c := run (behavior_cls pynone) react fuel (init_cfg v0 top) in
    log_of c = p1 ++ EOp (OSub o) :: p2 ++ EOp p :: p3 ->
    existsb end_ev (p1 ++ EOp (OSub o) :: p2) = false -> is_term_call p t ->
    existsb (unsub_ev o) (log_of c) = false ->
    In t (view o (log_of c)) \/ In t (pend o (c_k c)).
Proof. exact (fun A pynone react v0 => tree_terminal_call_not_lost pynone KBehavior behavior_not_async react v0). Qed.
Print Assumptions C21_tree_terminal_is_never_lost.

(* LATE SUBSCRIBERS on trees: o's first subscribe call is made after an on_error / on_completed /
   dispose call (from anywhere in the tree).  The greeting is ONE terminal notification (after
   on_error the error, after on_completed the completion -- in neither case the value --, after
   dispose DisposedException: C21_late_subscriber_terminal / _disposed), it is delivered at once,
   and it is ALL o ever receives: no value, neither before nor after. *)
Theorem C21_tree_late_subscriber_gets_only_the_terminal_at_once :
  forall (A : Type) (pynone : A) (react : nat -> nat -> list (@op A)) (v0 : A) (top : list (@op A)) (fuel o : nat)
         (p1 rest : list (@event A)),
    let c := run (behavior_cls pynone) react fuel (init_cfg v0 top) in
    log_of c = p1 ++ EOp (OSub o) :: rest -> existsb (sub_ev o) p1 = false ->
    live (gev (g_init v0) p1) = false ->
    exists n, greet KBehavior (gev (g_init v0) p1) = [n] /\ is_terminal n = true /\
      ((rest = [] /\ c_k c <> [] /\ view o (log_of c) = []) \/
       ((exists rest', rest = EGot o n :: rest') /\ view o (log_of c) = [n])).
Proof. exact (fun A pynone react v0 => tree_late_subscriber pynone KBehavior behavior_not_async react v0). Qed.
Print Assumptions C21_tree_late_subscriber_gets_only_the_terminal_at_once.

(* [gev] is the specification's status function on the calls of the log; "not live" = an
   on_error / on_completed / dispose call was logged *)
Theorem C21_tree_status_of_a_log :
  forall (A : Type) (log : list (@event A)) (g : @gstate A),
    gev g log = g_run g (calls_of log) /\ live (gev g log) = live g && negb (existsb end_ev log).
Proof. exact (fun A log g => conj (gev_g_run log g) (gev_live log g)). Qed.
Print Assumptions C21_tree_status_of_a_log.

(* REFUTED proposal: "an observer subscribed (and not unsubscribed) WHEN on_error is called receives
   the error".  Observer 0 unsubscribes observer 1 inside its on_error callback (its 2nd callback,
   the 1st being the greeting): 1 is entitled to [Next 7; Err 3], the run is finished, 1 has only
   the greeting (the real BehaviorSubject does the same).  Hence the "no unsubscribe call for o"
   hypothesis of C21_tree_terminal_reaches_every_subscribed_observer. *)
Example C21_tree_terminal_to_everyone_subscribed_at_the_call_refuted :
  let c := run (behavior_cls 0) (react_tbl [(0%nat, [[]; [OUnsub 1%nat]])]) 100 (init_cfg 7 [OSub 0%nat; OSub 1%nat; OErr 3]) in
  c_k c = [] /\
  log_of c = [EOp (OSub 0%nat); EGot 0%nat (Next 7)] ++ EOp (OSub 1%nat) :: [EGot 1%nat (Next 7)] ++ EOp (OErr 3) ::
             [EGot 0%nat (Err 3); EOp (OUnsub 1%nat)] /\
  existsb (unsub_ev 1%nat) ([EOp (OSub 0%nat); EGot 0%nat (Next 7)] ++ EOp (OSub 1%nat) :: [EGot 1%nat (Next 7)]) = false /\
  tree_entitled KBehavior 7 1%nat (log_of c) = [Next 7; Err 3] /\ view 1%nat (log_of c) = [Next 7].
Proof. vm_compute. repeat split. Qed.

(* trees: observer 0 subscribes observer 1 from inside its callback for the value 5: 1 is greeted at
   once with 5 (the value is stored before it is delivered), is not in the snapshot of that
   emission (it does not get 5 twice) and receives the later 6: greeting [5] ++ emissions [6];
   the run is finished and 1's wrapper live *)
Example C21_witness_tree_greeting_inside_a_callback :
  let c := run (behavior_cls 0) (react_tbl [(0%nat, [[]; [OSub 1%nat]])]) 100 (init_cfg 7 [OSub 0%nat; ONext 5; ONext 6]) in
  c_k c = [] /\ (exists os, c_obs c 1%nat = Some os /\ a_stopped os = false) /\
  log_of c = [EOp (OSub 0%nat); EGot 0%nat (Next 7); EOp (ONext 5); EGot 0%nat (Next 5)] ++ EOp (OSub 1%nat) ::
             [EGot 1%nat (Next 5); EOp (ONext 6); EGot 0%nat (Next 6); EGot 1%nat (Next 6)] /\
  last_next 7 (calls_of [EOp (OSub 0%nat); EGot 0%nat (Next 7); EOp (ONext 5); EGot 0%nat (Next 5)]) = 5 /\
  greeting 7 1%nat (log_of c) = [5] /\ entitled 1%nat (log_of c) = [6] /\ vals (view 1%nat (log_of c)) = [5; 6].
Proof. vm_compute. split; [reflexivity|]. split; [eexists; split; reflexivity|repeat split]. Qed.

(* the terminating call made from INSIDE a callback: observer 0 calls on_error(7) inside its
   on_next(5); observer 1 (no unsubscribe call) receives greeting then the error, exactly once *)
Example C21_witness_tree_terminal_from_a_callback :
  let c := run (behavior_cls 0) (react_tbl [(0%nat, [[]; [OErr 7]])]) 100 (init_cfg 7 [OSub 0%nat; OSub 1%nat; ONext 5]) in
  c_k c = [] /\
  log_of c = [EOp (OSub 0%nat); EGot 0%nat (Next 7)] ++ EOp (OSub 1%nat) ::
             [EGot 1%nat (Next 7); EOp (ONext 5); EGot 0%nat (Next 5)] ++ EOp (OErr 7) :: [EGot 0%nat (Err 7); EGot 1%nat (Err 7)] /\
  existsb end_ev ([EOp (OSub 0%nat); EGot 0%nat (Next 7)] ++ EOp (OSub 1%nat) ::
                  [EGot 1%nat (Next 7); EOp (ONext 5); EGot 0%nat (Next 5)]) = false /\
  @is_term_call Z (OErr 7) (Err 7) /\ existsb (unsub_ev 1%nat) (log_of c) = false /\
  view 1%nat (log_of c) = [Next 7; Err 7].
Proof. vm_compute. repeat split. Qed.

(* late subscription from inside the delivery of the completion: 1 gets Done at once, no value *)
Example C21_witness_tree_late_subscriber :
  let c := run (behavior_cls 0) (react_tbl [(0%nat, [[]; [OSub 1%nat]])]) 100 (init_cfg 7 [OSub 0%nat; ODone]) in
  log_of c = [EOp (OSub 0%nat); EGot 0%nat (Next 7); EOp ODone; EGot 0%nat Done] ++ EOp (OSub 1%nat) :: [EGot 1%nat Done] /\
  existsb (sub_ev 1%nat) [EOp (OSub 0%nat); EGot 0%nat (Next 7); EOp ODone; EGot 0%nat Done] = false /\
  live (gev (g_init 7) [EOp (OSub 0%nat); EGot 0%nat (Next 7); EOp ODone; EGot 0%nat Done]) = false /\
  greet KBehavior (gev (g_init 7) [EOp (OSub 0%nat); EGot 0%nat (Next 7); EOp ODone; EGot 0%nat Done]) = [Done] /\
  view 1%nat (log_of c) = [Done].
Proof. vm_compute. repeat split. Qed.

(* ---- ORDER on call trees whose callbacks do not emit (callbacks that subscribe, unsubscribe,
        dispose -- themselves or others, also inside a delivery loop or inside the greeting) ----
   what o received followed by what is about to be handed to it is an ordered SUBSEQUENCE of its
   entitlement -- the greeting FIRST, then the notifications of the later calls in call order --
   and for a live wrapper it IS the entitlement. *)
Theorem C21_tree_call_order_when_callbacks_do_not_emit :
  forall (A : Type) (pynone : A) (react : nat -> nat -> list (@op A)) (v0 : A),
    (forall o j p, In p (react o j) -> is_emission p = false) ->
    forall (top : list (@op A)) (fuel o : nat),
    let c := run (behavior_cls pynone) react fuel (init_cfg v0 top) in
    subseq (view o (log_of c) ++ pend o (c_k c)) (tree_entitled KBehavior v0 o (log_of c)) /\
    (forall os, c_obs c o = Some os -> a_stopped os = false ->
       view o (log_of c) ++ pend o (c_k c) = tree_entitled KBehavior v0 o (log_of c)).
Proof. exact (fun A pynone react v0 => tree_ordered pynone KBehavior behavior_not_async react v0). Qed.
Print Assumptions C21_tree_call_order_when_callbacks_do_not_emit.

Theorem C21_tree_live_observer_received_its_entitlement_in_call_order :
  forall (A : Type) (pynone : A) (react : nat -> nat -> list (@op A)) (v0 : A),
    (forall o j p, In p (react o j) -> is_emission p = false) ->
    forall (top : list (@op A)) (fuel o : nat) os,
    let c := run (behavior_cls pynone) react fuel (init_cfg v0 top) in
    c_k c = [] -> c_obs c o = Some os -> a_stopped os = false ->
    view o (log_of c) = tree_entitled KBehavior v0 o (log_of c).
Proof. exact (fun A pynone react v0 => tree_ordered_finished pynone KBehavior behavior_not_async react v0). Qed.
Print Assumptions C21_tree_live_observer_received_its_entitlement_in_call_order.

(* a table that passes [quiet_tbl] (C20_quiet_tables_do_not_emit): observer 0 subscribes observer 1
   inside its callback for 5 and unsubscribes observer 2 inside its callback for 6; 1 (live) received
   greeting 5 then 6 = its entitlement in order; 2 received [7; 5], a subsequence of [7; 5; 6] *)
Example C21_witness_tree_call_order :
  let t := [(0%nat, [[]; [OSub 1%nat]; [OUnsub 2%nat]])] in
  let c := run (behavior_cls 0) (react_tbl t) 100 (init_cfg 7 [OSub 0%nat; OSub 2%nat; ONext 5; ONext 6]) in
  quiet_tbl t = true /\ c_k c = [] /\
  (exists os, c_obs c 1%nat = Some os /\ a_stopped os = false) /\
  view 1%nat (log_of c) = [Next 5; Next 6] /\ tree_entitled KBehavior 7 1%nat (log_of c) = [Next 5; Next 6] /\
  view 2%nat (log_of c) = [Next 7; Next 5] /\ tree_entitled KBehavior 7 2%nat (log_of c) = [Next 7; Next 5; Next 6].
Proof. vm_compute. split; [reflexivity|]. split; [reflexivity|]. split; [eexists; split; reflexivity|repeat split]. Qed.
