(* C21 -- a BehaviorSubject hands its current value to every new subscriber.
   Model: Subjects/Behavior.v (the methods BehaviorSubject overrides) run by the
   engine of Subjects/Subject.v; tied to reactivex/subject/behaviorsubject.py by
   the K1 correspondence of harness/props/C21.py.  Specification: Subjects/Family.v. *)
From RxVerif Require Import Base.Prelude Ops.Machine Subjects.Subject Subjects.Behavior Subjects.Family
  Subjects.SubjectFacts Subjects.FamilyFacts.

(* Refinement: on EVERY history of top-level calls and for every initial value
   (None included: the element type is abstract) the BehaviorSubject's complete
   log is the log of the broadcast specification in which a new subscriber of a
   live subject is greeted with the current value. *)
Theorem C21_refines_broadcast_spec :
  forall (A : Type) (pynone v0 : A) (h : list (@op A)),
  exists fuel0, forall fuel, (fuel0 <= fuel)%nat ->
    run_history (behavior_cls pynone) v0 fuel (h, []) = (spec KBehavior v0 h, true).
Proof. exact (fun A pynone v0 h => refines_spec pynone KBehavior v0 h). Qed.
Print Assumptions C21_refines_broadcast_spec.

Theorem C21_observer_view :
  forall (A : Type) (pynone v0 : A) (h : list (@op A)),
  exists fuel0, forall fuel, (fuel0 <= fuel)%nat ->
    snd (run_history (behavior_cls pynone) v0 fuel (h, [])) = true /\
    forall o, view o (fst (run_history (behavior_cls pynone) v0 fuel (h, [])))
              = oview KBehavior o Before (g_init v0) h.
Proof. exact (fun A pynone v0 h => class_observer_view pynone KBehavior v0 h). Qed.
Print Assumptions C21_observer_view.

(* the current value comes first: an observer subscribing to a live subject
   after the calls [pre] receives the last on_next value of [pre] (the initial
   value if there was none) BEFORE any later notification, then behaves as a
   Subject subscriber ([oview ... Active]) *)
Theorem C21_current_value_first :
  forall (A : Type) (v0 : A) (o : nat) (pre h : list (@op A)),
    no_sub o pre -> live (g_run (g_init v0) pre) = true ->
    oview KBehavior o Before (g_init v0) (pre ++ OSub o :: h) =
    Next (last_next v0 pre) :: oview KBehavior o Active (g_run (g_init v0) pre) h.
Proof. exact (@behavior_greeting). Qed.
Print Assumptions C21_current_value_first.

(* a subscriber arriving after termination receives only the terminal
   notification (no value); after dispose() only DisposedException *)
Theorem C21_late_subscriber :
  forall (A : Type) (o : nat) (g : @gstate A) (h : list (@op A)),
    live g = false -> oview KBehavior o Before g (OSub o :: h) = greet KBehavior g.
Proof. exact (fun A => late_subscriber KBehavior). Qed.
Print Assumptions C21_late_subscriber.

Theorem C21_late_subscriber_terminal :
  forall (A : Type) (g : @gstate A) (t : ev A), g_status g = Ended t -> greet KBehavior g = [t].
Proof. exact (@greet_ended_behavior). Qed.
Print Assumptions C21_late_subscriber_terminal.

Theorem C21_late_subscriber_disposed :
  forall (A : Type) (g : @gstate A), g_status g = Disposed -> greet KBehavior g = [Err disposed_exn].
Proof. exact (fun A => greet_disposed KBehavior). Qed.
Print Assumptions C21_late_subscriber_disposed.

(* ---- arbitrary call trees ---- *)
Theorem C21_views_wellformed :
  forall (A : Type) (pynone : A) (react : nat -> nat -> list (@op A)) (v0 : A) (top : list (@op A)) (fuel o : nat),
    wellformed (view o (log_of (run (behavior_cls pynone) react fuel (init_cfg v0 top)))) = true.
Proof. exact (fun A pynone react => views_wellformed (behavior_cls pynone) react). Qed.
Print Assumptions C21_views_wellformed.

Theorem C21_unsubscribed_gets_nothing_more :
  forall (A : Type) (pynone : A) (react : nat -> nat -> list (@op A)) s m k l o os n,
    m o = Some os -> handle os = true ->
    view o (log_of (run (behavior_cls pynone) react n (Cfg s m (IOp (OUnsub o) :: k) l))) = view o (rev l).
Proof. exact (fun A pynone react => unsubscribed_gets_nothing_more (behavior_cls pynone) react). Qed.
Print Assumptions C21_unsubscribed_gets_nothing_more.

Theorem C21_disposed_emit_raises :
  forall (A : Type) (pynone : A) (react : nat -> nat -> list (@op A)) (s : @sstate A) m k l p,
    is_disposed s = true -> is_emission p = true ->
    step (behavior_cls pynone) react (Cfg s m (IOp p :: k) l) = Cfg s m k (ERaised disposed_exn :: EOp p :: l).
Proof. exact (fun A pynone react => disposed_emit_raises pynone KBehavior react). Qed.
Print Assumptions C21_disposed_emit_raises.

Theorem C21_disposed_subscribe_fails :
  forall (A : Type) (pynone : A) (react : nat -> nat -> list (@op A)) (s : @sstate A) m k l o,
    is_disposed s = true -> m o = None ->
    step (behavior_cls pynone) react (Cfg s m (IOp (OSub o) :: k) l) =
    Cfg s (upd m o (called true fresh_ostate)) (map IOp (react o 0%nat) ++ ISubRet o None :: k)
        (EGot o (Err disposed_exn) :: EOp (OSub o) :: l).
Proof. exact (fun A pynone react => disposed_subscribe_fails pynone KBehavior react). Qed.
Print Assumptions C21_disposed_subscribe_fails.

Theorem C21_disposed_forever :
  forall (A : Type) (pynone : A) (react : nat -> nat -> list (@op A)) n (c : @cfg A),
    is_disposed (c_st c) = true -> is_disposed (c_st (run (behavior_cls pynone) react n c)) = true.
Proof. exact (fun A pynone react => disposed_forever pynone KBehavior react). Qed.
Print Assumptions C21_disposed_forever.


(* a subscribed observer stays registered: on every call tree, an observer whose
   wrapper is not stopped (it subscribed, has not unsubscribed, has received no
   terminal) is in the observer list of a live subject -- i.e. in the snapshot
   `self.observers.copy()` of the next emission *)
Theorem C21_subscribed_observer_is_in_the_snapshot :
  forall (A : Type) (pynone : A) (react : nat -> nat -> list (@op A)) (v0 : A) (top : list (@op A)) (fuel o : nat) os,
    let c := run (behavior_cls pynone) react fuel (init_cfg v0 top) in
    c_obs c o = Some os -> a_stopped os = false -> subject_live (c_st c) -> In o (observers (c_st c)).
Proof. exact (fun A pynone react v0 => live_observer_registered pynone KBehavior react v0). Qed.
Print Assumptions C21_subscribed_observer_is_in_the_snapshot.

Theorem C21_emission_goes_to_the_snapshot :
  forall (A : Type) (pynone : A) (s : @sstate A) (v : A),
    snd (c_next (behavior_cls pynone) s v) = map (fun o => IDeliver o (Next v)) (observers s).
Proof. exact (@behavior_next_snapshot). Qed.
Print Assumptions C21_emission_goes_to_the_snapshot.

(* ---- witnesses (pool ids: 0 = None, 1 = 0, 2 = False, 3 = '') ---- *)
(* initial value None handed to the first subscriber; the second one gets the
   last value; after completion the third gets only completion *)
Example C21_witness_flat :
  run_history (behavior_cls 0) 0 100
    ([OSub 0%nat; ONext 2; OSub 1%nat; ONext 3; ODone; OSub 2%nat], [])
  = ([EOp (OSub 0%nat); EGot 0%nat (Next 0); EOp (ONext 2); EGot 0%nat (Next 2);
      EOp (OSub 1%nat); EGot 1%nat (Next 2); EOp (ONext 3); EGot 0%nat (Next 3); EGot 1%nat (Next 3);
      EOp ODone; EGot 0%nat Done; EGot 1%nat Done; EOp (OSub 2%nat); EGot 2%nat Done], true).
Proof. vm_compute. reflexivity. Qed.

(* re-entrancy: observer 0 emits from inside the callback that hands it the
   current value (it is already registered, so it receives its own emission) *)
Example C21_witness_reentrant :
  run_history (behavior_cls 0) 7 100 ([OSub 0%nat; OSub 1%nat], [(0%nat, [[ONext 5]])])
  = ([EOp (OSub 0%nat); EGot 0%nat (Next 7); EOp (ONext 5); EGot 0%nat (Next 5);
      EOp (OSub 1%nat); EGot 1%nat (Next 5)], true).
Proof. vm_compute. reflexivity. Qed.

Example C21_witness_hyp :
  no_sub 1%nat [OSub 0%nat; ONext 2] /\ live (g_run (g_init 0) [OSub 0%nat; ONext 2]) = true
  /\ last_next 0 [OSub 0%nat; ONext 2] = 2.
Proof. split; [intros p [<-|[<-|[]]]; discriminate|split; reflexivity]. Qed.
