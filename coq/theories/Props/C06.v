(* C06 -- aggregating operators match their reference semantics.
   Primitive machines and the derived operators (composed exactly as the code
   pipes them) of Ops/Aggregates.v; for every finite input and termination. *)
From RxVerif Require Import Base.Prelude Ops.Machine Ops.MachineFacts Ops.ComposeFacts
  Ops.Elementwise Ops.Aggregates Ops.AggregatesFacts Ops.AggregatesMore
  Ops.Multi Ops.MultiCase Ops.SeqEqual Ops.SeqEqualFacts
  Ops.ElementwiseFacts Ops.ComposeTagged Ops.AggregatesTagged.

(* pipelines: what a two-stage pipeline delivers is what stage 2 delivers on
   stage 1's output -- for ARBITRARY input streams *)
Theorem C06_composition : forall A B C (m1 : mealy A B) (m2 : mealy B C) ins,
  untag (exec (compose m1 m2) ins) = untag (exec m2 (untag (exec m1 ins))).
Proof. exact @compose_exec. Qed.
Print Assumptions C06_composition.

Theorem C06_scan_seed : forall A S (f : S -> A -> S) seed (xs : list A) t,
  untag (exec (op_scan_seed (pure2 f) seed) (events xs t)) = events (scanl f seed xs) t.
Proof. exact @scan_seed_spec. Qed.
Print Assumptions C06_scan_seed.

Theorem C06_scan : forall A (f : A -> A -> A) (xs : list A) t,
  untag (exec (op_scan (pure2 f)) (events xs t))
  = match xs with [] => events [] t | x :: r => events (x :: scanl f x r) t end.
Proof. exact @scan_spec. Qed.
Print Assumptions C06_scan.

Theorem C06_reduce_seed : forall A S (f : S -> A -> S) seed (xs : list A) t,
  untag (exec (op_reduce_seed (pure2 f) seed) (events xs t))
  = match t with
    | TDone => [Next (fold_left f xs seed); Done]
    | TErr e => [Err e]
    | TNever => []
    end.
Proof. exact @reduce_seed_spec. Qed.
Print Assumptions C06_reduce_seed.

Theorem C06_reduce : forall A (f : A -> A -> A) (xs : list A) t,
  untag (exec (op_reduce (pure2 f)) (events xs t))
  = match t with
    | TDone => match xs with
               | [] => [Err EXN_NO_ELEMENTS]
               | x :: r => [Next (fold_left f r x); Done]
               end
    | TErr e => [Err e]
    | TNever => []
    end.
Proof. exact @reduce_spec. Qed.
Print Assumptions C06_reduce.

Theorem C06_count : forall A (xs : list A) t,
  untag (exec op_count (events xs t))
  = match t with TDone => [Next (zlen xs); Done] | TErr e => [Err e] | TNever => [] end.
Proof. exact @count_spec. Qed.
Print Assumptions C06_count.

Theorem C06_count_pred : forall A (p : A -> bool) (xs : list A) t,
  untag (exec (op_count_pred (pure p)) (events xs t))
  = match t with TDone => [Next (zlen (filter p xs)); Done] | TErr e => [Err e] | TNever => [] end.
Proof. exact @count_pred_spec. Qed.
Print Assumptions C06_count_pred.

Theorem C06_sum : forall (xs : list Z) t,
  untag (exec op_sum (events xs t))
  = match t with TDone => [Next (fold_left Z.add xs 0); Done] | TErr e => [Err e] | TNever => [] end.
Proof. exact sum_spec. Qed.
Print Assumptions C06_sum.

Theorem C06_last : forall A default (xs : list A) t,
  untag (exec (op_last default) (events xs t))
  = match t with
    | TDone => match last_opt xs None, default with
               | Some x, _ => [Next x; Done]
               | None, Some d => [Next d; Done]
               | None, None => [Err EXN_NO_ELEMENTS]
               end
    | TErr e => [Err e]
    | TNever => []
    end.
Proof. exact @last_spec. Qed.
Print Assumptions C06_last.

(* first: emitted (tag 1) at the first element, whatever follows *)
Theorem C06_first : forall A default (xs : list A) t,
  exec (op_first default) (events xs t)
  = match xs with
    | x :: _ => [(1%nat, Next x); (1%nat, Done)]
    | [] => match t with
            | TDone => match default with
                       | Some d => [(1%nat, Next d); (1%nat, Done)]
                       | None => [(1%nat, Err EXN_NO_ELEMENTS)]
                       end
            | TErr e => [(1%nat, Err e)]
            | TNever => []
            end
    end.
Proof. exact @first_spec. Qed.
Print Assumptions C06_first.

Theorem C06_single : forall A default (xs : list A) t,
  untag (exec (op_single default) (events xs t))
  = match xs with
    | [] => match t with
            | TDone => match default with Some d => [Next d; Done] | None => [Err EXN_NO_ELEMENTS] end
            | TErr e => [Err e]
            | TNever => []
            end
    | [x] => match t with TDone => [Next x; Done] | TErr e => [Err e] | TNever => [] end
    | _ :: _ :: _ => [Err EXN_MORE_THAN_ONE]
    end.
Proof. exact @single_spec. Qed.
Print Assumptions C06_single.

(* short-circuit: some emits at the deciding (first) element *)
Theorem C06_some : forall A (xs : list A) t,
  exec op_some (events xs t)
  = match xs with
    | _ :: _ => [(1%nat, Next true); (1%nat, Done)]
    | [] => match t with
            | TDone => [(1%nat, Next false); (1%nat, Done)]
            | TErr e => [(1%nat, Err e)]
            | TNever => []
            end
    end.
Proof. exact @some_spec. Qed.
Print Assumptions C06_some.

Theorem C06_some_pred : forall A (p : A -> bool) (xs : list A) t,
  untag (exec (op_some_pred (pure p)) (events xs t))
  = if existsb p xs then [Next true; Done]
    else match t with TDone => [Next false; Done] | TErr e => [Err e] | TNever => [] end.
Proof. exact @some_pred_spec. Qed.
Print Assumptions C06_some_pred.

Theorem C06_all : forall A (p : A -> bool) (xs : list A) t,
  untag (exec (op_all (pure p)) (events xs t))
  = if forallb p xs then match t with TDone => [Next true; Done] | TErr e => [Err e] | TNever => [] end
    else [Next false; Done].
Proof. exact @all_spec. Qed.
Print Assumptions C06_all.

Theorem C06_is_empty : forall A (xs : list A) t,
  untag (exec op_is_empty (events xs t))
  = match xs with
    | _ :: _ => [Next false; Done]
    | [] => match t with TDone => [Next true; Done] | TErr e => [Err e] | TNever => [] end
    end.
Proof. exact @is_empty_spec. Qed.
Print Assumptions C06_is_empty.

Theorem C06_to_list : forall A (xs : list A) t,
  untag (exec op_to_list (events xs t))
  = match t with TDone => [Next xs; Done] | TErr e => [Err e] | TNever => [] end.
Proof. exact @to_list_spec. Qed.
Print Assumptions C06_to_list.

(* ---- second batch ----------------------------------------------------------- *)
Theorem C06_contains : forall A (eqb : A -> A -> bool) (v : A) (xs : list A) t,
  untag (exec (op_contains (pure2 eqb) v) (events xs t))
  = if existsb (fun x => eqb x v) xs then [Next true; Done]
    else match t with TDone => [Next false; Done] | TErr e => [Err e] | TNever => [] end.
Proof. exact @contains_spec. Qed.
Print Assumptions C06_contains.

(* first / last / single with a predicate behave as the plain operator on the filtered input
   (whose closed forms are C06_first / C06_last / C06_single) *)
Theorem C06_first_pred : forall A (p : A -> bool) default (xs : list A) t,
  untag (exec (op_first_pred (pure p) default) (events xs t))
  = untag (exec (op_first default) (events (filter p xs) t)).
Proof. exact @first_pred_spec. Qed.
Print Assumptions C06_first_pred.
Theorem C06_last_pred : forall A (p : A -> bool) default (xs : list A) t,
  untag (exec (op_last_pred (pure p) default) (events xs t))
  = untag (exec (op_last default) (events (filter p xs) t)).
Proof. exact @last_pred_spec. Qed.
Print Assumptions C06_last_pred.
Theorem C06_single_pred : forall A (p : A -> bool) default (xs : list A) t,
  untag (exec (op_single_pred (pure p) default) (events xs t))
  = untag (exec (op_single default) (events (filter p xs) t)).
Proof. exact @single_pred_spec. Qed.
Print Assumptions C06_single_pred.

(* to_set: first occurrences in arrival order, once, at completion; sound and complete up to the comparer *)
Theorem C06_to_set : forall A eqb (xs : list A) t,
  untag (exec (op_to_set eqb) (events xs t))
  = match t with TDone => [Next (dedup eqb xs); Done] | TErr e => [Err e] | TNever => [] end.
Proof. exact @to_set_spec. Qed.
Print Assumptions C06_to_set.
Theorem C06_to_set_sound : forall A eqb (xs : list A) y, In y (dedup eqb xs) -> In y xs.
Proof. exact @dedup_sound. Qed.
Print Assumptions C06_to_set_sound.
Theorem C06_to_set_complete : forall A eqb (xs : list A), (forall x, eqb x x = true) ->
  forall x, In x xs -> exists y, In y (dedup eqb xs) /\ eqb x y = true.
Proof. exact @dedup_complete. Qed.
Print Assumptions C06_to_set_complete.

(* sequence_equal against an iterable: false at the first mismatch or surplus element, otherwise
   decided at completion; true exactly for pointwise-equal sequences of equal length *)
Theorem C06_sequence_equal_iter : forall A eqb (second xs : list A) t,
  untag (exec (op_sequence_equal_iter (pure2 eqb) second) (events xs t))
  = match se_run eqb second xs with
    | None => [Next false; Done]
    | Some q => match t with
                | TDone => [Next (match q with [] => true | _ => false end); Done]
                | TErr e => [Err e]
                | TNever => []
                end
    end.
Proof. exact @sequence_equal_iter_spec. Qed.
Print Assumptions C06_sequence_equal_iter.
Theorem C06_sequence_equal_true_iff : forall A eqb (qr xs : list A),
  se_run eqb qr xs = Some [] <-> Forall2 (fun v x => eqb v x = true) qr xs.
Proof. exact @se_run_true_iff. Qed.
Print Assumptions C06_sequence_equal_true_iff.

Theorem C06_sum_key : forall A (key : A -> Z) (xs : list A) t,
  untag (exec (op_sum_key (pure key)) (events xs t))
  = match t with TDone => [Next (fold_left Z.add (map key xs) 0); Done] | TErr e => [Err e] | TNever => [] end.
Proof. exact @sum_key_spec. Qed.
Print Assumptions C06_sum_key.

(* average as the exact pair (sum of keys, number of elements); empty input fails *)
Theorem C06_average : forall A (key : A -> Z) (xs : list A) t,
  untag (exec (op_average_pair (pure key)) (events xs t))
  = match t with
    | TDone => match xs with
               | [] => [Err EXN_NO_ELEMENTS]
               | _ => [Next (fold_left (fun (s : Z * Z) x => (fst s + x, snd s + 1)) (map key xs) (0, 0)); Done]
               end
    | TErr e => [Err e]
    | TNever => []
    end.
Proof. exact @average_pair_spec. Qed.
Print Assumptions C06_average.
Theorem C06_average_value : forall A (key : A -> Z) (xs : list A),
  fold_left (fun (s : Z * Z) x => (fst s + x, snd s + 1)) (map key xs) (0, 0)
  = (fold_left Z.add (map key xs) 0, Z.of_nat (length xs)).
Proof. exact @average_pair_value. Qed.
Print Assumptions C06_average_value.

(* max_by / min_by over integer keys: ALL elements whose key is extremal, in arrival order *)
Theorem C06_max_by : forall A (key : A -> Z) (xs : list A) t,
  exists items,
    untag (exec (op_max_by (pure key) (pure2 Z.sub)) (events xs t))
    = match t with TDone => [Next items; Done] | TErr e => [Err e] | TNever => [] end
    /\ match xs with
       | [] => items = []
       | _ => exists m, (forall y, In y xs -> key y <= m) /\ (exists y, In y xs /\ key y = m)
                        /\ items = filter (fun y => key y =? m) xs
       end.
Proof. exact @max_by_spec. Qed.
Print Assumptions C06_max_by.
Theorem C06_min_by : forall A (key : A -> Z) (xs : list A) t,
  exists items,
    untag (exec (op_min_by (pure key) (pure2 Z.sub)) (events xs t))
    = match t with TDone => [Next items; Done] | TErr e => [Err e] | TNever => [] end
    /\ match xs with
       | [] => items = []
       | _ => exists m, (forall y, In y xs -> m <= key y) /\ (exists y, In y xs /\ key y = m)
                        /\ items = filter (fun y => key y =? m) xs
       end.
Proof. exact @min_by_spec. Qed.
Print Assumptions C06_min_by.

(* max / min over integers (as the code builds them: max_by(identity) ; map(first)) *)
Theorem C06_max : forall (xs : list Z) t,
  untag (exec (op_max (pure2 Z.sub)) (events xs t))
  = match t with
    | TDone => match xs with [] => [Err EXN_NO_ELEMENTS] | x :: r => [Next (fold_left Z.max r x); Done] end
    | TErr e => [Err e]
    | TNever => []
    end.
Proof. exact max_spec. Qed.
Print Assumptions C06_max.
Theorem C06_min : forall (xs : list Z) t,
  untag (exec (op_min (pure2 Z.sub)) (events xs t))
  = match t with
    | TDone => match xs with [] => [Err EXN_NO_ELEMENTS] | x :: r => [Next (fold_left Z.min r x); Done] end
    | TErr e => [Err e]
    | TNever => []
    end.
Proof. exact min_spec. Qed.
Print Assumptions C06_min.

Example C06_witness_max_by :
  untag (exec (op_max_by (pure (fun x : Z => x mod 3)) (pure2 Z.sub)) (events [1; 5; 3; 2; 8] TDone))
  = [Next [5; 2; 8]; Done].
Proof. vm_compute. reflexivity. Qed.
Example C06_witness_sequence_equal :
  untag (exec (op_sequence_equal_iter (pure2 Z.eqb) [1; 2; 3]) (events [1; 2; 4; 9] TDone)) = [Next false; Done]
  /\ untag (exec (op_sequence_equal_iter (pure2 Z.eqb) [1; 2]) (events [1; 2] TDone)) = [Next true; Done].
Proof. vm_compute. split; reflexivity. Qed.

Example C06_witness_reduce :
  untag (exec (op_reduce_seed (pure2 Z.add) 10) (events [1; 2; 3] TDone)) = [Next 16; Done].
Proof. vm_compute. reflexivity. Qed.
Example C06_witness_single_fails_on_second :
  exec (op_single None) (events [1; 2; 3] TDone) = [(2%nat, Err EXN_MORE_THAN_ONE)].
Proof. vm_compute. reflexivity. Qed.

(* ---- comparer parameters ---------------------------------------------------------------------- *)
(* max_by / min_by (extrema_by) under ANY comparer that never raises and orders the keys by some rank
   (reversed order: rank = negation; order of residues: rank = x mod m; magnitudes other than +-1 are
   covered since only the sign of the comparer's result is constrained): all elements of extremal rank,
   in arrival order *)
Theorem C06_extrema_by_any_comparer : forall A (key : A -> Z) (cmp : Z -> Z -> res Z) (rank : Z -> Z),
  (forall a b, exists c, cmp a b = Ok c /\ (c >? 0) = (rank a >? rank b) /\ (c >=? 0) = (rank a >=? rank b)) ->
  forall (xs : list A) t,
  exists items,
    untag (exec (op_extrema_by (pure key) cmp) (events xs t))
    = match t with TDone => [Next items; Done] | TErr e => [Err e] | TNever => [] end
    /\ match xs with
       | [] => items = []
       | _ => exists m, (forall y, In y xs -> rank (key y) <= m)
                        /\ (exists y, In y xs /\ rank (key y) = m)
                        /\ items = filter (fun y => rank (key y) =? m) xs
       end.
Proof. exact @extrema_spec. Qed.
Print Assumptions C06_extrema_by_any_comparer.

(* ---- sequence_equal with an OBSERVABLE second argument (two-source machine Ops/SeqEqual.v) ------ *)
(* for EVERY interleaving of the two sources' notifications: the output is the first answer the two
   histories give (se_decide), emitted with completion at that very position; an error of either source
   passes through; nothing after dispose.  The comparer is assumed symmetric: the code hands it the two
   sides in either order. *)
Theorem C06_sequence_equal_observable : forall A (eqb : A -> A -> bool), (forall a b, eqb a b = eqb b a) ->
  forall ins : list (Z * inp A),
  temitted (fst (run (x_sequence_equal (pure2 eqb)) ins)) = se_spec eqb [] [] true true 1 ins.
Proof. exact @sequence_equal_refines_spec. Qed.
Print Assumptions C06_sequence_equal_observable.

(* the answer is true exactly when both sides are complete, equally long and pairwise equal ... *)
Theorem C06_sequence_equal_true_iff_both : forall A (eqb : A -> A -> bool) (L R : list A) dl dr,
  se_decide eqb L R dl dr = Some true
  <-> dl = true /\ dr = true /\ Forall2 (fun a b => eqb a b = true) L R.
Proof. exact @se_decide_true_iff. Qed.
Print Assumptions C06_sequence_equal_true_iff_both.
(* ... and false exactly when some pair present on both sides differs, or a complete side is the shorter one *)
Theorem C06_sequence_equal_false_iff : forall A (eqb : A -> A -> bool) (L R : list A) dl dr,
  se_decide eqb L R dl dr = Some false
  <-> agree eqb L R = false
      \/ (dl = true /\ (length L < length R)%nat)
      \/ (dr = true /\ (length R < length L)%nat).
Proof. exact @se_decide_false_iff. Qed.
Print Assumptions C06_sequence_equal_false_iff.

(* non-vacuity: second source ahead, mismatch decided when the FIRST source delivers its 2nd element;
   and an equal pair decided true at the later completion *)
Example C06_witness_sequence_equal_observable :
  temitted (fst (run (x_sequence_equal (pure2 Z.eqb))
                     [(0, ISrc 1%nat (Next 1)); (0, ISrc 1%nat (Next 2)); (0, ISrc 0%nat (Next 1));
                      (0, ISrc 0%nat (Next 3)); (0, ISrc 0%nat Done)]))
  = [(4%nat, Next false); (4%nat, Done)]
  /\ temitted (fst (run (x_sequence_equal (pure2 Z.eqb))
                        [(0, ISrc 0%nat (Next 1)); (0, ISrc 1%nat (Next 1)); (0, ISrc 1%nat Done);
                         (0, ISrc 0%nat Done)]))
     = [(4%nat, Next true); (4%nat, Done)].
Proof. vm_compute. split; reflexivity. Qed.
Example C06_witness_min_by_reversed_comparer :
  untag (exec (op_min_by (pure (fun x : Z => x mod 3)) (pure2 (fun a b => b - a))) (events [1; 5; 3; 2; 8] TDone))
  = [Next [5; 2; 8]; Done].
Proof. vm_compute. reflexivity. Qed.

(* ---- the deciding instant (Ops/ComposeTagged.v, Ops/AggregatesTagged.v) ----------------------------------
   TAGGED composition: a two-stage pipeline emits, at each input position, what stage 2 emits when it is fed
   stage 1's output, every reaction of stage 2 carrying the position of the stage-1 notification that caused
   it ([exec_tagged]); for ARBITRARY input streams.  Forgetting the positions gives C06_composition. *)
Theorem C06_composition_tagged : forall A B C (m1 : mealy A B) (m2 : mealy B C) ins,
  exec (compose m1 m2) ins = exec_tagged m2 (exec m1 ins).
Proof. exact @compose_exec_tagged. Qed.
Print Assumptions C06_composition_tagged.
Theorem C06_tagged_run_forgets_to_run : forall B C (m2 : mealy B C) (ins : list (nat * ev B)),
  untag (exec_tagged m2 ins) = untag (exec m2 (untag ins)).
Proof. exact @exec_tagged_untag. Qed.
Print Assumptions C06_tagged_run_forgets_to_run.

(* "short-circuiting aggregates emit at the element that decides them": position j = the j-th input *)
Theorem C06_all_at_deciding_element : forall A (p : A -> bool) (xs : list A) t,
  exec (op_all (pure p)) (events xs t)
  = match first_failing p (indexed 1 xs) with
    | Some (j, _) => [(j, Next false); (j, Done)]
    | None => at_end (S (length xs)) t true
    end.
Proof. exact @all_tagged. Qed.
Print Assumptions C06_all_at_deciding_element.

Theorem C06_some_pred_at_deciding_element : forall A (p : A -> bool) (xs : list A) t,
  exec (op_some_pred (pure p)) (events xs t)
  = match find (fun kx => p (snd kx)) (indexed 1 xs) with
    | Some (j, _) => [(j, Next true); (j, Done)]
    | None => at_end (S (length xs)) t false
    end.
Proof. exact @some_pred_tagged. Qed.
Print Assumptions C06_some_pred_at_deciding_element.

Theorem C06_contains_at_deciding_element : forall A (eqb : A -> A -> bool) (v : A) (xs : list A) t,
  exec (op_contains (pure2 eqb) v) (events xs t)
  = match find (fun kx => eqb (snd kx) v) (indexed 1 xs) with
    | Some (j, _) => [(j, Next true); (j, Done)]
    | None => at_end (S (length xs)) t false
    end.
Proof. exact @contains_tagged. Qed.
Print Assumptions C06_contains_at_deciding_element.

Theorem C06_is_empty_at_first_element : forall A (xs : list A) t,
  exec op_is_empty (events xs t)
  = match xs with
    | _ :: _ => [(1%nat, Next false); (1%nat, Done)]
    | [] => at_end 1 t true
    end.
Proof. exact @is_empty_tagged. Qed.
Print Assumptions C06_is_empty_at_first_element.

(* single fails WHEN THE SECOND ELEMENT ARRIVES (position 2), whatever follows *)
Theorem C06_single_fails_at_second_element : forall A default (xs : list A) t,
  exec (op_single default) (events xs t)
  = match xs with
    | [] => match t with
            | TDone => match default with Some d => [(1%nat, Next d); (1%nat, Done)]
                                        | None => [(1%nat, Err EXN_NO_ELEMENTS)] end
            | TErr e => [(1%nat, Err e)]
            | TNever => []
            end
    | [x] => at_end 2 t x
    | _ :: _ :: _ => [(2%nat, Err EXN_MORE_THAN_ONE)]
    end.
Proof. exact @single_tagged. Qed.
Print Assumptions C06_single_fails_at_second_element.

Theorem C06_first_pred_at_deciding_element : forall A (p : A -> bool) default (xs : list A) t,
  exec (op_first_pred (pure p) default) (events xs t)
  = match find (fun kx => p (snd kx)) (indexed 1 xs) with
    | Some (j, x) => [(j, Next x); (j, Done)]
    | None => match t with
              | TDone => match default with
                         | Some d => [(S (length xs), Next d); (S (length xs), Done)]
                         | None => [(S (length xs), Err EXN_NO_ELEMENTS)]
                         end
              | TErr e => [(S (length xs), Err e)]
              | TNever => []
              end
    end.
Proof. exact @first_pred_tagged. Qed.
Print Assumptions C06_first_pred_at_deciding_element.

(* sequence_equal(iterable): false at the first mismatching or surplus element, else decided at completion *)
Theorem C06_sequence_equal_iter_at_deciding_element : forall A eqb (second xs : list A) t,
  exec (op_sequence_equal_iter (pure2 eqb) second) (events xs t)
  = match se_mismatch_at eqb second xs 1 with
    | Some j => [(j, Next false); (j, Done)]
    | None => at_end (S (length xs)) t (match se_run eqb second xs with Some [] => true | _ => false end)
    end.
Proof. exact @sequence_equal_iter_tagged. Qed.
Print Assumptions C06_sequence_equal_iter_at_deciding_element.

(* ---- to_dict: nothing until the source completes, then { key(x): elem(x) } built by successive assignment
   (a later element with an equal key overwrites the value, the first key object stays), then completion *)
Theorem C06_to_dict : forall A K V (keq : K -> K -> bool) (key : A -> K) (el : A -> V) (xs : list A) t,
  untag (exec (op_to_dict keq (pure key) (pure el)) (events xs t))
  = match t with
    | TDone => [Next (fold_left (fun d x => dict_set keq d (key x) (el x)) xs []); Done]
    | TErr e => [Err e]
    | TNever => []
    end.
Proof. exact @to_dict_spec. Qed.
Print Assumptions C06_to_dict.
Theorem C06_to_dict_at_completion : forall A K V (keq : K -> K -> bool) (key : A -> K) (el : A -> V) (xs : list A) t,
  exec (op_to_dict keq (pure key) (pure el)) (events xs t)
  = at_end (S (length xs)) t (to_dict_list keq key el xs).
Proof. exact @to_dict_tagged. Qed.
Print Assumptions C06_to_dict_at_completion.
(* what the dictionary holds (key equality an equivalence): a lookup gives the value of the LAST element
   with that key, and nothing for a key no element has *)
Theorem C06_to_dict_lookup : forall A K V (keq : K -> K -> bool),
  (forall a b, keq a b = keq b a) -> (forall a b c, keq a b = true -> keq b c = true -> keq a c = true) ->
  forall (key : A -> K) (el : A -> V) (xs : list A) q,
  dict_get keq (to_dict_list keq key el xs) q = option_map el (find (fun x => keq (key x) q) (rev xs)).
Proof. exact @to_dict_lookup. Qed.
Print Assumptions C06_to_dict_lookup.

Example C06_witness_to_dict :
  untag (exec (op_to_dict Z.eqb (pure (fun x : Z => x mod 3)) (pure (fun x : Z => x * 10))) (events [1; 5; 4; 3] TDone))
  = [Next [(1, 40); (2, 50); (0, 30)]; Done].
Proof. vm_compute. reflexivity. Qed.
Example C06_witness_all_decided_early :
  exec (op_all (pure (fun x : Z => x <? 5))) (events [1; 2; 7; 3; 9] (TErr 4)) = [(3%nat, Next false); (3%nat, Done)]
  /\ exec (op_all (pure (fun x : Z => x <? 5))) (events [1; 2] TDone) = [(3%nat, Next true); (3%nat, Done)].
Proof. vm_compute. split; reflexivity. Qed.
