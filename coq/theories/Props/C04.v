(* C04 -- cold observables can be subscribed again with identical results.

   Model: Ops/Closure.v (closure levels factory -> apply -> subscribe -> handlers; cells allocated
   at a level are shared by everything created below it).  [alloc_table] is REGENERATED from
   /repo/reactivex on every run by harness/translate/alloc_tr.py (Gen/AllocTable.v): one row per
   allocation site of mutable per-use state with the level at which it is allocated and the deepest
   level at which it is written.  The unbounded part is the generic theorem; the table part is a
   finite check evaluated by the kernel on the generated table (the bound is the table itself). *)
From Coq Require Import List String ZArith Bool.
From RxVerif Require Import Ops.Closure Ops.ClosureFacts Gen.AllocTable.
Import ListNotations.
Open Scope string_scope.

(* For EVERY levelled program in which no code writes a factory- or application-level cell, in
   EVERY history (any number of applications and subscriptions, handler runs interleaved
   arbitrarily, overlapping subscriptions included) every subscription emits exactly what it would
   emit alone -- a fresh operator applied once and subscribed once, fed the same inputs --
   whatever earlier or concurrent subscriptions did. *)
Theorem C04_generic :
  forall (Src In Out F A S : Type) (p : lprog Src In Out F A S),
    frame_F _ _ _ _ _ _ p -> frame_A _ _ _ _ _ _ p ->
    forall h st t, exec_shared _ _ _ _ _ _ p (init_shared _ _ _ _ _ _ p) h = (st, t) ->
    forall j k s, nth_error (s_subs _ _ _ _ st) j = Some (k, s) ->
      exists src a, nth_error (s_apps _ _ _ _ st) k = Some (src, a)
                 /\ outs_of In Out j t = iso _ _ _ _ _ _ p src (ins_of In Out j t).
Proof. exact C04_generic_thm. Qed.
Print Assumptions C04_generic.

(* hence: two subscriptions of the same observable object that receive the same inputs (a cold
   source) emit the same outputs *)
Theorem C04_resubscribe :
  forall (Src In Out F A S : Type) (p : lprog Src In Out F A S),
    frame_F _ _ _ _ _ _ p -> frame_A _ _ _ _ _ _ p ->
    forall h st t, exec_shared _ _ _ _ _ _ p (init_shared _ _ _ _ _ _ p) h = (st, t) ->
    forall j1 j2 k s1 s2,
      nth_error (s_subs _ _ _ _ st) j1 = Some (k, s1) ->
      nth_error (s_subs _ _ _ _ st) j2 = Some (k, s2) ->
      ins_of In Out j1 t = ins_of In Out j2 t -> outs_of In Out j1 t = outs_of In Out j2 t.
Proof. exact C04_resubscribe_thm. Qed.
Print Assumptions C04_resubscribe.

(* THE TABLE CHECK on the generated table: no site of a non-multicasting, non-hot operator or
   creation function is allocated above subscription level and written below its allocation level
   (locks, scheduler services and the allowlisted benign sites excepted).  A source change that
   moves an allocation up makes this theorem fail to compile. *)
Theorem C04_table_check : forallb entry_ok_C04 alloc_table = true.
Proof. vm_compute. reflexivity. Qed.
Print Assumptions C04_table_check.

(* rows that pass the check describe programs to which the generic theorem applies: any program
   whose cells are the rows of an operator (allocation level = store, a_mut = deepest writer) *)
Theorem C04_table_sound :
  forall rows,
    forallb entry_ok_C04 rows = true -> forallb (fun e => negb (a_mc e || a_hot e)) rows = true ->
    forall (Src In Out S : Type) (p : lprog Src In Out store store S),
      described_by Src In Out S p (fcells rows) (acells rows) ->
      forall h st t, exec_shared _ _ _ _ _ _ p (init_shared _ _ _ _ _ _ p) h = (st, t) ->
      forall j1 j2 k s1 s2,
        nth_error (s_subs _ _ _ _ st) j1 = Some (k, s1) ->
        nth_error (s_subs _ _ _ _ st) j2 = Some (k, s2) ->
        ins_of In Out j1 t = ins_of In Out j2 t -> outs_of In Out j1 t = outs_of In Out j2 t.
Proof. exact C04_rows_sound_thm. Qed.
Print Assumptions C04_table_sound.

(* what the check does NOT cover, pinned: the operators excluded by the statement (multicast family
   and what is built on it) and the hot/terminal allowlist ... *)
Theorem C04_excluded_operators :
  map o_name (filter (fun o => o_multicast o || o_hot o) alloc_ops) =
  ["ops.multicast"; "ops.partition"; "ops.partition_indexed"; "ops.publish"; "ops.publish_value";
   "ops.ref_count"; "ops.replay"; "ops.share"; "ops.to_future";
   "rx.hot"; "rx.start"; "rx.start_async"; "rx.to_async"].
Proof. vm_compute. reflexivity. Qed.
Print Assumptions C04_excluded_operators.

(* ... and the benign allowlist (shared, but the sharing cannot be observed; see alloc_tr.py) *)
Theorem C04_benign_sites :
  map (fun e => (a_op e, a_name e))
      (filter (fun e => a_benign e && negb (a_mc e || a_hot e) && shared_above LSub e) alloc_table) =
  [("ops.repeat", "gen"); ("ops.skip_last_with_time", "duration"); ("ops.take_last_with_time", "duration")].
Proof. vm_compute. reflexivity. Qed.
Print Assumptions C04_benign_sites.

(* conversely: an application-level cell written by the handlers (the shape of the defects found in
   zip_with_iterable_, map_indexed_, catch_with_iterable_, on_error_resume_next_, while_do_, for_in,
   from_callback_ before they were repaired) distinguishes two subscriptions of one observable *)
Theorem C04_application_cell_refuted :
  let h := [EApply tt; ESub 0; ERun 0 tt; ESub 0; ERun 1 tt] in
  let t := trace_shared _ _ _ _ _ _ prog_app_iter h in
  ins_of _ _ 0 t = ins_of _ _ 1 t /\ outs_of _ _ 0 t = [0] /\ outs_of _ _ 1 t = [1].
Proof. exact app_cell_refuted. Qed.
Print Assumptions C04_application_cell_refuted.

(* the check is sensitive: the rows the unrepaired code produced are rejected *)
Example C04_check_rejects_application_iterator :
  entry_ok_C04 (mk_site "ops.zip_with_iterable" "reactivex/operators/_zip.py" 61 "second"
                        KIter LApply LHandler false false false false) = false
  /\ entry_ok_C04 (mk_site "ops.take" "reactivex/operators/_take.py" 39 "remaining"
                           KCell LApply LHandler false false false false) = false
  /\ entry_ok_C04 (mk_site "ops.take" "reactivex/operators/_take.py" 39 "remaining"
                           KCell LSub LHandler false false false false) = true.
Proof. vm_compute. repeat split. Qed.

(* non-vacuity: the table is populated, per-subscription state is really there, and the
   hypotheses of the generic theorem are satisfiable *)
Example C04_table_populated :
  (100 <=? List.length alloc_table)%nat = true
  /\ existsb (fun e => String.eqb (a_op e) "ops.take" && String.eqb (a_name e) "remaining"
                       && level_leb LSub (a_alloc e) && level_ltb (a_alloc e) (a_mut e)) alloc_table = true
  /\ existsb (fun e => String.eqb (a_op e) "rx.catch" && String.eqb (a_name e) "sources_"
                       && level_leb LSub (a_alloc e)) alloc_table = true.
Proof. vm_compute. repeat split. Qed.

Example C04_hypotheses_satisfiable :
  frame_F _ _ _ _ _ _ prog_sub_iter /\ frame_A _ _ _ _ _ _ prog_sub_iter.
Proof. exact sub_iter_frames. Qed.

(* ---- pipelines (Ops/ClosureCompose.v) ---------------------------------------------------- *)
From RxVerif Require Import Ops.ClosureCompose.

(* [lcompose g p1 p2] is the levelled program of source.pipe(op1, op2): operator value, application
   state and subscription state are the PAIRS of the two stages' (F1*F2, A1*A2, S1*S2), one handler
   run hands what p1 emits to p2's handler.  For ALL stage programs: if both stages respect the
   factory and application frames, so does the pipeline. *)
Theorem C04_compose_frames :
  forall (Src1 Src2 In Mid Out F1 A1 S1 F2 A2 S2 : Type) (g : Src1 -> Src2)
         (p1 : lprog Src1 In Mid F1 A1 S1) (p2 : lprog Src2 Mid Out F2 A2 S2),
    frame_F _ _ _ _ _ _ p1 -> frame_A _ _ _ _ _ _ p1 ->
    frame_F _ _ _ _ _ _ p2 -> frame_A _ _ _ _ _ _ p2 ->
    frame_F _ _ _ _ _ _ (lcompose g p1 p2) /\ frame_A _ _ _ _ _ _ (lcompose g p1 p2).
Proof. exact lcompose_frames. Qed.
Print Assumptions C04_compose_frames.

(* lcompose IS sequential composition: what a subscription of the pipeline emits alone is p2's
   isolated run on p1's isolated run (no frame hypothesis needed) *)
Theorem C04_compose_is_sequential :
  forall (Src1 Src2 In Mid Out F1 A1 S1 F2 A2 S2 : Type) (g : Src1 -> Src2)
         (p1 : lprog Src1 In Mid F1 A1 S1) (p2 : lprog Src2 Mid Out F2 A2 S2) src ins,
    iso _ _ _ _ _ _ (lcompose g p1 p2) src ins
    = iso _ _ _ _ _ _ p2 (g src) (iso _ _ _ _ _ _ p1 src ins).
Proof. exact lcompose_iso. Qed.
Print Assumptions C04_compose_is_sequential.

(* ANY finite pipeline -- [pipeline l] is fold_right of lcompose over the list l of stages (each
   stage packaged with its own state types), the empty pipeline being the identity program -- of
   stages that respect the frames respects them ... *)
Theorem C04_pipeline_frames :
  forall (Src X : Type) (l : list (stage Src X)),
    Forall stage_frames l -> stage_frames (pipeline l).
Proof. exact pipeline_frames. Qed.
Print Assumptions C04_pipeline_frames.

(* ... so C04_generic applies to it: in EVERY history every subscription of the pipeline emits the
   stages' isolated runs applied one after the other to the inputs it received ... *)
Theorem C04_pipeline_generic :
  forall (Src X : Type) (l : list (stage Src X)), Forall stage_frames l ->
    forall h st t,
      exec_shared _ _ _ _ _ _ (st_prog (pipeline l)) (init_shared _ _ _ _ _ _ (st_prog (pipeline l))) h = (st, t) ->
    forall j k s, nth_error (s_subs _ _ _ _ st) j = Some (k, s) ->
      exists src a, nth_error (s_apps _ _ _ _ st) k = Some (src, a)
                 /\ outs_of X X j t = pipeline_iso l src (ins_of X X j t).
Proof. exact pipeline_generic. Qed.
Print Assumptions C04_pipeline_generic.

(* ... and C04_resubscribe: two subscriptions of one piped observable on the same inputs agree *)
Theorem C04_pipeline_resubscribe :
  forall (Src X : Type) (l : list (stage Src X)), Forall stage_frames l ->
    forall h st t,
      exec_shared _ _ _ _ _ _ (st_prog (pipeline l)) (init_shared _ _ _ _ _ _ (st_prog (pipeline l))) h = (st, t) ->
    forall j1 j2 k s1 s2,
      nth_error (s_subs _ _ _ _ st) j1 = Some (k, s1) ->
      nth_error (s_subs _ _ _ _ st) j2 = Some (k, s2) ->
      ins_of X X j1 t = ins_of X X j2 t -> outs_of X X j1 t = outs_of X X j2 t.
Proof. exact pipeline_resubscribe. Qed.
Print Assumptions C04_pipeline_resubscribe.

(* the same for pipelines whose element type changes from stage to stage ([chain Src X Z]: a
   type-indexed list of stages, [chain_prog] folds lcompose over it) *)
Theorem C04_chain_generic :
  forall (Src X Z : Type) (c : chain Src X Z), chain_frames Src c ->
    forall h st t,
      exec_shared _ _ _ _ _ _ (chain_prog Src c) (init_shared _ _ _ _ _ _ (chain_prog Src c)) h = (st, t) ->
    forall j k s, nth_error (s_subs _ _ _ _ st) j = Some (k, s) ->
      exists src a, nth_error (s_apps _ _ _ _ st) k = Some (src, a)
                 /\ outs_of X Z j t = chain_iso Src c src (ins_of X Z j t).
Proof. exact chain_generic. Qed.
Print Assumptions C04_chain_generic.

Theorem C04_chain_resubscribe :
  forall (Src X Z : Type) (c : chain Src X Z), chain_frames Src c ->
    forall h st t,
      exec_shared _ _ _ _ _ _ (chain_prog Src c) (init_shared _ _ _ _ _ _ (chain_prog Src c)) h = (st, t) ->
    forall j1 j2 k s1 s2,
      nth_error (s_subs _ _ _ _ st) j1 = Some (k, s1) ->
      nth_error (s_subs _ _ _ _ st) j2 = Some (k, s2) ->
      ins_of X Z j1 t = ins_of X Z j2 t -> outs_of X Z j1 t = outs_of X Z j2 t.
Proof. exact chain_resubscribe. Qed.
Print Assumptions C04_chain_resubscribe.

(* non-vacuity: a three-stage pipeline (index adder | running sum | index adder, all with real
   per-subscription state) satisfies the hypothesis; two overlapping subscriptions fed different
   inputs each emit their own isolated run; and a two-stage chain whose element type changes *)
Example C04_pipeline_hypothesis_satisfiable : Forall stage_frames stages3.
Proof. exact stages3_frames. Qed.

Example C04_pipeline_witness :
  let h := [EApply tt; ESub 0; ERun 0 5%Z; ESub 0; ERun 1 5%Z; ERun 0 7%Z; ERun 1 1%Z; ERun 0 1%Z] in
  let t := trace_shared _ _ _ _ _ _ (st_prog (pipeline stages3)) h in
  outs_of _ _ 0 t = [5%Z; 14%Z; 18%Z] /\ outs_of _ _ 1 t = [5%Z; 8%Z]
  /\ pipeline_iso stages3 tt [5%Z; 7%Z; 1%Z] = [5%Z; 14%Z; 18%Z].
Proof. exact stages3_witness. Qed.

Example C04_chain_hypothesis_satisfiable : chain_frames unit chain_take_count.
Proof. exact chain_take_count_frames. Qed.

Example C04_chain_witness :
  let h := [EApply tt; ESub 0; ERun 0 10%Z; ESub 0; ERun 0 11%Z; ERun 1 20%Z; ERun 0 12%Z] in
  let t := trace_shared _ _ _ _ _ _ (chain_prog unit chain_take_count) h in
  outs_of _ _ 0 t = [1; 3; 3] /\ outs_of _ _ 1 t = [1].
Proof. exact chain_take_count_witness. Qed.

(* ---- the hypothesis of C04_table_sound is satisfiable at a real row set --------------------
   [prog_take count] models reactivex/operators/_take.py line by line in the store format of
   [described_by] (factory store = the captured `count`, read only; empty application store;
   subscription state = `remaining`); it IS described by the rows of "ops.take" of the generated
   table (whose only site, `remaining`, is allocated by subscribe) for every count *)
Example C04_table_sound_hypothesis_satisfiable :
  forall count,
    described_by unit Z (list (option Z)) Z (prog_take count)
      (fcells (rows_of "ops.take" alloc_table)) (acells (rows_of "ops.take" alloc_table)).
Proof. exact take_described. Qed.

Example C04_take_rows :
  fcells (rows_of "ops.take" alloc_table) = [] /\ acells (rows_of "ops.take" alloc_table) = []
  /\ existsb (fun e => String.eqb (a_name e) "remaining" && level_leb LSub (a_alloc e))
             (rows_of "ops.take" alloc_table) = true.
Proof. exact take_rows_cells. Qed.

(* so C04_table_sound yields, through the rows of ops.take, the re-subscription theorem for it *)
Theorem C04_take_resubscribe :
  forall count h st t,
    exec_shared _ _ _ _ _ _ (prog_take count) (init_shared _ _ _ _ _ _ (prog_take count)) h = (st, t) ->
    forall j1 j2 k s1 s2,
      nth_error (s_subs _ _ _ _ st) j1 = Some (k, s1) ->
      nth_error (s_subs _ _ _ _ st) j2 = Some (k, s2) ->
      ins_of _ _ j1 t = ins_of _ _ j2 t -> outs_of _ _ j1 t = outs_of _ _ j2 t.
Proof. exact take_resubscribe. Qed.
Print Assumptions C04_take_resubscribe.

(* and its runs are not trivial: two overlapping subscriptions of take(2) applied once *)
Example C04_take_witness :
  let h := [EApply tt; ESub 0; ERun 0 10%Z; ESub 0; ERun 1 20%Z; ERun 0 11%Z; ERun 0 12%Z; ERun 1 21%Z; ERun 1 22%Z] in
  let t := trace_shared _ _ _ _ _ _ (prog_take 2) h in
  outs_of _ _ 0 t = [[Some 10%Z]; [Some 11%Z; None]; []]
  /\ outs_of _ _ 1 t = [[Some 20%Z]; [Some 21%Z; None]; []].
Proof. exact take_witness. Qed.

(* ---- a second program at the rows of the table: ops.skip (Ops/ClosureSkip.v) --------------
   [prog_skip count] models reactivex/operators/_skip.py in the same store format; both concrete
   programs are run against the real operators on generated histories of overlapping
   subscriptions (family closure_progs of harness/props/C04.py, through [run_prog]) *)
From RxVerif Require Import Ops.ClosureSkip.

Example C04_skip_described :
  forall count,
    described_by unit Z (list (option Z)) Z (prog_skip count)
      (fcells (rows_of "ops.skip" alloc_table)) (acells (rows_of "ops.skip" alloc_table)).
Proof. exact skip_described. Qed.

Theorem C04_skip_resubscribe :
  forall count h st t,
    exec_shared _ _ _ _ _ _ (prog_skip count) (init_shared _ _ _ _ _ _ (prog_skip count)) h = (st, t) ->
    forall j1 j2 k s1 s2,
      nth_error (s_subs _ _ _ _ st) j1 = Some (k, s1) ->
      nth_error (s_subs _ _ _ _ st) j2 = Some (k, s2) ->
      ins_of _ _ j1 t = ins_of _ _ j2 t -> outs_of _ _ j1 t = outs_of _ _ j2 t.
Proof. exact skip_resubscribe. Qed.
Print Assumptions C04_skip_resubscribe.

Example C04_skip_witness :
  let h := [EApply tt; ESub 0; ERun 0 10%Z; ESub 0; ERun 1 20%Z; ERun 0 11%Z; ERun 1 21%Z; ERun 0 12%Z] in
  let t := trace_shared _ _ _ _ _ _ (prog_skip 1) h in
  outs_of _ _ 0 t = [[]; [Some 11%Z]; [Some 12%Z]]
  /\ outs_of _ _ 1 t = [[]; [Some 21%Z]].
Proof. exact skip_witness. Qed.

(* what one subscription alone emits, in closed form: every subscription of a fresh skip(count)
   emits the inputs after the first count; of a fresh take(count), count >= 1, the first count
   inputs and the completion exactly when count inputs have arrived *)
Theorem C04_skip_iso_closed :
  forall count ins,
    List.concat (iso _ _ _ _ _ _ (prog_skip count) tt ins)
    = map Some (RxVerif.Base.Prelude.zskip count ins).
Proof. exact skip_iso_closed. Qed.
Print Assumptions C04_skip_iso_closed.

Theorem C04_take_iso_closed :
  forall count ins, (0 < count)%Z ->
    List.concat (iso _ _ _ _ _ _ (prog_take count) tt ins)
    = map Some (RxVerif.Base.Prelude.ztake count ins)
      ++ (if (Z.of_nat (List.length ins) >=? count)%Z then [None] else []).
Proof. exact take_iso_closed. Qed.
Print Assumptions C04_take_iso_closed.
