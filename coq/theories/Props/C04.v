(* C04 -- cold observables can be subscribed again with identical results.

   Model: Ops/Closure.v (closure levels factory -> apply -> subscribe -> handlers; cells allocated
   at a level are shared by everything created below it).  [alloc_table] is REGENERATED from
   /repo/reactivex on every run by harness/translate/alloc_tr.py (Gen/AllocTable.v): one row per
   allocation site of mutable per-use state with the level at which it is allocated and the deepest
   level at which it is written.  The unbounded part is the generic theorem; the table part is a
   finite check evaluated by the kernel on the generated table (the bound is the table itself). *)
From Coq Require Import List String ZArith Bool.
From RxVerif Require Import Ops.Closure Ops.ClosureFacts Gen.AllocTable.
Import ListNotations.
Open Scope string_scope.

(* For EVERY levelled program in which no code writes a factory- or application-level cell, in
   EVERY history (any number of applications and subscriptions, handler runs interleaved
   arbitrarily, overlapping subscriptions included) every subscription emits exactly what it would
   emit alone -- a fresh operator applied once and subscribed once, fed the same inputs --
   whatever earlier or concurrent subscriptions did. *)
Theorem C04_generic :
  forall (Src In Out F A S : Type) (p : lprog Src In Out F A S),
    frame_F _ _ _ _ _ _ p -> frame_A _ _ _ _ _ _ p ->
    forall h st t, exec_shared _ _ _ _ _ _ p (init_shared _ _ _ _ _ _ p) h = (st, t) ->
    forall j k s, nth_error (s_subs _ _ _ _ st) j = Some (k, s) ->
      exists src a, nth_error (s_apps _ _ _ _ st) k = Some (src, a)
                 /\ outs_of In Out j t = iso _ _ _ _ _ _ p src (ins_of In Out j t).
Proof. exact C04_generic_thm. Qed.
Print Assumptions C04_generic.

(* hence: two subscriptions of the same observable object that receive the same inputs (a cold
   source) emit the same outputs *)
Theorem C04_resubscribe :
  forall (Src In Out F A S : Type) (p : lprog Src In Out F A S),
    frame_F _ _ _ _ _ _ p -> frame_A _ _ _ _ _ _ p ->
    forall h st t, exec_shared _ _ _ _ _ _ p (init_shared _ _ _ _ _ _ p) h = (st, t) ->
    forall j1 j2 k s1 s2,
      nth_error (s_subs _ _ _ _ st) j1 = Some (k, s1) ->
      nth_error (s_subs _ _ _ _ st) j2 = Some (k, s2) ->
      ins_of In Out j1 t = ins_of In Out j2 t -> outs_of In Out j1 t = outs_of In Out j2 t.
Proof. exact C04_resubscribe_thm. Qed.
Print Assumptions C04_resubscribe.

(* THE TABLE CHECK on the generated table: no site of a non-multicasting, non-hot operator or
   creation function is allocated above subscription level and written below its allocation level
   (locks, scheduler services and the allowlisted benign sites excepted).  A source change that
   moves an allocation up makes this theorem fail to compile. *)
Theorem C04_table_check : forallb entry_ok_C04 alloc_table = true.
Proof. vm_compute. reflexivity. Qed.
Print Assumptions C04_table_check.

(* rows that pass the check describe programs to which the generic theorem applies: any program
   whose cells are the rows of an operator (allocation level = store, a_mut = deepest writer) *)
Theorem C04_table_sound :
  forall rows,
    forallb entry_ok_C04 rows = true -> forallb (fun e => negb (a_mc e || a_hot e)) rows = true ->
    forall (Src In Out S : Type) (p : lprog Src In Out store store S),
      described_by Src In Out S p (fcells rows) (acells rows) ->
      forall h st t, exec_shared _ _ _ _ _ _ p (init_shared _ _ _ _ _ _ p) h = (st, t) ->
      forall j1 j2 k s1 s2,
        nth_error (s_subs _ _ _ _ st) j1 = Some (k, s1) ->
        nth_error (s_subs _ _ _ _ st) j2 = Some (k, s2) ->
        ins_of In Out j1 t = ins_of In Out j2 t -> outs_of In Out j1 t = outs_of In Out j2 t.
Proof. exact C04_rows_sound_thm. Qed.
Print Assumptions C04_table_sound.

(* what the check does NOT cover, pinned: the operators excluded by the statement (multicast family
   and what is built on it) and the hot/terminal allowlist ... *)
Theorem C04_excluded_operators :
  map o_name (filter (fun o => o_multicast o || o_hot o) alloc_ops) =
  ["ops.multicast"; "ops.partition"; "ops.partition_indexed"; "ops.publish"; "ops.publish_value";
   "ops.ref_count"; "ops.replay"; "ops.share"; "ops.to_future";
   "rx.hot"; "rx.start"; "rx.start_async"; "rx.to_async"].
Proof. vm_compute. reflexivity. Qed.
Print Assumptions C04_excluded_operators.

(* ... and the benign allowlist (shared, but the sharing cannot be observed; see alloc_tr.py) *)
Theorem C04_benign_sites :
  map (fun e => (a_op e, a_name e))
      (filter (fun e => a_benign e && negb (a_mc e || a_hot e) && shared_above LSub e) alloc_table) =
  [("ops.repeat", "gen"); ("ops.skip_last_with_time", "duration"); ("ops.take_last_with_time", "duration")].
Proof. vm_compute. reflexivity. Qed.
Print Assumptions C04_benign_sites.

(* conversely: an application-level cell written by the handlers (the shape of the defects found in
   zip_with_iterable_, map_indexed_, catch_with_iterable_, on_error_resume_next_, while_do_, for_in,
   from_callback_ before they were repaired) distinguishes two subscriptions of one observable *)
Theorem C04_application_cell_refuted :
  let h := [EApply tt; ESub 0; ERun 0 tt; ESub 0; ERun 1 tt] in
  let t := trace_shared _ _ _ _ _ _ prog_app_iter h in
  ins_of _ _ 0 t = ins_of _ _ 1 t /\ outs_of _ _ 0 t = [0] /\ outs_of _ _ 1 t = [1].
Proof. exact app_cell_refuted. Qed.
Print Assumptions C04_application_cell_refuted.

(* the check is sensitive: the rows the unrepaired code produced are rejected *)
Example C04_check_rejects_application_iterator :
  entry_ok_C04 (mk_site "ops.zip_with_iterable" "reactivex/operators/_zip.py" 61 "second"
                        KIter LApply LHandler false false false false) = false
  /\ entry_ok_C04 (mk_site "ops.take" "reactivex/operators/_take.py" 39 "remaining"
                           KCell LApply LHandler false false false false) = false
  /\ entry_ok_C04 (mk_site "ops.take" "reactivex/operators/_take.py" 39 "remaining"
                           KCell LSub LHandler false false false false) = true.
Proof. vm_compute. repeat split. Qed.

(* non-vacuity: the table is populated, per-subscription state is really there, and the
   hypotheses of the generic theorem are satisfiable *)
Example C04_table_populated :
  (100 <=? List.length alloc_table)%nat = true
  /\ existsb (fun e => String.eqb (a_op e) "ops.take" && String.eqb (a_name e) "remaining"
                       && level_leb LSub (a_alloc e) && level_ltb (a_alloc e) (a_mut e)) alloc_table = true
  /\ existsb (fun e => String.eqb (a_op e) "rx.catch" && String.eqb (a_name e) "sources_"
                       && level_leb LSub (a_alloc e)) alloc_table = true.
Proof. vm_compute. repeat split. Qed.

Example C04_hypotheses_satisfiable :
  frame_F _ _ _ _ _ _ prog_sub_iter /\ frame_A _ _ _ _ _ _ prog_sub_iter.
Proof. exact sub_iter_frames. Qed.
