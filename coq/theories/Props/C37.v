(* C37 -- source factories emit their specified sequences.
   Machines (Ops/Sources.v, written from observable/{range,fromiterable,
   returnvalue,empty,never,throw,generate,generatewithrelativetime,timer,
   repeat}.py) on the subscription runner Ops/Multi.v.  Each factory hands its
   work to a scheduler; a machine's inputs are the firings of the timers it
   scheduled (tag = scheduling order, each with its delay in the trace) and the
   dispose instant.  [tick_ins 0 nows] fires the timers in scheduling order at
   the clock readings [nows]; positions in the tagged outputs are firing
   numbers (1 = first firing; 0 = inside subscribe()).
   Time: a timer's delay is part of the trace, the firing instants are inputs;
   "emitted at d" reads "emitted by the firing of the timer scheduled with delay
   d".  The K2 correspondence fires every timer exactly when due. *)
From RxVerif Require Import Base.Prelude Ops.Machine Ops.MachineFacts Ops.Multi Ops.MultiFacts Ops.MultiCase
  Ops.Sources Ops.SourcesFacts Ops.SourcesFacts2.

(* ---- range ---------------------------------------------------------------- *)
(* Python's range: the closed form by length (CPython's get_len_of_range) IS the
   loop  x = start; while (x < stop if step > 0 else x > stop): yield x; x += step *)
Theorem C37_py_range_is_the_python_loop : forall step stop, step <> 0 -> forall fuel start,
  (Z.to_nat (range_len start stop step) <= fuel)%nat ->
  range_loop fuel start stop step = py_range start stop step.
Proof. exact py_range_is_loop. Qed.
Print Assumptions C37_py_range_is_the_python_loop.

Theorem C37_py_range_elements : forall a b s i, (i < length (py_range a b s))%nat ->
  nth i (py_range a b s) 0 = a + Z.of_nat i * s.
Proof. exact py_range_nth. Qed.
Print Assumptions C37_py_range_elements.

Theorem C37_py_range_bound : forall a b s x, s <> 0 -> In x (py_range a b s) ->
  if 0 <? s then x < b else b < x.
Proof. exact py_range_bound. Qed.
Print Assumptions C37_py_range_bound.

(* for ALL integers start, stop and every step <> 0 (empty ranges, negative steps): firing i
   emits the i-th element of the Python range, the firing after the last one
   completes.  step = 0 is OUTSIDE: Python's range() -- hence the factory, before anything can be
   subscribed -- raises ValueError, while [range_len] is totalised to 0 there
   (C37_range_zero_step_is_outside: without the hypothesis the statement would read "no element, then
   completion" for the wrong reason) *)
Theorem C37_range_emits_python_range : forall a b s, s <> 0 ->
  let n := Z.to_nat (range_len a b s) in
  temitted (fst (run (x_range a b s) (tick_ins 0 (zeros (S n)))))
  = nexts (indexed 1 (py_range a b s)) ++ [(S n, Done)].
Proof. exact range_spec_nonzero_step. Qed.
Print Assumptions C37_range_emits_python_range.

Theorem C37_range_zero_step_is_outside : forall a b, range_len a b 0 = 0 /\ py_range a b 0 = [].
Proof. exact range_zero_step_totalised. Qed.
Print Assumptions C37_range_zero_step_is_outside.

Example C37_range_zero_step_example :
  range_len 0 5 0 = 0 /\ emitted (fst (run (x_range 0 5 0) (tick_ins 0 (zeros 1)))) = [Done].
Proof. vm_compute. auto. Qed.

(* the factory's argument conventions: range(a), range(a, b), range(a, b, s),
   range(a, None, s) *)
Theorem C37_range_argument_conventions : forall a b s,
  x_range_py a None None = x_range 0 a 1 /\ x_range_py a (Some b) None = x_range a b 1
  /\ x_range_py a (Some b) (Some s) = x_range a b s /\ x_range_py a None (Some s) = x_range a maxsize s.
Proof. intros; repeat split. Qed.
Print Assumptions C37_range_argument_conventions.

Example C37_range_negative_step : py_range 7 (-2) (-3) = [7; 4; 1].
Proof. vm_compute. reflexivity. Qed.
Example C37_range_empty : py_range 3 3 1 = [] /\ py_range 3 8 (-1) = [].
Proof. vm_compute. auto. Qed.
Example C37_range_run :
  run_canon (x_range 7 (-2) (-3)) (tick_ins 0 (zeros 4))
  = [(0%nat, OTimer 0%nat 0); (1%nat, OEmit (Next 7)); (1%nat, OTimer 1%nat 0); (2%nat, OEmit (Next 4));
     (2%nat, OTimer 2%nat 0); (3%nat, OEmit (Next 1)); (3%nat, OTimer 3%nat 0); (4%nat, OEmit Done)].
Proof. vm_compute. reflexivity. Qed.

(* ---- from_iterable / of ----------------------------------------------------- *)
Theorem C37_from_iterable_emits_items : forall spy vs tl now,
  (tl = [] \/ exists e r, tl = Raise e :: r) ->
  temitted (fst (run (x_from_iterable spy (map Ok vs ++ tl) None) [(now, ITick 0%nat)]))
  = map (fun v => (1%nat, Next v)) vs ++ [(1%nat, match tl with Raise e :: _ => Err e | _ => Done end)].
Proof. exact from_iterable_spec. Qed.
Print Assumptions C37_from_iterable_emits_items.

(* the `disposed` flag between elements *)
Theorem C37_from_iterable_stops_pulling_when_disposed : forall vs k tl now, (0 < k <= length vs)%nat ->
  let tr := fst (run (x_from_iterable true (map Ok vs ++ tl) (Some k)) [(now, ITick 0%nat)]) in
  temitted tr = map (fun v => (1%nat, Next v)) (firstn k vs)
  /\ flat_map (fun x => match snd x with OEffect n => [n] | _ => [] end) tr
     = map (fun j => e_pull (Z.of_nat j)) (seq 0 k).
Proof. exact from_iterable_disposed_flag. Qed.
Print Assumptions C37_from_iterable_stops_pulling_when_disposed.

(* ---- return_value, empty, never, throw -------------------------------------- *)
Theorem C37_return_value : forall v now,
  fst (run (x_return_value v) [(now, ITick 0%nat)])
  = [(0%nat, OTimer 0%nat 0); (1%nat, OEmit (Next v)); (1%nat, OEmit Done)].
Proof. exact return_value_spec. Qed.
Theorem C37_empty : forall now, fst (run x_empty [(now, ITick 0%nat)]) = [(0%nat, OTimer 0%nat 0); (1%nat, OEmit Done)].
Proof. exact empty_spec. Qed.
Theorem C37_throw : forall e now,
  fst (run (x_throw e) [(now, ITick 0%nat)]) = [(0%nat, OTimer 0%nat 0); (1%nat, OEmit (Err e))].
Proof. exact throw_spec. Qed.
Theorem C37_never : forall ins, fst (run x_never ins) = [].
Proof. exact never_spec. Qed.
Print Assumptions C37_return_value.
Print Assumptions C37_empty.
Print Assumptions C37_throw.
Print Assumptions C37_never.

(* ---- generate ---------------------------------------------------------------- *)
(* pure condition / iterate, loop exiting within fewer than [fuel] iterations *)
Theorem C37_generate_emits_while_loop_states : forall (c : Z -> bool) (f : Z -> Z) init fuel,
  let ws := while_states fuel c f init in
  (length ws < fuel)%nat ->
  temitted (fst (run (x_generate init (fun x => Ok (c x)) (fun x => Ok (f x)))
                     (tick_ins 0 (zeros (S (length ws))))))
  = nexts (indexed 1 ws) ++ [(S (length ws), Done)].
Proof. exact generate_spec. Qed.
Print Assumptions C37_generate_emits_while_loop_states.

(* arbitrary (raising) callbacks, any number of firings: the fuelled loop *)
Theorem C37_generate_with_raising_callbacks : forall init cond iter n,
  temitted (fst (run (x_generate init cond iter) (tick_ins 0 (zeros n)))) = gen_ref cond iter n true init 1.
Proof. exact generate_ref_spec. Qed.
Print Assumptions C37_generate_with_raising_callbacks.

Example C37_generate_terminating_loop :
  let c := fun x => x <? 3 in let f := fun x => x + 1 in
  while_states 10 c f 0 = [0; 1; 2] /\ (length (while_states 10 c f 0) < 10)%nat.
Proof. vm_compute. split; [reflexivity|lia]. Qed.

(* ---- generate_with_relative_time ---------------------------------------------- *)
Theorem C37_generate_with_relative_time : forall (c : Z -> bool) (f d : Z -> Z) init fuel nows,
  let ws := while_states fuel c f init in
  (length ws < fuel)%nat -> length nows = S (length ws) ->
  let tr := fst (run (x_gwrt init (fun x => Ok (c x)) (fun x => Ok (f x)) (fun x => Ok (d x))) (tick_ins 0 nows)) in
  temitted tr = nexts (indexed 2 ws) ++ [(S (length ws), Done)]
  /\ ttimers tr = (0%nat, (0%nat, 0)) :: map (fun p => (S (fst p), (S (fst p), d (snd p)))) (indexed 0 ws).
Proof. exact gwrt_spec. Qed.
Print Assumptions C37_generate_with_relative_time.

(* instants: when every timer fires exactly when due ([on_time]: the timer scheduled during firing k
   with delay dl fires at the instant of firing k plus max(dl, 0); t0 = the subscription instant), the
   firing that emits the i-th state x_i (firing i+2) happens at t0 + d(x_0) + ... + d(x_i) *)
Theorem C37_gwrt_times : forall (c : Z -> bool) (f d : Z -> Z) init fuel nows t0,
  let ws := while_states fuel c f init in
  (length ws < fuel)%nat -> length nows = S (length ws) ->
  let tr := fst (run (x_gwrt init (fun x => Ok (c x)) (fun x => Ok (f x)) (fun x => Ok (d x))) (tick_ins 0 nows)) in
  on_time t0 tr nows ->
  forall i, (i <= length ws)%nat -> firing_instant t0 nows (S i) = t0 + delays_sum d (firstn i ws).
Proof. exact gwrt_times. Qed.
Print Assumptions C37_gwrt_times.

Theorem C37_gwrt_emission_instants : forall (c : Z -> bool) (f d : Z -> Z) init fuel nows t0,
  let ws := while_states fuel c f init in
  (length ws < fuel)%nat -> length nows = S (length ws) ->
  let tr := fst (run (x_gwrt init (fun x => Ok (c x)) (fun x => Ok (f x)) (fun x => Ok (d x))) (tick_ins 0 nows)) in
  on_time t0 tr nows ->
  temitted tr = nexts (indexed 2 ws) ++ [(S (length ws), Done)]
  /\ forall i, (i < length ws)%nat -> firing_instant t0 nows (2 + i) = t0 + delays_sum d (firstn (S i) ws).
Proof. exact gwrt_emission_instants. Qed.
Print Assumptions C37_gwrt_emission_instants.

(* the hypotheses are satisfiable: states 0, 1, 2 with delays 10, 0, 30 from the subscription instant
   100: firings at 100, 110, 110, 140 *)
Example C37_gwrt_on_time_witness :
  let c := fun x => x <? 3 in let f := fun x => x + 1 in
  let d := fun x => if x =? 0 then 10 else if x =? 1 then 0 else 30 in
  let nows := [100; 110; 110; 140] in
  while_states 10 c f 0 = [0; 1; 2]
  /\ on_time 100 (fst (run (x_gwrt 0 (fun x => Ok (c x)) (fun x => Ok (f x)) (fun x => Ok (d x))) (tick_ins 0 nows))) nows
  /\ map (fun i => delays_sum d (firstn i [0; 1; 2])) [0; 1; 2; 3]%nat = [0; 10; 10; 40].
Proof. vm_compute. split; [reflexivity|]. split; [repeat constructor|reflexivity]. Qed.

(* zero delays are delays like any other (on the unpatched tree `assert time`
   raised AssertionError into the scheduler here) *)
Example C37_gwrt_zero_delay :
  run_canon (x_gwrt 0 (fun x => Ok (x <? 2)) (fun x => Ok (x + 1)) (fun _ => Ok 0)) (tick_ins 0 (zeros 3))
  = [(0%nat, OTimer 0%nat 0); (1%nat, OTimer 1%nat 0); (2%nat, OEmit (Next 0)); (2%nat, OTimer 2%nat 0);
     (3%nat, OEmit (Next 1)); (3%nat, OEmit Done)].
Proof. vm_compute. reflexivity. Qed.

(* ---- timer ------------------------------------------------------------------- *)
Theorem C37_timer_emits_zero_at_d : forall d now,
  fst (run (x_timer d) [(now, ITick 0%nat)])
  = [(0%nat, OTimer 0%nat (Z.max d 0)); (1%nat, OEmit (Next 0)); (1%nat, OEmit Done)].
Proof. exact timer_spec. Qed.
Print Assumptions C37_timer_emits_zero_at_d.

(* ... and "at d": fired when due, the timer's firing instant is the subscription instant plus max(d, 0) *)
Theorem C37_timer_instant : forall d now t0,
  on_time t0 (fst (run (x_timer d) [(now, ITick 0%nat)])) [now] -> now = t0 + Z.max d 0.
Proof. exact timer_instant. Qed.
Print Assumptions C37_timer_instant.

Theorem C37_timer_periodic : forall p nows,
  let tr := fst (run (x_timer_periodic p) (tick_ins 0 nows)) in
  temitted tr = nexts (indexed 1 (map Z.of_nat (seq 0 (length nows))))
  /\ ttimers tr = (0%nat, (0%nat, Z.max p 0)) :: map (fun j => (S j, (S j, Z.max p 0))) (seq 0 (length nows)).
Proof. exact timer_periodic_spec. Qed.
Print Assumptions C37_timer_periodic.

Theorem C37_timer_with_period : forall d p n, 0 <= d -> 0 < p ->
  let nows := map (fun j => d + Z.of_nat j * p) (seq 0 n) in
  let tr := fst (run (x_timer_period d p) (tick_ins 0 nows)) in
  temitted tr = nexts (indexed 1 (map Z.of_nat (seq 0 n)))
  /\ ttimers tr = (0%nat, (0%nat, d)) :: map (fun j => (S j, (S j, p))) (seq 0 n).
Proof. exact timer_period_spec. Qed.
Print Assumptions C37_timer_with_period.

(* timer(d, p), d <> p: the VALUES are 0, 1, 2, ... one per firing for ANY d, p and ANY clock
   readings (late firings and the catch-up branch `dt + p <= now`, p <= 0 included); only the delays
   of the theorem above need on-time firings *)
Theorem C37_timer_period_values_any_clock : forall d p nows,
  temitted (fst (run (x_timer_period d p) (tick_ins 0 nows)))
  = nexts (indexed 1 (map Z.of_nat (seq 0 (length nows)))).
Proof. exact timer_period_values_any_clock. Qed.
Print Assumptions C37_timer_period_values_any_clock.

(* a late second firing (at 100 instead of 12): the catch-up branch re-bases the due time *)
Example C37_timer_period_catch_up :
  run_canon (x_timer_period 5 7) (tick_ins 0 [5; 100; 107])
  = [(0%nat, OTimer 0%nat 5); (1%nat, OEmit (Next 0)); (1%nat, OTimer 1%nat 7); (2%nat, OEmit (Next 1));
     (2%nat, OTimer 2%nat 7); (3%nat, OEmit (Next 2)); (3%nat, OTimer 3%nat 7)].
Proof. vm_compute. reflexivity. Qed.

(* ---- repeat_value ------------------------------------------------------------- *)
Theorem C37_repeat_value_emits_v_n_times : forall v c, 0 <= c ->
  let n := Z.to_nat c in
  temitted (fst (run (x_repeat_value v (Some c)) (tick_ins 0 (zeros (S (2 * n))))))
  = map (fun j => ((2 * j + 2)%nat, Next v)) (seq 0 n) ++ [(S (2 * n), Done)].
Proof. exact repeat_value_spec. Qed.
Print Assumptions C37_repeat_value_emits_v_n_times.

Example C37_repeat_value_3 :
  emitted (fst (run (x_repeat_value 7 (Some 3)) (tick_ins 0 (zeros 7)))) = [Next 7; Next 7; Next 7; Done].
Proof. vm_compute. reflexivity. Qed.
