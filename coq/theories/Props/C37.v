From RxVerif Require Import Base.Prelude Ops.Machine Ops.Multi Ops.MultiCase Ops.Sources.
Example C37_range_example :
  emitted (fst (run (x_range 2 8 3) [(0, ITick 0%nat); (0, ITick 1%nat); (0, ITick 2%nat)])) = [Next 2; Next 5; Done].
Proof. vm_compute. reflexivity. Qed.
