(* C18 -- windows and buffers partition the source correctly.
   Machines: Ops/Windows.v (window_with_count / _time / _time_or_count, window(boundaries),
   window_when, window_toggle over group_join; buffers = [buffered] windows), run by the
   window-aware runner Ops/MultiWin.v (handed observables, RefCountDisposable). *)
From RxVerif Require Import Base.Prelude Ops.Machine Ops.MultiWin Ops.MultiWinFacts Ops.Windows
  Ops.WindowCountFacts Ops.WindowFacts Ops.BufferFacts Ops.BufferCountFacts.

(* ---- count-based windows: closed form for ALL count >= 1, skip >= 1 ---------- *)
(* window k holds exactly elements k*skip .. k*skip+count-1 (in order), completes right after the
   last of them, or ends with the source's terminal if that comes first *)
Theorem C18_window_count_index : forall A count skip, 0 < count -> 0 < skip ->
  forall B (xs : list A) (tm : term) (k : nat),
  wevents k (fst (run all_imm (x_window_count (A:=A) (B:=B) count skip) (src_events xs tm)))
  = map Next (ztake count (zskip (Z.of_nat k * skip) xs))
    ++ (if Z.of_nat k * skip + count <=? zlen xs then [Done]
        else if Z.of_nat k * skip <=? zlen xs then term_ev tm else []).
Proof. exact @window_count_index. Qed.
Print Assumptions C18_window_count_index.

(* window k is handed iff k*skip <= number of source elements; windows come in order *)
Theorem C18_window_count_hands : forall A count skip, 0 < count -> 0 < skip ->
  forall B (xs : list A) (tm : term),
  map fst (hands (fst (run all_imm (x_window_count (A:=A) (B:=B) count skip) (src_events xs tm))))
  = seq 0 (Z.to_nat (zlen xs / skip) + 1).
Proof. exact @window_count_hands. Qed.
Print Assumptions C18_window_count_hands.

(* q.pop(0) never meets an empty queue *)
Theorem C18_window_count_pop_safe : forall count skip, 0 < count -> 0 < skip ->
  forall s n lo nx, wc_inv count skip s n lo nx ->
  (0 <=? wc_n s - count + 1) && ((wc_n s - count + 1) mod skip =? 0) = true -> wc_q s <> [].
Proof. exact @wcount_pop_safe. Qed.
Print Assumptions C18_window_count_pop_safe.

(* ---- routing, every rule, EVERY state (= every input history) ------------------ *)
(* a source element goes to exactly the windows open when it arrives, in opening order; the
   source's terminal ends exactly the open windows with its kind, and the outer sequence *)
Theorem C18_count_routes : forall A B count skip, routes (x_window_count (A:=A) (B:=B) count skip) wc_q Complete.
Proof. exact @window_count_routes. Qed.
Theorem C18_time_routes : forall A B span shift, routes (x_window_time (A:=A) (B:=B) span shift) wt_q Complete.
Proof. exact @window_time_routes. Qed.
Theorem C18_time_or_count_routes : forall A B span count,
  routes (x_window_time_or_count (A:=A) (B:=B) span count) (fun s => [wtc_cur s]) Complete.
Proof. exact @window_time_or_count_routes. Qed.
Theorem C18_boundaries_routes : forall A B, routes (x_window_boundaries (A:=A) (B:=B)) (fun s => [fst s]) Complete.
Proof. exact @window_boundaries_routes. Qed.
Theorem C18_when_routes : forall A B mapper, routes (x_window_when (A:=A) (B:=B) mapper) (fun s => [ww_cur s]) Complete.
Proof. exact @window_when_routes. Qed.
(* toggle: the source's completion completes the open windows (after the proposed fix); the outer
   sequence follows the openings *)
Theorem C18_toggle_routes : forall A B mapper, routes (x_window_toggle (A:=A) (B:=B) mapper) wg_windows Cont.
Proof. exact @window_toggle_routes. Qed.
Print Assumptions C18_count_routes.
Print Assumptions C18_time_routes.
Print Assumptions C18_time_or_count_routes.
Print Assumptions C18_boundaries_routes.
Print Assumptions C18_when_routes.
Print Assumptions C18_toggle_routes.

(* ---- time windows: the timer chain visits the edges k*shift and span + k*shift in order --- *)
Theorem C18_time_start : forall A B span shift, 0 < span -> 0 < shift ->
  wt_inv span shift (fst (fst (x_start (x_window_time (A:=A) (B:=B) span shift)))) 0 0
  /\ snd (fst (x_start (x_window_time (A:=A) (B:=B) span shift)))
     = [CHand 0%nat 0; CTimer 0%nat (Z.min shift span); CSub 0%nat].
Proof. exact @wt_start_inv. Qed.
Print Assumptions C18_time_start.

(* after a shift edges and b span edges: the firing opens window a+1 iff (a+1)*shift is due,
   closes window b iff span + b*shift is due, and schedules the next edge at its exact distance *)
Theorem C18_time_tick : forall A B span shift, 0 < span -> 0 < shift -> forall s a b,
  wt_inv span shift s a b ->
  let a' := if wt_is_shift s then S a else a in
  let b' := if wt_is_span s then S b else b in
  wt_inv span shift (fst (wt_action (A:=A) (B:=B) shift s)) a' b'
  /\ snd (wt_action (A:=A) (B:=B) shift s)
     = (if wt_is_shift s then [CHand (S a) 0] else []) ++ (if wt_is_span s then [CWin b Done] else [])
       ++ [CTimer (wt_ntag s) (Z.min ((Z.of_nat a' + 1) * shift) (span + Z.of_nat b' * shift) - wt_total s)].
Proof. exact @wt_tick. Qed.
Print Assumptions C18_time_tick.

Theorem C18_time_chain_always : forall A B span shift, 0 < span -> 0 < shift ->
  forall (imm : nat -> bool) (ins : list (Z * inp A)),
  exists a b, wt_inv span shift
    (fst (after imm (x_window_time (A:=A) (B:=B) span shift)
                (fst (start_state imm (x_window_time (A:=A) (B:=B) span shift)))
                (snd (start_state imm (x_window_time (A:=A) (B:=B) span shift))) ins)) a b.
Proof. exact @wt_always. Qed.
Print Assumptions C18_time_chain_always.

Theorem C18_time_pop_safe : forall span shift, 0 < span -> 0 < shift -> forall s a b,
  wt_inv span shift s a b -> wt_is_span s = true ->
  (if wt_is_shift s then wt_q s ++ [wt_next s] else wt_q s) <> [].
Proof. exact @wt_pop_safe. Qed.
Print Assumptions C18_time_pop_safe.

(* ---- time-or-count ---------------------------------------------------------------- *)
Theorem C18_toc_timer_closes : forall A B span count, 0 < count -> forall s now tag, wtc_inv count s ->
  snd (fst (x_step (x_window_time_or_count (A:=A) (B:=B) span count) s now (ITick tag)))
  = snd (wtc_roll (A:=A) (B:=B) span s)
  /\ wtc_inv count (fst (fst (x_step (x_window_time_or_count (A:=A) (B:=B) span count) s now (ITick tag)))).
Proof. exact @wtc_tick. Qed.
Theorem C18_toc_count_closes : forall A B span count, 0 < count -> forall s now k (x : A), wtc_inv count s ->
  wtc_inv count (fst (fst (x_step (x_window_time_or_count (A:=A) (B:=B) span count) s now (ISrc k (Next x)))))
  /\ snd (fst (x_step (x_window_time_or_count (A:=A) (B:=B) span count) s now (ISrc k (Next x))))
     = CWin (wtc_cur s) (Next x) :: (if wtc_n s + 1 =? count then snd (wtc_roll (A:=A) (B:=B) span s) else [])
  /\ wtc_n (fst (fst (x_step (x_window_time_or_count (A:=A) (B:=B) span count) s now (ISrc k (Next x)))))
     = (if wtc_n s + 1 =? count then 0 else wtc_n s + 1).
Proof. exact @wtc_next_elem. Qed.
Theorem C18_toc_roll : forall A B span count, 0 < count -> forall s, wtc_inv count s ->
  wtc_inv count (fst (wtc_roll (A:=A) (B:=B) span s))
  /\ snd (wtc_roll (A:=A) (B:=B) span s)
     = [CWin (wtc_cur s) Done; CHand (S (wtc_cur s)) 0]
       ++ match wtc_ttag s with Some t => [CCancel t] | None => [] end ++ [CTimer (wtc_ntag s) (Z.max 0 span)]
  /\ wtc_cur (fst (wtc_roll (A:=A) (B:=B) span s)) = S (wtc_cur s).
Proof. exact @wtc_roll_spec. Qed.
Theorem C18_toc_always : forall A B span count, 0 < count -> forall (imm : nat -> bool) (ins : list (Z * inp A)),
  wtc_inv count (fst (after imm (x_window_time_or_count (A:=A) (B:=B) span count)
                            (fst (start_state imm (x_window_time_or_count (A:=A) (B:=B) span count)))
                            (snd (start_state imm (x_window_time_or_count (A:=A) (B:=B) span count))) ins)).
Proof. exact @wtc_always. Qed.
Print Assumptions C18_toc_timer_closes.
Print Assumptions C18_toc_count_closes.
Print Assumptions C18_toc_roll.
Print Assumptions C18_toc_always.

(* ---- boundaries / closing selector / toggle ------------------------------------------- *)
Theorem C18_boundary_rule : forall A B cur next now k (v : A),
  x_step (x_window_boundaries (A:=A) (B:=B)) (cur, next) now (ISrc (S k) (Next v))
  = ((next, S next), [CWin cur Done; CHand next 0], Cont).
Proof. exact @window_boundary_rule. Qed.
Theorem C18_when_rule : forall A B mapper s now k (e : ev A), (forall z, e <> Err z) ->
  exists c f,
    x_step (x_window_when (A:=A) (B:=B) mapper) s now (ISrc (S k) e)
    = (fst (fst (ww_arm (A:=A) (B:=B) true mapper (WwSt (ww_next s) (S (ww_next s)) (ww_calls s) (ww_closing s)))),
       [CWin (ww_cur s) Done; CHand (ww_next s) 0; CUnsub (S k)] ++ c, f)
    /\ f = snd (ww_arm (A:=A) (B:=B) true mapper (WwSt (ww_next s) (S (ww_next s)) (ww_calls s) (ww_closing s))).
Proof. exact @window_when_rule. Qed.
(* ... when that call returns, the new closing observable is subscribed behind `if d.is_disposed: return`
   (command CSubLive of Ops/MultiWin.v: as CSub while the runner has not released, nothing once it has --
   the completion of the old window may have dropped the last reference when the outer subscription was
   already gone; the mapper is not called then) *)
Theorem C18_when_rule_ok : forall A B mapper s now k (e : ev A) u, (forall z', e <> Err z') ->
  mapper (ww_calls s) = Ok u ->
  snd (fst (x_step (x_window_when (A:=A) (B:=B) mapper) s now (ISrc (S k) e)))
  = [CWin (ww_cur s) Done; CHand (ww_next s) 0; CUnsub (S k); CSubLive (S (ww_calls s))]
  /\ snd (x_step (x_window_when (A:=A) (B:=B) mapper) s now (ISrc (S k) e)) = Cont.
Proof. exact @window_when_rule_ok. Qed.
(* ... and when that next call of the mapper raises: the window just handed gets the error before the outer
   (operators/_window.py create_window_on_completed: window.on_error(exception); observer.on_error(exception));
   inside subscribe() the same happens to window 0, after it was handed and the source subscribed *)
Theorem C18_when_rule_raises : forall A B mapper s now k (e : ev A) z, (forall z', e <> Err z') ->
  mapper (ww_calls s) = Raise z ->
  snd (fst (x_step (x_window_when (A:=A) (B:=B) mapper) s now (ISrc (S k) e)))
  = [CWin (ww_cur s) Done; CHand (ww_next s) 0; CUnsub (S k); CWin (ww_next s) (Err z)]
  /\ snd (x_step (x_window_when (A:=A) (B:=B) mapper) s now (ISrc (S k) e)) = Fail z.
Proof. exact @window_when_rule_raises. Qed.
Theorem C18_when_start : forall A B (mapper : nat -> res unit),
  snd (fst (x_start (x_window_when (A:=A) (B:=B) mapper)))
  = [CHand 0%nat 0; CSub 0%nat]
    ++ match mapper 0%nat with Ok _ => [CSub 1%nat] | Raise z => [CWin 0%nat (Err z)] end
  /\ snd (x_start (x_window_when (A:=A) (B:=B) mapper))
     = match mapper 0%nat with Ok _ => Cont | Raise z => Fail z end.
Proof. exact @window_when_start. Qed.
Theorem C18_toggle_open_rule : forall A B mapper s now (v : A), mapper (wg_calls s) = Ok tt ->
  x_step (x_window_toggle (A:=A) (B:=B) mapper) s now (ISrc 1%nat (Next v))
  = (WgSt (wg_open s ++ [(wg_next s, (2 + wg_calls s)%nat)]) (S (wg_next s)) (S (wg_calls s)),
     [CHand (wg_next s) 0; CSub (2 + wg_calls s)%nat], Cont).
Proof. exact @window_toggle_open_rule. Qed.
Theorem C18_toggle_close_rule : forall A B mapper s now k (e : ev A) g,
  (forall z, e <> Err z) -> wg_find (S (S k)) (wg_open s) = Some g ->
  snd (fst (x_step (x_window_toggle (A:=A) (B:=B) mapper) s now (ISrc (S (S k)) e))) = [CWin g Done; CUnsub (S (S k))]
  /\ wg_open (fst (fst (x_step (x_window_toggle (A:=A) (B:=B) mapper) s now (ISrc (S (S k)) e))))
     = filter (fun gc => negb (Nat.eqb (S (S k)) (snd gc))) (wg_open s).
Proof. exact @window_toggle_close_rule. Qed.
Theorem C18_toggle_error_fanout : forall A B mapper s now k z,
  x_step (x_window_toggle (A:=A) (B:=B) mapper) s now (ISrc k (Err z)) = (s, wins_all (wg_windows s) (Err z), Fail z).
Proof. exact @window_toggle_error_fanout. Qed.
Print Assumptions C18_boundary_rule.
Print Assumptions C18_when_rule.
Print Assumptions C18_when_rule_ok.
Print Assumptions C18_when_rule_raises.
Print Assumptions C18_when_start.
Print Assumptions C18_toggle_open_rule.
Print Assumptions C18_toggle_close_rule.
Print Assumptions C18_toggle_error_fanout.

(* ---- buffers: each buffer equals the contents of its window ----------------------------- *)
Theorem C18_buffer_tracks_window : forall A B0 keep g (cs : list (cmd A B0)) open od b,
  quiet g cs -> buf_get g open = Some b -> snd (buf_cmds keep open od cs) = Cont ->
  buf_get g (fst (fst (buf_cmds keep open od cs))) = Some (b ++ nexts_of g cs).
Proof. exact @buffer_tracks_window. Qed.
Theorem C18_buffer_is_window_contents : forall A B0 keep g key (mid post : list (cmd A B0)) open od,
  buf_get g open = None -> quiet g mid ->
  snd (buf_cmds keep (open ++ [(g, [])]) od mid) = Cont ->
  let o1 := fst (fst (buf_cmds keep (open ++ [(g, [])]) od mid)) in
  let content := nexts_of g mid in
  snd (fst (buf_cmds keep open od (CHand g key :: mid ++ CWin g Done :: post)))
  = snd (fst (buf_cmds keep (open ++ [(g, [])]) od mid))
    ++ (if keep || negb (match content with [] => true | _ => false end) then [CEmit content] else [])
    ++ (if od && match buf_del g o1 with [] => true | _ => false end then []
        else snd (fst (buf_cmds keep (buf_del g o1) od post))).
Proof. exact @buffer_is_window_contents. Qed.
Theorem C18_buffer_window_error : forall A B0 keep g z (post : list (cmd A B0)) open od b,
  buf_get g open = Some b -> buf_cmds keep open od (CWin g (Err z) :: post) = (open, [], Fail z).
Proof. exact @buffer_window_error. Qed.
Print Assumptions C18_buffer_tracks_window.
Print Assumptions C18_buffer_is_window_contents.
Print Assumptions C18_buffer_window_error.

(* ---- the release clauses (C02/C03 for handed windows), EVERY machine, policy, input sequence -- *)
(* once the outer subscription ended AND no window subscription is live: nothing is left subscribed *)
Theorem C18_release_when_all_ended : forall A W B (imm : nat -> bool) (m : machine A W B) ins,
  r_outer (snd (run imm m ins)) = false -> r_wsubs (snd (run imm m ins)) = [] ->
  r_live (snd (run imm m ins)) = [] /\ r_timers (snd (run imm m ins)) = [].
Proof. exact @run_all_ended_released. Qed.
Theorem C18_released_only_when_all_ended : forall A W B (imm : nat -> bool) (m : machine A W B) ins,
  r_released (snd (run imm m ins)) = true ->
  r_outer (snd (run imm m ins)) = false /\ r_wsubs (snd (run imm m ins)) = [].
Proof. exact @run_released_only_when_all_ended. Qed.
(* while the outer subscription or a window subscriber is live (= not released), a source the
   machine does not unsubscribe itself stays subscribed until it terminates *)
Theorem C18_source_stays_subscribed : forall A W B (imm : nat -> bool) (m : machine A W B) k ins s r,
  never_unsubs m k -> mem k (r_live r) = true ->
  (forall now e, In (now, ISrc k e) ins -> is_terminal e = false) ->
  r_released (snd (after imm m s r ins)) = false ->
  mem k (r_live (snd (after imm m s r ins))) = true.
Proof. exact @source_stays_subscribed. Qed.
Theorem C18_window_machines_keep_source : forall A B,
  (forall count skip k, never_unsubs (x_window_count (A:=A) (B:=B) count skip) k)
  /\ (forall span shift k, never_unsubs (x_window_time (A:=A) (B:=B) span shift) k)
  /\ (forall span count k, never_unsubs (x_window_time_or_count (A:=A) (B:=B) span count) k)
  /\ (forall k, never_unsubs (x_window_boundaries (A:=A) (B:=B)) k)
  /\ (forall mapper, never_unsubs (x_window_when (A:=A) (B:=B) mapper) 0%nat)
  /\ (forall mapper, never_unsubs (x_window_toggle (A:=A) (B:=B) mapper) 0%nat).
Proof. exact @window_machines_keep_source. Qed.
(* nothing reaches the subscriber on the outer after it ended *)
Theorem C18_outer_silent_after_end : forall A W B (imm : nat -> bool) (m : machine A W B) ins s r k,
  r_outer r = false -> forall x, In x (fst (run_from imm m s r k ins)) -> outer_obs (snd x) = false.
Proof. exact @run_from_outer_silent. Qed.
(* a window notification reaches exactly the live subscriptions of that window, once each *)
Theorem C18_window_delivery : forall W B (imm : nat -> bool) (r : rstate W) g (e : ev W) j,
  wobs (B:=B) j (snd (apply_cmd imm r (CWin g e)))
  = if Nat.eqb j g
    then match wterm_of g (r_wterm r) with Some _ => [] | None => repeat e (count_of g (r_wsubs r)) end
    else [].
Proof. exact @win_cmd_delivery. Qed.
Print Assumptions C18_release_when_all_ended.
Print Assumptions C18_released_only_when_all_ended.
Print Assumptions C18_source_stays_subscribed.
Print Assumptions C18_window_machines_keep_source.
Print Assumptions C18_outer_silent_after_end.
Print Assumptions C18_window_delivery.

(* ---- witnesses (hypotheses satisfiable; behaviours exist) ------------------------------- *)
Example C18_witness_count_overlapping :
  map (fun k => wevents k (fst (run all_imm (x_window_count (B:=unit) 3 2) (src_events [10; 11; 12; 13; 14] TDone))))
      [0; 1; 2; 3]%nat
  = [[Next 10; Next 11; Next 12; Done]; [Next 12; Next 13; Next 14; Done]; [Next 14; Done]; []].
Proof. vm_compute. reflexivity. Qed.
Example C18_witness_count_gapped :
  map (fun k => wevents k (fst (run all_imm (x_window_count (B:=unit) 2 3) (src_events [10; 11; 12; 13; 14; 15; 16] (TErr 7)))))
      [0; 1; 2]%nat
  = [[Next 10; Next 11; Done]; [Next 13; Next 14; Done]; [Next 16; Err 7]].
Proof. vm_compute. reflexivity. Qed.
Example C18_witness_time_chain :
  (* span 20, shift 30 (gapped): edges 20 (close 0), 30 (open 1), 50 (close 1), 60 (open 2) *)
  map snd (fst (run all_imm (x_window_time (A:=Z) (B:=unit) 20 30)
       [(20, ITick 0%nat); (25, ISrc 0%nat (Next 5)); (30, ITick 1%nat); (35, ISrc 0%nat (Next 6)); (50, ITick 2%nat)]))
  = [OHand 0%nat 0; OTimer 0%nat 20; OSub 0%nat; OWin 0%nat Done; OTimer 1%nat 10; OHand 1%nat 0; OTimer 2%nat 20;
     OWin 1%nat (Next 6); OWin 1%nat Done; OTimer 3%nat 10].
Proof. vm_compute. reflexivity. Qed.
Example C18_witness_refcount :
  (* the outer is disposed while window 0's subscriber is live: the source stays subscribed; it is
     released when that subscriber leaves *)
  map snd (fst (run all_imm (x_window_count (B:=unit) 5 5)
       [(0, ISrc 0%nat (Next 1)); (1, IDispose); (2, ISrc 0%nat (Next 2)); (3, IUnsubWin 0%nat); (4, ISrc 0%nat (Next 3))]))
  = [OHand 0%nat 0; OSub 0%nat; OWin 0%nat (Next 1); OWin 0%nat (Next 2); OUnsub 0%nat].
Proof. vm_compute. reflexivity. Qed.
Example C18_witness_buffer :
  emitted (fst (run all_imm (x_buffer_count 2 3) (src_events [10; 11; 12; 13; 14; 15; 16] TDone)))
  = [Next [10; 11]; Next [13; 14]; Next [16]; Done].
Proof. vm_compute. reflexivity. Qed.

(* ---- buffer_with_count: closed form of the whole run, ALL count >= 1, skip >= 1 ------------- *)
(* (Ops/BufferCountFacts.v)  buffer k is the slice xs[k*skip .. k*skip+count-1] (shorter at the end of the
   source); buffers come in the order of k.  A COMPLETING source flushes the non-empty partial buffers: the
   buffers are those with k*skip < length, i.e. ceil(length/skip) of them, then Done. *)
Theorem C18_buffer_count_closed_form : forall A count skip, 0 < count -> 0 < skip -> forall (xs : list A),
  emitted (fst (run all_imm (x_buffer_count count skip) (src_events xs TDone)))
  = map Next (map (fun k => ztake count (zskip (Z.of_nat k * skip) xs))
                  (seq 0 (Z.to_nat ((zlen xs + skip - 1) / skip))))
    ++ [Done].
Proof. exact @buffer_count_completing. Qed.
Print Assumptions C18_buffer_count_closed_form.
(* all three terminations at once, [nbuffers] as characterised below *)
Theorem C18_buffer_count_closed_form_any_termination : forall A count skip, 0 < count -> 0 < skip ->
  forall (xs : list A) tm,
  emitted (fst (run all_imm (x_buffer_count count skip) (src_events xs tm)))
  = map Next (map (fun k => ztake count (zskip (Z.of_nat k * skip) xs))
                  (seq 0 (nbuffers count skip (zlen xs) tm)))
    ++ term_ev tm.
Proof. exact @buffer_count_closed_form. Qed.
Print Assumptions C18_buffer_count_closed_form_any_termination.
(* a FAILING source (or one that never ends) delivers only the buffers that were full before -- those with
   k*skip+count <= length -- then the error: the partial buffers are lost *)
Theorem C18_buffer_count_closed_form_error : forall A count skip, 0 < count -> 0 < skip ->
  forall (xs : list A) tm, tm <> TDone ->
  emitted (fst (run all_imm (x_buffer_count count skip) (src_events xs tm)))
  = map Next (map (fun k => ztake count (zskip (Z.of_nat k * skip) xs))
                  (seq 0 (Z.to_nat (if zlen xs <? count then 0 else (zlen xs - count) / skip + 1))))
    ++ term_ev tm.
Proof. exact @buffer_count_failing. Qed.
Print Assumptions C18_buffer_count_closed_form_error.
(* the two counts, characterised without division *)
Theorem C18_buffer_count_number_completing : forall count skip, 0 < skip -> forall n k, 0 <= n ->
  ((k < nbuffers count skip n TDone)%nat <-> Z.of_nat k * skip < n).
Proof. exact nbuffers_done. Qed.
Theorem C18_buffer_count_number_failing : forall count skip, 0 < skip -> forall n tm k,
  tm <> TDone -> 0 <= n -> ((k < nbuffers count skip n tm)%nat <-> Z.of_nat k * skip + count <= n).
Proof. exact nbuffers_full. Qed.
Print Assumptions C18_buffer_count_number_completing.
Print Assumptions C18_buffer_count_number_failing.
Example C18_witness_buffer_closed_form :
  emitted (fst (run all_imm (x_buffer_count 3 2) (src_events [1; 2; 3; 4; 5] TDone)))
  = [Next [1; 2; 3]; Next [3; 4; 5]; Next [5]; Done]
  /\ emitted (fst (run all_imm (x_buffer_count 3 2) (src_events [1; 2; 3; 4; 5] (TErr 7))))
     = [Next [1; 2; 3]; Next [3; 4; 5]; Err 7]
  /\ emitted (fst (run all_imm (x_buffer_count 2 3) (src_events [1; 2; 3; 4; 5; 6] TDone)))
     = [Next [1; 2]; Next [4; 5]; Done].
Proof. vm_compute. auto. Qed.

(* ======================= round 8: whole-run forms (count, time, closing selector, toggle) ======================= *)
From RxVerif Require Import Ops.WindowCountRun Ops.WinSim Ops.WindowTimeSim Ops.BufferTimeSim Ops.WindowWhenRun
  Ops.WindowToggleRun Ops.BufferToggleRun.
From RxVerif Require Ops.TimedSim.
From Coq Require Import Sorting.Sorted.

(* ---- window_with_count: the WHOLE position-tagged trace of a conforming run (Ops/WindowCountRun.v) ---- *)
(* what the runner observes at input position n+1 (the element with index n) depends on n alone: the
   element goes to the windows lo(n) .. nx(n)-1 in opening order (lo(n) = #{k | k*skip+count <= n},
   nx(n) = #{k | k*skip <= n}), then window lo(n) completes iff n = lo(n)*skip+count-1, then window
   nx(n) is handed iff n+1 = nx(n)*skip; the source's terminal goes to the open windows in order, then
   to the outer subscriber, and the source subscription is released *)
Theorem C18_window_count_trace : forall A B count skip, 0 < count -> 0 < skip -> forall (xs : list A) (tm : term),
  fst (run all_imm (x_window_count (A:=A) (B:=B) count skip) (src_events xs tm))
  = [(0%nat, OHand 0%nat 0); (0%nat, OSub 0%nat)] ++ wc_trace_from count skip 0 1 xs tm.
Proof. exact @window_count_trace. Qed.
Print Assumptions C18_window_count_trace.
(* readings: which notification reaches window k at which input position *)
Theorem C18_window_count_next_at : forall A B count skip, 0 < count -> 0 < skip ->
  forall (xs : list A) (tm : term) (k p : nat) (x : A),
  In (p, OWin k (Next x)) (fst (run all_imm (x_window_count (A:=A) (B:=B) count skip) (src_events xs tm)))
  <-> exists n, p = S n /\ nth_error xs n = Some x /\ wopen count skip k (Z.of_nat n) = true.
Proof. exact @window_count_next_at. Qed.
(* window k completes in the very on_next call that delivers its last element (index k*skip+count-1,
   position k*skip+count), or with the source's completion if it is open then *)
Theorem C18_window_count_done_at : forall A B count skip, 0 < count -> 0 < skip ->
  forall (xs : list A) (tm : term) (k p : nat),
  In (p, OWin k Done) (fst (run all_imm (x_window_count (A:=A) (B:=B) count skip) (src_events xs tm)))
  <-> (Z.of_nat p = Z.of_nat k * skip + count /\ Z.of_nat p <= zlen xs)
      \/ (tm = TDone /\ p = S (length xs) /\ wopen count skip k (zlen xs) = true).
Proof. exact @window_count_done_at. Qed.
(* the source's error reaches exactly the windows open when it arrives ... *)
Theorem C18_window_count_error_at : forall A B count skip, 0 < count -> 0 < skip ->
  forall (xs : list A) (tm : term) (k p : nat) (z : Z),
  In (p, OWin k (Err z)) (fst (run all_imm (x_window_count (A:=A) (B:=B) count skip) (src_events xs tm)))
  <-> tm = TErr z /\ p = S (length xs) /\ wopen count skip k (zlen xs) = true.
Proof. exact @window_count_error_at. Qed.
(* ... and the outer subscriber, which otherwise sees only the handed windows *)
Theorem C18_window_count_outer_at : forall A B count skip, 0 < count -> 0 < skip ->
  forall (xs : list A) (tm : term) (p : nat) (e : ev B),
  In (p, OEmit e) (fst (run all_imm (x_window_count (A:=A) (B:=B) count skip) (src_events xs tm)))
  <-> p = S (length xs) /\ In e (term_ev tm).
Proof. exact @window_count_outer_at. Qed.
(* window k >= 1 is handed inside the on_next of the element with index k*skip-1 (window 0: inside subscribe) *)
Theorem C18_window_count_hand_at : forall A B count skip, 0 < count -> 0 < skip ->
  forall (xs : list A) (tm : term) (k : nat) (key : Z) (p : nat),
  In (p, OHand k key) (fst (run all_imm (x_window_count (A:=A) (B:=B) count skip) (src_events xs tm)))
  <-> key = 0 /\ Z.of_nat p = Z.of_nat k * skip /\ Z.of_nat p <= zlen xs.
Proof. exact @window_count_hand_at. Qed.
Print Assumptions C18_window_count_next_at.
Print Assumptions C18_window_count_done_at.
Print Assumptions C18_window_count_error_at.
Print Assumptions C18_window_count_outer_at.
Print Assumptions C18_window_count_hand_at.
Example C18_witness_count_trace :
  fst (run all_imm (x_window_count (B:=unit) 2 3) (src_events [10; 11; 12; 13] (TErr 7)))
  = [(0%nat, OHand 0%nat 0); (0%nat, OSub 0%nat); (1%nat, OWin 0%nat (Next 10)); (2%nat, OWin 0%nat (Next 11));
     (2%nat, OWin 0%nat Done); (3%nat, OHand 1%nat 0); (4%nat, OWin 1%nat (Next 13)); (5%nat, OWin 1%nat (Err 7));
     (5%nat, OEmit (Err 7)); (5%nat, OUnsub 0%nat)].
Proof. vm_compute. reflexivity. Qed.

(* ---- time windows / buffers in a CLOSED WORLD (Ops/WinSim.v: the simulator of C16 over the window
   runner; timers fire exactly at their due time; at equal instants the source goes first) ---- *)
(* a simulation is a run of the machine on the inputs it delivered *)
Theorem C18_sim_is_run : forall A W B (imm : nat -> bool) (m : machine A W B) fuel t0 ext,
  fst (run imm m (wsim_inputs (snd (wsimulate imm m fuel t0 ext)))) = wsim_trace (wsimulate imm m fuel t0 ext).
Proof. exact @wsim_is_run. Qed.
Print Assumptions C18_sim_is_run.
(* (a) for EVERY event sequence on the source port and every horizon, the simulation of window_with_time is
   a walk that carries only the number a of shift edges and b of span edges that have fired: the pending
   timer is due at t0 + min((a+1)*shift, span+b*shift); an event at t is delivered before it iff t <= that
   instant, to the windows b..a *)
Theorem C18_window_time_walk : forall A B span shift t0, 0 < span -> 0 < shift -> forall fuel (es : list (Z * ev A)),
  wsimulate all_imm (x_window_time (A:=A) (B:=B) span shift) fuel t0 (wext_of es)
  = ([OHand 0%nat 0; OTimer 0%nat (Z.min shift span); OSub 0%nat], wt_walk span shift t0 fuel 0 0 0 es).
Proof. exact @window_time_walk. Qed.
Print Assumptions C18_window_time_walk.
(* (b) sorted conforming timeline (terminating or not): window k receives exactly the elements whose
   instant t lies in its interval -- [in_win]: k*shift < t-t0 <= k*shift+span, window 0: t-t0 <= span; an
   element AT an opening edge is not in the new window, an element AT a closing edge still is -- each at
   its instant; it completes at t0+k*shift+span if that is strictly before the source's terminal (or the
   source never ends), ends with the source's terminal if that lies in its interval, and does not exist
   otherwise ([wt_ending]) *)
Theorem C18_window_time_contents : forall A B span shift t0, 0 < span -> 0 < shift ->
  forall (tl : list (Z * A)) (tm : TimedSim.tterm) (k fuel : nat),
  TimedSim.sorted_from t0 (wsrc tl tm) ->
  (length tl + 1 + Z.to_nat (span + Z.of_nat k * shift) <= fuel)%nat ->
  wsim_wevents k (snd (wsimulate all_imm (x_window_time (A:=A) (B:=B) span shift) fuel t0 (wext_of (wsrc tl tm))))
  = map (fun tx => (fst tx, Next (snd tx))) (wt_contents span shift t0 k tl) ++ wt_ending span shift t0 k tm.
Proof. exact @window_time_contents. Qed.
Print Assumptions C18_window_time_contents.
(* the outer subscriber of a terminating timeline: window k >= 1 is handed at t0+k*shift iff k*shift < T-t0,
   in the order of k; then the source's terminal *)
Theorem C18_window_time_outer : forall A B span shift t0, 0 < span -> 0 < shift ->
  forall (tl : list (Z * A)) (tm : TimedSim.tterm) (T : Z) (e : ev A) (fuel : nat),
  tm_ev tm = [(T, e)] -> TimedSim.sorted_from t0 (wsrc tl tm) -> (length tl + 1 + Z.to_nat (T - t0) <= fuel)%nat ->
  wsim_outer (snd (wsimulate all_imm (x_window_time (A:=A) (B:=B) span shift) fuel t0 (wext_of (wsrc tl tm))))
  = map (fun k => (t0 + Z.of_nat k * shift, OHand k 0)) (seq 1 (n_open shift (T - t0) - 1))
    ++ [(T, OEmit (out_term e))].
Proof. exact @window_time_outer. Qed.
Print Assumptions C18_window_time_outer.
Theorem C18_time_windows_opened : forall shift, 0 < shift -> forall tau k,
  (k < n_open shift tau)%nat <-> k = 0%nat \/ Z.of_nat k * shift < tau.
Proof. exact WindowTimeSim.n_open_spec. Qed.
Theorem C18_time_windows_closed : forall span shift, 0 < shift -> forall tau k,
  (k < n_closed span shift tau)%nat <-> span + Z.of_nat k * shift < tau.
Proof. exact WindowTimeSim.n_closed_spec. Qed.
Print Assumptions C18_time_windows_opened.
Print Assumptions C18_time_windows_closed.
(* buffer_with_time: (a) the walk, (b) all buffers of a terminating timeline, in the order of k: buffer k
   (= the elements in k's interval) is emitted at its closing edge if that is strictly before the source's
   completion, the still open ones -- empty ones included -- at the completion, then Done; a failing source
   emits only the buffers closed before the error, then the error *)
Theorem C18_buffer_time_walk : forall A span shift t0, 0 < span -> 0 < shift -> forall fuel (es : list (Z * ev A)),
  wsimulate all_imm (x_buffer_time (A:=A) span shift) fuel t0 (wext_of es)
  = ([OTimer 0%nat (Z.min shift span); OSub 0%nat], bt_walk span shift t0 fuel 0 0 0 [(0%nat, [])] es).
Proof. exact @buffer_time_walk. Qed.
Theorem C18_buffer_time_closed_form : forall A span shift t0, 0 < span -> 0 < shift ->
  forall (tl : list (Z * A)) (T : Z) (fuel : nat),
  TimedSim.sorted_from t0 (wsrc tl (TimedSim.TTDone T)) -> (length tl + 1 + Z.to_nat (T - t0) <= fuel)%nat ->
  wsim_emitted (snd (wsimulate all_imm (x_buffer_time (A:=A) span shift) fuel t0 (wext_of (wsrc tl (TimedSim.TTDone T)))))
  = map (fun k => (Z.min (t0 + (span + Z.of_nat k * shift)) T, Next (bt_buffer span shift t0 k tl)))
        (seq 0 (n_open shift (T - t0)))
    ++ [(T, Done)].
Proof. exact @buffer_time_completing. Qed.
Theorem C18_buffer_time_closed_form_error : forall A span shift t0, 0 < span -> 0 < shift ->
  forall (tl : list (Z * A)) (T z : Z) (fuel : nat),
  TimedSim.sorted_from t0 (wsrc tl (TimedSim.TTErr T z)) -> (length tl + 1 + Z.to_nat (T - t0) <= fuel)%nat ->
  wsim_emitted (snd (wsimulate all_imm (x_buffer_time (A:=A) span shift) fuel t0 (wext_of (wsrc tl (TimedSim.TTErr T z)))))
  = map (fun k => (t0 + (span + Z.of_nat k * shift), Next (bt_buffer span shift t0 k tl)))
        (seq 0 (n_closed span shift (T - t0)))
    ++ [(T, Err z)].
Proof. exact @buffer_time_failing. Qed.
Print Assumptions C18_buffer_time_walk.
Print Assumptions C18_buffer_time_closed_form.
Print Assumptions C18_buffer_time_closed_form_error.
(* the hypotheses are satisfiable, edge instants included: span 30, shift 20 (overlapping); 2 arrives AT the
   opening edge of window 1 (not in it), 3 AT the closing edge of window 0 (in it), 4 and 5 AT the closing
   edge of window 1 *)
Example C18_witness_time_sorted :
  TimedSim.sorted_from 0 (wsrc [(5, 1); (20, 2); (30, 3); (50, 4); (50, 5)] (TimedSim.TTDone 55)).
Proof. cbn. lia. Qed.
Example C18_witness_time_windows :
  map (fun k => wsim_wevents k (snd (wsimulate all_imm (x_window_time (B:=unit) 30 20) 40 0
                 (wext_of (wsrc [(5, 1); (20, 2); (30, 3); (50, 4); (50, 5)] (TimedSim.TTDone 55))))))
      [0; 1; 2; 3]%nat
  = [[(5, Next 1); (20, Next 2); (30, Next 3); (30, Done)];
     [(30, Next 3); (50, Next 4); (50, Next 5); (50, Done)];
     [(50, Next 4); (50, Next 5); (55, Done)]; []].
Proof. vm_compute. reflexivity. Qed.
Example C18_witness_time_buffers :
  wsim_emitted (snd (wsimulate all_imm (x_buffer_time 30 20) 40 0
     (wext_of (wsrc [(5, 1); (20, 2); (30, 3); (50, 4); (50, 5)] (TimedSim.TTDone 55)))))
  = [(30, Next [1; 2; 3]); (50, Next [3; 4; 5]); (55, Next [4; 5]); (55, Done)]
  /\ wsim_emitted (snd (wsimulate all_imm (x_buffer_time 30 20) 40 0
       (wext_of (wsrc [(5, 1); (20, 2); (30, 3); (50, 4); (50, 5)] (TimedSim.TTErr 50 7)))))
     = [(30, Next [1; 2; 3]); (50, Err 7)].
Proof. vm_compute. auto. Qed.

(* ---- closing selector (window_when / buffer_when), ALL interleavings of the ports (Ops/WindowWhenRun.v) ---- *)
(* port 0 = source, port g+1 = the closing observable made for window g.  The whole trace is a walk whose
   state is the index g of the current window: only the closing observable of the CURRENT window is listened
   to; its first notification (element or completion) completes window g, hands window g+1, disposes that
   subscription and subscribes a NEW closing observable made by the (g+1)-th call of the mapper; errors of
   the source / the current closing observable go to window g and the outer; a raising call of the mapper
   sends the error to the CURRENT window (window 0 at the first call, inside subscribe(); the window just
   handed at a later call), then to the outer, and releases the source: nothing later is observed
   ([ww_out]: the start, followed by the walk only if the first call did not raise) *)
Theorem C18_window_when_run : forall A B (mapper : nat -> res unit) (ins : list (Z * nat * ev A)),
  fst (run all_imm (x_window_when (A:=A) (B:=B) mapper) (wports ins)) = ww_out mapper ins.
Proof. exact @window_when_run. Qed.
(* the two raising cases read off the walk *)
Theorem C18_window_when_first_call_raises : forall A B (mapper : nat -> res unit) (ins : list (Z * nat * ev A)) z,
  mapper 0%nat = Raise z ->
  fst (run all_imm (x_window_when (A:=A) (B:=B) mapper) (wports ins))
  = [(0%nat, OHand 0%nat 0); (0%nat, OSub 0%nat); (0%nat, OWin 0%nat (Err z)); (0%nat, OEmit (Err z));
     (0%nat, OUnsub 0%nat)].
Proof. exact @window_when_first_call_raises. Qed.
Theorem C18_window_when_raise_stops : forall A B (mapper : nat -> res unit) g pos t (e : ev A)
  (rest : list (Z * nat * ev A)) z,
  (forall z', e <> Err z') -> mapper (S g) = Raise z ->
  ww_walk (B:=B) mapper g pos ((t, S g, e) :: rest)
  = [(pos, OWin g Done); (pos, OHand (S g) 0); (pos, OUnsub (S g));
     (pos, OWin (S g) (Err z)); (pos, OEmit (Err z)); (pos, OUnsub 0%nat)].
Proof. exact @window_when_raise_stops. Qed.
Print Assumptions C18_window_when_first_call_raises.
Print Assumptions C18_window_when_raise_stops.
Theorem C18_buffer_when_run : forall A (mapper : nat -> res unit) (ins : list (Z * nat * ev A)),
  fst (run all_imm (x_buffer_when (A:=A) mapper) (wports ins)) = bw_out mapper ins.
Proof. exact @buffer_when_run. Qed.
Print Assumptions C18_window_when_run.
Print Assumptions C18_buffer_when_run.
(* windows partition the source: the elements delivered on windows are, in trace order, a prefix of the
   source's elements (each element in ONE window, nothing invented or reordered) and the window index never
   decreases; nothing is lost while nothing fails (no error notification, no raising mapper call: such a
   call ends everything) and the source has not completed *)
Theorem C18_window_when_partition : forall A B (mapper : nat -> res unit) (ins : list (Z * nat * ev A)),
  let tr := fst (run all_imm (x_window_when (A:=A) (B:=B) mapper) (wports ins)) in
  (exists rest, src_nexts ins = map snd (routed tr) ++ rest)
  /\ StronglySorted (fun p q : nat * A => (fst p <= fst q)%nat) (routed tr).
Proof. exact @window_when_partition. Qed.
Theorem C18_window_when_no_loss : forall A B (mapper : nat -> res unit) (ins : list (Z * nat * ev A)),
  (forall j, exists u, mapper j = Ok u) -> no_err ins -> src_open ins ->
  map snd (routed (fst (run all_imm (x_window_when (A:=A) (B:=B) mapper) (wports ins)))) = src_nexts ins.
Proof. exact @window_when_no_loss. Qed.
(* buffers partition the source: with a mapper that does not raise and no error, the buffers emitted up to
   and at the source's completion, concatenated, are exactly the source's elements; then Done *)
Theorem C18_buffer_when_partition : forall A (mapper : nat -> res unit) (body : list (Z * nat * ev A)) (tD : Z),
  (forall j, exists u, mapper j = Ok u) -> no_err body -> src_open body ->
  exists bufs, emitted (fst (run all_imm (x_buffer_when (A:=A) mapper) (wports (body ++ [(tD, 0%nat, Done)]))))
               = map Next bufs ++ [Done]
               /\ concat bufs = src_nexts body.
Proof. exact @buffer_when_partition. Qed.
Print Assumptions C18_window_when_partition.
Print Assumptions C18_window_when_no_loss.
Print Assumptions C18_buffer_when_partition.
Example C18_witness_when :
  let mp := fun j : nat => if Nat.eqb j 3 then Raise 9 else Ok tt in
  let ins := [(0, 0%nat, Next 1); (0, 2%nat, Next 5); (0, 1%nat, Done); (0, 0%nat, Next 2); (0, 1%nat, Next 7);
              (0, 2%nat, Next 0); (0, 0%nat, Next 3); (0, 3%nat, Next 0); (0, 0%nat, Next 4); (0, 0%nat, Done);
              (0, 0%nat, Next 4)] in
  routed (fst (run all_imm (x_window_when (B:=unit) mp) (wports ins))) = [(0%nat, 1); (1%nat, 2); (2%nat, 3)]
  /\ wevents 3 (fst (run all_imm (x_window_when (B:=unit) mp) (wports ins))) = [Err 9]
  /\ emitted (fst (run all_imm (x_window_when (B:=unit) mp) (wports ins))) = [Err 9]
  /\ emitted (fst (run all_imm (x_buffer_when mp) (wports ins))) = [Next [1]; Next [2]; Next [3]; Err 9].
Proof. vm_compute. auto. Qed.
(* the guard `if d.is_disposed: return`: the subscriber disposed the outer subscription and kept window 0;
   when its closing observable fires, window 0 completes, which drops the last reference: everything is
   released, no further closing observable is subscribed (no OSub 2), window 1 reaches nobody *)
Example C18_witness_when_guard :
  fst (run all_imm (x_window_when (A:=Z) (B:=unit) (fun _ => Ok tt))
         [(0, IDispose); (5, ISrc 0%nat (Next 7)); (10, ISrc 1%nat (Next 0)); (15, ISrc 0%nat (Next 8))])
  = [(0%nat, OHand 0%nat 0); (0%nat, OSub 0%nat); (0%nat, OSub 1%nat); (2%nat, OWin 0%nat (Next 7));
     (3%nat, OWin 0%nat Done); (3%nat, OUnsub 0%nat); (3%nat, OUnsub 1%nat)].
Proof. vm_compute. reflexivity. Qed.

(* ---- toggle (window_toggle / buffer_toggle), ALL interleavings of the ports (Ops/WindowToggleRun.v,
   Ops/BufferToggleRun.v) ---- *)
(* port 0 = source, port 1 = openings, port 2+g = the closing observable made for window g.  What the
   subscribers see ([visible]: handed windows, window notifications, outer notifications) is a walk whose
   state is: source / openings still listened to, and the windows whose closing observable is subscribed,
   flagged open or not: an element goes to exactly the open windows, in opening order; an opening hands a
   new window and subscribes a NEW closing observable; the first notification of window g's closing
   observable completes exactly g; the source's completion completes every open window; the openings'
   completion completes the outer; an error anywhere goes to every open window and the outer *)
Theorem C18_window_toggle_run : forall A B (mapper : nat -> res unit) (ins : list (Z * nat * ev A)),
  visible (fst (run all_imm (x_window_toggle (A:=A) (B:=B) mapper) (wports ins)))
  = tg_walk mapper true true [] 0 1 ins.
Proof. exact @window_toggle_run. Qed.
(* buffers: an element is appended to every open buffer; a closing observable's first notification emits
   its buffer; the source's completion emits all open buffers in opening order; the result completes when
   the openings have completed and no buffer is open; any error fails the result *)
Theorem C18_buffer_toggle_run : forall A (mapper : nat -> res unit) (ins : list (Z * nat * ev A)),
  visible (fst (run all_imm (x_buffer_toggle (A:=A) mapper) (wports ins)))
  = bg_walk mapper true true [] 0 1 ins.
Proof. exact @buffer_toggle_run. Qed.
Print Assumptions C18_window_toggle_run.
Print Assumptions C18_buffer_toggle_run.
Example C18_witness_toggle :
  let mp := fun _ : nat => Ok tt in
  let ins := [(0, 1%nat, Next 5); (0, 0%nat, Next 2); (0, 0%nat, Done); (0, 1%nat, Next 7); (0, 0%nat, Next 3);
              (0, 2%nat, Next 0); (0, 1%nat, Done); (0, 3%nat, Done); (0, 0%nat, Next 4)] in
  visible (fst (run all_imm (x_window_toggle (B:=unit) mp) (wports ins)))
  = [(1%nat, OHand 0%nat 0); (2%nat, OWin 0%nat (Next 2)); (3%nat, OWin 0%nat Done); (4%nat, OHand 1%nat 0);
     (7%nat, OEmit Done); (8%nat, OWin 1%nat Done)]
  /\ visible (fst (run all_imm (x_buffer_toggle mp) (wports ins)))
     = [(3%nat, OEmit (Next [2])); (8%nat, OEmit (Next [])); (8%nat, OEmit Done)].
Proof. vm_compute. auto. Qed.
(* a reading: every element a window of window_toggle receives is the source's element of that very input *)
Theorem C18_window_toggle_element_origin : forall A B (mapper : nat -> res unit) (ins : list (Z * nat * ev A)) p j x,
  In (p, OWin j (Next x)) (fst (run all_imm (x_window_toggle (A:=A) (B:=B) mapper) (wports ins))) ->
  (1 <= p)%nat /\ exists t, nth_error ins (p - 1) = Some (t, 0%nat, Next x).
Proof. exact @window_toggle_element_origin. Qed.
Print Assumptions C18_window_toggle_element_origin.
