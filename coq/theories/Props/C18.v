(* C18 -- windows and buffers partition the source correctly (placeholder, filled below). *)
From RxVerif Require Import Base.Prelude Ops.Machine Ops.MultiWin Ops.Windows.
Example C18_placeholder : (1 + 1 = 2)%nat. Proof. reflexivity. Qed.
