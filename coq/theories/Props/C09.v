(* C09 -- exceptions raised by user callbacks are delivered as on_error.
   In the machine model a handler can only end in Cont / Complete / Fail e:
   there is no way for an exception to reach the emitter, so "does not
   propagate into whoever emitted the notification" is carried by the
   correspondence (an escaping exception is rendered as a pseudo-notification
   no machine produces).  The theorems say where a raising callback leads:
   closed forms for map and filter with ARBITRARY callbacks, the step-level
   routing lemma for every callback operator of the catalogue, and that the
   subscription ends at that instant with nothing after the error. *)
From RxVerif Require Import Base.Prelude Ops.Machine Ops.MachineFacts Ops.Elementwise Ops.Aggregates
  Ops.RaiseFacts Ops.FirstRaise.

Theorem C09_map_any_callback : forall A B (f : A -> res B) xs t,
  exec (op_map f) (events xs t)
  = nexts (fst (until_raise f 1 xs)) ++ close (S (length xs)) t (snd (until_raise f 1 xs)).
Proof. exact @map_raise_spec. Qed.
Print Assumptions C09_map_any_callback.

Theorem C09_filter_any_callback : forall A (p : A -> res bool) xs t,
  exec (op_filter p) (events xs t)
  = nexts (somes (fst (until_raise (keep p) 1 xs)))
    ++ close (S (length xs)) t (snd (until_raise (keep p) 1 xs)).
Proof. exact @filter_raise_spec. Qed.
Print Assumptions C09_filter_any_callback.

(* a failing step ends the subscription: its outputs, then Err e, then nothing *)
Theorem C09_failure_ends_subscription :
  forall A B (m : mealy A B) s k x rest s' outs e,
    m_next m s x = (s', outs, Fail e) ->
    exec_from m s k (Next x :: rest) = map (fun b => (k, Next b)) outs ++ [(k, Err e)].
Proof. exact @fail_stops. Qed.
Print Assumptions C09_failure_ends_subscription.

(* grammar survives any failure *)
Theorem C09_grammar_after_failure : forall A B (m : mealy A B) ins, wellformed (untag (exec m ins)) = true.
Proof. exact @exec_wellformed. Qed.
Print Assumptions C09_grammar_after_failure.

(* routing, operator by operator *)
Theorem C09_route_map : forall A B (f : A -> res B) s x e,
  f x = Raise e -> m_next (op_map f) s x = (s, [], Fail e).
Proof. exact @raise_map. Qed.
Theorem C09_route_map_indexed : forall A B (f : A -> nat -> res B) i x e,
  f x i = Raise e -> m_next (op_map_indexed f) i x = (i, [], Fail e).
Proof. exact @raise_map_indexed. Qed.
Theorem C09_route_filter : forall A (p : A -> res bool) s x e,
  p x = Raise e -> m_next (op_filter p) s x = (s, [], Fail e).
Proof. exact @raise_filter. Qed.
Theorem C09_route_filter_indexed : forall A (p : A -> nat -> res bool) i x e,
  p x i = Raise e -> m_next (op_filter_indexed p) i x = (i, [], Fail e).
Proof. exact @raise_filter_indexed. Qed.
Theorem C09_route_take_while : forall A (p : A -> res bool) inc x e,
  p x = Raise e -> m_next (op_take_while p inc) true x = (true, [], Fail e).
Proof. exact @raise_take_while. Qed.
Theorem C09_route_take_while_indexed : forall A (p : A -> nat -> res bool) inc i x e,
  p x i = Raise e -> m_next (op_take_while_indexed p inc) (true, i) x = ((true, i), [], Fail e).
Proof. exact @raise_take_while_indexed. Qed.
Theorem C09_route_skip_while : forall A (p : A -> res bool) x e,
  p x = Raise e -> m_next (op_skip_while p) false x = (false, [], Fail e).
Proof. exact @raise_skip_while. Qed.
Theorem C09_route_distinct_key : forall A K (key : A -> res K) cmp set x e,
  key x = Raise e -> m_next (op_distinct key cmp) set x = (set, [], Fail e).
Proof. exact @raise_distinct_key. Qed.
Theorem C09_route_distinct_comparer : forall A K (key : A -> res K) cmp set x k e,
  key x = Ok k -> hs_find cmp set k = Raise e -> m_next (op_distinct key cmp) set x = (set, [], Fail e).
Proof. exact @raise_distinct_cmp. Qed.
Theorem C09_route_duc_key : forall A K (key : A -> res K) cmp cur x e,
  key x = Raise e -> m_next (op_distinct_until_changed key cmp) cur x = (cur, [], Fail e).
Proof. exact @raise_duc_key. Qed.
Theorem C09_route_duc_comparer : forall A K (key : A -> res K) cmp c x k e,
  key x = Ok k -> cmp c k = Raise e ->
  m_next (op_distinct_until_changed key cmp) (Some c) x = (Some c, [], Fail e).
Proof. exact @raise_duc_cmp. Qed.
Theorem C09_route_find : forall A (p : A -> nat -> res bool) yi i x e,
  p x i = Raise e -> m_next (op_find p yi) i x = (i, [], Fail e).
Proof. exact @raise_find. Qed.
Theorem C09_route_scan : forall A B (f : B -> A -> res B) seed acc x e,
  f (match acc with Some a => a | None => seed end) x = Raise e ->
  m_next (op_scan_seed f seed) acc x = (acc, [], Fail e).
Proof. exact @raise_scan_seed. Qed.
Theorem C09_route_extrema_key : forall A K (key : A -> res K) cmp st x e,
  key x = Raise e -> m_next (op_extrema_by key cmp) st x = (st, [], Fail e).
Proof. exact @raise_extrema_key. Qed.
Print Assumptions C09_route_map.
Print Assumptions C09_route_distinct_comparer.
Print Assumptions C09_route_extrema_key.

Print Assumptions C09_route_map_indexed.
Print Assumptions C09_route_filter.
Print Assumptions C09_route_filter_indexed.
Print Assumptions C09_route_take_while.
Print Assumptions C09_route_take_while_indexed.
Print Assumptions C09_route_skip_while.
Print Assumptions C09_route_distinct_key.
Print Assumptions C09_route_duc_key.
Print Assumptions C09_route_duc_comparer.
Print Assumptions C09_route_find.
Print Assumptions C09_route_scan.

Example C09_witness :
  exec (op_map (fun x => if x =? 3 then Raise 9 else Ok (x + 1))) (events [1; 2; 3; 4] TDone)
  = [(1%nat, Next 2); (2%nat, Next 3); (3%nat, Err 9)].
Proof. vm_compute. reflexivity. Qed.

(* ---- run level: lifting a failing step to the whole run (Ops/FirstRaise.v) ------------------------------
   [state_after m s pre = Some s']: the elements of pre were processed without the subscription ending and
   left the machine in s' (equivalently: no terminal in the run on pre, C09_live_prefix_iff).  If the step on
   x then fails, the run on  pre ++ x :: post ++ ANY tail  is the run on pre (unchanged), the outputs of the
   failing step and Err e at x's position -- and nothing after it. *)
Theorem C09_first_raise_generic :
  forall A B (m : mealy A B) pre x post tl s k s' s'' outs e,
    state_after m s pre = Some s' ->
    m_next m s' x = (s'', outs, Fail e) ->
    exec_from m s k (map Next (pre ++ x :: post) ++ tl)
    = exec_from m s k (map Next pre)
      ++ map (fun b => ((k + length pre)%nat, Next b)) outs ++ [((k + length pre)%nat, Err e)].
Proof. exact @first_raise_from. Qed.
Print Assumptions C09_first_raise_generic.

(* the same for a whole subscription *)
Theorem C09_first_raise_subscription :
  forall A B (m : mealy A B) pre x post tl s' s'' outs e,
    live (snd (m_pre m)) = true ->
    state_after m (m_init m) pre = Some s' ->
    m_next m s' x = (s'', outs, Fail e) ->
    exec m (map Next (pre ++ x :: post) ++ tl)
    = exec m (map Next pre) ++ map (fun b => (S (length pre), Next b)) outs ++ [(S (length pre), Err e)].
Proof. exact @first_raise_exec. Qed.
Print Assumptions C09_first_raise_subscription.

Theorem C09_live_prefix_iff : forall A B (m : mealy A B) xs s k,
  no_terminal (exec_from m s k (map Next xs)) = true <-> exists s', state_after m s xs = Some s'.
Proof. exact @state_after_iff_no_terminal. Qed.
Print Assumptions C09_live_prefix_iff.

(* operator by operator: the callback returned on every element of pre and raises e on x *)
Theorem C09_run_map_indexed : forall A B (f : A -> nat -> res B) pre x post tl e,
  oks_i f 0 pre -> f x (length pre) = Raise e ->
  exec (op_map_indexed f) (map Next (pre ++ x :: post) ++ tl)
  = exec (op_map_indexed f) (map Next pre) ++ [(S (length pre), Err e)].
Proof. exact @map_indexed_first_raise. Qed.
Print Assumptions C09_run_map_indexed.

Theorem C09_run_filter_indexed : forall A (p : A -> nat -> res bool) pre x post tl e,
  oks_i p 0 pre -> p x (length pre) = Raise e ->
  exec (op_filter_indexed p) (map Next (pre ++ x :: post) ++ tl)
  = exec (op_filter_indexed p) (map Next pre) ++ [(S (length pre), Err e)].
Proof. exact @filter_indexed_first_raise. Qed.
Print Assumptions C09_run_filter_indexed.

(* take_while: everything the predicate accepted was forwarded, then the error *)
Theorem C09_run_take_while : forall A (p : A -> res bool) inc pre x post tl e,
  Forall (fun y => p y = Ok true) pre -> p x = Raise e ->
  exec (op_take_while p inc) (map Next (pre ++ x :: post) ++ tl)
  = nexts (indexed 1 pre) ++ [(S (length pre), Err e)].
Proof. exact @take_while_first_raise. Qed.
Print Assumptions C09_run_take_while.

(* skip_while: still skipping, so the error is the only output *)
Theorem C09_run_skip_while : forall A (p : A -> res bool) pre x post tl e,
  Forall (fun y => p y = Ok true) pre -> p x = Raise e ->
  exec (op_skip_while p) (map Next (pre ++ x :: post) ++ tl) = [(S (length pre), Err e)].
Proof. exact @skip_while_first_raise. Qed.
Print Assumptions C09_run_skip_while.

(* scan with a seed: the accumulator folded over pre is a, and f a x raises *)
Theorem C09_run_scan_seed : forall A T (f : T -> A -> res T) seed pre x post tl a e,
  fold_ok f seed pre = Some a -> f a x = Raise e ->
  exec (op_scan_seed f seed) (map Next (pre ++ x :: post) ++ tl)
  = exec (op_scan_seed f seed) (map Next pre) ++ [(S (length pre), Err e)].
Proof. exact @scan_seed_first_raise. Qed.
Print Assumptions C09_run_scan_seed.

(* scan without a seed: the first element y is the accumulator, the callback runs from the second on *)
Theorem C09_run_scan : forall A (f : A -> A -> res A) y pre x post tl a e,
  fold_ok f y pre = Some a -> f a x = Raise e ->
  exec (op_scan f) (map Next ((y :: pre) ++ x :: post) ++ tl)
  = exec (op_scan f) (map Next (y :: pre)) ++ [(S (S (length pre)), Err e)].
Proof. exact @scan_first_raise. Qed.
Print Assumptions C09_run_scan.

(* distinct: key mapper or comparer raising; [set] = the keys stored after pre *)
Theorem C09_run_distinct : forall A K (key : A -> res K) (cmp : K -> K -> res bool) pre x post tl set e,
  state_after (op_distinct key cmp) [] pre = Some set ->
  (key x = Raise e \/ exists k, key x = Ok k /\ hs_find cmp set k = Raise e) ->
  exec (op_distinct key cmp) (map Next (pre ++ x :: post) ++ tl)
  = exec (op_distinct key cmp) (map Next pre) ++ [(S (length pre), Err e)].
Proof. exact @distinct_first_raise. Qed.
Print Assumptions C09_run_distinct.

Theorem C09_run_distinct_until_changed :
  forall A K (key : A -> res K) (cmp : K -> K -> res bool) pre x post tl cur e,
  state_after (op_distinct_until_changed key cmp) None pre = Some cur ->
  (key x = Raise e \/ exists k c, key x = Ok k /\ cur = Some c /\ cmp c k = Raise e) ->
  exec (op_distinct_until_changed key cmp) (map Next (pre ++ x :: post) ++ tl)
  = exec (op_distinct_until_changed key cmp) (map Next pre) ++ [(S (length pre), Err e)].
Proof. exact @duc_first_raise. Qed.
Print Assumptions C09_run_distinct_until_changed.

(* max_by / min_by: key mapper OR comparer raising; nothing had been emitted, so the error is the only output *)
Theorem C09_run_extrema_by : forall A K (key : A -> res K) (cmp : K -> K -> res Z) pre x post tl st e,
  state_after (op_extrema_by key cmp) (None, []) pre = Some st ->
  (key x = Raise e \/ exists k lk, key x = Ok k /\ fst st = Some lk /\ cmp k lk = Raise e) ->
  exec (op_extrema_by key cmp) (map Next (pre ++ x :: post) ++ tl) = [(S (length pre), Err e)].
Proof. exact @extrema_first_raise. Qed.
Print Assumptions C09_run_extrema_by.

Theorem C09_run_find : forall A (p : A -> nat -> res bool) yi pre x post tl e,
  state_after (op_find p yi) 0%nat pre = Some (length pre) -> p x (length pre) = Raise e ->
  exec (op_find p yi) (map Next (pre ++ x :: post) ++ tl) = [(S (length pre), Err e)].
Proof. exact @find_first_raise. Qed.
Print Assumptions C09_run_find.

(* non-vacuity of the hypotheses: a comparer raising on the third element against a stored key (distinct),
   a comparer raising in max_by, an accumulator raising in scan; junk after the failure is ignored *)
Example C09_witness_distinct_comparer :
  let cmp := fun a b : Z => if (a =? 2) && (b =? 5) then Raise 7 else Ok (a =? b) in
  state_after (op_distinct (fun x : Z => Ok x) cmp) [] [1; 2; 1] = Some [1; 2]
  /\ hs_find cmp [1; 2] 5 = Raise 7
  /\ exec (op_distinct (fun x : Z => Ok x) cmp) (map Next ([1; 2; 1] ++ 5 :: [6]) ++ [Done; Next 9])
     = [(1%nat, Next 1); (2%nat, Next 2); (4%nat, Err 7)].
Proof. vm_compute. repeat split; reflexivity. Qed.
Example C09_witness_extrema_comparer :
  let cmp := fun a b : Z => if a =? 4 then Raise 8 else Ok (a - b) in
  state_after (op_extrema_by (fun x : Z => Ok x) cmp) (None, []) [3; 1] = Some (Some 3, [3])
  /\ exec (op_extrema_by (fun x : Z => Ok x) cmp) (map Next ([3; 1] ++ 4 :: [5]) ++ [Done]) = [(3%nat, Err 8)].
Proof. vm_compute. split; reflexivity. Qed.
Example C09_witness_scan :
  let f := fun a x : Z => if x =? 0 then Raise 3 else Ok (a + x) in
  fold_ok f 10 [1; 2] = Some 13
  /\ exec (op_scan_seed f 10) (map Next ([1; 2] ++ 0 :: [4]) ++ [Err 99])
     = [(1%nat, Next 11); (2%nat, Next 13); (3%nat, Err 3)].
Proof. vm_compute. split; reflexivity. Qed.
Example C09_witness_find_state :
  state_after (op_find (fun (x : Z) (i : nat) => if x =? 7 then Raise 1 else Ok false) false) 0%nat [1; 2]
  = Some 2%nat.
Proof. vm_compute. reflexivity. Qed.

(* ---- take_while_indexed and to_dict at run level (Ops/FirstRaise2.v) ------------------------------------ *)
From RxVerif Require Import Ops.FirstRaise2.

(* to_dict, step-level routing: the key mapper raising; the element mapper raising after the key mapper returned *)
Theorem C09_route_to_dict_key : forall A K V keq (key : A -> res K) (el : A -> res V) d x e,
  key x = Raise e -> m_next (op_to_dict keq key el) d x = (d, [], Fail e).
Proof. exact @raise_to_dict_key. Qed.
Print Assumptions C09_route_to_dict_key.
Theorem C09_route_to_dict_elem : forall A K V keq (key : A -> res K) (el : A -> res V) d x k e,
  key x = Ok k -> el x = Raise e -> m_next (op_to_dict keq key el) d x = (d, [], Fail e).
Proof. exact @raise_to_dict_elem. Qed.
Print Assumptions C09_route_to_dict_elem.

(* take_while_indexed: the predicate returned True on pre (called with the indices 0, 1, ...), so all of pre
   was forwarded; it raises on x at index |pre|: the error follows, and nothing after it *)
Theorem C09_run_take_while_indexed : forall A (p : A -> nat -> res bool) inc pre x post tl e,
  trues_i p 0 pre -> p x (length pre) = Raise e ->
  exec (op_take_while_indexed p inc) (map Next (pre ++ x :: post) ++ tl)
  = nexts (indexed 1 pre) ++ [(S (length pre), Err e)].
Proof. exact @take_while_indexed_first_raise. Qed.
Print Assumptions C09_run_take_while_indexed.

(* to_dict: both mappers returned on pre; on x the key mapper raises, or it returns and the element mapper
   raises: the error is the ONLY output (no dictionary is delivered), whatever follows *)
Theorem C09_run_to_dict : forall A K V keq (key : A -> res K) (el : A -> res V) pre x post tl e,
  both_ok key el pre ->
  (key x = Raise e \/ exists k, key x = Ok k /\ el x = Raise e) ->
  exec (op_to_dict keq key el) (map Next (pre ++ x :: post) ++ tl) = [(S (length pre), Err e)].
Proof. exact @to_dict_first_raise. Qed.
Print Assumptions C09_run_to_dict.

(* non-vacuity: a predicate raising at index 2; an element mapper raising on the third element *)
Example C09_witness_take_while_indexed :
  let p := fun (x : Z) (i : nat) => if Nat.eqb i 2 then Raise 5 else Ok (x <? 10) in
  trues_i p 0 [1; 2] /\ p 3 (length [1; 2]) = Raise 5
  /\ exec (op_take_while_indexed p true) (map Next ([1; 2] ++ 3 :: [4]) ++ [Done; Next 9])
     = [(1%nat, Next 1); (2%nat, Next 2); (3%nat, Err 5)].
Proof. vm_compute. repeat split; reflexivity. Qed.
Example C09_witness_to_dict_elem :
  let key := fun x : Z => Ok (x mod 2) in
  let el := fun x : Z => if x =? 7 then Raise 4 else Ok (x * 10) in
  both_ok key el [1; 2] /\ key 7 = Ok 1 /\ el 7 = Raise 4
  /\ exec (op_to_dict Z.eqb key el) (map Next ([1; 2] ++ 7 :: [8]) ++ [Done]) = [(3%nat, Err 4)].
Proof.
  split; [|vm_compute; repeat split; reflexivity].
  repeat constructor; eexists; reflexivity.
Qed.
