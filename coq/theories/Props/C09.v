(* C09 -- exceptions raised by user callbacks are delivered as on_error.
   In the machine model a handler can only end in Cont / Complete / Fail e:
   there is no way for an exception to reach the emitter, so "does not
   propagate into whoever emitted the notification" is carried by the
   correspondence (an escaping exception is rendered as a pseudo-notification
   no machine produces).  The theorems say where a raising callback leads:
   closed forms for map and filter with ARBITRARY callbacks, the step-level
   routing lemma for every callback operator of the catalogue, and that the
   subscription ends at that instant with nothing after the error. *)
From RxVerif Require Import Base.Prelude Ops.Machine Ops.MachineFacts Ops.Elementwise Ops.Aggregates
  Ops.RaiseFacts.

Theorem C09_map_any_callback : forall A B (f : A -> res B) xs t,
  exec (op_map f) (events xs t)
  = nexts (fst (until_raise f 1 xs)) ++ close (S (length xs)) t (snd (until_raise f 1 xs)).
Proof. exact @map_raise_spec. Qed.
Print Assumptions C09_map_any_callback.

Theorem C09_filter_any_callback : forall A (p : A -> res bool) xs t,
  exec (op_filter p) (events xs t)
  = nexts (somes (fst (until_raise (keep p) 1 xs)))
    ++ close (S (length xs)) t (snd (until_raise (keep p) 1 xs)).
Proof. exact @filter_raise_spec. Qed.
Print Assumptions C09_filter_any_callback.

(* a failing step ends the subscription: its outputs, then Err e, then nothing *)
Theorem C09_failure_ends_subscription :
  forall A B (m : mealy A B) s k x rest s' outs e,
    m_next m s x = (s', outs, Fail e) ->
    exec_from m s k (Next x :: rest) = map (fun b => (k, Next b)) outs ++ [(k, Err e)].
Proof. exact @fail_stops. Qed.
Print Assumptions C09_failure_ends_subscription.

(* grammar survives any failure *)
Theorem C09_grammar_after_failure : forall A B (m : mealy A B) ins, wellformed (untag (exec m ins)) = true.
Proof. exact @exec_wellformed. Qed.
Print Assumptions C09_grammar_after_failure.

(* routing, operator by operator *)
Theorem C09_route_map : forall A B (f : A -> res B) s x e,
  f x = Raise e -> m_next (op_map f) s x = (s, [], Fail e).
Proof. exact @raise_map. Qed.
Theorem C09_route_map_indexed : forall A B (f : A -> nat -> res B) i x e,
  f x i = Raise e -> m_next (op_map_indexed f) i x = (i, [], Fail e).
Proof. exact @raise_map_indexed. Qed.
Theorem C09_route_filter : forall A (p : A -> res bool) s x e,
  p x = Raise e -> m_next (op_filter p) s x = (s, [], Fail e).
Proof. exact @raise_filter. Qed.
Theorem C09_route_filter_indexed : forall A (p : A -> nat -> res bool) i x e,
  p x i = Raise e -> m_next (op_filter_indexed p) i x = (i, [], Fail e).
Proof. exact @raise_filter_indexed. Qed.
Theorem C09_route_take_while : forall A (p : A -> res bool) inc x e,
  p x = Raise e -> m_next (op_take_while p inc) true x = (true, [], Fail e).
Proof. exact @raise_take_while. Qed.
Theorem C09_route_take_while_indexed : forall A (p : A -> nat -> res bool) inc i x e,
  p x i = Raise e -> m_next (op_take_while_indexed p inc) (true, i) x = ((true, i), [], Fail e).
Proof. exact @raise_take_while_indexed. Qed.
Theorem C09_route_skip_while : forall A (p : A -> res bool) x e,
  p x = Raise e -> m_next (op_skip_while p) false x = (false, [], Fail e).
Proof. exact @raise_skip_while. Qed.
Theorem C09_route_distinct_key : forall A K (key : A -> res K) cmp set x e,
  key x = Raise e -> m_next (op_distinct key cmp) set x = (set, [], Fail e).
Proof. exact @raise_distinct_key. Qed.
Theorem C09_route_distinct_comparer : forall A K (key : A -> res K) cmp set x k e,
  key x = Ok k -> hs_find cmp set k = Raise e -> m_next (op_distinct key cmp) set x = (set, [], Fail e).
Proof. exact @raise_distinct_cmp. Qed.
Theorem C09_route_duc_key : forall A K (key : A -> res K) cmp cur x e,
  key x = Raise e -> m_next (op_distinct_until_changed key cmp) cur x = (cur, [], Fail e).
Proof. exact @raise_duc_key. Qed.
Theorem C09_route_duc_comparer : forall A K (key : A -> res K) cmp c x k e,
  key x = Ok k -> cmp c k = Raise e ->
  m_next (op_distinct_until_changed key cmp) (Some c) x = (Some c, [], Fail e).
Proof. exact @raise_duc_cmp. Qed.
Theorem C09_route_find : forall A (p : A -> nat -> res bool) yi i x e,
  p x i = Raise e -> m_next (op_find p yi) i x = (i, [], Fail e).
Proof. exact @raise_find. Qed.
Theorem C09_route_scan : forall A B (f : B -> A -> res B) seed acc x e,
  f (match acc with Some a => a | None => seed end) x = Raise e ->
  m_next (op_scan_seed f seed) acc x = (acc, [], Fail e).
Proof. exact @raise_scan_seed. Qed.
Theorem C09_route_extrema_key : forall A K (key : A -> res K) cmp st x e,
  key x = Raise e -> m_next (op_extrema_by key cmp) st x = (st, [], Fail e).
Proof. exact @raise_extrema_key. Qed.
Print Assumptions C09_route_map.
Print Assumptions C09_route_distinct_comparer.
Print Assumptions C09_route_extrema_key.

Print Assumptions C09_route_map_indexed.
Print Assumptions C09_route_filter.
Print Assumptions C09_route_filter_indexed.
Print Assumptions C09_route_take_while.
Print Assumptions C09_route_take_while_indexed.
Print Assumptions C09_route_skip_while.
Print Assumptions C09_route_distinct_key.
Print Assumptions C09_route_duc_key.
Print Assumptions C09_route_duc_comparer.
Print Assumptions C09_route_find.
Print Assumptions C09_route_scan.

Example C09_witness :
  exec (op_map (fun x => if x =? 3 then Raise 9 else Ok (x + 1))) (events [1; 2; 3; 4] TDone)
  = [(1%nat, Next 2); (2%nat, Next 3); (3%nat, Err 9)].
Proof. vm_compute. reflexivity. Qed.
