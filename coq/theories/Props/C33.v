(* C33 -- cancelling an asyncio-scheduled action is effective from any thread.

   Model: Core/AsyncIO.v -- AsyncIOScheduler / AsyncIOThreadSafeScheduler as the code is, on a model
   of the asyncio loop (FIFO _ready, timer heap, Handle.cancel() = flag + cleared callback, the flag is
   tested when the handle is popped and again when it is run).  Thread 0 is the loop thread (it may make
   calls before run_forever() and from inside actions), the other threads are foreign.
   [ts]: thread-safe scheduler or plain one; [fixed]: _on_self_loop_or_not_running as repaired
   (proposed_fixes/C33-foreign-thread-cancel-marshalled.diff, applied to /repo).
   The theorems hold for the thread-safe scheduler as repaired with ANY foreign threads, and for either
   scheduler when only the loop thread uses it (the intended use of the plain AsyncIOScheduler).
   Assumption of the property, built into the system: the loop does not start while a dispose() that
   found it not running is in progress. *)
From RxVerif Require Import Base.Prelude Core.AsyncIO Core.AsyncIOFacts.
Local Open Scope Z_scope.

(* once dispose() on the returned disposable has returned, the action does not start -- for every
   schedule, whether dispose() ran on the loop thread (before run_forever() or inside an action) or on a
   foreign thread (direct path while the loop is not running, marshalled while it is) *)
Theorem C33_cancel_effective : forall ts fixed abody t0 pre progs sched l1 u l2,
  (ts && fixed = true \/ progs = []) ->
  AL_ (arun ts fixed abody (ainit t0 pre progs) sched) = l1 ++ ADispRet u :: l2 -> ~ In (AStart u) l2.
Proof. exact aio_cancel_effective. Qed.
Print Assumptions C33_cancel_effective.

(* actions start on the loop thread only *)
Theorem C33_on_loop_thread : forall ts fixed abody t0 pre progs sched tid t u,
  (ts && fixed = true \/ progs = []) ->
  In (tid, t, AStart u) (a_log (arun ts fixed abody (ainit t0 pre progs) sched)) -> tid = 0%nat.
Proof. exact aio_on_loop_thread. Qed.
Print Assumptions C33_on_loop_thread.

(* the code BEFORE the repair is refuted: a foreign dispose() while the loop is between call_later
   returning and handle.append cancels stage 1 only; the timer fires after dispose() returned *)
Theorem C33_foreign_direct_cancel_refuted :
  map snd (a_log old_code_witness) = [ARet 0; ADispRet 0; AStart 0]%nat.
Proof. exact aio_foreign_direct_cancel_refuted. Qed.
Print Assumptions C33_foreign_direct_cancel_refuted.

(* the same schedule on the repaired code *)
Theorem C33_same_schedule_repaired :
  map snd (a_log new_code_same_schedule) = [ARet 0; ADispRet 0]%nat.
Proof. exact aio_same_schedule_repaired. Qed.
Print Assumptions C33_same_schedule_repaired.

(* ---- non-vacuity -------------------------------------------------------------------------------- *)
(* an immediate and a relative action run; a foreign dispose of the relative one while the loop runs is
   marshalled and effective; a dispose from inside an action (on the loop thread) is direct *)
Example C33_ex_runs :
  let c := arun true true noaction (ainit 0 [ANow] [[ARel 1000]])
                ([AMStep 0; AMStep 0; AMStep 1] ++ repeat (AMStep 0%nat) 8 ++ [AMTick 1000] ++ repeat (AMStep 0%nat) 6) in
  map snd (a_log c) = [ARet 0; ARet 1; AStart 0; AEnd 0; AStart 1; AEnd 1]%nat /\
  map (fun x => snd (fst x)) (filter (fun x => match snd x with AStart _ => true | _ => false end) (a_log c)) = [0; 1000].
Proof. vm_compute. split; reflexivity. Qed.

Example C33_ex_marshalled_dispose :
  let c := arun true true noaction (ainit 0 [] [[ARel 1000; ADispose 0%nat]])
                ([AMStep 0; AMStep 1; AMStep 1]%nat ++ repeat (AMStep 0%nat) 10 ++ [AMStep 1%nat; AMTick 1000] ++
                 repeat (AMStep 0%nat) 6) in
  map snd (a_log c) = [ARet 0; ADispRet 0]%nat /\ aeff (a_sh c) = [0%nat] /\ map astatus (a_ths c) = [2; 1]%nat /\
  aclock (a_sh c) = 1000.
Proof. vm_compute. repeat split; reflexivity. Qed.

Example C33_ex_dispose_on_loop_thread :
  let body := abody_of [(0%nat, [ADispose 1%nat])] in
  let c := arun true true body (ainit 0 [ANow; ARel 500] []) (repeat (AMStep 0%nat) 12 ++ [AMTick 500] ++ repeat (AMStep 0%nat) 6) in
  map snd (a_log c) = [ARet 0; ARet 1; AStart 0; ADispRet 1; AEnd 0]%nat.
Proof. vm_compute. reflexivity. Qed.

Example C33_ex_dispose_before_loop_runs :
  let c := arun false true noaction (ainit 0 [ANow; ARel 500; ADispose 0%nat] []) (repeat (AMStep 0%nat) 8 ++ [AMTick 500] ++ repeat (AMStep 0%nat) 6) in
  map snd (a_log c) = [ARet 0; ARet 1; ADispRet 0; AStart 1; AEnd 1]%nat.
Proof. vm_compute. reflexivity. Qed.
