(* C33 -- cancelling an asyncio-scheduled action is effective from any thread.

   Model: Core/AsyncIO.v -- AsyncIOScheduler / AsyncIOThreadSafeScheduler as the code is, on a model
   of the asyncio loop (FIFO _ready, timer heap, Handle.cancel() = flag + cleared callback, the flag is
   tested when the handle is popped and again when it is run).  Thread 0 is the loop thread (it may make
   calls before run_forever() and from inside actions), the other threads are foreign.
   [ts]: thread-safe scheduler or plain one; [fixed]: _on_self_loop_or_not_running as repaired
   (proposed_fixes/C33-foreign-thread-cancel-marshalled.diff, applied to /repo).
   The theorems hold for the thread-safe scheduler as repaired with ANY foreign threads, for either
   scheduler when only the loop thread uses it (the intended use of the plain AsyncIOScheduler), and -- IN
   THIS MODEL, where a plain dispose() (handle.cancel()) and the loop's test-and-run of a handle are single
   steps -- for the plain scheduler with any foreign threads as well (C33_cancel_effective_plain/_all).
   The loop may be stopped and run again any number of times ([AStop] = loop.stop(), from an action, from
   the loop thread between two runs, or from any thread; run_forever() returns between two iterations of
   _run_once with whatever is queued still queued; [segs] = what the loop thread calls before each further
   run_forever()).  What the unchanged code guarantees there: a dispose() that found the loop running has
   marshalled cancel_handle and stays in future.result() until cancel_handle has run ON the loop -- across
   a stop, until the loop is run again (for ever if it never is: C33_ex_stopped_for_good) -- so it never
   returns with an uncancelled handle (C33_dispose_returns_cancelled); the action may start meanwhile, but
   then dispose() has not returned yet (C33_ex_stop_with_cancel_queued).
   Assumption of the property, built into the system: the loop does not start (again) while a dispose()
   that found it not running is in progress. *)
From RxVerif Require Import Base.Prelude Core.AsyncIO Core.AsyncIOFacts Core.AsyncIOTime Core.AsyncIOPlain.
Local Open Scope Z_scope.

(* once dispose() on the returned disposable has returned, the action does not start -- for every
   schedule, whether dispose() ran on the loop thread (before run_forever() or inside an action) or on a
   foreign thread (direct path while the loop is not running, marshalled while it is) *)
Theorem C33_cancel_effective : forall ts fixed abody t0 pre segs progs sched l1 u l2,
  (ts && fixed = true \/ progs = []) ->
  AL_ (arun ts fixed abody (ainit t0 pre segs progs) sched) = l1 ++ ADispRet u :: l2 -> ~ In (AStart u) l2.
Proof. exact aio_cancel_effective. Qed.
Print Assumptions C33_cancel_effective.

(* dispose() never returns before the cancellation has been carried out: when it has returned, every handle
   created so far for that call (interval, stage2, the timer) is cancelled -- for the marshalled path:
   future.result() is not left before cancel_handle has run on the loop, however often the loop was stopped
   and run again in between *)
Theorem C33_dispose_returns_cancelled : forall ts fixed abody t0 pre segs progs sched u h,
  (ts && fixed = true \/ progs = []) ->
  let c := arun ts fixed abody (ainit t0 pre segs progs) sched in
  In (ADispRet u) (AL_ c) -> owner (a_sh c) h = Some u -> amem h (acanc (a_sh c)) = true.
Proof. exact aio_dispose_returns_cancelled. Qed.
Print Assumptions C33_dispose_returns_cancelled.

(* the PLAIN AsyncIOScheduler with ANY foreign threads (repaired predicate or not): in the model each plain
   call owns one handle, its dispose() always takes the direct path and is one atomic step (handle.cancel()),
   and the loop tests the flag in the same step in which it runs the handle *)
Theorem C33_cancel_effective_plain : forall fixed abody t0 pre segs progs sched l1 u l2,
  AL_ (arun false fixed abody (ainit t0 pre segs progs) sched) = l1 ++ ADispRet u :: l2 -> ~ In (AStart u) l2.
Proof. exact aio_cancel_effective_plain. Qed.
Print Assumptions C33_cancel_effective_plain.

Theorem C33_dispose_returns_cancelled_plain : forall fixed abody t0 pre segs progs sched u h,
  let c := arun false fixed abody (ainit t0 pre segs progs) sched in
  In (ADispRet u) (AL_ c) -> owner (a_sh c) h = Some u -> amem h (acanc (a_sh c)) = true.
Proof. exact aio_dispose_returns_cancelled_plain. Qed.
Print Assumptions C33_dispose_returns_cancelled_plain.

(* ... why: no foreign thread is ever in the middle of a plain dispose() *)
Theorem C33_plain_dispose_atomic : forall fixed abody t0 pre segs progs sched tid cur todo,
  nth_error (a_ths (arun false fixed abody (ainit t0 pre segs progs) sched)) tid = Some (AF cur todo) -> cur = None.
Proof. exact aio_plain_dispose_atomic. Qed.
Print Assumptions C33_plain_dispose_atomic.

(* both classes under one statement: the side condition is needed for the thread-safe class only *)
Theorem C33_cancel_effective_all : forall ts fixed abody t0 pre segs progs sched l1 u l2,
  (ts = true -> fixed = true \/ progs = []) ->
  AL_ (arun ts fixed abody (ainit t0 pre segs progs) sched) = l1 ++ ADispRet u :: l2 -> ~ In (AStart u) l2.
Proof. exact aio_cancel_effective_all. Qed.
Print Assumptions C33_cancel_effective_all.

Theorem C33_dispose_returns_cancelled_all : forall ts fixed abody t0 pre segs progs sched u h,
  (ts = true -> fixed = true \/ progs = []) ->
  let c := arun ts fixed abody (ainit t0 pre segs progs) sched in
  In (ADispRet u) (AL_ c) -> owner (a_sh c) h = Some u -> amem h (acanc (a_sh c)) = true.
Proof. exact aio_dispose_returns_cancelled_all. Qed.
Print Assumptions C33_dispose_returns_cancelled_all.

(* the theorems above speak of the dispose() call that won the test-and-set of Disposable (ADispRet).  A further
   dispose() of the same disposable returns at once (ADispNoop): if the winner has returned before, the action
   does not start after the no-op return either ... *)
Theorem C33_noop_after_winner_returned : forall ts fixed abody t0 pre segs progs sched l1 u l2,
  (ts = true -> fixed = true \/ progs = []) ->
  AL_ (arun ts fixed abody (ainit t0 pre segs progs) sched) = l1 ++ ADispNoop u :: l2 ->
  In (ADispRet u) l1 -> ~ In (AStart u) l2.
Proof. exact aio_noop_after_winner_returned. Qed.
Print Assumptions C33_noop_after_winner_returned.

(* ... but NOT while the winner is still waiting in future.result(): T1 schedule(), T1 dispose() (marshalled,
   waits), T2 dispose() (no-op, returns at once), the loop runs the action.  The literal text "once dispose()
   has returned" is false for a second, concurrent dispose(); the property is kept for the winning call only *)
Theorem C33_noop_dispose_refuted :
  map snd (a_log noop_witness) = [ARet 0; ADispNoop 0; AStart 0]%nat /\
  nth_error (a_ths noop_witness) 1 = Some (AF (Some (FWait 0 0)) []) /\
  ~ In (ADispRet 0%nat) (map snd (a_log noop_witness)).
Proof. exact aio_noop_dispose_refuted. Qed.
Print Assumptions C33_noop_dispose_refuted.

(* a thread in future.result() does not move while the future has no result (only cancel_handle, run by the
   loop, sets it): while the loop is stopped the dispose() blocks *)
Theorem C33_wait_blocks : forall ts fixed abody c tid u f todo,
  nth_error (a_ths c) tid = Some (AF (Some (FWait u f)) todo) -> amem f (afut (a_sh c)) = false ->
  atstep ts fixed abody c tid = c.
Proof. exact aio_wait_blocks. Qed.
Print Assumptions C33_wait_blocks.

(* actions start on the loop thread only -- either class, repaired or not, any foreign threads: no side condition *)
Theorem C33_on_loop_thread : forall ts fixed abody t0 pre segs progs sched tid t u,
  In (tid, t, AStart u) (a_log (arun ts fixed abody (ainit t0 pre segs progs) sched)) -> tid = 0%nat.
Proof. exact aio_on_loop_thread_all. Qed.
Print Assumptions C33_on_loop_thread.

(* ---- "no earlier than their due time" ------------------------------------------------------------- *)
(* Every schedule call records the due time of the new call (uid = number of calls made before) in the ghost
   list [adue]: the clock at the call + the positive part of the delay; schedule_absolute(t) is
   schedule_relative(t - now) (both classes), a negative or zero delay is schedule().  Holds for either
   scheduler, repaired or not, with any foreign threads: no side condition. *)
Theorem C33_due_recorded : forall ts fixed ol s o r s' cur' todo' out,
  length (adue s) = length (ahl s) ->
  call_step ts fixed ol s None (o :: r) = Some (s', cur', todo', out) ->
  forall d, (o = ANow /\ d = 0) \/ o = ARel d \/ (exists t, o = AAbs t /\ d = t - aclock s) ->
  out = [ARet (length (ahl s))] /\ nth_error (adue s') (length (ahl s)) = Some (aclock s + Z.max 0 d).
Proof. exact aio_due_recorded. Qed.
Print Assumptions C33_due_recorded.

(* ... its hypothesis holds in every reachable state, and a recorded due time is never changed afterwards *)
Theorem C33_due_len : forall ts fixed abody t0 pre segs progs sched,
  let c := arun ts fixed abody (ainit t0 pre segs progs) sched in length (adue (a_sh c)) = length (ahl (a_sh c)).
Proof. exact aio_due_len. Qed.
Print Assumptions C33_due_len.

Theorem C33_due_stable : forall ts fixed abody t0 pre segs progs sched1 sched2 u due,
  let c1 := arun ts fixed abody (ainit t0 pre segs progs) sched1 in
  nth_error (adue (a_sh c1)) u = Some due -> nth_error (adue (a_sh (arun ts fixed abody c1 sched2))) u = Some due.
Proof. exact aio_due_stable. Qed.
Print Assumptions C33_due_stable.

(* an action starts no earlier than the due time of its call -- for every schedule of thread steps and clock
   advances, across loop.stop() / run again *)
Theorem C33_not_early : forall ts fixed abody t0 pre segs progs sched tid t u,
  let c := arun ts fixed abody (ainit t0 pre segs progs) sched in
  In (tid, t, AStart u) (a_log c) -> exists due, nth_error (adue (a_sh c)) u = Some due /\ due <= t.
Proof. exact aio_not_early. Qed.
Print Assumptions C33_not_early.

(* the timer-heap step of _run_once on its own: a timer is moved to _ready only when now >= when *)
Theorem C33_timer_popped_when_due : forall now tm dl rest h, split_due now tm = (dl, rest) -> In h dl ->
  exists w, In (w, h) tm /\ w <= now.
Proof. exact aio_timer_popped_when_due. Qed.
Print Assumptions C33_timer_popped_when_due.

(* the code BEFORE the repair is refuted: a foreign dispose() while the loop is between call_later
   returning and handle.append cancels stage 1 only; the timer fires after dispose() returned *)
Theorem C33_foreign_direct_cancel_refuted :
  map snd (a_log old_code_witness) = [ARet 0; ADispRet 0; AStart 0]%nat.
Proof. exact aio_foreign_direct_cancel_refuted. Qed.
Print Assumptions C33_foreign_direct_cancel_refuted.

(* the same schedule on the repaired code *)
Theorem C33_same_schedule_repaired :
  map snd (a_log new_code_same_schedule) = [ARet 0; ADispRet 0]%nat.
Proof. exact aio_same_schedule_repaired. Qed.
Print Assumptions C33_same_schedule_repaired.

(* ---- non-vacuity -------------------------------------------------------------------------------- *)
(* an immediate and a relative action run; a foreign dispose of the relative one while the loop runs is
   marshalled and effective; a dispose from inside an action (on the loop thread) is direct *)
Example C33_ex_runs :
  let c := arun true true noaction (ainit 0 [ANow] [] [[ARel 1000]])
                ([AMStep 0; AMStep 0; AMStep 1] ++ repeat (AMStep 0%nat) 8 ++ [AMTick 1000] ++ repeat (AMStep 0%nat) 6) in
  map snd (a_log c) = [ARet 0; ARet 1; AStart 0; AEnd 0; AStart 1; AEnd 1]%nat /\
  map (fun x => snd (fst x)) (filter (fun x => match snd x with AStart _ => true | _ => false end) (a_log c)) = [0; 1000].
Proof. vm_compute. split; reflexivity. Qed.

Example C33_ex_marshalled_dispose :
  let c := arun true true noaction (ainit 0 [] [] [[ARel 1000; ADispose 0%nat]])
                ([AMStep 0; AMStep 1; AMStep 1]%nat ++ repeat (AMStep 0%nat) 10 ++ [AMStep 1%nat; AMTick 1000] ++
                 repeat (AMStep 0%nat) 6) in
  map snd (a_log c) = [ARet 0; ADispRet 0]%nat /\ aeff (a_sh c) = [0%nat] /\ map astatus (a_ths c) = [2; 1]%nat /\
  aclock (a_sh c) = 1000.
Proof. vm_compute. repeat split; reflexivity. Qed.

Example C33_ex_dispose_on_loop_thread :
  let body := abody_of [(0%nat, [ADispose 1%nat])] in
  let c := arun true true body (ainit 0 [ANow; ARel 500] [] []) (repeat (AMStep 0%nat) 12 ++ [AMTick 500] ++ repeat (AMStep 0%nat) 6) in
  map snd (a_log c) = [ARet 0; ARet 1; AStart 0; ADispRet 1; AEnd 0]%nat.
Proof. vm_compute. reflexivity. Qed.

Example C33_ex_dispose_before_loop_runs :
  let c := arun false true noaction (ainit 0 [ANow; ARel 500; ADispose 0%nat] [] []) (repeat (AMStep 0%nat) 8 ++ [AMTick 500] ++ repeat (AMStep 0%nat) 6) in
  map snd (a_log c) = [ARet 0; ARet 1; ADispRet 0; AStart 1; AEnd 1]%nat.
Proof. vm_compute. reflexivity. Qed.

(* schedule_absolute: due 1500 scheduled at 200 (thread-safe: stage2 at 300, timer key 300 + 1300 = 1600 -- later than
   due, never earlier); an absolute time in the past and a negative relative delay run at once *)
Example C33_ex_absolute_and_negative :
  let c := arun true true noaction (ainit 200 [AAbs 1500; AAbs 100; ARel (-700)] [] [])
                ([AMStep 0; AMStep 0; AMStep 0; AMTick 100] ++ repeat (AMStep 0%nat) 14 ++ [AMTick 1299] ++
                 repeat (AMStep 0%nat) 3 ++ [AMTick 1] ++ repeat (AMStep 0%nat) 4) in
  map (fun x => (snd (fst x), snd x)) (filter (fun x => match snd x with AStart _ => true | _ => false end) (a_log c)) =
    [(300, AStart 1%nat); (300, AStart 2%nat); (1600, AStart 0%nat)] /\
  adue (a_sh c) = [1500; 200; 200].
Proof. vm_compute. split; reflexivity. Qed.

Example C33_ex_absolute_plain :
  let c := arun false true noaction (ainit 200 [AAbs 1500] [] [])
                ([AMStep 0; AMStep 0; AMTick 1299; AMStep 0; AMTick 1] ++ repeat (AMStep 0%nat) 4) in
  map (fun x => (snd (fst x), snd x)) (filter (fun x => match snd x with AStart _ => true | _ => false end) (a_log c)) =
    [(1500, AStart 0%nat)] /\ adue (a_sh c) = [1500].
Proof. vm_compute. split; reflexivity. Qed.

(* ---- the loop is stopped while callbacks are queued, and run again -------------------------------- *)
(* action 0 stops the loop; while it runs a foreign thread schedules action 1 and disposes it (marshalled:
   _ready = [interval 1; cancel_handle]).  The loop stops with both queued; the foreign thread stays in
   future.result() (status 2) while the clock advances.  When the loop is run again, interval 1 comes
   first: the action starts -- dispose() has NOT returned yet -- then cancel_handle runs and dispose()
   returns. *)
Definition stop_body := abody_of [(0%nat, [AStop])].
Definition stop_c1 := arun true true stop_body (ainit 0 [ANow] [[]] [[ANow; ADispose 1%nat]])
   ([AMStep 0; AMStep 0; AMStep 0; AMStep 0; AMStep 0; AMStep 1; AMStep 1; AMStep 0; AMStep 0; AMStep 1; AMTick 500;
     AMStep 1]%nat).
Example C33_ex_stop_with_cancel_queued :
  (map snd (a_log stop_c1) = [ARet 0; AStart 0; ARet 1; AStopEv; AEnd 0]%nat /\
   map astatus (a_ths stop_c1) = [0; 2]%nat /\ arunning (a_sh stop_c1) = false /\ aready (a_sh stop_c1) = [1; 2]%nat) /\
  let c := arun true true stop_body stop_c1 (repeat (AMStep 0%nat) 8 ++ [AMStep 1%nat]) in
  map snd (a_log c) = [ARet 0; AStart 0; ARet 1; AStopEv; AEnd 0; AStart 1; AEnd 1; ADispRet 1]%nat /\
  map astatus (a_ths c) = [2; 1]%nat.
Proof. vm_compute. repeat split; reflexivity. Qed.

(* the cancellation overtakes a timer: action 0 stops the loop, stage2 of the relative call 1 still runs in that
   iteration, the foreign dispose of call 1 is queued behind it; the loop stops, the timer expires while the
   loop is stopped; on the next run cancel_handle is ahead of the expired timer: the action never starts *)
Definition stop_c2 := arun true true stop_body (ainit 0 [ANow; ARel 500] [[]] [[ADispose 1%nat]])
   ([AMStep 0; AMStep 0; AMStep 0; AMStep 0; AMStep 0; AMStep 0; AMStep 1; AMStep 0; AMStep 0; AMStep 0; AMStep 0;
     AMStep 0; AMStep 1; AMTick 500; AMStep 1]%nat).
Example C33_ex_stop_timer_expires_while_stopped :
  (map snd (a_log stop_c2) = [ARet 0; ARet 1; AStart 0; AStopEv; AEnd 0]%nat /\
   map astatus (a_ths stop_c2) = [0; 2]%nat /\ arunning (a_sh stop_c2) = false /\
   aready (a_sh stop_c2) = [2%nat] /\ atimers (a_sh stop_c2) = [(500, 3%nat)]) /\
  let c := arun true true stop_body stop_c2 (repeat (AMStep 0%nat) 8 ++ [AMStep 1%nat]) in
  map snd (a_log c) = [ARet 0; ARet 1; AStart 0; AStopEv; AEnd 0; ADispRet 1]%nat /\
  map astatus (a_ths c) = [2; 1]%nat /\ acanc (a_sh c) = [1; 3]%nat.
Proof. vm_compute. repeat split; reflexivity. Qed.

(* liveness is NOT promised: if the loop is never run again (no further segment), the marshalled dispose()
   stays in future.result() for ever -- it does not return, so the property is kept; recorded as a quirk *)
Example C33_ex_stopped_for_good :
  let c := arun true true stop_body (ainit 0 [ANow] [] [[ANow; ADispose 1%nat]])
             ([AMStep 0; AMStep 0; AMStep 0; AMStep 0; AMStep 0; AMStep 1; AMStep 1; AMStep 0; AMStep 0; AMStep 1;
               AMTick 500; AMStep 1; AMStep 0; AMStep 0]%nat) in
  map snd (a_log c) = [ARet 0; AStart 0; ARet 1; AStopEv; AEnd 0]%nat /\ map astatus (a_ths c) = [1; 2]%nat /\
  a_ths c = [AL LDone; AF (Some (FWait 1 0)) []].
Proof. vm_compute. repeat split; reflexivity. Qed.

(* loop.stop() before run_forever(): exactly one iteration runs (zero select timeout), then the loop stops *)
Example C33_ex_stop_before_run :
  let c := arun true true noaction (ainit 0 [ANow; ARel 500; AStop] [] []) (repeat (AMStep 0%nat) 12) in
  map snd (a_log c) = [ARet 0; ARet 1; AStopEv; AStart 0; AEnd 0]%nat /\ a_ths c = [AL LDone] /\
  atimers (a_sh c) = [(500, 2%nat)].
Proof. vm_compute. repeat split; reflexivity. Qed.

(* the busy callback: action 0 waits for the clock (the loop is running, busy), meanwhile a foreign thread
   schedules action 1 and disposes it; action 0 then stops the loop, which is run again 4 ms later.  The
   dispose() is still waiting then; it returns after cancel_handle ran, i.e. after interval 1 ran. *)
Example C33_ex_busy_callback_stop_run_again :
  let body := abody_of [(0%nat, [ASleep 1000; AStop])] in
  let c := arun true true body (ainit 0 [ANow] [[ASleep 5000]] [[ANow; ADispose 1%nat]])
             ([AMStep 0; AMStep 0; AMStep 0; AMStep 0; AMStep 0; AMStep 1; AMStep 1; AMTick 1000; AMStep 0; AMStep 0;
               AMStep 0; AMStep 1; AMTick 4000] ++ repeat (AMStep 0%nat) 9 ++ [AMStep 1])%nat in
  map snd (a_log c) = [ARet 0; AStart 0; ARet 1; ASlept; AStopEv; AEnd 0; ASlept; AStart 1; AEnd 1; ADispRet 1]%nat /\
  map (fun x => snd (fst x)) (a_log c) = [0; 0; 0; 1000; 1000; 1000; 5000; 5000; 5000; 5000] /\
  map astatus (a_ths c) = [2; 1]%nat.
Proof. vm_compute. repeat split; reflexivity. Qed.

(* the plain scheduler with two foreign threads while the loop runs: T1 schedule_relative(1000), T1 dispose() --
   direct, returns; T2 dispose() -- no-op (the hypotheses of C33_noop_after_winner_returned); the clock passes
   the due time, the loop wakes up: nothing starts *)
Example C33_ex_plain_foreign_dispose :
  let c := arun false true noaction (ainit 0 [] [] [[ARel 1000; ADispose 0%nat]; [ADispose 0%nat]])
                ([AMStep 0; AMStep 1; AMStep 0; AMStep 1; AMStep 2; AMTick 1000] ++ repeat (AMStep 0%nat) 6)%nat in
  map snd (a_log c) = [ARet 0; ADispRet 0; ADispNoop 0]%nat /\ arunning (a_sh c) = true /\
  a_ths c = [AL (LIdle None); AF None []; AF None []] /\ aclock (a_sh c) = 1000.
Proof. vm_compute. repeat split; reflexivity. Qed.
