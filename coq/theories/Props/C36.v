(* C36 -- time values convert consistently between representations.
   Model: Core/TimeConv.v (scheduler.py: to_seconds / to_datetime / to_timedelta;
   constants.py: UTC_ZERO), exact on integers: an aware datetime / a timedelta is
   its number of microseconds, a binary64 float is [F m e] = m * 2^e, and the float
   operations the code reaches (int/int true division in total_seconds, modf,
   frac * 1e6, round-half-even in fromtimestamp / timedelta(seconds=)) are written
   with integer arithmetic.  Tied to the code bit-exactly by harness/props/C36.py.
   No axioms: everything is Z arithmetic. *)
From Coq Require Import ZArith.
From RxVerif Require Import Core.TimeConv Core.TimeConvFacts Core.TimeConvFacts2.
Open Scope Z_scope.

(* datetime <-> timedelta: exact and strictly order preserving, ALL values *)
Theorem C36_datetime_timedelta_exact :
  (forall d, to_datetime_td (to_timedelta_dt d) = d) /\ (forall t, to_timedelta_dt (to_datetime_td t) = t).
Proof. exact (conj dt_td_dt td_dt_td). Qed.
Print Assumptions C36_datetime_timedelta_exact.

Theorem C36_datetime_timedelta_order :
  (forall d d', d < d' <-> to_timedelta_dt d < to_timedelta_dt d')
  /\ (forall t t', t < t' <-> to_datetime_td t < to_datetime_td t').
Proof. exact (conj to_timedelta_dt_strict to_datetime_td_strict). Qed.
Print Assumptions C36_datetime_timedelta_order.

(* microseconds -> float seconds -> microseconds is the identity for every microsecond
   count below 2^33 * 10^6 (|t| < 8589934592 s, about 272 years around the epoch) *)
Theorem C36_roundtrip_through_float_seconds :
  forall n, Z.abs n < 2 ^ 33 * us_per_s -> us_of_float (to_seconds_td n) = n.
Proof. exact roundtrip_us. Qed.
Print Assumptions C36_roundtrip_through_float_seconds.

Theorem C36_roundtrip_datetime :
  forall d, Z.abs d < 2 ^ 33 * us_per_s -> to_datetime_float (to_seconds_dt d) = d.
Proof. exact roundtrip_datetime. Qed.
Print Assumptions C36_roundtrip_datetime.

Theorem C36_roundtrip_timedelta :
  forall t, Z.abs t < 2 ^ 33 * us_per_s -> to_timedelta_float (to_seconds_td t) = t.
Proof. exact roundtrip_timedelta. Qed.
Print Assumptions C36_roundtrip_timedelta.

(* microsecond-aligned floats (the double nearest to n / 10^6) are fixed points of
   float -> microseconds -> float *)
Theorem C36_roundtrip_aligned_float :
  forall n, Z.abs n < 2 ^ 33 * us_per_s ->
  to_seconds_td (us_of_float (to_seconds_td n)) = to_seconds_td n.
Proof. exact roundtrip_float. Qed.
Print Assumptions C36_roundtrip_aligned_float.

(* the bound is sharp *)
Theorem C36_roundtrip_bound_is_sharp :
  us_of_float (to_seconds_td (2 ^ 33 * us_per_s + 1)) <> 2 ^ 33 * us_per_s + 1.
Proof. exact roundtrip_fails_beyond. Qed.
Print Assumptions C36_roundtrip_bound_is_sharp.

(* to_seconds preserves order, ALL timedeltas / datetimes (correct rounding is monotone) *)
Theorem C36_to_seconds_order :
  (forall n n', n <= n' -> fl_le (to_seconds_td n) (to_seconds_td n'))
  /\ (forall d d', d <= d' -> fl_le (to_seconds_dt d) (to_seconds_dt d')).
Proof. exact (conj to_seconds_td_mono to_seconds_dt_mono). Qed.
Print Assumptions C36_to_seconds_order.

(* strictly, within the round-trip range *)
Theorem C36_to_seconds_injective_in_range :
  forall n n', Z.abs n < 2 ^ 33 * us_per_s -> Z.abs n' < 2 ^ 33 * us_per_s ->
  to_seconds_td n = to_seconds_td n' -> n = n'.
Proof. exact to_seconds_injective_in_range. Qed.
Print Assumptions C36_to_seconds_injective_in_range.

(* ... and on float VALUES (fl_le / fl_eqb compare m * 2^e, not the syntactic pair): to_seconds is
   strictly increasing in the range, hence injective up to value equality *)
Theorem C36_to_seconds_strict_in_range :
  forall n n', Z.abs n < 2 ^ 33 * us_per_s -> Z.abs n' < 2 ^ 33 * us_per_s -> n < n' ->
  ~ fl_le (to_seconds_td n') (to_seconds_td n).
Proof. exact to_seconds_strict_in_range. Qed.
Print Assumptions C36_to_seconds_strict_in_range.

Theorem C36_to_seconds_value_injective_in_range :
  forall n n', Z.abs n < 2 ^ 33 * us_per_s -> Z.abs n' < 2 ^ 33 * us_per_s ->
  fl_eqb (to_seconds_td n) (to_seconds_td n') = true -> n = n'.
Proof. exact to_seconds_value_injective_in_range. Qed.
Print Assumptions C36_to_seconds_value_injective_in_range.

(* [rn a b] (int / int true division, hence total_seconds()) IS the correctly rounded binary64 of
   a / b, ALL a, b > 0: with 2^e = up e / dn e, the exponent is at least -1074, the mantissa is in
   [0, 2^53] (at least 2^52 unless subnormal), the error is at most half a unit in the last place
   and a tie goes to the even mantissa.  No overflow to infinity (not modelled). *)
Theorem C36_rn_correct :
  forall a b, 0 < a -> 0 < b ->
  let 'F m e := rn a b in
  -1074 <= e /\ 0 <= m <= 2 ^ 53 /\ (-1074 < e -> 2 ^ 52 <= m) /\
  2 * Z.abs (m * (b * up e) - a * dn e) <= b * up e /\
  (2 * Z.abs (m * (b * up e) - a * dn e) = b * up e -> Z.even m = true).
Proof. exact rn_correct. Qed.
Print Assumptions C36_rn_correct.

(* the spec determines the mantissa at a given exponent *)
Theorem C36_rn_spec_unique_at_exp :
  forall a b m m' e, 0 < b -> rn_spec a b (F m e) -> rn_spec a b (F m' e) -> m = m'.
Proof. exact rn_spec_unique_at_exp. Qed.
Print Assumptions C36_rn_spec_unique_at_exp.

(* negative numerators are the mirror image *)
Theorem C36_rn_correct_neg :
  forall a b, a < 0 -> 0 < b -> exists m e, rn a b = F (- m) e /\ rn_spec (- a) b (F m e).
Proof. exact rn_correct_neg. Qed.
Print Assumptions C36_rn_correct_neg.

(* to_timedelta(float) and to_datetime(float) preserve order, ALL finite floats (aligned or
   not; half-way cases; any magnitude) *)
Theorem C36_float_conversions_order :
  forall x y, fl_le x y ->
  to_timedelta_float x <= to_timedelta_float y /\ to_datetime_float x <= to_datetime_float y.
Proof. exact float_conversions_mono. Qed.
Print Assumptions C36_float_conversions_order.

(* ---- non-vacuity ------------------------------------------------------------------------ *)
(* timedelta(microseconds=1).total_seconds() = 0x1.0c6f7a0b5ed8dp-20 = 4722366482869645 * 2^-72 *)
Example C36_one_microsecond : to_seconds_td 1 = F 4722366482869645 (-72) /\ us_of_float (F 4722366482869645 (-72)) = 1.
Proof. split; vm_compute; reflexivity. Qed.

(* 2023-09-18T01:20:00.123456Z *)
Example C36_a_date : to_datetime_float (to_seconds_dt 1695000000123456) = 1695000000123456.
Proof. vm_compute. reflexivity. Qed.

(* half-way case: 0.0078125 s = 7812.5 us rounds to the even 7812; 0.0234375 s = 23437.5 us to 23438 *)
Example C36_half_even : us_of_float (F 1 (-7)) = 7812 /\ us_of_float (F 3 (-7)) = 23438 /\ us_of_float (F (-1) (-7)) = -7812.
Proof. repeat split; vm_compute; reflexivity. Qed.

Example C36_last_in_range : us_of_float (to_seconds_td (2 ^ 33 * us_per_s - 1)) = 2 ^ 33 * us_per_s - 1.
Proof. vm_compute. reflexivity. Qed.

(* rn_spec on a tie and on a subnormal: 1 / 2^1075 is half the smallest subnormal -> 0 (even);
   3 / 2^1075 -> 2 * 2^-1074 (even) *)
Example C36_rn_tie_subnormal : rn 1 (2 ^ 1075) = F 0 (-1074) /\ rn 3 (2 ^ 1075) = F 2 (-1074).
Proof. split; vm_compute; reflexivity. Qed.

Example C36_strict_neighbours :
  fl_leb (to_seconds_td (2 ^ 33 * us_per_s - 1)) (to_seconds_td (2 ^ 33 * us_per_s - 2)) = false.
Proof. vm_compute. reflexivity. Qed.

(* ---- non-aligned floats: what to_timedelta(x) / to_datetime(x) is relative to x (Core/TimeConvFacts3.v) -- *)
From RxVerif Require Import Core.TimeConvFacts3.

(* x = m * 2^e with e < 0 (for e >= 0 the conversion is exact: us_of_float_form_nonneg).  The result is
   strictly within one microsecond of x * 10^6 ... *)
Theorem C36_us_of_float_nearest : forall m e, e < 0 ->
  Z.abs (us_of_float (F m e) * 2 ^ (- e) - m * us_per_s) < 2 ^ (- e).
Proof. exact us_of_float_nearest. Qed.
Print Assumptions C36_us_of_float_nearest.

(* ... more precisely within 1/2 + 2^-34 microsecond (the 2^-34 is the rounding of frac * 1e6 to a double) *)
Theorem C36_us_of_float_close : forall m e, e < 0 ->
  2 ^ 33 * (2 * Z.abs (us_of_float (F m e) * 2 ^ (- e) - m * us_per_s) - 2 ^ (- e)) <= 2 ^ (- e).
Proof. exact us_of_float_close. Qed.
Print Assumptions C36_us_of_float_close.

(* exact whenever x * 10^6 is an integer *)
Theorem C36_us_of_float_exact_on_integers : forall m e n, e < 0 ->
  m * us_per_s = n * 2 ^ (- e) -> us_of_float (F m e) = n.
Proof. exact us_of_float_exact_on_integers. Qed.
Print Assumptions C36_us_of_float_exact_on_integers.

(* floats with at most 33 fractional bits: exactly the nearest microsecond count, ties to even *)
Theorem C36_us_of_float_nearest_even_coarse : forall m e, -33 <= e < 0 ->
  us_of_float (F m e) = rne_div (m * us_per_s) (2 ^ (- e)).
Proof. exact us_of_float_rne_coarse. Qed.
Print Assumptions C36_us_of_float_nearest_even_coarse.

(* "THE nearest microsecond count" for every float is NOT a theorem (double rounding in CPython's
   timedelta(seconds=) / fromtimestamp): 0x1.0f2e7b3d8e000p-1 s = 529651.5 us - 2^-34 us goes to 529652 *)
Theorem C36_us_of_float_nearest_exact_refuted :
  us_of_float double_rounding_witness = 529652 /\
  2 * Z.abs (529652 * 2 ^ 40 - 582357982919 * us_per_s) > 2 ^ 40 /\
  2 * Z.abs (529651 * 2 ^ 40 - 582357982919 * us_per_s) < 2 ^ 40.
Proof. exact us_of_float_nearest_exact_refuted. Qed.
Print Assumptions C36_us_of_float_nearest_exact_refuted.
