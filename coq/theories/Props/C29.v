(* C29 -- virtual-time runs always finish.

   Model: Core/VTime.v.  Fuel = one unit per dequeued item; the theorems show
   that the number of actions a history can enqueue ([hsize], resp. [qsize] of
   the pending queue) always suffices, so the out-of-fuel result is
   unreachable, and that no deadlock occurs in the code of the working tree
   ([c_prop_bump = false]), on numeric and datetime clocks ([k : kind]) alike
   and however many actions share one due time (the histories are arbitrary).
   Histories with periodic work are excluded here (an undisposed periodic action
   keeps start() busy forever by design; see C35). *)
From RxVerif Require Import Base.Prelude Core.VTime Core.VTimeFacts Core.VTAdvance.

(* Every history returns from every start()/advance_to()/advance_by() call. *)
Theorem C29_histories_terminate : forall k fuel c0 h,
  forallb noper_t h = true -> (hsize h <= fuel)%nat ->
  exists s', run (Cfg k false) fuel (init c0) h = RDone s'.
Proof. exact history_terminates. Qed.
Print Assumptions C29_histories_terminate.

(* start() in any state returns (normally or with an action's exception) *)
Theorem C29_start_returns : forall c fuel s, c_prop_bump c = false ->
  noper_q (queue s) -> (qsize (queue s) <= fuel)%nat ->
  exists s', returned (start c fuel s) s' /\ noper_q (queue s') /\ (qsize (queue s') <= qsize (queue s))%nat.
Proof. exact start_returns. Qed.
Print Assumptions C29_start_returns.

Theorem C29_advance_to_returns : forall fuel s t,
  noper_q (queue s) -> (qsize (queue s) <= fuel)%nat ->
  exists s', returned (advance_to fuel s t) s' /\ noper_q (queue s') /\ (qsize (queue s') <= qsize (queue s))%nat.
Proof. exact advance_to_returns. Qed.
Print Assumptions C29_advance_to_returns.

(* start() after running EVERY action: in any reachable stopped state whose
   pending actions never stop the scheduler or raise, start() returns with an
   empty queue and every action ever scheduled has been dequeued (and was run
   unless cancelled: C28_skipped_only_if_cancelled) *)
Theorem C29_start_runs_everything : forall c fuel c0 h sl c' fuel',
  let s := state_of (run c fuel (init c0) h) in
  c_prop_bump c' = false ->
  enabled s = false -> calm_q sl (queue s) -> (qsize (queue s) <= fuel')%nat ->
  exists s', start c' fuel' s = Finished s' /\ enabled s' = false /\ queue s' = [] /\
             forall id, (id < next_id s')%nat -> In id (map r_id (pops (log s'))).
Proof. exact hist_start_drains. Qed.
Print Assumptions C29_start_runs_everything.

(* a drained scheduler can be started again: start() returns at once, stopped,
   and C29_start_runs_everything applies again to whatever is scheduled next *)
Theorem C29_restartable : forall c fuel s, enabled s = false -> queue s = [] ->
  start c fuel s = Finished (set_enabled (set_enabled s true) false).
Proof. exact start_drained. Qed.
Print Assumptions C29_restartable.

(* Between top-level calls the scheduler is stopped: a call made on a stopped scheduler
   that returns normally leaves it stopped (any call, any state, any pending work) ... *)
Theorem C29_call_leaves_stopped : forall c fuel s cmd s',
  enabled s = false -> step_t c fuel s cmd = Finished s' -> enabled s' = false.
Proof. exact step_t_stays_stopped. Qed.
Print Assumptions C29_call_leaves_stopped.

(* ... hence after ANY history that ran to its end without an exception leaving a
   top-level call, _is_enabled is False (the hypothesis of C29_start_runs_everything and
   C28_advance_to).  "Ran to its end" is needed: in the out-of-fuel state the flag is
   still set, see C29_out_of_fuel_state_is_enabled *)
Theorem C29_stopped_between_calls : forall c fuel c0 h s',
  run c fuel (init c0) h = RDone s' -> (forall e, ~ In (EExc e) (log s')) -> enabled s' = false.
Proof. exact hist_stopped. Qed.
Print Assumptions C29_stopped_between_calls.

(* RESTART, as one statement about whole histories: any history of calm calls (schedule /
   cancel / note / forward sleep with bodies that never stop, raise or subscribe
   periodically, and any start(), TestScheduler.start(), advance_to(), advance_by() --
   so any number of earlier drains) followed by start() runs to its end: the queue is
   empty, the scheduler is stopped and EVERY action ever scheduled has been dequeued *)
Theorem C29_calm_history_then_start_drains : forall k fuel c0 h sl,
  Forall (calm_top sl) h -> (hsize h <= fuel)%nat ->
  exists s', run (Cfg k false) fuel (init c0) (h ++ [TStart]) = RDone s' /\
             queue s' = [] /\ enabled s' = false /\
             forall id, (id < next_id s')%nat -> In id (map r_id (pops (log s'))).
Proof. exact calm_history_start_drains. Qed.
Print Assumptions C29_calm_history_then_start_drains.

(* in particular: drain, schedule more, start again *)
Theorem C29_restart_runs_everything : forall k fuel c0 h1 h2 sl,
  Forall (calm_top sl) (h1 ++ h2) -> (hsize (h1 ++ h2) <= fuel)%nat ->
  exists s', run (Cfg k false) fuel (init c0) (h1 ++ [TStart] ++ h2 ++ [TStart]) = RDone s' /\
             queue s' = [] /\ enabled s' = false /\
             forall id, (id < next_id s')%nat -> In id (map r_id (pops (log s'))).
Proof. exact restart_runs_everything. Qed.
Print Assumptions C29_restart_runs_everything.

(* ---- witnesses ------------------------------------------------------ *)

(* [same_instant n]: n actions scheduled for the current instant; [count_runs]: Core/VTimeFacts.v *)

(* 300 actions at one instant, datetime clock: start returns, all 300 ran, the
   clock was bumped twice by 1000 us; a second start runs a later action *)
Example C29_witness_datetime :
  let r := run (Cfg Datetime false) 301 (init 0)
               (same_instant 300 ++ [TStart; TDo (SSched Now 300 []); TStart]) in
  count_runs (observe r) = 301%nat /\ clock (state_of r) = 2000 /\
  queue (state_of r) = [] /\ enabled (state_of r) = false /\
  match r with RDone _ => true | _ => false end = true.
Proof. vm_compute. repeat split; reflexivity. Qed.

Example C29_witness_numeric :
  let r := run (Cfg Numeric false) 301 (init 0) (same_instant 300 ++ [TStart]) in
  count_runs (observe r) = 300%nat /\ clock (state_of r) = 2000000 /\
  match r with RDone _ => true | _ => false end = true.
Proof. vm_compute. repeat split; reflexivity. Qed.

(* the code before the repair (self.clock += ... under the lock): with 102
   same-instant actions on a datetime clock start() deadlocks after 101 ran;
   101 actions still pass, and a numeric clock is unaffected *)
Example C29_original_code_deadlocks :
  let r := run (Cfg Datetime true) 200 (init 0) (same_instant 102 ++ [TStart]) in
  match r with RDeadlock _ => true | _ => false end = true /\ count_runs (observe r) = 101%nat.
Proof. vm_compute. split; reflexivity. Qed.

Example C29_original_code_101_ok :
  match run (Cfg Datetime true) 200 (init 0) (same_instant 101 ++ [TStart]) with
  | RDone _ => true | _ => false end = true.
Proof. vm_compute. reflexivity. Qed.

(* the hypotheses of C29_restart_runs_everything hold of a non-trivial pair of histories
   (nested scheduling, sleeping; action 0 cancels the action it has just scheduled, id 2 =
   label 1, which is dequeued at 7 and skipped) and the run is as stated *)
Example C29_witness_restart :
  let h1 := [TDo (SSched (Abs 5) 0 [SSched (Rel 2) 1 [SSleep 3]; SCancel 2]); TDo (SSched (Rel 1) 2 [])] in
  let h2 := [TDo (SSched Now 3 [SSched (Rel 4) 4 []]); TAdvBy 1] in
  forallb (fun c => match c with TDo k => calm_cmd true k | _ => true end) (h1 ++ h2) = true /\
  (hsize (h1 ++ h2) <= 5)%nat /\
  observe (run (Cfg Numeric false) 5 (init 0) (h1 ++ [TStart] ++ h2 ++ [TStart]))
  = [OClock 0; OClock 0; ORun 2 1; ORun 0 5; OClock 7; OClock 7; ORun 3 7; OClock 8;
     ORun 4 11; OClock 11].
Proof. vm_compute. repeat split; try reflexivity; lia. Qed.

(* why C29_stopped_between_calls needs the run to reach its end: when the fuel runs out
   inside start() the state is a mid-loop state with the flag set (and no exception) *)
Example C29_out_of_fuel_state_is_enabled :
  let r := run (Cfg Numeric false) 0 (init 0) [TDo (SSched Now 0 []); TStart] in
  match r with ROutOfFuel _ => true | _ => false end = true /\
  enabled (state_of r) = true /\
  existsb (fun e => match e with EExc _ => true | _ => false end) (log (state_of r)) = false.
Proof. vm_compute. repeat split; reflexivity. Qed.
