(* C29 -- virtual-time runs always finish.

   Model: Core/VTime.v.  Fuel = one unit per dequeued item; the theorems show
   that the number of actions a history can enqueue ([hsize], resp. [qsize] of
   the pending queue) always suffices, so the out-of-fuel result is
   unreachable, and that no deadlock occurs in the code of the working tree
   ([c_prop_bump = false]), on numeric and datetime clocks ([k : kind]) alike
   and however many actions share one due time (the histories are arbitrary).
   Histories with periodic work are excluded here (an undisposed periodic action
   keeps start() busy forever by design; see C35). *)
From RxVerif Require Import Base.Prelude Core.VTime Core.VTimeFacts.

(* Every history returns from every start()/advance_to()/advance_by() call. *)
Theorem C29_histories_terminate : forall k fuel c0 h,
  forallb noper_t h = true -> (hsize h <= fuel)%nat ->
  exists s', run (Cfg k false) fuel (init c0) h = RDone s'.
Proof. exact history_terminates. Qed.
Print Assumptions C29_histories_terminate.

(* start() in any state returns (normally or with an action's exception) *)
Theorem C29_start_returns : forall c fuel s, c_prop_bump c = false ->
  noper_q (queue s) -> (qsize (queue s) <= fuel)%nat ->
  exists s', returned (start c fuel s) s' /\ noper_q (queue s') /\ (qsize (queue s') <= qsize (queue s))%nat.
Proof. exact start_returns. Qed.
Print Assumptions C29_start_returns.

Theorem C29_advance_to_returns : forall fuel s t,
  noper_q (queue s) -> (qsize (queue s) <= fuel)%nat ->
  exists s', returned (advance_to fuel s t) s' /\ noper_q (queue s') /\ (qsize (queue s') <= qsize (queue s))%nat.
Proof. exact advance_to_returns. Qed.
Print Assumptions C29_advance_to_returns.

(* start() after running EVERY action: in any reachable stopped state whose
   pending actions never stop the scheduler or raise, start() returns with an
   empty queue and every action ever scheduled has been dequeued (and was run
   unless cancelled: C28_skipped_only_if_cancelled) *)
Theorem C29_start_runs_everything : forall c fuel c0 h sl c' fuel',
  let s := state_of (run c fuel (init c0) h) in
  c_prop_bump c' = false ->
  enabled s = false -> calm_q sl (queue s) -> (qsize (queue s) <= fuel')%nat ->
  exists s', start c' fuel' s = Finished s' /\ enabled s' = false /\ queue s' = [] /\
             forall id, (id < next_id s')%nat -> In id (map r_id (pops (log s'))).
Proof. exact hist_start_drains. Qed.
Print Assumptions C29_start_runs_everything.

(* a drained scheduler can be started again: start() returns at once, stopped,
   and C29_start_runs_everything applies again to whatever is scheduled next *)
Theorem C29_restartable : forall c fuel s, enabled s = false -> queue s = [] ->
  start c fuel s = Finished (set_enabled (set_enabled s true) false).
Proof. exact start_drained. Qed.
Print Assumptions C29_restartable.

(* ---- witnesses ------------------------------------------------------ *)

(* [same_instant n]: n actions scheduled for the current instant; [count_runs]: Core/VTimeFacts.v *)

(* 300 actions at one instant, datetime clock: start returns, all 300 ran, the
   clock was bumped twice by 1000 us; a second start runs a later action *)
Example C29_witness_datetime :
  let r := run (Cfg Datetime false) 301 (init 0)
               (same_instant 300 ++ [TStart; TDo (SSched Now 300 []); TStart]) in
  count_runs (observe r) = 301%nat /\ clock (state_of r) = 2000 /\
  queue (state_of r) = [] /\ enabled (state_of r) = false /\
  match r with RDone _ => true | _ => false end = true.
Proof. vm_compute. repeat split; reflexivity. Qed.

Example C29_witness_numeric :
  let r := run (Cfg Numeric false) 301 (init 0) (same_instant 300 ++ [TStart]) in
  count_runs (observe r) = 300%nat /\ clock (state_of r) = 2000000 /\
  match r with RDone _ => true | _ => false end = true.
Proof. vm_compute. repeat split; reflexivity. Qed.

(* the code before the repair (self.clock += ... under the lock): with 102
   same-instant actions on a datetime clock start() deadlocks after 101 ran;
   101 actions still pass, and a numeric clock is unaffected *)
Example C29_original_code_deadlocks :
  let r := run (Cfg Datetime true) 200 (init 0) (same_instant 102 ++ [TStart]) in
  match r with RDeadlock _ => true | _ => false end = true /\ count_runs (observe r) = 101%nat.
Proof. vm_compute. split; reflexivity. Qed.

Example C29_original_code_101_ok :
  match run (Cfg Datetime true) 200 (init 0) (same_instant 101 ++ [TStart]) with
  | RDone _ => true | _ => false end = true.
Proof. vm_compute. reflexivity. Qed.
