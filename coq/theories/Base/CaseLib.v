(* Helpers used only by generated correspondence cases (finite callbacks,
   decidable equality on outputs). *)
From RxVerif Require Import Base.Prelude Ops.Machine.

Fixpoint tbl {B} (l : list (Z * res B)) (d : res B) (z : Z) : res B :=
  match l with
  | [] => d
  | (k, v) :: t => if k =? z then v else tbl t d z
  end.

Definition ev_eqb {A} (eqb : A -> A -> bool) (a b : ev A) : bool :=
  match a, b with
  | Next x, Next y => eqb x y
  | Err e, Err f => e =? f
  | Done, Done => true
  | _, _ => false
  end.

Definition tagged_eqb {A} (eqb : A -> A -> bool) (a b : list (nat * ev A)) : bool :=
  list_eqb (pair_eqb Nat.eqb (ev_eqb eqb)) a b.

Definition sum_eqb {A B} (ea : A -> A -> bool) (eb : B -> B -> bool) (x y : A + B) : bool :=
  match x, y with
  | inl a, inl b => ea a b
  | inr a, inr b => eb a b
  | _, _ => false
  end.

Definition res_map {A B} (f : A -> B) (r : res A) : res B :=
  match r with Ok a => Ok (f a) | Raise e => Raise e end.
