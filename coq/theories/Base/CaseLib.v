(* Helpers used only by generated correspondence cases (finite callbacks,
   decidable equality on outputs). *)
From RxVerif Require Import Base.Prelude Ops.Machine.

Fixpoint tbl {B} (l : list (Z * res B)) (d : res B) (z : Z) : res B :=
  match l with
  | [] => d
  | (k, v) :: t => if k =? z then v else tbl t d z
  end.

Definition ev_eqb {A} (eqb : A -> A -> bool) (a b : ev A) : bool :=
  match a, b with
  | Next x, Next y => eqb x y
  | Err e, Err f => e =? f
  | Done, Done => true
  | _, _ => false
  end.

Definition tagged_eqb {A} (eqb : A -> A -> bool) (a b : list (nat * ev A)) : bool :=
  list_eqb (pair_eqb Nat.eqb (ev_eqb eqb)) a b.

Definition sum_eqb {A B} (ea : A -> A -> bool) (eb : B -> B -> bool) (x y : A + B) : bool :=
  match x, y with
  | inl a, inl b => ea a b
  | inr a, inr b => eb a b
  | _, _ => false
  end.

Definition res_map {A B} (f : A -> B) (r : res A) : res B :=
  match r with Ok a => Ok (f a) | Raise e => Raise e end.

(* insertion sort, for comparing set/dict outputs canonically *)
Fixpoint zinsert (x : Z) (l : list Z) : list Z :=
  match l with [] => [x] | y :: t => if x <=? y then x :: l else y :: zinsert x t end.
Definition zsort (l : list Z) : list Z := fold_right zinsert [] l.
Fixpoint zinsert_pair (x : Z * Z) (l : list (Z * Z)) : list (Z * Z) :=
  match l with [] => [x] | y :: t => if fst x <=? fst y then x :: l else y :: zinsert_pair x t end.
Definition zsort_pairs (l : list (Z * Z)) : list (Z * Z) := fold_right zinsert_pair [] l.
