(* Shared prelude: imports, notations and small list utilities over Z-indexed
   counts (so that huge Python ints such as sys.maxsize never become [nat]). *)
From Coq Require Export List ZArith Bool Lia Arith.
Export ListNotations.
Open Scope Z_scope.

(* first [n] elements, [n] a (possibly huge or negative) integer *)
Fixpoint ztake {A} (n : Z) (l : list A) : list A :=
  match l with
  | [] => []
  | x :: t => if n <=? 0 then [] else x :: ztake (n - 1) t
  end.

Fixpoint zskip {A} (n : Z) (l : list A) : list A :=
  match l with
  | [] => []
  | x :: t => if n <=? 0 then l else zskip (n - 1) t
  end.

Definition zlen {A} (l : list A) : Z := Z.of_nat (length l).

(* indices of the elements of [l] for which [f] is false *)
Fixpoint bad_idx_from {A} (i : nat) (f : A -> bool) (l : list A) : list nat :=
  match l with
  | [] => []
  | x :: t => if f x then bad_idx_from (S i) f t else i :: bad_idx_from (S i) f t
  end.
Definition bad_idx {A} (f : A -> bool) (l : list A) : list nat := bad_idx_from 0 f l.

Fixpoint list_eqb {A} (eqb : A -> A -> bool) (l1 l2 : list A) : bool :=
  match l1, l2 with
  | [], [] => true
  | x :: t1, y :: t2 => eqb x y && list_eqb eqb t1 t2
  | _, _ => false
  end.

Definition option_eqb {A} (eqb : A -> A -> bool) (o1 o2 : option A) : bool :=
  match o1, o2 with
  | None, None => true
  | Some x, Some y => eqb x y
  | _, _ => false
  end.

Definition pair_eqb {A B} (ea : A -> A -> bool) (eb : B -> B -> bool)
  (p q : A * B) : bool := ea (fst p) (fst q) && eb (snd p) (snd q).
