From RxVerif Require Import Base.Prelude.

Lemma ztake_firstn {A} (l : list A) : forall n, ztake n l = firstn (Z.to_nat n) l.
Proof.
  induction l as [|x t IH]; intros n; cbn [ztake].
  - now rewrite firstn_nil.
  - destruct (Z.leb_spec n 0) as [H|H].
    + replace (Z.to_nat n) with 0%nat by lia. reflexivity.
    + replace (Z.to_nat n) with (S (Z.to_nat (n - 1))) by lia.
      cbn [firstn]. now rewrite IH.
Qed.

Lemma zskip_skipn {A} (l : list A) : forall n, zskip n l = skipn (Z.to_nat n) l.
Proof.
  induction l as [|x t IH]; intros n; cbn [zskip].
  - now rewrite skipn_nil.
  - destruct (Z.leb_spec n 0) as [H|H].
    + replace (Z.to_nat n) with 0%nat by lia. reflexivity.
    + replace (Z.to_nat n) with (S (Z.to_nat (n - 1))) by lia.
      cbn [skipn]. now rewrite IH.
Qed.

Lemma list_eqb_spec {A} (eqb : A -> A -> bool) :
  (forall x y, eqb x y = true <-> x = y) ->
  forall l1 l2, list_eqb eqb l1 l2 = true <-> l1 = l2.
Proof.
  intros He l1; induction l1 as [|x t IH]; intros [|y t2]; cbn [list_eqb];
    try (split; [discriminate|discriminate]); try tauto.
  rewrite andb_true_iff, He, IH. split.
  - intros [-> ->]; reflexivity.
  - intros H; injection H as -> ->; auto.
Qed.
