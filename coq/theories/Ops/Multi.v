(* Multi-source / timer-using operators as machines, and the runner that plays
   the role of the library's subscription plumbing.

   One [machine] value models ONE subscription of an operator.  Its handlers
   react to inputs arriving at the operator's boundary:
     ISrc k e   source k (outer = 0, further sources / inner observables numbered
                in order of appearance) delivers notification e
     ITick tag  the timer the operator scheduled as [tag] fires
     IDispose   the subscriber disposes the subscription
   and answer with commands: emit downstream, subscribe/unsubscribe a source,
   schedule/cancel a timer, or a user-visible side effect (finally actions,
   resource disposal).  Every input carries the scheduler clock [now].

   The RUNNER models what the library gives every operator for free:
   * each source subscription is wrapped in an AutoDetachObserver: after source
     k's terminal notification (and after the operator unsubscribed k) nothing
     from k reaches the handlers, and the subscription to k is disposed right
     after its terminal was handled;
   * the downstream observer is wrapped too: once a terminal was emitted (or the
     subscriber disposed) nothing is emitted any more, and the disposable the
     operator returned is disposed -- ASSUMED to hold every source
     subscription and timer the operator opened (this assumption is what the
     K2 correspondence checks operator by operator: the implementation's
     unsubscribe/cancel instants must equal the runner's). *)
From RxVerif Require Import Base.Prelude Ops.Machine.

Inductive inp (A : Type) := ISrc (k : nat) (e : ev A) | ITick (tag : nat) | IDispose.
Arguments ISrc {A} k e. Arguments ITick {A} tag. Arguments IDispose {A}.

Inductive cmd (B : Type) :=
| CEmit (b : B) | CSub (k : nat) | CUnsub (k : nat)
| CTimer (tag : nat) (delay : Z) | CCancel (tag : nat) | CEffect (n : Z).
Arguments CEmit {B} b. Arguments CSub {B} k. Arguments CUnsub {B} k.
Arguments CTimer {B} tag delay. Arguments CCancel {B} tag. Arguments CEffect {B} n.

Inductive obs (B : Type) :=
| OEmit (e : ev B) | OSub (k : nat) | OUnsub (k : nat)
| OTimer (tag : nat) (delay : Z) | OCancel (tag : nat) | OEffect (n : Z).
Arguments OEmit {B} e. Arguments OSub {B} k. Arguments OUnsub {B} k.
Arguments OTimer {B} tag delay. Arguments OCancel {B} tag. Arguments OEffect {B} n.

Record machine (A B : Type) := Machine {
  x_state : Type;
  x_start : x_state * list (cmd B) * fin;                  (* inside subscribe() *)
  x_step : x_state -> Z -> inp A -> x_state * list (cmd B) * fin }.
Arguments Machine {A B x_state}.
Arguments x_state {A B}. Arguments x_start {A B}. Arguments x_step {A B}.

(* runner state: live source subscriptions, pending timers, stopped flag *)
Record rstate := RState { r_live : list nat; r_timers : list nat; r_stopped : bool }.

Definition mem (k : nat) (l : list nat) : bool := existsb (Nat.eqb k) l.
(* removes the OLDEST subscription to k (a source may be subscribed again by
   repeat/retry before the previous subscription is detached) *)
Fixpoint remove (k : nat) (l : list nat) : list nat :=
  match l with [] => [] | j :: t => if Nat.eqb k j then t else j :: remove k t end.

Fixpoint insert_sorted (k : nat) (l : list nat) : list nat :=
  match l with [] => [k] | j :: t => if Nat.leb k j then k :: l else j :: insert_sorted k t end.
Definition sort_nat (l : list nat) : list nat := fold_right insert_sorted [] l.

Section Run.
Context {A B : Type}.

(* apply the operator's commands in order *)
Fixpoint apply_cmds (r : rstate) (cs : list (cmd B)) : rstate * list (obs B) :=
  match cs with
  | [] => (r, [])
  | c :: t =>
      let '(r1, o1) :=
        match c with
        | CEmit b => (r, [OEmit (Next b)])
        | CSub k => (RState (r_live r ++ [k]) (r_timers r) (r_stopped r), [OSub k])
        | CUnsub k => if mem k (r_live r)
                      then (RState (remove k (r_live r)) (r_timers r) (r_stopped r), [OUnsub k])
                      else (r, [])
        | CTimer tag d => (RState (r_live r) (r_timers r ++ [tag]) (r_stopped r), [OTimer tag d])
        | CCancel tag => if mem tag (r_timers r)
                         then (RState (r_live r) (remove tag (r_timers r)) (r_stopped r), [OCancel tag])
                         else (r, [])
        | CEffect n => (r, [OEffect n])
        end in
      let '(r2, o2) := apply_cmds r1 t in (r2, o1 ++ o2)
  end.

(* dispose everything the operator's disposable holds (canonical order) *)
Definition release (r : rstate) : rstate * list (obs B) :=
  (RState [] [] true,
   map OUnsub (sort_nat (r_live r)) ++ map OCancel (sort_nat (r_timers r))).

Definition finish (r : rstate) (f : fin) : rstate * list (obs B) :=
  match f with
  | Cont => (r, [])
  | Complete => let '(r', o) := release r in (r', OEmit Done :: o)
  | Fail e => let '(r', o) := release r in (r', OEmit (Err e) :: o)
  end.

Context (m : machine A B).

(* one input at the boundary *)
Definition rstep (s : x_state m) (r : rstate) (now : Z) (i : inp A)
  : x_state m * rstate * list (obs B) :=
  if r_stopped r then (s, r, [])
  else
    let deliver (r0 : rstate) :=
      let '(s', cs, f) := x_step m s now i in
      let '(r1, o1) := apply_cmds r0 cs in
      (* auto-detach of a source subscription after its terminal *)
      let '(r2, o2) :=
        match i with
        | ISrc k e => if is_terminal e && mem k (r_live r1)
                      then (RState (remove k (r_live r1)) (r_timers r1) (r_stopped r1), [OUnsub k])
                      else (r1, [])
        | _ => (r1, [])
        end in
      let '(r3, o3) := finish r2 f in
      (s', r3, o1 ++ o2 ++ o3) in
    match i with
    | ISrc k _ => if mem k (r_live r) then deliver r else (s, r, [])
    | ITick tag => if mem tag (r_timers r)
                   then deliver (RState (r_live r) (remove tag (r_timers r)) (r_stopped r))
                   else (s, r, [])
    | IDispose =>
        let '(s', cs, _) := x_step m s now i in
        let '(r1, o1) := apply_cmds r cs in
        let '(r2, o2) := release r1 in
        (s', r2, filter (fun o => match o with OEmit _ => false | _ => true end) o1 ++ o2)
    end.

Fixpoint run_from (s : x_state m) (r : rstate) (k : nat) (ins : list (Z * inp A))
  : list (nat * obs B) * rstate :=
  match ins with
  | [] => ([], r)
  | (now, i) :: rest =>
      let '(s', r', o) := rstep s r now i in
      let '(tr, rf) := run_from s' r' (S k) rest in
      (map (fun x => (k, x)) o ++ tr, rf)
  end.

Definition run (ins : list (Z * inp A)) : list (nat * obs B) * rstate :=
  let '(s0, cs, f) := x_start m in
  let '(r1, o1) := apply_cmds (RState [] [] false) cs in
  let '(r2, o2) := finish r1 f in
  let '(tr, rf) := run_from s0 r2 1 ins in
  (map (fun x => (0%nat, x)) (o1 ++ o2) ++ tr, rf).
End Run.

Definition emitted {B} (tr : list (nat * obs B)) : list (ev B) :=
  flat_map (fun x => match snd x with OEmit e => [e] | _ => [] end) tr.
Definition temitted {B} (tr : list (nat * obs B)) : list (nat * ev B) :=
  flat_map (fun x => match snd x with OEmit e => [(fst x, e)] | _ => [] end) tr.
