(* Sequential composition WITH the positions: what a two-stage pipeline emits, and during WHICH input, is
   what stage 2 emits when it is fed stage 1's output, each reaction of stage 2 carrying the position of
   the stage-1 notification that caused it (stage 2 runs synchronously inside stage 1's on_next). *)
From RxVerif Require Import Base.Prelude Ops.Machine Ops.MachineFacts Ops.ComposeFacts.

Lemma untag_cons_ {X} (k : nat) (e : ev X) l : untag ((k, e) :: l) = e :: untag l.
Proof. reflexivity. Qed.

Section Tagged.
Context {B C : Type} (m2 : mealy B C).

(* m2 driven by a TAGGED stream: outputs inherit the tag of the notification being processed *)
Fixpoint exec_tagged_from (s2 : m_state m2) (ins : list (nat * ev B)) : list (nat * ev C) :=
  match ins with
  | [] => []
  | (k, Next x) :: rest =>
      let '(s', outs, f) := m_next m2 s2 x in
      emit k outs f ++ (if live f then exec_tagged_from s' rest else [])
  | (k, Err e) :: _ => let '(outs, f) := m_err m2 s2 e in emit k outs f
  | (k, Done) :: _ => let '(outs, f) := m_done m2 s2 in emit k outs f
  end.

Definition exec_tagged (ins : list (nat * ev B)) : list (nat * ev C) :=
  let '(outs, f) := m_pre m2 in
  emit 0 outs f ++ (if live f then exec_tagged_from (m_init m2) ins else []).

(* forgetting the tags gives back the plain run *)
Lemma exec_tagged_from_untag ins : forall s2 k,
  untag (exec_tagged_from s2 ins) = untag (exec_from m2 s2 k (untag ins)).
Proof.
  induction ins as [|[j i] rest IH]; intros s2 k; [reflexivity|].
  destruct i as [x|e|]; cbn [exec_tagged_from]; rewrite untag_cons_; cbn [exec_from].
  - destruct (m_next m2 s2 x) as [[s' outs] f]. rewrite !untag_app, !untag_emit.
    destruct (live f); [|reflexivity]. f_equal. apply IH.
  - destruct (m_err m2 s2 e) as [outs f]. now rewrite !untag_emit.
  - destruct (m_done m2 s2) as [outs f]. now rewrite !untag_emit.
Qed.

Lemma exec_tagged_untag ins : untag (exec_tagged ins) = untag (exec m2 (untag ins)).
Proof.
  unfold exec_tagged, exec. destruct (m_pre m2) as [outs f]. rewrite !untag_app, !untag_emit.
  destruct (live f); [|reflexivity]. f_equal. apply exec_tagged_from_untag.
Qed.

Lemma emit_app k (o o' : list C) f : emit k (o ++ o') f = map (fun c => (k, Next c)) o ++ emit k o' f.
Proof. unfold emit. now rewrite map_app, <- app_assoc. Qed.

Lemma emit_split k (o : list C) f : emit k o f = map (fun c => (k, Next c)) o ++ emit k [] f.
Proof. reflexivity. Qed.

(* a batch of elements that all carry tag k *)
Lemma tagged_feed k (outs : list B) : forall s2 tail,
  exec_tagged_from s2 (map (fun b => (k, Next b)) outs ++ tail)
  = map (fun c => (k, Next c)) (snd (fst (feed m2 s2 outs))) ++
    (if live (snd (feed m2 s2 outs))
     then exec_tagged_from (fst (fst (feed m2 s2 outs))) tail
     else emit k [] (snd (feed m2 s2 outs))).
Proof.
  induction outs as [|b t IH]; intros s2 tail.
  - reflexivity.
  - cbn [map app feed exec_tagged_from].
    destruct (m_next m2 s2 b) as [[s2' o] f].
    destruct f; cbn [live].
    + rewrite IH. destruct (feed m2 s2' t) as [[s2'' o'] f']. cbn [fst snd].
      rewrite emit_cont, map_app, <- app_assoc. reflexivity.
    + cbn [fst snd live]. rewrite app_nil_r. apply (emit_split k o).
    + cbn [fst snd live]. rewrite app_nil_r. apply (emit_split k o).
Qed.

(* a batch followed by how stage 1 left *)
Lemma tagged_feed_fin k (outs : list B) (f1 : fin) s2 :
  exec_tagged_from s2 (emit k outs f1)
  = emit k (snd (fst (feed_fin m2 s2 outs f1))) (snd (feed_fin m2 s2 outs f1)).
Proof.
  unfold emit at 1. rewrite tagged_feed. unfold feed_fin.
  destruct (feed m2 s2 outs) as [[s2' o] f]. cbn [fst snd].
  destruct f; cbn [live].
  - destruct f1; cbn [exec_tagged_from fst snd].
    + now rewrite emit_cont, app_nil_r.
    + destruct (m_done m2 s2') as [o' f']. cbn [fst snd]. now rewrite emit_app.
    + destruct (m_err m2 s2' e) as [o' f']. cbn [fst snd]. now rewrite emit_app.
  - cbn [fst snd]. symmetry. apply (emit_split k o).
  - cbn [fst snd]. symmetry. apply (emit_split k o).
Qed.
End Tagged.

Section Compose.
Context {A B C : Type} (m1 : mealy A B) (m2 : mealy B C).

Lemma compose_from_tagged ins : forall s1 s2 k,
  exec_from (compose m1 m2) (s1, s2, true) k ins
  = exec_tagged_from m2 s2 (exec_from m1 s1 k ins).
Proof.
  induction ins as [|i rest IH]; intros s1 s2 k; [reflexivity|].
  destruct i as [x|e|].
  - cbn [exec_from compose m_next].
    destruct (m_next m1 s1 x) as [[s1' o1] f1].
    destruct f1; cbn [live].
    + (* stage 1 continues *)
      unfold emit at 2. cbn [app]. rewrite <- app_assoc. cbn [app]. rewrite tagged_feed.
      unfold feed_fin. destruct (feed m2 s2 o1) as [[s2' o] f]. cbn [fst snd].
      destruct f; cbn [live].
      * rewrite emit_cont. f_equal. apply IH.
      * rewrite app_nil_r. apply (emit_split k o).
      * rewrite app_nil_r. apply (emit_split k o).
    + rewrite app_nil_r, tagged_feed_fin.
      destruct (feed_fin m2 s2 o1 Complete) as [[s2' o] f]. cbn [fst snd].
      destruct (live f); [rewrite compose_off|]; now rewrite app_nil_r.
    + rewrite app_nil_r, tagged_feed_fin.
      destruct (feed_fin m2 s2 o1 (Fail e)) as [[s2' o] f]. cbn [fst snd].
      destruct (live f); [rewrite compose_off|]; now rewrite app_nil_r.
  - cbn [exec_from compose m_err].
    destruct (m_err m1 s1 e) as [o1 f1]. rewrite tagged_feed_fin.
    destruct (feed_fin m2 s2 o1 f1) as [[s2' o] f]. reflexivity.
  - cbn [exec_from compose m_done].
    destruct (m_done m1 s1) as [o1 f1]. rewrite tagged_feed_fin.
    destruct (feed_fin m2 s2 o1 f1) as [[s2' o] f]. reflexivity.
Qed.

(* The TAGGED composition theorem, for ARBITRARY input streams. *)
Theorem compose_exec_tagged ins :
  exec (compose m1 m2) ins = exec_tagged m2 (exec m1 ins).
Proof.
  unfold exec at 1, exec_tagged. cbn [compose m_pre m_init].
  destruct (m_pre m2) as [o2 f2] eqn:Hp2. cbn [fst snd].
  destruct f2; cbn [live].
  - unfold compose_start, exec. destruct (m_pre m1) as [o1 f1] eqn:Hp1. cbn [fst snd].
    rewrite emit_cont.
    destruct f1; cbn [live].
    + (* stage 1 subscribed and goes on *)
      unfold emit at 2. rewrite <- app_assoc. cbn [app]. rewrite tagged_feed.
      unfold feed_fin. destruct (feed m2 (m_init m2) o1) as [[s2' o] f]. cbn [fst snd].
      rewrite emit_app, <- app_assoc. f_equal.
      destruct f; cbn [live].
      * rewrite emit_cont. f_equal. apply compose_from_tagged.
      * rewrite app_nil_r. apply (emit_split 0 o).
      * rewrite app_nil_r. apply (emit_split 0 o).
    + rewrite app_nil_r, tagged_feed_fin.
      destruct (feed_fin m2 (m_init m2) o1 Complete) as [[s2' o] f]. cbn [fst snd].
      rewrite emit_app, <- app_assoc. f_equal.
      destruct (live f); [rewrite compose_off|]; now rewrite app_nil_r.
    + rewrite app_nil_r, tagged_feed_fin.
      destruct (feed_fin m2 (m_init m2) o1 (Fail e)) as [[s2' o] f]. cbn [fst snd].
      rewrite emit_app, <- app_assoc. f_equal.
      destruct (live f); [rewrite compose_off|]; now rewrite app_nil_r.
  - reflexivity.
  - reflexivity.
Qed.
End Compose.
