(* C18: window_with_time in the closed world of Ops/WinSim.v (exact timers; at equal instants the
   source goes first).  (a) the simulation equals a walk over the timeline that carries nothing
   but the edge counters (a shift edges and b span edges have fired), for EVERY event sequence on
   the source port and every horizon; (b) on sorted conforming timelines: window k receives
   exactly the elements whose instant t satisfies  k*shift < t - t0 <= k*shift + span  (window 0:
   0 <= t - t0 <= span) and completes at t0 + k*shift + span, or ends with the source. *)
From RxVerif Require Import Base.Prelude Ops.Machine Ops.MachineFacts Ops.MultiWin Ops.MultiWinFacts
  Ops.Windows Ops.WindowCountFacts Ops.WindowCountRun Ops.WindowFacts Ops.WinSim.
From RxVerif Require Ops.TimedSim.

Local Arguments Z.of_nat : simpl never.
Local Arguments Z.mul : simpl never.
Local Arguments Z.add : simpl never.
Local Arguments Z.sub : simpl never.
Local Arguments Z.min : simpl never.
Local Arguments Z.div : simpl never.
Local Arguments Multi.mem : simpl never.
Local Arguments Multi.remove : simpl never.

(* notifications of the source (port 0) at their instants *)
Definition wext_of {A} (es : list (Z * ev A)) : list (Z * inp A) :=
  map (fun te => (fst te, ISrc 0%nat (snd te))) es.

(* ------------------------------------------------------------ the edges -- *)
Section Edges.
Variables span shift : Z.

(* after a shift edges and b span edges: the next edge (relative to the subscription instant) *)
Definition e_due (a b : nat) : Z := Z.min ((Z.of_nat a + 1) * shift) (span + Z.of_nat b * shift).
Definition e_shift (a b : nat) : bool := (Z.of_nat a + 1) * shift <=? span + Z.of_nat b * shift.
Definition e_span (a b : nat) : bool := span + Z.of_nat b * shift <=? (Z.of_nat a + 1) * shift.
Definition e_a' (a b : nat) : nat := if e_shift a b then S a else a.
Definition e_b' (a b : nat) : nat := if e_span a b then S b else b.

(* the instant tau (relative) lies in window k: after its opening edge (window 0 is opened by
   subscribe itself), not after its closing edge *)
Definition in_win (k : nat) (tau : Z) : bool :=
  ((k =? 0)%nat || (Z.of_nat k * shift <? tau)) && (tau <=? span + Z.of_nat k * shift).

(* every edge that has fired lies strictly before tau *)
Definition fired (a b : nat) (tau : Z) : Prop :=
  (a = 0%nat \/ Z.of_nat a * shift < tau) /\ (b = 0%nat \/ span + (Z.of_nat b - 1) * shift < tau).

Hypothesis Hspan : 0 < span.
Hypothesis Hshift : 0 < shift.

Lemma e_due_pos a b : 0 < e_due a b.
Proof. unfold e_due. nia. Qed.

Lemma e_tick_progress a b : (b <= S a)%nat ->
  e_due a b < e_due (e_a' a b) (e_b' a b) /\ (e_b' a b <= S (e_a' a b))%nat
  /\ (a <= e_a' a b)%nat /\ (b <= e_b' a b)%nat.
Proof.
  intros Hba. unfold e_due, e_a', e_b', e_shift, e_span.
  destruct (Z.leb_spec ((Z.of_nat a + 1) * shift) (span + Z.of_nat b * shift));
    destruct (Z.leb_spec (span + Z.of_nat b * shift) ((Z.of_nat a + 1) * shift));
    rewrite ?Nat2Z.inj_succ; repeat split; try nia.
Qed.

Lemma fired_tick a b tau : fired a b tau -> e_due a b < tau -> fired (e_a' a b) (e_b' a b) tau.
Proof.
  intros [Ha Hb] Hd. unfold fired, e_due, e_a', e_b', e_shift, e_span in *.
  destruct (Z.leb_spec ((Z.of_nat a + 1) * shift) (span + Z.of_nat b * shift));
    destruct (Z.leb_spec (span + Z.of_nat b * shift) ((Z.of_nat a + 1) * shift));
    rewrite ?Nat2Z.inj_succ; split; try (right; nia); auto.
Qed.

Lemma fired_mono a b tau tau' : fired a b tau -> tau <= tau' -> fired a b tau'.
Proof. intros [Ha Hb] H. split; [destruct Ha; [left|right]|destruct Hb; [left|right]]; auto; lia. Qed.

Lemma fired0 tau : fired 0 0 tau.
Proof. split; left; reflexivity. Qed.

(* the windows open while the edges up to (a, b) have fired are b .. a: exactly those whose
   interval contains tau, for an instant tau not after the next edge *)
Lemma in_win_iff a b tau k : (b <= S a)%nat -> fired a b tau -> tau <= e_due a b ->
  (In k (seq b (S a - b)) <-> in_win k tau = true).
Proof.
  intros Hba [Ha Hb] Hd. rewrite in_seq. unfold in_win, e_due in *.
  rewrite andb_true_iff, orb_true_iff, Nat.eqb_eq, Z.ltb_lt, Z.leb_le. split.
  - intros [H1 H2]. split; [|nia]. destruct (Nat.eq_dec k 0) as [->|Hk]; [left; reflexivity|right].
    destruct Ha as [->|Ha]; [lia|nia].
  - intros [H1 H2]. split.
    + destruct (Nat.le_gt_cases b k); [assumption|]. destruct Hb as [->|Hb]; [lia|nia].
    + destruct H1 as [->|H1]; [lia|nia].
Qed.

(* a window whose closing edge has fired receives nothing from later instants *)
Lemma in_win_closed a b tau k : fired a b tau -> (k < b)%nat -> in_win k tau = false.
Proof.
  intros [_ Hb] Hk. unfold in_win. destruct Hb as [->|Hb]; [lia|].
  destruct (Z.leb_spec tau (span + Z.of_nat k * shift)); [nia|]. apply andb_false_r.
Qed.
(* windows opened before an event at the relative instant tau is delivered: window 0 and every
   k >= 1 with k*shift < tau;  windows closed before: every k with span + k*shift < tau *)
Definition n_open (tau : Z) : nat := S (Z.to_nat ((tau - 1) / shift)).
Definition n_closed (tau : Z) : nat := Z.to_nat (if tau <=? span then 0 else (tau - span - 1) / shift + 1).

Lemma n_open_spec tau k : (k < n_open tau)%nat <-> k = 0%nat \/ Z.of_nat k * shift < tau.
Proof.
  unfold n_open. destruct (Z.le_gt_cases tau 0) as [Hle|Hgt].
  - assert ((tau - 1) / shift < 0) by (apply Z.div_lt_upper_bound; lia).
    replace (Z.to_nat ((tau - 1) / shift)) with 0%nat by lia. split; [intros; left; lia|intros [->|H']; [lia|nia]].
  - assert (H0 : 0 <= (tau - 1) / shift) by (apply Z.div_pos; lia). split.
    + intros H. destruct (Nat.eq_dec k 0) as [->|Hk]; [left; reflexivity|right].
      assert (H1 : Z.of_nat k <= (tau - 1) / shift) by lia.
      destruct (Z.lt_ge_cases (Z.of_nat k * shift) tau) as [|Hge]; [assumption|exfalso].
      assert ((tau - 1) / shift < Z.of_nat k) by (apply Z.div_lt_upper_bound; nia). lia.
    + intros [->|H]; [lia|]. assert (Z.of_nat k <= (tau - 1) / shift) by (apply Z.div_le_lower_bound; nia). lia.
Qed.

Lemma n_closed_spec tau k : (k < n_closed tau)%nat <-> span + Z.of_nat k * shift < tau.
Proof.
  unfold n_closed. destruct (Z.leb_spec tau span) as [Hle|Hgt].
  - cbn. split; [lia|nia].
  - assert (H0 : 0 <= (tau - span - 1) / shift) by (apply Z.div_pos; lia). split.
    + intros H. assert (H1 : Z.of_nat k <= (tau - span - 1) / shift) by lia.
      destruct (Z.lt_ge_cases (span + Z.of_nat k * shift) tau) as [|Hge]; [assumption|exfalso].
      assert ((tau - span - 1) / shift < Z.of_nat k) by (apply Z.div_lt_upper_bound; nia). lia.
    + intros H. assert (Z.of_nat k <= (tau - span - 1) / shift) by (apply Z.div_le_lower_bound; nia). lia.
Qed.

End Edges.

(* -------------------------------------------------------------- windows -- *)
Section WindowTime.
Context {A B : Type}.
Variables span shift t0 : Z.
Hypothesis Hspan : 0 < span.
Hypothesis Hshift : 0 < shift.
Notation M := (x_window_time (A:=A) (B:=B) span shift).
Notation due := (e_due span shift).
Notation a' := (e_a' span shift).
Notation b' := (e_b' span shift).

Definition wt_rstate (a b tg : nat) : rstate A :=
  RState [0%nat] [tg] true (seq b (S a - b)) (map (fun k => (k, Done)) (seq 0 b)) (seq 0 (S a)) false.

Definition wt_dead_rstate (wt : list (nat * ev A)) (hd : list nat) : rstate A :=
  RState [] [] false [] wt hd true.

(* what the runner observes when the pending timer fires *)
Definition wt_tick_obs (a b tg : nat) : list (obs A B) :=
  (if e_shift span shift a b then [OHand (S a) 0] else [])
  ++ (if e_span span shift a b then [OWin b Done] else [])
  ++ [OTimer (S tg) (due (a' a b) (b' a b) - due a b)].

Definition out_term (e : ev A) : ev B := match e with Err z => Err z | _ => Done end.

Definition wt_term_obs (a b tg : nat) (e : ev A) : list (obs A B) :=
  map (fun g => OWin g e) (seq b (S a - b)) ++ [OEmit (out_term e); OUnsub 0%nat; OCancel tg].

Definition wt_dead (es : list (Z * ev A)) : list (Z * inp A * list (obs A B)) :=
  map (fun te => (fst te, ISrc 0%nat (snd te), [])) es.

Fixpoint wt_walk (fuel : nat) (a b tg : nat) (es : list (Z * ev A)) : list (Z * inp A * list (obs A B)) :=
  match fuel with
  | O => []
  | S f =>
      let tick := (t0 + due a b, ITick tg, wt_tick_obs a b tg) :: wt_walk f (a' a b) (b' a b) (S tg) es in
      match es with
      | [] => tick
      | (t, e) :: rest =>
          if t <=? t0 + due a b then
            match e with
            | Next x => (t, ISrc 0%nat (Next x), map (fun g => OWin g (Next x)) (seq b (S a - b)))
                        :: wt_walk f a b tg rest
            | _ => (t, ISrc 0%nat e, wt_term_obs a b tg e) :: wt_dead (firstn f rest)
            end
          else tick
      end
  end.

Ltac rs := cbn [r_live r_timers r_outer r_wsubs r_wterm r_handed r_released fst snd app apply_cmds apply_cmd
                finish is_terminal all_imm negb andb repeat].

Lemma mem_self k : mem k [k] = true.
Proof. unfold Multi.mem. cbn [existsb]. now rewrite Nat.eqb_refl. Qed.
Lemma mem_nil k : mem k [] = false.
Proof. reflexivity. Qed.
Lemma remove_self k : remove k [k] = [].
Proof. unfold Multi.remove. now rewrite Nat.eqb_refl. Qed.

Lemma inv_flags s a b : wt_inv span shift s a b ->
  wt_is_shift s = e_shift span shift a b /\ wt_is_span s = e_span span shift a b /\ wt_total s = due a b.
Proof. intros [H1 H2 H3 _ _ _ _ _]. auto. Qed.

(* the timer fires *)
Lemma wt_tick_step s a b tg now : wt_inv span shift s a b -> wt_ntag s = S tg ->
  rstep all_imm M s (wt_rstate a b tg) now (ITick tg)
  = (fst (wt_action (A:=A) (B:=B) shift s), wt_rstate (a' a b) (b' a b) (S tg), wt_tick_obs a b tg)
  /\ wt_inv span shift (fst (wt_action (A:=A) (B:=B) shift s)) (a' a b) (b' a b)
  /\ wt_ntag (fst (wt_action (A:=A) (B:=B) shift s)) = S (S tg).
Proof.
  intros I Ht. destruct (inv_flags s a b I) as (Esh & Esp & Etot).
  destruct (wt_tick span shift Hspan Hshift (A:=A) (B:=B) s a b I) as [I' Hcs]. cbn zeta in *.
  pose proof (ti_ba _ _ _ _ _ I) as Hba.
  assert (Hnt : wt_ntag (fst (wt_action (A:=A) (B:=B) shift s)) = S (S tg)).
  { unfold wt_action, wt_create_timer. destruct (wt_is_shift s), (wt_is_span s); cbn;
      repeat match goal with |- context [match ?q with [] => _ | _ :: _ => _ end] => destruct q; cbn end;
      rewrite Ht; reflexivity. }
  unfold e_a', e_b'. rewrite <- Esh, <- Esp. split; [|split; [exact I'|exact Hnt]].
  unfold rstep, wt_rstate. cbn [r_timers]. rewrite mem_self, remove_self. cbn iota.
  unfold deliver. cbn [x_step x_window_time].
  destruct (wt_action (A:=A) (B:=B) shift s) as [s' cs] eqn:Ea. cbn [fst snd] in *. subst cs.
  unfold wt_tick_obs, e_a', e_b'. rewrite <- Esh, <- Esp, Ht, Etot.
  fold (e_due span shift (if wt_is_shift s then S a else a) (if wt_is_span s then S b else b)).
  rewrite Esh, Esp in *.
  assert (Em : mem (S a) (seq 0 (S a) ++ [S a]) = true).
  { change [S a] with (seq (0 + S a) 1). rewrite <- seq_app, mem_seq.
    destruct (Nat.leb_spec 0 (S a)), (Nat.ltb_spec (S a) (0 + (S a + 1))); try lia; reflexivity. }
  assert (Hsp_b : e_span span shift a b = true -> (b <= a)%nat).
  { unfold e_span. intros H. apply Z.leb_le in H. nia. }
  destruct (e_shift span shift a b) eqn:Es; destruct (e_span span shift a b) eqn:Ep.
  - (* open S a, close b *)
    specialize (Hsp_b eq_refl). rs. unfold sub_win. rs.
    rewrite wterm_done_seq. destruct (Nat.ltb_spec (S a) b); [lia|]. rewrite Em. rs.
    rewrite wterm_done_seq, Nat.ltb_irrefl.
    assert (Ec : count_of b (seq b (S a - b) ++ [S a]) = 1%nat).
    { change [S a] with (seq (S a) 1). replace (S a) with (b + (S a - b))%nat at 2 by lia. rewrite <- seq_app, count_of_seq.
      destruct (Nat.leb_spec b b), (Nat.ltb_spec b (b + (S a - b + 1))); try lia; reflexivity. }
    rewrite Ec. rs.
    assert (Ef : filter (fun j => negb (Nat.eqb b j)) (seq b (S a - b) ++ [S a]) = seq (S b) (S (S a) - S b)).
    { change [S a] with (seq (S a) 1). replace (S a) with (b + (S a - b))%nat at 2 by lia. rewrite <- seq_app.
      replace (S a - b + 1)%nat with (S (S a - b)) by lia. rewrite filter_neq_seq. f_equal; lia. }
    rewrite Ef. unfold maybe_release. rs.
    rewrite (seq_S b 0), map_app, (seq_S (S a) 0). reflexivity.
  - (* open S a *)
    rs. unfold sub_win. rs.
    rewrite wterm_done_seq. destruct (Nat.ltb_spec (S a) b); [lia|]. rewrite Em. rs.
    rewrite (seq_S (S a) 0). replace (S (S a) - b)%nat with ((S a - b) + 1)%nat by lia. rewrite seq_app. cbn [seq].
    replace (b + (S a - b))%nat with (S a) by lia. reflexivity.
  - (* close b *)
    specialize (Hsp_b eq_refl). rs. rewrite wterm_done_seq, Nat.ltb_irrefl, count_of_seq.
    destruct (Nat.leb_spec b b), (Nat.ltb_spec b (b + (S a - b))); try lia. rs.
    destruct (S a - b)%nat as [|len] eqn:El; [lia|]. rewrite filter_neq_seq. unfold maybe_release. rs.
    rewrite (seq_S b 0), map_app. replace (S a - S b)%nat with len by lia. reflexivity.
  - exfalso. unfold e_shift, e_span in *. apply Z.leb_gt in Es. apply Z.leb_gt in Ep. lia.
Qed.

(* a source element *)
Lemma wt_next_step s a b tg now (x : A) : wt_inv span shift s a b ->
  rstep all_imm M s (wt_rstate a b tg) now (ISrc 0%nat (Next x))
  = (s, wt_rstate a b tg, map (fun g => OWin g (Next x)) (seq b (S a - b))).
Proof.
  intros I. unfold rstep, wt_rstate. cbn [r_live]. rewrite mem_self. cbn iota. unfold deliver.
  cbn [x_step x_window_time]. rewrite (ti_q _ _ _ _ _ I). unfold wins_all.
  rewrite apply_cmds_wins_next.
  - rs. now rewrite app_nil_r.
  - intros g Hg. apply in_seq in Hg. rs. rewrite wterm_done_seq, count_of_seq.
    destruct (Nat.ltb_spec g b); [lia|].
    destruct (Nat.leb_spec b g), (Nat.ltb_spec g (b + (S a - b))); try lia. auto.
Qed.

(* the source's terminal *)
Lemma wt_term_step s a b tg now (e : ev A) : wt_inv span shift s a b -> is_terminal e = true ->
  rstep all_imm M s (wt_rstate a b tg) now (ISrc 0%nat e)
  = (s, wt_dead_rstate (map (fun k => (k, Done)) (seq 0 b) ++ map (fun g => (g, e)) (seq b (S a - b))) (seq 0 (S a)),
     wt_term_obs a b tg e).
Proof.
  intros I He. unfold rstep, wt_rstate. cbn [r_live]. rewrite mem_self. cbn iota. unfold deliver.
  assert (Hw : forall g, In g (seq b (S a - b)) -> wterm_of (W:=A) g (map (fun k => (k, Done)) (seq 0 b)) = None).
  { intros g Hg. apply in_seq in Hg. rewrite wterm_done_seq. destruct (Nat.ltb_spec g b); [lia|reflexivity]. }
  destruct e as [x|z|]; [discriminate| |]; cbn [x_step x_window_time]; rewrite (ti_q _ _ _ _ _ I); unfold wins_all;
    rewrite (wins_term_all _ He _ (seq_NoDup _ _) _ _ _ _ Hw);
    cbn [finish r_outer end_outer maybe_release r_live r_timers r_wsubs r_wterm r_handed r_released negb andb fst snd
         is_terminal];
    rewrite mem_nil; cbn [andb snd app]; rewrite app_nil_r; reflexivity.
Qed.

(* after the release nothing is heard *)
Lemma wt_dead_sim s wt hd : forall fuel (es : list (Z * ev A)),
  wsim all_imm M fuel s (wt_dead_rstate wt hd) [] (wext_of es) = wt_dead (firstn fuel es).
Proof.
  induction fuel as [|f IH]; intros es; [reflexivity|]. rewrite wsim_S.
  destruct es as [|[t e] rest]; [reflexivity|]. cbn [wext_of map fst snd wnext_event wearliest firstn wt_dead].
  unfold rstep, wt_dead_rstate. cbn [r_live]. rewrite mem_nil. cbn iota.
  f_equal. unfold wupd. cbn [app wnew_timers flat_map filter]. apply IH.
Qed.

Lemma wnew_timers_wins now (e : ev A) q : wnew_timers (B:=B) now (map (fun g => OWin g e) q) = [].
Proof. induction q; auto. Qed.

Lemma wt_sim : forall fuel s a b tg (es : list (Z * ev A)), wt_inv span shift s a b -> wt_ntag s = S tg ->
  wsim all_imm M fuel s (wt_rstate a b tg) [(tg, t0 + due a b)] (wext_of es) = wt_walk fuel a b tg es.
Proof.
  induction fuel as [|f IH]; intros s a b tg es I Ht; [reflexivity|].
  assert (Tick : forall ext (es' : list (Z * ev A)), ext = wext_of es' ->
            wnext_event [(tg, t0 + due a b)] ext = Some (t0 + due a b, ITick tg, ext) ->
            wsim all_imm M (S f) s (wt_rstate a b tg) [(tg, t0 + due a b)] ext
            = (t0 + due a b, ITick tg, wt_tick_obs a b tg) :: wt_walk f (a' a b) (b' a b) (S tg) es').
  { intros ext es' -> Hn. rewrite wsim_S, Hn.
    destruct (wt_tick_step s a b tg (t0 + due a b) I Ht) as (Es & I' & Ht'). rewrite Es. f_equal.
    assert (Eu : wupd [(tg, t0 + due a b)] (t0 + due a b) (wt_tick_obs a b tg) (wt_rstate (a' a b) (b' a b) (S tg))
                 = [(S tg, t0 + due (a' a b) (b' a b))]).
    { unfold wupd, wt_tick_obs, wt_rstate. cbn [r_timers].
      destruct (e_shift span shift a b), (e_span span shift a b); cbn [app wnew_timers flat_map filter fst];
        rewrite mem_self; unfold Multi.mem; cbn [existsb]; rewrite (proj2 (Nat.eqb_neq tg (S tg))) by lia;
        cbn [orb]; f_equal; f_equal; lia. }
    rewrite Eu. apply IH; assumption. }
  destruct es as [|[t e] rest].
  - cbn [wt_walk]. apply (Tick [] []); reflexivity.
  - cbn [wt_walk]. destruct (t <=? t0 + due a b) eqn:El.
    + rewrite wsim_S. cbn [wext_of map fst snd wnext_event wearliest]. rewrite El.
      destruct e as [x|z|].
      * rewrite (wt_next_step s a b tg t x I). f_equal.
        unfold wupd. rewrite wnew_timers_wins. unfold wt_rstate. cbn [r_timers app filter fst]. rewrite mem_self.
        apply IH; assumption.
      * rewrite (wt_term_step s a b tg t (Err z) I eq_refl). f_equal.
        rewrite wupd_no_timers by reflexivity.
        apply wt_dead_sim.
      * rewrite (wt_term_step s a b tg t Done I eq_refl). f_equal.
        rewrite wupd_no_timers by reflexivity.
        apply wt_dead_sim.
    + apply (Tick _ ((t, e) :: rest)); [reflexivity|]. cbn [wext_of map fst snd wnext_event wearliest]. now rewrite El.
Qed.

(* THEOREM (a): the simulation is the walk, for every event sequence and every horizon *)
Theorem window_time_walk fuel (es : list (Z * ev A)) :
  wsimulate all_imm M fuel t0 (wext_of es)
  = ([OHand 0%nat 0; OTimer 0%nat (Z.min shift span); OSub 0%nat], wt_walk fuel 0 0 0 es).
Proof.
  unfold wsimulate, start_obs, start_state.
  destruct (wt_start_inv span shift Hspan Hshift (A:=A) (B:=B)) as [I0 Hc].
  assert (Hf : snd (x_start M) = Cont) by reflexivity.
  assert (Hn : wt_ntag (fst (fst (x_start M))) = 1%nat) by reflexivity.
  destruct (x_start M) as [[s0 cs] f]. cbn [fst snd] in *. subst cs f.
  cbn [apply_cmds apply_cmd rstate0 r_outer r_live r_timers r_wsubs r_wterm r_handed r_released all_imm sub_win
       wterm_of finish fst snd app].
  rewrite !mem_self.
  cbn [apply_cmds apply_cmd rstate0 r_outer r_live r_timers r_wsubs r_wterm r_handed r_released all_imm sub_win
       wterm_of finish fst snd app andb negb].
  f_equal.
  assert (Eu : wupd (W:=A) (B:=B) [] t0 [OHand 0%nat 0; OTimer 0%nat (Z.min shift span); OSub 0%nat]
                 (RState [0%nat] [0%nat] true [0%nat] [] [0%nat] false) = [(0%nat, t0 + due 0 0)]).
  { unfold wupd. cbn [r_timers app wnew_timers flat_map filter fst]. rewrite mem_self. unfold e_due.
    repeat f_equal; lia. }
  rewrite Eu. apply (wt_sim fuel s0 0 0 0 es I0 Hn).
Qed.

(* ------------------------------------------------ (b) closed forms -- *)
(* a conforming source: elements at their instants, then at most one terminal *)
Definition tm_ev (tm : TimedSim.tterm) : list (Z * ev A) :=
  match tm with
  | TimedSim.TTDone t => [(t, Done)]
  | TimedSim.TTErr t e => [(t, Err e)]
  | TimedSim.TTNever => []
  end.
Definition wsrc (tl : list (Z * A)) (tm : TimedSim.tterm) : list (Z * ev A) :=
  map (fun tx => (fst tx, Next (snd tx))) tl ++ tm_ev tm.

(* the elements of window k: those whose instant lies in k's interval *)
Definition wt_contents (k : nat) (tl : list (Z * A)) : list (Z * A) :=
  filter (fun tx => in_win span shift k (fst tx - t0)) tl.
(* how window k ends: at its closing edge t0 + k*shift + span if that is strictly before the source's
   terminal (or the source never ends); with the source's terminal if that lies in k's interval;
   a window the source's terminal precedes is never opened *)
Definition wt_ending (k : nat) (tm : TimedSim.tterm) : list (Z * ev A) :=
  match tm_ev tm with
  | [] => [(t0 + (span + Z.of_nat k * shift), Done)]
  | (T, e) :: _ =>
      if span + Z.of_nat k * shift <? T - t0 then [(t0 + (span + Z.of_nat k * shift), Done)]
      else if in_win span shift k (T - t0) then [(T, e)] else []
  end.

Lemma wsim_wevents_cons k t (i : inp A) (o : list (obs A B)) l :
  wsim_wevents k ((t, i, o) :: l) = map (fun e => (t, e)) (wobs k o) ++ wsim_wevents k l.
Proof. reflexivity. Qed.

Lemma wsim_wevents_dead k (es : list (Z * ev A)) : wsim_wevents (B:=B) k (wt_dead es) = [].
Proof. induction es as [|[t e] r IH]; [reflexivity|]. cbn [wt_dead map]. rewrite wsim_wevents_cons. exact IH. Qed.

Definition is_open (a b k : nat) : bool := mem k (seq b (S a - b)).

Lemma is_open_spec a b k : is_open a b k = true <-> In k (seq b (S a - b)).
Proof.
  unfold is_open. rewrite mem_seq, in_seq, andb_true_iff, Nat.leb_le, Nat.ltb_lt. reflexivity.
Qed.

Lemma wobs_wins k a b (e : ev A) :
  wobs (B:=B) k (map (fun g => OWin g e) (seq b (S a - b))) = if is_open a b k then [e] else [].
Proof. apply wobs_map_win, seq_NoDup. Qed.

Lemma wobs_term k a b tg (e : ev A) : wobs k (wt_term_obs a b tg e) = if is_open a b k then [e] else [].
Proof.
  unfold wt_term_obs. rewrite wobs_app, wobs_wins. cbn [wobs flat_map app]. now rewrite app_nil_r.
Qed.

Lemma wobs_tick k a b tg :
  wobs k (wt_tick_obs a b tg) = if e_span span shift a b && Nat.eqb k b then [Done] else [].
Proof.
  unfold wt_tick_obs. rewrite !wobs_app.
  destruct (e_shift span shift a b), (e_span span shift a b); cbn [wobs flat_map app andb];
    try destruct (Nat.eqb k b); reflexivity.
Qed.

(* a window whose closing edge has fired stays silent, whatever comes *)
Lemma wt_walk_closed_silent k : forall fuel a b tg (es : list (Z * ev A)), (b <= S a)%nat -> (k < b)%nat ->
  wsim_wevents k (wt_walk fuel a b tg es) = [].
Proof.
  induction fuel as [|f IH]; intros a b tg es Hba Hk; [reflexivity|].
  destruct (e_tick_progress span shift Hspan Hshift a b Hba) as (_ & Hba' & _ & Hb').
  assert (Tick : wsim_wevents k ((t0 + due a b, ITick tg, wt_tick_obs a b tg) :: wt_walk f (a' a b) (b' a b) (S tg) es) = []).
  { rewrite wsim_wevents_cons, wobs_tick. rewrite (proj2 (Nat.eqb_neq k b)) by lia. rewrite andb_false_r.
    cbn [map app]. apply IH; [exact Hba'|lia]. }
  assert (Ho : is_open a b k = false).
  { destruct (is_open a b k) eqn:E; [|reflexivity]. apply is_open_spec, in_seq in E. lia. }
  cbn [wt_walk]. destruct es as [|[t e] rest]; [exact Tick|].
  destruct (t <=? t0 + due a b); [|exact Tick].
  destruct e as [x|z|]; rewrite wsim_wevents_cons.
  - rewrite wobs_wins, Ho. cbn [map app]. apply IH; assumption.
  - rewrite wobs_term, Ho. cbn [map app]. apply wsim_wevents_dead.
  - rewrite wobs_term, Ho. cbn [map app]. apply wsim_wevents_dead.
Qed.

Notation sorted_from := TimedSim.sorted_from.

Lemma sorted_from_lb {X} (es : list (Z * X)) : forall lb, sorted_from lb es -> Forall (fun te => lb <= fst te) es.
Proof.
  induction es as [|[t e] r IH]; intros lb H; [constructor|]. destruct H as [H1 H2]. constructor; [exact H1|].
  eapply Forall_impl; [|exact (IH t H2)]. cbn. intros; lia.
Qed.

Lemma sorted_from_raise {X} (es : list (Z * X)) lb lb' : sorted_from lb es ->
  Forall (fun te => lb' <= fst te) es -> sorted_from lb' es.
Proof.
  destruct es as [|[t e] r]; [auto|]. intros [_ H2] H. inversion H; subst. split; assumption.
Qed.

Lemma wt_contents_none k (tl : list (Z * A)) :
  Forall (fun tx => in_win span shift k (fst tx - t0) = false) tl -> wt_contents k tl = [].
Proof.
  induction 1 as [|tx r Hx Hr IH]; [reflexivity|]. unfold wt_contents in *. cbn [filter]. now rewrite Hx.
Qed.

Lemma wsrc_Forall (P : Z -> Prop) tl tm :
  Forall (fun te => P (fst te)) (wsrc tl tm) ->
  Forall (fun tx => P (fst tx)) tl /\ Forall (fun te => P (fst te)) (tm_ev tm).
Proof.
  unfold wsrc. intros H. apply Forall_app in H. destruct H as [H1 H2]. split; [|exact H2].
  rewrite Forall_map in H1. exact H1.
Qed.

Lemma wt_window_events k tm : forall fuel a b tg (tl : list (Z * A)) lb,
  (b <= S a)%nat -> (b <= k)%nat -> fired span shift a b (lb - t0) -> sorted_from lb (wsrc tl tm) ->
  (length tl + 1 + Z.to_nat (span + Z.of_nat k * shift + 1 - due a b) <= fuel)%nat ->
  wsim_wevents k (wt_walk fuel a b tg (wsrc tl tm))
  = map (fun tx => (fst tx, Next (snd tx))) (wt_contents k tl) ++ wt_ending k tm.
Proof.
  induction fuel as [|f IH]; intros a b tg tl lb Hba Hbk Hfi Hso Hfu; [lia|].
  destruct (e_tick_progress span shift Hspan Hshift a b Hba) as (Hdue & Hba' & Ha' & Hb').
  assert (Hdk : due a b <= span + Z.of_nat k * shift) by (unfold e_due; nia).
  (* the timer fires before every remaining event *)
  assert (Tick : Forall (fun te => t0 + due a b < fst te) (wsrc tl tm) ->
            wsim_wevents k ((t0 + due a b, ITick tg, wt_tick_obs a b tg)
                            :: wt_walk f (a' a b) (b' a b) (S tg) (wsrc tl tm))
            = map (fun tx => (fst tx, Next (snd tx))) (wt_contents k tl) ++ wt_ending k tm).
  { intros Hall. rewrite wsim_wevents_cons, wobs_tick.
    assert (Hfi' : fired span shift (a' a b) (b' a b) (Z.max lb (t0 + due a b + 1) - t0)).
    { apply fired_tick; try assumption; [|lia]. eapply fired_mono; [exact Hfi|lia]. }
    assert (Hso' : sorted_from (Z.max lb (t0 + due a b + 1)) (wsrc tl tm)).
    { apply (sorted_from_raise _ lb); [exact Hso|].
      pose proof (sorted_from_lb _ _ Hso) as Hlb. rewrite Forall_forall in *. intros te Hte.
      specialize (Hall te Hte). specialize (Hlb te Hte). cbn in *. lia. }
    destruct (e_span span shift a b && Nat.eqb k b) eqn:Ecl.
    - (* the closing edge of k *)
      apply andb_true_iff in Ecl. destruct Ecl as [Esp Ekb]. apply Nat.eqb_eq in Ekb. subst b.
      assert (Eb' : b' a k = S k) by (unfold e_b'; now rewrite Esp).
      assert (Ed : due a k = span + Z.of_nat k * shift).
      { unfold e_span in Esp. apply Z.leb_le in Esp. unfold e_due. lia. }
      rewrite wt_walk_closed_silent by (rewrite ?Eb'; try exact Hba'; lia). rewrite app_nil_r.
      destruct (wsrc_Forall (fun t => t0 + due a k < t) tl tm Hall) as [Htl Htm].
      rewrite wt_contents_none.
      2: { eapply Forall_impl; [|exact Htl]. cbn. intros tx Hx. unfold in_win.
           destruct (Z.leb_spec (fst tx - t0) (span + Z.of_nat k * shift)); [lia|apply andb_false_r]. }
      cbn [map app]. unfold wt_ending. rewrite Ed. destruct (tm_ev tm) as [|[T e] r]; [reflexivity|].
      inversion Htm; subst. cbn [fst] in *. destruct (Z.ltb_spec (span + Z.of_nat k * shift) (T - t0)); [reflexivity|lia].
    - cbn [map app].
      assert (Hbk' : (b' a b <= k)%nat).
      { unfold e_b'. destruct (e_span span shift a b); [|exact Hbk]. cbn [andb] in Ecl. apply Nat.eqb_neq in Ecl. lia. }
      apply (IH _ _ _ _ _ Hba' Hbk' Hfi' Hso'). lia. }
  cbn [wt_walk]. destruct tl as [|[t x] rest].
  - (* no element left *)
    unfold wsrc at 1. cbn [map app]. destruct (tm_ev tm) as [|[T e] r] eqn:Etm.
    + apply Tick. unfold wsrc. rewrite Etm. constructor.
    + assert (Er : r = []) by (destruct tm; cbn in Etm; inversion Etm; reflexivity). subst r.
      assert (HlbT : lb <= T) by (unfold wsrc in Hso; rewrite Etm in Hso; cbn in Hso; tauto).
      destruct (T <=? t0 + due a b) eqn:El.
      * apply Z.leb_le in El.
        assert (Het : is_terminal e = true) by (destruct tm; cbn in Etm; inversion Etm; reflexivity).
        assert (Eo : is_open a b k = in_win span shift k (T - t0)).
        { pose proof (in_win_iff span shift Hspan Hshift a b (T - t0) k Hba) as Hiff.
          assert (Hf2 : fired span shift a b (T - t0)) by (eapply fired_mono; [exact Hfi|lia]).
          specialize (Hiff Hf2 ltac:(lia)). rewrite <- is_open_spec in Hiff.
          destruct (is_open a b k), (in_win span shift k (T - t0)); try reflexivity.
          - symmetry. apply Hiff. reflexivity.
          - apply Hiff. reflexivity. }
        assert (Hrec : forall l, wsim_wevents k ((T, ISrc 0%nat e, wt_term_obs a b tg e) :: wt_dead l)
                       = if in_win span shift k (T - t0) then [(T, e)] else []).
        { intros l. rewrite wsim_wevents_cons, wobs_term, Eo, wsim_wevents_dead, app_nil_r.
          destruct (in_win span shift k (T - t0)); reflexivity. }
        unfold wt_ending. rewrite Etm. cbn [wt_contents filter map app].
        destruct (Z.ltb_spec (span + Z.of_nat k * shift) (T - t0)); [lia|].
        destruct e as [y|z|]; [discriminate Het| |]; apply Hrec.
      * apply Z.leb_gt in El. replace [(T, e)] with (wsrc [] tm) by (unfold wsrc; now rewrite Etm).
        apply Tick. unfold wsrc. rewrite Etm. constructor; [cbn; lia|constructor].
  - (* an element *)
    change (wsrc ((t, x) :: rest) tm) with ((t, Next x) :: wsrc rest tm) in *.
    destruct Hso as [Hlt Hso].
    destruct (t <=? t0 + due a b) eqn:El.
    + apply Z.leb_le in El. rewrite wsim_wevents_cons, wobs_wins.
      assert (Hf2 : fired span shift a b (t - t0)) by (eapply fired_mono; [exact Hfi|lia]).
      assert (Eo : is_open a b k = in_win span shift k (t - t0)).
      { pose proof (in_win_iff span shift Hspan Hshift a b (t - t0) k Hba Hf2 ltac:(lia)) as Hiff.
        rewrite <- is_open_spec in Hiff.
        destruct (is_open a b k), (in_win span shift k (t - t0)); try reflexivity.
        - symmetry. apply Hiff. reflexivity.
        - apply Hiff. reflexivity. }
      rewrite Eo. unfold wt_contents. cbn [filter fst]. fold (wt_contents k rest).
      rewrite (IH a b tg rest t Hba Hbk Hf2 Hso) by (cbn [length] in Hfu; lia).
      destruct (in_win span shift k (t - t0)); reflexivity.
    + apply Z.leb_gt in El. apply Tick.
      change ((t, Next x) :: wsrc rest tm) with (wsrc ((t, x) :: rest) tm).
      pose proof (sorted_from_lb _ _ Hso) as Hlb. change (wsrc ((t, x) :: rest) tm) with ((t, Next x) :: wsrc rest tm).
      constructor; [cbn; lia|]. eapply Forall_impl; [|exact Hlb]. cbn. intros; lia.
Qed.

(* THEOREM (b): window k, on a sorted conforming timeline *)
Theorem window_time_contents (tl : list (Z * A)) tm k fuel : sorted_from t0 (wsrc tl tm) ->
  (length tl + 1 + Z.to_nat (span + Z.of_nat k * shift) <= fuel)%nat ->
  wsim_wevents k (snd (wsimulate all_imm M fuel t0 (wext_of (wsrc tl tm))))
  = map (fun tx => (fst tx, Next (snd tx))) (wt_contents k tl) ++ wt_ending k tm.
Proof.
  intros Hso Hfu. rewrite window_time_walk. cbn [snd].
  apply (wt_window_events k tm fuel 0 0 0 tl t0); [lia|lia|apply fired0|exact Hso|].
  pose proof (e_due_pos span shift Hspan Hshift 0 0). lia.
Qed.

(* the outer subscriber of a terminating timeline: window k >= 1 is handed at its opening edge
   t0 + k*shift iff that edge lies strictly before the source's terminal (window 0: inside
   subscribe); then the source's terminal *)
Lemma wsim_outer_cons t (i : inp A) (o : list (obs A B)) l :
  wsim_outer ((t, i, o) :: l)
  = flat_map (fun x => match x with OHand _ _ | OEmit _ => [(t, x)] | _ => [] end) o ++ wsim_outer l.
Proof. reflexivity. Qed.

Lemma wsim_outer_dead (es : list (Z * ev A)) : wsim_outer (wt_dead es) = [].
Proof. induction es as [|[t e] r IH]; [reflexivity|]. cbn [wt_dead map]. rewrite wsim_outer_cons. exact IH. Qed.

Lemma outer_wins (t : Z) (e : ev A) q :
  flat_map (fun x : obs A B => match x with OHand _ _ | OEmit _ => [(t, x)] | _ => [] end) (map (fun g => OWin g e) q) = [].
Proof. induction q; auto. Qed.

Lemma wt_outer_from tm T e : tm_ev tm = [(T, e)] -> forall fuel a b tg (tl : list (Z * A)) lb,
  (b <= S a)%nat -> fired span shift a b (lb - t0) -> sorted_from lb (wsrc tl tm) ->
  (length tl + 1 + Z.to_nat (T - t0 + 1 - due a b) <= fuel)%nat ->
  wsim_outer (wt_walk fuel a b tg (wsrc tl tm))
  = map (fun k => (t0 + Z.of_nat k * shift, OHand k 0)) (seq (S a) (n_open shift (T - t0) - S a))
    ++ [(T, OEmit (out_term e))].
Proof.
  intros Htm.
  assert (Het : is_terminal e = true) by (destruct tm; cbn in Htm; inversion Htm; reflexivity).
  induction fuel as [|f IH]; intros a b tg tl lb Hba Hfi Hso Hfu; [lia|].
  destruct (e_tick_progress span shift Hspan Hshift a b Hba) as (Hdue & Hba' & Ha' & Hb').
  assert (Tick : Forall (fun te => t0 + due a b < fst te) (wsrc tl tm) ->
            wsim_outer ((t0 + due a b, ITick tg, wt_tick_obs a b tg) :: wt_walk f (a' a b) (b' a b) (S tg) (wsrc tl tm))
            = map (fun k => (t0 + Z.of_nat k * shift, OHand k 0)) (seq (S a) (n_open shift (T - t0) - S a))
              ++ [(T, OEmit (out_term e))]).
  { intros Hall. rewrite wsim_outer_cons.
    destruct (wsrc_Forall (fun t => t0 + due a b < t) tl tm Hall) as [Htl HtT]. rewrite Htm in HtT.
    inversion HtT as [|? ? HT _]; subst. cbn [fst] in HT.
    assert (Hfi' : fired span shift (a' a b) (b' a b) (Z.max lb (t0 + due a b + 1) - t0)).
    { apply fired_tick; try assumption; [|lia]. eapply fired_mono; [exact Hfi|lia]. }
    assert (Hso' : sorted_from (Z.max lb (t0 + due a b + 1)) (wsrc tl tm)).
    { apply (sorted_from_raise _ lb); [exact Hso|].
      pose proof (sorted_from_lb _ _ Hso) as Hlb. rewrite Forall_forall in *. intros te Hte.
      specialize (Hall te Hte). specialize (Hlb te Hte). cbn in *. lia. }
    rewrite (IH (a' a b) (b' a b) (S tg) tl _ Hba' Hfi' Hso') by lia.
    unfold wt_tick_obs, e_a'. destruct (e_shift span shift a b) eqn:Es.
    - assert (Ed : due a b = (Z.of_nat a + 1) * shift).
      { unfold e_shift in Es. apply Z.leb_le in Es. unfold e_due. lia. }
      assert (Hao : (S a < n_open shift (T - t0))%nat).
      { apply (n_open_spec shift Hshift). right. rewrite Nat2Z.inj_succ. lia. }
      replace (n_open shift (T - t0) - S a)%nat with (S (n_open shift (T - t0) - S (S a))) by lia.
      cbn [seq map]. destruct (e_span span shift a b); cbn [app flat_map]; rewrite Ed, Nat2Z.inj_succ;
        repeat f_equal; lia.
    - destruct (e_span span shift a b); reflexivity. }
  cbn [wt_walk]. destruct tl as [|[t x] rest].
  - unfold wsrc at 1. cbn [map app]. rewrite Htm.
    assert (HlbT : lb <= T) by (unfold wsrc in Hso; rewrite Htm in Hso; cbn in Hso; tauto).
    destruct (T <=? t0 + due a b) eqn:El.
    + apply Z.leb_le in El.
      assert (Hd1 : due a b <= (Z.of_nat a + 1) * shift) by (unfold e_due; lia).
      assert (E0 : n_open shift (T - t0) = S a).
      { assert (~ (S a < n_open shift (T - t0))%nat).
        { rewrite (n_open_spec shift Hshift). intros [H|H]; [discriminate H|]. rewrite Nat2Z.inj_succ in H. lia. }
        assert (a < n_open shift (T - t0))%nat; [|lia].
        apply (n_open_spec shift Hshift). destruct Hfi as [[->|Ha] _]; [left; reflexivity|right; lia]. }
      rewrite E0, Nat.sub_diag. cbn [seq map app].
      destruct e as [y|z|]; [discriminate Het| |]; rewrite wsim_outer_cons, wsim_outer_dead, app_nil_r;
        unfold wt_term_obs; rewrite flat_map_app, outer_wins; reflexivity.
    + apply Z.leb_gt in El. replace [(T, e)] with (wsrc (@nil (Z * A)) tm) by (unfold wsrc; now rewrite Htm).
      apply Tick. unfold wsrc. rewrite Htm. constructor; [cbn; lia|constructor].
  - change (wsrc ((t, x) :: rest) tm) with ((t, Next x) :: wsrc rest tm) in *.
    destruct Hso as [Hlt Hso].
    destruct (t <=? t0 + due a b) eqn:El.
    + apply Z.leb_le in El. rewrite wsim_outer_cons, outer_wins. cbn [app].
      assert (Hf2 : fired span shift a b (t - t0)) by (eapply fired_mono; [exact Hfi|lia]).
      apply (IH a b tg rest t Hba Hf2 Hso). cbn [length] in Hfu. lia.
    + apply Z.leb_gt in El. apply Tick.
      pose proof (sorted_from_lb _ _ Hso) as Hlb.
      constructor; [cbn; lia|]. eapply Forall_impl; [|exact Hlb]. cbn. intros; lia.
Qed.

Theorem window_time_outer (tl : list (Z * A)) tm T e fuel : tm_ev tm = [(T, e)] ->
  sorted_from t0 (wsrc tl tm) -> (length tl + 1 + Z.to_nat (T - t0) <= fuel)%nat ->
  wsim_outer (snd (wsimulate all_imm M fuel t0 (wext_of (wsrc tl tm))))
  = map (fun k => (t0 + Z.of_nat k * shift, OHand k 0)) (seq 1 (n_open shift (T - t0) - 1))
    ++ [(T, OEmit (out_term e))].
Proof.
  intros Htm Hso Hfu. rewrite window_time_walk. cbn [snd].
  apply (wt_outer_from tm T e Htm fuel 0 0 0 tl t0); [lia|apply fired0|exact Hso|].
  pose proof (e_due_pos span shift Hspan Hshift 0 0). lia.
Qed.
End WindowTime.
