(* C11 / C10: merge(max_concurrent = mc) and concat_map (mc = 1) -- dynamic inner
   sequences with a waiting queue -- against an abstract specification over the
   interleaved input sequence, for EVERY mapper, EVERY mc and EVERY input sequence. *)
From RxVerif Require Import Base.Prelude Ops.Machine Ops.MachineFacts Ops.Multi Ops.MultiFacts
  Ops.RunLemmas Ops.Combinators Ops.MergeFacts Ops.FlatMapFacts.

Local Arguments Nat.ltb : simpl never.
Local Arguments Nat.leb : simpl never.

Section MergeConc.
Context {A : Type}.

(* SPEC: the outer's elements create inner sequences (numbered 1, 2, .. in creation
   order).  At most mc of them run; the others wait in a FIFO queue and the head of
   the queue starts exactly when a running inner completes.  Elements of running
   inners pass at their own instant; the first error ends everything; completion
   when the outer has completed and nothing is running. *)
Fixpoint mc_spec (mapper : A -> nat -> res unit) (mc : nat) (outer_live : bool) (cnt : nat)
  (running queue : list nat) (pos : nat) (ins : list (Z * inp A)) : list (nat * ev A) :=
  match ins with
  | [] => []
  | (_, ISrc O e) :: t =>
      if outer_live then
        match e with
        | Next x => match mapper x cnt with
                    | Ok _ => if Nat.ltb (length running) mc
                              then mc_spec mapper mc true (S cnt) (running ++ [S cnt]) queue (S pos) t
                              else mc_spec mapper mc true (S cnt) running (queue ++ [S cnt]) (S pos) t
                    | Raise err => [(pos, Err err)]
                    end
        | Err err => [(pos, Err err)]
        | Done => match running with
                  | [] => [(pos, Done)]
                  | _ => mc_spec mapper mc false cnt running queue (S pos) t
                  end
        end
      else mc_spec mapper mc outer_live cnt running queue (S pos) t
  | (_, ISrc (S j) e) :: t =>
      if mem (S j) running then
        match e with
        | Next x => (pos, Next x) :: mc_spec mapper mc outer_live cnt running queue (S pos) t
        | Err err => [(pos, Err err)]
        | Done => match queue with
                  | q :: rest => mc_spec mapper mc outer_live cnt (remove (S j) running ++ [q]) rest (S pos) t
                  | [] => match remove (S j) running, outer_live with
                          | [], false => [(pos, Done)]
                          | rest', _ => mc_spec mapper mc outer_live cnt rest' [] (S pos) t
                          end
                  end
        end
      else mc_spec mapper mc outer_live cnt running queue (S pos) t
  | (_, ITick _) :: t => mc_spec mapper mc outer_live cnt running queue (S pos) t
  | (_, IDispose) :: _ => []
  end.

(* well-formed: running and waiting inners are distinct ids in 1..cnt *)
Definition mc_ok (cnt : nat) (running queue : list nat) : Prop := fm_ok cnt (running ++ queue).

Lemma nodup_app_l (a b : list nat) : NoDup (a ++ b) -> NoDup a.
Proof.
  induction a as [|x t IH]; intros H; [constructor|]. cbn in H. inversion H as [|? ? Hx Ht]; subst.
  constructor; [|apply IH; exact Ht]. intros Hin. apply Hx. apply in_or_app. left. exact Hin.
Qed.

Lemma mc_ok_running cnt running queue : mc_ok cnt running queue -> fm_ok cnt running.
Proof.
  intros [Hnd Hr]. split.
  - eapply nodup_app_l. exact Hnd.
  - intros k Hk. apply Hr. apply in_or_app. left. exact Hk.
Qed.

Lemma mc_ok_run_new cnt running queue :
  mc_ok cnt running queue -> mc_ok (S cnt) (running ++ [S cnt]) queue.
Proof.
  intros [Hnd Hr]. unfold mc_ok. split.
  - rewrite <- app_assoc. cbn [app]. apply (NoDup_Add (Add_app (S cnt) running queue)). split; [exact Hnd|].
    intros Hin. specialize (Hr _ Hin). lia.
  - intros k Hk. rewrite <- app_assoc in Hk. apply in_app_or in Hk. cbn [app] in Hk.
    destruct Hk as [Hk|[<-|Hk]]; [|lia|].
    + assert (In k (running ++ queue)) by (apply in_or_app; left; exact Hk). specialize (Hr _ H). lia.
    + assert (In k (running ++ queue)) by (apply in_or_app; right; exact Hk). specialize (Hr _ H). lia.
Qed.

Lemma mc_ok_queue_new cnt running queue :
  mc_ok cnt running queue -> mc_ok (S cnt) running (queue ++ [S cnt]).
Proof.
  intros H. unfold mc_ok. rewrite app_assoc. apply fm_ok_new. exact H.
Qed.

Lemma length_remove k l : mem k l = true -> length (remove k l) = pred (length l).
Proof.
  induction l as [|j t IH]; cbn; [discriminate|]. destruct (Nat.eqb k j); cbn; [reflexivity|].
  intros H. rewrite IH by exact H. destruct t; [discriminate H|reflexivity].
Qed.

Lemma mem_in k l : mem k l = true -> In k l.
Proof.
  unfold mem. intros H. apply existsb_exists in H. destruct H as [x [Hx E]].
  apply Nat.eqb_eq in E. now subst.
Qed.

Lemma mem_app k a b : mem k (a ++ b) = mem k a || mem k b.
Proof. unfold mem. apply existsb_app. Qed.

(* a running inner completes while q waits: q takes its place *)
Lemma mc_ok_promote cnt running q rest k :
  mc_ok cnt running (q :: rest) -> mem k running = true ->
  mc_ok cnt (remove k running ++ [q]) rest /\ mem k (remove k running ++ [q]) = false.
Proof.
  intros [Hnd Hr] Hk. apply mem_in in Hk.
  assert (Hq : In q (running ++ q :: rest)) by (apply in_or_app; right; left; reflexivity).
  assert (Hnq : ~ In q running).
  { intros Hin. apply NoDup_remove_2 in Hnd. apply Hnd. apply in_or_app. left. exact Hin. }
  assert (Hrun : NoDup running) by (eapply nodup_app_l; exact Hnd).
  destruct (remove_nodup k running Hrun) as [Hnd1 Hnk].
  split.
  - split.
    + rewrite <- app_assoc. cbn [app].
      (* remove k running ++ q :: rest is a sub-multiset of running ++ q :: rest *)
      clear Hq Hnq Hr Hk Hnk Hnd1 Hrun. revert Hnd. induction running as [|j t IH]; intros Hnd; cbn [remove app] in *.
      * exact Hnd.
      * inversion Hnd as [|? ? Hj Ht]; subst. destruct (Nat.eqb k j); [exact Ht|].
        cbn [app]. constructor; [|apply IH; exact Ht].
        intros Hin. apply Hj. apply in_app_or in Hin. apply in_or_app.
        destruct Hin as [Hin|Hin]; [left; eapply remove_in; exact Hin|right; exact Hin].
    + intros j Hj. apply Hr. rewrite <- app_assoc in Hj. cbn [app] in Hj.
      apply in_app_or in Hj. apply in_or_app. destruct Hj as [Hj|Hj]; [left; eapply remove_in; exact Hj|right; exact Hj].
  - rewrite mem_app. rewrite (notin_mem_false _ _ Hnk). cbn [orb mem existsb].
    destruct (Nat.eqb_spec k q) as [->|]; [contradiction|reflexivity].
Qed.

Lemma mc_ok_drop cnt running k : mc_ok cnt running [] -> mc_ok cnt (remove k running) [].
Proof. unfold mc_ok. rewrite !app_nil_r. apply fm_ok_remove. Qed.

Lemma fm_live_snoc ol running q : fm_live ol running ++ [q] = fm_live ol (running ++ [q]).
Proof. unfold fm_live. now rewrite app_assoc. Qed.

Lemma mc_from mapper mc (ins : list (Z * inp A)) : forall ol cnt running queue pos,
  mc_ok cnt running queue -> (ol = true \/ running <> []) ->
  temitted (fst (run_from (x_merge_concurrent mc mapper) (cnt, length running, queue, negb ol)
                   (RState (fm_live ol running) [] false) pos ins))
  = mc_spec mapper mc ol cnt running queue pos ins.
Proof.
  induction ins as [|[now i] rest IH]; intros ol cnt running queue pos Hok Hsome; [reflexivity|].
  rewrite temitted_run_cons. cbn [mc_spec].
  pose proof (mc_ok_running _ _ _ Hok) as Hokr.
  set (m := x_merge_concurrent mc mapper).
  destruct i as [k e|tag|].
  - destruct k as [|j].
    + (* the outer source *)
      destruct ol.
      * destruct e as [x|err|].
        -- destruct (mapper x cnt) as [[]|err] eqn:Hmap.
           ++ destruct (Nat.ltb (length running) mc) eqn:Hlt.
              ** assert (E : rstep m (cnt, length running, queue, negb true) (RState (fm_live true running) [] false)
                               now (ISrc 0%nat (Next x))
                             = ((S cnt, length (running ++ [S cnt]), queue, negb true),
                                RState (fm_live true (running ++ [S cnt])) [] false, [OSub (S cnt)])).
                 { unfold rstep, fm_live, m. cbn. rewrite Hmap, Hlt. cbn.
                   rewrite app_length. cbn [length]. rewrite Nat.add_1_r. reflexivity. }
                 rewrite E. cbn [fst snd]. rewrite IH by (auto using mc_ok_run_new). reflexivity.
              ** assert (E : rstep m (cnt, length running, queue, negb true) (RState (fm_live true running) [] false)
                               now (ISrc 0%nat (Next x))
                             = ((S cnt, length running, queue ++ [S cnt], negb true),
                                RState (fm_live true running) [] false, [])).
                 { unfold rstep, fm_live, m. cbn. rewrite Hmap, Hlt. cbn. reflexivity. }
                 rewrite E. cbn [fst snd]. rewrite IH by (auto using mc_ok_queue_new). reflexivity.
           ++ destruct (rstep_fin m (cnt, length running, queue, negb true)
                          (RState (fm_live true running) [] false) now (ISrc 0%nat (Next x)) pos) as [E1 E2];
                [reflexivity|reflexivity|unfold m; cbn; rewrite Hmap; discriminate|].
              rewrite E1, (run_from_stopped _ _ _ _ _ E2). unfold m. cbn. rewrite Hmap. reflexivity.
        -- destruct (rstep_fin m (cnt, length running, queue, negb true)
                       (RState (fm_live true running) [] false) now (ISrc 0%nat (Err err)) pos) as [E1 E2];
             [reflexivity|reflexivity|cbn; discriminate|].
           rewrite E1, (run_from_stopped _ _ _ _ _ E2). reflexivity.
        -- destruct running as [|r0 rs].
           ++ destruct (rstep_fin m (cnt, length (@nil nat), queue, negb true)
                          (RState (fm_live true []) [] false) now (ISrc 0%nat Done) pos) as [E1 E2];
                [reflexivity|reflexivity|cbn; discriminate|].
              rewrite E1, (run_from_stopped _ _ _ _ _ E2). reflexivity.
           ++ assert (E : rstep m (cnt, length (r0 :: rs), queue, negb true)
                            (RState (fm_live true (r0 :: rs)) [] false) now (ISrc 0%nat Done)
                          = ((cnt, length (r0 :: rs), queue, negb false),
                             RState (fm_live false (r0 :: rs)) [] false, [OUnsub 0%nat])).
              { unfold rstep, fm_live, m. cbn. reflexivity. }
              rewrite E. cbn [fst snd]. rewrite IH by (auto; right; discriminate). reflexivity.
      * assert (E : rstep m (cnt, length running, queue, negb false) (RState (fm_live false running) [] false)
                      now (ISrc 0%nat e)
                    = ((cnt, length running, queue, negb false), RState (fm_live false running) [] false, [])).
        { unfold rstep. cbn [r_stopped r_live]. rewrite (mem_0_fm_live cnt false running Hokr). reflexivity. }
        rewrite E. cbn [fst snd]. rewrite IH by auto. reflexivity.
    + (* an inner source *)
      destruct (mem (S j) running) eqn:Hmem.
      * destruct e as [x|err|].
        -- assert (E : rstep m (cnt, length running, queue, negb ol) (RState (fm_live ol running) [] false)
                         now (ISrc (S j) (Next x))
                       = ((cnt, length running, queue, negb ol), RState (fm_live ol running) [] false, [OEmit (Next x)])).
           { unfold rstep. cbn [r_stopped r_live]. rewrite mem_fm_live_S, Hmem. cbn. reflexivity. }
           rewrite E. cbn [fst snd]. rewrite IH by auto. reflexivity.
        -- destruct (rstep_fin m (cnt, length running, queue, negb ol)
                       (RState (fm_live ol running) [] false) now (ISrc (S j) (Err err)) pos) as [E1 E2];
             [reflexivity|cbn [delivered r_live]; now rewrite mem_fm_live_S|cbn; discriminate|].
           rewrite E1, (run_from_stopped _ _ _ _ _ E2). reflexivity.
        -- destruct queue as [|q qs].
           ++ (* nothing waits: one running inner less *)
              destruct Hokr as [Hnd Hrange].
              pose proof (mem_removed running (S j) Hnd) as Hgone.
              pose proof (length_remove (S j) running Hmem) as Hlen.
              destruct (remove (S j) running) as [|r0 rs] eqn:Hrem; rewrite ?Hrem in Hgone.
              ** cbn [length] in Hlen.
                 destruct ol.
                 --- assert (E : rstep m (cnt, length running, [], negb true) (RState (fm_live true running) [] false)
                                   now (ISrc (S j) Done)
                                 = ((cnt, length (@nil nat), [], negb true), RState (fm_live true []) [] false, [OUnsub (S j)])).
                     { unfold rstep. cbn [r_stopped r_live]. rewrite mem_fm_live_S, Hmem.
                       unfold m. cbn [x_merge_concurrent x_step negb andb]. rewrite <- Hlen.
                       cbn [apply_cmds r_live r_timers r_stopped].
                       rewrite mem_fm_live_S, Hmem, remove_fm_live_S, Hrem.
                       cbn [fst snd app is_terminal andb r_live]. rewrite mem_fm_live_S. cbn [mem existsb finish length].
                       reflexivity. }
                     rewrite E. cbn [fst snd]. rewrite IH; [reflexivity|split; [constructor|intros k []]|auto].
                 --- destruct (rstep_fin m (cnt, length running, [], negb false)
                                 (RState (fm_live false running) [] false) now (ISrc (S j) Done) pos) as [E1 E2];
                       [reflexivity|cbn [delivered r_live]; now rewrite mem_fm_live_S
                       |unfold m; cbn [x_merge_concurrent x_step negb snd andb]; rewrite <- Hlen; cbn; discriminate|].
                     rewrite E1, (run_from_stopped _ _ _ _ _ E2). unfold m.
                     cbn [x_merge_concurrent x_step negb fst snd andb]. rewrite <- Hlen. reflexivity.
              ** assert (Hok2 : mc_ok cnt (r0 :: rs) []).
                 { rewrite <- Hrem. apply mc_ok_drop. exact Hok. }
                 assert (Hpos : Nat.eqb (pred (length running)) 0 = false).
                 { rewrite <- Hlen. reflexivity. }
                 assert (E : rstep m (cnt, length running, [], negb ol) (RState (fm_live ol running) [] false)
                               now (ISrc (S j) Done)
                             = ((cnt, length (r0 :: rs), [], negb ol), RState (fm_live ol (r0 :: rs)) [] false, [OUnsub (S j)])).
                 { unfold rstep. cbn [r_stopped r_live]. rewrite mem_fm_live_S, Hmem.
                   unfold m. cbn [x_merge_concurrent x_step]. rewrite Hpos, andb_false_r.
                   cbn [apply_cmds r_live r_timers r_stopped].
                   rewrite mem_fm_live_S, Hmem, remove_fm_live_S, Hrem.
                   cbn [fst snd app is_terminal andb r_live]. rewrite mem_fm_live_S, Hgone.
                   cbn [finish fst snd app]. rewrite <- Hlen. reflexivity. }
                 rewrite E. cbn [fst snd]. rewrite IH by (auto; right; discriminate).
                 destruct ol; reflexivity.
           ++ (* the head of the queue takes the place of the completed inner *)
              destruct (mc_ok_promote cnt running q qs (S j) Hok Hmem) as [Hok2 Hgone].
              pose proof (length_remove (S j) running Hmem) as Hlen.
              assert (Hlen2 : length (remove (S j) running ++ [q]) = length running).
              { rewrite app_length, Hlen. cbn [length]. apply mem_in in Hmem. destruct running; [contradiction|cbn; lia]. }
              assert (E : rstep m (cnt, length running, q :: qs, negb ol) (RState (fm_live ol running) [] false)
                            now (ISrc (S j) Done)
                          = ((cnt, length (remove (S j) running ++ [q]), qs, negb ol),
                             RState (fm_live ol (remove (S j) running ++ [q])) [] false, [OUnsub (S j); OSub q])).
              { unfold rstep. cbn [r_stopped r_live]. rewrite mem_fm_live_S, Hmem.
                unfold m. cbn [x_merge_concurrent x_step].
                cbn [apply_cmds r_live r_timers r_stopped].
                rewrite mem_fm_live_S, Hmem, remove_fm_live_S.
                cbn [r_live r_timers r_stopped fst snd app]. rewrite fm_live_snoc.
                cbn [is_terminal andb]. rewrite mem_fm_live_S, Hgone.
                cbn [finish fst snd app]. rewrite Hlen2. reflexivity. }
              rewrite E. cbn [fst snd]. rewrite IH; [reflexivity|exact Hok2|].
              right. intros Hnil. apply (f_equal (@length nat)) in Hnil. rewrite app_length in Hnil. cbn in Hnil. lia.
      * assert (E : rstep m (cnt, length running, queue, negb ol) (RState (fm_live ol running) [] false)
                      now (ISrc (S j) e)
                    = ((cnt, length running, queue, negb ol), RState (fm_live ol running) [] false, [])).
        { unfold rstep. cbn [r_stopped r_live]. rewrite mem_fm_live_S, Hmem. reflexivity. }
        rewrite E. cbn [fst snd]. rewrite IH by auto. reflexivity.
  - assert (E : rstep m (cnt, length running, queue, negb ol) (RState (fm_live ol running) [] false)
                  now (ITick tag)
                = ((cnt, length running, queue, negb ol), RState (fm_live ol running) [] false, [])) by reflexivity.
    rewrite E. cbn [fst snd]. rewrite IH by auto. reflexivity.
  - unfold rstep. cbn [r_stopped]. unfold m. cbn [x_merge_concurrent x_step apply_cmds fst snd].
    rewrite run_from_stopped by reflexivity. cbn [fst]. rewrite app_nil_r.
    cbn [filter app]. apply release_temitted.
Qed.

(* REFINEMENT for EVERY mapper (also raising), EVERY max_concurrent and EVERY input
   sequence; concat_map is the instance mc = 1 *)
Theorem merge_concurrent_refines_spec mc mapper (ins : list (Z * inp A)) :
  temitted (fst (run (x_merge_concurrent mc mapper) ins)) = mc_spec mapper mc true 0 [] [] 1 ins.
Proof.
  rewrite run_unfold. cbn [fst]. rewrite temitted_app'.
  unfold start_state, start_obs. cbn -[run_from mc_spec temitted].
  change (RState [0%nat] [] false) with (RState (fm_live true []) [] false).
  change (0%nat, 0%nat, @nil nat, false) with (0%nat, length (@nil nat), @nil nat, negb true).
  rewrite mc_from; [reflexivity|split; [constructor|intros k []]|auto].
Qed.
End MergeConc.

(* ---- at any time at most max_concurrent inner sequences are subscribed -------- *)
Section Bounded.
Context {A : Type}.

Fixpoint ninner (l : list nat) : nat :=
  match l with [] => 0%nat | O :: t => ninner t | S _ :: t => S (ninner t) end.

Lemma ninner_app a b : ninner (a ++ b) = (ninner a + ninner b)%nat.
Proof. induction a as [|[|j] t IH]; cbn; [reflexivity|exact IH|now rewrite IH]. Qed.

Lemma ninner_remove_le k l : (ninner (remove k l) <= ninner l)%nat.
Proof.
  induction l as [|j t IH]; cbn [remove]; [lia|]. destruct (Nat.eqb k j).
  - destruct j; cbn; lia.
  - destruct j; cbn; lia.
Qed.

Lemma ninner_remove_S j l : mem (S j) l = true -> S (ninner (remove (S j) l)) = ninner l.
Proof.
  unfold mem. induction l as [|i t IH]; intros H; [discriminate|].
  cbn [remove existsb] in *. destruct (Nat.eqb (S j) i) eqn:E.
  - apply Nat.eqb_eq in E. subst i. reflexivity.
  - cbn [orb] in H. destruct i; cbn [ninner]; rewrite <- (IH H); reflexivity.
Qed.

Lemma ninner_single q : (ninner [q] <= 1)%nat.
Proof. destruct q; cbn; lia. Qed.

Definition mc_inv (mc : nat) (s : nat * nat * list nat * bool) (r : rstate) : Prop :=
  let '(_, active, _, _) := s in (ninner (r_live r) <= active <= mc)%nat.

Lemma mc_inv_step mc mapper (s : nat * nat * list nat * bool) r now (i : inp A) :
  mc_inv mc s r ->
  mc_inv mc (fst (fst (rstep (x_merge_concurrent mc mapper) s r now i)))
            (snd (fst (rstep (x_merge_concurrent mc mapper) s r now i))).
Proof.
  destruct s as [[[cnt active] queue] stopped]. destruct r as [lv ts st].
  unfold mc_inv. cbn [r_live]. intros [H1 H2].
  unfold rstep. cbn [r_stopped]. destruct st; [cbn; lia|].
  destruct i as [k e|tag|].
  - cbn [r_live]. destruct (mem k lv) eqn:Hk; [|cbn; lia].
    destruct k as [|j].
    + destruct e as [x|err|].
      * cbn [x_merge_concurrent x_step]. destruct (mapper x cnt) as [[]|err].
        -- destruct (Nat.ltb_spec active mc) as [Hlt|Hge].
           ++ cbn. rewrite ninner_app. cbn. lia.
           ++ cbn. lia.
        -- cbn. lia.
      * cbn [x_merge_concurrent x_step apply_cmds fst snd is_terminal andb r_live r_timers r_stopped].
        rewrite Hk. cbn. lia.
      * cbn [x_merge_concurrent x_step apply_cmds fst snd is_terminal andb r_live r_timers r_stopped].
        rewrite Hk. pose proof (ninner_remove_le 0 lv) as Hle.
        destruct active as [|a]; cbn; lia.
    + destruct e as [x|err|].
      * cbn. lia.
      * cbn [x_merge_concurrent x_step apply_cmds fst snd is_terminal andb r_live r_timers r_stopped].
        rewrite Hk. cbn. lia.
      * cbn [x_merge_concurrent x_step]. destruct queue as [|q qs].
        -- cbn [apply_cmds r_live r_timers r_stopped fst snd]. rewrite Hk.
           cbn [fst snd app is_terminal andb r_live r_timers r_stopped].
           pose proof (ninner_remove_S j lv Hk) as Hrem.
           pose proof (ninner_remove_le (S j) (remove (S j) lv)) as Hle2.
           destruct (mem (S j) (remove (S j) lv));
             destruct (stopped && Nat.eqb (pred active) 0); cbn; lia.
        -- cbn [apply_cmds r_live r_timers r_stopped fst snd]. rewrite Hk.
           cbn [fst snd app is_terminal andb r_live r_timers r_stopped].
           pose proof (ninner_remove_S j lv Hk) as Hrem.
           pose proof (ninner_remove_le (S j) (remove (S j) lv ++ [q])) as Hle2.
           pose proof (ninner_single q) as Hq1.
           assert (Hq : ninner (remove (S j) lv ++ [q]) = (ninner (remove (S j) lv) + ninner [q])%nat)
             by apply ninner_app.
           destruct (mem (S j) (remove (S j) lv ++ [q])); cbn -[ninner]; lia.
  - cbn [r_timers]. destruct (mem tag ts); cbn; lia.
  - cbn. lia.
Qed.

Theorem merge_concurrent_bounded mc mapper (ins : list (Z * inp A)) :
  (ninner (r_live (snd (run (x_merge_concurrent mc mapper) ins))) <= mc)%nat.
Proof.
  rewrite run_final.
  set (m := x_merge_concurrent mc mapper).
  assert (H0 : mc_inv mc (fst (start_state m)) (snd (start_state m))).
  { unfold start_state, m, mc_inv. cbn. lia. }
  pose proof (run_from_invariant m (fun s r _ => mc_inv mc s r)
                (fun s r acc now i H => mc_inv_step mc mapper s r now i H) ins _ _ 1 [] H0) as H.
  cbn beta in H. unfold mc_inv in H.
  destruct (fst (after m (fst (start_state m)) (snd (start_state m)) ins)) as [[[c a] q] st]. lia.
Qed.
End Bounded.

(* ---- consequences of the specifications ---------------------------------------- *)
Section SpecFacts.
Context {A : Type}.

(* every emitted element is an element of an inner sequence, emitted at that input's own
   position: no element is invented, reordered or delayed *)
Lemma mc_spec_sound mapper mc (ins : list (Z * inp A)) : forall ol cnt running queue pos p x,
  In (p, Next x) (mc_spec mapper mc ol cnt running queue pos ins) ->
  exists j now, nth_error ins (p - pos) = Some (now, ISrc (S j) (Next x)) /\ (pos <= p)%nat.
Proof.
  induction ins as [|[now i] rest IH]; intros ol cnt running queue pos p x Hin; [destruct Hin|].
  cbn [mc_spec] in Hin.
  assert (Shift : forall ol' cnt' running' queue',
     In (p, Next x) (mc_spec mapper mc ol' cnt' running' queue' (S pos) rest) ->
     exists j now0, nth_error ((now, i) :: rest) (p - pos) = Some (now0, ISrc (S j) (Next x)) /\ (pos <= p)%nat).
  { intros ol' cnt' running' queue' H. destruct (IH _ _ _ _ _ _ _ H) as (j & n0 & Hn & Hle).
    exists j, n0. split; [|lia]. replace (p - pos)%nat with (S (p - S pos)) by lia. exact Hn. }
  destruct i as [k e|tag|].
  - destruct k as [|j].
    + destruct ol; [|eapply Shift; eassumption].
      destruct e as [y|e|].
      * destruct (mapper y cnt); [|destruct Hin as [E|[]]; discriminate].
        destruct (Nat.ltb (length running) mc); eapply Shift; eassumption.
      * destruct Hin as [E|[]]. discriminate.
      * destruct running; [destruct Hin as [E|[]]; discriminate|]. eapply Shift; eassumption.
    + destruct (mem (S j) running); [|eapply Shift; eassumption].
      destruct e as [y|e|].
      * destruct Hin as [E|Hin].
        -- injection E as <- <-. exists j, now. rewrite Nat.sub_diag. split; [reflexivity|lia].
        -- eapply Shift; eassumption.
      * destruct Hin as [E|[]]. discriminate.
      * destruct queue as [|q qs]; [|eapply Shift; eassumption].
        destruct (remove (S j) running); [destruct ol; [eapply Shift; eassumption|destruct Hin as [E|[]]; discriminate]|].
        eapply Shift; eassumption.
  - eapply Shift; eassumption.
  - destruct Hin.
Qed.

Lemma flat_map_spec_sound mapper (ins : list (Z * inp A)) : forall ol cnt running pos p x,
  In (p, Next x) (flat_map_spec mapper ol cnt running pos ins) ->
  exists j now, nth_error ins (p - pos) = Some (now, ISrc (S j) (Next x)) /\ (pos <= p)%nat.
Proof.
  induction ins as [|[now i] rest IH]; intros ol cnt running pos p x Hin; [destruct Hin|].
  cbn [flat_map_spec] in Hin.
  assert (Shift : forall ol' cnt' running',
     In (p, Next x) (flat_map_spec mapper ol' cnt' running' (S pos) rest) ->
     exists j now0, nth_error ((now, i) :: rest) (p - pos) = Some (now0, ISrc (S j) (Next x)) /\ (pos <= p)%nat).
  { intros ol' cnt' running' H. destruct (IH _ _ _ _ _ _ H) as (j & n0 & Hn & Hle).
    exists j, n0. split; [|lia]. replace (p - pos)%nat with (S (p - S pos)) by lia. exact Hn. }
  destruct i as [k e|tag|].
  - destruct k as [|j].
    + destruct ol; [|eapply Shift; eassumption].
      destruct e as [y|e|].
      * destruct (mapper y cnt); [eapply Shift; eassumption|destruct Hin as [E|[]]; discriminate].
      * destruct Hin as [E|[]]. discriminate.
      * destruct running; [destruct Hin as [E|[]]; discriminate|]. eapply Shift; eassumption.
    + destruct (mem (S j) running); [|eapply Shift; eassumption].
      destruct e as [y|e|].
      * destruct Hin as [E|Hin].
        -- injection E as <- <-. exists j, now. rewrite Nat.sub_diag. split; [reflexivity|lia].
        -- eapply Shift; eassumption.
      * destruct Hin as [E|[]]. discriminate.
      * destruct (remove (S j) running); [destruct ol; [eapply Shift; eassumption|destruct Hin as [E|[]]; discriminate]|].
        eapply Shift; eassumption.
  - eapply Shift; eassumption.
  - destruct Hin.
Qed.
End SpecFacts.
