(* Helpers for generated correspondence cases of window/group machines
   (Ops/MultiWin.v): canonical per-tag ordering of the observable trace and
   decidable equality.  Per tag: the emission-like events (outer emissions,
   hands, window notifications) in order, then the subscribe / unsubscribe /
   timer / cancel / effect events sorted. *)
From RxVerif Require Import Base.Prelude Base.CaseLib Ops.Machine Ops.MultiWin.

Section Canon.
Context {W B : Type}.

Definition obs_key (o : obs W B) : Z * Z * Z :=
  match o with
  | OEmit _ | OHand _ _ | OWin _ _ => (0, 0, 0)
  | OSub k => (1, Z.of_nat k, 0)
  | OUnsub k => (2, Z.of_nat k, 0)
  | OTimer t d => (3, Z.of_nat t, d)
  | OCancel t => (4, Z.of_nat t, 0)
  | OEffect n => (5, n, 0)
  end.

Definition key_leb (a b : Z * Z * Z) : bool :=
  let '(a1, a2, a3) := a in let '(b1, b2, b3) := b in
  (a1 <? b1) || ((a1 =? b1) && ((a2 <? b2) || ((a2 =? b2) && (a3 <=? b3)))).

Fixpoint ins_obs (o : obs W B) (l : list (obs W B)) : list (obs W B) :=
  match l with
  | [] => [o]
  | x :: t => if key_leb (obs_key o) (obs_key x) then o :: l else x :: ins_obs o t
  end.

Definition is_emit (o : obs W B) : bool :=
  match o with OEmit _ | OHand _ _ | OWin _ _ => true | _ => false end.

Definition canon_group (g : list (obs W B)) : list (obs W B) :=
  filter is_emit g ++ fold_right ins_obs [] (filter (fun o => negb (is_emit o)) g).

Fixpoint take_tag (k : nat) (l : list (nat * obs W B)) : list (obs W B) * list (nat * obs W B) :=
  match l with
  | (j, o) :: t => if Nat.eqb j k then let '(g, rest) := take_tag k t in (o :: g, rest) else ([], l)
  | [] => ([], [])
  end.

Fixpoint canon_fuel (fuel : nat) (l : list (nat * obs W B)) : list (nat * obs W B) :=
  match fuel, l with
  | S f, (k, _) :: _ =>
      let '(g, rest) := take_tag k l in
      map (fun o => (k, o)) (canon_group g) ++ canon_fuel f rest
  | _, _ => []
  end.
Definition canon (l : list (nat * obs W B)) : list (nat * obs W B) := canon_fuel (length l) l.

Definition obs_eqb (eqw : W -> W -> bool) (eqb : B -> B -> bool) (a b : obs W B) : bool :=
  match a, b with
  | OEmit x, OEmit y => ev_eqb eqb x y
  | OHand g k, OHand h j => Nat.eqb g h && (k =? j)
  | OWin g x, OWin h y => Nat.eqb g h && ev_eqb eqw x y
  | OSub x, OSub y => Nat.eqb x y
  | OUnsub x, OUnsub y => Nat.eqb x y
  | OTimer x d, OTimer y e => Nat.eqb x y && (d =? e)
  | OCancel x, OCancel y => Nat.eqb x y
  | OEffect x, OEffect y => x =? y
  | _, _ => false
  end.

Definition trace_eqb (eqw : W -> W -> bool) (eqb : B -> B -> bool) (a b : list (nat * obs W B)) : bool :=
  list_eqb (pair_eqb Nat.eqb (obs_eqb eqw eqb)) a b.
End Canon.

Definition run_canon {A W B} (imm : nat -> bool) (m : machine A W B) (ins : list (Z * inp A))
  : list (nat * obs W B) :=
  canon (fst (run imm m ins)).
