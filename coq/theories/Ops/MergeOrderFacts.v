(* C11: merge(max_concurrent) opens its inner subscriptions in arrival order -- the OSub
   events of EVERY run carry strictly increasing ids (inner j is the one created by the
   j-th accepted outer element), and whatever still waits in the queue is newer than
   everything started so far. *)
From RxVerif Require Import Base.Prelude Ops.Machine Ops.MachineFacts Ops.Multi Ops.MultiFacts
  Ops.RunLemmas Ops.Combinators.
From Coq Require Import Sorting.Sorted.

Local Arguments Nat.ltb : simpl never.
Local Arguments Nat.leb : simpl never.

(* ---- the ids of the subscriptions opened along a run, generically ------------- *)
Section SubIds.
Context {A B : Type} (m : machine A B).

Definition sub_ids (os : list (obs B)) : list nat :=
  flat_map (fun o => match o with OSub k => [k] | _ => [] end) os.
Definition csub_ids (cs : list (cmd B)) : list nat :=
  flat_map (fun c => match c with CSub k => [k] | _ => [] end) cs.

Lemma sub_ids_app a b : sub_ids (a ++ b) = sub_ids a ++ sub_ids b.
Proof. apply flat_map_app. Qed.

Lemma apply_cmds_sub_ids (cs : list (cmd B)) : forall r,
  sub_ids (snd (apply_cmds r cs)) = csub_ids cs.
Proof.
  induction cs as [|c t IH]; intros r; [reflexivity|]. cbn [apply_cmds].
  destruct c; cbn;
    try (destruct (mem _ _));
    match goal with |- context [apply_cmds ?r' t] => specialize (IH r'); destruct (apply_cmds r' t) end;
    cbn [snd] in *; unfold sub_ids, csub_ids in *; cbn; rewrite ?IH; reflexivity.
Qed.

Lemma release_sub_ids (r : rstate) : sub_ids (snd (@release B r)) = [].
Proof.
  unfold release. cbn [snd]. rewrite sub_ids_app.
  assert (H1 : forall l, sub_ids (map (@OUnsub B) l) = []) by (induction l; auto).
  assert (H2 : forall l, sub_ids (map (@OCancel B) l) = []) by (induction l; auto).
  now rewrite H1, H2.
Qed.

Lemma finish_sub_ids (r : rstate) f : sub_ids (snd (@finish B r f)) = [].
Proof.
  destruct f; cbn [finish]; [reflexivity| |];
    pose proof (release_sub_ids r) as H; destruct (release r) as [r' o]; cbn [snd] in *;
    unfold sub_ids in *; cbn; exact H.
Qed.

(* either the input was dropped, or the handler ran: the subscriptions opened are exactly
   the handler's CSub commands, in order *)
Lemma rstep_sub_ids s r now i :
  rstep m s r now i = (s, r, [])
  \/ (fst (fst (rstep m s r now i)) = fst (fst (x_step m s now i))
      /\ sub_ids (snd (rstep m s r now i)) = csub_ids (snd (fst (x_step m s now i)))).
Proof.
  unfold rstep. destruct (r_stopped r); [left; reflexivity|].
  assert (D : forall r0,
    fst (fst (let '(s', cs, f) := x_step m s now i in
              let '(r1, o1) := apply_cmds r0 cs in
              let '(r2, o2) := match i with
                               | ISrc k e => if is_terminal e && mem k (r_live r1)
                                             then (RState (remove k (r_live r1)) (r_timers r1) (r_stopped r1), [OUnsub k])
                                             else (r1, [])
                               | _ => (r1, [])
                               end in
              let '(r3, o3) := finish r2 f in (s', r3, o1 ++ o2 ++ o3)))
    = fst (fst (x_step m s now i))
    /\ sub_ids (snd (let '(s', cs, f) := x_step m s now i in
              let '(r1, o1) := apply_cmds r0 cs in
              let '(r2, o2) := match i with
                               | ISrc k e => if is_terminal e && mem k (r_live r1)
                                             then (RState (remove k (r_live r1)) (r_timers r1) (r_stopped r1), [OUnsub k])
                                             else (r1, [])
                               | _ => (r1, [])
                               end in
              let '(r3, o3) := finish r2 f in (s', r3, o1 ++ o2 ++ o3)))
      = csub_ids (snd (fst (x_step m s now i)))).
  { intros r0. destruct (x_step m s now i) as [[s' cs] f]. cbn [fst snd].
    pose proof (apply_cmds_sub_ids cs r0) as H1. destruct (apply_cmds r0 cs) as [r1 o1]. cbn [snd] in H1.
    set (X := match i with
              | ISrc k e => if is_terminal e && mem k (r_live r1)
                            then (RState (remove k (r_live r1)) (r_timers r1) (r_stopped r1), [OUnsub k])
                            else (r1, [])
              | _ => (r1, [])
              end).
    assert (HX : sub_ids (snd X) = []).
    { subst X. destruct i as [k e| |]; try reflexivity.
      destruct (is_terminal e && mem k (r_live r1)); reflexivity. }
    destruct X as [r2 o2]. cbn [snd] in HX.
    pose proof (finish_sub_ids r2 f) as H3. destruct (finish r2 f) as [r3 o3]. cbn [fst snd] in *.
    split; [reflexivity|]. rewrite !sub_ids_app, H1, HX, H3. now rewrite app_nil_r. }
  destruct i as [k e|tag|].
  - destruct (mem k (r_live r)); [right; apply D|left; reflexivity].
  - destruct (mem tag (r_timers r)); [right; apply D|left; reflexivity].
  - right. destruct (x_step m s now IDispose) as [[s' cs] f]. cbn [fst snd].
    pose proof (apply_cmds_sub_ids cs r) as H1. destruct (apply_cmds r cs) as [r1 o1]. cbn [snd] in H1.
    pose proof (release_sub_ids r1) as H2. unfold release in *. cbn [fst snd] in *.
    split; [reflexivity|]. rewrite sub_ids_app, H2, app_nil_r.
    assert (F : forall o : list (obs B),
      sub_ids (filter (fun o => match o with OEmit _ => false | _ => true end) o) = sub_ids o).
    { induction o as [|x t IH]; [reflexivity|]. destruct x; unfold sub_ids in *; cbn; rewrite ?IH; reflexivity. }
    rewrite F. exact H1.
Qed.

(* an invariant relating the handler state to the ids subscribed so far lifts to runs *)
Lemma sub_ids_invariant (J : x_state m -> list nat -> Prop)
  (Hstep : forall s l now i, J s l ->
     J (fst (fst (x_step m s now i))) (l ++ csub_ids (snd (fst (x_step m s now i))))) :
  forall ins s r k acc, J s (sub_ids acc) ->
    J (fst (after m s r ins)) (sub_ids (acc ++ map snd (fst (run_from m s r k ins)))).
Proof.
  intros ins s r k acc H.
  apply (run_from_invariant m (fun s _ acc => J s (sub_ids acc))); [|exact H].
  clear - Hstep. intros s r acc now i H.
  destruct (rstep_sub_ids s r now i) as [E|[E1 E2]].
  - rewrite E. cbn [fst snd]. now rewrite app_nil_r.
  - rewrite E1, sub_ids_app, E2. apply Hstep. exact H.
Qed.
End SubIds.

(* ---- sorted lists --------------------------------------------------------------- *)
Lemma ssorted_snoc (l : list nat) c :
  StronglySorted lt l -> Forall (fun j => j <= c)%nat l -> StronglySorted lt (l ++ [S c]).
Proof.
  induction l as [|a t IH]; intros Hs Hf; cbn.
  - constructor; constructor.
  - apply StronglySorted_inv in Hs. destruct Hs as [Hs Ha]. inversion Hf as [|? ? Hac Hft]; subst.
    constructor; [apply IH; assumption|].
    apply Forall_app. split; [exact Ha|]. constructor; [lia|constructor].
Qed.

Lemma ssorted_app_l (a b : list nat) : StronglySorted lt (a ++ b) -> StronglySorted lt a.
Proof.
  induction a as [|x t IH]; intros H; [constructor|]. cbn in H.
  apply StronglySorted_inv in H. destruct H as [Hs Hx]. constructor; [apply IH; exact Hs|].
  apply Forall_app in Hx. apply Hx.
Qed.

(* ---- merge(max_concurrent) ------------------------------------------------------ *)
Section Order.
Context {A : Type}.

(* ids started so far, then the waiting queue: strictly increasing, all among the inners
   created so far; and an inner waits only while max_concurrent inners are active *)
Definition mc_order_inv (mc : nat) (s : nat * nat * list nat * bool) (started : list nat) : Prop :=
  let '(cnt, active, queue, _) := s in
  StronglySorted lt (started ++ queue) /\ Forall (fun j => j <= cnt)%nat (started ++ queue)
  /\ (queue <> [] -> (mc <= active)%nat).

Lemma mc_order_step mc mapper (s : nat * nat * list nat * bool) l now (i : inp A) :
  mc_order_inv mc s l ->
  mc_order_inv mc (fst (fst (x_step (x_merge_concurrent mc mapper) s now i)))
                  (l ++ csub_ids (snd (fst (x_step (x_merge_concurrent mc mapper) s now i)))).
Proof.
  destruct s as [[[cnt active] queue] stopped]. unfold mc_order_inv. intros (Hs & Hf & Hq).
  assert (Same : StronglySorted lt ((l ++ []) ++ queue) /\ Forall (fun j => j <= cnt)%nat ((l ++ []) ++ queue)
                   /\ (queue <> [] -> (mc <= active)%nat)).
  { rewrite app_nil_r. auto. }
  destruct i as [[|j] e|tag|]; cbn [x_merge_concurrent x_step].
  - destruct e as [x|err|].
    + destruct (mapper x cnt) as [[]|err]; [|cbn [fst snd csub_ids flat_map]; exact Same].
      destruct (Nat.ltb_spec active mc) as [Hlt|Hge]; cbn [fst snd csub_ids flat_map app].
      * assert (queue = []) as ->. { destruct queue; [reflexivity|]. assert (mc <= active)%nat by (apply Hq; discriminate). lia. }
        rewrite !app_nil_r in *. split; [apply ssorted_snoc; assumption|]. split; [|congruence].
        apply Forall_app. split; [|constructor; [lia|constructor]].
        eapply Forall_impl; [|exact Hf]. cbn. intros; lia.
      * rewrite app_nil_r, app_assoc. split; [apply ssorted_snoc; assumption|]. split; [|auto].
        apply Forall_app. split; [|constructor; [lia|constructor]].
        eapply Forall_impl; [|exact Hf]. cbn. intros; lia.
    + cbn [fst snd csub_ids flat_map]. exact Same.
    + cbn [fst snd csub_ids flat_map]. exact Same.
  - destruct e as [x|err|].
    + cbn [fst snd csub_ids flat_map app]. exact Same.
    + cbn [fst snd csub_ids flat_map]. exact Same.
    + destruct queue as [|q qs]; cbn [fst snd csub_ids flat_map app].
      * rewrite !app_nil_r in *. split; [exact Hs|]. split; [exact Hf|congruence].
      * rewrite <- app_assoc. cbn [app]. split; [exact Hs|]. split; [exact Hf|].
        intros _. apply Hq. discriminate.
  - cbn [fst snd csub_ids flat_map]. exact Same.
  - cbn [fst snd csub_ids flat_map]. exact Same.
Qed.

(* the invariant after EVERY input sequence, with the final queue *)
Lemma merge_concurrent_order_inv mc mapper (ins : list (Z * inp A)) :
  let m := x_merge_concurrent mc mapper in
  mc_order_inv mc (fst (after m (fst (start_state m)) (snd (start_state m)) ins))
                  (sub_ids (map snd (fst (run m ins)))).
Proof.
  intros m. rewrite run_unfold. cbn [fst]. rewrite map_app, map_map. cbn [snd]. rewrite map_id.
  apply (sub_ids_invariant m (mc_order_inv mc)).
  - intros s l now i. apply mc_order_step.
  - unfold start_state, start_obs, m, mc_order_inv. cbn.
    split; [constructor; constructor|]. split; [constructor; [lia|constructor]|congruence].
Qed.

(* QUEUED INNERS START IN ARRIVAL ORDER: in EVERY run, the inner subscriptions are opened
   with strictly increasing ids (the first OSub is the outer, id 0) *)
Theorem merge_concurrent_starts_in_arrival_order mc mapper (ins : list (Z * inp A)) :
  StronglySorted lt (sub_ids (map snd (fst (run (x_merge_concurrent mc mapper) ins)))).
Proof.
  pose proof (merge_concurrent_order_inv mc mapper ins) as H. cbn zeta in H. unfold mc_order_inv in H.
  destruct (fst (after _ _ _ ins)) as [[[c a] q] st]. destruct H as [H _].
  eapply ssorted_app_l. exact H.
Qed.

(* ... and whatever still waits is newer than everything started, itself in arrival order *)
Theorem merge_concurrent_queue_after_started mc mapper (ins : list (Z * inp A)) :
  let m := x_merge_concurrent mc mapper in
  let queue := snd (fst (fst (after m (fst (start_state m)) (snd (start_state m)) ins))) in
  StronglySorted lt (sub_ids (map snd (fst (run m ins))) ++ queue).
Proof.
  intros m queue. subst queue.
  pose proof (merge_concurrent_order_inv mc mapper ins) as H. cbn zeta in H. unfold mc_order_inv in H. fold m in H.
  destruct (fst (after m _ _ ins)) as [[[c a] q] st]. destruct H as [H _]. exact H.
Qed.
End Order.
