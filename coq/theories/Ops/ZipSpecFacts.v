(* C13: zip under the RUNNER against an abstract specification over the FULL input
   alphabet (elements, completions, errors, timer ticks, dispose), for every number of
   sources and EVERY input sequence.  The specification keeps, per source, the whole
   HISTORY of the elements it delivered, the completed flags, and the number c of tuples
   emitted so far: tuple c is made of the c-th elements of the histories -- emitted at the
   first moment every history is longer than c -- and the output completes at the first
   moment a completed source has no element beyond the tuples emitted. *)
From RxVerif Require Import Base.Prelude Ops.Machine Ops.MachineFacts Ops.Multi Ops.MultiFacts
  Ops.RunLemmas Ops.Combinators Ops.MergeFacts Ops.FlatMapFacts Ops.CombineFacts Ops.ZipRunFacts.

Local Arguments Nat.ltb : simpl never.
Local Arguments Nat.leb : simpl never.

Section ZipSpec.
Context {A : Type}.

Fixpoint zip_spec (n : nat) (hists : list (list A)) (done : list bool) (c : nat) (pos : nat)
  (ins : list (Z * inp A)) : list (nat * ev (list A)) :=
  match ins with
  | [] => []
  | (_, ISrc k e) :: t =>
      (* a source that has completed (or is not one of the n) delivers nothing *)
      if Nat.ltb k n && negb (nth k done true) then
        match e with
        | Next x =>
            let hists1 := nth_set k (nth k hists [] ++ [x]) hists in
            if forallb (fun h => Nat.ltb c (length h)) hists1 then
              (pos, Next (map (fun h => nth c h x) hists1)) ::
              (if existsb (fun hd : list A * bool => Nat.leb (length (fst hd)) (S c) && snd hd)
                          (combine hists1 done)
               then [(pos, Done)]
               else zip_spec n hists1 done (S c) (S pos) t)
            else zip_spec n hists1 done c (S pos) t
        | Err er => [(pos, Err er)]
        | Done => if Nat.leb (length (nth k hists [])) c then [(pos, Done)]
                  else zip_spec n hists (nth_set k true done) c (S pos) t
        end
      else zip_spec n hists done c (S pos) t
  | (_, ITick _) :: t => zip_spec n hists done c (S pos) t
  | (_, IDispose) :: _ => []
  end.

(* ---- list helpers ------------------------------------------------------------ *)
Lemma map_nth_set {X Y} (f : X -> Y) k v l : map f (nth_set k v l) = nth_set k (f v) (map f l).
Proof.
  unfold nth_set. rewrite map_app, firstn_map, skipn_map. f_equal.
  destruct (skipn k l); reflexivity.
Qed.

Lemma hd_skipn (c : nat) : forall (h : list A) x,
  match skipn c h with [] => x | v :: _ => v end = nth c h x.
Proof. induction c as [|c IH]; intros [|a t] x; cbn; try reflexivity. apply IH. Qed.

Lemma tl_skipn (c : nat) : forall (h : list A), tl (skipn c h) = skipn (S c) h.
Proof.
  induction c as [|c IH]; intros [|a t]; try reflexivity.
  change (skipn (S c) (a :: t)) with (skipn c t). change (skipn (S (S c)) (a :: t)) with (skipn (S c) t).
  apply IH.
Qed.

Lemma all_nonempty_skipn c (l : list (list A)) :
  all_nonempty (map (skipn c) l) = forallb (fun h => Nat.ltb c (length h)) l.
Proof.
  unfold all_nonempty. induction l as [|h t IH]; [reflexivity|].
  cbn [map forallb]. rewrite IH. f_equal. rewrite skipn_length.
  destruct (Nat.ltb_spec c (length h)), (Nat.eqb_spec (length h - c) 0); cbn; try reflexivity; lia.
Qed.

Lemma existsb_skipn_done c (l : list (list A)) : forall done,
  existsb (fun qd : list A * bool => Nat.eqb (length (fst qd)) 0 && snd qd) (combine (map (skipn c) l) done)
  = existsb (fun hd : list A * bool => Nat.leb (length (fst hd)) c && snd hd) (combine l done).
Proof.
  induction l as [|h t IH]; intros [|d ds]; try reflexivity.
  cbn [map combine existsb fst snd]. rewrite IH. f_equal. f_equal. rewrite skipn_length.
  destruct (Nat.leb_spec (length h) c), (Nat.eqb_spec (length h - c) 0); try reflexivity; lia.
Qed.

Lemma Forall_nth_set {X} (P : X -> Prop) k v l : Forall P l -> P v -> Forall P (nth_set k v l).
Proof.
  intros Hl Hv. unfold nth_set. apply Forall_app. split.
  - apply Forall_forall. intros y Hy. rewrite Forall_forall in Hl. apply Hl.
    rewrite <- (firstn_skipn k l). apply in_or_app. now left.
  - destruct (skipn k l) as [|y t] eqn:E; [constructor|].
    constructor; [exact Hv|]. apply Forall_forall. intros z Hz. rewrite Forall_forall in Hl. apply Hl.
    rewrite <- (firstn_skipn k l), E. apply in_or_app. right. now right.
Qed.

Lemma mem_remove_nodup j k l : NoDup l -> mem j (remove k l) = negb (Nat.eqb j k) && mem j l.
Proof.
  intros Hnd. destruct (Nat.eqb_spec j k) as [->|Hne]; cbn [negb andb].
  - now apply mem_removed.
  - destruct (mem j l) eqn:E.
    + destruct (mem j (remove k l)) eqn:E2; [reflexivity|].
      apply mem_false_notin in E2. exfalso. apply E2. apply in_remove_other; [congruence|].
      unfold mem in E. apply existsb_exists in E. destruct E as [y [Hy Ey]].
      apply Nat.eqb_eq in Ey. now subst.
    + apply notin_mem_false. intros H. apply remove_in in H. apply mem_false_notin in E. contradiction.
Qed.

(* ---- the handler in terms of histories ----------------------------------------- *)
Lemma zip_step_next n c (hists : list (list A)) done now k x :
  (k < length hists)%nat -> Forall (fun h => (c <= length h)%nat) hists ->
  x_step (x_zip n) (map (skipn c) hists, done) now (ISrc k (Next x))
  = let hists1 := nth_set k (nth k hists [] ++ [x]) hists in
    if forallb (fun h => Nat.ltb c (length h)) hists1
    then ((map (skipn (S c)) hists1, done), [CEmit (map (fun h => nth c h x) hists1)],
          if existsb (fun hd : list A * bool => Nat.leb (length (fst hd)) (S c) && snd hd) (combine hists1 done)
          then Complete else Cont)
    else ((map (skipn c) hists1, done), [], Cont).
Proof.
  intros Hk Hall. cbn [x_zip x_step].
  assert (E : nth_set k (nth k (map (skipn c) hists) [] ++ [x]) (map (skipn c) hists)
              = map (skipn c) (nth_set k (nth k hists [] ++ [x]) hists)).
  { rewrite map_nth_set. f_equal.
    rewrite <- (@skipn_nil A c) at 1. rewrite (map_nth (skipn c) hists [] k).
    rewrite skipn_app.
    assert (Hc : (c <= length (nth k hists []))%nat).
    { rewrite Forall_forall in Hall. apply Hall. now apply nth_In. }
    replace (c - length (nth k hists []))%nat with 0%nat by lia. reflexivity. }
  rewrite E, all_nonempty_skipn. cbv zeta.
  destruct (forallb (fun h => Nat.ltb c (length h)) (nth_set k (nth k hists [] ++ [x]) hists)); [|reflexivity].
  rewrite !map_map.
  rewrite (map_ext (fun h => tl (skipn c h)) (skipn (S c)) (tl_skipn c)).
  rewrite (map_ext (fun h => match skipn c h with [] => x | v :: _ => v end) (fun h => nth c h x)
             (fun h => hd_skipn c h x)).
  rewrite existsb_skipn_done. reflexivity.
Qed.

Lemma zip_step_done n c (hists : list (list A)) done now k :
  x_step (x_zip n) (map (skipn c) hists, done) now (ISrc k Done)
  = ((map (skipn c) hists, nth_set k true done), [],
     if Nat.leb (length (nth k hists [])) c then Complete else Cont).
Proof.
  cbn [x_zip x_step]. f_equal.
  rewrite <- (@skipn_nil A c) at 1. rewrite (map_nth (skipn c) hists [] k), skipn_length.
  destruct (Nat.leb_spec (length (nth k hists [])) c), (Nat.eqb_spec (length (nth k hists []) - c) 0);
    try reflexivity; lia.
Qed.

(* ---- the refinement ------------------------------------------------------------ *)
(* live subscriptions = the sources that have not completed *)
Definition zip_rel (n : nat) (hists : list (list A)) (done : list bool) (c : nat) (live : list nat) : Prop :=
  length hists = n /\ length done = n /\ Forall (fun h => (c <= length h)%nat) hists
  /\ NoDup live /\ forall j, mem j live = Nat.ltb j n && negb (nth j done true).

Local Arguments mem : simpl never.
Local Arguments remove : simpl never.
Local Arguments sort_nat : simpl never.

Lemma zip_from n (ins : list (Z * inp A)) : forall hists done c live pos,
  zip_rel n hists done c live ->
  temitted (fst (run_from (x_zip n) (map (skipn c) hists, done) (RState live [] false) pos ins))
  = zip_spec n hists done c pos ins.
Proof.
  induction ins as [|[now i] rest IH]; intros hists done c live pos HR; [reflexivity|].
  destruct HR as (Hlh & Hld & Hall & Hnd & Hlive).
  rewrite temitted_run_cons. cbn [zip_spec].
  destruct i as [k e|tag|].
  - rewrite <- (Hlive k). destruct (mem k live) eqn:Hmem.
    + assert (Hk : (k < n)%nat).
      { rewrite Hlive in Hmem. apply andb_true_iff in Hmem. destruct Hmem as [H _]. now apply Nat.ltb_lt in H. }
      destruct e as [x|err|].
      * (* element *)
        assert (Hkl : (k < length hists)%nat) by lia.
        pose proof (zip_step_next n c hists done now k x Hkl Hall) as Hx. cbv zeta in Hx.
        set (hists1 := nth_set k (nth k hists [] ++ [x]) hists) in *.
        assert (Hlh1 : length hists1 = n) by (subst hists1; rewrite nth_set_length; lia).
        assert (Hall1 : Forall (fun h => (c <= length h)%nat) hists1).
        { subst hists1. apply Forall_nth_set; [exact Hall|]. rewrite app_length.
          assert (Hc : (c <= length (nth k hists []))%nat).
          { rewrite Forall_forall in Hall. apply Hall. now apply nth_In. }
          lia. }
        destruct (forallb (fun h => Nat.ltb c (length h)) hists1) eqn:Hfull.
        -- destruct (existsb (fun hd : list A * bool => Nat.leb (length (fst hd)) (S c) && snd hd)
                             (combine hists1 done)) eqn:Hex.
           ++ destruct (rstep_fin (x_zip n) (map (skipn c) hists, done) (RState live [] false) now
                                  (ISrc k (Next x)) pos) as [E1 E2];
                [reflexivity|exact Hmem|rewrite Hx; discriminate|].
              rewrite E1, (run_from_stopped _ _ _ _ _ E2), Hx. reflexivity.
           ++ assert (E : rstep (x_zip n) (map (skipn c) hists, done) (RState live [] false) now (ISrc k (Next x))
                          = ((map (skipn (S c)) hists1, done), RState live [] false,
                             [OEmit (Next (map (fun h => nth c h x) hists1))])).
              { unfold rstep. cbn [r_stopped r_live]. rewrite Hmem, Hx. reflexivity. }
              rewrite E. cbn [fst snd map]. rewrite temitted_cons_emit.
              change (temitted (@nil (nat * obs (list A)))) with (@nil (nat * ev (list A))). cbn [app]. f_equal.
              apply IH. repeat split; try assumption.
              apply Forall_forall. intros h Hh. rewrite forallb_forall in Hfull.
              specialize (Hfull h Hh). apply Nat.ltb_lt in Hfull. lia.
        -- assert (E : rstep (x_zip n) (map (skipn c) hists, done) (RState live [] false) now (ISrc k (Next x))
                        = ((map (skipn c) hists1, done), RState live [] false, [])).
           { unfold rstep. cbn [r_stopped r_live]. rewrite Hmem, Hx. reflexivity. }
           rewrite E. cbn [fst snd map app].
           change (temitted (@nil (nat * obs (list A)))) with (@nil (nat * ev (list A))). cbn [app].
           apply IH. repeat split; assumption.
      * (* error *)
        destruct (rstep_fin (x_zip n) (map (skipn c) hists, done) (RState live [] false) now
                            (ISrc k (Err err)) pos) as [E1 E2];
          [reflexivity|exact Hmem|discriminate|].
        rewrite E1, (run_from_stopped _ _ _ _ _ E2). reflexivity.
      * (* completion of source k *)
        pose proof (zip_step_done n c hists done now k) as Hx.
        destruct (Nat.leb (length (nth k hists [])) c) eqn:Hemp.
        -- destruct (rstep_fin (x_zip n) (map (skipn c) hists, done) (RState live [] false) now
                               (ISrc k Done) pos) as [E1 E2];
             [reflexivity|exact Hmem|rewrite Hx; discriminate|].
           rewrite E1, (run_from_stopped _ _ _ _ _ E2), Hx. reflexivity.
        -- assert (E : rstep (x_zip n) (map (skipn c) hists, done) (RState live [] false) now (ISrc k Done)
                        = ((map (skipn c) hists, nth_set k true done), RState (remove k live) [] false, [OUnsub k])).
           { unfold rstep. cbn [r_stopped r_live]. rewrite Hmem, Hx.
             cbn [apply_cmds is_terminal andb r_live r_timers r_stopped]. rewrite Hmem. reflexivity. }
           rewrite E. cbn [fst snd map]. rewrite temitted_cons_unsub.
           change (temitted (@nil (nat * obs (list A)))) with (@nil (nat * ev (list A))). cbn [app].
           apply IH. repeat split; try assumption.
           ++ rewrite nth_set_length; lia.
           ++ apply remove_nodup. exact Hnd.
           ++ intros j. rewrite (mem_remove_nodup j k live Hnd), Hlive.
              destruct (Nat.eqb_spec j k) as [->|Hne]; cbn [negb andb].
              ** rewrite nth_nth_set_same by lia. cbn. now rewrite andb_false_r.
              ** rewrite nth_nth_set_other by exact Hne. reflexivity.
    + assert (E : rstep (x_zip n) (map (skipn c) hists, done) (RState live [] false) now (ISrc k e)
                  = ((map (skipn c) hists, done), RState live [] false, [])).
      { unfold rstep. cbn [r_stopped r_live]. now rewrite Hmem. }
      rewrite E. cbn [fst snd map app].
      change (temitted (@nil (nat * obs (list A)))) with (@nil (nat * ev (list A))). cbn [app].
      apply IH. repeat split; assumption.
  - assert (E : rstep (x_zip n) (map (skipn c) hists, done) (RState live [] false) now (ITick tag)
                = ((map (skipn c) hists, done), RState live [] false, [])) by reflexivity.
    rewrite E. cbn [fst snd map app].
    change (temitted (@nil (nat * obs (list A)))) with (@nil (nat * ev (list A))). cbn [app].
    apply IH. repeat split; assumption.
  - unfold rstep. cbn [r_stopped x_zip x_step apply_cmds fst snd].
    rewrite run_from_stopped by reflexivity. cbn [fst]. rewrite app_nil_r.
    cbn [filter app]. apply release_temitted.
Qed.

Lemma nth_repeat_false j n : nth j (repeat false n) true = negb (Nat.ltb j n).
Proof.
  destruct (Nat.ltb_spec j n) as [H|H]; cbn [negb].
  - rewrite (nth_indep _ true false) by (rewrite repeat_length; exact H). apply nth_repeat.
  - apply nth_overflow. rewrite repeat_length. exact H.
Qed.

(* REFINEMENT: for every number of sources and EVERY input sequence (elements, completions,
   errors, ticks, dispose -- also from sources that already completed or do not exist) *)
Theorem zip_refines_spec n (ins : list (Z * inp A)) :
  temitted (fst (run (x_zip n) ins)) = zip_spec n (repeat [] n) (repeat false n) 0 1 ins.
Proof.
  rewrite run_unfold. cbn [fst]. rewrite temitted_app'.
  unfold start_state, start_obs. cbn [x_zip x_start].
  rewrite apply_cmds_sub_only. cbn [fst snd finish app r_live r_timers r_stopped].
  assert (T : temitted (map (fun x => (0%nat, x)) (map (@OSub (list A)) (seq 0 n) ++ [])) = []).
  { rewrite app_nil_r. generalize (seq 0 n). induction l; [reflexivity|exact IHl]. }
  rewrite T. cbn [app].
  assert (E0 : repeat (@nil A) n = map (skipn 0) (repeat (@nil A) n)) by (now rewrite map_id).
  rewrite E0 at 1. apply zip_from.
  repeat split.
  - apply repeat_length.
  - apply repeat_length.
  - apply Forall_forall. intros h _. lia.
  - apply seq_NoDup.
  - intros j. rewrite nth_repeat_false, negb_involutive, andb_diag.
    destruct (Nat.ltb_spec j n) as [H|H].
    + now apply mem_seq0.
    + apply notin_mem_false. intros Hin. apply in_seq in Hin. lia.
Qed.
End ZipSpec.
