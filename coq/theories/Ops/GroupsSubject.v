(* C19: the subject_mapper argument of group_by / group_by_until (4th argument of
   group_by_until, 3rd of group_by), operators/_groupbyuntil.py on_next:

       writer = writers.get(key)
       if not writer:
           try:    writer = subject_mapper_()
           except Exception as e:
               for wrt in list(writers.values()): wrt.on_error(e)
               observer.on_error(e); return
           writers[key] = writer; fire_new_map_entry = True

   The factory is consulted exactly when the key has no live writer, right BEFORE the
   duration mapper; a raising factory errors every open group and the outer, and no
   group is created (the writers table and the counters are left alone).  Whatever
   subject a non-raising factory returns plays the role of the default Subject().
   [subj j] = outcome of the j-th call of the factory.  A raising factory ends
   everything (all groups and the outer are errored, the runner releases), so while
   the operator still receives input the number of earlier factory calls equals the
   number of earlier duration-mapper calls [gb_calls]. *)
From RxVerif Require Import Base.Prelude Ops.Machine Ops.MultiWin Ops.MultiWinFacts Ops.Groups Ops.GroupFacts
  Ops.WindowCountFacts Ops.GroupRunFacts.

Section GroupsSubject.
Context {A W B : Type}.
Variables (key : A -> res Z) (elem : A -> res W) (dur : nat -> res bool) (subj : nat -> res unit).

(* the key of x has no live writer *)
Definition gb_miss (s : gb_st) (x : A) : bool :=
  match key x with
  | Ok k => match gb_lookup k (gb_writers s) with None => true | Some _ => false end
  | Raise _ => false
  end.

Definition gbs_step (s : gb_st) (now : Z) (i : inp A) : gb_st * list (cmd W B) * fin :=
  match i with
  | ISrc O (Next x) =>
      if gb_miss s x then
        match subj (gb_calls s) with
        | Raise e => (s, gb_all (gb_writers s) (Err e), Fail e)
        | Ok _ => x_step (x_group_by_until (B:=B) key elem dur) s now i
        end
      else x_step (x_group_by_until (B:=B) key elem dur) s now i
  | _ => x_step (x_group_by_until (B:=B) key elem dur) s now i
  end.

Definition x_group_by_until_sm : machine A W B :=
  Machine (GbSt [] 0 0, [CSub 0%nat], Cont) gbs_step.
End GroupsSubject.

Section GroupsSubjectFacts.
Context {A W B : Type}.
Variables (key : A -> res Z) (elem : A -> res W) (dur : nat -> res bool) (subj : nat -> res unit).
Notation M := (x_group_by_until (B:=B) key elem dur).
Notation MS := (x_group_by_until_sm (B:=B) key elem dur subj).

(* the key has a live writer: the factory is not consulted at all *)
Theorem group_sm_existing s now (x : A) k g :
  key x = Ok k -> gb_lookup k (gb_writers s) = Some g ->
  x_step MS s now (ISrc 0%nat (Next x)) = x_step M s now (ISrc 0%nat (Next x)).
Proof. intros Hk Hl. cbn [x_step x_group_by_until_sm]. unfold gbs_step, gb_miss. now rewrite Hk, Hl. Qed.

(* the key has no live writer and the factory raises: every open group and the outer get the
   error; no group is handed, nothing is subscribed, the state is unchanged *)
Theorem group_sm_raises s now (x : A) k e :
  key x = Ok k -> gb_lookup k (gb_writers s) = None -> subj (gb_calls s) = Raise e ->
  x_step MS s now (ISrc 0%nat (Next x)) = (s, gb_all (gb_writers s) (Err e), Fail e).
Proof. intros Hk Hl Hs. cbn [x_step x_group_by_until_sm]. unfold gbs_step, gb_miss. now rewrite Hk, Hl, Hs. Qed.

Theorem group_sm_raises_no_hand s now (x : A) k e :
  key x = Ok k -> gb_lookup k (gb_writers s) = None -> subj (gb_calls s) = Raise e ->
  ghands (snd (fst (x_step MS s now (ISrc 0%nat (Next x))))) = []
  /\ gwin_nexts (snd (fst (x_step MS s now (ISrc 0%nat (Next x))))) = [].
Proof.
  intros Hk Hl Hs. rewrite (group_sm_raises s now x k e Hk Hl Hs). cbn [fst snd]. unfold gb_all.
  split; induction (gb_groups (gb_writers s)); auto.
Qed.

(* the key has no live writer and the factory returns a subject: the step of the default factory *)
Theorem group_sm_new s now (x : A) u :
  subj (gb_calls s) = Ok u ->
  x_step MS s now (ISrc 0%nat (Next x)) = x_step M s now (ISrc 0%nat (Next x)).
Proof.
  intros Hs. cbn [x_step x_group_by_until_sm]. unfold gbs_step. rewrite Hs. destruct (gb_miss key s x); reflexivity.
Qed.

(* every other input: the factory plays no role *)
Theorem group_sm_other s now (i : inp A) :
  (forall x, i <> ISrc 0%nat (Next x)) -> x_step MS s now i = x_step M s now i.
Proof.
  intros H. cbn [x_step x_group_by_until_sm]. unfold gbs_step.
  destruct i as [[|d] [x|z|]|tag| | |]; try reflexivity. exfalso. apply (H x). reflexivity.
Qed.

(* a factory that never raises: the machine IS the machine of the default factory, step by step *)
Theorem group_sm_total_step : (forall j, exists u, subj j = Ok u) ->
  forall s now i, x_step MS s now i = x_step M s now i.
Proof.
  intros Ht s now i. destruct i as [[|d] [x|z|]|tag| | |]; try reflexivity.
  destruct (Ht (gb_calls s)) as [u Hu]. exact (group_sm_new s now x u Hu).
Qed.

Lemma group_sm_total_run_from (imm : nat -> bool) : (forall j, exists u, subj j = Ok u) ->
  forall ins s r k, run_from imm MS s r k ins = run_from imm M s r k ins.
Proof.
  intros Ht. induction ins as [|[now i] rest IH]; intros s r k; [reflexivity|].
  cbn [run_from].
  assert (E : rstep imm MS s r now i = rstep imm M s r now i).
  { unfold rstep, deliver. rewrite !(group_sm_total_step Ht). reflexivity. }
  rewrite E. destruct (rstep imm M s r now i) as [[s' r'] o]. rewrite IH. reflexivity.
Qed.

(* ... hence every run-level statement about the default factory holds for any non-raising one *)
Theorem group_sm_total_run (imm : nat -> bool) : (forall j, exists u, subj j = Ok u) ->
  forall ins, run imm MS ins = run imm M ins.
Proof.
  intros Ht ins. unfold run.
  change (start_state imm MS) with (start_state imm M). change (start_obs imm MS) with (start_obs imm M).
  rewrite (group_sm_total_run_from imm Ht). reflexivity.
Qed.

(* the writers-table invariant (keys unique, ids fresh) survives *)
Theorem gbs_inv_step s now i : gb_inv s -> gb_inv (fst (fst (x_step MS s now i))).
Proof.
  intros Hinv. cbn [x_step x_group_by_until_sm]. unfold gbs_step.
  destruct i as [[|d] [x|z|]|tag| | |]; try exact (gb_inv_step key elem dur s now _ Hinv).
  destruct (gb_miss key s x); [|exact (gb_inv_step key elem dur s now _ Hinv)].
  destruct (subj (gb_calls s)); [exact (gb_inv_step key elem dur s now _ Hinv)|exact Hinv].
Qed.

Theorem group_sm_never_unsubs_source : never_unsubs MS 0%nat.
Proof.
  intros s now i. cbn [x_step x_group_by_until_sm]. unfold gbs_step.
  pose proof (group_never_unsubs_source key elem dur (B:=B) s now i) as H0.
  destruct i as [[|d] [x|z|]|tag| | |]; try exact H0.
  destruct (gb_miss key s x); [|exact H0].
  destruct (subj (gb_calls s)); [exact H0|].
  cbn [fst snd]. unfold gb_all. induction (gb_groups (gb_writers s)); auto.
Qed.
End GroupsSubjectFacts.

(* group_by(key, element, subject_mapper) with total callbacks and a non-raising factory: the
   dict-of-lists closed form of Ops/GroupRunFacts.v *)
Section GroupBySubjectClosed.
Context {A W B : Type}.
Variables (kf : A -> Z) (ef : A -> W) (subj : nat -> res unit).

Theorem group_by_sm_closed_form : (forall j, exists u, subj j = Ok u) ->
  forall (xs : list A) (tm : term) (j : nat),
  wevents j (fst (run all_imm (x_group_by_until_sm (B:=B) (fun x => Ok (kf x)) (fun x => Ok (ef x))
                                  (fun _ => Ok false) subj) (src_events xs tm)))
  = match nth_error (distinct_keys kf xs) j with
    | Some k => map Next (map ef (filter (fun y => kf y =? k) xs)) ++ term_ev tm
    | None => []
    end.
Proof.
  intros Ht xs tm j. rewrite (group_sm_total_run _ _ _ subj all_imm Ht).
  exact (group_by_closed_form (B:=B) kf ef xs tm j).
Qed.
End GroupBySubjectClosed.
