(* C09: an exception raised by a user callback becomes on_error(e) for the
   subscriber, at that instant, and the subscription ends there. *)
From RxVerif Require Import Base.Prelude Ops.Machine Ops.MachineFacts Ops.Elementwise Ops.Aggregates.

(* elements processed before the first raise, and the raise (tag, exception) *)
Fixpoint until_raise {A B} (f : A -> res B) (k : nat) (xs : list A) : list (nat * B) * option (nat * Z) :=
  match xs with
  | [] => ([], None)
  | x :: r => match f x with
              | Ok b => let '(o, e) := until_raise f (S k) r in ((k, b) :: o, e)
              | Raise e => ([], Some (k, e))
              end
  end.

Definition close {B} (n : nat) (t : term) (e : option (nat * Z)) : list (nat * ev B) :=
  match e with Some (k, x) => [(k, Err x)] | None => tterm n t end.

Section Closed.
Context {A B : Type}.

Lemma map_raise_from (f : A -> res B) xs t s k :
  exec_from (op_map f) s k (events xs t)
  = nexts (fst (until_raise f k xs)) ++ close (k + length xs) t (snd (until_raise f k xs)).
Proof.
  revert k; induction xs as [|x r IH]; intros k.
  - destruct t; cbn; rewrite ?Nat.add_0_r; reflexivity.
  - rewrite events_cons, exec_from_cons. cbn -[exec_from]. destruct (f x) as [b|e]; cbn -[exec_from].
    + rewrite IH. destruct (until_raise f (S k) r) as [o e']. cbn [fst snd].
      rewrite <- plus_n_Sm. reflexivity.
    + reflexivity.
Qed.

(* map with an ARBITRARY (possibly raising) mapper *)
Theorem map_raise_spec (f : A -> res B) xs t :
  exec (op_map f) (events xs t)
  = nexts (fst (until_raise f 1 xs)) ++ close (S (length xs)) t (snd (until_raise f 1 xs)).
Proof. unfold exec. cbn -[exec_from]. apply map_raise_from. Qed.
End Closed.

Section ClosedA.
Context {A : Type}.

Definition keep (p : A -> res bool) (x : A) : res (option A) :=
  match p x with Ok true => Ok (Some x) | Ok false => Ok None | Raise e => Raise e end.

Fixpoint somes {X} (l : list (nat * option X)) : list (nat * X) :=
  match l with
  | [] => []
  | (k, Some x) :: t => (k, x) :: somes t
  | (_, None) :: t => somes t
  end.

Lemma filter_raise_from (p : A -> res bool) xs t s k :
  exec_from (op_filter p) s k (events xs t)
  = nexts (somes (fst (until_raise (keep p) k xs)))
    ++ close (k + length xs) t (snd (until_raise (keep p) k xs)).
Proof.
  revert k; induction xs as [|x r IH]; intros k.
  - destruct t; cbn; rewrite ?Nat.add_0_r; reflexivity.
  - rewrite events_cons, exec_from_cons. cbn -[exec_from]. unfold keep at 1 3.
    destruct (p x) as [[|]|e]; cbn -[exec_from].
    + rewrite IH. destruct (until_raise (keep p) (S k) r) as [o e']. cbn [fst snd somes].
      rewrite <- plus_n_Sm. reflexivity.
    + rewrite IH. destruct (until_raise (keep p) (S k) r) as [o e']. cbn [fst snd somes].
      rewrite <- plus_n_Sm. reflexivity.
    + reflexivity.
Qed.

Theorem filter_raise_spec (p : A -> res bool) xs t :
  exec (op_filter p) (events xs t)
  = nexts (somes (fst (until_raise (keep p) 1 xs)))
    ++ close (S (length xs)) t (snd (until_raise (keep p) 1 xs)).
Proof. unfold exec. cbn -[exec_from]. apply filter_raise_from. Qed.
End ClosedA.

(* ---- step level: in EVERY callback operator a raising callback yields Fail e
   (= observer.on_error(e)), emits nothing else, and exec stops there -------- *)
Section Steps.
Context {A B K : Type}.

Lemma fail_stops (m : mealy A B) s k x rest s' outs e :
  m_next m s x = (s', outs, Fail e) ->
  exec_from m s k (Next x :: rest) = map (fun b => (k, Next b)) outs ++ [(k, Err e)].
Proof. intros H. cbn [exec_from]. rewrite H. cbn. now rewrite app_nil_r. Qed.

Lemma raise_map (f : A -> res B) s x e : f x = Raise e -> m_next (op_map f) s x = (s, [], Fail e).
Proof. intros H. cbn. now rewrite H. Qed.
Lemma raise_map_indexed (f : A -> nat -> res B) i x e :
  f x i = Raise e -> m_next (op_map_indexed f) i x = (i, [], Fail e).
Proof. intros H. cbn. now rewrite H. Qed.
Lemma raise_filter (p : A -> res bool) s x e : p x = Raise e -> m_next (op_filter p) s x = (s, [], Fail e).
Proof. intros H. cbn. now rewrite H. Qed.
Lemma raise_filter_indexed (p : A -> nat -> res bool) i x e :
  p x i = Raise e -> m_next (op_filter_indexed p) i x = (i, [], Fail e).
Proof. intros H. cbn. now rewrite H. Qed.
Lemma raise_take_while (p : A -> res bool) inc x e :
  p x = Raise e -> m_next (op_take_while p inc) true x = (true, [], Fail e).
Proof. intros H. cbn. now rewrite H. Qed.
Lemma raise_take_while_indexed (p : A -> nat -> res bool) inc i x e :
  p x i = Raise e -> m_next (op_take_while_indexed p inc) (true, i) x = ((true, i), [], Fail e).
Proof. intros H. cbn. now rewrite H. Qed.
Lemma raise_skip_while (p : A -> res bool) x e :
  p x = Raise e -> m_next (op_skip_while p) false x = (false, [], Fail e).
Proof. intros H. cbn. now rewrite H. Qed.
Lemma raise_distinct_key (key : A -> res K) cmp set x e :
  key x = Raise e -> m_next (op_distinct key cmp) set x = (set, [], Fail e).
Proof. intros H. cbn. now rewrite H. Qed.
Lemma raise_distinct_cmp (key : A -> res K) cmp set x k e :
  key x = Ok k -> hs_find cmp set k = Raise e -> m_next (op_distinct key cmp) set x = (set, [], Fail e).
Proof. intros H1 H2. cbn. now rewrite H1, H2. Qed.
Lemma raise_duc_key (key : A -> res K) cmp cur x e :
  key x = Raise e -> m_next (op_distinct_until_changed key cmp) cur x = (cur, [], Fail e).
Proof. intros H. cbn. now rewrite H. Qed.
Lemma raise_duc_cmp (key : A -> res K) cmp c x k e :
  key x = Ok k -> cmp c k = Raise e ->
  m_next (op_distinct_until_changed key cmp) (Some c) x = (Some c, [], Fail e).
Proof. intros H1 H2. cbn. now rewrite H1, H2. Qed.
Lemma raise_find (p : A -> nat -> res bool) yi i x e :
  p x i = Raise e -> m_next (op_find p yi) i x = (i, [], Fail e).
Proof. intros H. cbn. now rewrite H. Qed.
Lemma raise_scan_seed (f : B -> A -> res B) seed acc x e :
  f (match acc with Some a => a | None => seed end) x = Raise e ->
  m_next (op_scan_seed f seed) acc x = (acc, [], Fail e).
Proof. intros H. cbn. now rewrite H. Qed.
Lemma raise_extrema_key (key : A -> res K) cmp st x e :
  key x = Raise e -> m_next (op_extrema_by key cmp) st x = (st, [], Fail e).
Proof. intros H. destruct st. cbn. now rewrite H. Qed.
Lemma raise_to_dict_key {V} keq (key : A -> res K) (el : A -> res V) d x e :
  key x = Raise e -> m_next (op_to_dict keq key el) d x = (d, [], Fail e).
Proof. intros H. cbn. now rewrite H. Qed.
End Steps.
