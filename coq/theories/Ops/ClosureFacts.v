(* C04 / C44 -- proofs about the closure-level model Ops/Closure.v.

   C44_generic   no code writes a factory-level cell  ->  for EVERY history (any number of
                 applications, subscriptions, handler runs, any interleaving) one shared operator
                 value produces the trace that fresh operator values per application produce.
   C04_generic   ... nor an application-level cell  ->  in EVERY history every subscription emits
                 exactly what it would emit alone (fresh operator, fresh application, the inputs it
                 received), whatever the other subscriptions and applications did.
   Both by induction on the interleaved history (simulation / invariant).
   cells_* / rows_*  the bridge from the rows of a table (allocation level, deepest write level) to
                 the frame hypotheses, for programs whose cells are the rows.
   *_refuted     a cell one level too high makes a distinguishing history exist. *)
From Coq Require Import List String ZArith Bool Arith Lia.
From RxVerif Require Import Ops.Closure.
Import ListNotations.

(* ---- lists ------------------------------------------------------------------------- *)
Lemma upd_length : forall (X : Type) (l : list X) k x, List.length (upd l k x) = List.length l.
Proof. induction l; destruct k; simpl; intros; auto. Qed.

Lemma nth_error_upd_eq : forall (X : Type) (l : list X) k x,
  k < List.length l -> nth_error (upd l k x) k = Some x.
Proof.
  induction l; destruct k; simpl; intros; try lia; auto. apply IHl. lia.
Qed.

Lemma nth_error_upd_neq : forall (X : Type) (l : list X) k k' x,
  k <> k' -> nth_error (upd l k x) k' = nth_error l k'.
Proof.
  induction l; destruct k, k'; simpl; intros; try congruence; auto.
Qed.

Lemma upd_same : forall (X : Type) (l : list X) k x, nth_error l k = Some x -> upd l k x = l.
Proof.
  induction l; destruct k; simpl; intros; try discriminate.
  - congruence.
  - f_equal. auto.
Qed.

Lemma map_upd : forall (X Y : Type) (g : X -> Y) (l : list X) k x,
  map g (upd l k x) = upd (map g l) k (g x).
Proof. induction l; destruct k; simpl; intros; auto. f_equal. auto. Qed.

Lemma nth_error_lt : forall (X : Type) (l : list X) k x, nth_error l k = Some x -> k < List.length l.
Proof. intros. apply nth_error_Some. congruence. Qed.

Section Facts.
  Variables Src In Out F A S : Type.
  Variable p : lprog Src In Out F A S.

  Local Notation new_f' := (new_f Src In Out F A S p).
  Local Notation sstate' := (sstate Src F A S).
  Local Notation fstate' := (fstate Src F A S).
  Local Notation obs' := (obs In Out).
  Local Notation step_sh := (step_shared Src In Out F A S p).
  Local Notation step_fr := (step_fresh Src In Out F A S p).
  Local Notation exec_sh := (exec_shared Src In Out F A S p).
  Local Notation exec_fr := (exec_fresh Src In Out F A S p).
  Local Notation frameF := (frame_F Src In Out F A S p).
  Local Notation frameA := (frame_A Src In Out F A S p).
  Local Notation ins := (ins_of In Out).
  Local Notation outs := (outs_of In Out).
  Local Notation ofsub := (of_sub In Out).
  Local Notation a0' := (a0 Src In Out F A S p).
  Local Notation iso' := (iso Src In Out F A S p).
  Local Notation iso_run' := (iso_run Src In Out F A S p).
  Local Notation iso_state' := (iso_state Src In Out F A S p).

  (* ================= C44 ================= *)
  Definition lift (x : Src * A) : Src * F * A := (fst x, new_f', snd x).

  Definition sim (st : sstate') (ft : fstate') : Prop :=
    s_f _ _ _ _ st = new_f' /\ f_apps _ _ _ _ ft = map lift (s_apps _ _ _ _ st)
    /\ f_subs _ _ _ _ ft = s_subs _ _ _ _ st.

  Lemma step_sim : frameF -> forall st ft e, sim st ft ->
    sim (fst (step_sh st e)) (fst (step_fr ft e)) /\ snd (step_sh st e) = snd (step_fr ft e).
  Proof.
    intros [Fa [Fs Fr]] [f apps subs] [fapps fsubs] e [Hf [Ha Hs]]; simpl in *; subst.
    destruct e as [src | k | j i]; simpl.
    - rewrite !Fa. split; [|reflexivity]. repeat split; simpl; auto.
      rewrite map_app. reflexivity.
    - rewrite nth_error_map. destruct (nth_error apps k) as [[src a]|] eqn:E; simpl.
      + rewrite !Fs. split; [|reflexivity]. repeat split; simpl; auto.
        rewrite map_upd. reflexivity.
      + split; [|reflexivity]. repeat split; auto.
    - destruct (nth_error subs j) as [[k s]|] eqn:Ej; simpl.
      + rewrite nth_error_map. destruct (nth_error apps k) as [[src a]|] eqn:E; simpl.
        * rewrite !Fr. split; [|reflexivity]. repeat split; simpl; auto.
          rewrite map_upd. reflexivity.
        * split; [|reflexivity]. repeat split; auto.
      + split; [|reflexivity]. repeat split; auto.
  Qed.

  Lemma exec_sim : frameF -> forall h st ft, sim st ft ->
    snd (exec_sh st h) = snd (exec_fr ft h).
  Proof.
    intros HF. induction h as [|e r IH]; intros st ft Hs; simpl; auto.
    destruct (step_sim HF st ft e Hs) as [Hs' Ho].
    destruct (step_sh st e) as [st1 o] eqn:E1. destruct (step_fr ft e) as [ft1 o'] eqn:E2.
    simpl in *. subst o'. specialize (IH st1 ft1 Hs').
    destruct (exec_sh st1 r) as [st2 t]. destruct (exec_fr ft1 r) as [ft2 t'].
    simpl in *. congruence.
  Qed.

  Theorem C44_generic_thm : frameF ->
    forall h, trace_shared Src In Out F A S p h = trace_fresh Src In Out F A S p h.
  Proof.
    intros HF h. unfold trace_shared, trace_fresh. apply exec_sim; auto.
    repeat split; reflexivity.
  Qed.

  (* ================= C04 ================= *)
  Lemma filter_sub_app : forall j (t u : list obs'),
    filter (ofsub j) (t ++ u) = filter (ofsub j) t ++ filter (ofsub j) u.
  Proof. intros. apply filter_app. Qed.

  Lemma iso_run_snoc : forall xs a s i,
    iso_run' a s (xs ++ [i]) =
    iso_run' a s xs ++ [run_o _ _ _ _ _ _ p new_f' a (fold_left (fun s i => run_s _ _ _ _ _ _ p new_f' a s i) xs s) i].
  Proof.
    induction xs; intros; simpl; auto. rewrite IHxs. reflexivity.
  Qed.

  Lemma filter_snoc_same : forall j i o (t : list obs'),
    filter (ofsub j) (t ++ [(j, i, o)]) = filter (ofsub j) t ++ [(j, i, o)].
  Proof.
    intros. rewrite filter_app. simpl. unfold of_sub at 2. simpl. rewrite Nat.eqb_refl. reflexivity.
  Qed.

  Lemma filter_snoc_other : forall j j' i o (t : list obs'), j <> j' ->
    filter (ofsub j') (t ++ [(j, i, o)]) = filter (ofsub j') t.
  Proof.
    intros. rewrite filter_app. simpl. unfold of_sub at 2. simpl.
    destruct (Nat.eqb_spec j j'); [congruence|]. apply app_nil_r.
  Qed.

  Lemma ins_snoc_same : forall j i o t, ins j (t ++ [(j, i, o)]) = ins j t ++ [i].
  Proof. intros. unfold ins_of. rewrite filter_snoc_same, map_app. reflexivity. Qed.
  Lemma outs_snoc_same : forall j i o t, outs j (t ++ [(j, i, o)]) = outs j t ++ [o].
  Proof. intros. unfold outs_of. rewrite filter_snoc_same, map_app. reflexivity. Qed.
  Lemma ins_snoc_other : forall j j' i o t, j <> j' -> ins j' (t ++ [(j, i, o)]) = ins j' t.
  Proof. intros. unfold ins_of. rewrite filter_snoc_other; auto. Qed.
  Lemma outs_snoc_other : forall j j' i o t, j <> j' -> outs j' (t ++ [(j, i, o)]) = outs j' t.
  Proof. intros. unfold outs_of. rewrite filter_snoc_other; auto. Qed.

  Definition inv (st : sstate') (t : list obs') : Prop :=
    s_f _ _ _ _ st = new_f'
    /\ (forall k src a, nth_error (s_apps _ _ _ _ st) k = Some (src, a) -> a = a0' src)
    /\ (forall j k s, nth_error (s_subs _ _ _ _ st) j = Some (k, s) ->
          exists src, nth_error (s_apps _ _ _ _ st) k = Some (src, a0' src)
                   /\ s = iso_state' src (ins j t) /\ outs j t = iso' src (ins j t))
    /\ (forall j, List.length (s_subs _ _ _ _ st) <= j -> filter (ofsub j) t = []).

  Lemma inv_init : inv (init_shared Src In Out F A S p) [].
  Proof.
    repeat split; simpl; intros.
    - destruct k; discriminate.
    - destruct j; discriminate.
  Qed.

  Lemma step_inv : frameF -> frameA -> forall st t e, inv st t ->
    inv (fst (step_sh st e)) (t ++ snd (step_sh st e)).
  Proof.
    intros [Fa [Fs Fr]] [As Ar] [f apps subs] t e [Hf [Happ [Hsub Hnew]]]; simpl in *; subst f.
    destruct e as [src | k | j i]; simpl.
    - (* apply *)
      rewrite app_nil_r, Fa. repeat split; simpl; auto.
      + intros k src' a H.
        destruct (Nat.lt_ge_cases k (List.length apps)) as [L|L].
        * rewrite nth_error_app1 in H by auto. eauto.
        * rewrite nth_error_app2 in H by auto.
          destruct (k - List.length apps) as [|n]; simpl in H.
          -- inversion H; subst. reflexivity.
          -- destruct n; discriminate.
      + intros j k s H. destruct (Hsub j k s H) as [src' [H1 H2]].
        exists src'. split; auto. rewrite nth_error_app1; auto. eapply nth_error_lt; eauto.
    - (* subscribe *)
      destruct (nth_error apps k) as [[src a]|] eqn:E; simpl.
      + rewrite app_nil_r. pose proof (Happ k src a E) as Ha. subst a.
        rewrite Fs, As. rewrite (upd_same _ apps k (src, a0' src) E).
        repeat split; simpl; auto.
        * intros j k' s H.
          destruct (Nat.lt_ge_cases j (List.length subs)) as [L|L].
          -- rewrite nth_error_app1 in H by auto. auto.
          -- rewrite nth_error_app2 in H by auto.
             destruct (j - List.length subs) as [|n] eqn:D; simpl in H.
             ++ inversion H; subst k' s. exists src. split; auto.
                assert (Hj : filter (ofsub j) t = []) by (apply Hnew; lia).
                unfold ins_of, outs_of. rewrite Hj. simpl. split; reflexivity.
             ++ destruct n; discriminate.
        * intros j L. rewrite app_length in L. simpl in L. apply Hnew. lia.
      + rewrite app_nil_r. repeat split; simpl; auto.
    - (* one handler run *)
      destruct (nth_error subs j) as [[k s]|] eqn:Ej; simpl.
      + destruct (nth_error apps k) as [[src a]|] eqn:Ek; simpl.
        * destruct (Hsub j k s Ej) as [src' [H1 [H2 H3]]].
          rewrite Ek in H1. inversion H1; subst src'. clear H1. subst a.
          rewrite Fr, Ar. rewrite (upd_same _ apps k (src, a0' src) Ek).
          pose proof (nth_error_lt _ _ _ _ Ej) as Lj.
          repeat split; simpl; auto.
          -- intros j' k' s' H.
             destruct (Nat.eq_dec j j') as [->|N].
             ++ rewrite nth_error_upd_eq in H by auto. inversion H; subst k' s'.
                exists src. split; auto.
                rewrite ins_snoc_same, outs_snoc_same. split.
                ** unfold iso_state. rewrite fold_left_app. simpl.
                   rewrite H2. reflexivity.
                ** rewrite H3. unfold iso. rewrite iso_run_snoc.
                   rewrite H2. reflexivity.
             ++ rewrite nth_error_upd_neq in H by auto.
                destruct (Hsub j' k' s' H) as [src' [G1 [G2 G3]]].
                exists src'. split; auto.
                rewrite ins_snoc_other, outs_snoc_other by auto. auto.
          -- intros j' L. rewrite upd_length in L.
             rewrite filter_snoc_other by lia. apply Hnew. auto.
        * rewrite app_nil_r. repeat split; simpl; auto.
      + rewrite app_nil_r. repeat split; simpl; auto.
  Qed.

  Lemma exec_inv : frameF -> frameA -> forall h st t0 st' t',
    exec_sh st h = (st', t') -> inv st t0 -> inv st' (t0 ++ t').
  Proof.
    intros HF HA. induction h as [|e r IH]; intros st t0 st' t' E I; simpl in E.
    - inversion E; subst. rewrite app_nil_r. auto.
    - pose proof (step_inv HF HA st t0 e I) as I1.
      destruct (step_sh st e) as [st1 o]. simpl in I1.
      destruct (exec_sh st1 r) as [st2 t] eqn:E2. inversion E; subst st' t'.
      rewrite app_assoc. eapply IH; eauto.
  Qed.

  (* every subscription of every application, in every history, behaves as if it were alone *)
  Theorem C04_generic_thm : frameF -> frameA ->
    forall h st t, exec_sh (init_shared Src In Out F A S p) h = (st, t) ->
    forall j k s, nth_error (s_subs _ _ _ _ st) j = Some (k, s) ->
      exists src a, nth_error (s_apps _ _ _ _ st) k = Some (src, a)
                 /\ outs j t = iso' src (ins j t).
  Proof.
    intros HF HA h st t E j k s Hj.
    pose proof (exec_inv HF HA h _ [] st t E inv_init) as [_ [_ [Hsub _]]]. simpl in Hsub.
    destruct (Hsub j k s Hj) as [src [H1 [_ H3]]]. exists src, (a0' src). auto.
  Qed.

  (* two subscriptions of the same observable that receive the same inputs emit the same outputs *)
  Theorem C04_resubscribe_thm : frameF -> frameA ->
    forall h st t, exec_sh (init_shared Src In Out F A S p) h = (st, t) ->
    forall j1 j2 k s1 s2,
      nth_error (s_subs _ _ _ _ st) j1 = Some (k, s1) ->
      nth_error (s_subs _ _ _ _ st) j2 = Some (k, s2) ->
      ins j1 t = ins j2 t -> outs j1 t = outs j2 t.
  Proof.
    intros HF HA h st t E j1 j2 k s1 s2 H1 H2 Hi.
    destruct (C04_generic_thm HF HA h st t E j1 k s1 H1) as [src1 [a1 [G1 O1]]].
    destruct (C04_generic_thm HF HA h st t E j2 k s2 H2) as [src2 [a2 [G2 O2]]].
    rewrite G1 in G2. inversion G2; subst. rewrite O1, O2, Hi. reflexivity.
  Qed.
End Facts.

(* ---- the bridge: tables of cells -> frame hypotheses --------------------------------- *)
Lemma level_cases : forall a b : level, level_ltb a b = false -> level_leb b a = true.
Proof. destruct a, b; simpl; intros; try reflexivity; discriminate. Qed.

Lemma level_leb_trans : forall a b c, level_leb a b = true -> level_leb b c = true -> level_leb a c = true.
Proof.
  unfold level_leb. intros a b c H1 H2. apply Nat.leb_le in H1, H2. apply Nat.leb_le. lia.
Qed.

Section CellFacts.
  Variables Src In Out S : Type.
  Variable p : lprog Src In Out store store S.

  Lemma keeps_eq : forall top m L old new,
    cells_ok top m = true -> lv top < lv L -> keeps m L old new -> new = old.
  Proof.
    intros top m L old new Hok Hlt [Hlen Hnth].
    apply nth_ext with (d := 0%Z) (d' := 0%Z); auto.
    intros n _. apply Hnth.
    destruct (Nat.lt_ge_cases n (List.length m)) as [Ln|Ln].
    - unfold cells_ok in Hok. rewrite forallb_forall in Hok.
      specialize (Hok (nth n m LModule) (nth_In _ _ Ln)).
      unfold level_leb in Hok. apply Nat.leb_le in Hok. lia.
    - rewrite nth_overflow by auto. simpl. lia.
  Qed.

  Lemma described_frame_F : forall fm am,
    cells_ok LFactory fm = true -> described_by Src In Out S p fm am -> frame_F _ _ _ _ _ _ p.
  Proof.
    intros fm am Hok [H1 [H2 [H3 _]]]. repeat split; intros.
    - eapply keeps_eq; eauto. simpl. lia.
    - eapply keeps_eq; eauto. simpl. lia.
    - eapply keeps_eq; eauto. simpl. lia.
  Qed.

  Lemma described_frame_A : forall fm am,
    cells_ok LApply am = true -> described_by Src In Out S p fm am -> frame_A _ _ _ _ _ _ p.
  Proof.
    intros fm am Hok [_ [_ [_ [H4 H5]]]]. split; intros.
    - eapply keeps_eq; eauto. simpl. lia.
    - eapply keeps_eq; eauto. simpl. lia.
  Qed.
End CellFacts.

Lemma rows_fcells_C44 : forall rows,
  forallb entry_ok_C44 rows = true -> forallb (fun e => negb (a_creation e)) rows = true ->
  cells_ok LFactory (fcells rows) = true.
Proof.
  intros rows Hok Hnc. unfold cells_ok, fcells. apply forallb_forall. intros w Hin.
  apply in_map_iff in Hin. destruct Hin as [e [<- Hin]]. apply filter_In in Hin.
  destruct Hin as [Hin Hc]. rewrite forallb_forall in Hok, Hnc.
  specialize (Hok e Hin). specialize (Hnc e Hin).
  apply andb_prop in Hc. destruct Hc as [Hex Hlv].
  unfold entry_ok_C44 in Hok. destruct (site_exempt e); [discriminate|].
  destruct (a_creation e); [discriminate|]. simpl in Hok.
  unfold shared_above in Hok.
  destruct (a_alloc e), (a_mut e); simpl in *; try discriminate; reflexivity.
Qed.

Lemma rows_fcells_C04 : forall rows,
  forallb entry_ok_C04 rows = true -> forallb (fun e => negb (a_mc e || a_hot e)) rows = true ->
  cells_ok LFactory (fcells rows) = true.
Proof.
  intros rows Hok Hnc. unfold cells_ok, fcells. apply forallb_forall. intros w Hin.
  apply in_map_iff in Hin. destruct Hin as [e [<- Hin]]. apply filter_In in Hin.
  destruct Hin as [Hin Hc]. rewrite forallb_forall in Hok, Hnc.
  specialize (Hok e Hin). specialize (Hnc e Hin).
  apply andb_prop in Hc. destruct Hc as [Hex Hlv].
  unfold entry_ok_C04 in Hok. destruct (site_exempt e); [discriminate|].
  destruct (a_mc e); [discriminate|]. destruct (a_hot e); [discriminate|]. simpl in Hok.
  unfold shared_above in Hok.
  destruct (a_alloc e), (a_mut e); simpl in *; try discriminate; reflexivity.
Qed.

Lemma rows_acells_C04 : forall rows,
  forallb entry_ok_C04 rows = true -> forallb (fun e => negb (a_mc e || a_hot e)) rows = true ->
  cells_ok LApply (acells rows) = true.
Proof.
  intros rows Hok Hnc. unfold cells_ok, acells. apply forallb_forall. intros w Hin.
  apply in_map_iff in Hin. destruct Hin as [e [<- Hin]]. apply filter_In in Hin.
  destruct Hin as [Hin Hc]. rewrite forallb_forall in Hok, Hnc.
  specialize (Hok e Hin). specialize (Hnc e Hin).
  apply andb_prop in Hc. destruct Hc as [Hc Hlv2]. apply andb_prop in Hc. destruct Hc as [Hex Hlv].
  unfold entry_ok_C04 in Hok. destruct (site_exempt e); [discriminate|].
  destruct (a_mc e); [discriminate|]. destruct (a_hot e); [discriminate|]. simpl in Hok.
  unfold shared_above in Hok.
  destruct (a_alloc e), (a_mut e); simpl in *; try discriminate; reflexivity.
Qed.

(* rows pass the C44 check  ->  any program whose cells are these rows has frame_F *)
Theorem C44_rows_sound_thm : forall rows,
  forallb entry_ok_C44 rows = true -> forallb (fun e => negb (a_creation e)) rows = true ->
  forall (Src In Out S : Type) (p : lprog Src In Out store store S) am,
    described_by Src In Out S p (fcells rows) am ->
    forall h, trace_shared _ _ _ _ _ _ p h = trace_fresh _ _ _ _ _ _ p h.
Proof.
  intros rows Hok Hnc Src In Out S p am Hd h.
  apply C44_generic_thm. eapply described_frame_F; eauto. apply rows_fcells_C44; auto.
Qed.

Theorem C04_rows_sound_thm : forall rows,
  forallb entry_ok_C04 rows = true -> forallb (fun e => negb (a_mc e || a_hot e)) rows = true ->
  forall (Src In Out S : Type) (p : lprog Src In Out store store S),
    described_by Src In Out S p (fcells rows) (acells rows) ->
    forall h st t, exec_shared _ _ _ _ _ _ p (init_shared _ _ _ _ _ _ p) h = (st, t) ->
    forall j1 j2 k s1 s2,
      nth_error (s_subs _ _ _ _ st) j1 = Some (k, s1) ->
      nth_error (s_subs _ _ _ _ st) j2 = Some (k, s2) ->
      ins_of In Out j1 t = ins_of In Out j2 t -> outs_of In Out j1 t = outs_of In Out j2 t.
Proof.
  intros rows Hok Hnc Src In Out S p Hd.
  apply C04_resubscribe_thm.
  - eapply described_frame_F; eauto. apply rows_fcells_C04; auto.
  - eapply described_frame_A; eauto. apply rows_acells_C04; auto.
Qed.

(* ---- refutations: a cell one level too high ---------------------------------------- *)
(* an application-level iterator: two subscriptions of the SAME observable, same inputs,
   different outputs (index 0 then index 1) *)
Lemma app_cell_refuted :
  let h := [EApply tt; ESub 0; ERun 0 tt; ESub 0; ERun 1 tt] in
  let t := trace_shared _ _ _ _ _ _ prog_app_iter h in
  ins_of _ _ 0 t = ins_of _ _ 1 t /\ outs_of _ _ 0 t = [0] /\ outs_of _ _ 1 t = [1].
Proof. vm_compute. repeat split. Qed.

(* a factory-level subscriber count: one ref_count() value on two sources -- the second source is
   never connected (false), with fresh operators both are (true) *)
Lemma factory_cell_refuted :
  let h := [EApply tt; EApply tt; ESub 0; ESub 1; ERun 0 tt; ERun 1 tt] in
  trace_shared _ _ _ _ _ _ prog_factory_count h = [(0, tt, true); (1, tt, false)]
  /\ trace_fresh _ _ _ _ _ _ prog_factory_count h = [(0, tt, true); (1, tt, true)].
Proof. vm_compute. split; reflexivity. Qed.

(* the repaired shape satisfies the hypotheses (they are not vacuous) *)
Lemma sub_iter_frames : frame_F _ _ _ _ _ _ prog_sub_iter /\ frame_A _ _ _ _ _ _ prog_sub_iter.
Proof. repeat split. Qed.
