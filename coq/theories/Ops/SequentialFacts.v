(* C10: sequential composition runs one source at a time, in order. *)
From RxVerif Require Import Base.Prelude Ops.Machine Ops.MachineFacts Ops.Multi Ops.MultiFacts
  Ops.RunLemmas Ops.Combinators.

Local Arguments Nat.ltb : simpl never.
Local Arguments Nat.leb : simpl never.

Ltac rs := repeat (cbn; rewrite ?Nat.eqb_refl).

Section Concat.
Context {A : Type}.

(* state of the runner of concat: stopped, or exactly the current source live *)
Definition concat_inv (n : nat) (cur : nat) (r : rstate) : Prop :=
  r_stopped r = true \/ (r_live r = [cur] /\ r_timers r = [] /\ cur < n)%nat.

Lemma concat_step n cur r now (i : inp A) :
  concat_inv n cur r ->
  concat_inv n (fst (fst (rstep (x_concat n) cur r now i))) (snd (fst (rstep (x_concat n) cur r now i))).
Proof.
  intros [Hs|(Hl & Ht & Hc)].
  - rewrite rstep_stopped by exact Hs. left. exact Hs.
  - destruct r as [lv ts st]. cbn in Hl, Ht. subst lv ts.
    unfold rstep. cbn [r_stopped]. destruct st; [left; reflexivity|].
    destruct i as [k e|tag|].
    + cbn [r_live mem existsb]. destruct (Nat.eqb_spec k cur) as [->|Hne]; cbn [orb].
      * destruct e as [x|e|].
        -- right. rs. auto.
        -- left. rs. reflexivity.
        -- rs. destruct (Nat.ltb_spec (S cur) n) as [Hlt|Hge]; rs.
           ++ right. auto.
           ++ left. reflexivity.
      * right. cbn. auto.
    + right. cbn. auto.
    + left. rs. reflexivity.
Qed.

(* at every moment of every run at most one source is subscribed *)
Theorem concat_one_at_a_time n (ins : list (Z * inp A)) :
  (length (r_live (snd (run (x_concat n) ins))) <= 1)%nat.
Proof.
  rewrite run_final.
  assert (H0 : concat_inv n (fst (start_state (x_concat (A:=A) n))) (snd (start_state (x_concat (A:=A) n)))).
  { unfold start_state. destruct n; cbn; [left; reflexivity|right; repeat split; auto; lia]. }
  pose proof (run_from_invariant (x_concat n) (fun s r _ => concat_inv n s r)
                (fun s r acc now i H => concat_step n s r now i H) ins _ _ 1 [] H0) as H.
  cbn beta in H. destruct H as [Hs|(Hl & _ & _)].
  - (* stopped: everything released *)
    pose proof (run_from_rinv (x_concat n) ins (fst (start_state (x_concat (A:=A) n)))
                  (snd (start_state (x_concat (A:=A) n))) 1) as R.
    rewrite <- (after_snd _ ins _ _ 1) in R.
    assert (Hr0 : rinv (snd (start_state (x_concat (A:=A) n)))).
    { unfold start_state, rinv, released. destruct n; cbn; [reflexivity|discriminate]. }
    rewrite (R Hr0 Hs). cbn. lia.
  - rewrite Hl. cbn. lia.
Qed.

(* ---- closed form in the sequential environment --------------------------- *)
Definition block (k : nat) (src : list A * term) : list (Z * inp A) :=
  map (fun e => (0, ISrc k e)) (events (fst src) (snd src)).
Fixpoint seq_env_from (k : nat) (srcs : list (list A * term)) : list (Z * inp A) :=
  match srcs with [] => [] | s :: rest => block k s ++ seq_env_from (S k) rest end.

Fixpoint concat_spec (srcs : list (list A * term)) : list (ev A) :=
  match srcs with
  | [] => [Done]
  | (xs, t) :: rest =>
      map Next xs ++ match t with TDone => concat_spec rest | TErr e => [Err e] | TNever => [] end
  end.

Lemma emitted_app {B} (a b : list (nat * obs B)) : emitted (a ++ b) = emitted a ++ emitted b.
Proof. unfold emitted. apply flat_map_app. Qed.

(* inputs of sources that are not subscribed change nothing *)
Lemma dropped_block n cur ts (srcs : list (list A * term)) : forall k j, (cur < j)%nat ->
  run_from (x_concat n) cur (RState [cur] ts false) k (seq_env_from j srcs)
  = ([], RState [cur] ts false).
Proof.
  induction srcs as [|[xs t] rest IH]; intros k j Hj; [reflexivity|].
  cbn [seq_env_from]. rewrite run_from_app.
  assert (G : forall (l : list (ev A)) kk,
    run_from (x_concat n) cur (RState [cur] ts false) kk (map (fun e => (0, ISrc j e)) l)
    = ([], RState [cur] ts false)
    /\ after (x_concat n) cur (RState [cur] ts false) (map (fun e => (0, ISrc j e)) l)
      = (cur, RState [cur] ts false)).
  { induction l as [|e l IHl]; intros k0; [split; reflexivity|].
    cbn [map run_from after]. unfold rstep. cbn [r_stopped r_live mem existsb].
    destruct (Nat.eqb_spec j cur); [lia|]. cbn [orb].
    destruct (IHl (S k0)) as [H1 H2]. rewrite H1, H2. split; reflexivity. }
  unfold block. destruct (G (events (fst (xs, t)) (snd (xs, t))) k) as [G1 G2].
  rewrite G1, G2. cbn [fst snd]. rewrite IH by lia. reflexivity.
Qed.

Lemma concat_from n (srcs : list (list A * term)) : forall cur k,
  (cur + length srcs = n)%nat -> srcs <> [] ->
  emitted (fst (run_from (x_concat n) cur (RState [cur] [] false) k (seq_env_from cur srcs)))
  = concat_spec srcs.
Proof.
  induction srcs as [|[xs t] rest IH]; intros cur k Hn Hne; [congruence|].
  cbn [seq_env_from concat_spec]. rewrite run_from_app. cbn [fst].
  (* the elements of the current source *)
  assert (G : forall (ys : list A) kk,
    run_from (x_concat n) cur (RState [cur] [] false) kk (map (fun e => (0, ISrc cur e)) (map Next ys))
    = (map (fun p => (fst p, OEmit (Next (snd p)))) (combine (seq kk (length ys)) ys), RState [cur] [] false)
    /\ after (x_concat n) cur (RState [cur] [] false) (map (fun e => (0, ISrc cur e)) (map Next ys))
      = (cur, RState [cur] [] false)).
  { clear. induction ys as [|y ys IHy]; intros kk; [split; reflexivity|].
    cbn [map run_from after length seq combine]. unfold rstep. rs.
    destruct (IHy (S kk)) as [H1 H2]. rewrite H1, H2. split; reflexivity. }
  unfold block, events. cbn [fst snd]. rewrite map_app.
  destruct (G xs k) as [G1 G2].
  rewrite after_app, G2. cbn [fst snd].
  rewrite run_from_app, G1, G2. cbn [fst snd].
  rewrite !emitted_app.
  assert (E1 : emitted (map (fun p => (fst p, OEmit (Next (snd p)))) (combine (seq k (length xs)) xs))
               = map Next xs).
  { clear. generalize k. unfold emitted. induction xs as [|x xs IHx]; intros kk; [reflexivity|].
    cbn. now rewrite IHx. }
  rewrite E1. rewrite <- app_assoc. f_equal.
  rewrite app_length, !map_length.
  destruct t as [|e|].
  - (* completes: move on, or finish *)
    cbn [map run_from after]. unfold rstep. rs.
    destruct (Nat.ltb_spec (S cur) n) as [Hlt|Hge]; rs.
    + destruct rest as [|s2 rest2]; [cbn in Hn; lia|].
      rewrite IH; [reflexivity|cbn in *; lia|discriminate].
    + destruct rest as [|s2 rest2]; [|cbn in Hn; lia].
      cbn. reflexivity.
  - cbn [map run_from after]. unfold rstep. rs.
    rewrite run_from_stopped by reflexivity. reflexivity.
  - cbn [map run_from after app fst snd]. rewrite dropped_block by lia. reflexivity.
Qed.

(* the output is the concatenation of the consumed sources' elements, up to the
   first source that fails (error passed on) or never terminates *)
Theorem concat_closed_form (srcs : list (list A * term)) :
  emitted (fst (run (x_concat (length srcs)) (seq_env_from 0 srcs))) = concat_spec srcs.
Proof.
  rewrite run_unfold. cbn [fst]. rewrite emitted_app.
  destruct srcs as [|s rest].
  - cbn. reflexivity.
  - unfold start_state, start_obs. cbn -[run_from seq_env_from concat_spec emitted].
    rewrite (concat_from (S (length rest)) (s :: rest) 0 1); [reflexivity|reflexivity|discriminate].
Qed.
End Concat.

(* ---- retry(n) subscribes at most n times; repeat(n) at most n times -------- *)
Section Counts.
Context {A : Type}.

Lemma trace_subs_run {B} (m : machine A B) ins :
  count_subs (map snd (fst (run m ins)))
  = count_subs (start_obs m ++ map snd (fst (run_from m (fst (start_state m)) (snd (start_state m)) 1 ins))).
Proof.
  rewrite run_unfold. cbn [fst]. rewrite map_app, map_map. cbn [snd]. now rewrite map_id.
Qed.

Definition JB (c : nat) (used n : nat) : Prop := (n = used /\ used <= c)%nat \/ (c = 0 /\ n = 0)%nat.

Theorem retry_subscribes_at_most (c : nat) (ins : list (Z * inp A)) :
  (count_subs (map snd (fst (run (x_retry (A:=A) (Some c)) ins))) <= c)%nat.
Proof.
  rewrite trace_subs_run.
  set (m := x_retry (A:=A) (Some c)).
  assert (G : JB c (fst (after m (fst (start_state m)) (snd (start_state m)) ins))
                (count_subs (start_obs m ++ map snd (fst (run_from m (fst (start_state m)) (snd (start_state m)) 1 ins))))).
  { apply (subs_bounded m (JB c)).
    - intros s n now i Hn. unfold JB in *. subst m.
      destruct i as [k [x|e|]|tag|]; cbn; try (rewrite Nat.add_0_r; exact Hn).
      destruct (Nat.ltb_spec s c) as [Hlt|Hge]; cbn.
      + left. destruct Hn as [[-> Hle]|[-> ->]]; lia.
      + rewrite Nat.add_0_r. exact Hn.
    - unfold JB, start_state, start_obs. subst m. destruct c; cbn; [right; auto|left; split; [reflexivity|lia]]. }
  unfold JB in G. destruct G as [[-> Hle]|[_ ->]]; lia.
Qed.

Theorem repeat_subscribes_at_most (c : nat) (ins : list (Z * inp A)) :
  (count_subs (map snd (fst (run (x_repeat (A:=A) (Some c)) ins))) <= c)%nat.
Proof.
  rewrite trace_subs_run.
  set (m := x_repeat (A:=A) (Some c)).
  assert (G : JB c (fst (after m (fst (start_state m)) (snd (start_state m)) ins))
                (count_subs (start_obs m ++ map snd (fst (run_from m (fst (start_state m)) (snd (start_state m)) 1 ins))))).
  { apply (subs_bounded m (JB c)).
    - intros s n now i Hn. unfold JB in *. subst m.
      destruct i as [k [x|e|]|tag|]; cbn; try (rewrite Nat.add_0_r; exact Hn).
      destruct (Nat.ltb_spec s c) as [Hlt|Hge]; cbn.
      + left. destruct Hn as [[-> Hle]|[-> ->]]; lia.
      + rewrite Nat.add_0_r. exact Hn.
    - unfold JB, start_state, start_obs. subst m. destruct c; cbn; [right; auto|left; split; [reflexivity|lia]]. }
  unfold JB in G. destruct G as [[-> Hle]|[_ ->]]; lia.
Qed.

End Counts.

(* ---- the next source is subscribed only when the previous one terminated in
   the way the operator continues on ---------------------------------------- *)
Section When.
Context {A : Type}.

Lemma concat_subscribes_on_completion n cur now (i : inp A) :
  (0 < count_csub (snd (fst (x_step (x_concat n) cur now i))))%nat -> exists k, i = ISrc k Done.
Proof.
  destruct i as [k [x|e|]|tag|]; cbn; try lia.
  intros _. now exists k.
Qed.

Lemma catch_subscribes_on_error n st now (i : inp A) :
  (0 < count_csub (snd (fst (x_step (x_catch n) st now i))))%nat -> exists k e, i = ISrc k (Err e).
Proof.
  destruct st as [cur last]. destruct i as [k [x|e|]|tag|]; cbn; try lia.
  intros _. now exists k, e.
Qed.

Lemma retry_subscribes_on_error c used now (i : inp A) :
  (0 < count_csub (snd (fst (x_step (x_retry c) used now i))))%nat -> exists k e, i = ISrc k (Err e).
Proof.
  destruct i as [k [x|e|]|tag|]; cbn; try lia.
  intros _. now exists k, e.
Qed.

Lemma repeat_subscribes_on_completion c used now (i : inp A) :
  (0 < count_csub (snd (fst (x_step (x_repeat c) used now i))))%nat -> exists k, i = ISrc k Done.
Proof.
  destruct i as [k [x|e|]|tag|]; cbn; try lia.
  intros _. now exists k.
Qed.

Lemma oern_subscribes_on_termination n cur now (i : inp A) :
  (0 < count_csub (snd (fst (x_step (x_oern n) cur now i))))%nat ->
  exists k e, i = ISrc k e /\ is_terminal e = true.
Proof.
  destruct i as [k [x|e|]|tag|]; cbn; try lia; intros _.
  - exists k, (Err e). auto.
  - exists k, Done. auto.
Qed.
End When.
