(* C44 -- the generic theorem instantiated at EVERY operator of the generated table
   (Gen/AllocTable.v, regenerated from /repo/reactivex on every run): for each non-creation public
   function, the rows of THAT function pass the check, so every levelled program whose factory
   cells are described by those rows behaves, shared, exactly as fresh.  The closed computations
   on the finite table are evaluated by the kernel (vm_compute); the rest is Ops/ClosureFacts.v. *)
From Coq Require Import List String ZArith Bool Lia.
From RxVerif Require Import Ops.Closure Ops.ClosureFacts Gen.AllocTable.
Import ListNotations.
Open Scope string_scope.

Lemma table_check_C44 : forallb entry_ok_C44 alloc_table = true.
Proof. vm_compute. reflexivity. Qed.

(* consistency of the two generated tables: the rows of a non-creation function are not marked
   as rows of a creation function *)
Definition rows_consistent (o : op_info) : bool :=
  o_creation o || forallb (fun e => negb (a_creation e)) (rows_of (o_name o) alloc_table).

Lemma table_rows_consistent : forallb rows_consistent alloc_ops = true.
Proof. vm_compute. reflexivity. Qed.

Lemma forallb_filter {X} (f g : X -> bool) l : forallb f l = true -> forallb f (filter g l) = true.
Proof.
  intros H. apply forallb_forall. intros x Hx. apply filter_In in Hx.
  rewrite forallb_forall in H. apply H. exact (proj1 Hx).
Qed.

Lemma rows_of_ok op : forallb entry_ok_C44 (rows_of op alloc_table) = true.
Proof. unfold rows_of. apply forallb_filter. exact table_check_C44. Qed.

Lemma rows_of_not_creation o : In o alloc_ops -> o_creation o = false ->
  forallb (fun e => negb (a_creation e)) (rows_of (o_name o) alloc_table) = true.
Proof.
  intros Hin Hc. pose proof table_rows_consistent as H. rewrite forallb_forall in H.
  specialize (H o Hin). unfold rows_consistent in H. rewrite Hc in H. rewrite orb_false_l in H. exact H.
Qed.

Theorem every_operator : forall o, In o alloc_ops -> o_creation o = false ->
  cells_ok LFactory (fcells (rows_of (o_name o) alloc_table)) = true
  /\ forall (Src In Out S : Type) (p : lprog Src In Out store store S) am,
       described_by Src In Out S p (fcells (rows_of (o_name o) alloc_table)) am ->
       forall h, trace_shared _ _ _ _ _ _ p h = trace_fresh _ _ _ _ _ _ p h.
Proof.
  intros o Hin Hc. split.
  - apply rows_fcells_C44; [apply rows_of_ok | apply rows_of_not_creation; assumption].
  - apply C44_rows_sound_thm; [apply rows_of_ok | apply rows_of_not_creation; assumption].
Qed.

(* pinned fact about the table as generated today: no non-exempt allocation site at factory or
   module level exists for any non-creation function, so the factory store described by the rows
   is EMPTY and [described_by] then says: the program never writes a factory cell at all *)
Definition no_fcells (o : op_info) : bool :=
  o_creation o || match fcells (rows_of (o_name o) alloc_table) with [] => true | _ => false end.

Lemma table_no_fcells : forallb no_fcells alloc_ops = true.
Proof. vm_compute. reflexivity. Qed.

Theorem no_factory_cells : forall o, In o alloc_ops -> o_creation o = false ->
  fcells (rows_of (o_name o) alloc_table) = [].
Proof.
  intros o Hin Hc. pose proof table_no_fcells as H. rewrite forallb_forall in H.
  specialize (H o Hin). unfold no_fcells in H. rewrite Hc in H. rewrite orb_false_l in H.
  destruct (fcells (rows_of (o_name o) alloc_table)); [reflexivity | discriminate].
Qed.

(* the proposed form *)
Theorem every_operator_empty : forall o, In o alloc_ops -> o_creation o = false ->
  fcells (rows_of (o_name o) alloc_table) = []
  /\ forall (Src In Out S : Type) (p : lprog Src In Out store store S) am,
       described_by Src In Out S p (fcells (rows_of (o_name o) alloc_table)) am ->
       forall h, trace_shared _ _ _ _ _ _ p h = trace_fresh _ _ _ _ _ _ p h.
Proof.
  intros o Hin Hc. split; [apply no_factory_cells; assumption | apply (every_operator o Hin Hc)].
Qed.

(* a witness program with REAL state for the hypotheses: stores as in [described_by], the factory
   store empty (as for every row set of the table), an application-level counter cell advanced by
   the handlers and read by the output *)
Definition prog_store_counter : lprog unit unit Z store store unit :=
  mk_lprog _ _ _ _ _ _ []
    (fun f _ => f) (fun _ _ => [0%Z])
    (fun f _ => f) (fun _ a => a) (fun _ _ => tt)
    (fun f _ _ _ => f) (fun _ a _ _ => match a with x :: r => (1 + x)%Z :: r | [] => [] end) (fun _ _ s _ => s) (fun _ a _ _ => nth 0 a 0%Z).

Lemma store_counter_described : described_by unit unit Z unit prog_store_counter [] [LHandler].
Proof.
  unfold described_by, keeps. cbn. repeat split; intros; try reflexivity.
  - destruct a; reflexivity.
  - destruct a as [|x r]; [reflexivity|]. destruct i0 as [|i0]; [cbn in H; lia | reflexivity].
Qed.

Lemma fcells_ref_count : fcells (rows_of "ops.ref_count" alloc_table) = [].
Proof. vm_compute. reflexivity. Qed.

Lemma store_counter_described_ref_count :
  described_by unit unit Z unit prog_store_counter (fcells (rows_of "ops.ref_count" alloc_table)) [LHandler].
Proof. rewrite fcells_ref_count. exact store_counter_described. Qed.

(* a witness for [frame_F] whose factory state is real and READ: a factory-level constant (an
   argument captured when the operator is built) added to an application-level counter *)
Definition prog_factory_const : lprog unit unit Z Z Z unit :=
  mk_lprog _ _ _ _ _ _ 5%Z
    (fun f _ => f) (fun _ _ => 0%Z)
    (fun f _ => f) (fun _ a => a) (fun _ _ => tt)
    (fun f _ _ _ => f) (fun _ a _ _ => (a + 1)%Z) (fun _ _ s _ => s) (fun f a _ _ => (f + a)%Z).

Lemma factory_const_frame : frame_F _ _ _ _ _ _ prog_factory_const.
Proof. repeat split. Qed.
