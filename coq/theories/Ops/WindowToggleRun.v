(* C18: window_toggle at run level.  Over ALL interleavings of the notifications of the source
   (port 0), of the openings (port 1) and of the closing observables the closing mapper makes
   (port 2+g for the observable made for window g), what the subscribers of [x_window_toggle]
   (Ops/Windows.v, operators/_window.py over _groupjoin.py) see -- handed windows, window
   notifications, outer notifications; every window subscribed when handed -- equals a walk whose
   state is: is the source / are the openings still listened to, and the list [cls] of the windows
   whose closing observable is still subscribed, each flagged open or not (opening order):
     - a source element goes to exactly the open windows, in opening order;
     - an element of the openings hands a new window g and subscribes a NEW closing observable
       (port 2+g) made by the g-th call of the mapper; if that call raises, the new window is
       handed and then every open window, the new one included, and the outer end with the error;
     - the first notification of window g's closing observable, an element or its completion,
       completes exactly window g;
     - the source's completion completes every open window (the closing observables stay
       subscribed; what they send later closes nothing); windows opened later receive nothing;
     - the openings' completion completes the outer sequence; the open windows go on;
     - an error on any subscribed port goes to every open window and to the outer (if still live);
     - once the outer has ended and no window is open, everything is released: nothing is heard. *)
From RxVerif Require Import Base.Prelude Ops.Machine Ops.MachineFacts Ops.MultiWin Ops.MultiWinFacts
  Ops.Windows Ops.WindowCountFacts Ops.WindowCountRun Ops.WindowFacts Ops.WinSim Ops.WindowWhenRun.

Local Arguments Multi.mem : simpl never.
Local Arguments Multi.remove : simpl never.
Local Arguments Multi.sort_nat : simpl never.

(* ---- what the subscribers see ---- *)
Definition is_vis {W B} (o : obs W B) : bool := match o with OHand _ _ | OWin _ _ | OEmit _ => true | _ => false end.
Definition visible {W B} (tr : list (nat * obs W B)) : list (nat * obs W B) := filter (fun x => is_vis (snd x)) tr.

Lemma visible_app {W B} (a b : list (nat * obs W B)) : visible (a ++ b) = visible a ++ visible b.
Proof. unfold visible. apply filter_app. Qed.
Lemma visible_tag {W B} k (o : list (obs W B)) : visible (map (fun x => (k, x)) o) = map (fun x => (k, x)) (filter is_vis o).
Proof. unfold visible. induction o as [|x t IH]; [reflexivity|]. cbn [map filter snd]. destruct (is_vis x); cbn [map]; now rewrite IH. Qed.
Lemma vis_release {W B} (l1 l2 : list nat) : filter is_vis (map (@OUnsub W B) l1 ++ map (@OCancel W B) l2) = [].
Proof.
  rewrite filter_app.
  assert (H1 : forall l, filter is_vis (map (@OUnsub W B) l) = []) by (induction l; auto).
  assert (H2 : forall l, filter is_vis (map (@OCancel W B) l) = []) by (induction l; auto).
  now rewrite H1, H2.
Qed.
Lemma vis_unsubs {W B} (l : list nat) : filter is_vis (map (@OUnsub W B) l) = [].
Proof. induction l; auto. Qed.
Lemma vis_wins {W B} (e : ev W) q : filter is_vis (map (fun j => @OWin W B j e) q) = map (fun j => OWin j e) q.
Proof. induction q as [|j t IH]; [reflexivity|]. cbn [map filter is_vis]. now rewrite IH. Qed.

(* ---- the closing subscriptions ---- *)
Definition cl_ws (cls : list (nat * bool)) : list nat := map fst (filter snd cls).
Fixpoint cl_find (j : nat) (cls : list (nat * bool)) : option bool :=
  match cls with [] => None | (i, b) :: t => if Nat.eqb j i then Some b else cl_find j t end.
Fixpoint cl_del (j : nat) (cls : list (nat * bool)) : list (nat * bool) :=
  match cls with [] => [] | (i, b) :: t => if Nat.eqb j i then t else (i, b) :: cl_del j t end.
Definition cl_close (cls : list (nat * bool)) : list (nat * bool) := map (fun c => (fst c, false)) cls.

Lemma cl_ws_app a b : cl_ws (a ++ b) = cl_ws a ++ cl_ws b.
Proof. unfold cl_ws. now rewrite filter_app, map_app. Qed.
Lemma cl_ws_close cls : cl_ws (cl_close cls) = [].
Proof. induction cls as [|[i b] t IH]; [reflexivity|exact IH]. Qed.
Lemma cl_keys_close cls : map fst (cl_close cls) = map fst cls.
Proof. unfold cl_close. rewrite map_map. reflexivity. Qed.

Lemma cl_find_notin j cls : ~ In j (map fst cls) -> cl_find j cls = None.
Proof.
  induction cls as [|[i b] t IH]; intros H; [reflexivity|]. cbn [cl_find].
  destruct (Nat.eqb_spec j i) as [->|]; [exfalso; apply H; left; reflexivity|]. apply IH. intros Hi. apply H. right. exact Hi.
Qed.
Lemma cl_find_in j cls : cl_find j cls <> None -> In j (map fst cls).
Proof.
  induction cls as [|[i b] t IH]; [intros H; now contradiction H|]. cbn [cl_find map fst].
  destruct (Nat.eqb_spec j i) as [->|]; [left; reflexivity|]. intros H. right. auto.
Qed.
Lemma cl_del_keys_incl j cls i : In i (map fst (cl_del j cls)) -> In i (map fst cls).
Proof.
  induction cls as [|[i' b] t IH]; [auto|]. cbn [cl_del]. destruct (Nat.eqb j i'); cbn [map fst In]; [auto|].
  intros [H|H]; auto.
Qed.
Lemma cl_del_nodup j cls : NoDup (map fst cls) -> NoDup (map fst (cl_del j cls)).
Proof.
  induction cls as [|[i b] t IH]; [auto|]. cbn [map fst cl_del]. intros H. inversion H as [|? ? Hn Hd]; subst.
  destruct (Nat.eqb j i); [exact Hd|]. cbn [map fst]. constructor; [|auto].
  intros Hi. apply Hn. eapply cl_del_keys_incl; eauto.
Qed.
(* the open windows after a closing subscription is removed *)
Lemma cl_ws_del j cls : NoDup (map fst cls) ->
  cl_ws (cl_del j cls) = filter (fun i => negb (Nat.eqb j i)) (cl_ws cls).
Proof.
  induction cls as [|[i b] t IH]; [reflexivity|]. cbn [map fst cl_del]. intros H. inversion H as [|? ? Hn Hd]; subst.
  destruct (Nat.eqb_spec j i) as [->|Hne].
  - unfold cl_ws. cbn [filter snd]. destruct b; cbn [map fst filter].
    + rewrite Nat.eqb_refl. cbn [negb]. symmetry. apply filter_notin.
      intros Hi. apply Hn. apply in_map_iff in Hi. destruct Hi as (c & <- & Hc). apply filter_In in Hc.
      apply in_map. tauto.
    + symmetry. apply filter_notin.
      intros Hi. apply Hn. apply in_map_iff in Hi. destruct Hi as (c & <- & Hc). apply filter_In in Hc.
      apply in_map. tauto.
  - unfold cl_ws in *. cbn [filter snd]. destruct b; cbn [map fst filter]; rewrite ?IH by exact Hd.
    + destruct (Nat.eqb_spec j i); [contradiction|]. reflexivity.
    + reflexivity.
Qed.
Lemma cl_ws_in j cls : In j (cl_ws cls) <-> In (j, true) cls.
Proof.
  unfold cl_ws. rewrite in_map_iff. split.
  - intros ([i b] & <- & Hc). apply filter_In in Hc. destruct Hc as [Hc Hb]. cbn in Hb. subst b. exact Hc.
  - intros H. exists (j, true). split; [reflexivity|]. apply filter_In. auto.
Qed.
Lemma cl_find_some j b cls : NoDup (map fst cls) -> (cl_find j cls = Some b <-> In (j, b) cls).
Proof.
  induction cls as [|[i b'] t IH]; intros H; [split; [discriminate|intros []]|].
  cbn [map fst] in H. inversion H as [|? ? Hn Hd]; subst. cbn [cl_find].
  destruct (Nat.eqb_spec j i) as [->|Hne]; split.
  - intros [= ->]. left. reflexivity.
  - intros [[= ->]|Hi]; [reflexivity|]. exfalso. apply Hn. apply in_map_iff. exists (i, b). auto.
  - intros Hf. right. apply IH; assumption.
  - intros [[= -> ->]|Hi]; [contradiction|]. apply IH; assumption.
Qed.
Lemma cl_ws_nodup cls : NoDup (map fst cls) -> NoDup (cl_ws cls).
Proof.
  induction cls as [|[i b] t IH]; [constructor|]. cbn [map fst]. intros H. inversion H as [|? ? Hn Hd]; subst.
  unfold cl_ws in *. cbn [filter snd]. destruct b; cbn [map fst]; [|auto]. constructor; [|auto].
  intros Hi. apply Hn. apply in_map_iff in Hi. destruct Hi as (c & <- & Hc). apply filter_In in Hc. apply in_map. tauto.
Qed.

Section WindowToggle.
Context {A B : Type}.
Variable mapper : nat -> res unit.
Notation M := (x_window_toggle (A:=A) (B:=B) mapper).
Notation tin := (Z * nat * ev A)%type.

Definition tg_errs (l1 : bool) (ws : list nat) (pos : nat) (z : Z) : list (nat * obs A B) :=
  map (fun j => (pos, OWin j (Err z))) ws ++ (if l1 then [(pos, OEmit (Err z))] else []).

Fixpoint tg_walk (l0 l1 : bool) (cls : list (nat * bool)) (g pos : nat) (ins : list tin) : list (nat * obs A B) :=
  match ins with
  | [] => []
  | (_, k, e) :: rest =>
      match k with
      | O =>
          if l0 then
            match e with
            | Next x => map (fun j => (pos, OWin j (Next x))) (cl_ws cls) ++ tg_walk l0 l1 cls g (S pos) rest
            | Err z => tg_errs l1 (cl_ws cls) pos z
            | Done => map (fun j => (pos, OWin j Done)) (cl_ws cls)
                      ++ (if l1 then tg_walk false l1 (cl_close cls) g (S pos) rest else [])
            end
          else tg_walk l0 l1 cls g (S pos) rest
      | S O =>
          if l1 then
            match e with
            | Next _ =>
                (pos, OHand g 0)
                :: match mapper g with
                   | Ok _ => tg_walk l0 l1 (cls ++ [(g, true)]) (S g) (S pos) rest
                   | Raise z => tg_errs true (cl_ws cls ++ [g]) pos z
                   end
            | Err z => tg_errs l1 (cl_ws cls) pos z
            | Done => (pos, OEmit Done)
                      :: match cl_ws cls with [] => [] | _ :: _ => tg_walk l0 false cls g (S pos) rest end
            end
          else tg_walk l0 l1 cls g (S pos) rest
      | S (S j) =>
          match cl_find j cls with
          | None => tg_walk l0 l1 cls g (S pos) rest
          | Some b =>
              match e with
              | Err z => tg_errs l1 (cl_ws cls) pos z
              | _ =>
                  if b then
                    (pos, OWin j Done)
                    :: (if negb l1 && match cl_ws (cl_del j cls) with [] => true | _ => false end then []
                        else tg_walk l0 l1 (cl_del j cls) g (S pos) rest)
                  else tg_walk l0 l1 (cl_del j cls) g (S pos) rest
              end
          end
      end
  end.

(* ---- the runner's and the machine's state ---- *)
Definition tg_live (l0 l1 : bool) (cls : list (nat * bool)) : list nat :=
  (if l1 then [1%nat] else []) ++ (if l0 then [0%nat] else []) ++ map (fun c => S (S (fst c))) cls.
Definition tg_rstate (l0 l1 : bool) (cls : list (nat * bool)) (wt : list (nat * ev A)) (g : nat) : rstate A :=
  RState (tg_live l0 l1 cls) [] l1 (cl_ws cls) wt (seq 0 g) false.
Definition tg_mstate (cls : list (nat * bool)) (g : nat) : wg_st :=
  WgSt (map (fun j => (j, S (S j))) (cl_ws cls)) g g.

Record tg_inv (l1 : bool) (cls : list (nat * bool)) (wt : list (nat * ev A)) (g : nat) : Prop := {
  tv_nodup : NoDup (map fst cls);
  tv_lt : forall j, In j (map fst cls) -> (j < g)%nat;
  tv_wt : forall j, In j (cl_ws cls) \/ (g <= j)%nat -> wterm_of j wt = None;
  tv_alive : l1 = false -> cl_ws cls <> [] }.

Lemma mem_app' k a b : mem k (a ++ b) = mem k a || mem k b.
Proof. unfold Multi.mem. apply existsb_app. Qed.
Lemma mem_keys k cls : mem (S (S k)) (map (fun c : nat * bool => S (S (fst c))) cls)
  = match cl_find k cls with Some _ => true | None => false end.
Proof.
  induction cls as [|[i b] t IH]; [reflexivity|]. cbn [map fst cl_find]. rewrite mem_cons. cbn [Nat.eqb].
  destruct (Nat.eqb k i); [reflexivity|exact IH].
Qed.
Lemma mem_keys_low k cls : (k < 2)%nat -> mem k (map (fun c : nat * bool => S (S (fst c))) cls) = false.
Proof.
  intros Hk. induction cls as [|[i b] t IH]; [reflexivity|]. cbn [map fst]. rewrite mem_cons.
  destruct k as [|[|k]]; [exact IH|exact IH|lia].
Qed.

Lemma tg_live_mem0 l0 l1 cls : mem 0 (tg_live l0 l1 cls) = l0.
Proof. unfold tg_live. rewrite !mem_app', mem_keys_low by lia. destruct l0, l1; reflexivity. Qed.
Lemma tg_live_mem1 l0 l1 cls : mem 1 (tg_live l0 l1 cls) = l1.
Proof. unfold tg_live. rewrite !mem_app', mem_keys_low by lia. destruct l0, l1; reflexivity. Qed.
Lemma tg_live_memS l0 l1 cls k : mem (S (S k)) (tg_live l0 l1 cls) = match cl_find k cls with Some _ => true | None => false end.
Proof. unfold tg_live. rewrite !mem_app', mem_keys. destruct l0, l1; reflexivity. Qed.

Lemma remove_keys k cls : remove (S (S k)) (map (fun c : nat * bool => S (S (fst c))) cls)
  = map (fun c => S (S (fst c))) (cl_del k cls).
Proof.
  induction cls as [|[i b] t IH]; [reflexivity|]. cbn [map fst cl_del]. rewrite remove_cons'. cbn [Nat.eqb].
  destruct (Nat.eqb k i); [reflexivity|]. cbn [map fst]. now rewrite IH.
Qed.
Lemma tg_live_remove0 l1 cls : remove 0 (tg_live true l1 cls) = tg_live false l1 cls.
Proof. unfold tg_live. destruct l1; reflexivity. Qed.
Lemma tg_live_remove1 l0 cls : remove 1 (tg_live l0 true cls) = tg_live l0 false cls.
Proof. reflexivity. Qed.
Lemma tg_live_removeS l0 l1 cls k : remove (S (S k)) (tg_live l0 l1 cls) = tg_live l0 l1 (cl_del k cls).
Proof. unfold tg_live. destruct l0, l1; cbn [app]; rewrite ?remove_cons'; cbn [Nat.eqb]; now rewrite remove_keys. Qed.
Lemma tg_live_snoc l0 l1 cls g b : tg_live l0 l1 cls ++ [S (S g)] = tg_live l0 l1 (cls ++ [(g, b)]).
Proof. unfold tg_live. rewrite map_app, <- !app_assoc. reflexivity. Qed.
Lemma tg_live_close l0 l1 cls : tg_live l0 l1 (cl_close cls) = tg_live l0 l1 cls.
Proof. unfold tg_live, cl_close. rewrite map_map. reflexivity. Qed.

Lemma wg_find_ws k ws : wg_find (S (S k)) (map (fun j => (j, S (S j))) ws) = if mem k ws then Some k else None.
Proof.
  induction ws as [|i t IH]; [reflexivity|]. cbn [map wg_find]. rewrite mem_cons. cbn [Nat.eqb].
  destruct (Nat.eqb_spec k i) as [->|]; [reflexivity|exact IH].
Qed.
Lemma mem_In k l : mem k l = true <-> In k l.
Proof.
  unfold Multi.mem. rewrite existsb_exists. split.
  - intros (x & Hx & E). apply Nat.eqb_eq in E. now subst.
  - intros H. exists k. split; [exact H|apply Nat.eqb_refl].
Qed.
Lemma wg_windows_ms cls g : wg_windows (tg_mstate cls g) = cl_ws cls.
Proof. unfold wg_windows, tg_mstate. cbn [wg_open]. rewrite map_map. cbn [fst]. apply map_id. Qed.

(* ---- `for s in windows: s.on_error / on_completed`: every open window sees the terminal; when the
   outer has already ended the last one releases everything ---- *)
Lemma count_of_nodup j (l : list nat) : NoDup l -> In j l -> count_of j l = 1%nat.
Proof.
  induction 1 as [|x t Hx Ht IH]; [intros []|]. intros [->|Hi]; unfold count_of in *; cbn [filter].
  - rewrite Nat.eqb_refl. cbn [length]. f_equal. apply (count_of_notin j t Hx).
  - destruct (Nat.eqb_spec j x) as [->|]; [contradiction|]. apply IH. exact Hi.
Qed.

Lemma wins_term_vis (e : ev A) : is_terminal e = true -> forall ws, NoDup ws -> forall live outer wt hd,
  (forall j, In j ws -> wterm_of j wt = None) ->
  filter is_vis (snd (apply_cmds (B:=B) all_imm (RState live [] outer ws wt hd false) (map (fun j => CWin j e) ws)))
  = map (fun j => OWin j e) ws
  /\ (if outer || match ws with [] => true | _ => false end
      then fst (apply_cmds (B:=B) all_imm (RState live [] outer ws wt hd false) (map (fun j => CWin j e) ws))
           = RState live [] outer [] (wt ++ map (fun j => (j, e)) ws) hd false
      else r_live (fst (apply_cmds (B:=B) all_imm (RState live [] outer ws wt hd false) (map (fun j => CWin j e) ws))) = []
           /\ r_outer (fst (apply_cmds (B:=B) all_imm (RState live [] outer ws wt hd false) (map (fun j => CWin j e) ws))) = false).
Proof.
  intros He. induction 1 as [|j t Hj Ht IH]; intros live outer wt hd Hw.
  - cbn [map apply_cmds fst snd filter]. rewrite Bool.orb_true_r, app_nil_r. auto.
  - cbn [map apply_cmds apply_cmd r_wterm r_wsubs r_live r_timers r_outer r_handed r_released].
    rewrite (Hw j (or_introl eq_refl)), He.
    assert (Ec : count_of j (j :: t) = 1%nat) by (apply count_of_nodup; [constructor; assumption|left; reflexivity]).
    rewrite Ec. cbn [filter]. rewrite Nat.eqb_refl. cbn [negb]. rewrite (filter_notin j t Hj).
    assert (Hw' : forall i, In i t -> wterm_of i (wt ++ [(j, e)]) = None).
    { intros i Hi. rewrite wterm_of_app, (Hw i (or_intror Hi)). cbn [wterm_of].
      destruct (Nat.eqb_spec i j) as [->|]; [contradiction|reflexivity]. }
    unfold maybe_release. cbn [r_outer r_released r_wsubs r_live r_timers r_wterm r_handed negb andb repeat app].
    destruct outer; cbn [negb andb orb].
    + destruct (IH live true (wt ++ [(j, e)]) hd Hw') as [I1 I2]. cbn [orb] in I2.
      destruct (apply_cmds all_imm _ (map (fun j0 => CWin j0 e) t)) as [r2 o2]. cbn [fst snd] in *.
      cbn [app filter is_vis]. rewrite I1. split; [reflexivity|]. rewrite I2, <- app_assoc. reflexivity.
    + destruct t as [|i t'].
      * cbn [map apply_cmds fst snd app filter is_vis]. rewrite app_nil_r, vis_release. repeat split; reflexivity.
      * destruct (IH live false (wt ++ [(j, e)]) hd Hw') as [I1 I2]. cbn [orb] in I2.
        destruct (apply_cmds all_imm _ (map (fun j0 => CWin j0 e) (i :: t'))) as [r2 o2]. cbn [fst snd] in *.
        cbn [app filter is_vis]. rewrite I1. split; [reflexivity|exact I2].
Qed.

(* ---- one delivered input, without the let-patterns ---- *)
Definition detach_src (i : inp A) (r2 : rstate A) : rstate A * list (obs A B) :=
  match i with
  | ISrc k e => if is_terminal e && mem k (r_live r2)
                then (RState (remove k (r_live r2)) (r_timers r2) (r_outer r2) (r_wsubs r2) (r_wterm r2)
                             (r_handed r2) (r_released r2), [OUnsub k])
                else (r2, [])
  | _ => (r2, [])
  end.

Lemma deliver_eq s (r : rstate A) now i :
  deliver all_imm M s r now i
  = (fst (fst (x_step M s now i)),
     fst (detach_src i (fst (finish (B:=B) (fst (apply_cmds all_imm r (snd (fst (x_step M s now i))))) (snd (x_step M s now i))))),
     snd (apply_cmds all_imm r (snd (fst (x_step M s now i))))
     ++ snd (finish (B:=B) (fst (apply_cmds all_imm r (snd (fst (x_step M s now i))))) (snd (x_step M s now i)))
     ++ snd (detach_src i (fst (finish (B:=B) (fst (apply_cmds all_imm r (snd (fst (x_step M s now i))))) (snd (x_step M s now i)))))).
Proof.
  unfold deliver, detach_src. destruct (x_step M s now i) as [[s' cs] f]. cbn [fst snd].
  destruct (apply_cmds all_imm r cs) as [r1 o1]. cbn [fst snd]. destruct (finish r1 f) as [r2 o2]. cbn [fst snd].
  destruct i as [k e| | | |]; try reflexivity. destruct (is_terminal e && mem k (r_live r2)); reflexivity.
Qed.

Lemma detach_dead i (r2 : rstate A) : r_live r2 = [] -> detach_src i r2 = (r2, []).
Proof. intros H. unfold detach_src. destruct i; try reflexivity. rewrite H, mem_nil', Bool.andb_false_r. reflexivity. Qed.

Lemma finish_dead (r : rstate A) f : r_outer r = false -> finish (B:=B) r f = (r, []).
Proof. intros H. destruct f; cbn [finish]; rewrite ?H; reflexivity. Qed.

(* the outcome of one boundary input: what the subscribers see and where the run goes on *)
Definition tg_next (res : wg_st * rstate A * list (obs A B)) (vis : list (obs A B))
  (nxt : option (bool * bool * list (nat * bool) * nat)) : Prop :=
  filter is_vis (snd res) = vis /\
  match nxt with
  | None => r_live (snd (fst res)) = []
  | Some (l0', l1', cls', g') =>
      exists wt', fst (fst res) = tg_mstate cls' g' /\ snd (fst res) = tg_rstate l0' l1' cls' wt' g' /\ tg_inv l1' cls' wt' g'
  end.

Lemma wterm_of_map_notin j (e : ev A) (l : list nat) : ~ In j l -> wterm_of j (map (fun i => (i, e)) l) = None.
Proof.
  induction l as [|i t IH]; intros H; [reflexivity|]. cbn [map wterm_of].
  destruct (Nat.eqb_spec j i) as [->|]; [exfalso; apply H; left; reflexivity|]. apply IH. intros Hi. apply H. right. exact Hi.
Qed.

Lemma tg_ws_lt l1 cls wt g j : tg_inv l1 cls wt g -> In j (cl_ws cls) -> (j < g)%nat.
Proof.
  intros I Hj. apply (tv_lt _ _ _ _ I). unfold cl_ws in Hj. apply in_map_iff in Hj. destruct Hj as (c & <- & Hc).
  apply filter_In in Hc. apply in_map. tauto.
Qed.

(* an error on a subscribed port: every open window, then the outer if it is still live *)
Lemma tg_fail l0 l1 cls wt g z : tg_inv l1 cls wt g ->
  let ac := apply_cmds (B:=B) all_imm (tg_rstate l0 l1 cls wt g) (wins_all (cl_ws cls) (Err z)) in
  let fi := finish (B:=B) (fst ac) (Fail z) in
  r_live (fst fi) = []
  /\ filter is_vis (snd ac ++ snd fi) = map (fun j => OWin j (Err z)) (cl_ws cls) ++ (if l1 then [OEmit (Err z)] else []).
Proof.
  intros I. cbn zeta. unfold tg_rstate, wins_all.
  destruct (wins_term_vis (Err z) eq_refl (cl_ws cls) (cl_ws_nodup cls (tv_nodup _ _ _ _ I)) (tg_live l0 l1 cls) l1 wt (seq 0 g))
    as [V St]; [intros j Hj; apply (tv_wt _ _ _ _ I); left; exact Hj|].
  destruct (apply_cmds all_imm _ (map (fun j => CWin j (Err z)) (cl_ws cls))) as [r1 o1]. cbn [fst snd] in *.
  rewrite filter_app, V. destruct l1; cbn [orb] in St.
  - subst r1. cbn [finish r_outer]. unfold end_outer, maybe_release.
    cbn [r_outer r_released r_wsubs r_live r_timers r_wterm r_handed negb andb fst snd filter is_vis].
    rewrite vis_release. split; reflexivity.
  - destruct (cl_ws cls) as [|j t] eqn:Ew; [exfalso; exact (tv_alive _ _ _ _ I eq_refl Ew)|].
    destruct St as [St1 St2]. rewrite (finish_dead r1 (Fail z) St2). cbn [fst snd filter]. rewrite app_nil_r. auto.
Qed.

Ltac rs := cbn [r_live r_timers r_outer r_wsubs r_wterm r_handed r_released fst snd app apply_cmds apply_cmd
                finish is_terminal all_imm negb andb orb repeat filter].

Lemma tg_wins_ok l1 cls wt g : tg_inv l1 cls wt g ->
  forall j, In j (cl_ws cls) -> wterm_of j wt = None /\ count_of j (cl_ws cls) = 1%nat.
Proof.
  intros I j Hj. split; [apply (tv_wt _ _ _ _ I); left; exact Hj|].
  apply count_of_nodup; [apply cl_ws_nodup, (tv_nodup _ _ _ _ I)|exact Hj].
Qed.

(* a port that is not subscribed (any more) is not heard *)
Lemma tg_step_skip l0 l1 cls wt g t k e : tg_inv l1 cls wt g -> mem k (tg_live l0 l1 cls) = false ->
  tg_next (rstep all_imm M (tg_mstate cls g) (tg_rstate l0 l1 cls wt g) t (ISrc k e)) [] (Some (l0, l1, cls, g)).
Proof.
  intros I Hm. unfold rstep. cbn [tg_rstate r_live]. rewrite Hm. split; [reflexivity|]. exists wt. auto.
Qed.

(* a source element *)
Lemma tg_step_src_next l1 cls wt g t x : tg_inv l1 cls wt g ->
  tg_next (rstep all_imm M (tg_mstate cls g) (tg_rstate true l1 cls wt g) t (ISrc 0%nat (Next x)))
          (map (fun j => OWin j (Next x)) (cl_ws cls)) (Some (true, l1, cls, g)).
Proof.
  intros I. unfold rstep. cbn [tg_rstate r_live]. rewrite tg_live_mem0, deliver_eq.
  cbn [x_step x_window_toggle fst snd]. rewrite wg_windows_ms. unfold wins_all.
  rewrite apply_cmds_wins_next by (intros j Hj; cbn [r_wterm r_wsubs]; exact (tg_wins_ok l1 cls wt g I j Hj)).
  cbn [fst snd finish detach_src is_terminal andb]. rewrite !app_nil_r. split; [apply vis_wins|].
  exists wt. auto.
Qed.

(* the source completes *)
Lemma tg_step_src_done l1 cls wt g t : tg_inv l1 cls wt g ->
  tg_next (rstep all_imm M (tg_mstate cls g) (tg_rstate true l1 cls wt g) t (ISrc 0%nat Done))
          (map (fun j => OWin j Done) (cl_ws cls))
          (if l1 then Some (false, l1, cl_close cls, g) else None).
Proof.
  intros I. unfold rstep. cbn [tg_rstate r_live]. rewrite tg_live_mem0, deliver_eq.
  cbn [x_step x_window_toggle fst snd wg_next wg_calls tg_mstate]. fold (tg_mstate cls g). rewrite wg_windows_ms.
  unfold wins_all.
  destruct (wins_term_vis Done eq_refl (cl_ws cls) (cl_ws_nodup cls (tv_nodup _ _ _ _ I)) (tg_live true l1 cls) l1 wt (seq 0 g))
    as [V St]; [intros j Hj; apply (tv_wt _ _ _ _ I); left; exact Hj|].
  destruct (apply_cmds all_imm _ (map (fun j => CWin j Done) (cl_ws cls))) as [r1 o1]. cbn [fst snd finish] in *.
  destruct l1; cbn [orb] in St.
  - subst r1. unfold detach_src. cbn [is_terminal andb r_live]. rewrite tg_live_mem0. cbn [fst snd].
    split; cbn [fst snd r_timers r_outer r_wsubs r_wterm r_handed r_released];
      [rewrite !filter_app, V; cbn [filter is_vis]; rewrite !app_nil_r; reflexivity|].
    exists (wt ++ map (fun j => (j, Done)) (cl_ws cls)). repeat split.
    + unfold tg_mstate. rewrite cl_ws_close. reflexivity.
    + unfold tg_rstate. cbn [r_timers r_outer r_wsubs r_wterm r_handed r_released].
      rewrite tg_live_remove0, tg_live_close, cl_ws_close. reflexivity.
    + rewrite cl_keys_close. apply (tv_nodup _ _ _ _ I).
    + rewrite cl_keys_close. apply (tv_lt _ _ _ _ I).
    + rewrite cl_ws_close. intros j [[]|Hj]. rewrite wterm_of_app, (tv_wt _ _ _ _ I j (or_intror Hj)).
      apply wterm_of_map_notin. intros Hi. pose proof (tg_ws_lt _ _ _ _ _ I Hi). lia.
    + discriminate.
  - destruct (cl_ws cls) as [|j t'] eqn:Ew; [exfalso; exact (tv_alive _ _ _ _ I eq_refl Ew)|].
    destruct St as [St1 St2]. rewrite (detach_dead _ r1 St1). cbn [fst snd]. rewrite !app_nil_r. split; [exact V|exact St1].
Qed.

(* an error on a subscribed port *)
Lemma tg_step_err l0 l1 cls wt g t k z : tg_inv l1 cls wt g -> mem k (tg_live l0 l1 cls) = true ->
  tg_next (rstep all_imm M (tg_mstate cls g) (tg_rstate l0 l1 cls wt g) t (ISrc k (Err z)))
          (map (fun j => OWin j (Err z)) (cl_ws cls) ++ (if l1 then [OEmit (Err z)] else [])) None.
Proof.
  intros I Hm. unfold rstep. cbn [tg_rstate r_live]. rewrite Hm, deliver_eq.
  rewrite (window_toggle_error_fanout (A:=A) (B:=B) mapper (tg_mstate cls g) t k z). cbn [fst snd].
  rewrite wg_windows_ms. destruct (tg_fail l0 l1 cls wt g z I) as [D V]. cbn zeta in *.
  fold (tg_rstate l0 l1 cls wt g). rewrite (detach_dead _ _ D). cbn [fst snd]. rewrite app_nil_r. split; [exact V|exact D].
Qed.

Lemma NoDup_app_snoc {X} (l : list X) x : NoDup l -> ~ In x l -> NoDup (l ++ [x]).
Proof.
  induction 1 as [|y t Hy Ht IH]; intros Hx; cbn [app]; [constructor; [intros []|constructor]|].
  constructor.
  - intros Hi. apply in_app_or in Hi. destruct Hi as [Hi|[<-|[]]]; [contradiction|]. apply Hx. left. reflexivity.
  - apply IH. intros Hi. apply Hx. right. exact Hi.
Qed.

Lemma mem_snoc_self k l : mem k (l ++ [k]) = true.
Proof. rewrite mem_app', mem_cons, Nat.eqb_refl. cbn [orb]. apply Bool.orb_true_r. Qed.

Lemma tg_inv_open cls wt g : tg_inv true cls wt g -> tg_inv true (cls ++ [(g, true)]) wt (S g).
Proof.
  intros I. constructor.
  - rewrite map_app. cbn [map fst]. apply NoDup_app_snoc; [apply (tv_nodup _ _ _ _ I)|].
    intros Hi. pose proof (tv_lt _ _ _ _ I g Hi). lia.
  - intros j Hj. rewrite map_app in Hj. apply in_app_or in Hj. destruct Hj as [Hj|[Hj|[]]]; [|cbn in Hj; lia].
    pose proof (tv_lt _ _ _ _ I j Hj). lia.
  - intros j Hj. apply (tv_wt _ _ _ _ I). rewrite cl_ws_app in Hj. cbn in Hj.
    destruct Hj as [Hj|Hj]; [|right; lia]. apply in_app_or in Hj. destruct Hj as [Hj|[<-|[]]]; [left; exact Hj|right; lia].
  - discriminate.
Qed.

(* the openings emit: a new window, a new closing observable *)
Lemma tg_step_open_ok l0 cls wt g t v u : tg_inv true cls wt g -> mapper g = Ok u ->
  tg_next (rstep all_imm M (tg_mstate cls g) (tg_rstate l0 true cls wt g) t (ISrc 1%nat (Next v)))
          [OHand g 0] (Some (l0, true, cls ++ [(g, true)], S g)).
Proof.
  intros I Hm. unfold rstep. cbn [tg_rstate r_live]. rewrite tg_live_mem1, deliver_eq.
  cbn [x_step x_window_toggle fst snd wg_next wg_calls wg_open tg_mstate]. rewrite Hm. cbn [fst snd].
  unfold tg_rstate. rs. unfold sub_win. rs. rewrite (tv_wt _ _ _ _ I g (or_intror (le_n g))), mem_snoc_self. rs.
  unfold detach_src. rs. split; [reflexivity|].
  exists wt. repeat split.
  - unfold tg_mstate. rewrite cl_ws_app, map_app. reflexivity.
  - cbn [fst snd]. change (2 + g)%nat with (S (S g)). unfold tg_rstate. rewrite tg_live_snoc with (b := true), cl_ws_app, (seq_S g 0). reflexivity.
  - apply (tv_nodup _ _ _ _ (tg_inv_open cls wt g I)).
  - apply (tv_lt _ _ _ _ (tg_inv_open cls wt g I)).
  - apply (tv_wt _ _ _ _ (tg_inv_open cls wt g I)).
  - discriminate.
Qed.

(* ... the closing mapper raises: the new window is handed, then everything ends with the error *)
Lemma tg_step_open_raise l0 cls wt g t v z : tg_inv true cls wt g -> mapper g = Raise z ->
  tg_next (rstep all_imm M (tg_mstate cls g) (tg_rstate l0 true cls wt g) t (ISrc 1%nat (Next v)))
          (OHand g 0 :: map (fun j => OWin j (Err z)) (cl_ws cls ++ [g]) ++ [OEmit (Err z)]) None.
Proof.
  intros I Hm. unfold rstep. cbn [tg_rstate r_live]. rewrite tg_live_mem1, deliver_eq.
  cbn [x_step x_window_toggle fst snd wg_next wg_calls wg_open tg_mstate]. rewrite Hm. cbn [fst snd].
  assert (Ew : wg_windows (WgSt (map (fun j => (j, S (S j))) (cl_ws cls) ++ [(g, 0%nat)]) (S g) (S g)) = cl_ws cls ++ [g]).
  { unfold wg_windows. cbn [wg_open]. rewrite map_app, map_map. cbn [map fst]. now rewrite map_id. }
  rewrite Ew. unfold tg_rstate. cbn [apply_cmds]. rs. unfold sub_win. rs.
  rewrite (tv_wt _ _ _ _ I g (or_intror (le_n g))), mem_snoc_self. rs.
  assert (Hnd : NoDup (cl_ws cls ++ [g])).
  { apply NoDup_app_snoc; [apply cl_ws_nodup, (tv_nodup _ _ _ _ I)|].
    intros Hi. pose proof (tg_ws_lt _ _ _ _ _ I Hi). lia. }
  unfold wins_all.
  destruct (wins_term_vis (Err z) eq_refl (cl_ws cls ++ [g]) Hnd (tg_live l0 true cls) true wt (seq 0 g ++ [g])) as [V St].
  { intros j Hj. apply (tv_wt _ _ _ _ I). apply in_app_or in Hj. destruct Hj as [Hj|[<-|[]]]; [left; exact Hj|right; lia]. }
  destruct (apply_cmds all_imm _ (map (fun j => CWin j (Err z)) (cl_ws cls ++ [g]))) as [r1 o1]. cbn [fst snd orb] in *.
  subst r1. cbn [finish r_outer]. unfold end_outer, maybe_release.
  cbn [r_outer r_released r_wsubs r_live r_timers r_wterm r_handed negb andb fst snd].
  rewrite detach_dead by reflexivity. cbn [fst snd]. split; [|reflexivity].
  cbn [snd]. rewrite app_nil_r. cbn [app filter is_vis]. rewrite !filter_app, V. cbn [filter is_vis]. rewrite vis_release. reflexivity.
Qed.

(* the openings complete: the outer sequence completes; the open windows go on *)
Lemma tg_step_open_done l0 cls wt g t : tg_inv true cls wt g ->
  tg_next (rstep all_imm M (tg_mstate cls g) (tg_rstate l0 true cls wt g) t (ISrc 1%nat Done))
          [OEmit Done] (match cl_ws cls with [] => None | _ :: _ => Some (l0, false, cls, g) end).
Proof.
  intros I. unfold rstep. cbn [tg_rstate r_live]. rewrite tg_live_mem1, deliver_eq.
  cbn [x_step x_window_toggle fst snd]. unfold tg_rstate. rs. unfold end_outer, maybe_release.
  cbn [r_outer r_released r_wsubs r_live r_timers r_wterm r_handed negb andb fst snd].
  destruct (cl_ws cls) as [|j t'] eqn:Ew.
  - cbn [fst snd]. rewrite detach_dead by reflexivity. cbn [fst snd]. split; [|reflexivity].
    cbn [snd]. rewrite app_nil_r. cbn [app filter is_vis]. rewrite vis_release. reflexivity.
  - cbn [fst snd]. unfold detach_src. cbn [is_terminal andb r_live]. rewrite tg_live_mem1. cbn [fst snd].
    split; [reflexivity|]. exists wt. repeat split.
    + unfold tg_rstate. rewrite Ew. cbn [r_timers r_outer r_wsubs r_wterm r_handed r_released]. now rewrite tg_live_remove1.
    + apply (tv_nodup _ _ _ _ I).
    + apply (tv_lt _ _ _ _ I).
    + apply (tv_wt _ _ _ _ I).
    + intros _. rewrite Ew. discriminate.
Qed.

Lemma filter_map_close j (ws : list nat) :
  filter (fun gc : nat * nat => negb (Nat.eqb (S (S j)) (snd gc))) (map (fun i => (i, S (S i))) ws)
  = map (fun i => (i, S (S i))) (filter (fun i => negb (Nat.eqb j i)) ws).
Proof.
  induction ws as [|i t IH]; [reflexivity|]. cbn [map]. cbn [filter].
  change (snd (i, S (S i))) with (S (S i)). change (Nat.eqb (S (S j)) (S (S i))) with (Nat.eqb j i).
  destruct (Nat.eqb j i); cbn [negb map]; now rewrite IH.
Qed.

Lemma cl_find_del_self j cls : NoDup (map fst cls) -> cl_find j (cl_del j cls) = None.
Proof.
  induction cls as [|[i b] t IH]; [reflexivity|]. cbn [map fst cl_del]. intros H. inversion H as [|? ? Hn Hd]; subst.
  destruct (Nat.eqb_spec j i) as [->|Hne]; [apply cl_find_notin; exact Hn|].
  cbn [cl_find]. destruct (Nat.eqb_spec j i); [contradiction|]. apply IH. exact Hd.
Qed.

Lemma tg_inv_del l1 cls wt g j (e : ev A) : tg_inv l1 cls wt g -> In j (map fst cls) ->
  (l1 = false -> cl_ws (cl_del j cls) <> []) -> tg_inv l1 (cl_del j cls) (wt ++ [(j, e)]) g.
Proof.
  intros I Hj Ha. pose proof (tv_nodup _ _ _ _ I) as Hnd. pose proof (tv_lt _ _ _ _ I j Hj) as Hjg. constructor.
  - apply cl_del_nodup, Hnd.
  - intros i Hi. apply (tv_lt _ _ _ _ I). eapply cl_del_keys_incl; eauto.
  - intros i Hi. rewrite wterm_of_app.
    assert (Hw : wterm_of i wt = None).
    { apply (tv_wt _ _ _ _ I). destruct Hi as [Hi|Hi]; [left|right; exact Hi].
      rewrite cl_ws_del in Hi by exact Hnd. apply filter_In in Hi. tauto. }
    rewrite Hw. cbn [wterm_of]. destruct (Nat.eqb_spec i j) as [->|]; [|reflexivity]. exfalso.
    destruct Hi as [Hi|Hi]; [|lia].
    rewrite cl_ws_del in Hi by exact Hnd. apply filter_In in Hi. destruct Hi as [_ Hi]. rewrite Nat.eqb_refl in Hi. discriminate.
  - exact Ha.
Qed.

(* the closing observable of an open window fires (an element or its completion): that window completes *)
Lemma tg_step_close_open l0 l1 cls wt g t j e : tg_inv l1 cls wt g -> cl_find j cls = Some true ->
  (forall z, e <> Err z) ->
  tg_next (rstep all_imm M (tg_mstate cls g) (tg_rstate l0 l1 cls wt g) t (ISrc (S (S j)) e)) [OWin j Done]
          (if negb l1 && match cl_ws (cl_del j cls) with [] => true | _ => false end then None
           else Some (l0, l1, cl_del j cls, g)).
Proof.
  intros I Hf He. pose proof (tv_nodup _ _ _ _ I) as Hnd.
  assert (Hin : In j (cl_ws cls)) by (apply cl_ws_in, (cl_find_some j true cls Hnd), Hf).
  assert (Hkey : In j (map fst cls)) by (apply cl_find_in; rewrite Hf; discriminate).
  assert (Ex : x_step M (tg_mstate cls g) t (ISrc (S (S j)) e)
               = (tg_mstate (cl_del j cls) g, [CWin j Done; CUnsub (S (S j))], Cont)).
  { assert (Efd : wg_find (S (S j)) (wg_open (tg_mstate cls g)) = Some j).
    { unfold tg_mstate. cbn [wg_open]. rewrite wg_find_ws, (proj2 (mem_In j (cl_ws cls)) Hin). reflexivity. }
    assert (Est : WgSt (filter (fun gc => negb (Nat.eqb (S (S j)) (snd gc))) (wg_open (tg_mstate cls g)))
                       (wg_next (tg_mstate cls g)) (wg_calls (tg_mstate cls g)) = tg_mstate (cl_del j cls) g).
    { unfold tg_mstate. cbn [wg_open wg_next wg_calls]. rewrite filter_map_close, <- cl_ws_del by exact Hnd. reflexivity. }
    destruct e as [x|z|]; [|exfalso; exact (He z eq_refl)|]; cbn [x_step x_window_toggle]; rewrite Efd, Est; reflexivity. }
  unfold rstep. cbn [tg_rstate r_live]. rewrite tg_live_memS, Hf, deliver_eq, Ex. cbn [fst snd].
  unfold tg_rstate. cbn [apply_cmds apply_cmd r_wterm r_wsubs r_live r_timers r_outer r_handed r_released].
  rewrite (tv_wt _ _ _ _ I j (or_introl Hin)), (proj2 (tg_wins_ok l1 cls wt g I j Hin)).
  cbn [is_terminal repeat app]. rewrite <- (cl_ws_del j cls Hnd).
  unfold maybe_release. cbn [r_outer r_released r_wsubs r_live r_timers r_wterm r_handed negb andb].
  rewrite Bool.andb_true_r.
  destruct (negb l1 && match cl_ws (cl_del j cls) with [] => true | _ => false end) eqn:Erel.
  - cbn [fst snd r_live]. rewrite mem_nil'. cbn [finish fst snd app]. rewrite detach_dead by reflexivity.
    cbn [fst snd]. split; [|reflexivity]. cbn [snd]. rewrite !app_nil_r. cbn [app filter is_vis]. rewrite ?vis_release, ?vis_unsubs. reflexivity.
  - cbn [fst snd r_live]. rewrite tg_live_memS, Hf. cbn [fst snd finish app r_live r_timers r_outer r_wsubs r_wterm r_handed r_released].
    unfold detach_src. cbn [r_live]. rewrite tg_live_removeS, tg_live_memS, (cl_find_del_self j cls Hnd), Bool.andb_false_r.
    cbn [fst snd]. split; [reflexivity|].
    exists (wt ++ [(j, Done)]). split; [reflexivity|]. split; [reflexivity|].
    apply tg_inv_del; [exact I|exact Hkey|]. intros ->. cbn [negb andb] in Erel.
    destruct (cl_ws (cl_del j cls)); [discriminate Erel|discriminate].
Qed.

(* ... of a window the source's completion closed before: the subscription goes, nothing else *)
Lemma tg_step_close_orphan l0 l1 cls wt g t j e : tg_inv l1 cls wt g -> cl_find j cls = Some false ->
  (forall z, e <> Err z) ->
  tg_next (rstep all_imm M (tg_mstate cls g) (tg_rstate l0 l1 cls wt g) t (ISrc (S (S j)) e)) []
          (Some (l0, l1, cl_del j cls, g)).
Proof.
  intros I Hf He. pose proof (tv_nodup _ _ _ _ I) as Hnd.
  assert (Hnin : ~ In j (cl_ws cls)).
  { intros Hin. apply cl_ws_in, (cl_find_some j true cls Hnd) in Hin. congruence. }
  assert (Hkey : In j (map fst cls)) by (apply cl_find_in; rewrite Hf; discriminate).
  assert (Ews : cl_ws (cl_del j cls) = cl_ws cls) by (rewrite cl_ws_del by exact Hnd; apply filter_notin, Hnin).
  assert (Ex : x_step M (tg_mstate cls g) t (ISrc (S (S j)) e) = (tg_mstate cls g, [CUnsub (S (S j))], Cont)).
  { assert (Efd : wg_find (S (S j)) (wg_open (tg_mstate cls g)) = None).
    { unfold tg_mstate. cbn [wg_open]. rewrite wg_find_ws.
      destruct (mem j (cl_ws cls)) eqn:Em; [apply mem_In in Em; contradiction|reflexivity]. }
    destruct e as [x|z|]; [|exfalso; exact (He z eq_refl)|]; cbn [x_step x_window_toggle]; rewrite Efd; reflexivity. }
  unfold rstep. cbn [tg_rstate r_live]. rewrite tg_live_memS, Hf, deliver_eq, Ex. cbn [fst snd].
  unfold tg_rstate. cbn [apply_cmds apply_cmd r_wterm r_wsubs r_live r_timers r_outer r_handed r_released].
  rewrite tg_live_memS, Hf. cbn [fst snd finish app r_live r_timers r_outer r_wsubs r_wterm r_handed r_released].
  unfold detach_src. cbn [r_live]. rewrite tg_live_removeS, tg_live_memS, (cl_find_del_self j cls Hnd), Bool.andb_false_r.
  cbn [fst snd]. split; [reflexivity|].
  exists wt. repeat split.
  - cbn [fst snd]. unfold tg_mstate. now rewrite Ews.
  - cbn [fst snd]. unfold tg_rstate. now rewrite Ews.
  - apply cl_del_nodup, Hnd.
  - intros i Hi. apply (tv_lt _ _ _ _ I). eapply cl_del_keys_incl; eauto.
  - intros i Hi. apply (tv_wt _ _ _ _ I). rewrite Ews in Hi. exact Hi.
  - rewrite Ews. apply (tv_alive _ _ _ _ I).
Qed.

Lemma tg_run_from : forall (ins : list tin) l0 l1 cls wt g pos, tg_inv l1 cls wt g ->
  visible (fst (run_from all_imm M (tg_mstate cls g) (tg_rstate l0 l1 cls wt g) pos (wports ins)))
  = tg_walk l0 l1 cls g pos ins.
Proof.
  induction ins as [|[[t k] e] rest IH]; intros l0 l1 cls wt g pos I; [reflexivity|].
  rewrite wports_cons, run_from_cons. cbn [fst].
  assert (Use : forall vis nxt,
            tg_next (rstep all_imm M (tg_mstate cls g) (tg_rstate l0 l1 cls wt g) t (ISrc k e)) vis nxt ->
            visible (map (fun x => (pos, x)) (snd (rstep all_imm M (tg_mstate cls g) (tg_rstate l0 l1 cls wt g) t (ISrc k e)))
                     ++ fst (run_from all_imm M (fst (fst (rstep all_imm M (tg_mstate cls g) (tg_rstate l0 l1 cls wt g) t (ISrc k e))))
                                      (snd (fst (rstep all_imm M (tg_mstate cls g) (tg_rstate l0 l1 cls wt g) t (ISrc k e))))
                                      (S pos) (wports rest)))
            = map (fun x => (pos, x)) vis
              ++ match nxt with
                 | None => []
                 | Some (l0', l1', cls', g') => tg_walk l0' l1' cls' g' (S pos) rest
                 end).
  { intros vis nxt Hn0.
    remember (rstep all_imm M (tg_mstate cls g) (tg_rstate l0 l1 cls wt g) t (ISrc k e)) as res eqn:Er. clear Er.
    destruct res as [[s' r'] o]. destruct Hn0 as [Hv Hn]. cbn [fst snd] in *.
    rewrite visible_app, visible_tag, Hv. f_equal.
    destruct nxt as [[[[l0' l1'] cls'] g']|].
    - destruct Hn as (wt' & -> & -> & I'). apply IH. exact I'.
    - rewrite run_from_deaf by exact Hn. reflexivity. }
  cbn [tg_walk]. destruct k as [|[|j]].
  - (* the source *)
    destruct l0.
    2: { rewrite (Use [] _ (tg_step_skip false l1 cls wt g t 0 e I (tg_live_mem0 false l1 cls))). reflexivity. }
    destruct e as [x|z|].
    + rewrite (Use _ _ (tg_step_src_next l1 cls wt g t x I)), map_map. reflexivity.
    + rewrite (Use _ _ (tg_step_err true l1 cls wt g t 0 z I (tg_live_mem0 true l1 cls))), app_nil_r.
      unfold tg_errs. rewrite map_app, map_map. destruct l1; reflexivity.
    + rewrite (Use _ _ (tg_step_src_done l1 cls wt g t I)), map_map. destruct l1; reflexivity.
  - (* the openings *)
    destruct l1.
    2: { rewrite (Use [] _ (tg_step_skip l0 false cls wt g t 1 e I (tg_live_mem1 l0 false cls))). reflexivity. }
    destruct e as [v|z|].
    + destruct (mapper g) as [u|z] eqn:Em.
      * rewrite (Use _ _ (tg_step_open_ok l0 cls wt g t v u I Em)). reflexivity.
      * rewrite (Use _ _ (tg_step_open_raise l0 cls wt g t v z I Em)), app_nil_r.
        cbn [map]. unfold tg_errs. rewrite map_app, map_map. reflexivity.
    + rewrite (Use _ _ (tg_step_err l0 true cls wt g t 1 z I (tg_live_mem1 l0 true cls))), app_nil_r.
      unfold tg_errs. rewrite map_app, map_map. reflexivity.
    + rewrite (Use _ _ (tg_step_open_done l0 cls wt g t I)). cbn [map app]. destruct (cl_ws cls); reflexivity.
  - (* a closing observable *)
    destruct (cl_find j cls) as [b|] eqn:Ef.
    2: { assert (Hm : mem (S (S j)) (tg_live l0 l1 cls) = false) by (rewrite tg_live_memS, Ef; reflexivity).
         rewrite (Use [] _ (tg_step_skip l0 l1 cls wt g t (S (S j)) e I Hm)). reflexivity. }
    assert (Hm : mem (S (S j)) (tg_live l0 l1 cls) = true) by (rewrite tg_live_memS, Ef; reflexivity).
    assert (Fire : (forall z, e <> Err z) ->
       visible (map (fun x => (pos, x)) (snd (rstep all_imm M (tg_mstate cls g) (tg_rstate l0 l1 cls wt g) t (ISrc (S (S j)) e)))
                ++ fst (run_from all_imm M (fst (fst (rstep all_imm M (tg_mstate cls g) (tg_rstate l0 l1 cls wt g) t (ISrc (S (S j)) e))))
                                 (snd (fst (rstep all_imm M (tg_mstate cls g) (tg_rstate l0 l1 cls wt g) t (ISrc (S (S j)) e))))
                                 (S pos) (wports rest)))
       = if b then (pos, OWin j Done)
                   :: (if negb l1 && match cl_ws (cl_del j cls) with [] => true | _ => false end then []
                       else tg_walk l0 l1 (cl_del j cls) g (S pos) rest)
         else tg_walk l0 l1 (cl_del j cls) g (S pos) rest).
    { intros He. destruct b.
      - rewrite (Use _ _ (tg_step_close_open l0 l1 cls wt g t j e I Ef He)). cbn [map app].
        destruct (negb l1 && match cl_ws (cl_del j cls) with [] => true | _ => false end); reflexivity.
      - rewrite (Use _ _ (tg_step_close_orphan l0 l1 cls wt g t j e I Ef He)). reflexivity. }
    destruct e as [x|z|].
    + apply Fire. discriminate.
    + rewrite (Use _ _ (tg_step_err l0 l1 cls wt g t (S (S j)) z I Hm)), app_nil_r.
      unfold tg_errs. rewrite map_app, map_map. destruct l1; reflexivity.
    + apply Fire. discriminate.
Qed.

(* THEOREM: what the subscribers see, for every interleaving of the ports *)
Theorem window_toggle_run (ins : list tin) :
  visible (fst (run all_imm M (wports ins))) = tg_walk true true [] 0 1 ins.
Proof.
  rewrite run_unfold. cbn [fst]. rewrite visible_app.
  assert (Es : start_state all_imm M = (tg_mstate [] 0, tg_rstate true true [] [] 0)) by reflexivity.
  assert (Eo : start_obs all_imm M = [OSub 1%nat; OSub 0%nat]) by reflexivity.
  rewrite Es, Eo. cbn [fst snd map visible filter is_vis app].
  apply tg_run_from. constructor; cbn; try (intros; contradiction); try constructor; try discriminate;
    try (intros; reflexivity).
Qed.
End WindowToggle.

(* ---- a reading: every element a window receives is the source's element of that very input ---- *)
Section ToggleReadings.
Context {A B : Type}.
Variable mapper : nat -> res unit.
Notation tin := (Z * nat * ev A)%type.

Lemma in_map_win_next (pos : nat) (e : ev A) ws (p : nat) j x :
  In (p, @OWin A B j (Next x)) (map (fun i => (pos, OWin i e)) ws) -> p = pos /\ e = Next x /\ In j ws.
Proof.
  intros H. apply in_map_iff in H. destruct H as (i & E & Hi). injection E as <- <- <-. auto.
Qed.

Lemma tg_errs_no_next l1 ws pos z (p : nat) j (x : A) : ~ In (p, @OWin A B j (Next x)) (tg_errs l1 ws pos z).
Proof.
  unfold tg_errs. intros H. apply in_app_or in H. destruct H as [H|H].
  - apply in_map_win_next in H. destruct H as (_ & E & _). discriminate E.
  - destruct l1; [destruct H as [H|[]]; discriminate H|destruct H].
Qed.

Lemma tg_walk_origin : forall (ins : list tin) l0 l1 cls g pos p j x,
  In (p, OWin j (Next x)) (tg_walk (B:=B) mapper l0 l1 cls g pos ins) ->
  (pos <= p)%nat /\ exists t, nth_error ins (p - pos) = Some (t, 0%nat, Next x).
Proof.
  induction ins as [|[[t k] e] rest IH]; intros l0 l1 cls g pos p j x Hin; [destruct Hin|].
  assert (Rec : forall l0' l1' cls' g', In (p, OWin j (Next x)) (tg_walk (B:=B) mapper l0' l1' cls' g' (S pos) rest) ->
            (pos <= p)%nat /\ exists t', nth_error ((t, k, e) :: rest) (p - pos) = Some (t', 0%nat, Next x)).
  { intros l0' l1' cls' g' H. destruct (IH _ _ _ _ _ _ _ _ H) as [Hle (t' & Hn)]. split; [lia|]. exists t'.
    replace (p - pos)%nat with (S (p - S pos)) by lia. exact Hn. }
  cbn [tg_walk] in Hin. destruct k as [|[|k]].
  - destruct l0; [|eapply Rec; exact Hin]. destruct e as [y|z|].
    + apply in_app_or in Hin. destruct Hin as [Hin|Hin]; [|eapply Rec; exact Hin].
      apply in_map_win_next in Hin. destruct Hin as (-> & E & _). injection E as ->.
      split; [lia|]. exists t. rewrite Nat.sub_diag. reflexivity.
    + exfalso. exact (tg_errs_no_next _ _ _ _ _ _ _ Hin).
    + apply in_app_or in Hin. destruct Hin as [Hin|Hin].
      * apply in_map_win_next in Hin. destruct Hin as (_ & E & _). discriminate E.
      * destruct l1; [eapply Rec; exact Hin|destruct Hin].
  - destruct l1; [|eapply Rec; exact Hin]. destruct e as [y|z|].
    + destruct Hin as [Hin|Hin]; [discriminate Hin|]. destruct (mapper g); [eapply Rec; exact Hin|].
      exfalso. exact (tg_errs_no_next _ _ _ _ _ _ _ Hin).
    + exfalso. exact (tg_errs_no_next _ _ _ _ _ _ _ Hin).
    + destruct Hin as [Hin|Hin]; [discriminate Hin|]. destruct (cl_ws cls); [destruct Hin|eapply Rec; exact Hin].
  - destruct (cl_find k cls) as [b|]; [|eapply Rec; exact Hin].
    assert (Fire : In (p, OWin j (Next x))
              (if b then (pos, OWin k Done)
                         :: (if negb l1 && match cl_ws (cl_del k cls) with [] => true | _ => false end then []
                             else tg_walk (B:=B) mapper l0 l1 (cl_del k cls) g (S pos) rest)
               else tg_walk (B:=B) mapper l0 l1 (cl_del k cls) g (S pos) rest) ->
            (pos <= p)%nat /\ exists t', nth_error ((t, S (S k), e) :: rest) (p - pos) = Some (t', 0%nat, Next x)).
    { intros H. destruct b; [|eapply Rec; exact H]. destruct H as [H|H]; [discriminate H|].
      destruct (negb l1 && match cl_ws (cl_del k cls) with [] => true | _ => false end); [destruct H|eapply Rec; exact H]. }
    destruct e as [y|z|]; [apply Fire; exact Hin|exfalso; exact (tg_errs_no_next _ _ _ _ _ _ _ Hin)|apply Fire; exact Hin].
Qed.

Theorem window_toggle_element_origin (ins : list tin) p j x :
  In (p, OWin j (Next x)) (fst (run all_imm (x_window_toggle (A:=A) (B:=B) mapper) (wports ins))) ->
  (1 <= p)%nat /\ exists t, nth_error ins (p - 1) = Some (t, 0%nat, Next x).
Proof.
  intros H. apply (tg_walk_origin ins true true [] 0 1 p j x). rewrite <- window_toggle_run.
  unfold visible. apply filter_In. split; [exact H|reflexivity].
Qed.
End ToggleReadings.
