(* C15, part 3: delay(d), d >= 0, in the closed world of Ops/TimedSim.v.
   [delay_sim_spec]: for every time-sorted event sequence on port 0 the timed
   emissions equal [dspec] (a walk over the timeline with the queue of pending
   notifications); [delay_spec]: closed form on conforming timelines -- every
   element and the completion exactly d later, in order (bursts keep their
   order); an error immediately, the elements still pending dropped. *)
From RxVerif Require Import Base.Prelude Ops.Machine Ops.Multi Ops.MultiFacts Ops.Timed Ops.TimedSim
  Ops.TimedFacts Ops.TimedWindowFacts.

Lemma apply_cmds_app {B} (r : rstate) (a b : list (cmd B)) :
  apply_cmds r (a ++ b) =
  let '(r1, o1) := apply_cmds r a in let '(r2, o2) := apply_cmds r1 b in (r2, o1 ++ o2).
Proof.
  revert r; induction a as [|c a IH]; intros r.
  - cbn [app apply_cmds]. destruct (apply_cmds r b); reflexivity.
  - cbn [app apply_cmds].
    destruct c; cbn;
      try (destruct (mem _ _));
      match goal with |- context [apply_cmds ?r' (a ++ b)] => rewrite (IH r'); destruct (apply_cmds r' a) as [r1 o1] end;
      destruct (apply_cmds r1 b) as [r2 o2]; rewrite ?app_assoc; reflexivity.
Qed.

Section Delay.
Context {A : Type}.

Local Notation qent := (Z * ev A)%type.

(* queue discipline: a terminal can only be the last entry, and it is a completion *)
Definition no_err (q : list qent) : Prop := Forall (fun n => match snd n with Err _ => False | _ => True end) q.
Definition wfq (q : list qent) : Prop := upto_term q = q /\ no_err q.

Definition emit_list (o : list A) (f : fin) : list (ev A) :=
  map Next o ++ match f with Cont => [] | Complete => [Done] | Fail e => [Err e] end.

Lemma wfq_tail n q : wfq (n :: q) -> wfq q.
Proof.
  intros [H1 H2]. split.
  - destruct n as [ts [x|e|]]; cbn in H1.
    + injection H1 as H1. exact H1.
    + injection H1 as <-. reflexivity.
    + injection H1 as <-. reflexivity.
  - inversion H2; assumption.
Qed.

(* the drain loop pops the maximal prefix that is due *)
Lemma drain_split now : forall q : list qent, wfq q ->
  exists P Sq o f, delay_drain now q false = (o, f, Sq) /\ q = P ++ Sq
    /\ Forall (fun n => fst n <= now) P
    /\ match Sq with [] => True | n :: _ => now < fst n end
    /\ emit_list o f = map snd P
    /\ (f <> Cont -> Sq = []).
Proof.
  induction q as [|[ts n] q IH]; intros Hw.
  - exists [], [], [], Cont. repeat split; auto.
  - cbn [delay_drain]. destruct (ts <=? now) eqn:E.
    + destruct n as [x|e|].
      * destruct (IH (wfq_tail _ _ Hw)) as (P & Sq & o & f & Hd & Hq & HP & HS & He & Hf).
        rewrite Hd. exists ((ts, Next x) :: P), Sq, (x :: o), f. repeat split; auto.
        -- cbn. now rewrite Hq.
        -- constructor; [cbn; lia|exact HP].
        -- cbn. unfold emit_list in He. cbn. now rewrite <- He.
      * destruct Hw as [_ Hn]. inversion Hn as [|? ? Hbad _]. destruct Hbad.
      * destruct Hw as [H1 _]. cbn in H1. injection H1 as <-. cbn [delay_drain].
        exists [(ts, Done)], [], [], Complete. repeat split; auto. constructor; [cbn; lia|constructor].
    + exists [], ((ts, n) :: q), [], Cont. repeat split; auto. cbn. lia. intros H; contradiction.
Qed.

(* ---- the specification walk ------------------------------------------- *)
(* pending notifications due strictly before the next notification of the
   source are delivered first; an element / the completion is queued for
   t + d; an error is delivered at once and drops the queue *)
Fixpoint dspec (d : Z) (q : list qent) (es : list (Z * ev A)) : list (Z * ev A) :=
  match es with
  | [] => q
  | (t, e) :: rest =>
      filter (fun n => fst n <? t) q ++
      match e with
      | Next x => dspec d (filter (fun n => t <=? fst n) q ++ [(t + d, Next x)]) rest
      | Done => filter (fun n => t <=? fst n) q ++ [(t + d, Done)]
      | Err c => [(t, Err c)]
      end
  end.

Lemma dspec_pop d (P Sq : list qent) t e rest :
  Forall (fun n => fst n < t) P ->
  dspec d (P ++ Sq) ((t, e) :: rest) = P ++ dspec d Sq ((t, e) :: rest).
Proof.
  intros HP. cbn [dspec]. rewrite !filter_app.
  rewrite (filter_all _ P); [|eapply Forall_impl; [|exact HP]; intros n Hn; cbn beta in *; apply Z.ltb_lt; exact Hn].
  rewrite (filter_none _ P); [|eapply Forall_impl; [|exact HP]; intros n Hn; cbn beta in *; apply Z.leb_gt; exact Hn].
  cbn [app]. now rewrite <- app_assoc.
Qed.

(* ---- simulation invariant ---------------------------------------------- *)
Inductive dinv : delay_st -> rstate -> pend -> list qent -> list nat -> Prop :=
| DI_idle n lv : dinv (DelaySt [] false false None n) (RState lv [] false) [] [] lv
| DI_busy ts0 n0 q1 tg lv :
    dinv (DelaySt ((ts0, n0) :: q1) true false None (S tg)) (RState lv [tg] false) [(tg, ts0)] ((ts0, n0) :: q1) lv.

Lemma sorted_head_eq (ts0 : Z) (n0 : ev A) q1 P Sq :
  tsorted ((ts0, n0) :: q1) -> (ts0, n0) :: q1 = P ++ Sq -> Forall (fun n => fst n <= ts0) P ->
  Forall (fun n => fst n = ts0) P.
Proof.
  intros [Hall _] Hq HP.
  assert (Hge : Forall (fun n => ts0 <= fst n) ((ts0, n0) :: q1)) by (constructor; [cbn; lia|exact Hall]).
  rewrite Hq in Hge. apply Forall_app in Hge. destruct Hge as [Hge _].
  rewrite Forall_forall in *. intros n Hn. specialize (Hge n Hn). specialize (HP n Hn). lia.
Qed.

Lemma retime now (P : list qent) : Forall (fun n => fst n = now) P ->
  map (fun e => (now, e)) (map snd P) = P.
Proof.
  induction 1 as [|[ts n] P H _ IH]; [reflexivity|]. cbn in *. subst. now rewrite IH.
Qed.

Lemma emits_emit_list_fin (o : list A) (f : fin) (tail : list (obs A)) :
  emits (map (fun x => OEmit (Next x)) o ++ tail) = map Next o ++ emits tail.
Proof. now rewrite emits_app, emits_emit_list. Qed.

Lemma new_timers_emit_list now (o : list A) : new_timers now (map (fun x => @OEmit A (Next x)) o) = [].
Proof. induction o; auto. Qed.
Lemma new_timers_app now (a b : list (obs A)) : new_timers now (a ++ b) = new_timers now a ++ new_timers now b.
Proof. unfold new_timers. apply flat_map_app. Qed.
Lemma upd_no_timers p now (o : list (obs A)) lv st : upd p now o (RState lv [] st) = [].
Proof. unfold upd. cbn [r_timers mem existsb]. apply filter_false. Qed.
Lemma emits_unsubs (l : list nat) : emits (map (@OUnsub A) l) = [].
Proof. induction l; auto. Qed.
Lemma emits_cons_emit (e : ev A) l : emits (OEmit e :: l) = e :: emits l.
Proof. reflexivity. Qed.
Lemma map_done_has_term (P : list qent) o : map snd P = map Next o ++ [Done] -> has_term P = true.
Proof.
  revert o; induction P as [|[ts n] P IH]; intros o H.
  - destruct o; discriminate.
  - destruct o as [|x o]; cbn in H.
    + injection H as Hn _. subst n. reflexivity.
    + injection H as Hn Hr. subst n. cbn. exact (IH o Hr).
Qed.

Lemma map_next_no_term (P : list qent) : forall o : list A, map snd P = map Next o -> has_term P = false.
Proof.
  induction P as [|[ts n] P IH]; intros o H; [reflexivity|].
  destruct o as [|x o]; [discriminate|]. cbn in H. injection H as Hn Hr. subst n.
  cbn. exact (IH o Hr).
Qed.

(* one tick: everything due is delivered (at its own due time), the next timer
   is set for the new head *)
Lemma delay_tick d fuel ts0 n0 q1 tg lv ext :
  wfq ((ts0, n0) :: q1) -> tsorted ((ts0, n0) :: q1) ->
  next_event [(tg, ts0)] ext = Some (ts0, ITick tg, ext) ->
  exists P Sq, (ts0, n0) :: q1 = P ++ Sq /\ P <> [] /\ Forall (fun n => fst n = ts0) P
    /\ ((has_term P = false /\ exists s' r' p', dinv s' r' p' Sq lv
          /\ sim_emits (sim (x_delay d) (S fuel) (DelaySt ((ts0, n0) :: q1) true false None (S tg))
                            (RState lv [tg] false) [(tg, ts0)] ext)
             = P ++ sim_emits (sim (x_delay d) fuel s' r' p' ext))
        \/ (has_term P = true /\ Sq = []
            /\ sim_emits (sim (x_delay d) (S fuel) (DelaySt ((ts0, n0) :: q1) true false None (S tg))
                              (RState lv [tg] false) [(tg, ts0)] ext) = P)).
Proof.
  intros Hw Hs Hnext.
  destruct (drain_split ts0 _ Hw) as (P & Sq & o & f & Hd & Hq & HP & HS & He & Hf).
  pose proof (sorted_head_eq ts0 n0 q1 P Sq Hs Hq HP) as Heq.
  assert (HPne : P <> []).
  { intros ->. cbn in Hq. subst Sq. cbn in HS. lia. }
  exists P, Sq. split; [exact Hq|]. split; [exact HPne|]. split; [exact Heq|].
  rewrite sim_S, Hnext. unfold rstep. cbn [r_stopped r_timers mem existsb]. nat_eqb. cbn [orb remove].
  nat_eqb. cbn [x_step x_delay dl_exc dl_queue dl_ntag dl_active]. rewrite Hd.
  destruct Sq as [|[ts1 n1] Sq'].
  - (* queue emptied *)
    rewrite apply_cmds_emit_list. cbn [r_live r_timers r_stopped].
    destruct f as [| |e].
    + left. split; [unfold emit_list in He; rewrite app_nil_r in He; exact (map_next_no_term P o (eq_sym He))|].
      eexists _, _, _. split; [apply DI_idle|].
      cbn [finish app]. rewrite !app_nil_r, sim_emits_cons, emits_emit_list, upd_no_timers.
      unfold emit_list in He. rewrite app_nil_r in He. rewrite He, (retime _ _ Heq). reflexivity.
    + right. split; [exact (map_done_has_term P o (eq_sym He))|]. split; [reflexivity|].
      cbn [finish release r_live r_timers sort_nat fold_right map app].
      rewrite sim_emits_cons, sim_stopped by reflexivity.
      rewrite app_nil_r, !emits_app, emits_emit_list.
      rewrite app_nil_r, emits_cons_emit, emits_unsubs.
      unfold emit_list in He. rewrite He, (retime _ _ Heq). reflexivity.
    + exfalso. unfold emit_list in He. destruct Hw as [_ Hne]. rewrite Hq, app_nil_r in Hne.
      clear - He Hne. revert o He. induction P as [|[ts n] P IH]; intros o He.
      * destruct o; discriminate.
      * destruct o as [|x o]; cbn in He.
        -- injection He as Hn _. subst n. inversion Hne as [|? ? Hbad _]. exact Hbad.
        -- injection He as _ Hr. inversion Hne; subst. eapply IH; eauto.
  - (* next timer *)
    assert (f = Cont) as -> by (destruct f; [reflexivity| |]; (specialize (Hf ltac:(discriminate)); discriminate)).
    left. split; [unfold emit_list in He; rewrite app_nil_r in He; exact (map_next_no_term P o (eq_sym He))|].
    eexists _, _, _. split; [apply (DI_busy ts1 n1 Sq' (S tg) lv)|].
    rewrite apply_cmds_app, apply_cmds_emit_list. cbn [apply_cmds r_live r_timers r_stopped app finish].
    rewrite !app_nil_r, sim_emits_cons, emits_app, emits_emit_list. cbn [emits flat_map app]. rewrite app_nil_r.
    unfold emit_list in He. rewrite app_nil_r in He. rewrite He, (retime _ _ Heq).
    unfold upd. rewrite new_timers_app, new_timers_emit_list.
    cbn [new_timers flat_map app filter fst r_timers mem existsb]. nat_eqb. cbn [orb].
    cbn in HS. unfold clamp. rewrite Z.max_r by lia. replace (ts0 + (ts1 - ts0)) with ts1 by lia. reflexivity.
Qed.

Lemma has_term_app (a b : list qent) : has_term (a ++ b) = has_term a || has_term b.
Proof. unfold has_term. apply existsb_app. Qed.

Lemma wfq_app_r (a b : list qent) : wfq (a ++ b) -> has_term a = false -> wfq b.
Proof.
  induction a as [|[ts n] a IH]; intros Hw Ha; [exact Hw|].
  cbn in Ha. destruct n; cbn in Ha; try discriminate. apply IH; [exact (wfq_tail _ _ Hw)|exact Ha].
Qed.

Lemma wfq_snoc (q : list qent) n : wfq q -> has_term q = false ->
  match snd n with Err _ => False | _ => True end -> wfq (q ++ [n]).
Proof.
  intros [H1 H2] Hn He. split.
  - clear H1 H2. induction q as [|[ts m] q IH]; [destruct n as [ts [x|e|]]; reflexivity|].
    cbn in Hn. destruct m; cbn in Hn; try discriminate. cbn. now rewrite IH.
  - apply Forall_app. split; [exact H2|constructor; [exact He|constructor]].
Qed.

Lemma tsorted_snoc (q : list qent) t (n : ev A) : tsorted q -> Forall (fun m => fst m <= t) q -> tsorted (q ++ [(t, n)]).
Proof.
  induction q as [|[ts m] q IH]; intros Hs Hle; [cbn; auto|].
  cbn in *. destruct Hs as [Hall Hs]. inversion Hle as [|? ? Hts Hle']; subst. split.
  - apply Forall_app. split; [exact Hall|constructor; [cbn in *; lia|constructor]].
  - apply IH; assumption.
Qed.

(* the source is gone (completed): everything still queued is delivered, each
   notification at its own due time, whatever else arrives *)
Lemma delay_dead d : forall (es : list (Z * ev A)) fuel s,
  sim_emits (sim (x_delay d) fuel s (RState [] [] false) [] (ext_of es)) = [].
Proof.
  induction es as [|[t e] rest IH]; intros fuel s.
  - now rewrite ext_of_nil, sim_nil.
  - destruct fuel as [|f]; [reflexivity|]. rewrite sim_S, ext_of_cons. cbn [next_event earliest fst snd].
    unfold rstep. cbn. rewrite sim_emits_cons. cbn. apply IH.
Qed.

Lemma delay_detached_sim d : forall n (es : list (Z * ev A)) fuel s r p q,
  (length es + length q <= n)%nat -> (length es + length q + 1 <= fuel)%nat ->
  dinv s r p q [] -> wfq q -> tsorted q ->
  sim_emits (sim (x_delay d) fuel s r p (ext_of es)) = q.
Proof.
  induction n as [|n IH]; intros es fuel s r p q Hn Hf Hinv Hw Hs.
  - destruct es; [|cbn in Hn; lia]. destruct q; [|cbn in Hn; lia].
    inversion Hinv; subst. apply delay_dead.
  - inversion Hinv as [k lv'|ts0 n0 q1 tg lv']; subst; [apply delay_dead|].
    destruct fuel as [|f]; [cbn in Hf; lia|].
    destruct es as [|[t e] rest].
    + rewrite ext_of_nil.
      destruct (delay_tick d f ts0 n0 q1 tg [] [] Hw Hs eq_refl) as (P & Sq & Hq & HPne & Heq & [[Ht (s' & r' & p' & Hi & Hsim)]|[Ht [HSq Hsim]]]).
      * rewrite Hsim, Hq. f_equal. rewrite <- ext_of_nil.
        assert (Hlen : (length Sq < length ((ts0, n0) :: q1))%nat).
        { rewrite Hq, app_length. destruct P; [contradiction|cbn; lia]. }
        apply (IH [] f s' r' p' Sq); cbn [length] in *; try lia; try exact Hi.
        -- rewrite Hq in Hw. exact (wfq_app_r _ _ Hw Ht).
        -- rewrite Hq in Hs. exact (tsorted_app_r _ _ Hs).
      * rewrite Hsim, Hq, HSq, app_nil_r. reflexivity.
    + rewrite ext_of_cons. destruct (t <=? ts0) eqn:E.
      * rewrite sim_S. cbn [next_event earliest fst snd]. rewrite E.
        destruct e; unfold rstep; cbn; nat_eqb; cbn; rewrite sim_emits_cons; cbn;
          (apply (IH rest f _ _ _ ((ts0, n0) :: q1)); [cbn [length] in *; lia|cbn [length] in *; lia|apply DI_busy|exact Hw|exact Hs]).
      * assert (Hnext : next_event [(tg, ts0)] ((t, ISrc 0%nat e) :: ext_of rest)
                        = Some (ts0, ITick tg, (t, ISrc 0%nat e) :: ext_of rest)).
        { cbn [next_event earliest fst snd]. destruct e; rewrite E; reflexivity. }
        destruct (delay_tick d f ts0 n0 q1 tg [] _ Hw Hs Hnext) as (P & Sq & Hq & HPne & Heq & [[Ht (s' & r' & p' & Hi & Hsim)]|[Ht [HSq Hsim]]]).
        -- rewrite Hsim, Hq. f_equal. rewrite <- ext_of_cons.
           assert (Hlen : (length Sq < length ((ts0, n0) :: q1))%nat).
           { rewrite Hq, app_length. destruct P; [contradiction|cbn; lia]. }
           apply (IH ((t, e) :: rest) f s' r' p' Sq); cbn [length] in *; try lia; try exact Hi.
           ++ rewrite Hq in Hw. exact (wfq_app_r _ _ Hw Ht).
           ++ rewrite Hq in Hs. exact (tsorted_app_r _ _ Hs).
        -- rewrite Hsim, Hq, HSq, app_nil_r. reflexivity.
Qed.

Lemma filter_lt_none (q : list qent) t : Forall (fun n => t <= fst n) q -> filter (fun n => fst n <? t) q = [].
Proof. intros H. apply filter_none. eapply Forall_impl; [|exact H]. intros n Hn. cbn beta in *. apply Z.ltb_ge. exact Hn. Qed.
Lemma filter_ge_all (q : list qent) t : Forall (fun n => t <= fst n) q -> filter (fun n => t <=? fst n) q = q.
Proof. intros H. apply filter_all. eapply Forall_impl; [|exact H]. intros n Hn. cbn beta in *. apply Z.leb_le. exact Hn. Qed.

Lemma sorted_all_ge (ts0 : Z) (n0 : ev A) q1 : tsorted ((ts0, n0) :: q1) -> Forall (fun n => ts0 <= fst n) ((ts0, n0) :: q1).
Proof. intros [H _]. constructor; [cbn; lia|exact H]. Qed.

(* the source is subscribed, nothing terminal is queued *)
Lemma delay_live_sim d : 0 <= d -> forall n (es : list (Z * ev A)) fuel s r p q lo,
  (2 * length es + length q <= n)%nat -> (2 * length es + length q + 1 <= fuel)%nat ->
  dinv s r p q [0%nat] -> wfq q -> has_term q = false -> tsorted q -> Forall (fun m => fst m <= lo + d) q ->
  tsorted es -> Forall (fun e => lo <= fst e) es ->
  sim_emits (sim (x_delay d) fuel s r p (ext_of es)) = dspec d q es.
Proof.
  intros Hd. induction n as [|n IH]; intros es fuel s r p q lo Hn Hf Hinv Hw Ht Hs Hle Hes Hlo.
  - destruct es; [|cbn in Hn; lia]. destruct q; [|cbn in Hn; lia].
    inversion Hinv; subst. rewrite ext_of_nil, sim_nil. reflexivity.
  - destruct fuel as [|f]; [cbn in Hf; lia|].
    inversion Hinv as [k lv'|ts0 n0 q1 tg lv']; subst.
    + (* idle *)
      destruct es as [|[t e] rest]; [now rewrite ext_of_nil, sim_nil|].
      rewrite ext_of_cons, sim_S. cbn [next_event earliest fst snd]. cbn [length] in *.
      destruct Hes as [Hall Hes]. inversion Hlo as [|? ? Hlt _]; subst. cbn [fst] in Hlt.
      destruct e as [x|c|]; unfold rstep; cbn; nat_eqb; cbn; rewrite sim_emits_cons; cbn.
      * unfold clamp. rewrite Z.max_r by lia.
        apply (IH rest f _ _ _ [(t + d, Next x)] t); cbn [length]; try lia.
        -- apply DI_busy.
        -- split; [reflexivity|repeat constructor].
        -- reflexivity.
        -- cbn. auto.
        -- repeat constructor. cbn. lia.
        -- exact Hes.
        -- exact Hall.
      * rewrite sim_stopped by reflexivity. reflexivity.
      * unfold clamp. rewrite Z.max_r by lia.
        apply (delay_detached_sim d (length rest + 1) rest f _ _ _ [(t + d, Done)]); cbn [length]; try lia.
        -- apply DI_busy.
        -- split; [reflexivity|repeat constructor].
        -- cbn. auto.
    + (* a timer is pending for the head of the queue *)
      pose proof (sorted_all_ge ts0 n0 q1 Hs) as Hge.
      destruct es as [|[t e] rest].
      * rewrite ext_of_nil.
        destruct (delay_tick d f ts0 n0 q1 tg [0%nat] [] Hw Hs eq_refl)
          as (P & Sq & Hq & HPne & Heq & [[HtP (s' & r' & p' & Hi & Hsim)]|[HtP [HSq Hsim]]]).
        -- rewrite Hsim. cbn [dspec]. rewrite Hq. f_equal. rewrite <- ext_of_nil.
           assert (Hlen : (length Sq < length ((ts0, n0) :: q1))%nat).
           { rewrite Hq, app_length. destruct P; [contradiction|cbn; lia]. }
           rewrite Hq in Hw, Ht, Hs, Hle. rewrite has_term_app in Ht. apply orb_false_elim in Ht.
           apply Forall_app in Hle.
           change (sim_emits (sim (x_delay d) f s' r' p' (ext_of [])) = dspec d Sq []).
           apply (IH [] f s' r' p' Sq lo); cbn [length] in *; try lia; try exact Hi; try tauto.
           ++ exact (wfq_app_r _ _ Hw HtP).
           ++ exact (tsorted_app_r _ _ Hs).
        -- exfalso. rewrite Hq, has_term_app, HtP in Ht. discriminate.
      * rewrite ext_of_cons. cbn [length] in *.
        destruct Hes as [Hall Hes]. inversion Hlo as [|? ? Hlt _]; subst. cbn [fst] in Hlt.
        destruct (t <=? ts0) eqn:E.
        -- (* the notification comes first (also at the due instant) *)
           assert (Hget : Forall (fun m : qent => t <= fst m) ((ts0, n0) :: q1)).
           { eapply Forall_impl; [|exact Hge]. intros m Hm. cbn beta in *. lia. }
           assert (Hlet : Forall (fun m : qent => fst m <= t + d) ((ts0, n0) :: q1)).
           { eapply Forall_impl; [|exact Hle]. intros m Hm. cbn beta in *. lia. }
           rewrite sim_S. cbn [next_event earliest fst snd]. rewrite E. cbn [dspec].
           rewrite (filter_lt_none _ t Hget), (filter_ge_all _ t Hget). cbn [app].
           destruct e as [x|c|]; unfold rstep; cbn; nat_eqb; cbn; rewrite sim_emits_cons; cbn.
           ++ apply (IH rest f _ _ _ (((ts0, n0) :: q1) ++ [(t + d, Next x)]) t); rewrite ?app_length; cbn [length] in *; try lia.
              ** apply DI_busy.
              ** apply wfq_snoc; [exact Hw|exact Ht|exact I].
              ** rewrite has_term_app, Ht. reflexivity.
              ** apply tsorted_snoc; [exact Hs|exact Hlet].
              ** apply Forall_app. split; [exact Hlet|repeat constructor; cbn; lia].
              ** exact Hes.
              ** exact Hall.
           ++ rewrite sim_stopped by reflexivity. reflexivity.
           ++ apply (delay_detached_sim d (length rest + length q1 + 2) rest f _ _ _ (((ts0, n0) :: q1) ++ [(t + d, Done)]));
                rewrite ?app_length; cbn [length] in *; try lia.
              ** apply DI_busy.
              ** apply wfq_snoc; [exact Hw|exact Ht|exact I].
              ** apply tsorted_snoc; [exact Hs|exact Hlet].
        -- (* the timer fires first *)
           assert (Hnext : next_event [(tg, ts0)] ((t, ISrc 0%nat e) :: ext_of rest)
                           = Some (ts0, ITick tg, (t, ISrc 0%nat e) :: ext_of rest)).
           { cbn [next_event earliest fst snd]. destruct e; rewrite E; reflexivity. }
           destruct (delay_tick d f ts0 n0 q1 tg [0%nat] _ Hw Hs Hnext)
             as (P & Sq & Hq & HPne & Heq & [[HtP (s' & r' & p' & Hi & Hsim)]|[HtP [HSq Hsim]]]).
           ++ rewrite Hsim, Hq. rewrite dspec_pop; [|eapply Forall_impl; [|exact Heq]; intros m Hm; cbn beta in *; lia].
              f_equal. rewrite <- ext_of_cons.
              assert (Hlen : (length Sq < length ((ts0, n0) :: q1))%nat).
              { rewrite Hq, app_length. destruct P; [contradiction|cbn; lia]. }
              rewrite Hq in Hw, Ht, Hs, Hle. rewrite has_term_app in Ht. apply orb_false_elim in Ht.
              apply Forall_app in Hle.
              apply (IH ((t, e) :: rest) f s' r' p' Sq lo); cbn [length] in *; try lia; try exact Hi; try tauto.
              ** exact (wfq_app_r _ _ Hw HtP).
              ** exact (tsorted_app_r _ _ Hs).
              ** split; assumption.
           ++ exfalso. rewrite Hq, has_term_app, HtP in Ht. discriminate.
Qed.

Theorem delay_sim_spec d t0 (es : list (Z * ev A)) :
  0 <= d -> tsorted es -> Forall (fun e => t0 <= fst e) es ->
  timed_emits t0 (simulate (x_delay d) t0 (ext_of es)) = dspec d [] es.
Proof.
  intros Hd Hs Hlo. unfold simulate, simulate_fuel, timed_emits.
  cbn [x_start x_delay apply_cmds finish fst snd app emits flat_map map].
  change (upd [] t0 [OSub 0%nat] (RState [0%nat] [] false)) with (@nil (nat * Z)).
  apply (delay_live_sim d Hd (2 * length es) es _ _ _ _ [] t0); cbn [length]; try lia.
  - rewrite ext_of_length. lia.
  - apply DI_idle.
  - split; [reflexivity|constructor].
  - reflexivity.
  - exact I.
  - constructor.
  - exact Hs.
  - exact Hlo.
Qed.

(* ---- closed form --------------------------------------------------------- *)
Definition shift (d : Z) (tl : list (Z * A)) : list (Z * ev A) :=
  map (fun tx => (fst tx + d, Next (snd tx))) tl.

Definition delay_outq (d : Z) (l : list qent) (tm : tterm) : list (Z * ev A) :=
  match tm with
  | TTDone T => l ++ [(T + d, Done)]
  | TTErr T c => filter (fun n => fst n <? T) l ++ [(T, Err c)]
  | TTNever => l
  end.

Lemma tsorted_filter (f : qent -> bool) : forall q, tsorted q -> tsorted (filter f q).
Proof.
  induction q as [|[ts n] q IH]; intros Hs; [exact I|]. destruct Hs as [Hall Hs]. cbn [filter].
  destruct (f (ts, n)); [|exact (IH Hs)]. split; [|exact (IH Hs)].
  rewrite Forall_forall in *. intros m Hm. apply filter_In in Hm. apply Hall. tauto.
Qed.

Lemma filter_split_sorted t : forall q : list qent, tsorted q ->
  filter (fun n => fst n <? t) q ++ filter (fun n => t <=? fst n) q = q.
Proof.
  induction q as [|[ts n] q IH]; intros Hs; [reflexivity|]. destruct Hs as [Hall Hs]. cbn [filter fst].
  destruct (ts <? t) eqn:E.
  - assert (E2 : (t <=? ts) = false) by lia. rewrite E2. cbn [app]. now rewrite IH.
  - assert (E2 : (t <=? ts) = true) by lia. rewrite E2.
    rewrite filter_lt_none, filter_ge_all; [reflexivity| |];
      (eapply Forall_impl; [|exact Hall]; intros m Hm; cbn beta in *; lia).
Qed.

Lemma dspec_closed d : forall (tl : list (Z * A)) tm q lo,
  tsorted q -> Forall (fun m => fst m <= lo + d) q ->
  tsorted (tevents tl tm) -> Forall (fun e => lo <= fst e) (tevents tl tm) ->
  dspec d q (tevents tl tm) = delay_outq d (q ++ shift d tl) tm.
Proof.
  induction tl as [|[t x] rest IH]; intros tm q lo Hs Hle Hes Hlo.
  - cbn [shift map]. rewrite app_nil_r. destruct tm as [T|T c|]; cbn [tevents map app dspec delay_outq].
    + rewrite app_assoc, filter_split_sorted by exact Hs. reflexivity.
    + reflexivity.
    + reflexivity.
  - rewrite tevents_cons in *. cbn [dspec]. destruct Hes as [Hall Hes].
    inversion Hlo as [|? ? Hlt _]; subst. cbn [fst] in Hlt.
    rewrite (IH tm _ t).
    + cbn [shift map fst snd]. fold (shift d rest).
      pose proof (filter_split_sorted t q Hs) as Hsplit.
      destruct tm as [T|T c|]; cbn [delay_outq].
      * rewrite <- Hsplit at 3. rewrite <- !app_assoc. reflexivity.
      * assert (HtT : t <= T).
        { rewrite Forall_forall in Hall. apply (Hall (T, Err c)). unfold tevents. apply in_or_app. right. left. reflexivity. }
        rewrite <- Hsplit at 3. rewrite <- !app_assoc. rewrite (filter_app _ (filter (fun n => fst n <? t) q)).
        rewrite (filter_all _ (filter (fun n => fst n <? t) q)).
        -- rewrite <- !app_assoc. reflexivity.
        -- rewrite Forall_forall. intros m Hm. apply filter_In in Hm. destruct Hm as [_ Hm]. lia.
      * rewrite <- Hsplit at 3. rewrite <- !app_assoc. reflexivity.
    + apply tsorted_snoc; [apply tsorted_filter; exact Hs|].
      rewrite Forall_forall in *. intros m Hm. apply filter_In in Hm. destruct Hm as [Hm _]. specialize (Hle m Hm). lia.
    + apply Forall_app. split.
      * rewrite Forall_forall in *. intros m Hm. apply filter_In in Hm. destruct Hm as [Hm _]. specialize (Hle m Hm). lia.
      * repeat constructor. cbn. lia.
    + exact Hes.
    + exact Hall.
Qed.

(* every element and the completion exactly d later, in order; an error at once,
   what was still pending (due at or after the error instant) is dropped *)
Definition delay_out (d : Z) (tl : list (Z * A)) (tm : tterm) : list (Z * ev A) :=
  delay_outq d (shift d tl) tm.

Theorem delay_spec d t0 (tl : list (Z * A)) tm :
  0 <= d -> tsorted (tevents tl tm) -> Forall (fun e => t0 <= fst e) (tevents tl tm) ->
  timed_emits t0 (simulate (x_delay d) t0 (ext_of (tevents tl tm))) = delay_out d tl tm.
Proof.
  intros Hd Hs Hlo. rewrite delay_sim_spec by assumption.
  rewrite (dspec_closed d tl tm [] t0); [reflexivity|exact I|constructor|exact Hs|exact Hlo].
Qed.

Corollary delay_zero t0 (tl : list (Z * A)) T :
  tsorted (tevents tl (TTDone T)) -> Forall (fun e => t0 <= fst e) (tevents tl (TTDone T)) ->
  timed_emits t0 (simulate (x_delay 0) t0 (ext_of (tevents tl (TTDone T)))) = tevents tl (TTDone T).
Proof.
  intros Hs Hlo. rewrite delay_spec by (try lia; assumption).
  unfold delay_out, delay_outq, shift, tevents. rewrite Z.add_0_r. f_equal.
  apply map_ext. intros [t x]. cbn. now rewrite Z.add_0_r.
Qed.

(* duetime given as a datetime: converted to a delay at subscription time *)
Corollary delay_at_spec ts t0 (tl : list (Z * A)) tm :
  0 <= tdelay ts t0 -> tsorted (tevents tl tm) -> Forall (fun e => t0 <= fst e) (tevents tl tm) ->
  timed_emits t0 (simulate (x_delay_at ts t0) t0 (ext_of (tevents tl tm))) = delay_out (tdelay ts t0) tl tm.
Proof. exact (delay_spec (tdelay ts t0) t0 tl tm). Qed.
End Delay.
