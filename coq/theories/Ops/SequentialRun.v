(* C10: run-level statements about WHEN the next source is subscribed, and the
   closed form of catch(handler).

   - run_in_pos: the observations at trace position q+1 of a run are exactly those of
     the runner's step on input q from the state after the first q inputs (generic).
   - sequential_subscribes_at_live_termination: for ANY sequential machine and EVERY
     input sequence, a subscription opened after subscribe() is opened in the step of a
     terminal notification of THE source that is live at that moment (so: delivered).
   - concat / catch / on_error_resume_next: EXACT characterisation -- source j is
     subscribed at position q+1 iff j = k+1 < n, input q is the completion (resp.
     error, resp. termination) of source k, and k is the subscribed source at that
     moment; and over EVERY run the subscriptions are to sources 0, 1, .., m-1 in this
     order, each once.
   - catch(handler): closed form in the sequential environment. *)
From RxVerif Require Import Base.Prelude Ops.Machine Ops.MachineFacts Ops.Multi Ops.MultiFacts
  Ops.RunLemmas Ops.Combinators Ops.SequentialFacts Ops.CatchFacts Ops.RepeatFacts
  Ops.SequentialMore Ops.MergeOrderFacts.

Local Arguments Nat.ltb : simpl never.
Local Arguments Nat.leb : simpl never.

(* ---- positions in the trace of a run ------------------------------------------ *)
Section Pos.
Context {A B : Type} (m : machine A B).

Lemma run_from_in ins : forall s r k p o,
  In (p, o) (fst (run_from m s r k ins)) <->
  exists q now i, p = (k + q)%nat /\ nth_error ins q = Some (now, i) /\
    In o (snd (rstep m (fst (after m s r (firstn q ins))) (snd (after m s r (firstn q ins))) now i)).
Proof.
  induction ins as [|[now i] rest IH]; intros s r k p o.
  - cbn. split; [intros []|]. intros (q & n & i & _ & H & _). destruct q; discriminate.
  - cbn [run_from]. destruct (rstep m s r now i) as [[s' r'] o0] eqn:E.
    specialize (IH s' r' (S k) p o).
    destruct (run_from m s' r' (S k) rest) as [tr rf]. cbn [fst] in *.
    rewrite in_app_iff, IH. split.
    + intros [H|(q & n & i0 & Hp & Hn & Hin)].
      * apply in_map_iff in H. destruct H as (x & Hx & Hin). injection Hx as <- <-.
        exists 0%nat, now, i. rewrite Nat.add_0_r. cbn [nth_error firstn after fst snd]. rewrite E. cbn [fst snd]. auto.
      * exists (S q), n, i0. split; [lia|]. cbn [nth_error firstn after]. rewrite E. auto.
    + intros (q & n & i0 & Hp & Hn & Hin). destruct q as [|q].
      * left. cbn [nth_error firstn after fst snd] in *. injection Hn as <- <-. rewrite E in Hin. cbn [fst snd] in Hin.
        apply in_map_iff. exists o. split; [f_equal; lia|exact Hin].
      * right. cbn [nth_error firstn after] in *. rewrite E in Hin. exists q, n, i0. split; [lia|]. auto.
Qed.

(* operator state and runner state just before input q (0-based) of a run *)
Definition state_before (ins : list (Z * inp A)) (q : nat) : x_state m * rstate :=
  after m (fst (start_state m)) (snd (start_state m)) (firstn q ins).

Lemma state_before_run ins q : snd (state_before ins q) = snd (run m (firstn q ins)).
Proof. unfold state_before. now rewrite run_final. Qed.

(* trace position q+1 = the step on input q *)
Lemma run_in_pos ins q o :
  In (S q, o) (fst (run m ins)) <->
  exists now i, nth_error ins q = Some (now, i) /\
    In o (snd (rstep m (fst (state_before ins q)) (snd (state_before ins q)) now i)).
Proof.
  rewrite run_unfold. cbn [fst]. rewrite in_app_iff, run_from_in. unfold state_before. split.
  - intros [H|(q' & now & i & Hp & Hn & Hin)].
    + apply in_map_iff in H. destruct H as (x & Hx & _). discriminate.
    + assert (q' = q) by lia. subst q'. eauto.
  - intros (now & i & Hn & Hin). right. exists q, now, i. auto.
Qed.

(* trace position 0 = inside subscribe() *)
Lemma run_in_pos0 ins o : In (0%nat, o) (fst (run m ins)) <-> In o (start_obs m).
Proof.
  rewrite run_unfold. cbn [fst]. rewrite in_app_iff, run_from_in. split.
  - intros [H|(q' & now & i & Hp & _)]; [|lia].
    apply in_map_iff in H. destruct H as (x & Hx & Hin). now injection Hx as <-.
  - intros H. left. apply in_map_iff. eauto.
Qed.

Lemma in_osub_sub_ids (o : list (obs B)) j : In (OSub j) o <-> In j (sub_ids o).
Proof.
  unfold sub_ids. rewrite in_flat_map. split.
  - intros H. exists (OSub j). split; [exact H|left; reflexivity].
  - intros (x & Hx & Hj). destruct x; try destruct Hj as [Hj|[]]; try contradiction. now subst.
Qed.

(* SEQUENTIAL machines: a subscription after subscribe() is opened in the step of a
   terminal notification of the one source that is live at that moment -- never before
   that source terminated, never on behalf of a source that is not subscribed *)
Theorem sequential_subscribes_at_live_termination (Hseq : sequential m) ins q j :
  In (S q, OSub j) (fst (run m ins)) ->
  exists now k e, nth_error ins q = Some (now, ISrc k e) /\ is_terminal e = true /\
    r_stopped (snd (run m (firstn q ins))) = false /\ r_live (snd (run m (firstn q ins))) = [k].
Proof.
  intros Hin. apply run_in_pos in Hin. destruct Hin as (now & i & Hn & Hin).
  pose proof (sequential_one_at_a_time m Hseq (firstn q ins)) as Hone.
  rewrite <- !state_before_run.
  rewrite <- state_before_run in Hone.
  set (s := fst (state_before ins q)) in *. set (r := snd (state_before ins q)) in *.
  destruct Hseq as [Hstep _]. specialize (Hstep s now i).
  assert (Hj : In j (csub_ids (snd (fst (x_step m s now i))))).
  { destruct (rstep_sub_ids m s r now i) as [E|[_ E2]].
    - rewrite E in Hin. destruct Hin.
    - rewrite <- E2. apply in_osub_sub_ids. exact Hin. }
  destruct Hstep as [E|[[b E]|(k & e & j' & -> & Ht & E)]]; rewrite E in Hj; cbn in Hj;
    try (destruct Hj as [Hj|Hj]; [discriminate Hj || contradiction|contradiction]); try contradiction.
  exists now, k, e. split; [exact Hn|]. split; [exact Ht|].
  unfold rstep in Hin. destruct (r_stopped r) eqn:Hst; [destruct Hin|]. split; [reflexivity|].
  destruct (mem k (r_live r)) eqn:Hm; [|destruct Hin].
  destruct (r_live r) as [|k1 [|k2 t]]; [discriminate Hm| |cbn in Hone; lia].
  unfold mem in Hm. cbn [existsb] in Hm. rewrite Bool.orb_false_r in Hm. apply Nat.eqb_eq in Hm. now subst.
Qed.
End Pos.

(* ---- concat / catch / on_error_resume_next: exact subscription instants ------- *)
Section Exact.
Context {A : Type}.

(* reachable runner states of the three operators: everything released, or exactly the
   current source live *)
Definition cur_inv (n cur : nat) (r : rstate) : Prop :=
  r = RState [] [] true \/ (r = RState [cur] [] false /\ (cur < n)%nat).

Lemma concat_cur_step n cur r now (i : inp A) :
  cur_inv n cur r ->
  cur_inv n (fst (fst (rstep (x_concat n) cur r now i))) (snd (fst (rstep (x_concat n) cur r now i))).
Proof.
  intros [->|[-> Hc]]; [left; reflexivity|].
  unfold rstep. cbn [r_stopped]. destruct i as [k e|tag|].
  - cbn [r_live mem existsb]. destruct (Nat.eqb_spec k cur) as [->|Hne]; cbn [orb].
    + destruct e as [x|e|].
      * right. rs. auto.
      * left. rs. reflexivity.
      * rs. destruct (Nat.ltb_spec (S cur) n) as [Hlt|Hge]; rs; [right; auto|left; reflexivity].
    + right. cbn. auto.
  - right. cbn. auto.
  - left. rs. reflexivity.
Qed.

Lemma catch_cur_step n cur last r now (i : inp A) :
  cur_inv n cur r ->
  cur_inv n (fst (fst (fst (rstep (x_catch n) (cur, last) r now i))))
            (snd (fst (rstep (x_catch n) (cur, last) r now i))).
Proof.
  intros [->|[-> Hc]]; [left; reflexivity|].
  unfold rstep. cbn [r_stopped]. destruct i as [k e|tag|].
  - cbn [r_live mem existsb]. destruct (Nat.eqb_spec k cur) as [->|Hne]; cbn [orb].
    + destruct e as [x|e|].
      * right. rs. auto.
      * rs. destruct (Nat.ltb_spec (S cur) n) as [Hlt|Hge]; rs; [right; auto|left; reflexivity].
      * left. rs. reflexivity.
    + right. cbn. auto.
  - right. cbn. auto.
  - left. rs. reflexivity.
Qed.

Lemma oern_cur_step n cur r now (i : inp A) :
  cur_inv n cur r ->
  cur_inv n (fst (fst (rstep (x_oern n) cur r now i))) (snd (fst (rstep (x_oern n) cur r now i))).
Proof.
  intros [->|[-> Hc]]; [left; reflexivity|].
  unfold rstep. cbn [r_stopped]. destruct i as [k e|tag|].
  - cbn [r_live mem existsb]. destruct (Nat.eqb_spec k cur) as [->|Hne]; cbn [orb].
    + destruct e as [x|e|].
      * right. rs. auto.
      * rs. destruct (Nat.ltb_spec (S cur) n) as [Hlt|Hge]; rs; [right; auto|left; reflexivity].
      * rs. destruct (Nat.ltb_spec (S cur) n) as [Hlt|Hge]; rs; [right; auto|left; reflexivity].
    + right. cbn. auto.
  - right. cbn. auto.
  - left. rs. reflexivity.
Qed.

Lemma concat_cur_reach n (ins : list (Z * inp A)) q :
  cur_inv n (fst (state_before (x_concat n) ins q)) (snd (state_before (x_concat n) ins q)).
Proof.
  unfold state_before.
  apply (run_from_invariant (x_concat n) (fun s r _ => cur_inv n s r)
           (fun s r acc now i H => concat_cur_step n s r now i H) (firstn q ins) _ _ 1 []).
  unfold start_state. destruct n; cbn; [left; reflexivity|right; split; [reflexivity|lia]].
Qed.

Lemma catch_cur_reach n (ins : list (Z * inp A)) q :
  cur_inv n (fst (fst (state_before (x_catch n) ins q))) (snd (state_before (x_catch n) ins q)).
Proof.
  unfold state_before.
  apply (run_from_invariant (x_catch n) (fun s r _ => cur_inv n (fst s) r)
           (fun s r acc now i H => ltac:(destruct s as [cur last]; exact (catch_cur_step n cur last r now i H)))
           (firstn q ins) _ _ 1 []).
  unfold start_state. destruct n; cbn; [left; reflexivity|right; split; [reflexivity|lia]].
Qed.

Lemma oern_cur_reach n (ins : list (Z * inp A)) q :
  cur_inv n (fst (state_before (x_oern n) ins q)) (snd (state_before (x_oern n) ins q)).
Proof.
  unfold state_before.
  apply (run_from_invariant (x_oern n) (fun s r _ => cur_inv n s r)
           (fun s r acc now i H => oern_cur_step n s r now i H) (firstn q ins) _ _ 1 []).
  unfold start_state. destruct n; cbn; [left; reflexivity|right; split; [reflexivity|lia]].
Qed.

Ltac kill_in H := repeat (cbn in H; rewrite ?Nat.eqb_refl in H); repeat (destruct H as [H|H]; [try discriminate H|]); try contradiction.

(* concat: source k+1 is subscribed EXACTLY in the step of the delivered completion of
   source k (k being the subscribed source at that moment) -- not before, and always then *)
Theorem concat_subscribes_next_iff n (ins : list (Z * inp A)) q j :
  In (S q, OSub j) (fst (run (x_concat n) ins)) <->
  exists now k, j = S k /\ (S k < n)%nat /\ nth_error ins q = Some (now, ISrc k Done)
                /\ r_live (snd (run (x_concat n) (firstn q ins))) = [k].
Proof.
  rewrite run_in_pos, <- state_before_run.
  pose proof (concat_cur_reach n ins q) as Hinv.
  destruct (state_before (x_concat n) ins q) as [cur r]. cbn [fst snd] in *.
  destruct Hinv as [->|[-> Hc]].
  - split.
    + intros (now & i & _ & Hin). destruct Hin.
    + intros (now & k & _ & _ & _ & Hl). discriminate Hl.
  - split.
    + intros (now & i & Hn & Hin). unfold rstep in Hin. cbn [r_stopped] in Hin.
      destruct i as [k e|tag|].
      * cbn [r_live mem existsb] in Hin. destruct (Nat.eqb_spec k cur) as [->|Hne]; cbn [orb] in Hin; [|destruct Hin].
        destruct e as [x|e|]; [kill_in Hin|kill_in Hin|].
        revert Hin. rs. destruct (Nat.ltb_spec (S cur) n) as [Hlt|Hge]; rs; intros Hin; kill_in Hin.
        injection Hin as <-. exists now, cur. auto.
      * kill_in Hin.
      * kill_in Hin.
    + intros (now & k & -> & Hlt & Hn & Hl). injection Hl as ->.
      exists now, (ISrc k Done). split; [exact Hn|].
      unfold rstep. rs. destruct (Nat.ltb_spec (S k) n) as [_|Hge]; [|lia]. rs. left. reflexivity.
Qed.

(* catch: the same with the ERROR of source k *)
Theorem catch_subscribes_next_iff n (ins : list (Z * inp A)) q j :
  In (S q, OSub j) (fst (run (x_catch n) ins)) <->
  exists now k e, j = S k /\ (S k < n)%nat /\ nth_error ins q = Some (now, ISrc k (Err e))
                  /\ r_live (snd (run (x_catch n) (firstn q ins))) = [k].
Proof.
  rewrite run_in_pos, <- state_before_run.
  pose proof (catch_cur_reach n ins q) as Hinv.
  destruct (state_before (x_catch n) ins q) as [[cur last] r]. cbn [fst snd] in *.
  destruct Hinv as [->|[-> Hc]].
  - split.
    + intros (now & i & _ & Hin). destruct Hin.
    + intros (now & k & e & _ & _ & _ & Hl). discriminate Hl.
  - split.
    + intros (now & i & Hn & Hin). unfold rstep in Hin. cbn [r_stopped] in Hin.
      destruct i as [k e|tag|].
      * cbn [r_live mem existsb] in Hin. destruct (Nat.eqb_spec k cur) as [->|Hne]; cbn [orb] in Hin; [|destruct Hin].
        destruct e as [x|e|]; [kill_in Hin| |kill_in Hin].
        revert Hin. rs. destruct (Nat.ltb_spec (S cur) n) as [Hlt|Hge]; rs; intros Hin; kill_in Hin.
        injection Hin as <-. exists now, cur, e. auto.
      * kill_in Hin.
      * kill_in Hin.
    + intros (now & k & e & -> & Hlt & Hn & Hl). injection Hl as ->.
      exists now, (ISrc k (Err e)). split; [exact Hn|].
      unfold rstep. rs. destruct (Nat.ltb_spec (S k) n) as [_|Hge]; [|lia]. rs. left. reflexivity.
Qed.

(* on_error_resume_next: any TERMINATION of source k *)
Theorem oern_subscribes_next_iff n (ins : list (Z * inp A)) q j :
  In (S q, OSub j) (fst (run (x_oern n) ins)) <->
  exists now k e, j = S k /\ (S k < n)%nat /\ nth_error ins q = Some (now, ISrc k e) /\ is_terminal e = true
                  /\ r_live (snd (run (x_oern n) (firstn q ins))) = [k].
Proof.
  rewrite run_in_pos, <- state_before_run.
  pose proof (oern_cur_reach n ins q) as Hinv.
  destruct (state_before (x_oern n) ins q) as [cur r]. cbn [fst snd] in *.
  destruct Hinv as [->|[-> Hc]].
  - split.
    + intros (now & i & _ & Hin). destruct Hin.
    + intros (now & k & e & _ & _ & _ & _ & Hl). discriminate Hl.
  - split.
    + intros (now & i & Hn & Hin). unfold rstep in Hin. cbn [r_stopped] in Hin.
      destruct i as [k e|tag|].
      * cbn [r_live mem existsb] in Hin. destruct (Nat.eqb_spec k cur) as [->|Hne]; cbn [orb] in Hin; [|destruct Hin].
        destruct e as [x|e|]; [kill_in Hin| |].
        -- revert Hin. rs. destruct (Nat.ltb_spec (S cur) n) as [Hlt|Hge]; rs; intros Hin; kill_in Hin.
           injection Hin as <-. exists now, cur, (Err e). auto 6.
        -- revert Hin. rs. destruct (Nat.ltb_spec (S cur) n) as [Hlt|Hge]; rs; intros Hin; kill_in Hin.
           injection Hin as <-. exists now, cur, Done. auto 6.
      * kill_in Hin.
      * kill_in Hin.
    + intros (now & k & e & -> & Hlt & Hn & Ht & Hl). injection Hl as ->.
      exists now, (ISrc k e). split; [exact Hn|].
      destruct e as [x|e|]; [discriminate Ht| |];
        unfold rstep; rs; (destruct (Nat.ltb_spec (S k) n) as [_|Hge]; [|lia]); rs; left; reflexivity.
Qed.

(* ---- the sources are subscribed in order, each at most once -------------------- *)
Lemma seq_snoc (c : nat) : seq 0 c ++ [c] = seq 0 (S c).
Proof. now rewrite seq_S. Qed.

Theorem concat_subscribes_in_order n (ins : list (Z * inp A)) :
  exists mm, (mm <= n)%nat /\ sub_ids (map snd (fst (run (x_concat n) ins))) = seq 0 mm.
Proof.
  set (m := x_concat (A:=A) n).
  set (J := fun (cur : x_state m) (l : list nat) => l = seq 0 (Nat.min (S cur) n)).
  assert (G : J (fst (after m (fst (start_state m)) (snd (start_state m)) ins))
                (sub_ids (map snd (fst (run m ins))))).
  { rewrite run_unfold. cbn [fst]. rewrite map_app, map_map. cbn [snd]. rewrite map_id.
    apply (sub_ids_invariant m J).
    - intros cur l now i Hl. unfold J in *. subst l.
      destruct i as [k [x|e|]|tag|]; cbn [m x_concat x_step fst snd csub_ids flat_map]; rewrite ?app_nil_r; try reflexivity.
      destruct (Nat.ltb_spec (S cur) n) as [Hlt|Hge]; cbn [fst snd csub_ids flat_map app].
      + rewrite (Nat.min_l (S cur)), (Nat.min_l (S (S cur))) by lia. apply seq_snoc.
      + rewrite app_nil_r, !Nat.min_r by lia. reflexivity.
    - unfold J, start_state, start_obs, m. destruct n; cbn; reflexivity. }
  unfold J in G. eexists. split; [|exact G]. lia.
Qed.

Theorem catch_subscribes_in_order n (ins : list (Z * inp A)) :
  exists mm, (mm <= n)%nat /\ sub_ids (map snd (fst (run (x_catch n) ins))) = seq 0 mm.
Proof.
  set (m := x_catch (A:=A) n).
  set (J := fun (s : x_state m) (l : list nat) => l = seq 0 (Nat.min (S (fst s)) n)).
  assert (G : J (fst (after m (fst (start_state m)) (snd (start_state m)) ins))
                (sub_ids (map snd (fst (run m ins))))).
  { rewrite run_unfold. cbn [fst]. rewrite map_app, map_map. cbn [snd]. rewrite map_id.
    apply (sub_ids_invariant m J).
    - intros [cur last] l now i Hl. unfold J in *. cbn [fst] in Hl. subst l.
      destruct i as [k [x|e|]|tag|]; cbn [m x_catch x_step fst snd csub_ids flat_map]; rewrite ?app_nil_r; try reflexivity.
      destruct (Nat.ltb_spec (S cur) n) as [Hlt|Hge]; cbn [fst snd csub_ids flat_map app].
      + rewrite (Nat.min_l (S cur)), (Nat.min_l (S (S cur))) by lia. apply seq_snoc.
      + rewrite app_nil_r, !Nat.min_r by lia. reflexivity.
    - unfold J, start_state, start_obs, m. destruct n; cbn; reflexivity. }
  unfold J in G. eexists. split; [|exact G]. lia.
Qed.

Theorem oern_subscribes_in_order n (ins : list (Z * inp A)) :
  exists mm, (mm <= n)%nat /\ sub_ids (map snd (fst (run (x_oern n) ins))) = seq 0 mm.
Proof.
  set (m := x_oern (A:=A) n).
  set (J := fun (cur : x_state m) (l : list nat) => l = seq 0 (Nat.min (S cur) n)).
  assert (G : J (fst (after m (fst (start_state m)) (snd (start_state m)) ins))
                (sub_ids (map snd (fst (run m ins))))).
  { rewrite run_unfold. cbn [fst]. rewrite map_app, map_map. cbn [snd]. rewrite map_id.
    apply (sub_ids_invariant m J).
    - intros cur l now i Hl. unfold J in *. subst l.
      destruct i as [k [x|e|]|tag|]; cbn [m x_oern x_step fst snd csub_ids flat_map]; rewrite ?app_nil_r; try reflexivity;
      (destruct (Nat.ltb_spec (S cur) n) as [Hlt|Hge]; cbn [fst snd csub_ids flat_map app];
       [rewrite (Nat.min_l (S cur)), (Nat.min_l (S (S cur))) by lia; apply seq_snoc
       |rewrite app_nil_r, !Nat.min_r by lia; reflexivity]).
    - unfold J, start_state, start_obs, m. destruct n; cbn; reflexivity. }
  unfold J in G. eexists. split; [|exact G]. lia.
Qed.
End Exact.

(* ---- catch(handler): closed form in the sequential environment ------------------ *)
Section CatchHandler.
Context {A : Type}.

(* source 0 is the caught source, source 1 the observable the handler returns.  The
   elements of source 0; its completion is passed on; on its error e the handler is
   called with e: if it raises e' that error is passed on, otherwise its source is
   mirrored to the end (elements, then completion or error) *)
Definition catch_handler_spec (h : Z -> res unit) (srcs : list (list A * term)) : list (ev A) :=
  match srcs with
  | [] => []
  | (xs, t) :: rest =>
      map Next xs ++
      match t with
      | TDone => [Done]
      | TNever => []
      | TErr e =>
          match h e with
          | Raise e' => [Err e']
          | Ok _ => match rest with
                    | [] => []
                    | (ys, t1) :: _ =>
                        map Next ys ++ match t1 with TDone => [Done] | TErr e1 => [Err e1] | TNever => [] end
                    end
          end
      end
  end.

(* inputs of sources that are not subscribed change nothing (any machine) *)
Lemma run_from_not_live {B} (m : machine A B) s r (ins : list (Z * inp A)) : forall k,
  (forall now i, In (now, i) ins -> exists j e, i = ISrc j e /\ mem j (r_live r) = false) ->
  run_from m s r k ins = ([], r) /\ after m s r ins = (s, r).
Proof.
  induction ins as [|[now i] rest IH]; intros k H; [split; reflexivity|].
  destruct (H now i (or_introl eq_refl)) as (j & e & -> & Hm).
  assert (E : rstep m s r now (ISrc j e) = (s, r, [])).
  { unfold rstep. destruct (r_stopped r); [reflexivity|]. now rewrite Hm. }
  cbn [run_from after]. rewrite E.
  destruct (IH (S k)) as [H1 H2]; [intros n0 i0 Hin; apply (H n0 i0); right; exact Hin|].
  rewrite H1, H2. split; reflexivity.
Qed.

Lemma in_seq_env (srcs : list (list A * term)) : forall j now i,
  In (now, i) (seq_env_from j srcs) -> exists j' e, i = ISrc j' e /\ (j <= j')%nat.
Proof.
  induction srcs as [|s rest IH]; intros j now i H; [destruct H|].
  cbn [seq_env_from] in H. apply in_app_or in H. destruct H as [H|H].
  - unfold block in H. apply in_map_iff in H. destruct H as (e & He & _). injection He as <- <-.
    exists j, e. auto.
  - destruct (IH _ _ _ H) as (j' & e & -> & Hle). exists j', e. split; [reflexivity|lia].
Qed.

Lemma catch_handler_elems h sw c (ys : list A) : forall kk,
  run_from (x_catch_handler h) sw (RState [c] [] false) kk (map (fun e => (0, ISrc c e)) (map Next ys))
  = (map (fun p => (fst p, OEmit (Next (snd p)))) (combine (seq kk (length ys)) ys), RState [c] [] false)
  /\ after (x_catch_handler h) sw (RState [c] [] false) (map (fun e => (0, ISrc c e)) (map Next ys))
     = (sw, RState [c] [] false).
Proof.
  induction ys as [|y r IH]; intros kk; [split; reflexivity|].
  cbn [map run_from after length seq combine]. unfold rstep. rs.
  destruct (IH (S kk)) as [H1 H2]. rewrite H1, H2. split; reflexivity.
Qed.

Lemma catch_handler_dropped h sw c ts (srcs : list (list A * term)) k j : (c < j)%nat ->
  run_from (x_catch_handler h) sw (RState [c] ts false) k (seq_env_from j srcs) = ([], RState [c] ts false).
Proof.
  intros Hj. apply run_from_not_live. intros now i Hin.
  destruct (in_seq_env _ _ _ _ Hin) as (j' & e & -> & Hle). exists j', e. split; [reflexivity|].
  cbn [r_live mem existsb]. destruct (Nat.eqb_spec j' c); [lia|reflexivity].
Qed.

Lemma catch_handler_elems_emitted h sw c (ys : list A) kk :
  emitted (fst (run_from (x_catch_handler h) sw (RState [c] [] false) kk (map (fun e => (0, ISrc c e)) (map Next ys))))
  = map Next ys.
Proof. destruct (catch_handler_elems h sw c ys kk) as [H _]. rewrite H. apply emitted_nexts. Qed.

Lemma catch_handler_elems_after h sw c (ys : list A) :
  after (x_catch_handler h) sw (RState [c] [] false) (map (fun e => (0, ISrc c e)) (map Next ys))
  = (sw, RState [c] [] false).
Proof. exact (proj2 (catch_handler_elems h sw c ys 0)). Qed.

Theorem catch_handler_closed_form h (srcs : list (list A * term)) :
  emitted (fst (run (x_catch_handler h) (seq_env_from 0 srcs))) = catch_handler_spec h srcs.
Proof.
  rewrite run_unfold. cbn [fst]. rewrite emitted_app.
  unfold start_state, start_obs. cbn -[run_from seq_env_from catch_handler_spec emitted].
  change (emitted [(0%nat, @OSub A 0%nat)]) with (@nil (ev A)). cbn [app].
  destruct srcs as [|[xs t] rest]; [reflexivity|].
  cbn [seq_env_from catch_handler_spec]. rewrite run_from_app. cbn [fst].
  unfold block, events. cbn [fst snd]. rewrite map_app.
  rewrite after_app, catch_handler_elems_after. cbn [fst snd].
  rewrite run_from_app, catch_handler_elems_after. cbn [fst snd].
  rewrite !emitted_app, catch_handler_elems_emitted, <- app_assoc. f_equal.
  destruct t as [|e|].
  - cbn [map run_from after]. unfold rstep. rs.
    rewrite run_from_stopped by reflexivity. reflexivity.
  - cbn [map run_from after]. unfold rstep. rs.
    destruct (h e) as [[]|e'] eqn:Hh; rs.
    + (* the handler's source takes over *)
      destruct rest as [|[ys t1] rest2]; [reflexivity|].
      cbn [seq_env_from]. rewrite run_from_app. cbn [fst].
      unfold block, events. cbn [fst snd]. rewrite map_app.
      rewrite after_app, catch_handler_elems_after. cbn [fst snd].
      rewrite run_from_app, catch_handler_elems_after. cbn [fst snd].
      rewrite !emitted_app, catch_handler_elems_emitted, <- app_assoc. f_equal.
      destruct t1 as [|e1|].
      * cbn [map run_from after]. unfold rstep. rs.
        rewrite run_from_stopped by reflexivity. reflexivity.
      * cbn [map run_from after]. unfold rstep. rs.
        rewrite run_from_stopped by reflexivity. reflexivity.
      * cbn [map run_from after app fst snd]. rewrite catch_handler_dropped by lia. reflexivity.
    + rewrite run_from_stopped by reflexivity. reflexivity.
  - cbn [map run_from after app fst snd]. rewrite catch_handler_dropped by lia. reflexivity.
Qed.
End CatchHandler.
