(* C10: catch over a list of sources, closed form in the sequential environment
   (source k+1 is consumed only after source k failed): the output is the
   elements of the consumed sources up to the first one that completes
   (completion passed on), never terminates, or is the last one (its error is
   passed on). *)
From RxVerif Require Import Base.Prelude Ops.Machine Ops.MachineFacts Ops.Multi Ops.MultiFacts
  Ops.RunLemmas Ops.Combinators Ops.SequentialFacts.

Local Arguments Nat.ltb : simpl never.
Local Arguments Nat.leb : simpl never.

Section Catch.
Context {A : Type}.

Fixpoint catch_spec (srcs : list (list A * term)) : list (ev A) :=
  match srcs with
  | [] => [Done]
  | (xs, t) :: rest =>
      map Next xs ++ match t with
                     | TDone => [Done]
                     | TErr e => match rest with [] => [Err e] | _ :: _ => catch_spec rest end
                     | TNever => []
                     end
  end.

(* inputs of sources that are not subscribed change nothing *)
Lemma catch_dropped_block n cur last ts (srcs : list (list A * term)) : forall k j, (cur < j)%nat ->
  run_from (x_catch n) (cur, last) (RState [cur] ts false) k (seq_env_from j srcs)
  = ([], RState [cur] ts false).
Proof.
  induction srcs as [|[xs t] rest IH]; intros k j Hj; [reflexivity|].
  cbn [seq_env_from]. rewrite run_from_app.
  assert (G : forall (l : list (ev A)) kk,
    run_from (x_catch n) (cur, last) (RState [cur] ts false) kk (map (fun e => (0, ISrc j e)) l)
    = ([], RState [cur] ts false)
    /\ after (x_catch n) (cur, last) (RState [cur] ts false) (map (fun e => (0, ISrc j e)) l)
      = ((cur, last), RState [cur] ts false)).
  { induction l as [|e l IHl]; intros k0; [split; reflexivity|].
    cbn [map run_from after]. unfold rstep. cbn [r_stopped r_live mem existsb].
    destruct (Nat.eqb_spec j cur); [lia|]. cbn [orb].
    destruct (IHl (S k0)) as [H1 H2]. rewrite H1, H2. split; reflexivity. }
  unfold block. destruct (G (events (fst (xs, t)) (snd (xs, t))) k) as [G1 G2].
  rewrite G1, G2. cbn [fst snd]. rewrite IH by lia. reflexivity.
Qed.

Lemma catch_from n (srcs : list (list A * term)) : forall cur last k,
  (cur + length srcs = n)%nat -> srcs <> [] ->
  emitted (fst (run_from (x_catch n) (cur, last) (RState [cur] [] false) k (seq_env_from cur srcs)))
  = catch_spec srcs.
Proof.
  induction srcs as [|[xs t] rest IH]; intros cur last k Hn Hne; [congruence|].
  cbn [seq_env_from catch_spec]. rewrite run_from_app. cbn [fst].
  assert (G : forall (ys : list A) kk,
    run_from (x_catch n) (cur, last) (RState [cur] [] false) kk (map (fun e => (0, ISrc cur e)) (map Next ys))
    = (map (fun p => (fst p, OEmit (Next (snd p)))) (combine (seq kk (length ys)) ys), RState [cur] [] false)
    /\ after (x_catch n) (cur, last) (RState [cur] [] false) (map (fun e => (0, ISrc cur e)) (map Next ys))
      = ((cur, last), RState [cur] [] false)).
  { clear. induction ys as [|y ys IHy]; intros kk; [split; reflexivity|].
    cbn [map run_from after length seq combine]. unfold rstep. rs.
    destruct (IHy (S kk)) as [H1 H2]. rewrite H1, H2. split; reflexivity. }
  unfold block, events. cbn [fst snd]. rewrite map_app.
  destruct (G xs k) as [G1 G2].
  rewrite after_app, G2. cbn [fst snd].
  rewrite run_from_app, G1, G2. cbn [fst snd].
  rewrite !emitted_app.
  assert (E1 : emitted (map (fun p => (fst p, OEmit (Next (snd p)))) (combine (seq k (length xs)) xs))
               = map Next xs).
  { clear. generalize k. unfold emitted. induction xs as [|x xs IHx]; intros kk; [reflexivity|].
    cbn. now rewrite IHx. }
  rewrite E1. rewrite <- app_assoc. f_equal.
  rewrite app_length, !map_length.
  destruct t as [|e|].
  - (* completes: passed on, everything after is ignored *)
    cbn [map run_from after]. unfold rstep. rs.
    rewrite run_from_stopped by reflexivity. reflexivity.
  - (* fails: move on to the next source, or pass the error of the last one on *)
    cbn [map run_from after]. unfold rstep. rs.
    destruct (Nat.ltb_spec (S cur) n) as [Hlt|Hge]; rs.
    + destruct rest as [|s2 rest2]; [cbn in Hn; lia|].
      rewrite IH; [reflexivity|cbn in *; lia|discriminate].
    + destruct rest as [|s2 rest2]; [|cbn in Hn; lia].
      cbn. reflexivity.
  - cbn [map run_from after app fst snd]. rewrite catch_dropped_block by lia. reflexivity.
Qed.

Theorem catch_closed_form (srcs : list (list A * term)) :
  emitted (fst (run (x_catch (length srcs)) (seq_env_from 0 srcs))) = catch_spec srcs.
Proof.
  rewrite run_unfold. cbn [fst]. rewrite emitted_app.
  destruct srcs as [|s rest].
  - cbn. reflexivity.
  - unfold start_state, start_obs. cbn -[run_from seq_env_from catch_spec emitted].
    rewrite (catch_from (S (length rest)) (s :: rest) 0 None 1); [reflexivity|reflexivity|discriminate].
Qed.
End Catch.

(* ---- on_error_resume_next: continues on completion AND on error ------------ *)
Section Oern.
Context {A : Type}.

Fixpoint oern_spec (srcs : list (list A * term)) : list (ev A) :=
  match srcs with
  | [] => [Done]
  | (xs, t) :: rest =>
      map Next xs ++ match t with TNever => [] | _ => oern_spec rest end
  end.

Lemma oern_dropped_block n cur ts (srcs : list (list A * term)) : forall k j, (cur < j)%nat ->
  run_from (x_oern n) cur (RState [cur] ts false) k (seq_env_from j srcs)
  = ([], RState [cur] ts false).
Proof.
  induction srcs as [|[xs t] rest IH]; intros k j Hj; [reflexivity|].
  cbn [seq_env_from]. rewrite run_from_app.
  assert (G : forall (l : list (ev A)) kk,
    run_from (x_oern n) cur (RState [cur] ts false) kk (map (fun e => (0, ISrc j e)) l)
    = ([], RState [cur] ts false)
    /\ after (x_oern n) cur (RState [cur] ts false) (map (fun e => (0, ISrc j e)) l)
      = (cur, RState [cur] ts false)).
  { induction l as [|e l IHl]; intros k0; [split; reflexivity|].
    cbn [map run_from after]. unfold rstep. cbn [r_stopped r_live mem existsb].
    destruct (Nat.eqb_spec j cur); [lia|]. cbn [orb].
    destruct (IHl (S k0)) as [H1 H2]. rewrite H1, H2. split; reflexivity. }
  unfold block. destruct (G (events (fst (xs, t)) (snd (xs, t))) k) as [G1 G2].
  rewrite G1, G2. cbn [fst snd]. rewrite IH by lia. reflexivity.
Qed.

Lemma oern_from n (srcs : list (list A * term)) : forall cur k,
  (cur + length srcs = n)%nat -> srcs <> [] ->
  emitted (fst (run_from (x_oern n) cur (RState [cur] [] false) k (seq_env_from cur srcs)))
  = oern_spec srcs.
Proof.
  induction srcs as [|[xs t] rest IH]; intros cur k Hn Hne; [congruence|].
  cbn [seq_env_from oern_spec]. rewrite run_from_app. cbn [fst].
  assert (G : forall (ys : list A) kk,
    run_from (x_oern n) cur (RState [cur] [] false) kk (map (fun e => (0, ISrc cur e)) (map Next ys))
    = (map (fun p => (fst p, OEmit (Next (snd p)))) (combine (seq kk (length ys)) ys), RState [cur] [] false)
    /\ after (x_oern n) cur (RState [cur] [] false) (map (fun e => (0, ISrc cur e)) (map Next ys))
      = (cur, RState [cur] [] false)).
  { clear. induction ys as [|y ys IHy]; intros kk; [split; reflexivity|].
    cbn [map run_from after length seq combine]. unfold rstep. rs.
    destruct (IHy (S kk)) as [H1 H2]. rewrite H1, H2. split; reflexivity. }
  unfold block, events. cbn [fst snd]. rewrite map_app.
  destruct (G xs k) as [G1 G2].
  rewrite after_app, G2. cbn [fst snd].
  rewrite run_from_app, G1, G2. cbn [fst snd].
  rewrite !emitted_app.
  assert (E1 : emitted (map (fun p => (fst p, OEmit (Next (snd p)))) (combine (seq k (length xs)) xs))
               = map Next xs).
  { clear. generalize k. unfold emitted. induction xs as [|x xs IHx]; intros kk; [reflexivity|].
    cbn. now rewrite IHx. }
  rewrite E1. rewrite <- app_assoc. f_equal.
  rewrite app_length, !map_length.
  destruct t as [|e|].
  - cbn [map run_from after]. unfold rstep. rs.
    destruct (Nat.ltb_spec (S cur) n) as [Hlt|Hge]; rs.
    + destruct rest as [|s2 rest2]; [cbn in Hn; lia|].
      rewrite IH; [reflexivity|cbn in *; lia|discriminate].
    + destruct rest as [|s2 rest2]; [|cbn in Hn; lia].
      cbn. reflexivity.
  - cbn [map run_from after]. unfold rstep. rs.
    destruct (Nat.ltb_spec (S cur) n) as [Hlt|Hge]; rs.
    + destruct rest as [|s2 rest2]; [cbn in Hn; lia|].
      rewrite IH; [reflexivity|cbn in *; lia|discriminate].
    + destruct rest as [|s2 rest2]; [|cbn in Hn; lia].
      cbn. reflexivity.
  - cbn [map run_from after app fst snd]. rewrite oern_dropped_block by lia. reflexivity.
Qed.

Theorem oern_closed_form (srcs : list (list A * term)) :
  emitted (fst (run (x_oern (length srcs)) (seq_env_from 0 srcs))) = oern_spec srcs.
Proof.
  rewrite run_unfold. cbn [fst]. rewrite emitted_app.
  destruct srcs as [|s rest].
  - cbn. reflexivity.
  - unfold start_state, start_obs. cbn -[run_from seq_env_from oern_spec emitted].
    rewrite (oern_from (S (length rest)) (s :: rest) 0 1); [reflexivity|reflexivity|discriminate].
Qed.
End Oern.
