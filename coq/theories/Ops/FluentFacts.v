(* C39 -- facts about the call-binding model of Ops/Fluent.v.

   Main result [forward_sound]: the finite check [entry_ok] of a table entry
   implies, for EVERY call (any number of positional values, any keywords, any
   values), that if the method's own signature accepts the call then the
   method ends up applying the operator function that the same-named operator
   called directly with the same arguments would apply, with identical bound
   arguments.

   Why a finite check suffices:
   - binding never inspects values ([bind_map]: it commutes with any map on
     values that fixes constants), and a method body inspects them only
     through `P is C` for the guard constants K ([eval_method_map]);
   - so a call behaves like its abstraction [abs_call] (every value that is
     not a guard constant replaced by a distinct opaque token), and the
     abstractions of the calls a method accepts are finitely many
     ([abs_in_family]);
   - positionals beyond the positional parameters of a *args method travel
     together to the end of the operator's *args ([bind_extra]). *)
From Coq Require Import List String Bool Arith Lia.
From RxVerif Require Import Ops.Fluent.
Import ListNotations.
Open Scope string_scope.
Open Scope list_scope.

(* ---- basics ----------------------------------------------------------------- *)
Lemma mem_In : forall k l, mem k l = true <-> In k l.
Proof.
  intros k l. unfold mem. rewrite existsb_exists. split.
  - intros [x [H1 H2]]. apply String.eqb_eq in H2. subst. exact H1.
  - intros H. exists k. split; [exact H | apply String.eqb_refl].
Qed.

Lemma mem_false_not_In : forall k l, mem k l = false -> ~ In k l.
Proof. intros k l H HI. apply mem_In in HI. congruence. Qed.

Lemma nodupb_NoDup : forall l, nodupb l = true -> NoDup l.
Proof.
  induction l as [|x r IH]; simpl; intros H; [constructor|].
  apply andb_true_iff in H. destruct H as [H1 H2]. constructor; [|auto].
  apply negb_true_iff in H1. apply mem_false_not_In. exact H1.
Qed.

Lemma lookup_kmap : forall f k l, lookup k (kmap f l) = option_map f (lookup k l).
Proof.
  intros f k l. induction l as [|[k' v] r IH]; simpl; [reflexivity|].
  destruct (String.eqb k k'); [reflexivity | exact IH].
Qed.

Lemma map_fst_kmap : forall f l, map fst (kmap f l) = map fst l.
Proof. intros f l. unfold kmap. rewrite map_map. reflexivity. Qed.

(* ---- binding commutes with maps on values ------------------------------------- *)
Definition fixes_consts (f : value -> value) : Prop := forall c, f (VConst c) = VConst c.
Definition respects (K : list const) (f : value -> value) : Prop :=
  fixes_consts f /\ forall i C, In C K -> value_is (f (VOpaque i)) C = false.

Lemma from_kw_map : forall f p kws, fixes_consts f ->
  from_kw p (kmap f kws) = option_map f (from_kw p kws).
Proof.
  intros f p kws Hf. unfold from_kw. rewrite lookup_kmap.
  destruct (lookup (pname p) kws); simpl; [reflexivity|].
  destruct (pdef p); simpl; [rewrite Hf|]; reflexivity.
Qed.

Definition tmap (f : value -> value) (t : list (string * value) * list value * list value) :=
  let '(n, va, lo) := t in (kmap f n, map f va, map f lo).

Lemma bind_go_map : forall f ps, fixes_consts f -> forall pos kws,
  bind_go ps (map f pos) (kmap f kws) = option_map (tmap f) (bind_go ps pos kws).
Proof.
  intros f ps Hf. induction ps as [|p ps IH]; intros pos kws; simpl; [reflexivity|].
  destruct (pkind p).
  - destruct pos as [|v pos']; simpl.
    + rewrite from_kw_map by exact Hf. destruct (from_kw p kws); simpl; [|reflexivity].
      specialize (IH [] kws). simpl in IH. rewrite IH.
      destruct (bind_go ps [] kws) as [[[n va] lo]|]; reflexivity.
    + rewrite map_fst_kmap. destruct (mem (pname p) (map fst kws)); [reflexivity|].
      rewrite IH. destruct (bind_go ps pos' kws) as [[[n va] lo]|]; reflexivity.
  - specialize (IH [] kws). simpl in IH. rewrite IH.
    destruct (bind_go ps [] kws) as [[[n va] lo]|]; reflexivity.
  - rewrite from_kw_map by exact Hf. destruct (from_kw p kws); simpl; [|reflexivity].
    rewrite IH. destruct (bind_go ps pos kws) as [[[n va] lo]|]; reflexivity.
Qed.

Lemma bind_map : forall f s c, fixes_consts f ->
  bind s (cmap f c) = option_map (emap f) (bind s c).
Proof.
  intros f s c Hf. unfold bind, cmap. simpl. rewrite map_fst_kmap.
  destruct (nodupb (map fst (ckws c)) && forallb (fun k => mem k (kwnames s)) (map fst (ckws c)));
    [|reflexivity].
  rewrite bind_go_map by exact Hf.
  destruct (bind_go s (cpos c) (ckws c)) as [[[n va] lo]|]; simpl; [|reflexivity].
  destruct lo; reflexivity.
Qed.

Lemma eval_src_map : forall f b s, fixes_consts f ->
  eval_src (emap f b) s = option_map f (eval_src b s).
Proof.
  intros f b s Hf. destruct s; simpl; [apply lookup_kmap | rewrite Hf; reflexivity].
Qed.

Lemma eval_args_map : forall f ms b args, fixes_consts f ->
  eval_args ms (emap f b) args = option_map (cmap f) (eval_args ms b args).
Proof.
  intros f ms b args Hf. induction args as [|a r IH]; simpl; [reflexivity|].
  rewrite IH. destruct (eval_args ms b r) as [c|]; simpl; [|reflexivity].
  destruct a as [s|p|k s].
  - rewrite eval_src_map by exact Hf. destruct (eval_src b s); reflexivity.
  - destruct (is_varpos_name ms p); [|reflexivity].
    unfold cmap. simpl. rewrite map_app. reflexivity.
  - rewrite eval_src_map by exact Hf. destruct (eval_src b s); reflexivity.
Qed.

Lemma value_is_map : forall K f v C, respects K f -> In C K -> value_is (f v) C = value_is v C.
Proof.
  intros K f v C [Hf Ho] HC. destruct v as [c|i]; [rewrite Hf; reflexivity|].
  simpl. apply Ho. exact HC.
Qed.

Lemma guard_holds_map : forall K f b g, respects K f -> In (snd g) K ->
  guard_holds (emap f b) g = guard_holds b g.
Proof.
  intros K f b g Hr HC. unfold guard_holds. simpl. rewrite lookup_kmap.
  destruct (lookup (fst g) (bnamed b)); simpl; [|reflexivity].
  eapply value_is_map; eauto.
Qed.

Definition branch_guards_in (K : list const) (br : branch) : bool :=
  forallb (fun g => mem (snd g) K) (bguards br).

Lemma guards_forall_map : forall K f b gs, respects K f ->
  forallb (fun g => mem (snd g) K) gs = true ->
  forallb (guard_holds (emap f b)) gs = forallb (guard_holds b) gs.
Proof.
  intros K f b gs Hr. induction gs as [|g r IH]; simpl; intros H; [reflexivity|].
  apply andb_true_iff in H. destruct H as [H1 H2].
  rewrite (guard_holds_map K) by (auto; apply mem_In; exact H1).
  rewrite IH by exact H2. reflexivity.
Qed.

Lemma select_map : forall K f brs b, respects K f ->
  forallb (branch_guards_in K) brs = true ->
  select brs (emap f b) = select brs b.
Proof.
  intros K f brs b Hr. unfold select. induction brs as [|br r IH]; simpl; intros H; [reflexivity|].
  apply andb_true_iff in H. destruct H as [H1 H2].
  rewrite (guards_forall_map K) by (auto; exact H1).
  destruct (forallb (guard_holds b) (bguards br)); [reflexivity | apply IH; exact H2].
Qed.

Lemma direct_map : forall f ops n c, fixes_consts f ->
  direct ops n (cmap f c) = option_map (rmap f) (direct ops n c).
Proof.
  intros f ops n c Hf. unfold direct. destruct (find_op ops n) as [o|]; [|reflexivity].
  rewrite bind_map by exact Hf. destruct (bind (osig o) c); reflexivity.
Qed.

Lemma eval_method_unfold : forall tbl ops fuel e c,
  eval_method tbl ops fuel e c =
  match bind (esig e) c with
  | None => None
  | Some b =>
    match select (ebranches e) b with
    | None => None
    | Some br =>
      match bform br with
      | FOp n args =>
        match eval_args (esig e) b args with
        | Some c' => direct ops n c'
        | None => None
        end
      | FSelf m args =>
        match fuel with
        | O => None
        | S fuel' =>
          match find_entry tbl m, eval_args (esig e) b args with
          | Some e', Some c' => eval_method tbl ops fuel' e' c'
          | _, _ => None
          end
        end
      end
    end
  end.
Proof. intros. destruct fuel; reflexivity. Qed.

Lemma find_entry_In : forall tbl m e, find_entry tbl m = Some e -> In e tbl.
Proof. intros tbl m e H. unfold find_entry in H. apply find_some in H. tauto. Qed.

Lemma eval_method_map : forall K f tbl ops, respects K f ->
  forallb (guards_in K) tbl = true ->
  forall fuel e c, guards_in K e = true ->
  eval_method tbl ops fuel e (cmap f c) = option_map (rmap f) (eval_method tbl ops fuel e c).
Proof.
  intros K f tbl ops Hr Htbl. assert (Hf : fixes_consts f) by exact (proj1 Hr).
  induction fuel as [|fuel IH]; intros e c He.
  - rewrite !eval_method_unfold. rewrite bind_map by exact Hf.
    destruct (bind (esig e) c) as [b|]; simpl; [|reflexivity].
    rewrite (select_map K) by (auto; exact He).
    destruct (select (ebranches e) b) as [br|]; [|reflexivity].
    destruct (bform br) as [n args|m args]; [|reflexivity].
    rewrite eval_args_map by exact Hf.
    destruct (eval_args (esig e) b args) as [c'|]; simpl; [|reflexivity].
    apply direct_map. exact Hf.
  - rewrite !(eval_method_unfold tbl ops (S fuel)). rewrite bind_map by exact Hf.
    destruct (bind (esig e) c) as [b|]; simpl; [|reflexivity].
    rewrite (select_map K) by (auto; exact He).
    destruct (select (ebranches e) b) as [br|]; [|reflexivity].
    destruct (bform br) as [n args|m args].
    + rewrite eval_args_map by exact Hf.
      destruct (eval_args (esig e) b args) as [c'|]; simpl; [|reflexivity].
      apply direct_map. exact Hf.
    + destruct (find_entry tbl m) as [e'|] eqn:Hfe; [|reflexivity].
      rewrite eval_args_map by exact Hf.
      destruct (eval_args (esig e) b args) as [c'|]; simpl; [|reflexivity].
      apply IH. apply find_entry_In in Hfe.
      rewrite forallb_forall in Htbl. apply Htbl. exact Hfe.
Qed.

(* ---- abstraction of a call --------------------------------------------------- *)
Definition absv (K : list const) (i : nat) (v : value) : value :=
  match v with
  | VConst c => if mem c K then VConst c else VOpaque i
  | VOpaque _ => VOpaque i
  end.
Fixpoint abs_vals (K : list const) (i : nat) (vs : list value) : list value :=
  match vs with [] => [] | v :: r => absv K i v :: abs_vals K (S i) r end.
Definition call_vals (c : call) : list value := cpos c ++ map snd (ckws c).
Definition abs_call (K : list const) (c : call) : call :=
  mkcall (abs_vals K 0 (cpos c))
         (combine (map fst (ckws c)) (abs_vals K (List.length (cpos c)) (map snd (ckws c)))).

(* concretisation: token i -> the i-th supplied value *)
Definition conc (K : list const) (all : list value) (v : value) : value :=
  match v with
  | VConst c => VConst c
  | VOpaque i =>
    match nth i all (VOpaque 0) with
    | VConst c => if mem c K then VOpaque 0 else VConst c
    | w => w
    end
  end.

Lemma conc_respects : forall K all, respects K (conc K all).
Proof.
  intros K all. split; [intros c; reflexivity|].
  intros i C HC. simpl. destruct (nth i all (VOpaque 0)) as [c|j]; [|reflexivity].
  destruct (mem c K) eqn:Hm; [reflexivity|]. simpl.
  apply String.eqb_neq. intros ->. apply mem_false_not_In in Hm. contradiction.
Qed.

Lemma conc_abs_vals : forall K pre vs,
  map (conc K (pre ++ vs)) (abs_vals K (List.length pre) vs) = vs.
Proof.
  intros K pre vs. revert pre. induction vs as [|v r IH]; intros pre; simpl; [reflexivity|].
  f_equal.
  - destruct v as [c|j]; simpl.
    + destruct (mem c K) eqn:Hm; simpl; [reflexivity|].
      rewrite app_nth2 by lia. rewrite Nat.sub_diag. simpl. rewrite Hm. reflexivity.
    + rewrite app_nth2 by lia. rewrite Nat.sub_diag. reflexivity.
  - specialize (IH (pre ++ [v])). rewrite app_length in IH. simpl in IH.
    rewrite Nat.add_1_r in IH. rewrite <- app_assoc in IH. simpl in IH. exact IH.
Qed.

Lemma kmap_combine : forall f ks vs, kmap f (combine ks vs) = combine ks (map f vs).
Proof.
  intros f ks. induction ks as [|k r IH]; intros vs; simpl; [reflexivity|].
  destruct vs; simpl; [reflexivity|]. rewrite IH. reflexivity.
Qed.

Lemma combine_fst_snd : forall (l : list (string * value)), combine (map fst l) (map snd l) = l.
Proof. induction l as [|[k v] r IH]; simpl; [reflexivity | rewrite IH; reflexivity]. Qed.

Lemma conc_abs_call : forall K c, cmap (conc K (call_vals c)) (abs_call K c) = c.
Proof.
  intros K c. destruct c as [pos kws]. unfold cmap, abs_call, call_vals. simpl. f_equal.
  - pose proof (conc_abs_vals K [] (pos ++ map snd kws)) as H. simpl in H.
    (* prefix of the joint list *)
    assert (G : forall i l1 l2, abs_vals K i (l1 ++ l2) = abs_vals K i l1 ++ abs_vals K (i + List.length l1) l2).
    { intros i l1. revert i. induction l1 as [|x l1 IH]; intros i l2; simpl.
      - rewrite Nat.add_0_r. reflexivity.
      - rewrite IH. rewrite Nat.add_succ_r. reflexivity. }
    rewrite G in H. rewrite map_app in H. simpl in H.
    apply (f_equal (firstn (List.length pos))) in H.
    rewrite firstn_app in H. rewrite map_length in H.
    assert (L : forall i l, List.length (abs_vals K i l) = List.length l).
    { intros i l. revert i. induction l; intros i; simpl; [reflexivity | rewrite IHl; reflexivity]. }
    rewrite L in H. rewrite Nat.sub_diag in H. simpl in H. rewrite app_nil_r in H.
    rewrite firstn_all2 in H by (rewrite map_length, L; lia).
    rewrite firstn_app in H. rewrite Nat.sub_diag in H. simpl in H. rewrite app_nil_r in H.
    rewrite firstn_all in H. exact H.
  - rewrite kmap_combine.
    pose proof (conc_abs_vals K pos (map snd kws)) as H. rewrite H.
    apply combine_fst_snd.
Qed.

(* the abstraction is a member of the enumerated family *)
Definition flag_of (K : list const) (v : value) : option const :=
  match v with VConst c => if mem c K then Some c else None | VOpaque _ => None end.

Lemma abs_vals_build : forall K i vs, abs_vals K i vs = build_vals i (map (flag_of K) vs).
Proof.
  intros K i vs. revert i. induction vs as [|v r IH]; intros i; simpl; [reflexivity|].
  rewrite IH. f_equal. destruct v as [c|j]; simpl; [|reflexivity]. destruct (mem c K); reflexivity.
Qed.

Lemma abs_call_build : forall K c,
  abs_call K c = build_call (List.length (cpos c)) (map fst (ckws c)) (map (flag_of K) (call_vals c)).
Proof.
  intros K c. unfold abs_call, build_call, call_vals. rewrite map_app.
  rewrite firstn_app, skipn_app. rewrite map_length. rewrite Nat.sub_diag. simpl.
  rewrite firstn_all2 by (rewrite map_length; lia).
  rewrite skipn_all2 by (rewrite map_length; lia).
  rewrite app_nil_r. simpl. rewrite !abs_vals_build. reflexivity.
Qed.

Lemma flag_of_nil : forall vs, map (flag_of []) vs = repeat None (List.length vs).
Proof. induction vs as [|v r IH]; simpl; [reflexivity|]. rewrite IH. destruct v; reflexivity. Qed.

Lemma in_all_lists : forall (A : Type) (xs : list A) (l : list A),
  (forall x, In x l -> In x xs) -> In l (all_lists xs (List.length l)).
Proof.
  intros A xs l. induction l as [|x r IH]; intros H; simpl; [left; reflexivity|].
  apply in_flat_map. exists x. split; [apply H; left; reflexivity|].
  apply in_map. apply IH. intros y Hy. apply H. right. exact Hy.
Qed.

Lemma in_lists_upto : forall (A : Type) (xs l : list A) k,
  (forall x, In x l -> In x xs) -> List.length l <= k -> In l (lists_upto xs k).
Proof.
  intros A xs l k H Hk. unfold lists_upto. apply in_flat_map. exists (List.length l). split.
  - apply in_seq. lia.
  - apply in_all_lists. exact H.
Qed.

Lemma flag_in_opts : forall K v, In (flag_of K v) (opts K).
Proof.
  intros K v. unfold opts. destruct v as [c|i]; simpl; [|left; reflexivity].
  destruct (mem c K) eqn:Hm; [|left; reflexivity].
  right. apply in_map. apply mem_In. exact Hm.
Qed.

(* ---- what an accepted call looks like -------------------------------------------- *)
Lemma npos_cons : forall p ps, npos (p :: ps) = (if is_poskw p then 1 else 0) + npos ps.
Proof. intros p ps. unfold npos. simpl. destruct (is_poskw p); reflexivity. Qed.

Lemma has_varpos_cons : forall p ps, has_varpos (p :: ps) = is_varpos p || has_varpos ps.
Proof. reflexivity. Qed.

Lemma bind_go_leftover : forall ps pos kws n va lo,
  bind_go ps pos kws = Some (n, va, lo) -> has_varpos ps = false ->
  lo = [] -> List.length pos <= npos ps.
Proof.
  induction ps as [|p ps IH]; intros pos kws n va lo H Hv Hlo.
  - simpl in H. inversion H; subst. simpl. lia.
  - rewrite has_varpos_cons in Hv. apply orb_false_iff in Hv. destruct Hv as [Hp Hv].
    rewrite npos_cons. simpl in H. unfold is_varpos in Hp. unfold is_poskw.
    destruct (pkind p); try discriminate.
    + destruct pos as [|v pos']; [simpl; lia|].
      destruct (mem (pname p) (map fst kws)); [discriminate|].
      destruct (bind_go ps pos' kws) as [[[n' va'] lo']|] eqn:E; [|discriminate].
      inversion H; subst. pose proof (IH _ _ _ _ _ E Hv eq_refl). simpl. lia.
    + destruct (from_kw p kws); [|discriminate].
      destruct (bind_go ps pos kws) as [[[n' va'] lo']|] eqn:E; [|discriminate].
      inversion H; subst. pose proof (IH _ _ _ _ _ E Hv eq_refl). simpl. lia.
Qed.

Lemma bind_some_shape : forall s c b, bind s c = Some b ->
  NoDup (map fst (ckws c)) /\ (forall k, In k (map fst (ckws c)) -> In k (kwnames s)) /\
  (has_varpos s = false -> List.length (cpos c) <= npos s).
Proof.
  intros s c b H. unfold bind in H.
  destruct (nodupb (map fst (ckws c)) && forallb (fun k => mem k (kwnames s)) (map fst (ckws c))) eqn:E;
    [|discriminate].
  apply andb_true_iff in E. destruct E as [E1 E2]. split; [apply nodupb_NoDup; exact E1|]. split.
  - intros k Hk. rewrite forallb_forall in E2. apply mem_In. apply E2. exact Hk.
  - intros Hv. destruct (bind_go s (cpos c) (ckws c)) as [[[n va] lo]|] eqn:G; [|discriminate].
    destruct lo; [|discriminate].
    exact (bind_go_leftover _ _ _ _ _ _ G Hv eq_refl).
Qed.

(* ---- decidable equalities reflect ----------------------------------------------------- *)
Lemma value_eqb_eq : forall a b, value_eqb a b = true -> a = b.
Proof.
  intros [x|i] [y|j]; simpl; intros H; try discriminate.
  - apply String.eqb_eq in H. subst. reflexivity.
  - apply Nat.eqb_eq in H. subst. reflexivity.
Qed.

Lemma leqb_eq : forall (A : Type) (eqb : A -> A -> bool),
  (forall a b, eqb a b = true -> a = b) -> forall l1 l2, leqb eqb l1 l2 = true -> l1 = l2.
Proof.
  intros A eqb He. induction l1 as [|x r IH]; intros [|y s]; simpl; intros H; try discriminate;
    [reflexivity|].
  apply andb_true_iff in H. destruct H as [H1 H2]. f_equal; [apply He; exact H1 | apply IH; exact H2].
Qed.

Lemma kv_eqb_eq : forall a b, kv_eqb a b = true -> a = b.
Proof.
  intros [k v] [k' v']. unfold kv_eqb. simpl. intros H. apply andb_true_iff in H. destruct H as [H1 H2].
  apply String.eqb_eq in H1. apply value_eqb_eq in H2. subst. reflexivity.
Qed.

Lemma result_eqb_eq : forall a b, result_eqb a b = true -> a = b.
Proof.
  intros [o [n v]] [o' [n' v']]. unfold result_eqb, benv_eqb. simpl. intros H.
  apply andb_true_iff in H. destruct H as [H1 H]. apply andb_true_iff in H. destruct H as [H2 H3].
  apply String.eqb_eq in H1. apply (leqb_eq _ _ kv_eqb_eq) in H2. apply (leqb_eq _ _ value_eqb_eq) in H3.
  subst. reflexivity.
Qed.

(* ---- the finite case: calls with at most npos positionals (all calls, if no *args) ----- *)
Lemma fin_sound_on : forall names tbl ops fuel K e,
  forallb (guards_in K) tbl = true -> guards_in K e = true ->
  entry_fin_ok_on names tbl ops fuel K e = true ->
  forall c b, bind (esig e) c = Some b -> List.length (cpos c) <= npos (esig e) ->
  (forall k, In k (map fst (ckws c)) -> In k names) ->
  exists r, eval_method tbl ops fuel e c = Some r /\ direct ops (ename e) c = Some r.
Proof.
  intros names tbl ops fuel K e Htbl He Hok c b Hb Hn Hin.
  destruct (bind_some_shape _ _ _ Hb) as [Hnd _].
  set (n := List.length (cpos c)). set (l := map fst (ckws c)).
  assert (Hlen : List.length (call_vals c) = n + List.length l).
  { unfold call_vals, n, l. rewrite app_length, !map_length. reflexivity. }
  unfold entry_fin_ok_on in Hok. rewrite forallb_forall in Hok.
  assert (Hn' : In n (seq 0 (S (npos (esig e))))) by (apply in_seq; lia).
  specialize (Hok n Hn'). rewrite forallb_forall in Hok.
  assert (Hl : In l (lists_upto names (List.length names))).
  { apply in_lists_upto; [exact Hin|]. apply NoDup_incl_length; [exact Hnd | exact Hin]. }
  specialize (Hok l Hl).
  (* the all-opaque skeleton is accepted because c is *)
  pose proof (conc_abs_call [] c) as Hc0.
  rewrite abs_call_build in Hc0. rewrite flag_of_nil, Hlen in Hc0. fold n l in Hc0.
  assert (Hskel : bind (esig e) (build_call n l (repeat None (n + List.length l))) <> None).
  { intros Hnone. rewrite <- Hc0 in Hb.
    rewrite bind_map in Hb by (exact (proj1 (conc_respects [] _))). rewrite Hnone in Hb. discriminate. }
  destruct (bind (esig e) (build_call n l (repeat None (n + List.length l)))); [|congruence].
  rewrite forallb_forall in Hok.
  assert (Hfl : In (map (flag_of K) (call_vals c)) (all_lists (opts K) (n + List.length l))).
  { rewrite <- Hlen. rewrite <- (map_length (flag_of K)). apply in_all_lists.
    intros x Hx. apply in_map_iff in Hx. destruct Hx as [v [<- _]]. apply flag_in_opts. }
  specialize (Hok _ Hfl).
  (* transfer from the abstraction to c *)
  pose proof (conc_abs_call K c) as Hc. rewrite abs_call_build in Hc. fold n l in Hc.
  set (a := build_call n l (map (flag_of K) (call_vals c))) in *.
  set (f := conc K (call_vals c)) in *.
  assert (Hr : respects K f) by apply conc_respects.
  unfold shape_ok in Hok.
  rewrite <- Hc in Hb. rewrite bind_map in Hb by exact (proj1 Hr).
  destruct (bind (esig e) a); [|discriminate].
  destruct (eval_method tbl ops fuel e a) as [r|] eqn:Em; [|discriminate].
  destruct (direct ops (ename e) a) as [r'|] eqn:Ed; [|discriminate].
  apply result_eqb_eq in Hok. subst r'.
  exists (rmap f r). rewrite <- Hc. split.
  - rewrite (eval_method_map K) by assumption. rewrite Em. reflexivity.
  - rewrite direct_map by exact (proj1 Hr). rewrite Ed. reflexivity.
Qed.

Lemma fin_sound : forall tbl ops fuel K e,
  forallb (guards_in K) tbl = true -> guards_in K e = true ->
  entry_fin_ok tbl ops fuel K e = true ->
  forall c b, bind (esig e) c = Some b -> List.length (cpos c) <= npos (esig e) ->
  exists r, eval_method tbl ops fuel e c = Some r /\ direct ops (ename e) c = Some r.
Proof.
  intros tbl ops fuel K e Htbl He Hok c b Hb Hn.
  eapply fin_sound_on; eauto. exact (proj1 (proj2 (bind_some_shape _ _ _ Hb))).
Qed.

(* calls without keywords (any number of positionals the method accepts, no *args) *)
Theorem positional_sound : forall tbl ops fuel K e,
  forallb (guards_in K) tbl = true -> entry_pos_ok tbl ops fuel K e = true ->
  has_varpos (esig e) = false ->
  forall c b, ckws c = [] -> bind (esig e) c = Some b ->
  exists r, eval_method tbl ops fuel e c = Some r /\ direct ops (ename e) c = Some r.
Proof.
  intros tbl ops fuel K e Htbl Hok Hv c b Hk Hb.
  unfold entry_pos_ok in Hok. apply andb_true_iff in Hok. destruct Hok as [Hg Hfin].
  eapply fin_sound_on; eauto.
  - exact (proj2 (proj2 (bind_some_shape _ _ _ Hb)) Hv).
  - rewrite Hk. simpl. tauto.
Qed.

(* ---- *args: positionals beyond the positional parameters ------------------------------- *)
Lemma bind_go_extra : forall ps pos kws extra,
  has_varpos ps = true -> npos ps <= List.length pos ->
  bind_go ps (pos ++ extra) kws =
  option_map (fun t => let '(n, va, lo) := t in (n, va ++ extra, lo)) (bind_go ps pos kws).
Proof.
  induction ps as [|p ps IH]; intros pos kws extra Hv Hn; [discriminate|].
  rewrite has_varpos_cons in Hv. rewrite npos_cons in Hn. simpl.
  unfold is_varpos in Hv. unfold is_poskw in Hn.
  destruct (pkind p); simpl in *.
  - destruct pos as [|v pos']; simpl in *; [lia|].
    destruct (mem (pname p) (map fst kws)); [reflexivity|].
    rewrite IH by (auto; lia). destruct (bind_go ps pos' kws) as [[[n va] lo]|]; reflexivity.
  - destruct (bind_go ps [] kws) as [[[n va] lo]|]; reflexivity.
  - destruct (from_kw p kws); [|reflexivity].
    rewrite IH by (auto; lia). destruct (bind_go ps pos kws) as [[[n va] lo]|]; reflexivity.
Qed.

Lemma bind_extra : forall s pos kws extra,
  has_varpos s = true -> npos s <= List.length pos ->
  bind s (mkcall (pos ++ extra) kws) = option_map (add_extra extra) (bind s (mkcall pos kws)).
Proof.
  intros s pos kws extra Hv Hn. unfold bind. simpl.
  destruct (nodupb (map fst kws) && forallb (fun k => mem k (kwnames s)) (map fst kws)); [|reflexivity].
  rewrite bind_go_extra by assumption.
  destruct (bind_go s pos kws) as [[[n va] lo]|]; simpl; [|reflexivity].
  destruct lo; reflexivity.
Qed.

Lemma eval_args_akw : forall ms b extra r c0,
  forallb is_akw r = true -> eval_args ms b r = Some c0 ->
  cpos c0 = [] /\ eval_args ms (add_extra extra b) r = Some c0.
Proof.
  intros ms b extra. induction r as [|a r IH]; intros c0 Hk H; simpl in *.
  - inversion H; subst. split; reflexivity.
  - apply andb_true_iff in Hk. destruct Hk as [Ha Hk].
    destruct a as [s|p|k s]; try discriminate.
    destruct (eval_args ms b r) as [c1|] eqn:E; [|discriminate].
    destruct (IH c1 Hk eq_refl) as [P Q]. rewrite Q.
    assert (Es : eval_src (add_extra extra b) s = eval_src b s) by (destruct s; reflexivity).
    rewrite Es. destruct (eval_src b s); [|discriminate]. inversion H; subst. simpl. split; [exact P | reflexivity].
Qed.

Lemma eval_args_extra : forall ms b extra args k c',
  star_ok ms k args = true -> eval_args ms b args = Some c' ->
  eval_args ms (add_extra extra b) args = Some (mkcall (cpos c' ++ extra) (ckws c'))
  /\ k <= List.length (cpos c').
Proof.
  intros ms b extra. induction args as [|a r IH]; intros k c' Hs H; [discriminate|].
  simpl in Hs. destruct a as [s|p|kk s]; [| |discriminate].
  - simpl in H. destruct (eval_args ms b r) as [c0|] eqn:E; [|discriminate].
    destruct (IH _ _ Hs eq_refl) as [P Q]. simpl. rewrite P.
    assert (Es : eval_src (add_extra extra b) s = eval_src b s) by (destruct s; reflexivity).
    rewrite Es. destruct (eval_src b s); [|discriminate]. inversion H; subst. simpl. split; [reflexivity | lia].
  - apply andb_true_iff in Hs. destruct Hs as [Hs Hk]. apply andb_true_iff in Hs. destruct Hs as [Hz Hp].
    apply Nat.eqb_eq in Hz. subst k. simpl in H. simpl.
    destruct (eval_args ms b r) as [c0|] eqn:E; [|discriminate].
    destruct (eval_args_akw ms b extra r c0 Hk E) as [P Q]. rewrite Q. rewrite Hp in *.
    inversion H; subst. simpl. rewrite P. rewrite !app_nil_r. split; [reflexivity | lia].
Qed.

Lemma direct_extra : forall ops n o pos kws extra,
  find_op ops n = Some o -> has_varpos (osig o) = true -> npos (osig o) <= List.length pos ->
  direct ops n (mkcall (pos ++ extra) kws) = option_map (radd_extra extra) (direct ops n (mkcall pos kws)).
Proof.
  intros ops n o pos kws extra Hf Hv Hn. unfold direct. rewrite Hf.
  rewrite bind_extra by assumption. destruct (bind (osig o) (mkcall pos kws)); reflexivity.
Qed.

Lemma select_In : forall brs b br, select brs b = Some br -> In br brs.
Proof. intros brs b br H. unfold select in H. apply find_some in H. tauto. Qed.

Lemma varpos_sound : forall tbl ops fuel e pos kws extra r0,
  varpos_ok ops e = true -> has_varpos (esig e) = true -> npos (esig e) <= List.length pos ->
  eval_method tbl ops fuel e (mkcall pos kws) = Some r0 ->
  direct ops (ename e) (mkcall pos kws) = Some r0 ->
  eval_method tbl ops fuel e (mkcall (pos ++ extra) kws) = Some (radd_extra extra r0)
  /\ direct ops (ename e) (mkcall (pos ++ extra) kws) = Some (radd_extra extra r0).
Proof.
  intros tbl ops fuel e pos kws extra r0 Hok Hv Hn Em Ed.
  unfold varpos_ok in Hok. apply andb_true_iff in Hok. destruct Hok as [Hd Hbr].
  split.
  - rewrite eval_method_unfold in Em |- *. rewrite bind_extra by assumption.
    destruct (bind (esig e) (mkcall pos kws)) as [b0|]; [|discriminate]. simpl.
    change (select (ebranches e) (add_extra extra b0)) with (select (ebranches e) b0).
    destruct (select (ebranches e) b0) as [br|] eqn:Es; [|discriminate].
    apply select_In in Es. rewrite forallb_forall in Hbr. specialize (Hbr _ Es).
    destruct (bform br) as [n args|m args]; [|discriminate].
    destruct (find_op ops n) as [o'|] eqn:Fo; [|discriminate].
    apply andb_true_iff in Hbr. destruct Hbr as [Hv' Hs].
    destruct (eval_args (esig e) b0 args) as [c'|] eqn:Ea; [|discriminate].
    destruct (eval_args_extra _ _ extra _ _ _ Hs Ea) as [P Q]. rewrite P.
    destruct c' as [p' k']. simpl in *.
    rewrite (direct_extra ops n o') by assumption. rewrite Em. reflexivity.
  - destruct (find_op ops (ename e)) as [o|] eqn:Fo; [|discriminate].
    apply andb_true_iff in Hd. destruct Hd as [Hv' Hle]. apply Nat.leb_le in Hle.
    rewrite (direct_extra ops (ename e) o) by (auto; lia). rewrite Ed. reflexivity.
Qed.

(* ---- main theorem ---------------------------------------------------------------------- *)
Theorem forward_sound : forall tbl ops fuel K e,
  forallb (guards_in K) tbl = true ->
  entry_ok tbl ops fuel K e = true ->
  forall c b, bind (esig e) c = Some b ->
  exists r, eval_method tbl ops fuel e c = Some r /\ direct ops (ename e) c = Some r.
Proof.
  intros tbl ops fuel K e Htbl Hok c b Hb.
  unfold entry_ok in Hok. apply andb_true_iff in Hok. destruct Hok as [Hok Hvp].
  apply andb_true_iff in Hok. destruct Hok as [Hg Hfin].
  destruct (le_lt_dec (List.length (cpos c)) (npos (esig e))) as [Hle|Hgt].
  - eapply fin_sound; eauto.
  - destruct (has_varpos (esig e)) eqn:Hv.
    + destruct c as [pos kws]. simpl in Hgt.
      set (k := npos (esig e)) in *.
      rewrite <- (firstn_skipn k pos) in Hb |- *.
      assert (Hk : List.length (firstn k pos) = k) by (rewrite firstn_length; lia).
      rewrite bind_extra in Hb by (auto; fold k; lia).
      destruct (bind (esig e) (mkcall (firstn k pos) kws)) as [b0|] eqn:Hb0; [|discriminate].
      destruct (fin_sound tbl ops fuel K e Htbl Hg Hfin _ _ Hb0) as [r0 [Em Ed]]; [simpl; fold k; lia|].
      exists (radd_extra (skipn k pos) r0).
      apply varpos_sound; auto. fold k. lia.
    + destruct (bind_some_shape _ _ _ Hb) as [_ [_ Hn]]. specialize (Hn Hv). lia.
Qed.

(* ---- exactness: identical signatures reject the same calls ------------------------------- *)
Lemma sig_same_kwnames : forall s t, sig_same s t = true -> kwnames s = kwnames t.
Proof.
  unfold sig_same. induction s as [|p s IH]; intros [|q t] H; simpl in H; try discriminate; [reflexivity|].
  apply andb_true_iff in H. destruct H as [Hp H]. specialize (IH _ H).
  unfold kwnames in *. simpl. unfold param_same in Hp.
  apply andb_true_iff in Hp. destruct Hp as [Hp Hn]. apply andb_true_iff in Hp. destruct Hp as [Hk Hd].
  unfold is_varpos in *. destruct (pkind p), (pkind q); simpl in *; try discriminate;
    try (apply String.eqb_eq in Hn; rewrite Hn); rewrite IH; reflexivity.
Qed.

Lemma sig_same_bind_go : forall s t, sig_same s t = true ->
  forall pos kws, bind_go s pos kws = bind_go t pos kws.
Proof.
  unfold sig_same. induction s as [|p s IH]; intros [|q t] H pos kws; simpl in H; try discriminate;
    [reflexivity|].
  apply andb_true_iff in H. destruct H as [Hp H]. specialize (IH _ H).
  unfold param_same in Hp.
  apply andb_true_iff in Hp. destruct Hp as [Hp Hn]. apply andb_true_iff in Hp. destruct Hp as [Hk Hd].
  simpl. unfold is_varpos in Hn.
  assert (Hdef : pdef p = pdef q).
  { destruct (pdef p), (pdef q); simpl in Hd; try discriminate; [apply String.eqb_eq in Hd; subst|]; reflexivity. }
  destruct (pkind p), (pkind q); simpl in *; try discriminate.
  - apply String.eqb_eq in Hn. unfold from_kw. rewrite Hn, Hdef.
    destruct pos; rewrite !IH; reflexivity.
  - rewrite !IH. reflexivity.
  - apply String.eqb_eq in Hn. unfold from_kw. rewrite Hn, Hdef. rewrite !IH. reflexivity.
Qed.

Lemma sig_same_bind : forall s t c, sig_same s t = true -> bind s c = bind t c.
Proof.
  intros s t c H. unfold bind. rewrite (sig_same_kwnames _ _ H). rewrite (sig_same_bind_go _ _ H). reflexivity.
Qed.

Theorem exact_sound : forall tbl ops fuel K e,
  forallb (guards_in K) tbl = true ->
  entry_ok tbl ops fuel K e = true -> entry_sig_same ops e = true ->
  forall c, eval_method tbl ops fuel e c = direct ops (ename e) c.
Proof.
  intros tbl ops fuel K e Htbl Hok Hs c.
  destruct (bind (esig e) c) as [b|] eqn:Hb.
  - destruct (forward_sound _ _ _ _ _ Htbl Hok _ _ Hb) as [r [A B]]. congruence.
  - rewrite eval_method_unfold. rewrite Hb.
    unfold entry_sig_same in Hs. unfold direct.
    destruct (find_op ops (ename e)) as [o|]; [|reflexivity].
    rewrite <- (sig_same_bind _ _ c Hs). rewrite Hb. reflexivity.
Qed.
