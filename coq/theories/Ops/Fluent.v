(* C39 -- fluent methods = piped operators.

   A small semantic model of Python call binding and of the bodies of the
   mixin methods (reactivex/observable/mixins/*.py) as the translator
   harness/translate/fluent_tr.py reads them.  The TABLES (Gen/FluentTable.v)
   are regenerated from the source on every run; this file is the fixed
   semantics they are interpreted in.  No proofs here (Ops/FluentFacts.v).

   Python semantics modelled (CPython, function call with a `def` signature
   made of positional-or-keyword parameters, an optional *args and keyword-only
   parameters; the translator refuses positional-only parameters and **kwargs
   on either side, which do not occur in the code):
     - positional arguments fill the positional-or-keyword parameters left to
       right; excess positionals go to *args or raise TypeError;
     - a keyword naming an already filled parameter, an unknown keyword, or a
       repeated keyword raise TypeError;
     - unfilled parameters take their default or raise TypeError.
   Values are opaque except for identity with the constants that occur as
   defaults/guards (`P is None`, `P is NotSet`). *)
From Coq Require Import List String Bool Arith.
Import ListNotations.
Open Scope string_scope.

Definition const := string.            (* source text of a constant: "None", "NotSet", "False", "0.1" *)

Inductive value := VConst (c : const) | VOpaque (i : nat).

Inductive kind := PosKw | VarPos | KwOnly.
Record param := mkp { pname : string; pkind : kind; pdef : option const }.
Definition sig := list param.

Record call := mkcall { cpos : list value; ckws : list (string * value) }.
(* bound arguments: parameter name -> value in signature order, and the *args tuple *)
Record benv := mkenv { bnamed : list (string * value); bvar : list value }.

(* ---- the translated method bodies ------------------------------------- *)
Inductive src := SParam (p : string) | SConst (c : const).
Inductive aexpr := APos (s : src) | AStar (p : string) | AKw (k : string) (s : src).
Inductive form :=
| FOp (n : string) (args : list aexpr)      (* X.pipe(ops.n(args))  /  ops.n(args)(X) *)
| FSelf (m : string) (args : list aexpr).   (* self.m(args) *)
(* `if p is C: return form`; the last branch of a body has no guard *)
Record branch := mkbr { bguards : list (string * const); bform : form }.
Record entry := mke { ename : string; esig : sig; ebranches : list branch }.
(* public name of reactivex.operators, the function it is bound to, its signature *)
Record opsig := mko { oname : string; ocanon : string; osig : sig }.

(* operator finally applied to the source and its bound arguments *)
Record result := mkres { rop : string; renv : benv }.

(* ---- helpers ------------------------------------------------------------ *)
Fixpoint lookup {A : Type} (k : string) (l : list (string * A)) : option A :=
  match l with
  | [] => None
  | (k', v) :: r => if String.eqb k k' then Some v else lookup k r
  end.

Definition mem (k : string) (l : list string) : bool := existsb (String.eqb k) l.

Fixpoint nodupb (l : list string) : bool :=
  match l with [] => true | x :: r => negb (mem x r) && nodupb r end.

Definition is_poskw (p : param) : bool := match pkind p with PosKw => true | _ => false end.
Definition is_varpos (p : param) : bool := match pkind p with VarPos => true | _ => false end.
Definition kwnames (s : sig) : list string := map pname (filter (fun p => negb (is_varpos p)) s).
Definition npos (s : sig) : nat := List.length (filter is_poskw s).
Definition has_varpos (s : sig) : bool := existsb is_varpos s.
Definition is_varpos_name (s : sig) (n : string) : bool :=
  existsb (fun p => is_varpos p && String.eqb (pname p) n) s.

(* ---- binding --------------------------------------------------------------- *)
Definition from_kw (p : param) (kws : list (string * value)) : option value :=
  match lookup (pname p) kws with
  | Some v => Some v
  | None => option_map VConst (pdef p)
  end.

(* walks the signature; result: named bindings, *args, positionals left over *)
Fixpoint bind_go (ps : list param) (pos : list value) (kws : list (string * value))
  : option (list (string * value) * list value * list value) :=
  match ps with
  | [] => Some ([], [], pos)
  | p :: ps' =>
    match pkind p with
    | PosKw =>
      match pos with
      | v :: pos' =>
        if mem (pname p) (map fst kws) then None            (* multiple values for p *)
        else match bind_go ps' pos' kws with
             | Some (n, va, lo) => Some ((pname p, v) :: n, va, lo)
             | None => None
             end
      | [] =>
        match from_kw p kws with
        | Some v => match bind_go ps' [] kws with
                    | Some (n, va, lo) => Some ((pname p, v) :: n, va, lo)
                    | None => None
                    end
        | None => None                                      (* missing argument *)
        end
      end
    | VarPos =>
      match bind_go ps' [] kws with
      | Some (n, _, lo) => Some (n, pos, lo)
      | None => None
      end
    | KwOnly =>
      match from_kw p kws with
      | Some v => match bind_go ps' pos kws with
                  | Some (n, va, lo) => Some ((pname p, v) :: n, va, lo)
                  | None => None
                  end
      | None => None
      end
    end
  end.

(* None = TypeError *)
Definition bind (s : sig) (c : call) : option benv :=
  let keys := map fst (ckws c) in
  if nodupb keys && forallb (fun k => mem k (kwnames s)) keys then
    match bind_go s (cpos c) (ckws c) with
    | Some (n, va, []) => Some (mkenv n va)
    | _ => None                                              (* too many positionals *)
    end
  else None.                                                 (* repeated / unexpected keyword *)

(* ---- evaluating a method body ------------------------------------------ *)
Definition eval_src (b : benv) (s : src) : option value :=
  match s with SParam p => lookup p (bnamed b) | SConst c => Some (VConst c) end.

Fixpoint eval_args (ms : sig) (b : benv) (args : list aexpr) : option call :=
  match args with
  | [] => Some (mkcall [] [])
  | a :: r =>
    match eval_args ms b r with
    | None => None
    | Some c =>
      match a with
      | APos s => match eval_src b s with
                  | Some v => Some (mkcall (v :: cpos c) (ckws c)) | None => None end
      | AStar p => if is_varpos_name ms p then Some (mkcall (bvar b ++ cpos c) (ckws c)) else None
      | AKw k s => match eval_src b s with
                   | Some v => Some (mkcall (cpos c) ((k, v) :: ckws c)) | None => None end
      end
    end
  end.

Definition value_is (v : value) (C : const) : bool :=
  match v with VConst c => String.eqb c C | VOpaque _ => false end.
Definition guard_holds (b : benv) (g : string * const) : bool :=
  match lookup (fst g) (bnamed b) with Some v => value_is v (snd g) | None => false end.
Definition select (brs : list branch) (b : benv) : option branch :=
  find (fun br => forallb (guard_holds b) (bguards br)) brs.

Definition find_op (ops : list opsig) (n : string) : option opsig :=
  find (fun o => String.eqb (oname o) n) ops.
Definition find_entry (tbl : list entry) (n : string) : option entry :=
  find (fun e => String.eqb (ename e) n) tbl.

(* calling  ops.n  directly with the call c *)
Definition direct (ops : list opsig) (n : string) (c : call) : option result :=
  match find_op ops n with
  | Some o => option_map (mkres (ocanon o)) (bind (osig o) c)
  | None => None
  end.

(* calling the fluent method e with the call c: which operator function is
   finally applied to the source, with which bound arguments *)
Fixpoint eval_method (tbl : list entry) (ops : list opsig) (fuel : nat) (e : entry) (c : call)
  : option result :=
  match bind (esig e) c with
  | None => None
  | Some b =>
    match select (ebranches e) b with
    | None => None
    | Some br =>
      match bform br with
      | FOp n args =>
        match eval_args (esig e) b args with
        | Some c' => direct ops n c'
        | None => None
        end
      | FSelf m args =>
        match fuel with
        | O => None
        | S fuel' =>
          match find_entry tbl m, eval_args (esig e) b args with
          | Some e', Some c' => eval_method tbl ops fuel' e' c'
          | _, _ => None
          end
        end
      end
    end
  end.

(* ---- decidable equality of results ------------------------------------- *)
Definition value_eqb (a b : value) : bool :=
  match a, b with
  | VConst x, VConst y => String.eqb x y
  | VOpaque i, VOpaque j => Nat.eqb i j
  | _, _ => false
  end.
Fixpoint leqb {A : Type} (eqb : A -> A -> bool) (l1 l2 : list A) : bool :=
  match l1, l2 with
  | [], [] => true
  | x :: r, y :: s => eqb x y && leqb eqb r s
  | _, _ => false
  end.
Definition kv_eqb (a b : string * value) : bool := String.eqb (fst a) (fst b) && value_eqb (snd a) (snd b).
Definition benv_eqb (a b : benv) : bool :=
  leqb kv_eqb (bnamed a) (bnamed b) && leqb value_eqb (bvar a) (bvar b).
Definition result_eqb (a b : result) : bool := String.eqb (rop a) (rop b) && benv_eqb (renv a) (renv b).

(* ---- the finite family of call shapes and the per-entry check ------------- *)
Fixpoint all_lists {A : Type} (xs : list A) (n : nat) : list (list A) :=
  match n with
  | O => [[]]
  | S m => flat_map (fun x => map (cons x) (all_lists xs m)) xs
  end.
Definition lists_upto {A : Type} (xs : list A) (k : nat) : list (list A) :=
  flat_map (all_lists xs) (seq 0 (S k)).

(* the i-th supplied argument is either one of the guard constants or opaque *)
Fixpoint build_vals (i : nat) (fl : list (option const)) : list value :=
  match fl with
  | [] => []
  | o :: r => (match o with Some c => VConst c | None => VOpaque i end) :: build_vals (S i) r
  end.
Definition build_call (n : nat) (l : list string) (fl : list (option const)) : call :=
  mkcall (build_vals 0 (firstn n fl)) (combine l (build_vals n (skipn n fl))).
Definition opts (K : list const) : list (option const) := None :: map Some K.

(* on one representative call: if the method accepts it, the method reaches
   exactly the operator application a direct call would *)
Definition shape_ok (tbl : list entry) (ops : list opsig) (fuel : nat) (e : entry) (c : call) : bool :=
  match bind (esig e) c with
  | None => true
  | Some _ =>
    match eval_method tbl ops fuel e c, direct ops (ename e) c with
    | Some r, Some r' => result_eqb r r'
    | _, _ => false
    end
  end.

Definition guards_in (K : list const) (e : entry) : bool :=
  forallb (fun br => forallb (fun g => mem (snd g) K) (bguards br)) (ebranches e).

Definition entry_fin_ok_on (names : list string) (tbl : list entry) (ops : list opsig) (fuel : nat)
           (K : list const) (e : entry) : bool :=
  forallb (fun n =>
    forallb (fun l =>
      match bind (esig e) (build_call n l (repeat None (n + List.length l))) with
      | None => true
      | Some _ => forallb (fun fl => shape_ok tbl ops fuel e (build_call n l fl))
                          (all_lists (opts K) (n + List.length l))
      end)
      (lists_upto names (List.length names)))
    (seq 0 (S (npos (esig e)))).
(* all keyword sets over the method's own parameter names *)
Definition entry_fin_ok (tbl : list entry) (ops : list opsig) (fuel : nat) (K : list const) (e : entry) : bool :=
  entry_fin_ok_on (kwnames (esig e)) tbl ops fuel K e.
(* calls without keywords only *)
Definition entry_pos_ok (tbl : list entry) (ops : list opsig) (fuel : nat) (K : list const) (e : entry) : bool :=
  guards_in K e && entry_fin_ok_on [] tbl ops fuel K e.

(* methods with *args: what makes any number of further positionals behave
   like none (they end up, in order, at the end of the operator's *args) *)
Definition is_akw (a : aexpr) : bool := match a with AKw _ _ => true | _ => false end.
Fixpoint star_ok (ms : sig) (k : nat) (args : list aexpr) : bool :=
  match args with
  | APos _ :: r => star_ok ms (pred k) r
  | AStar p :: r => Nat.eqb k 0 && is_varpos_name ms p && forallb is_akw r
  | _ => false
  end.
Definition varpos_ok (ops : list opsig) (e : entry) : bool :=
  match find_op ops (ename e) with
  | Some o => has_varpos (osig o) && Nat.leb (npos (osig o)) (npos (esig e))
  | None => false
  end
  && forallb (fun br =>
       match bform br with
       | FOp n args =>
         match find_op ops n with
         | Some o' => has_varpos (osig o') && star_ok (esig e) (npos (osig o')) args
         | None => false
         end
       | FSelf _ _ => false
       end) (ebranches e).

Definition entry_ok (tbl : list entry) (ops : list opsig) (fuel : nat) (K : list const) (e : entry) : bool :=
  guards_in K e && entry_fin_ok tbl ops fuel K e
  && (if has_varpos (esig e) then varpos_ok ops e else true).

(* ---- exactness: same signature (the name of *args is immaterial) ------------ *)
Definition okind_eqb (a b : kind) : bool :=
  match a, b with PosKw, PosKw | VarPos, VarPos | KwOnly, KwOnly => true | _, _ => false end.
Definition odef_eqb (a b : option const) : bool :=
  match a, b with Some x, Some y => String.eqb x y | None, None => true | _, _ => false end.
Definition param_same (p q : param) : bool :=
  okind_eqb (pkind p) (pkind q) && odef_eqb (pdef p) (pdef q)
  && (is_varpos p || String.eqb (pname p) (pname q)).
Definition sig_same (s t : sig) : bool := leqb param_same s t.
Definition entry_sig_same (ops : list opsig) (e : entry) : bool :=
  match find_op ops (ename e) with Some o => sig_same (esig e) (osig o) | None => false end.

(* ---- maps on values (used to state that binding never inspects values) ------ *)
Definition kmap (f : value -> value) (l : list (string * value)) : list (string * value) :=
  map (fun kv => (fst kv, f (snd kv))) l.
Definition cmap (f : value -> value) (c : call) : call := mkcall (map f (cpos c)) (kmap f (ckws c)).
Definition emap (f : value -> value) (b : benv) : benv := mkenv (kmap f (bnamed b)) (map f (bvar b)).
Definition rmap (f : value -> value) (r : result) : result := mkres (rop r) (emap f (renv r)).

Definition add_extra (extra : list value) (b : benv) : benv := mkenv (bnamed b) (bvar b ++ extra).
Definition radd_extra (extra : list value) (r : result) : result := mkres (rop r) (add_extra extra (renv r)).
