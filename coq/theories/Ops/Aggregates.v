(* C06 catalogue: aggregating operators.  Primitive machines follow the files
   named above them; the derived operators are [compose]d exactly as the code
   pipes them. *)
From RxVerif Require Import Base.Prelude Ops.Machine Ops.Elementwise.

Definition EXN_NO_ELEMENTS : Z := -2.     (* SequenceContainsNoElementsError *)
Definition EXN_MORE_THAN_ONE : Z := -3.   (* Exception("Sequence contains more than one element") *)

Section Prim.
Context {A : Type}.

(* _scan.py: defer + map(projection); the accumulator runs inside map's try *)
Definition op_scan_seed {S} (f : S -> A -> res S) (seed : S) : mealy A S :=
  Mealy (None : option S) ([], Cont)
    (fun acc x =>
       match f (match acc with Some a => a | None => seed end) x with
       | Ok a' => (Some a', [a'], Cont)
       | Raise e => (acc, [], Fail e)
       end)
    (fun _ e => ([], Fail e)) (fun _ => ([], Complete)).

Definition op_scan (f : A -> A -> res A) : mealy A A :=
  Mealy (None : option A) ([], Cont)
    (fun acc x =>
       match acc with
       | None => (Some x, [x], Cont)
       | Some a => match f a x with
                   | Ok a' => (Some a', [a'], Cont)
                   | Raise e => (acc, [], Fail e)
                   end
       end)
    (fun _ e => ([], Fail e)) (fun _ => ([], Complete)).

(* _lastordefault.py: last_or_default_async(source, has_default, default_value) *)
Definition op_last (default : option A) : mealy A A :=
  Mealy (None : option A) ([], Cont)
    (fun _ x => (Some x, [], Cont))
    (fun _ e => ([], Fail e))
    (fun v => match v, default with
              | Some x, _ => ([x], Complete)
              | None, Some d => ([d], Complete)
              | None, None => ([], Fail EXN_NO_ELEMENTS)
              end).

(* _firstordefault.py: first_or_default_async_(has_default, default_value) *)
Definition op_first (default : option A) : mealy A A :=
  Mealy tt ([], Cont)
    (fun s x => (s, [x], Complete))
    (fun _ e => ([], Fail e))
    (fun _ => match default with
              | Some d => ([d], Complete)
              | None => ([], Fail EXN_NO_ELEMENTS)
              end).

(* _singleordefault.py: single_or_default_async_ *)
Definition op_single (default : option A) : mealy A A :=
  Mealy (None : option A) ([], Cont)
    (fun v x => match v with
                | Some _ => (v, [], Fail EXN_MORE_THAN_ONE)
                | None => (Some x, [], Cont)
                end)
    (fun _ e => ([], Fail e))
    (fun v => match v, default with
              | Some x, _ => ([x], Complete)
              | None, Some d => ([d], Complete)
              | None, None => ([], Fail EXN_NO_ELEMENTS)
              end).

(* _some.py (without predicate) *)
Definition op_some : mealy A bool :=
  Mealy tt ([], Cont)
    (fun s _ => (s, [true], Complete))
    (fun _ e => ([], Fail e))
    (fun _ => ([false], Complete)).

(* _toiterable.py *)
Definition op_to_list : mealy A (list A) :=
  Mealy ([] : list A) ([], Cont)
    (fun q x => (q ++ [x], [], Cont))
    (fun _ e => ([], Fail e))
    (fun q => ([q], Complete)).

(* _toset.py: a Python set under ==/hash: an element equal to a stored one is
   not added ([eqb] = Python equality on the element pool) *)
Definition op_to_set (eqb : A -> A -> bool) : mealy A (list A) :=
  Mealy ([] : list A) ([], Cont)
    (fun s x => (if existsb (eqb x) s then s else s ++ [x], [], Cont))
    (fun _ e => ([], Fail e))
    (fun s => ([s], Complete)).

(* _todict.py *)
Fixpoint dict_set {K V} (keq : K -> K -> bool) (d : list (K * V)) (k : K) (v : V) : list (K * V) :=
  match d with
  | [] => [(k, v)]
  | (k', v') :: t => if keq k' k then (k', v) :: t else (k', v') :: dict_set keq t k v
  end.
Definition op_to_dict {K V} (keq : K -> K -> bool) (key : A -> res K) (elem : A -> res V)
  : mealy A (list (K * V)) :=
  Mealy ([] : list (K * V)) ([], Cont)
    (fun d x => match key x with
                | Raise e => (d, [], Fail e)
                | Ok k => match elem x with
                          | Raise e => (d, [], Fail e)
                          | Ok v => (dict_set keq d k v, [], Cont)
                          end
                end)
    (fun _ e => ([], Fail e))
    (fun d => ([d], Complete)).

(* _minby.py: extrema_by(source, key_mapper, comparer) *)
Definition op_extrema_by {K} (key : A -> res K) (cmp : K -> K -> res Z) : mealy A (list A) :=
  Mealy (None : option K, [] : list A) ([], Cont)
    (fun '(last, items) x =>
       match key x with
       | Raise e => ((last, items), [], Fail e)
       | Ok k =>
           match last with
           | None => ((Some k, items ++ [x]), [], Cont)      (* comparison = 0 *)
           | Some lk =>
               match cmp k lk with
               | Raise e => ((last, items), [], Fail e)
               | Ok c =>
                   let last' := if c >? 0 then Some k else last in
                   let items' := if c >? 0 then [] else items in
                   ((last', if c >=? 0 then items' ++ [x] else items'), [], Cont)
               end
           end
       end)
    (fun _ e => ([], Fail e))
    (fun '(_, items) => ([items], Complete)).
End Prim.

(* ---- derived operators, composed as in the code -------------------------- *)
Section Derived.
Context {A : Type}.

(* _reduce.py *)
Definition op_reduce_seed {S} (f : S -> A -> res S) (seed : S) : mealy A S :=
  compose (op_scan_seed f seed) (op_last (Some seed)).
Definition op_reduce (f : A -> A -> res A) : mealy A A :=
  compose (op_scan f) (op_last None).

(* _count.py *)
Definition op_count : mealy A Z := op_reduce_seed (fun n _ => Ok (n + 1)) 0.
Definition op_count_pred (p : A -> res bool) : mealy A Z := compose (op_filter p) op_count.

(* _firstordefault.py / _first.py / _lastordefault.py / _last.py / _single*.py with predicate *)
Definition op_first_pred (p : A -> res bool) (default : option A) : mealy A A :=
  compose (op_filter p) (op_first default).
Definition op_last_pred (p : A -> res bool) (default : option A) : mealy A A :=
  compose (op_filter p) (op_last default).
Definition op_single_pred (p : A -> res bool) (default : option A) : mealy A A :=
  compose (op_filter p) (op_single default).

(* _some.py with predicate, _all.py, _contains.py, _isempty.py *)
Definition op_some_pred (p : A -> res bool) : mealy A bool := compose (op_filter p) op_some.
Definition res_negb (r : res bool) : res bool :=
  match r with Ok b => Ok (negb b) | Raise e => Raise e end.
Definition op_all (p : A -> res bool) : mealy A bool :=
  compose (compose (op_filter (fun x => res_negb (p x))) op_some) (op_map (fun b => Ok (negb b))).
Definition op_contains (cmp : A -> A -> res bool) (v : A) : mealy A bool :=
  compose (op_filter (fun x => cmp x v)) op_some.
Definition op_is_empty : mealy A bool := compose op_some (op_map (fun b => Ok (negb b))).

(* _min.py / _max.py: min_by(identity, comparer) ; map(first_only) *)
Definition first_only (l : list A) : res A :=
  match l with [] => Raise EXN_NO_ELEMENTS | x :: _ => Ok x end.
Definition res_neg (r : res Z) : res Z := match r with Ok z => Ok (- z) | Raise e => Raise e end.
Definition op_max_by {K} (key : A -> res K) (cmp : K -> K -> res Z) := op_extrema_by key cmp.
Definition op_min_by {K} (key : A -> res K) (cmp : K -> K -> res Z) :=
  op_extrema_by key (fun x y => res_neg (cmp x y)).
Definition op_max (cmp : A -> A -> res Z) : mealy A A :=
  compose (op_max_by (fun x => Ok x) cmp) (op_map first_only).
Definition op_min (cmp : A -> A -> res Z) : mealy A A :=
  compose (op_min_by (fun x => Ok x) cmp) (op_map first_only).
End Derived.

(* _sum.py (integers), _average.py (as the exact pair sum/count; the float
   division is done by the harness on both sides) *)
Definition op_sum : mealy Z Z := op_reduce_seed (fun a x => Ok (a + x)) 0.
Definition op_sum_key {A} (key : A -> res Z) : mealy A Z := compose (op_map key) op_sum.
Definition op_average_pair {A} (key : A -> res Z) : mealy A (Z * Z) :=
  compose (compose (op_map key)
                   (op_scan_seed (fun (s : Z * Z) x => Ok (fst s + x, snd s + 1)) (0, 0)))
          (op_last None).

(* _sequenceequal.py with an ITERABLE second argument and a hot first source:
   from_iterable(second) is subscribed inside subscribe() and delivers
   everything at once, so the right queue starts full and doner = true *)
Definition op_sequence_equal_iter {A} (cmp : A -> A -> res bool) (second : list A) : mealy A bool :=
  Mealy second ([], Cont)
    (fun qr x => match qr with
                 | v :: t => match cmp v x with
                             | Raise e => (t, [], Fail e)
                             | Ok true => (t, [], Cont)
                             | Ok false => (t, [false], Complete)
                             end
                 | [] => (qr, [false], Complete)        (* doner *)
                 end)
    (fun _ e => ([], Fail e))
    (fun qr => match qr with
               | [] => ([true], Complete)
               | _ => ([false], Complete)
               end).
