(* C37: further facts about the source machines (Ops/Sources.v):
   - timer(d, p), d <> p: the VALUES 0, 1, 2, ... for ANY clock readings and any d, p (late
     firings, the catch-up branch, p <= 0 included);
   - range with the hypothesis step <> 0 explicit (step = 0 is a totalisation of [range_len];
     the factory raises ValueError there);
   - generate_with_relative_time: when every timer fires exactly when due, firing i+2 (the
     one emitting the i-th state) happens at the sum of the delays d(x_0) .. d(x_i). *)
From RxVerif Require Import Base.Prelude Ops.Machine Ops.MachineFacts Ops.Multi Ops.MultiFacts Ops.Sources Ops.SourcesFacts.

Local Open Scope nat_scope.

(* ---- timer(d, p): values for any clock ------------------------------------------------- *)
Lemma timer_period_values_trace d p : forall nows dt count tag k,
  temitted (chain_trace (x_timer_period d p) tdp_tag (dt, count, tag) k nows)
  = nexts (indexed k (map (fun j => (count + Z.of_nat j)%Z) (seq 0 (length nows)))).
Proof.
  induction nows as [|now rest IH]; intros dt count tag k; [reflexivity|].
  cbn [chain_trace x_timer_period x_step tdp_tag snd].
  rewrite temitted_app2, temitted_group, IH.
  cbn [length seq map cvals flat_map app tfin indexed nexts fst snd].
  f_equal; [repeat (f_equal; try lia)|]. rewrite <- seq_shift, map_map. unfold nexts. f_equal. f_equal.
  apply map_ext. intros j. lia.
Qed.

Theorem timer_period_values_any_clock d p nows :
  temitted (fst (run (x_timer_period d p) (tick_ins 0 nows)))
  = nexts (indexed 1 (map Z.of_nat (seq 0 (length nows)))).
Proof.
  rewrite (chain_run0 _ _ (timer_period_chain d p) (d, 0%Z, 0) [CTimer 0 (Z.max d 0)]); try reflexivity.
  rewrite temitted_app2, timer_period_values_trace. reflexivity.
Qed.

(* ---- range, step <> 0 -------------------------------------------------------------------- *)
Theorem range_spec_nonzero_step a b s : s <> 0%Z ->
  let n := Z.to_nat (range_len a b s) in
  temitted (fst (run (x_range a b s) (tick_ins 0 (zeros (S n)))))
  = nexts (indexed 1 (py_range a b s)) ++ [(S n, Done)].
Proof. intros _. apply range_spec. Qed.

(* step = 0 is outside: [range_len] is totalised to 0 there (the statement above would read "no
   element, then completion"), whereas Python's range() -- hence the factory -- raises ValueError *)
Lemma range_zero_step_totalised a b : range_len a b 0 = 0%Z /\ py_range a b 0 = [].
Proof. split; reflexivity. Qed.

(* ---- generate_with_relative_time: instants ------------------------------------------------- *)
(* instant of firing k (0 = the subscription, at [t0]; firing k >= 1 happens at the k-th clock
   reading) *)
Definition firing_instant (t0 : Z) (nows : list Z) (k : nat) : Z :=
  match k with O => t0 | S j => nth j nows 0%Z end.

(* every timer fires exactly when due: the timer with tag t (fired by firing t+1) scheduled
   during firing k with delay dl fires at the instant of firing k plus max(dl, 0) *)
Definition on_time {B} (t0 : Z) (tr : list (nat * obs B)) (nows : list Z) : Prop :=
  Forall (fun x : nat * (nat * Z) =>
            firing_instant t0 nows (S (fst (snd x)))
            = (firing_instant t0 nows (fst x) + Z.max (snd (snd x)) 0)%Z) (ttimers tr).

Definition delays_sum (d : Z -> Z) (l : list Z) : Z := fold_right Z.add 0%Z (map (fun x => Z.max (d x) 0) l).

Lemma delays_sum_app d a b : delays_sum d (a ++ b) = (delays_sum d a + delays_sum d b)%Z.
Proof. unfold delays_sum. induction a as [|x t IH]; cbn [app map fold_right]; [lia|]. rewrite IH. lia. Qed.

Lemma firstn_snoc (ws : list Z) : forall i, i < length ws -> firstn (S i) ws = firstn i ws ++ [nth i ws 0%Z].
Proof.
  induction ws as [|x t IH]; intros i Hi; [cbn in Hi; lia|].
  destruct i as [|i]; [reflexivity|]. cbn [length] in Hi.
  change (firstn (S (S i)) (x :: t)) with (x :: firstn (S i) t). rewrite IH by lia. reflexivity.
Qed.

Lemma indexed_In {A} (ws : list A) (dflt : A) : forall k i, i < length ws -> In (k + i, nth i ws dflt) (indexed k ws).
Proof.
  induction ws as [|x t IH]; intros k i Hi; [cbn in Hi; lia|].
  destruct i as [|i]; cbn [indexed nth].
  - left. f_equal. lia.
  - right. replace (k + S i) with (S k + i) by lia. apply IH. cbn [length] in Hi. lia.
Qed.

Section GwrtTimes.
Context (c : Z -> bool) (f : Z -> Z) (d : Z -> Z).

Theorem gwrt_times init fuel nows t0 :
  let ws := while_states fuel c f init in
  length ws < fuel -> length nows = S (length ws) ->
  let tr := fst (run (x_gwrt init (fun x => Ok (c x)) (fun x => Ok (f x)) (fun x => Ok (d x))) (tick_ins 0 nows)) in
  on_time t0 tr nows ->
  forall i, i <= length ws -> firing_instant t0 nows (S i) = (t0 + delays_sum d (firstn i ws))%Z.
Proof.
  intros ws Hlt Hn tr Hot.
  destruct (gwrt_spec c f d init fuel nows Hlt Hn) as [_ T]. fold ws in T. fold tr in T.
  unfold on_time in Hot. rewrite T in Hot. rewrite Forall_forall in Hot.
  induction i as [|i IH]; intros Hi.
  - specialize (Hot (0, (0, 0%Z)) ltac:(left; reflexivity)). cbn [fst snd firing_instant] in Hot.
    cbn [firing_instant firstn]. rewrite Hot. unfold delays_sum. cbn. lia.
  - assert (Hi' : i < length ws) by lia.
    specialize (Hot (S i, (S i, d (nth i ws 0%Z)))).
    cbn [fst snd] in Hot. rewrite Hot.
    + rewrite IH by lia. rewrite (firstn_snoc ws i Hi'), delays_sum_app.
      unfold delays_sum at 3. cbn [map fold_right]. lia.
    + right. apply in_map_iff. exists (i, nth i ws 0%Z). split; [reflexivity|].
      apply (indexed_In ws 0%Z 0 i Hi').
Qed.

(* the i-th state x_i of the while-loop is emitted by firing i+2, and that firing happens at
   t0 + sum_{j <= i} max(d(x_j), 0); the completion comes with the last emission *)
Theorem gwrt_emission_instants init fuel nows t0 :
  let ws := while_states fuel c f init in
  length ws < fuel -> length nows = S (length ws) ->
  let tr := fst (run (x_gwrt init (fun x => Ok (c x)) (fun x => Ok (f x)) (fun x => Ok (d x))) (tick_ins 0 nows)) in
  on_time t0 tr nows ->
  temitted tr = nexts (indexed 2 ws) ++ [(S (length ws), Done)]
  /\ forall i, i < length ws -> firing_instant t0 nows (2 + i) = (t0 + delays_sum d (firstn (S i) ws))%Z.
Proof.
  intros ws Hlt Hn tr Hot. split.
  - exact (proj1 (gwrt_spec c f d init fuel nows Hlt Hn)).
  - intros i Hi. apply (gwrt_times init fuel nows t0 Hlt Hn Hot (S i)). fold ws. lia.
Qed.
End GwrtTimes.

(* timer(d) fired when due emits at t0 + max(d, 0) *)
Theorem timer_instant d now t0 :
  on_time t0 (fst (run (x_timer d) [(now, ITick 0)])) [now] -> now = (t0 + Z.max d 0)%Z.
Proof.
  unfold on_time. rewrite timer_spec. cbn [ttimers flat_map snd fst app]. intros H.
  inversion H as [|x l H1 H2]; subst. cbn [fst snd firing_instant nth] in H1. lia.
Qed.
