(* C38 -- facts about the marble parser model (Ops/Marbles.v).
   [parse_render]: for every well-formed diagram, with spaces inserted anywhere,
   the parser returns exactly the diagram's meaning: each marble at the index of
   its first character (spaces not counted), group members at the index of the
   opening parenthesis; with raise_stopped it is rejected iff something follows a
   terminal.  [parse_terminal_last], [parse_frames_sorted]: for ALL strings.
   [cold_delivery_parsed], [hot_delivery_parsed]: a virtual-time scheduler
   delivers the parsed messages unchanged, in order. *)
From Coq Require Import List Ascii String Bool Arith Lia.
From RxVerif Require Import Ops.Marbles.
Import ListNotations.
Open Scope char_scope.
Open Scope list_scope.

(* ---- strings ------------------------------------------------------------------ *)
Lemma ch_eqb_eq : forall a b, ch_eqb a b = true <-> a = b.
Proof. intros. unfold ch_eqb. apply Ascii.eqb_eq. Qed.

Lemma str_eqb_eq : forall a b, str_eqb a b = true <-> a = b.
Proof.
  induction a as [|x r IH]; intros [|y s]; simpl; split; intros H; try discriminate; try reflexivity.
  - apply andb_true_iff in H. destruct H as [H1 H2]. apply ch_eqb_eq in H1. apply IH in H2. subst. reflexivity.
  - inversion H; subst. apply andb_true_iff. split; [apply ch_eqb_eq; reflexivity | apply IH; reflexivity].
Qed.

Lemma span_app : forall p a b,
  forallb p a = true -> match b with [] => True | c :: _ => p c = false end ->
  span p (a ++ b) = (a, b).
Proof.
  intros p a b. induction a as [|x r IH]; simpl; intros Ha Hb.
  - destruct b as [|c b']; [reflexivity|]. simpl. rewrite Hb. reflexivity.
  - apply andb_true_iff in Ha. destruct Ha as [Hx Hr]. rewrite Hx. rewrite IH by assumption. reflexivity.
Qed.

Definition close_free (c : ascii) : bool := negb (ch_eqb c ")") && negb (ch_eqb c newline).

Lemma find_close_app : forall a b, forallb close_free a = true -> find_close (a ++ ")" :: b) = Some (a, b).
Proof.
  induction a as [|x r IH]; intros b H; simpl.
  - reflexivity.
  - simpl in H. apply andb_true_iff in H. destruct H as [Hx Hr].
    unfold close_free in Hx. apply andb_true_iff in Hx. destruct Hx as [H1 H2].
    apply negb_true_iff in H1. apply negb_true_iff in H2. rewrite H1, H2. rewrite IH by exact Hr. reflexivity.
Qed.

Lemma no_space_filter : forall s, forallb (fun c => negb (ch_eqb c " ")) s = true -> remove_spaces s = s.
Proof.
  induction s as [|c r IH]; simpl; intros H; [reflexivity|].
  apply andb_true_iff in H. destruct H as [H1 H2]. rewrite H1. rewrite IH by exact H2. reflexivity.
Qed.

(* ---- split / join ---------------------------------------------------------------- *)
Definition comma_free (c : ascii) : bool := negb (ch_eqb c ",").

Lemma split_comma_nonempty : forall s, split_comma s <> [].
Proof.
  induction s as [|c r IH]; simpl; [discriminate|].
  destruct (ch_eqb c ","); [discriminate|]. destruct (split_comma r); discriminate.
Qed.

Lemma split_comma_app : forall e x, forallb comma_free e = true ->
  split_comma (e ++ "," :: x) = e :: split_comma x.
Proof.
  induction e as [|c r IH]; intros x H; simpl.
  - reflexivity.
  - simpl in H. apply andb_true_iff in H. destruct H as [Hc Hr].
    unfold comma_free in Hc. apply negb_true_iff in Hc. rewrite Hc. rewrite IH by exact Hr. reflexivity.
Qed.

Lemma split_comma_single : forall e, forallb comma_free e = true -> split_comma e = [e].
Proof.
  induction e as [|c r IH]; intros H; simpl; [reflexivity|].
  simpl in H. apply andb_true_iff in H. destruct H as [Hc Hr].
  unfold comma_free in Hc. apply negb_true_iff in Hc. rewrite Hc. rewrite IH by exact Hr. reflexivity.
Qed.

Lemma split_join : forall es, es <> [] -> forallb (forallb comma_free) es = true ->
  split_comma (join_comma es) = es.
Proof.
  induction es as [|e r IH]; intros Hne H; [contradiction|].
  simpl in H. apply andb_true_iff in H. destruct H as [He Hr].
  destruct r as [|e' r'].
  - simpl. apply split_comma_single. exact He.
  - change (join_comma (e :: e' :: r')) with (e ++ "," :: join_comma (e' :: r')).
    rewrite split_comma_app by exact He. rewrite IH by (auto; discriminate). reflexivity.
Qed.

(* ---- the lexer on rendered diagrams --------------------------------------------------- *)
Definition tok_of (i : item) : token :=
  match i with
  | ITicks n => TTicks n
  | IElem s => TElem s
  | IEnd => TElem ["|"]
  | IErr => TElem ["#"]
  | IGroup es => TGroup (join_comma es)
  end.

Lemma elem_char_inv : forall c, elem_char c = true ->
  ch_eqb c "-" = false /\ ch_eqb c "," = false /\ ch_eqb c "(" = false /\ ch_eqb c ")" = false
  /\ ch_eqb c "#" = false /\ ch_eqb c "|" = false.
Proof.
  intros c H. unfold elem_char in H. apply negb_true_iff in H.
  repeat (apply orb_false_iff in H; destruct H as [H ?]). tauto.
Qed.

Lemma group_char_inv : forall c, group_char c = true ->
  comma_free c = true /\ close_free c = true /\ ch_eqb c " " = false.
Proof.
  intros c H. unfold group_char in H. apply negb_true_iff in H.
  repeat (apply orb_false_iff in H; destruct H as [H ?]).
  unfold comma_free, close_free. rewrite H, H1, H2. simpl. tauto.
Qed.

Lemma join_forall : forall (q : ascii -> bool) es, q "," = true ->
  forallb (forallb q) es = true -> forallb q (join_comma es) = true.
Proof.
  intros q es Hq. induction es as [|e r IH]; intros H; [reflexivity|].
  simpl in H. apply andb_true_iff in H. destruct H as [He Hr].
  destruct r as [|e' r']; [exact He|].
  change (join_comma (e :: e' :: r')) with (e ++ "," :: join_comma (e' :: r')).
  rewrite forallb_app. rewrite He. simpl. rewrite Hq. apply IH. exact Hr.
Qed.

Lemma forallb_impl : forall (A : Type) (p q : A -> bool) l,
  (forall x, p x = true -> q x = true) -> forallb p l = true -> forallb q l = true.
Proof.
  intros A p q l H. induction l as [|x r IH]; simpl; intros Hl; [reflexivity|].
  apply andb_true_iff in Hl. destruct Hl as [H1 H2]. rewrite (H _ H1). apply IH. exact H2.
Qed.

Lemma render_item_nonempty : forall i, wf_item i = true -> 1 <= List.length (render_item i).
Proof.
  intros [n|s| | |es] H; simpl in *; try lia.
  - rewrite repeat_length. destruct n; [discriminate | lia].
  - destruct s; [discriminate | simpl; lia].
Qed.

(* first character of what follows *)
Definition head_is (p : ascii -> bool) (s : str) : Prop :=
  match s with [] => True | c :: _ => p c = false end.

Lemma render_cons : forall i d, render (i :: d) = render_item i ++ render d.
Proof. reflexivity. Qed.

Lemma head_after_ticks : forall n d, wf (ITicks n :: d) = true -> head_is is_dash (render d).
Proof.
  intros n d H. simpl in H. destruct d as [|j d']; [exact I|].
  apply andb_true_iff in H. destruct H as [H Hw]. apply andb_true_iff in H. destruct H as [_ Hadj].
  simpl in Hw. apply andb_true_iff in Hw. destruct Hw as [Hw _]. apply andb_true_iff in Hw. destruct Hw as [Hj _].
  rewrite render_cons. destruct j as [m|s| | |es]; simpl in *; try discriminate; try reflexivity.
  destruct s as [|c t]; [discriminate|]. simpl in Hj. apply andb_true_iff in Hj. destruct Hj as [Hc _].
  unfold value_char in Hc. apply andb_true_iff in Hc. destruct Hc as [Hc _].
  apply elem_char_inv in Hc. simpl. unfold is_dash. tauto.
Qed.

Lemma head_after_elem : forall s d, wf (IElem s :: d) = true -> head_is elem_char (render d).
Proof.
  intros s d H. simpl in H. destruct d as [|j d']; [exact I|].
  apply andb_true_iff in H. destruct H as [H Hw]. apply andb_true_iff in H. destruct H as [_ Hadj].
  simpl in Hw. apply andb_true_iff in Hw. destruct Hw as [Hw _]. apply andb_true_iff in Hw. destruct Hw as [Hj _].
  rewrite render_cons. destruct j as [m| | | |es]; simpl in *; try discriminate; try reflexivity.
  destruct m; [discriminate|]. reflexivity.
Qed.

Lemma wf_tail : forall i d, wf (i :: d) = true -> wf_item i = true /\ wf d = true.
Proof.
  intros i d H. simpl in H. apply andb_true_iff in H. destruct H as [H Hw].
  apply andb_true_iff in H. destruct H as [Hi _]. split; assumption.
Qed.

Lemma lex_render : forall d f, wf d = true -> List.length (render d) <= f ->
  lex_aux f (render d) = map tok_of d.
Proof.
  induction d as [|i d IH]; intros f Hwf Hf.
  - destruct f; reflexivity.
  - destruct (wf_tail _ _ Hwf) as [Hi Hd].
    pose proof (render_item_nonempty _ Hi) as Hne.
    rewrite render_cons in *. rewrite app_length in Hf.
    destruct f as [|f]; [lia|].
    destruct i as [n|s| | |es].
    + (* ticks *)
      simpl in Hi. destruct n as [|n]; [discriminate|].
      simpl render_item in *. simpl repeat in *. simpl in Hf. rewrite repeat_length in Hf.
      simpl. rewrite (span_app is_dash (repeat "-" n) (render d)).
      * rewrite repeat_length. rewrite IH by (auto; lia). reflexivity.
      * clear. induction n; simpl; [reflexivity | assumption].
      * exact (head_after_ticks _ _ Hwf).
    + (* value *)
      simpl in Hi. apply andb_true_iff in Hi. destruct Hi as [Hs Hv].
      destruct s as [|c t]; [discriminate|]. simpl in Hv. apply andb_true_iff in Hv. destruct Hv as [Hc Ht].
      unfold value_char in Hc. apply andb_true_iff in Hc. destruct Hc as [Hc _].
      destruct (elem_char_inv _ Hc) as [E1 [E2 [E3 [E4 [E5 E6]]]]].
      simpl render_item in *. simpl in Hf. simpl. rewrite E1, E2, E3, E4, E5, E6.
      rewrite (span_app elem_char t (render d)).
      * rewrite IH by (auto; lia). reflexivity.
      * eapply forallb_impl; [|exact Ht]. intros x Hx. unfold value_char in Hx.
        apply andb_true_iff in Hx. tauto.
      * exact (head_after_elem _ _ Hwf).
    + simpl in Hf. simpl. rewrite IH by (auto; lia). reflexivity.
    + simpl in Hf. simpl. rewrite IH by (auto; lia). reflexivity.
    + (* group *)
      simpl in Hi. apply andb_true_iff in Hi. destruct Hi as [_ Hg].
      simpl render_item in *. simpl in Hf. rewrite app_length in Hf. simpl in Hf.
      simpl. rewrite <- app_assoc. simpl.
      rewrite find_close_app.
      * rewrite IH by (auto; lia). reflexivity.
      * apply join_forall; [reflexivity|].
        eapply forallb_impl; [|exact Hg]. intros e He.
        eapply forallb_impl; [|exact He]. intros c Hc. apply group_char_inv in Hc. tauto.
Qed.

Lemma render_no_space : forall d, wf d = true ->
  forallb (fun c => negb (ch_eqb c " ")) (render d) = true.
Proof.
  induction d as [|i d IH]; intros H; [reflexivity|].
  destruct (wf_tail _ _ H) as [Hi Hd]. rewrite render_cons, forallb_app. rewrite (IH Hd), andb_true_r.
  destruct i as [n|s| | |es]; simpl in *; try reflexivity.
  - clear. induction n; simpl; [reflexivity | assumption].
  - apply andb_true_iff in Hi. destruct Hi as [_ Hv]. eapply forallb_impl; [|exact Hv].
    intros c Hc. unfold value_char in Hc. apply andb_true_iff in Hc. tauto.
  - apply andb_true_iff in Hi. destruct Hi as [_ Hg]. rewrite forallb_app. simpl. rewrite andb_true_r.
    apply join_forall; [reflexivity|].
    eapply forallb_impl; [|exact Hg]. intros e He.
    eapply forallb_impl; [|exact He]. intros c Hc. apply group_char_inv in Hc.
    destruct Hc as [_ [_ Hc]]. rewrite Hc. reflexivity.
Qed.

(* [splits d] lists every item with the items written before it *)
Lemma splits_spec : forall d pre it,
  In (pre, it) (splits d) <-> exists post, d = pre ++ it :: post.
Proof.
  induction d as [|i r IH]; intros pre it; simpl.
  - split; [contradiction|]. intros [post H]. destruct pre; discriminate.
  - split.
    + intros [H|H].
      * inversion H; subst. exists r. reflexivity.
      * apply in_map_iff in H. destruct H as [[pre' it'] [E Hin]]. simpl in E. inversion E; subst.
        apply IH in Hin. destruct Hin as [post Hp]. exists post. simpl. rewrite Hp. reflexivity.
    + intros [post H]. destruct pre as [|p pre'].
      * simpl in H. inversion H; subst. left. reflexivity.
      * simpl in H. inversion H; subst. right. apply in_map_iff.
        exists (pre', it). split; [reflexivity|]. apply IH. exists post. reflexivity.
Qed.

Section Facts.
  Variable V : Type.
  Variable valof : str -> V.
  Notation notif := (notif V).
  Notation map_element := (map_element V valof).
  Notation parse_tokens := (parse_tokens V valof).
  Notation parse_model := (parse_model V valof).
  Notation denote := (denote V valof).
  Notation msgs_of_item := (msgs_of_item V valof).

  (* ---- check_stopped ------------------------------------------------------------- *)
  Lemma check_all_app : forall rs st a b,
    check_all rs st (a ++ b) = match check_all rs st a with Some st' => check_all rs st' b | None => None end.
  Proof.
    intros rs st a. revert st. induction a as [|e r IH]; intros st b; simpl; [reflexivity|].
    destruct (check rs st e); [apply IH | reflexivity].
  Qed.

  Lemma check_all_norule : forall st es, check_all false st es = Some st.
  Proof. intros st es. induction es as [|e r IH]; simpl; [reflexivity | exact IH]. Qed.

  Lemma check_all_stopped : forall es, check_all true true es = match es with [] => Some true | _ => None end.
  Proof. intros [|e r]; reflexivity. Qed.

  Lemma check_all_running : forall es,
    check_all true false es = if stop_ok es then Some (existsb is_term es) else None.
  Proof.
    induction es as [|e r IH]; simpl; [reflexivity|].
    destruct (is_term e) eqn:Ht; simpl.
    - rewrite check_all_stopped. destruct r; reflexivity.
    - exact IH.
  Qed.

  (* ---- the token loop on a rendered diagram -------------------------------------------- *)
  Definition denote_from (f : nat) (d : list item) : list (nat * notif) :=
    flat_map (fun pi => msgs_of_item (f + List.length (render (fst pi))) (snd pi)) (splits d).

  Lemma denote_from_cons : forall f i d,
    denote_from f (i :: d) = msgs_of_item f i ++ denote_from (f + List.length (render_item i)) d.
  Proof.
    intros f i d. unfold denote_from. simpl. rewrite Nat.add_0_r. f_equal.
    rewrite flat_map_concat_map, map_map, <- flat_map_concat_map.
    apply flat_map_ext. intros [pre it]. simpl. rewrite app_length, Nat.add_assoc. reflexivity.
  Qed.

  Lemma denote_from_0 : forall d, denote_from 0 d = denote d.
  Proof. reflexivity. Qed.

  Definition elements (d : list item) : list str := flat_map elements_of d.

  Lemma parse_tokens_render : forall rs d f st, wf d = true ->
    parse_tokens rs (map tok_of d) f st =
    match check_all rs st (elements d) with
    | None => inl ErrStopped
    | Some _ => inr (denote_from f d)
    end.
  Proof.
    intros rs. induction d as [|i d IH]; intros f st Hwf.
    - reflexivity.
    - destruct (wf_tail _ _ Hwf) as [Hi Hd]. rewrite denote_from_cons.
      unfold elements. simpl flat_map. fold (elements d).
      destruct i as [n|s| | |es]; simpl map; simpl tok_of.
      + simpl. rewrite repeat_length. apply IH. exact Hd.
      + simpl. destruct (check rs st s) as [st'|]; [|reflexivity].
        rewrite IH by exact Hd. destruct (check_all rs st' (elements d)); reflexivity.
      + simpl. destruct (check rs st ["|"]) as [st'|]; [|reflexivity].
        rewrite IH by exact Hd. destruct (check_all rs st' (elements d)); reflexivity.
      + simpl. destruct (check rs st ["#"]) as [st'|]; [|reflexivity].
        rewrite IH by exact Hd. destruct (check_all rs st' (elements d)); reflexivity.
      + simpl in Hi. apply andb_true_iff in Hi. destruct Hi as [Hne Hg].
        assert (Hsj : split_comma (join_comma es) = es).
        { apply split_join; [destruct es; [discriminate | discriminate]|].
          eapply forallb_impl; [|exact Hg]. intros e He.
          eapply forallb_impl; [|exact He]. intros c Hc. apply group_char_inv in Hc. tauto. }
        cbn [Marbles.parse_tokens elements_of]. rewrite Hsj. rewrite check_all_app.
        destruct (check_all rs st es) as [st'|]; [|reflexivity].
        rewrite IH by exact Hd.
        assert (Hl : f + (2 + List.length (join_comma es)) = f + List.length (render_item (IGroup es))).
        { simpl. rewrite app_length. simpl. lia. }
        rewrite Hl. destruct (check_all rs st' (elements d)); reflexivity.
  Qed.

  (* MAIN: a well-formed diagram, written with spaces anywhere, parses to its meaning *)
  Theorem parse_render : forall rs d s, wf d = true -> remove_spaces s = render d ->
    parse_model rs s =
    if negb rs || stop_ok (elements d) then inr (denote d) else inl ErrStopped.
  Proof.
    intros rs d s Hwf Hs. unfold Marbles.parse_model. rewrite Hs.
    unfold lex. rewrite lex_render by (auto; lia).
    rewrite parse_tokens_render by exact Hwf. rewrite denote_from_0.
    destruct rs; simpl.
    - rewrite check_all_running. destruct (stop_ok (elements d)); reflexivity.
    - rewrite check_all_norule. reflexivity.
  Qed.

  Corollary parse_render_exact : forall rs d, wf d = true ->
    parse_model rs (render d) =
    if negb rs || stop_ok (elements d) then inr (denote d) else inl ErrStopped.
  Proof.
    intros rs d Hwf. apply parse_render; [exact Hwf|].
    apply no_space_filter. apply render_no_space. exact Hwf.
  Qed.

  (* spaces never matter *)
  Theorem parse_ignores_spaces : forall rs s s', remove_spaces s = remove_spaces s' ->
    parse_model rs s = parse_model rs s'.
  Proof. intros rs s s' H. unfold Marbles.parse_model. rewrite H. reflexivity. Qed.

  (* ---- for ALL strings --------------------------------------------------------------- *)
  Fixpoint term_last (ms : list (nat * notif)) : bool :=
    match ms with
    | [] => true
    | m :: r => if is_terminal V m then (match r with [] => true | _ => false end) else term_last r
    end.

  Lemma is_terminal_map_element : forall f e, is_terminal V (map_element f e) = is_term e.
  Proof.
    intros f e. unfold Marbles.map_element, is_term, is_terminal.
    destruct (str_eqb e ["|"]) eqn:E1; simpl; [rewrite orb_true_r; reflexivity|].
    destruct (str_eqb e ["#"]) eqn:E2; reflexivity.
  Qed.

  Lemma parse_stopped_nil : forall toks f ms, parse_tokens true toks f true = inr ms -> ms = [].
  Proof.
    induction toks as [|t r IH]; intros f ms H; simpl in H.
    - inversion H. reflexivity.
    - destruct t as [content|n| |e]; try discriminate.
      + rewrite check_all_stopped in H. pose proof (split_comma_nonempty content).
        destruct (split_comma content); [contradiction | discriminate].
      + eapply IH. exact H.
  Qed.

  Lemma group_msgs_terms : forall f es, stop_ok es = true ->
    term_last (map (map_element f) (filter nonempty es)) = true /\
    (existsb is_term es = false ->
     forallb (fun m => negb (is_terminal V m)) (map (map_element f) (filter nonempty es)) = true).
  Proof.
    intros f. induction es as [|e r IH]; intros H; [split; reflexivity|].
    simpl in H. destruct (is_term e) eqn:Ht.
    - destruct r; [|discriminate]. simpl. rewrite Ht.
      assert (nonempty e = true) by (destruct e; [discriminate | reflexivity]).
      rewrite H0. simpl. rewrite is_terminal_map_element, Ht. split; [reflexivity | discriminate].
    - destruct (IH H) as [A B]. simpl. rewrite Ht. simpl.
      destruct (nonempty e); simpl; [|split; assumption].
      rewrite is_terminal_map_element, Ht. simpl. split; assumption.
  Qed.

  Lemma term_last_app_nonterm : forall a b,
    forallb (fun m => negb (is_terminal V m)) a = true -> term_last b = true -> term_last (a ++ b) = true.
  Proof.
    induction a as [|m r IH]; intros b Ha Hb; [exact Hb|].
    simpl in Ha. apply andb_true_iff in Ha. destruct Ha as [Hm Hr]. apply negb_true_iff in Hm.
    simpl. rewrite Hm. apply IH; assumption.
  Qed.

  (* with raise_stopped, no message follows a terminal one (whatever the string) *)
  Lemma parse_tokens_term_last : forall toks f ms,
    parse_tokens true toks f false = inr ms -> term_last ms = true.
  Proof.
    induction toks as [|t r IH]; intros f ms H; simpl in H.
    - inversion H. reflexivity.
    - destruct t as [content|n| |e]; try discriminate.
      + rewrite check_all_running in H.
        destruct (stop_ok (split_comma content)) eqn:Hs; [|discriminate].
        destruct (parse_tokens true r _ _) as [err|ms'] eqn:Hp; [discriminate|].
        inversion H; subst. destruct (group_msgs_terms f _ Hs) as [A B].
        destruct (existsb is_term (split_comma content)) eqn:Hex.
        * apply parse_stopped_nil in Hp. subst. rewrite app_nil_r. exact A.
        * apply term_last_app_nonterm; [apply B; reflexivity | eapply IH; exact Hp].
      + eapply IH. exact H.
      + simpl in H. destruct (is_term e) eqn:Ht.
        * destruct (parse_tokens true r _ true) as [err|ms'] eqn:Hp; [discriminate|].
          inversion H; subst. apply parse_stopped_nil in Hp. subst. simpl.
          rewrite is_terminal_map_element, Ht. reflexivity.
        * destruct (parse_tokens true r _ false) as [err|ms'] eqn:Hp; [discriminate|].
          inversion H; subst. simpl. rewrite is_terminal_map_element, Ht. eapply IH. exact Hp.
  Qed.

  Theorem parse_terminal_last : forall s ms, parse_model true s = inr ms -> term_last ms = true.
  Proof. intros s ms H. eapply parse_tokens_term_last. exact H. Qed.

  (* the meaning of term_last *)
  Lemma term_last_spec : forall ms, term_last ms = true ->
    forall pre m post, ms = pre ++ m :: post -> is_terminal V m = true -> post = [].
  Proof.
    induction ms as [|x r IH]; intros H pre m post E Hm.
    - destruct pre; discriminate.
    - simpl in H. destruct pre as [|p pre'].
      + simpl in E. inversion E; subst. rewrite Hm in H. destruct post; [reflexivity | discriminate].
      + simpl in E. inversion E; subst. destruct (is_terminal V p).
        * destruct (pre' ++ m :: post) eqn:E'; [destruct pre'; discriminate | discriminate].
        * eapply IH; eauto.
  Qed.

  Theorem parse_nothing_after_terminal : forall (s : str) ms,
    parse_model true s = inr ms ->
    forall pre m post, ms = pre ++ m :: post -> is_terminal V m = true -> post = [].
  Proof. intros s ms H. apply term_last_spec. eapply parse_terminal_last. exact H. Qed.

  Theorem denote_is_index : forall d,
    denote d = flat_map (fun pi => msgs_of_item (List.length (render (fst pi))) (snd pi)) (splits d)
    /\ forall pre it, In (pre, it) (splits d) <-> exists post, d = pre ++ it :: post.
  Proof. intros d. split; [reflexivity | apply splits_spec]. Qed.

  (* frames never decrease along the message list, and start at the initial frame *)
  Fixpoint sorted_from (f : nat) (ms : list (nat * notif)) : Prop :=
    match ms with [] => True | m :: r => f <= fst m /\ sorted_from (fst m) r end.

  Lemma sorted_from_weaken : forall ms f g, f <= g -> sorted_from g ms -> sorted_from f ms.
  Proof. intros [|m r] f g Hfg H; simpl in *; [exact I | destruct H; split; [lia | assumption]]. Qed.

  Lemma fst_map_element : forall f e, fst (map_element f e) = f.
  Proof.
    intros f e. unfold Marbles.map_element.
    destruct (str_eqb e ["|"]); [reflexivity|]. destruct (str_eqb e ["#"]); reflexivity.
  Qed.

  Lemma sorted_group : forall f es ms, sorted_from f ms -> sorted_from f (map (map_element f) es ++ ms).
  Proof.
    intros f. induction es as [|e r IH]; intros ms H; simpl; [exact H|].
    rewrite fst_map_element. split; [lia | apply IH; exact H].
  Qed.

  Lemma parse_tokens_sorted : forall rs toks f st ms,
    parse_tokens rs toks f st = inr ms -> sorted_from f ms.
  Proof.
    intros rs. induction toks as [|t r IH]; intros f st ms H; simpl in H.
    - inversion H. exact I.
    - destruct t as [content|n| |e]; try discriminate.
      + destruct (check_all rs st (split_comma content)) as [st'|]; [|discriminate].
        destruct (parse_tokens rs r _ st') as [err|ms'] eqn:Hp; [discriminate|].
        inversion H; subst. apply sorted_group. eapply sorted_from_weaken; [|eapply IH; exact Hp]. lia.
      + eapply sorted_from_weaken; [|eapply IH; exact H]. lia.
      + destruct (check rs st e) as [st'|]; [|discriminate].
        destruct (parse_tokens rs r _ st') as [err|ms'] eqn:Hp; [discriminate|].
        inversion H; subst. simpl. rewrite fst_map_element. split; [lia|].
        eapply sorted_from_weaken; [|eapply IH; exact Hp]. lia.
  Qed.

  Theorem parse_frames_sorted : forall rs s ms, parse_model rs s = inr ms -> sorted_from 0 ms.
  Proof. intros rs s ms H. eapply parse_tokens_sorted. exact H. Qed.

  (* ---- delivery ---------------------------------------------------------------------- *)
  Lemma insert_stable_last : forall m acc, Forall (fun x => fst x <= fst m) acc ->
    insert_stable V m acc = acc ++ [m].
  Proof.
    intros m. induction acc as [|x r IH]; intros H; simpl; [reflexivity|].
    inversion H; subst. assert (Hlt : Nat.ltb (fst m) (fst x) = false) by (apply Nat.ltb_ge; assumption).
    rewrite Hlt. rewrite IH by assumption. reflexivity.
  Qed.

  Lemma sorted_from_Forall : forall ms f, sorted_from f ms -> Forall (fun x => f <= fst x) ms.
  Proof.
    induction ms as [|m r IH]; intros f H; [constructor|]. simpl in H. destruct H as [H1 H2].
    constructor; [exact H1|]. specialize (IH _ H2). eapply Forall_impl; [|exact IH]. simpl. intros. lia.
  Qed.

  Lemma run_order_sorted_gen : forall ms acc f,
    Forall (fun x => fst x <= f) acc -> sorted_from f ms ->
    fold_left (fun a m => insert_stable V m a) ms acc = acc ++ ms.
  Proof.
    induction ms as [|m r IH]; intros acc f Ha Hs; simpl; [rewrite app_nil_r; reflexivity|].
    simpl in Hs. destruct Hs as [H1 H2].
    rewrite insert_stable_last by (eapply Forall_impl; [|exact Ha]; simpl; intros; lia).
    rewrite (IH (acc ++ [m]) (fst m)).
    - rewrite <- app_assoc. reflexivity.
    - apply Forall_app. split; [eapply Forall_impl; [|exact Ha]; simpl; intros; lia | constructor; [lia | constructor]].
    - exact H2.
  Qed.

  Lemma run_order_sorted : forall ms, sorted_from 0 ms -> run_order V ms = ms.
  Proof. intros ms H. unfold run_order. rewrite (run_order_sorted_gen ms [] 0); [reflexivity | constructor | exact H]. Qed.

  Lemma upto_terminal_id : forall ms, term_last ms = true -> upto_terminal V ms = ms.
  Proof.
    induction ms as [|m r IH]; intros H; [reflexivity|]. simpl in *.
    destruct (is_terminal V m); [destruct r; [reflexivity | discriminate] | rewrite IH by exact H; reflexivity].
  Qed.

  Lemma term_last_filter : forall p ms, term_last ms = true -> term_last (filter p ms) = true.
  Proof.
    intros p. induction ms as [|m r IH]; intros H; [reflexivity|]. simpl in *.
    destruct (is_terminal V m) eqn:Hm.
    - destruct r; [|discriminate]. destruct (p m); simpl; [rewrite Hm|]; reflexivity.
    - destruct (p m); simpl; [rewrite Hm|]; apply IH; exact H.
  Qed.

  (* from_marbles / cold: exactly the parsed notifications, in order, each at
     subscription time + its parsed time *)
  Theorem cold_delivery_parsed : forall s ms, parse_model true s = inr ms -> cold_delivery V ms = ms.
  Proof.
    intros s ms H. unfold cold_delivery.
    rewrite run_order_sorted by (eapply parse_frames_sorted; exact H).
    apply upto_terminal_id. eapply parse_terminal_last. exact H.
  Qed.

  (* hot: the parsed notifications that are due strictly after the subscription *)
  Theorem hot_delivery_parsed : forall s ms sub, parse_model true s = inr ms ->
    hot_delivery V sub ms = filter (fun m => Nat.ltb sub (fst m)) ms.
  Proof.
    intros s ms sub H. unfold hot_delivery.
    rewrite run_order_sorted by (eapply parse_frames_sorted; exact H).
    apply upto_terminal_id. apply term_last_filter. eapply parse_terminal_last. exact H.
  Qed.
End Facts.

(* helpers for Examples *)
Definition l (s : string) : str := list_ascii_of_string s.
Definition idv (e : str) : str := e.
