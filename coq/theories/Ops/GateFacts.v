(* take_until / skip_until against abstract specifications over the interleaved
   input sequence (source 0 = the gated source, source 1 = the other observable),
   for EVERY input sequence. *)
From RxVerif Require Import Base.Prelude Ops.Machine Ops.MachineFacts Ops.Multi Ops.MultiFacts
  Ops.RunLemmas Ops.Combinators Ops.MergeFacts.

Local Arguments Nat.ltb : simpl never.
Local Arguments Nat.leb : simpl never.

Section Gates.
Context {A : Type}.

Definition gate_live (l0 l1 : bool) : list nat :=
  (if l0 then [0%nat] else []) ++ (if l1 then [1%nat] else []).

(* SPEC of take_until: the source is mirrored -- elements, error, completion -- until
   the other observable delivers its first element (completion of the output) or
   fails (error passed on); the other's own completion changes nothing *)
Fixpoint tu_spec (l1 : bool) (pos : nat) (ins : list (Z * inp A)) : list (nat * ev A) :=
  match ins with
  | [] => []
  | (_, ISrc O e) :: t =>
      match e with
      | Next x => (pos, Next x) :: tu_spec l1 (S pos) t
      | Err err => [(pos, Err err)]
      | Done => [(pos, Done)]
      end
  | (_, ISrc (S O) e) :: t =>
      if l1 then
        match e with
        | Next _ => [(pos, Done)]
        | Err err => [(pos, Err err)]
        | Done => tu_spec false (S pos) t
        end
      else tu_spec l1 (S pos) t
  | (_, ISrc _ _) :: t => tu_spec l1 (S pos) t
  | (_, ITick _) :: t => tu_spec l1 (S pos) t
  | (_, IDispose) :: _ => []
  end.

Ltac term_step m s r now i pos :=
  let E1 := fresh "E" in let E2 := fresh "E" in
  destruct (rstep_fin m s r now i pos) as [E1 E2];
  [reflexivity|reflexivity|cbn; discriminate|];
  rewrite E1, (run_from_stopped _ _ _ _ _ E2); reflexivity.

Lemma take_until_from (ins : list (Z * inp A)) : forall l1 pos,
  temitted (fst (run_from (x_take_until (A:=A)) tt (RState (gate_live true l1) [] false) pos ins))
  = tu_spec l1 pos ins.
Proof.
  induction ins as [|[now i] rest IH]; intros l1 pos; [reflexivity|].
  rewrite temitted_run_cons. cbn [tu_spec].
  destruct i as [k e|tag|].
  - destruct k as [|[|k2]].
    + destruct e as [x|err|].
      * assert (E : rstep (x_take_until (A:=A)) tt (RState (gate_live true l1) [] false) now (ISrc 0%nat (Next x))
                    = (tt, RState (gate_live true l1) [] false, [OEmit (Next x)])) by reflexivity.
        rewrite E. cbn [fst snd]. rewrite IH. reflexivity.
      * term_step (x_take_until (A:=A)) tt (RState (gate_live true l1) [] false) now (ISrc 0%nat (@Err A err)) pos.
      * term_step (x_take_until (A:=A)) tt (RState (gate_live true l1) [] false) now (ISrc 0%nat (@Done A)) pos.
    + destruct l1.
      * destruct e as [x|err|].
        -- term_step (x_take_until (A:=A)) tt (RState (gate_live true true) [] false) now (ISrc 1%nat (Next x)) pos.
        -- term_step (x_take_until (A:=A)) tt (RState (gate_live true true) [] false) now (ISrc 1%nat (@Err A err)) pos.
        -- assert (E : rstep (x_take_until (A:=A)) tt (RState (gate_live true true) [] false) now (ISrc 1%nat Done)
                       = (tt, RState (gate_live true false) [] false, [OUnsub 1%nat])) by reflexivity.
           rewrite E. cbn [fst snd]. rewrite IH. reflexivity.
      * assert (E : rstep (x_take_until (A:=A)) tt (RState (gate_live true false) [] false) now (ISrc 1%nat e)
                    = (tt, RState (gate_live true false) [] false, [])) by reflexivity.
        rewrite E. cbn [fst snd]. rewrite IH. reflexivity.
    + assert (E : rstep (x_take_until (A:=A)) tt (RState (gate_live true l1) [] false) now (ISrc (S (S k2)) e)
                  = (tt, RState (gate_live true l1) [] false, [])) by (destruct l1; reflexivity).
      rewrite E. cbn [fst snd]. rewrite IH. reflexivity.
  - assert (E : rstep (x_take_until (A:=A)) tt (RState (gate_live true l1) [] false) now (ITick tag)
                = (tt, RState (gate_live true l1) [] false, [])) by reflexivity.
    rewrite E. cbn [fst snd]. rewrite IH. reflexivity.
  - unfold rstep. cbn [r_stopped x_take_until x_step apply_cmds fst snd].
    rewrite run_from_stopped by reflexivity. cbn [fst]. rewrite app_nil_r.
    cbn [filter app]. apply release_temitted.
Qed.

Theorem take_until_refines_spec (ins : list (Z * inp A)) :
  temitted (fst (run (x_take_until (A:=A)) ins)) = tu_spec true 1 ins.
Proof.
  rewrite run_unfold. cbn [fst]. rewrite temitted_app'.
  unfold start_state, start_obs. cbn -[run_from tu_spec temitted].
  change (RState [0%nat; 1%nat] [] false) with (RState (gate_live true true) [] false).
  rewrite take_until_from. reflexivity.
Qed.

(* SPEC of skip_until: source elements pass only once the other observable has
   delivered an element (it is unsubscribed at that moment); errors of either pass
   at once; the source's completion completes the output only if the gate is open *)
Fixpoint su_spec (is_open l0 l1 : bool) (pos : nat) (ins : list (Z * inp A)) : list (nat * ev A) :=
  match ins with
  | [] => []
  | (_, ISrc O e) :: t =>
      if l0 then
        match e with
        | Next x => (if is_open then [(pos, Next x)] else []) ++ su_spec is_open l0 l1 (S pos) t
        | Err err => [(pos, Err err)]
        | Done => if is_open then [(pos, Done)] else su_spec is_open false l1 (S pos) t
        end
      else su_spec is_open l0 l1 (S pos) t
  | (_, ISrc (S O) e) :: t =>
      if l1 then
        match e with
        | Next _ => su_spec true l0 false (S pos) t
        | Err err => [(pos, Err err)]
        | Done => su_spec is_open l0 false (S pos) t
        end
      else su_spec is_open l0 l1 (S pos) t
  | (_, ISrc _ _) :: t => su_spec is_open l0 l1 (S pos) t
  | (_, ITick _) :: t => su_spec is_open l0 l1 (S pos) t
  | (_, IDispose) :: _ => []
  end.

Lemma skip_until_from (ins : list (Z * inp A)) : forall is_open l0 l1 pos,
  temitted (fst (run_from (x_skip_until (A:=A)) is_open (RState (gate_live l0 l1) [] false) pos ins))
  = su_spec is_open l0 l1 pos ins.
Proof.
  induction ins as [|[now i] rest IH]; intros is_open l0 l1 pos; [reflexivity|].
  rewrite temitted_run_cons. cbn [su_spec].
  destruct i as [k e|tag|].
  - destruct k as [|[|k2]].
    + destruct l0.
      * destruct e as [x|err|].
        -- assert (E : rstep (x_skip_until (A:=A)) is_open (RState (gate_live true l1) [] false) now (ISrc 0%nat (Next x))
                       = (is_open, RState (gate_live true l1) [] false, if is_open then [OEmit (Next x)] else []))
             by (destruct is_open; reflexivity).
           rewrite E. cbn [fst snd]. rewrite IH. destruct is_open; reflexivity.
        -- term_step (x_skip_until (A:=A)) is_open (RState (gate_live true l1) [] false) now (ISrc 0%nat (@Err A err)) pos.
        -- destruct is_open.
           ++ term_step (x_skip_until (A:=A)) true (RState (gate_live true l1) [] false) now (ISrc 0%nat (@Done A)) pos.
           ++ assert (E : rstep (x_skip_until (A:=A)) false (RState (gate_live true l1) [] false) now (ISrc 0%nat Done)
                          = (false, RState (gate_live false l1) [] false, [OUnsub 0%nat])) by reflexivity.
              rewrite E. cbn [fst snd]. rewrite IH. reflexivity.
      * assert (E : rstep (x_skip_until (A:=A)) is_open (RState (gate_live false l1) [] false) now (ISrc 0%nat e)
                    = (is_open, RState (gate_live false l1) [] false, [])) by (destruct l1; reflexivity).
        rewrite E. cbn [fst snd]. rewrite IH. reflexivity.
    + destruct l1.
      * destruct e as [x|err|].
        -- assert (E : rstep (x_skip_until (A:=A)) is_open (RState (gate_live l0 true) [] false) now (ISrc 1%nat (Next x))
                       = (true, RState (gate_live l0 false) [] false, [OUnsub 1%nat])) by (destruct l0; reflexivity).
           rewrite E. cbn [fst snd]. rewrite IH. reflexivity.
        -- destruct (rstep_fin (x_skip_until (A:=A)) is_open (RState (gate_live l0 true) [] false) now
                       (ISrc 1%nat (@Err A err)) pos) as [E1 E2];
             [reflexivity|destruct l0; reflexivity|cbn; discriminate|].
           rewrite E1, (run_from_stopped _ _ _ _ _ E2). reflexivity.
        -- assert (E : rstep (x_skip_until (A:=A)) is_open (RState (gate_live l0 true) [] false) now (ISrc 1%nat Done)
                       = (is_open, RState (gate_live l0 false) [] false, [OUnsub 1%nat])) by (destruct l0; reflexivity).
           rewrite E. cbn [fst snd]. rewrite IH. reflexivity.
      * assert (E : rstep (x_skip_until (A:=A)) is_open (RState (gate_live l0 false) [] false) now (ISrc 1%nat e)
                    = (is_open, RState (gate_live l0 false) [] false, [])) by (destruct l0; reflexivity).
        rewrite E. cbn [fst snd]. rewrite IH. reflexivity.
    + assert (E : rstep (x_skip_until (A:=A)) is_open (RState (gate_live l0 l1) [] false) now (ISrc (S (S k2)) e)
                  = (is_open, RState (gate_live l0 l1) [] false, [])) by (destruct l0, l1; reflexivity).
      rewrite E. cbn [fst snd]. rewrite IH. reflexivity.
  - assert (E : rstep (x_skip_until (A:=A)) is_open (RState (gate_live l0 l1) [] false) now (ITick tag)
                = (is_open, RState (gate_live l0 l1) [] false, [])) by reflexivity.
    rewrite E. cbn [fst snd]. rewrite IH. reflexivity.
  - unfold rstep. cbn [r_stopped x_skip_until x_step apply_cmds fst snd].
    rewrite run_from_stopped by reflexivity. cbn [fst]. rewrite app_nil_r.
    cbn [filter app]. apply release_temitted.
Qed.

Theorem skip_until_refines_spec (ins : list (Z * inp A)) :
  temitted (fst (run (x_skip_until (A:=A)) ins)) = su_spec false true true 1 ins.
Proof.
  rewrite run_unfold. cbn [fst]. rewrite temitted_app'.
  unfold start_state, start_obs. cbn -[run_from su_spec temitted].
  change (RState [0%nat; 1%nat] [] false) with (RState (gate_live true true) [] false).
  rewrite skip_until_from. reflexivity.
Qed.
End Gates.
