(* C37: the source factories as "source machines" of the runner Ops/Multi.v: no
   source inputs, only the firings of the timers they schedule themselves
   (every piece of work these factories do is handed to a scheduler; the K2
   driver's proxy scheduler records each as a timer with its delay) and the
   dispose instant.  Timer tags count the timers scheduled by the subscription
   (the proxy numbers them in scheduling order). *)
From RxVerif Require Import Base.Prelude Ops.Machine Ops.Multi.

Definition idle {S : Type} (s : S) : S * list (cmd Z) * fin := (s, [], Cont).

(* ---- observable/range.py ---------------------------------------------------
   range_t = range(start) | range(start, stop) | range(start, stop or maxsize,
   step) is built once; each subscription iterates iter(range_t), ONE element
   per scheduled action: on_next(next(iterator)); schedule(action) again;
   StopIteration -> on_completed().
   CPython's range object computes its length once (get_len_of_range) and its
   iterator is (current, step, remaining). *)
Definition maxsize : Z := 9223372036854775807.

Definition range_args (a : Z) (stop step : option Z) : Z * Z * Z :=
  match stop, step with
  | None, None => (0, a, 1)
  | Some b, None => (a, b, 1)
  | None, Some s => (a, maxsize, s)
  | Some b, Some s => (a, b, s)
  end.

Definition range_len (start stop step : Z) : Z :=
  if 0 <? step then (if start <? stop then (stop - start - 1) / step + 1 else 0)
  else if step <? 0 then (if stop <? start then (start - stop - 1) / (- step) + 1 else 0)
  else 0.   (* step = 0: range() raises ValueError in the factory, nothing to subscribe to *)

Definition x_range (start stop step : Z) : machine Z Z :=
  Machine ((start, range_len start stop step, 0%nat), [CTimer 0%nat 0], Cont)
    (fun '(cur, remaining, tag) _ i =>
       match i with
       | ITick _ =>
           if 0 <? remaining
           then ((cur + step, remaining - 1, S tag), [CEmit cur; CTimer (S tag) 0], Cont)
           else ((cur, remaining, tag), [], Complete)
       | _ => idle (cur, remaining, tag)
       end).

(* ---- observable/fromiterable.py (also of(args...), from_, from_list) ---------
   iterator = iter(iterable) in subscribe(); ONE scheduled action: while not
   disposed: value = next(iterator); observer.on_next(value); StopIteration ->
   on_completed(); any other exception -> on_error.
   items: Ok v = the iterator yields v, Raise e = it raises e there; the end of
   the list is StopIteration.  spy: the harness' iterator logs every __next__
   call (effect 400 + position).  budget = Some k: the subscriber disposes from
   inside its k-th on_next -- the `disposed` flag is seen before the next pull. *)
Definition e_pull (i : Z) : Z := 400 + i.

Fixpoint iter_cmds (spy : bool) (items : list (res Z)) (i : Z) (budget : option nat) : list (cmd Z) * fin :=
  let pull := if spy then [CEffect (e_pull i)] else [] in
  match budget with
  | Some O => ([], Cont)
  | _ =>
      match items with
      | [] => (pull, Complete)
      | Raise e :: _ => (pull, Fail e)
      | Ok v :: t =>
          let '(cs, f) := iter_cmds spy t (i + 1) (option_map pred budget) in
          (pull ++ CEmit v :: cs, f)
      end
  end.

Definition x_from_iterable (spy : bool) (items : list (res Z)) (budget : option nat) : machine Z Z :=
  Machine (tt, [CTimer 0%nat 0], Cont)
    (fun s _ i =>
       match i with
       | ITick _ => (s, fst (iter_cmds spy items 0 budget), snd (iter_cmds spy items 0 budget))
       | _ => idle s
       end).

(* ---- returnvalue.py, empty.py, throw.py, never.py -------------------------- *)
Definition x_return_value (v : Z) : machine Z Z :=
  Machine (tt, [CTimer 0%nat 0], Cont)
    (fun s _ i => match i with ITick _ => (s, [CEmit v], Complete) | _ => idle s end).

Definition x_empty : machine Z Z :=
  Machine (tt, [CTimer 0%nat 0], Cont)
    (fun s _ i => match i with ITick _ => (s, [], Complete) | _ => idle s end).

Definition x_throw (e : Z) : machine Z Z :=
  Machine (tt, [CTimer 0%nat 0], Cont)
    (fun s _ i => match i with ITick _ => (s, [], Fail e) | _ => idle s end).

(* throw.py: the inner subscribe(observer, scheduler=None) SHADOWS the factory's
   scheduler argument: `scheduler or ImmediateScheduler.singleton()` only sees
   the scheduler passed to subscribe(); throw(e, scheduler=S) subscribed
   without one delivers on_error inside subscribe() *)
Definition x_throw_immediate (e : Z) : machine Z Z := Machine (tt, [], Fail e) (fun s _ _ => idle s).

Definition x_never : machine Z Z := Machine (tt, [], Cont) (fun s _ _ => idle s).

(* ---- observable/generate.py -------------------------------------------------
   action: try: if first: first = False else: state = iterate(state);
   has_result = condition(state) except Exception: on_error; if has_result:
   on_next(state); schedule(action) else: on_completed(). *)
Definition x_generate (init : Z) (cond : Z -> res bool) (iter : Z -> res Z) : machine Z Z :=
  Machine ((true, init, 0%nat), [CTimer 0%nat 0], Cont)
    (fun '(first, st, tag) _ i =>
       match i with
       | ITick _ =>
           match (if first then Ok st else iter st) with
           | Raise e => ((false, st, tag), [], Fail e)
           | Ok st' =>
               match cond st' with
               | Raise e => ((false, st', tag), [], Fail e)
               | Ok true => ((false, st', S tag), [CEmit st'; CTimer (S tag) 0], Cont)
               | Ok false => ((false, st', tag), [], Complete)
               end
           end
       | _ => idle (first, st, tag)
       end).

(* ---- observable/generatewithrelativetime.py --------------------------------
   schedule_relative(0, action); action: if has_result: on_next(result); try:
   (first / iterate); has_result = condition(state); if has_result: result =
   state; time = time_mapper(state) except Exception: on_error; if has_result:
   assert time is not None; schedule_relative(time, action) else: on_completed.
   So a state is emitted when the timer carrying ITS delay fires.  Delays in
   integer milliseconds (>= 0 in the generated cases). *)
Definition x_gwrt (init : Z) (cond : Z -> res bool) (iter : Z -> res Z) (tm : Z -> res Z) : machine Z Z :=
  Machine ((true, init, None, 0%nat), [CTimer 0%nat 0], Cont)
    (fun '(first, st, result, tag) _ i =>
       match i with
       | ITick _ =>
           let out := match result with Some r => [CEmit r] | None => [] end in
           match (if first then Ok st else iter st) with
           | Raise e => ((false, st, result, tag), out, Fail e)
           | Ok st' =>
               match cond st' with
               | Raise e => ((false, st', result, tag), out, Fail e)
               | Ok false => ((false, st', None, tag), out, Complete)
               | Ok true =>
                   match tm st' with
                   | Raise e => ((false, st', Some st', tag), out, Fail e)
                   | Ok d => ((false, st', Some st', S tag), out ++ [CTimer (S tag) d], Cont)
                   end
               end
           end
       | _ => idle (first, st, result, tag)
       end).

(* ---- observable/timer.py ----------------------------------------------------
   timer(d): d <= 0 -> schedule(action) else schedule_relative(d, action); also
   timer(datetime) = schedule_absolute (d = the distance from the subscription
   instant): on_next(0); on_completed(). *)
Definition x_timer (d : Z) : machine Z Z :=
  Machine (tt, [CTimer 0%nat (Z.max d 0)], Cont)
    (fun s _ i => match i with ITick _ => (s, [CEmit 0], Complete) | _ => idle s end).

(* timer(d, p) with d == p: PeriodicScheduler.schedule_periodic(p, action, 0) *)
Definition x_timer_periodic (p : Z) : machine Z Z :=
  Machine ((0, 0%nat), [CTimer 0%nat (Z.max p 0)], Cont)
    (fun '(count, tag) _ i =>
       match i with
       | ITick _ => ((count + 1, S tag), [CEmit count; CTimer (S tag) (Z.max p 0)], Cont)
       | _ => idle (count, tag)
       end).

(* timer(d, p) otherwise (observable_timer_duetime_and_period): absolute due
   time dt (subscription instant = 0), p = max(0, period); action: if p > 0: dt
   = dt + p; if dt <= now: dt = now + p; on_next(count); count += 1;
   schedule_absolute(dt) *)
Definition x_timer_period (d p : Z) : machine Z Z :=
  Machine ((d, 0, 0%nat), [CTimer 0%nat (Z.max d 0)], Cont)
    (fun '(dt, count, tag) now i =>
       match i with
       | ITick _ =>
           let p' := Z.max p 0 in
           let dt' := if 0 <? p' then (if dt + p' <=? now then now + p' else dt + p') else dt in
           ((dt', count + 1, S tag), [CEmit count; CTimer (S tag) (Z.max (dt' - now) 0)], Cont)
       | _ => idle (dt, count, tag)
       end).

(* ---- observable/repeat.py ---------------------------------------------------
   repeat_value(v, n) = return_value(v).pipe(repeat(n)); repeat_count == -1 or
   None: forever; repeat = defer(concat_with_iterable(source for _ in
   range(n))).  concat schedules its `action` (next source or completion);
   return_value schedules its emission: two timers per repetition.
   phase true = concat's action is pending, false = return_value's. *)
Definition repeat_count (rc : option Z) : option nat :=
  match rc with
  | None => None
  | Some c => if c =? -1 then None else Some (Z.to_nat c)
  end.

Definition x_repeat_value (v : Z) (rc : option Z) : machine Z Z :=
  Machine ((true, repeat_count rc, 0%nat), [CTimer 0%nat 0], Cont)
    (fun '(phase, remaining, tag) _ i =>
       match i with
       | ITick _ =>
           if phase then
             match remaining with
             | Some O => ((phase, remaining, tag), [], Complete)
             | _ => ((false, option_map pred remaining, S tag), [CTimer (S tag) 0], Cont)
             end
           else ((true, remaining, S tag), [CEmit v; CTimer (S tag) 0], Cont)
       | _ => idle (phase, remaining, tag)
       end).

(* the factory's argument conventions: range(a) / range(a, b) / range(a, b, s) / range(a, None, s) *)
Definition x_range_py (a : Z) (stop step : option Z) : machine Z Z :=
  let '(x, y, z) := range_args a stop step in x_range x y z.
