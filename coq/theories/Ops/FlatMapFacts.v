(* C11: flat_map / merge_all (dynamic inner sequences) against an abstract
   specification over the interleaved input sequence, for EVERY mapper and
   EVERY input sequence. *)
From RxVerif Require Import Base.Prelude Ops.Machine Ops.MachineFacts Ops.Multi Ops.MultiFacts
  Ops.RunLemmas Ops.Combinators Ops.MergeFacts.

Local Arguments Nat.ltb : simpl never.
Local Arguments Nat.leb : simpl never.

Section FlatMap.
Context {A : Type}.

(* SPEC: the outer source's elements create inner sequences (numbered 1, 2, ..
   in creation order); every element of a running inner passes at its own
   instant; the first error (outer, inner, or a raising mapper) ends
   everything; completion when the outer and all inners have completed *)
Fixpoint flat_map_spec (mapper : A -> nat -> res unit) (outer_live : bool) (cnt : nat) (running : list nat)
  (pos : nat) (ins : list (Z * inp A)) : list (nat * ev A) :=
  match ins with
  | [] => []
  | (_, ISrc O e) :: t =>
      if outer_live then
        match e with
        | Next x => match mapper x cnt with
                    | Ok _ => flat_map_spec mapper true (S cnt) (running ++ [S cnt]) (S pos) t
                    | Raise err => [(pos, Err err)]
                    end
        | Err err => [(pos, Err err)]
        | Done => match running with
                  | [] => [(pos, Done)]
                  | _ => flat_map_spec mapper false cnt running (S pos) t
                  end
        end
      else flat_map_spec mapper outer_live cnt running (S pos) t
  | (_, ISrc (S j) e) :: t =>
      if mem (S j) running then
        match e with
        | Next x => (pos, Next x) :: flat_map_spec mapper outer_live cnt running (S pos) t
        | Err err => [(pos, Err err)]
        | Done => match remove (S j) running, outer_live with
                  | [], false => [(pos, Done)]
                  | rest, _ => flat_map_spec mapper outer_live cnt rest (S pos) t
                  end
        end
      else flat_map_spec mapper outer_live cnt running (S pos) t
  | (_, ITick _) :: t => flat_map_spec mapper outer_live cnt running (S pos) t
  | (_, IDispose) :: _ => []
  end.

Definition fm_live (outer_live : bool) (running : list nat) : list nat :=
  (if outer_live then [0%nat] else []) ++ running.

(* well-formed running lists: duplicate-free, inner ids in 1..cnt *)
Definition fm_ok (cnt : nat) (running : list nat) : Prop :=
  NoDup running /\ forall k, In k running -> (1 <= k <= cnt)%nat.

Lemma NoDup_app_snoc (l : list nat) x : NoDup l -> ~ In x l -> NoDup (l ++ [x]).
Proof.
  induction 1 as [|y t Hy Ht IH]; intros Hx; cbn.
  - constructor; [intros []|constructor].
  - constructor.
    + intros Hin. apply in_app_or in Hin. destruct Hin as [H|[->|[]]]; [contradiction|].
      apply Hx. left. reflexivity.
    + apply IH. intros H. apply Hx. right. exact H.
Qed.

Lemma fm_ok_new cnt running : fm_ok cnt running -> fm_ok (S cnt) (running ++ [S cnt]).
Proof.
  intros [Hnd Hr]. split.
  - apply NoDup_app_snoc; [exact Hnd|]. intros Hin. specialize (Hr _ Hin). lia.
  - intros k Hk. apply in_app_or in Hk. destruct Hk as [Hk|[<-|[]]]; [specialize (Hr _ Hk)|]; lia.
Qed.

Lemma fm_ok_remove cnt running k : fm_ok cnt running -> fm_ok cnt (remove k running).
Proof.
  intros [Hnd Hr]. split.
  - apply (remove_nodup k running Hnd).
  - intros j Hj. apply Hr. eapply remove_in; eassumption.
Qed.

Lemma mem_fm_live_S ol running j : mem (S j) (fm_live ol running) = mem (S j) running.
Proof. unfold fm_live, mem. destruct ol; reflexivity. Qed.

Lemma remove_fm_live_S ol running j : remove (S j) (fm_live ol running) = fm_live ol (remove (S j) running).
Proof. unfold fm_live. destruct ol; reflexivity. Qed.

Lemma mem_removed running k : NoDup running -> mem k (remove k running) = false.
Proof. intros H. apply notin_mem_false. apply (remove_nodup k running H). Qed.

Lemma mem_0_running cnt running : fm_ok cnt running -> mem 0 running = false.
Proof. intros [_ H]. apply notin_mem_false. intros Hin. specialize (H _ Hin). lia. Qed.

Lemma mem_0_fm_live cnt ol running : fm_ok cnt running -> mem 0 (fm_live ol running) = ol.
Proof.
  intros H. unfold fm_live. destruct ol; [reflexivity|]. cbn [app]. eapply mem_0_running; eassumption.
Qed.

Lemma flat_map_from mapper (ins : list (Z * inp A)) : forall ol cnt running pos,
  fm_ok cnt running -> (ol = true \/ running <> []) ->
  temitted (fst (run_from (x_flat_map mapper) (cnt, running, negb ol)
                   (RState (fm_live ol running) [] false) pos ins))
  = flat_map_spec mapper ol cnt running pos ins.
Proof.
  induction ins as [|[now i] rest IH]; intros ol cnt running pos Hok Hsome; [reflexivity|].
  rewrite temitted_run_cons. cbn [flat_map_spec].
  destruct i as [k e|tag|].
  - destruct k as [|j].
    + (* the outer source *)
      destruct ol.
      * destruct e as [x|err|].
        -- destruct (mapper x cnt) as [[]|err] eqn:Hmap.
           ++ assert (E : rstep (x_flat_map mapper) (cnt, running, negb true) (RState (fm_live true running) [] false)
                            now (ISrc 0%nat (Next x))
                          = ((S cnt, running ++ [S cnt], negb true),
                             RState (fm_live true (running ++ [S cnt])) [] false, [OSub (S cnt)])).
              { unfold rstep, fm_live. cbn. rewrite Hmap. cbn. reflexivity. }
              rewrite E. cbn [fst snd]. rewrite IH by (auto using fm_ok_new). reflexivity.
           ++ destruct (rstep_fin (x_flat_map mapper) (cnt, running, negb true)
                          (RState (fm_live true running) [] false) now (ISrc 0%nat (Next x)) pos) as [E1 E2];
                [reflexivity|reflexivity|cbn; rewrite Hmap; discriminate|].
              rewrite E1, (run_from_stopped _ _ _ _ _ E2). cbn. rewrite Hmap. reflexivity.
        -- destruct (rstep_fin (x_flat_map mapper) (cnt, running, negb true)
                       (RState (fm_live true running) [] false) now (ISrc 0%nat (Err err)) pos) as [E1 E2];
             [reflexivity|reflexivity|cbn; discriminate|].
           rewrite E1, (run_from_stopped _ _ _ _ _ E2). reflexivity.
        -- destruct running as [|r0 rs].
           ++ destruct (rstep_fin (x_flat_map mapper) (cnt, [], negb true)
                          (RState (fm_live true []) [] false) now (ISrc 0%nat Done) pos) as [E1 E2];
                [reflexivity|reflexivity|cbn; discriminate|].
              rewrite E1, (run_from_stopped _ _ _ _ _ E2). reflexivity.
           ++ assert (E : rstep (x_flat_map mapper) (cnt, r0 :: rs, negb true)
                            (RState (fm_live true (r0 :: rs)) [] false) now (ISrc 0%nat Done)
                          = ((cnt, r0 :: rs, negb false), RState (fm_live false (r0 :: rs)) [] false, [OUnsub 0%nat])).
              { unfold rstep, fm_live. cbn. reflexivity. }
              rewrite E. cbn [fst snd]. rewrite IH by (auto; right; discriminate). reflexivity.
      * assert (E : rstep (x_flat_map mapper) (cnt, running, negb false) (RState (fm_live false running) [] false)
                      now (ISrc 0%nat e)
                    = ((cnt, running, negb false), RState (fm_live false running) [] false, [])).
        { unfold rstep. cbn [r_stopped r_live]. rewrite (mem_0_fm_live cnt false running Hok). reflexivity. }
        rewrite E. cbn [fst snd]. rewrite IH by auto. reflexivity.
    + (* an inner source *)
      destruct (mem (S j) running) eqn:Hmem.
      * destruct e as [x|err|].
        -- assert (E : rstep (x_flat_map mapper) (cnt, running, negb ol) (RState (fm_live ol running) [] false)
                         now (ISrc (S j) (Next x))
                       = ((cnt, running, negb ol), RState (fm_live ol running) [] false, [OEmit (Next x)])).
           { unfold rstep. cbn [r_stopped r_live]. rewrite mem_fm_live_S, Hmem. cbn. reflexivity. }
           rewrite E. cbn [fst snd]. rewrite IH by auto. reflexivity.
        -- destruct (rstep_fin (x_flat_map mapper) (cnt, running, negb ol)
                       (RState (fm_live ol running) [] false) now (ISrc (S j) (Err err)) pos) as [E1 E2];
             [reflexivity|cbn [delivered r_live]; now rewrite mem_fm_live_S|cbn; discriminate|].
           rewrite E1, (run_from_stopped _ _ _ _ _ E2). reflexivity.
        -- destruct Hok as [Hnd Hrange].
           pose proof (mem_removed running (S j) Hnd) as Hgone.
           destruct (remove (S j) running) as [|r0 rs] eqn:Hrem; rewrite ?Hrem in Hgone.
           ++ destruct ol.
              ** assert (E : rstep (x_flat_map mapper) (cnt, running, negb true) (RState (fm_live true running) [] false)
                               now (ISrc (S j) Done)
                             = ((cnt, [], negb true), RState (fm_live true []) [] false, [OUnsub (S j)])).
                 { unfold rstep. cbn [r_stopped r_live]. rewrite mem_fm_live_S, Hmem.
                   cbn [x_flat_map x_step negb]. rewrite Hrem. cbn [apply_cmds r_live r_timers r_stopped].
                   rewrite mem_fm_live_S, Hmem, remove_fm_live_S, Hrem.
                   cbn [fst snd app is_terminal andb r_live]. rewrite mem_fm_live_S. cbn [mem existsb finish].
                   reflexivity. }
                 rewrite E. cbn [fst snd]. rewrite IH; [reflexivity|split; [constructor|intros k []]|auto].
              ** destruct (rstep_fin (x_flat_map mapper) (cnt, running, negb false)
                             (RState (fm_live false running) [] false) now (ISrc (S j) Done) pos) as [E1 E2];
                   [reflexivity|cbn [delivered r_live]; now rewrite mem_fm_live_S
                   |cbn [x_flat_map x_step negb snd]; rewrite Hrem; discriminate|].
                 rewrite E1, (run_from_stopped _ _ _ _ _ E2). cbn [x_flat_map x_step negb fst snd]. rewrite Hrem.
                 reflexivity.
           ++ assert (Hok2 : fm_ok cnt (r0 :: rs)).
              { rewrite <- Hrem. apply fm_ok_remove. split; assumption. }
              assert (E : rstep (x_flat_map mapper) (cnt, running, negb ol) (RState (fm_live ol running) [] false)
                            now (ISrc (S j) Done)
                          = ((cnt, r0 :: rs, negb ol), RState (fm_live ol (r0 :: rs)) [] false, [OUnsub (S j)])).
              { unfold rstep. cbn [r_stopped r_live]. rewrite mem_fm_live_S, Hmem.
                cbn [x_flat_map x_step]. rewrite Hrem. cbn [apply_cmds r_live r_timers r_stopped].
                rewrite mem_fm_live_S, Hmem, remove_fm_live_S, Hrem.
                cbn [fst snd app is_terminal andb r_live]. rewrite mem_fm_live_S, Hgone.
                destruct ol; cbn [negb finish fst snd app]; reflexivity. }
              rewrite E. cbn [fst snd]. rewrite IH by (auto; right; discriminate).
              destruct ol; reflexivity.
      * assert (E : rstep (x_flat_map mapper) (cnt, running, negb ol) (RState (fm_live ol running) [] false)
                      now (ISrc (S j) e)
                    = ((cnt, running, negb ol), RState (fm_live ol running) [] false, [])).
        { unfold rstep. cbn [r_stopped r_live]. rewrite mem_fm_live_S, Hmem. reflexivity. }
        rewrite E. cbn [fst snd]. rewrite IH by auto. reflexivity.
  - assert (E : rstep (x_flat_map mapper) (cnt, running, negb ol) (RState (fm_live ol running) [] false)
                  now (ITick tag)
                = ((cnt, running, negb ol), RState (fm_live ol running) [] false, [])) by reflexivity.
    rewrite E. cbn [fst snd]. rewrite IH by auto. reflexivity.
  - unfold rstep. cbn [r_stopped x_flat_map x_step apply_cmds fst snd].
    rewrite run_from_stopped by reflexivity. cbn [fst]. rewrite app_nil_r.
    cbn [filter app]. apply release_temitted.
Qed.

(* REFINEMENT for EVERY mapper (also raising) and EVERY input sequence: also
   merge_all and flat_map_indexed, which share the machine *)
Theorem flat_map_refines_spec mapper (ins : list (Z * inp A)) :
  temitted (fst (run (x_flat_map mapper) ins)) = flat_map_spec mapper true 0 [] 1 ins.
Proof.
  rewrite run_unfold. cbn [fst]. rewrite temitted_app'.
  unfold start_state, start_obs. cbn -[run_from flat_map_spec temitted].
  change (RState [0%nat] [] false) with (RState (fm_live true []) [] false).
  change (0%nat, @nil nat, false) with (0%nat, @nil nat, negb true).
  rewrite flat_map_from; [reflexivity|split; [constructor|intros k []]|auto].
Qed.
End FlatMap.
