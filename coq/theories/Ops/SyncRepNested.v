(* C14: repeat(of(v :: l)) / repeat_value(v) in front of flat_map(of), switch_map(of) and behind
   concat(of(1,2), .), for ANY consumer (Core/SyncSources.v: nets n_flat_map_of, n_switch_map_of,
   n_concat true).

   The inner list loop of repeat is ONE trampoline action: a whole round of the list is pulled
   (every element subscribing its inner of(x), whose action is queued) before the inner actions
   run.  So
   - flat_map(of): the consumer sees the cyclic stream; completing at its k-th element, with
     n = |v :: l| and k = n * r + j + 1 (j < n), exactly n * (r + 1) elements have been pulled;
   - switch_map(of): every inner but the last of a round is disposed before its action runs; the
     consumer sees the last element of the list once per round; completing at its k-th element,
     exactly n * k elements have been pulled;
   - concat(of(1,2), source): the consumer sees 1, 2, then the cyclic stream; completing at its
     k-th element, exactly k - 2 elements have been pulled (none if k <= 2). *)
From RxVerif Require Import Base.Prelude Core.SyncSources Core.SyncSourcesFacts Core.SyncShapes Ops.SyncRepFacts.

(* ---------- consumers on streams ---------- *)
Lemma feed_ext : forall C e1 e2 k s i j,
  (forall d, (d < k)%nat -> e1 (i + d)%nat = e2 (j + d)%nat) -> feed C e1 s i k = feed C e2 s j k.
Proof.
  intros C e1 e2. induction k as [|k IH]; intros s i j E; [reflexivity|].
  cbn [feed]. pose proof (E 0%nat ltac:(lia)) as E0. rewrite !Nat.add_0_r in E0. rewrite <- E0.
  destruct (c_step C s (e1 i)) as [[s' n] stop]. destruct stop; [reflexivity|].
  apply IH. intros d Hd. replace (S i + d)%nat with (i + S d)%nat by lia.
  replace (S j + d)%nat with (j + S d)%nat by lia. apply E. lia.
Qed.

(* completing at element a + b + 1: the first a elements pass, then it completes at the (b+1)-th *)
Lemma stops_at_split : forall C e a s i b, stops_at C e s i (a + S b) ->
  exists s', feed C e s i a = Some s' /\ stops_at C e s' (i + a) (S b).
Proof.
  intros C e. induction a as [|a IH]; intros s i b H.
  - exists s. rewrite Nat.add_0_r. split; [reflexivity|exact H].
  - cbn [Nat.add stops_at] in H. cbn [feed]. destruct (c_step C s (e i)) as [[s1 n] stop].
    destruct stop; [lia|]. destruct (IH s1 (S i) b H) as (s' & F & S'). exists s'. split; [exact F|].
    replace (i + S a)%nat with (S i + a)%nat by lia. exact S'.
Qed.

Lemma stops_at_pos : forall C e k s i, stops_at C e s i k -> (1 <= k)%nat.
Proof. intros C e k s i H. destruct k; [destruct H|lia]. Qed.

Lemma cyc_round : forall v l q d, (d < length (v :: l))%nat -> cyc v l (length (v :: l) * q + d) = nth d (v :: l) 0.
Proof.
  intros v l q d H. unfold cyc. rewrite Nat.add_comm, Nat.mul_comm, Nat.mod_add by (cbn; lia).
  rewrite Nat.mod_small by exact H. apply nth_indep. exact H.
Qed.

(* ---------- single dispatches, for any net ---------- *)
Section Steps.
Variable gen : nat -> Z.
Variable L : list Z.
Variable N : net.
Variable C : cons.
Notation K := (KRep L).
Notation State := (St N C).

Lemma step_conc ns cs live q i p o : memn 0 live = true ->
  step gen K N C (State ns cs false live (TConc 0 :: q) i p o)
  = Some (State ns cs false live (q ++ [TList 0 L true]) i p o).
Proof. intros H. cbn [step s_q s_done s_live]. rewrite H. reflexivity. Qed.

Lemma step_round_end ns cs live q i p o : memn 0 live = true ->
  step gen K N C (State ns cs false live (TList 0 [] true :: q) i p o)
  = Some (State ns cs false live (q ++ [TConc 0]) i p o).
Proof. intros H. cbn [step s_q s_done s_live]. rewrite H. reflexivity. Qed.

Lemma step_pull ns cs live v r q i p o : memn 0 live = true ->
  step gen K N C (State ns cs false live (TList 0 (v :: r) true :: q) i p o)
  = Some (let '(ns', cmds) := n_on N ns 0 (Next v) in
          apply K N C cmds (State ns' cs false live (TList 0 r true :: q) (S i) (S p) o)).
Proof.
  intros H. cbn [step s_q s_done s_live]. rewrite H. unfold deliver, pulled, set_net, set_q.
  cbn [s_net s_cons s_done s_live s_q s_idx s_pulls s_out]. reflexivity.
Qed.

Lemma step_inner_next ns cs live m v q i p o : memn m live = true ->
  step gen K N C (State ns cs false live (TList m [v] false :: q) i p o)
  = Some (let '(ns', cmds) := n_on N ns m (Next v) in
          apply K N C cmds (State ns' cs false live (TList m [] false :: q) i p o)).
Proof.
  intros H. cbn [step s_q s_done s_live]. rewrite H. unfold deliver, set_net, set_q.
  cbn [s_net s_cons s_done s_live s_q s_idx s_pulls s_out]. reflexivity.
Qed.

Lemma step_inner_done ns cs live m q i p o : memn m live = true ->
  step gen K N C (State ns cs false live (TList m [] false :: q) i p o)
  = Some (let '(ns', cmds) := n_on N ns m Done in
          apply K N C cmds (State ns' cs false live q i p o)).
Proof.
  intros H. cbn [step s_q s_done s_live]. rewrite H. unfold deliver, set_net, set_q.
  cbn [s_net s_cons s_done s_live s_q s_idx s_pulls s_out]. reflexivity.
Qed.

Lemma step_inner_dead ns cs live m vs q i p o : memn m live = false ->
  step gen K N C (State ns cs false live (TList m vs false :: q) i p o)
  = Some (State ns cs false live q i p o).
Proof. intros H. cbn [step s_q s_done s_live]. destruct vs; rewrite H; reflexivity. Qed.

Lemma run_plus1 f s s' : step gen K N C s = Some s' -> run gen K N C (S f) s = run gen K N C f s'.
Proof. apply run_step. Qed.
End Steps.

Definition inners (mvs : list (nat * Z)) : list task := map (fun mv => TList (fst mv) [snd mv] false) mvs.

Lemma inners_app a b : inners (a ++ b) = inners a ++ inners b.
Proof. apply map_app. Qed.

Lemma memn_cons p x l : memn p (x :: l) = Nat.eqb p x || memn p l.
Proof. reflexivity. Qed.

Lemma memn_removen_false p q l : memn p l = false -> memn p (removen q l) = false.
Proof.
  unfold memn. induction l as [|x l IH]; intros H; [reflexivity|]. cbn [existsb removen] in *.
  apply Bool.orb_false_iff in H. destruct H as [H1 H2]. destruct (Nat.eqb q x); [auto|].
  cbn [existsb]. rewrite H1. auto.
Qed.

Lemma memn_removen_same p l : memn p (removen p l) = false.
Proof.
  unfold memn. induction l as [|x l IH]; [reflexivity|]. cbn [removen]. destruct (Nat.eqb p x) eqn:E; [exact IH|].
  cbn [existsb]. rewrite E. exact IH.
Qed.

Lemma map_snd_combine_seq : forall (r : list Z) nx, map snd (combine (seq nx (length r)) r) = r.
Proof. induction r as [|v r IH]; intros nx; [reflexivity|]. cbn [length seq combine map snd]. now rewrite IH. Qed.

Lemma combine_seq_length : forall (r : list Z) nx, length (combine (seq nx (length r)) r) = length r.
Proof. intros. rewrite combine_length, seq_length. lia. Qed.

Lemma combine_seq_ports : forall (r : list Z) nx mv, In mv (combine (seq nx (length r)) r) ->
  exists t, (t < length r)%nat /\ fst mv = (nx + t)%nat.
Proof.
  induction r as [|v r IH]; intros nx mv H; [destruct H|]. cbn [length seq combine] in H. destruct H as [<-|H].
  - exists 0%nat. cbn. split; lia.
  - destruct (IH (S nx) mv H) as (t & Ht & E). exists (S t). cbn [length]. split; lia.
Qed.

Definition live_ports (live : list nat) (mvs : list (nat * Z)) : Prop :=
  Forall (fun mv => memn (fst mv) live = true /\ fst mv <> 0%nat) mvs.

(* ====================== source.flat_map(lambda x: of(x)) ====================== *)
Section FlatMapOf.
Variable gen : nat -> Z.
Variable C : cons.
Variable v0 : Z.
Variable l0 : list Z.
Notation L := (v0 :: l0).
Notation K := (KRep L).
Notation N := n_flat_map_of.
Notation State := (St N C).

(* the inner list loop of repeat: every element subscribes an inner of(x), whose action is queued *)
Lemma fm_pull : forall r pend cs a nx live i p o f,
  memn 0 live = true ->
  exists live', memn 0 live' = true
    /\ (forall t, (t < length r)%nat -> memn (nx + t) live' = true)
    /\ (forall m, memn m live = true -> memn m live' = true)
    /\ run gen K N C (length r + f) (State (FSt false a nx) cs false live (TList 0 r true :: inners pend) i p o)
       = run gen K N C f (State (FSt false (a + length r) (nx + length r)) cs false live'
                            (TList 0 [] true :: inners (pend ++ combine (seq nx (length r)) r))
                            (i + length r) (p + length r) o).
Proof.
  induction r as [|v r IH]; intros pend cs a nx live i p o f H0.
  - exists live. cbn [length seq combine Nat.add]. rewrite !Nat.add_0_r, app_nil_r.
    repeat split; auto. intros t Ht. lia.
  - cbn [length Nat.add]. rewrite (run_plus1 gen L N C _ _ _ (step_pull gen L N C _ _ _ _ _ _ _ _ _ H0)).
    cbn [n_on n_flat_map_of Nat.eqb f_stopped f_active f_next apply s_done apply1 s_net s_cons s_live s_q s_idx s_pulls s_out first_task].
    destruct (IH (pend ++ [(nx, v)]) cs (S a) (S nx) (nx :: live) (S i) (S p) o f) as (live' & H0' & Hn & Hm & R).
    { rewrite memn_cons, H0. apply Bool.orb_true_r. }
    exists live'. split; [exact H0'|]. split; [|split].
    + intros t Ht. destruct t as [|t].
      * rewrite Nat.add_0_r. apply Hm. rewrite memn_cons, Nat.eqb_refl. reflexivity.
      * replace (nx + S t)%nat with (S nx + t)%nat by lia. apply Hn. lia.
    + intros m Hml. apply Hm. rewrite memn_cons, Hml. apply Bool.orb_true_r.
    + change ((TList 0 r true :: inners pend) ++ [TList nx [v] false])
        with (TList 0 r true :: inners pend ++ inners [(nx, v)]).
      rewrite <- inners_app, R. cbn [seq combine]. rewrite <- app_assoc. cbn [app].
      replace (S a + length r)%nat with (a + S (length r))%nat by lia.
      replace (S nx + length r)%nat with (nx + S (length r))%nat by lia.
      replace (S i + length r)%nat with (i + S (length r))%nat by lia.
      replace (S p + length r)%nat with (p + S (length r))%nat by lia. reflexivity.
Qed.

Lemma fm_on_inner_next a nx m v : m <> 0%nat ->
  n_on N (FSt false a nx) m (Next v) = (FSt false a nx, [NEmit v]).
Proof. intros H. cbn [n_on n_flat_map_of]. destruct m; [contradiction|reflexivity]. Qed.

Lemma fm_on_inner_done a nx m : m <> 0%nat ->
  n_on N (FSt false a nx) m Done = (FSt false (pred a) nx, []).
Proof. intros H. cbn [n_on n_flat_map_of]. destruct m; [contradiction|reflexivity]. Qed.

(* the queued inner actions, the consumer not completing: two dispatches each *)
Lemma fm_pass : forall mvs cs cs' a nx live q i p o f,
  live_ports live mvs -> feed C (lgen (map snd mvs)) cs 0 (length mvs) = Some cs' ->
  exists a' o', run gen K N C (2 * length mvs + f) (State (FSt false a nx) cs false live (inners mvs ++ q) i p o)
                = run gen K N C f (State (FSt false a' nx) cs' false live q i p o').
Proof.
  induction mvs as [|[m v] mvs IH]; intros cs cs' a nx live q i p o f HL HF.
  - cbn in HF. injection HF as <-. exists a, o. reflexivity.
  - apply Forall_cons_iff in HL. destruct HL as [[Hm Hm0] HL]. cbn [fst] in Hm, Hm0.
    cbn [map snd length feed] in HF. change (lgen (v :: map snd mvs) 0) with v in HF.
    destruct (c_step C cs v) as [[s1 n1] stop] eqn:E. destruct stop; [discriminate HF|].
    cbn [inners map fst snd app length]. replace (2 * S (length mvs) + f)%nat with (S (S (2 * length mvs + f))) by lia.
    rewrite (run_plus1 gen L N C _ _ _ (step_inner_next gen L N C _ _ _ _ _ _ _ _ _ Hm)).
    rewrite (fm_on_inner_next a nx m v Hm0).
    cbn [apply s_done apply1 s_net s_cons s_live s_q s_idx s_pulls s_out]. rewrite E. cbn [apply].
    rewrite (run_plus1 gen L N C _ _ _ (step_inner_done gen L N C _ _ _ _ _ _ _ _ Hm)).
    rewrite (fm_on_inner_done a nx m Hm0). cbn [apply].
    apply (IH s1 cs' (pred a) nx live q i p (o + n1)%nat f HL).
    rewrite <- HF. apply feed_ext. intros d _. reflexivity.
Qed.

(* ... the consumer completing at the k-th of them *)
Lemma fm_stop : forall mvs k cs a nx live q i p o f,
  live_ports live mvs -> (k <= length mvs)%nat -> stops_at C (lgen (map snd mvs)) cs 0 k ->
  (2 * k + length mvs + length q <= f)%nat ->
  exists o', run gen K N C f (State (FSt false a nx) cs false live (inners mvs ++ q) i p o) = Returned p o' true.
Proof.
  induction mvs as [|[m v] mvs IH]; intros k cs a nx live q i p o f HL Hk HS Hf.
  - pose proof (stops_at_pos _ _ _ _ _ HS). cbn in Hk. lia.
  - apply Forall_cons_iff in HL. destruct HL as [[Hm Hm0] HL]. cbn [fst] in Hm, Hm0.
    destruct k as [|k]; [destruct HS|]. cbn [map snd stops_at] in HS. change (lgen (v :: map snd mvs) 0) with v in HS.
    destruct (c_step C cs v) as [[s1 n1] stop] eqn:E. cbn [length] in Hk, Hf.
    cbn [inners map fst snd app].
    destruct f as [|f]; [lia|].
    rewrite (run_plus1 gen L N C _ _ _ (step_inner_next gen L N C _ _ _ _ _ _ _ _ _ Hm)).
    rewrite (fm_on_inner_next a nx m v Hm0).
    cbn [apply s_done apply1 s_net s_cons s_live s_q s_idx s_pulls s_out]. rewrite E.
    destruct stop.
    + cbn [apply]. eexists. apply run_done. cbn [length]. rewrite app_length. unfold inners. rewrite map_length. lia.
    + cbn [apply]. destruct f as [|f]; [lia|].
      rewrite (run_plus1 gen L N C _ _ _ (step_inner_done gen L N C _ _ _ _ _ _ _ _ Hm)).
      rewrite (fm_on_inner_done a nx m Hm0). cbn [apply].
      apply (IH k s1 (pred a) nx live q i p (o + n1)%nat f HL); [lia| |lia].
      eapply stops_at_ext; [|exact HS]. intros d _. reflexivity.
Qed.

Notation n := (length L).

Lemma fm_rounds : forall r j cs a nx live i p o f rho,
  memn 0 live = true -> nx <> 0%nat -> (j < n)%nat ->
  stops_at C (cyc v0 l0) cs (n * rho) (n * r + S j) ->
  ((3 * n + 2) * r + 2 * n + 2 * j + 5 <= f)%nat ->
  exists o', run gen K N C f (State (FSt false a nx) cs false live [TConc 0] i p o)
             = Returned (p + n * S r)%nat o' true.
Proof.
  induction r as [|r IH]; intros j cs a nx live i p o f rho H0 Hnx Hj HS Hf.
  - (* the last round *)
    rewrite Nat.mul_0_r, Nat.add_0_l in HS.
    replace f with (S (n + S (f - n - 2))) by lia.
    rewrite (run_plus1 gen L N C _ _ _ (step_conc gen L N C _ _ _ _ _ _ _ H0)). cbn [app].
    destruct (fm_pull L [] cs a nx live i p o (S (f - n - 2)) H0) as (live' & H0' & Hn & _ & R).
    change (inners []) with (@nil task) in R. rewrite R. clear R. cbn [app].
    rewrite (run_plus1 gen L N C _ _ _ (step_round_end gen L N C _ _ _ _ _ _ _ H0')).
    destruct (fm_stop (combine (seq nx n) L) (S j) cs (a + n) (nx + n) live' [TConc 0] (i + n) (p + n) o (f - n - 2))
      as (o' & R).
    + apply Forall_forall. intros mv Hmv. destruct (combine_seq_ports L nx mv Hmv) as (t & Ht & ->). split; [apply Hn; exact Ht|lia].
    + rewrite combine_seq_length. lia.
    + rewrite map_snd_combine_seq. eapply stops_at_ext; [|exact HS]. intros d Hd. cbn [Nat.add].
      rewrite cyc_round by lia. reflexivity.
    + rewrite combine_seq_length. cbn [length] in *. lia.
    + exists o'. rewrite R. f_equal. lia.
  - (* a whole round passes *)
    replace (n * S r + S j)%nat with (n + S (n * r + j))%nat in HS by lia.
    destruct (stops_at_split _ _ _ _ _ _ HS) as (cs' & HF & HS').
    replace f with (S (n + S (2 * n + (f - 3 * n - 2)))) by (cbn [length] in *; lia).
    rewrite (run_plus1 gen L N C _ _ _ (step_conc gen L N C _ _ _ _ _ _ _ H0)). cbn [app].
    destruct (fm_pull L [] cs a nx live i p o (S (2 * n + (f - 3 * n - 2))) H0) as (live' & H0' & Hn & _ & R).
    change (inners []) with (@nil task) in R. rewrite R. clear R. cbn [app].
    rewrite (run_plus1 gen L N C _ _ _ (step_round_end gen L N C _ _ _ _ _ _ _ H0')).
    destruct (fm_pass (combine (seq nx n) L) cs cs' (a + n) (nx + n) live' [TConc 0] (i + n) (p + n) o (f - 3 * n - 2))
      as (a' & o' & R).
    + apply Forall_forall. intros mv Hmv. destruct (combine_seq_ports L nx mv Hmv) as (t & Ht & ->). split; [apply Hn; exact Ht|lia].
    + rewrite map_snd_combine_seq, combine_seq_length. rewrite <- HF. apply feed_ext. intros d Hd. cbn [Nat.add].
      rewrite cyc_round by lia. reflexivity.
    + rewrite combine_seq_length in R. rewrite R. clear R.
      destruct (IH j cs' a' (nx + n)%nat live' (i + n)%nat (p + n)%nat o' (f - 3 * n - 2)%nat (S rho) H0') as (o'' & R).
      * lia.
      * exact Hj.
      * replace (n * S rho)%nat with (n * rho + n)%nat by lia.
        replace (n * r + S j)%nat with (S (n * r + j)) by lia. exact HS'.
      * cbn [length] in *. lia.
      * exists o''. rewrite R. f_equal. lia.
Qed.

Theorem flat_map_of_rep_rounds : forall r j fuel, (j < n)%nat ->
  stops_at C (cyc v0 l0) (c_init C) 0 (n * r + S j) ->
  ((3 * n + 2) * r + 2 * n + 2 * j + 5 <= fuel)%nat ->
  exists out, run_default gen K N C fuel = Returned (n * S r) out true.
Proof.
  intros r j fuel Hj HS Hf. unfold run_default, init.
  cbn [n_start n_flat_map_of apply s_done apply1 s_net s_cons s_live s_q s_idx s_pulls s_out first_task app].
  destruct (fm_rounds r j (c_init C) 0 1 [0%nat] 0 0 0 fuel 0) as (o' & R); auto.
  - rewrite Nat.mul_0_r. exact HS.
  - exists o'. rewrite R. reflexivity.
Qed.
End FlatMapOf.

(* the number of pulled elements in terms of k alone: n * ceil(k / n) *)
Theorem flat_map_of_rep_any : forall gen C v l k fuel,
  stops_at C (cyc v l) (c_init C) 0 k -> (5 * k + 2 * length (v :: l) + 5 <= fuel)%nat ->
  exists out, run_default gen (KRep (v :: l)) n_flat_map_of C fuel
              = Returned (length (v :: l) * ((k + length l) / length (v :: l))) out true.
Proof.
  intros gen C v l k fuel HS Hf. destruct k as [|k']; [destruct HS|].
  set (n := length (v :: l)) in *. assert (Hn : n <> 0%nat) by (subst n; cbn; lia).
  pose proof (Nat.div_mod k' n Hn) as E. pose proof (Nat.mod_upper_bound k' n Hn) as Hj.
  set (r := (k' / n)%nat) in *. set (j := (k' mod n)%nat) in *.
  assert (Hr : (r <= n * r)%nat) by nia.
  assert (Ed : ((S k' + length l) / n = S r)%nat).
  { replace (S k' + length l)%nat with (S r * n + j)%nat by (subst n; cbn [length] in *; lia).
    rewrite Nat.div_add_l by exact Hn. rewrite Nat.div_small by exact Hj. lia. }
  rewrite Ed. apply (flat_map_of_rep_rounds gen C v l r j fuel Hj).
  - fold n. replace (n * r + S j)%nat with (S k') by lia. exact HS.
  - fold n. nia.
Qed.

(* ====================== source.switch_map(lambda x: of(x)) ====================== *)
Lemma last_cons_default : forall (r : list Z) v d, last (v :: r) d = last r v.
Proof.
  induction r as [|x r IH]; intros v d; [reflexivity|].
  change (last (v :: x :: r) d) with (last (x :: r) d). now rewrite (IH x d), (IH x v).
Qed.

Section SwitchMapOf.
Variable gen : nat -> Z.
Variable C : cons.
Variable v0 : Z.
Variable l0 : list Z.
Notation L := (v0 :: l0).
Notation K := (KRep L).
Notation N := n_switch_map_of.
Notation State := (St N C).

Definition dead_ports (live : list nat) (nx : nat) (mvs : list (nat * Z)) : Prop :=
  Forall (fun mv => memn (fst mv) live = false /\ (fst mv < nx)%nat) mvs.

Lemma sw_on_src h lt nx v : lt <> 0%nat ->
  n_on N (SSt false h lt nx) 0 (Next v) = (SSt false true nx (S nx), [NUnsub lt; NSub nx (SOf [v])]).
Proof. intros H. cbn [n_on n_switch_map_of Nat.eqb w_stopped w_has w_latest w_next]. destruct lt; [contradiction|reflexivity]. Qed.

(* the rest of a round: every element disposes the previous inner (its queued action is dead) *)
Lemma sw_pull_rest : forall r dead lt vl cs h nx live i p o f,
  memn 0 live = true -> lt <> 0%nat -> (lt < nx)%nat -> memn lt live = true -> dead_ports live nx dead ->
  exists live' dead' lt' h',
    memn 0 live' = true /\ lt' <> 0%nat /\ (lt' < nx + length r)%nat /\ memn lt' live' = true
    /\ dead_ports live' (nx + length r) dead' /\ length dead' = (length dead + length r)%nat
    /\ run gen K N C (length r + f)
         (State (SSt false h lt nx) cs false live (TList 0 r true :: inners (dead ++ [(lt, vl)])) i p o)
       = run gen K N C f
           (State (SSt false h' lt' (nx + length r)) cs false live'
              (TList 0 [] true :: inners (dead' ++ [(lt', last r vl)])) (i + length r) (p + length r) o).
Proof.
  induction r as [|v r IH]; intros dead lt vl cs h nx live i p o f H0 Hlt0 Hlt Hl Hd.
  - exists live, dead, lt, h. cbn [length last Nat.add]. rewrite !Nat.add_0_r. repeat split; auto.
  - cbn [length Nat.add]. rewrite (run_plus1 gen L N C _ _ _ (step_pull gen L N C _ _ _ _ _ _ _ _ _ H0)).
    cbn [n_on n_switch_map_of w_stopped w_has w_latest w_next].
    replace (Nat.eqb lt 0) with false by (symmetry; apply Nat.eqb_neq; exact Hlt0). cbn [Nat.eqb app].
    cbn [apply s_done apply1 s_net s_cons s_live s_q s_idx s_pulls s_out first_task].
    change ((TList 0 r true :: inners (dead ++ [(lt, vl)])) ++ [TList nx [v] false])
      with (TList 0 r true :: inners (dead ++ [(lt, vl)]) ++ inners [(nx, v)]).
    rewrite <- inners_app.
    destruct (IH (dead ++ [(lt, vl)]) nx v cs true (S nx) (nx :: removen lt live) (S i) (S p) o f)
      as (live' & dead' & lt' & h' & A1 & A2 & A3 & A4 & A5 & A6 & R).
    + rewrite memn_cons, memn_removen by lia. rewrite H0. apply Bool.orb_true_r.
    + lia.
    + lia.
    + rewrite memn_cons, Nat.eqb_refl. reflexivity.
    + apply Forall_app. split.
      * eapply Forall_impl; [|exact Hd]. intros mv [M1 M2]. split; [|lia].
        rewrite memn_cons. replace (Nat.eqb (fst mv) nx) with false by (symmetry; apply Nat.eqb_neq; lia).
        apply memn_removen_false. exact M1.
      * constructor; [|constructor]. cbn [fst]. split; [|lia].
        rewrite memn_cons. replace (Nat.eqb lt nx) with false by (symmetry; apply Nat.eqb_neq; lia).
        apply memn_removen_same.
    + exists live', dead', lt', h'. rewrite last_cons_default.
      replace (nx + S (length r))%nat with (S nx + length r)%nat by lia.
      replace (i + S (length r))%nat with (S i + length r)%nat by lia.
      replace (p + S (length r))%nat with (S p + length r)%nat by lia.
      repeat split; auto. rewrite A6, app_length. cbn. lia.
Qed.

(* queued actions of disposed inners: one dispatch each, nothing happens *)
Lemma sw_skip : forall dead ns cs live nx q i p o f, dead_ports live nx dead ->
  run gen K N C (length dead + f) (State ns cs false live (inners dead ++ q) i p o)
  = run gen K N C f (State ns cs false live q i p o).
Proof.
  induction dead as [|[m v] dead IH]; intros ns cs live nx q i p o f Hd; [reflexivity|].
  apply Forall_cons_iff in Hd. destruct Hd as [[M _] Hd]. cbn [fst] in M.
  cbn [length Nat.add inners map fst snd app].
  rewrite (run_plus1 gen L N C _ _ _ (step_inner_dead gen L N C _ _ _ _ _ _ _ _ _ M)).
  apply (IH ns cs live nx q i p o f Hd).
Qed.

Lemma sw_on_latest_next h lt nx v : lt <> 0%nat ->
  n_on N (SSt false h lt nx) lt (Next v) = (SSt false h lt nx, [NEmit v]).
Proof.
  intros H. cbn [n_on n_switch_map_of]. destruct lt as [|x]; [contradiction|].
  cbn [Nat.eqb switch_on_inner w_latest]. rewrite Nat.eqb_refl. reflexivity.
Qed.

Lemma sw_on_latest_done h lt nx : lt <> 0%nat ->
  n_on N (SSt false h lt nx) lt Done = (SSt false false lt nx, []).
Proof.
  intros H. cbn [n_on n_switch_map_of]. destruct lt as [|x]; [contradiction|].
  cbn [Nat.eqb switch_on_inner w_latest w_stopped w_next]. rewrite Nat.eqb_refl. reflexivity.
Qed.

Notation n := (length L).
Notation vlast := (last l0 v0).

Lemma sw_rounds : forall k cs h lt nx live i p o f,
  memn 0 live = true -> nx <> 0%nat ->
  stops_at C (fun _ => vlast) cs 0 k -> ((2 * n + 3) * k + 2 <= f)%nat ->
  exists o', run gen K N C f (State (SSt false h lt nx) cs false live [TConc 0] i p o)
             = Returned (p + n * k)%nat o' true.
Proof.
  induction k as [|k IH]; intros cs h lt nx live i p o f H0 Hnx HS Hf; [destruct HS|].
  cbn [stops_at] in HS. destruct (c_step C cs vlast) as [[s1 n1] stop] eqn:E.
  (* the concat action, then the first element of the round *)
  assert (First : exists live1 h1, memn 0 live1 = true /\ memn nx live1 = true /\
            forall f1, run gen K N C (S (S f1)) (State (SSt false h lt nx) cs false live [TConc 0] i p o)
                       = run gen K N C f1 (State (SSt false h1 nx (S nx)) cs false live1
                                             (TList 0 l0 true :: inners ([] ++ [(nx, v0)])) (S i) (S p) o)).
  { destruct lt as [|x].
    - exists (nx :: live), true. split; [rewrite memn_cons, H0; apply Bool.orb_true_r|].
      split; [rewrite memn_cons, Nat.eqb_refl; reflexivity|]. intros f1.
      rewrite (run_plus1 gen L N C _ _ _ (step_conc gen L N C _ _ _ _ _ _ _ H0)). cbn [app].
      rewrite (run_plus1 gen L N C _ _ _ (step_pull gen L N C _ _ _ _ _ _ _ _ _ H0)). reflexivity.
    - exists (nx :: removen (S x) live), true.
      split; [rewrite memn_cons, memn_removen by lia; rewrite H0; apply Bool.orb_true_r|].
      split; [rewrite memn_cons, Nat.eqb_refl; reflexivity|]. intros f1.
      rewrite (run_plus1 gen L N C _ _ _ (step_conc gen L N C _ _ _ _ _ _ _ H0)). cbn [app].
      rewrite (run_plus1 gen L N C _ _ _ (step_pull gen L N C _ _ _ _ _ _ _ _ _ H0)).
      reflexivity. }
  destruct First as (live1 & h1 & B0 & B1 & R1).
  cbn [length] in Hf.
  replace f with (S (S (length l0 + S (length l0 + (f - 2 * length l0 - 3))))) by lia.
  rewrite R1. clear R1.
  destruct (sw_pull_rest l0 [] nx v0 cs h1 (S nx) live1 (S i) (S p) o (S (length l0 + (f - 2 * length l0 - 3))))
    as (live' & dead' & lt' & h' & A1 & A2 & A3 & A4 & A5 & A6 & R); auto; [constructor|].
  rewrite R. clear R.
  rewrite (run_plus1 gen L N C _ _ _ (step_round_end gen L N C _ _ _ _ _ _ _ A1)).
  rewrite inners_app, <- app_assoc. cbn [length Nat.add] in A6. rewrite <- A6.
  rewrite (sw_skip dead' _ cs live' _ _ _ _ _ _ A5). rewrite A6.
  cbn [inners map fst snd app].
  remember (f - 2 * length l0 - 3)%nat as f2 eqn:Ef2. destruct f2 as [|f3]; [lia|].
  rewrite (run_plus1 gen L N C _ _ _ (step_inner_next gen L N C _ _ _ _ _ _ _ _ _ A4)).
  rewrite (sw_on_latest_next h' lt' _ vlast A2).
  cbn [apply s_done apply1 s_net s_cons s_live s_q s_idx s_pulls s_out]. rewrite E.
  destruct stop.
  - subst k. cbn [apply]. eexists. rewrite run_done by (cbn [length]; lia). f_equal. cbn [length]. lia.
  - cbn [apply]. destruct f3 as [|f4]; [lia|].
    rewrite (run_plus1 gen L N C _ _ _ (step_inner_done gen L N C _ _ _ _ _ _ _ _ A4)).
    rewrite (sw_on_latest_done h' lt' _ A2). cbn [apply].
    destruct (IH s1 false lt' (S nx + length l0)%nat live' (S i + length l0)%nat (S p + length l0)%nat (o + n1)%nat f4 A1)
      as (o' & R).
    + lia.
    + eapply stops_at_ext; [|exact HS]. intros d _. reflexivity.
    + cbn [length]. lia.
    + exists o'. rewrite R. f_equal. cbn [length]. lia.
Qed.

Theorem switch_map_of_rep_last : forall k fuel,
  stops_at C (fun _ => last L v0) (c_init C) 0 k -> ((2 * n + 3) * k + 2 <= fuel)%nat ->
  exists out, run_default gen K N C fuel = Returned (n * k) out true.
Proof.
  intros k fuel HS Hf. unfold run_default, init.
  cbn [n_start n_switch_map_of apply s_done apply1 s_net s_cons s_live s_q s_idx s_pulls s_out first_task app].
  destruct (sw_rounds k (c_init C) false 0 1 [0%nat] 0 0 0 fuel) as (o' & R); auto.
  - eapply stops_at_ext; [|exact HS]. intros d _. cbn beta. apply last_cons_default.
  - exists o'. rewrite R. reflexivity.
Qed.

(* ---- and it does NOT see the cyclic stream: a consumer that never completes on the constant
   stream of last elements keeps the pipeline running for ever ---- *)
Lemma sw_round_pass : forall cs s1 n1 h lt nx live i p o f,
  memn 0 live = true -> nx <> 0%nat -> c_step C cs vlast = (s1, n1, false) ->
  exists h' lt' nx' live' i' p' o', memn 0 live' = true /\ nx' <> 0%nat /\
    run gen K N C ((2 * n + 3) + f) (State (SSt false h lt nx) cs false live [TConc 0] i p o)
    = run gen K N C f (State (SSt false h' lt' nx') s1 false live' [TConc 0] i' p' o').
Proof.
  intros cs s1 n1 h lt nx live i p o f H0 Hnx E.
  assert (First : exists live1 h1, memn 0 live1 = true /\ memn nx live1 = true /\
            forall f1, run gen K N C (S (S f1)) (State (SSt false h lt nx) cs false live [TConc 0] i p o)
                       = run gen K N C f1 (State (SSt false h1 nx (S nx)) cs false live1
                                             (TList 0 l0 true :: inners ([] ++ [(nx, v0)])) (S i) (S p) o)).
  { destruct lt as [|x].
    - exists (nx :: live), true. split; [rewrite memn_cons, H0; apply Bool.orb_true_r|].
      split; [rewrite memn_cons, Nat.eqb_refl; reflexivity|]. intros f1.
      rewrite (run_plus1 gen L N C _ _ _ (step_conc gen L N C _ _ _ _ _ _ _ H0)). cbn [app].
      rewrite (run_plus1 gen L N C _ _ _ (step_pull gen L N C _ _ _ _ _ _ _ _ _ H0)). reflexivity.
    - exists (nx :: removen (S x) live), true.
      split; [rewrite memn_cons, memn_removen by lia; rewrite H0; apply Bool.orb_true_r|].
      split; [rewrite memn_cons, Nat.eqb_refl; reflexivity|]. intros f1.
      rewrite (run_plus1 gen L N C _ _ _ (step_conc gen L N C _ _ _ _ _ _ _ H0)). cbn [app].
      rewrite (run_plus1 gen L N C _ _ _ (step_pull gen L N C _ _ _ _ _ _ _ _ _ H0)). reflexivity. }
  destruct First as (live1 & h1 & B0 & B1 & R1).
  cbn [length].
  replace (2 * S (length l0) + 3 + f)%nat with (S (S (length l0 + S (length l0 + S (S f))))) by lia.
  rewrite R1. clear R1.
  destruct (sw_pull_rest l0 [] nx v0 cs h1 (S nx) live1 (S i) (S p) o (S (length l0 + S (S f))))
    as (live' & dead' & lt' & h' & A1 & A2 & A3 & A4 & A5 & A6 & R); auto; [constructor|].
  rewrite R. clear R.
  rewrite (run_plus1 gen L N C _ _ _ (step_round_end gen L N C _ _ _ _ _ _ _ A1)).
  rewrite inners_app, <- app_assoc. cbn [length Nat.add] in A6. rewrite <- A6.
  rewrite (sw_skip dead' _ cs live' _ _ _ _ _ _ A5).
  cbn [inners map fst snd app].
  rewrite (run_plus1 gen L N C _ _ _ (step_inner_next gen L N C _ _ _ _ _ _ _ _ _ A4)).
  rewrite (sw_on_latest_next h' lt' _ vlast A2).
  cbn [apply s_done apply1 s_net s_cons s_live s_q s_idx s_pulls s_out]. rewrite E. cbn [apply].
  rewrite (run_plus1 gen L N C _ _ _ (step_inner_done gen L N C _ _ _ _ _ _ _ _ A4)).
  rewrite (sw_on_latest_done h' lt' _ A2). cbn [apply].
  eexists _, _, _, _, _, _, _. split; [exact A1|]. split; [|reflexivity]. lia.
Qed.

Lemma sw_diverges : forall m cs h lt nx live i p o,
  memn 0 live = true -> nx <> 0%nat -> never_stops C (fun _ => vlast) cs 0 ->
  run gen K N C ((2 * n + 3) * m) (State (SSt false h lt nx) cs false live [TConc 0] i p o) = OutOfFuel.
Proof.
  induction m as [|m IH]; intros cs h lt nx live i p o H0 Hnx HN.
  - rewrite Nat.mul_0_r. cbn [run]. rewrite (step_conc gen L N C _ _ _ _ _ _ _ H0). reflexivity.
  - destruct (c_step C cs vlast) as [[s1 n1] stop] eqn:E.
    assert (stop = false).
    { destruct stop; [|reflexivity]. exfalso. apply (HN 1%nat). cbn [feed]. rewrite E. reflexivity. }
    subst stop.
    destruct (sw_round_pass cs s1 n1 h lt nx live i p o ((2 * n + 3) * m) H0 Hnx E)
      as (h' & lt' & nx' & live' & i' & p' & o' & A0 & Anx & R).
    replace ((2 * n + 3) * S m)%nat with (2 * n + 3 + (2 * n + 3) * m)%nat by lia.
    rewrite R. apply IH; [exact A0|exact Anx|].
    intros k Hk. apply (HN (S k)). cbn [feed]. rewrite E. rewrite <- Hk. apply feed_ext. intros d _. reflexivity.
Qed.

Lemma run_mono : forall f f' s a b c, (f <= f')%nat ->
  run gen K N C f s = Returned a b c -> run gen K N C f' s = Returned a b c.
Proof.
  induction f as [|f IH]; intros f' s a b c Hle H.
  - cbn [run] in H. destruct (step gen K N C s) eqn:Es; [discriminate H|].
    rewrite run_end by exact Es. exact H.
  - cbn [run] in H. destruct (step gen K N C s) as [s'|] eqn:Es.
    + destruct f' as [|f']; [lia|]. cbn [run]. rewrite Es. apply (IH f' s'); [lia|exact H].
    + rewrite run_end by exact Es. exact H.
Qed.

Theorem switch_map_of_rep_diverges : forall fuel,
  never_stops C (fun _ => last L v0) (c_init C) 0 -> run_default gen K N C fuel = OutOfFuel.
Proof.
  intros fuel HN. unfold run_default, init.
  cbn [n_start n_switch_map_of apply s_done apply1 s_net s_cons s_live s_q s_idx s_pulls s_out first_task app].
  match goal with |- ?R = _ => destruct R as [a b c|] eqn:ER; [|reflexivity] end.
  exfalso. apply (run_mono fuel ((2 * n + 3) * fuel)) in ER; [|nia].
  rewrite sw_diverges in ER; [discriminate ER|reflexivity|discriminate|].
  intros k Hk. apply (HN k). rewrite <- Hk. apply feed_ext. intros d _. cbn beta. apply last_cons_default.
Qed.
End SwitchMapOf.

(* ====================== concat(of(1, 2), source) ====================== *)
(* what the consumer sees: 1, 2, then the cyclic stream *)
Definition concat_stream (v : Z) (l : list Z) (i : nat) : Z :=
  match i with O => 1 | S O => 2 | S (S j) => cyc v l j end.

Theorem concat_before_rep_any : forall gen C v l k fuel,
  stops_at C (concat_stream v l) (c_init C) 0 k -> (3 * k + 12 <= fuel)%nat ->
  exists out, run_default gen (KRep (v :: l)) (n_concat true) C fuel = Returned (k - 2) out true.
Proof.
  intros gen C v l k fuel HS Hf. start.
  destruct k as [|k]; [destruct HS|]. cbn [stops_at concat_stream] in HS.
  destruct (c_step C (c_init C) 1) as [[s1 n1] st1] eqn:E1.
  one_step. one_step. rewrite E1. destruct st1.
  - subst k. eexists. cbn [apply]. rewrite run_done by (cbn in *; lia). reflexivity.
  - cbn [apply]. destruct k as [|k]; [destruct HS|]. cbn [stops_at concat_stream] in HS.
    destruct (c_step C s1 2) as [[s2 n2] st2] eqn:E2.
    one_step. rewrite E2. destruct st2.
    + subst k. eexists. cbn [apply]. rewrite run_done by (cbn in *; lia). reflexivity.
    + cbn [apply]. one_step. one_step.
      cbn [Nat.sub]. replace (k - 0)%nat with (0 + k)%nat by lia.
      eapply (rep_conc_any gen (n_concat true) C (fun _ : nat => True)) with (k := k).
      * apply concat_emits.
      * exact I.
      * reflexivity.
      * eapply stops_at_ext; [|exact HS]. intros d _. reflexivity.
      * cbn in *; lia.
Qed.

(* the proposal "any consumer that completes on the CYCLIC stream makes switch_map(of) over repeat
   return" is false: take_while(1 < v) completes on the cyclic stream 1, 2, 1, 2, ... at its first
   element, but behind switch_map(of) it sees 2, 2, 2, ... and never completes *)
Theorem switch_map_of_rep_cyclic_refuted :
  stops_at (c_take_while (fun v => 1 <? v) false) (cyc 1 [2]) tt 0 1
  /\ run_default (fun i => Z.of_nat i) (KRep [1; 2]) n_switch_map_of (c_take_while (fun v => 1 <? v) false) 500 = OutOfFuel
  /\ forall gen fuel, run_default gen (KRep [1; 2]) n_switch_map_of (c_take_while (fun v => 1 <? v) false) fuel = OutOfFuel.
Proof.
  split; [vm_compute; reflexivity|]. split; [vm_compute; reflexivity|].
  intros gen fuel. apply switch_map_of_rep_diverges. intros k. induction k as [|k IH]; [discriminate|].
  cbn [feed c_take_while c_step last Z.ltb Z.compare Pos.compare Pos.compare_cont].
  intros H. apply IH. rewrite <- H. apply feed_ext. intros d _. reflexivity.
Qed.
