(* Generic facts about the runner: grammar (C01), release at termination (C02),
   silence and release at dispose (C03) -- for EVERY machine and EVERY input
   sequence. *)
From RxVerif Require Import Base.Prelude Ops.Machine Ops.MachineFacts Ops.Multi.

Section Facts.
Context {A B : Type}.

Definition emits (o : list (obs B)) : list (ev B) :=
  flat_map (fun x => match x with OEmit e => [e] | _ => [] end) o.

Lemma emits_app (a b : list (obs B)) : emits (a ++ b) = emits a ++ emits b.
Proof. unfold emits. apply flat_map_app. Qed.

Definition all_next (l : list (ev B)) : Prop := Forall (fun e => is_terminal e = false) l.

Lemma all_next_wf l rest : all_next l -> wellformed (l ++ rest) = wellformed rest.
Proof.
  induction 1 as [|e t He Ht IH]; [reflexivity|].
  destruct e; cbn in *; try discriminate. exact IH.
Qed.

Lemma apply_cmds_emits (cs : list (cmd B)) : forall r, all_next (emits (snd (apply_cmds r cs))).
Proof.
  induction cs as [|c t IH]; intros r; cbn [apply_cmds]; [constructor|].
  destruct c; cbn.
  - specialize (IH r). destruct (apply_cmds r t) as [r2 o2]. cbn [snd emits flat_map app] in *.
    constructor; [reflexivity|exact IH].
  - match goal with |- context [apply_cmds ?r' t] => specialize (IH r'); destruct (apply_cmds r' t) end. exact IH.
  - destruct (mem k (r_live r));
    match goal with |- context [apply_cmds ?r' t] => specialize (IH r'); destruct (apply_cmds r' t) end; exact IH.
  - match goal with |- context [apply_cmds ?r' t] => specialize (IH r'); destruct (apply_cmds r' t) end. exact IH.
  - destruct (mem tag (r_timers r));
    match goal with |- context [apply_cmds ?r' t] => specialize (IH r'); destruct (apply_cmds r' t) end; exact IH.
  - specialize (IH r). destruct (apply_cmds r t). exact IH.
Qed.

Lemma apply_cmds_stopped (cs : list (cmd B)) : forall r,
  r_stopped (fst (apply_cmds r cs)) = r_stopped r.
Proof.
  induction cs as [|c t IH]; intros r; cbn [apply_cmds]; [reflexivity|].
  destruct c; cbn;
    try (destruct (mem _ _));
    match goal with |- context [apply_cmds ?r' t] => specialize (IH r'); destruct (apply_cmds r' t) end;
    cbn [fst] in *; rewrite IH; reflexivity.
Qed.

Lemma release_emits r : emits (snd (@release B r)) = [].
Proof.
  unfold release. cbn [snd]. rewrite emits_app.
  assert (H1 : forall l, emits (map (@OUnsub B) l) = []) by (induction l; auto).
  assert (H2 : forall l, emits (map (@OCancel B) l) = []) by (induction l; auto).
  now rewrite H1, H2.
Qed.

Lemma filter_noemit (o : list (obs B)) :
  emits (filter (fun o => match o with OEmit _ => false | _ => true end) o) = [].
Proof. induction o as [|x t IH]; [reflexivity|]. destruct x; cbn; auto. Qed.

Context (m : machine A B).

Lemma finish_shape r f :
  (f = Cont /\ @finish B r f = (r, []))
  \/ (exists t, is_terminal t = true /\ emits (snd (@finish B r f)) = [t]
               /\ fst (@finish B r f) = RState [] [] true).
Proof.
  destruct f; [left; auto| |]; right; unfold finish, release; cbn [fst snd].
  - exists Done. repeat split; auto. change (emits (OEmit Done :: ?l)) with (Done :: emits l).
    f_equal. apply (release_emits r).
  - exists (Err e). repeat split; auto. change (emits (OEmit (Err e) :: ?l)) with (Err e :: emits l).
    f_equal. apply (release_emits r).
Qed.

Definition released (r : rstate) : Prop := r = RState [] [] true.

(* what one boundary input can do *)
Inductive step_kind (r r' : rstate) (o : list (obs B)) : Prop :=
| SK_dropped : o = [] -> r' = r -> step_kind r r' o
| SK_cont : all_next (emits o) -> r_stopped r' = false -> step_kind r r' o
| SK_term : forall ns t, emits o = ns ++ [t] -> all_next ns -> is_terminal t = true ->
            released r' -> step_kind r r' o
| SK_disposed : emits o = [] -> released r' -> step_kind r r' o.

Lemma rstep_kind s r now i :
  step_kind r (snd (fst (rstep m s r now i))) (snd (rstep m s r now i)).
Proof.
  unfold rstep. destruct (r_stopped r) eqn:Hst; [apply SK_dropped; reflexivity|].
  assert (D : forall r0, r_stopped r0 = false ->
    step_kind r
      (snd (fst (let '(s', cs, f) := x_step m s now i in
                 let '(r1, o1) := apply_cmds r0 cs in
                 let '(r2, o2) := match i with
                                  | ISrc k e => if is_terminal e && mem k (r_live r1)
                                                then (RState (remove k (r_live r1)) (r_timers r1) (r_stopped r1), [OUnsub k])
                                                else (r1, [])
                                  | _ => (r1, [])
                                  end in
                 let '(r3, o3) := finish r2 f in (s', r3, o1 ++ o2 ++ o3))))
      (snd (let '(s', cs, f) := x_step m s now i in
            let '(r1, o1) := apply_cmds r0 cs in
            let '(r2, o2) := match i with
                             | ISrc k e => if is_terminal e && mem k (r_live r1)
                                           then (RState (remove k (r_live r1)) (r_timers r1) (r_stopped r1), [OUnsub k])
                                           else (r1, [])
                             | _ => (r1, [])
                             end in
            let '(r3, o3) := finish r2 f in (s', r3, o1 ++ o2 ++ o3)))).
  { intros r0 H0. destruct (x_step m s now i) as [[s' cs] f].
    pose proof (apply_cmds_emits cs r0) as He. pose proof (apply_cmds_stopped cs r0) as Hs.
    destruct (apply_cmds r0 cs) as [r1 o1]. cbn [fst snd] in *.
    set (X := match i with
              | ISrc k e => if is_terminal e && mem k (r_live r1)
                            then (RState (remove k (r_live r1)) (r_timers r1) (r_stopped r1), [OUnsub k])
                            else (r1, [])
              | _ => (r1, [])
              end).
    assert (HX : emits (snd X) = [] /\ r_stopped (fst X) = r_stopped r1).
    { subst X. destruct i as [k e| |]; cbn; auto. destruct (is_terminal e && mem k (r_live r1)); cbn; auto. }
    destruct X as [r2 o2]. cbn [fst snd] in HX. destruct HX as [HX1 HX2].
    destruct (finish_shape r2 f) as [[-> Hf]|[t [Ht [Hf1 Hf2]]]].
    - rewrite Hf. cbn [fst snd]. apply SK_cont.
      + rewrite !emits_app, HX1. cbn. now rewrite app_nil_r.
      + congruence.
    - destruct (finish r2 f) as [r3 o3]. cbn [fst snd] in *.
      apply SK_term with (ns := emits o1) (t := t); auto.
      rewrite !emits_app, HX1, Hf1. reflexivity. }
  destruct i as [k e|tag|].
  - destruct (mem k (r_live r)); [apply D; exact Hst|apply SK_dropped; reflexivity].
  - destruct (mem tag (r_timers r)); [apply D; cbn [r_stopped]; first [exact Hst|reflexivity]|apply SK_dropped; reflexivity].
  - destruct (x_step m s now IDispose) as [[s' cs] f].
    destruct (apply_cmds r cs) as [r1 o1]. cbn [fst snd].
    apply SK_disposed; [|reflexivity].
    unfold release. cbn [snd]. rewrite emits_app, filter_noemit. apply (release_emits r1).
Qed.

Lemma rstep_stopped s r now i : r_stopped r = true -> rstep m s r now i = (s, r, []).
Proof. intros H. unfold rstep. now rewrite H. Qed.

Lemma emitted_tag_app (k : nat) (o : list (obs B)) tr :
  emitted (map (fun x => (k, x)) o ++ tr) = emits o ++ emitted tr.
Proof.
  unfold emitted, emits. rewrite flat_map_app. f_equal.
  induction o as [|x t IH]; [reflexivity|]. cbn. rewrite IH. destruct x; reflexivity.
Qed.

Lemma run_from_stopped ins : forall s r k, r_stopped r = true ->
  run_from m s r k ins = ([], r).
Proof.
  induction ins as [|[now i] rest IH]; intros s r k H; [reflexivity|].
  cbn [run_from]. rewrite rstep_stopped by exact H. rewrite IH by exact H. reflexivity.
Qed.

Definition ended (l : list (ev B)) : bool := existsb is_terminal l.

Lemma all_next_not_ended l : all_next l -> ended l = false.
Proof. induction 1 as [|e t He Ht IH]; [reflexivity|]. cbn. now rewrite He. Qed.

(* C01 + C02 for the whole run, from any runner state *)
Theorem run_from_good ins : forall s r k,
  wellformed (emitted (fst (run_from m s r k ins))) = true
  /\ (ended (emitted (fst (run_from m s r k ins))) = true -> released (snd (run_from m s r k ins))).
Proof.
  induction ins as [|[now i] rest IH]; intros s r k; cbn [run_from].
  - cbn. split; [reflexivity|discriminate].
  - pose proof (rstep_kind s r now i) as K.
    destruct (rstep m s r now i) as [[s' r'] o]. cbn [fst snd] in K.
    specialize (IH s' r' (S k)).
    destruct (run_from m s' r' (S k) rest) as [tr rf] eqn:Hrun. cbn [fst snd] in *.
    rewrite emitted_tag_app.
    destruct K as [Ho Hr | Hn Hs | ns t He Hn Ht Hrel | He Hrel].
    + subst o. exact IH.
    + destruct IH as [IH1 IH2]. split.
      * rewrite all_next_wf by exact Hn. exact IH1.
      * unfold ended. rewrite existsb_app. fold (ended (emits o)) (ended (emitted tr)).
        rewrite (all_next_not_ended _ Hn). cbn [orb]. exact IH2.
    + rewrite Hrel in Hrun. rewrite run_from_stopped in Hrun by reflexivity.
      injection Hrun as <- <-. cbn [emitted flat_map]. rewrite app_nil_r, He. split.
      * rewrite all_next_wf by exact Hn. destruct t; [discriminate|reflexivity|reflexivity].
      * intros _. reflexivity.
    + rewrite Hrel in Hrun. rewrite run_from_stopped in Hrun by reflexivity.
      injection Hrun as <- <-. cbn [emitted flat_map]. rewrite app_nil_r, He. split; [reflexivity|discriminate].
Qed.

(* a stopped runner has released everything: invariant of reachable states *)
Definition rinv (r : rstate) : Prop := r_stopped r = true -> released r.

Lemma rstep_rinv s r now i : rinv r -> rinv (snd (fst (rstep m s r now i))).
Proof.
  intros Hr. pose proof (rstep_kind s r now i) as K.
  destruct (rstep m s r now i) as [[s' r'] o]. cbn [fst snd] in *.
  destruct K as [Ho Hr' | Hn Hs | ns t He Hn Ht Hrel | He Hrel]; unfold rinv.
  - subst r'. exact Hr.
  - congruence.
  - intros _. exact Hrel.
  - intros _. exact Hrel.
Qed.

Lemma run_from_rinv ins : forall s r k, rinv r -> rinv (snd (run_from m s r k ins)).
Proof.
  induction ins as [|[now i] rest IH]; intros s r k Hr; cbn [run_from]; [exact Hr|].
  pose proof (rstep_rinv s r now i Hr) as H1.
  destruct (rstep m s r now i) as [[s' r'] o]. cbn [fst snd] in H1.
  specialize (IH s' r' (S k) H1). destruct (run_from m s' r' (S k) rest). exact IH.
Qed.

(* C03: once the subscriber disposed, nothing at all is observed any more and
   everything is released, whatever the sources and timers do afterwards *)
Theorem run_from_after_dispose ins1 ins2 now : forall s r k, rinv r ->
  fst (run_from m s r k (ins1 ++ (now, IDispose) :: ins2))
  = fst (run_from m s r k (ins1 ++ [(now, IDispose)]))
  /\ released (snd (run_from m s r k (ins1 ++ (now, IDispose) :: ins2))).
Proof.
  induction ins1 as [|[n1 i1] rest IH]; intros s r k Hr.
  - cbn [app run_from].
    pose proof (rstep_kind s r now IDispose) as K.
    pose proof (rstep_rinv s r now IDispose Hr) as Hinv.
    destruct (rstep m s r now IDispose) as [[s' r'] o] eqn:Hstep. cbn [fst snd] in *.
    assert (Hst : r_stopped r' = true).
    { destruct K as [Ho Hr' | Hn Hs | ns t He Hn Ht Hrel | He Hrel].
      - (* dropped: only when already stopped *)
        unfold rstep in Hstep. destruct (r_stopped r) eqn:E.
        + injection Hstep as <- <- <-. exact E.
        + destruct (x_step m s now IDispose) as [[s2 cs] f]. destruct (apply_cmds r cs).
          injection Hstep as <- <- <-. reflexivity.
      - unfold rstep in Hstep. destruct (r_stopped r) eqn:E.
        + injection Hstep as <- <- <-. congruence.
        + destruct (x_step m s now IDispose) as [[s2 cs] f]. destruct (apply_cmds r cs).
          injection Hstep as <- <- <-. reflexivity.
      - rewrite Hrel. reflexivity.
      - rewrite Hrel. reflexivity. }
    rewrite !run_from_stopped by exact Hst. cbn [fst snd]. split; [reflexivity|]. apply Hinv, Hst.
  - cbn [app run_from].
    pose proof (rstep_rinv s r n1 i1 Hr) as H1.
    destruct (rstep m s r n1 i1) as [[s' r'] o]. cbn [fst snd] in H1.
    destruct (IH s' r' (S k) H1) as [IHa IHb].
    destruct (run_from m s' r' (S k) (rest ++ (now, IDispose) :: ins2)) as [tr rf].
    destruct (run_from m s' r' (S k) (rest ++ [(now, IDispose)])) as [tr2 rf2].
    cbn [fst snd] in *. subst tr2. split; [reflexivity|exact IHb].
Qed.

(* the whole run, from subscription *)
Theorem run_good ins :
  wellformed (emitted (fst (run m ins))) = true
  /\ (ended (emitted (fst (run m ins))) = true -> released (snd (run m ins))).
Proof.
  unfold run. destruct (x_start m) as [[s0 cs] f].
  pose proof (apply_cmds_emits cs (RState [] [] false)) as He.
  pose proof (apply_cmds_stopped cs (RState [] [] false)) as Hs.
  destruct (apply_cmds (RState [] [] false) cs) as [r1 o1]. cbn [fst snd] in *.
  destruct (finish_shape r1 f) as [[-> Hf]|[t [Ht [Hf1 Hf2]]]].
  - rewrite Hf. pose proof (run_from_good ins s0 r1 1) as G.
    destruct (run_from m s0 r1 1 ins) as [tr rf]. cbn [fst snd] in *.
    rewrite app_nil_r, emitted_tag_app. destruct G as [G1 G2]. split.
    + rewrite all_next_wf by exact He. exact G1.
    + unfold ended. rewrite existsb_app. fold (ended (emits o1)) (ended (emitted tr)).
      rewrite (all_next_not_ended _ He). exact G2.
  - destruct (finish r1 f) as [r2 o2]. cbn [fst snd] in *. subst r2.
    rewrite run_from_stopped by reflexivity. cbn [fst snd].
    rewrite app_nil_r. change (emitted (map (fun x => (0%nat, x)) (o1 ++ o2)))
      with (emitted (map (fun x => (0%nat, x)) (o1 ++ o2))).
    rewrite <- (app_nil_r (map _ (o1 ++ o2))), emitted_tag_app. cbn [emitted flat_map].
    rewrite app_nil_r, emits_app, Hf1. split.
    + rewrite all_next_wf by exact He. destruct t; [discriminate|reflexivity|reflexivity].
    + intros _. reflexivity.
Qed.
End Facts.
