(* Further facts about Core/SyncSources.v for C14 (repeat sources, filter stages):

   - [rep_loop_any]: the producer loop of repeat(of(v :: l)) (concat action + inner list loop) in
     front of ANY consumer that completes on the cyclic stream [cyc v l] -- no "value-blind"
     restriction (take_while, map before take over repeat_value are covered);
   - [lin_rep_any] and the multi-source shapes over a repeat source whose warm-up does not emit
     (merge with never() both orders, of(1).flat_map / switch_map, concat(source, of), amb both
     orders, source.with_latest_from(of), combine_latest(of, source)), for ANY such consumer;
   - source.take_until(of(1)) over repeat: the inner list loop is one trampoline action, so one
     whole round of the list is pulled before of(1)'s action completes the pipeline;
   - [stops_filter_iff]: a filter stage in front of any consumer, characterised by the consumer on
     the filtered stream. *)
From RxVerif Require Import Base.Prelude Core.SyncSources Core.SyncSourcesFacts Core.SyncShapes.

(* the element stream of repeat(of(v :: l)) *)
Definition cyc (v : Z) (l : list Z) (i : nat) : Z := nth (i mod length (v :: l)) (v :: l) v.

(* ---------- stops_at depends on the elements read only ---------- *)
Lemma stops_at_ext : forall C e1 e2 k s i j,
  (forall d, (d < k)%nat -> e1 (i + d)%nat = e2 (j + d)%nat) ->
  stops_at C e1 s i k -> stops_at C e2 s j k.
Proof.
  intros C e1 e2. induction k as [|k IH]; intros s i j E H; [exact H|].
  cbn [stops_at] in *. pose proof (E 0%nat ltac:(lia)) as E0. rewrite !Nat.add_0_r in E0. rewrite <- E0.
  destruct (c_step C s (e1 i)) as [[s' n] stop]. destruct stop; auto.
  eapply IH; [|exact H]. intros d Hd. replace (S i + d)%nat with (i + S d)%nat by lia.
  replace (S j + d)%nat with (j + S d)%nat by lia. apply E. lia.
Qed.

Section RepAny.
Variable gen : nat -> Z.
Variable N : net.
Variable C : cons.
Variable P : n_st N -> Prop.
Hypothesis emits : forall ns, P ns -> forall v, exists ns' ps,
  n_on N ns 0 (Next v) = (ns', unsubs ps ++ [NEmit v]) /\ ~ In 0%nat ps /\ P ns'.
Variable v0 : Z.
Variable l0 : list Z.

(* the stream still to come when [r] is the rest of the inner list *)
Definition rest_stream (r : list Z) (j : nat) : Z :=
  if (j <? length r)%nat then nth j r v0 else cyc v0 l0 (j - length r).

Lemma rest_stream_nil : forall j, rest_stream [] j = cyc v0 l0 j.
Proof. intros j. unfold rest_stream. cbn [length Nat.ltb Nat.leb]. rewrite Nat.sub_0_r. reflexivity. Qed.

Lemma rest_stream_full : forall j, rest_stream (v0 :: l0) j = cyc v0 l0 j.
Proof.
  intros j. unfold rest_stream, cyc. set (L := v0 :: l0). assert (HL : length L <> 0%nat) by (subst L; cbn; lia).
  destruct (j <? length L)%nat eqn:E.
  - apply Nat.ltb_lt in E. rewrite Nat.mod_small by exact E. reflexivity.
  - apply Nat.ltb_ge in E. f_equal.
    replace j with ((j - length L) + 1 * length L)%nat at 2 by lia.
    rewrite Nat.mod_add by exact HL. reflexivity.
Qed.

Lemma rest_stream_cons : forall v r j, rest_stream (v :: r) (S j) = rest_stream r j.
Proof.
  intros v r j. unfold rest_stream. cbn [length]. change (S j <? S (length r))%nat with (j <? length r)%nat.
  destruct (j <? length r)%nat; reflexivity.
Qed.

Lemma rep_loop_any : forall k r0 s ns live i p o f,
  P ns -> existsb (Nat.eqb 0) live = true -> stops_at C (rest_stream r0) s 0 k -> (3 * k + 3 <= f)%nat ->
  exists o', run gen (KRep (v0 :: l0)) N C f (St N C ns s false live [TList 0 r0 true] i p o)
             = Returned (p + k)%nat o' true.
Proof.
  induction k as [|k IH]; intros r0 s ns live i p o f HP HL H Hf; [destruct H|].
  assert (CONS : forall v r1 f1, stops_at C (rest_stream (v :: r1)) s 0 (S k) -> (3 * k + 4 <= f1)%nat ->
            exists o', run gen (KRep (v0 :: l0)) N C f1 (St N C ns s false live [TList 0 (v :: r1) true] i p o)
                       = Returned (p + S k)%nat o' true).
  { intros v r1 f1 H1 Hf1. cbn [stops_at] in H1.
    change (rest_stream (v :: r1) 0) with v in H1.
    destruct (c_step C s v) as [[s' n] stop] eqn:E.
    destruct (emits ns HP v) as (ns' & ps & En & Hps & HP').
    destruct (apply_unsubs N C (KRep (v0 :: l0)) ps [NEmit v] ns' s live [TList 0 r1 true] (S i) (S p) o Hps)
      as (live' & M & EA).
    destruct f1 as [|f1]; [lia|].
    assert (ST : step gen (KRep (v0 :: l0)) N C (St N C ns s false live [TList 0 (v :: r1) true] i p o) =
                 Some (apply (KRep (v0 :: l0)) N C [NEmit v] (St N C ns' s false live' [TList 0 r1 true] (S i) (S p) o))).
    { cbn [step s_q s_done s_live]. unfold memn. rewrite HL. unfold deliver, pulled, set_net, set_q.
      cbn [s_net s_cons s_done s_live s_q s_idx s_pulls s_out]. rewrite En. rewrite <- EA. reflexivity. }
    rewrite (run_step _ _ _ _ _ _ _ ST). clear ST EA.
    cbn [apply s_done apply1 s_net s_cons s_live s_q s_idx s_pulls s_out]. rewrite E.
    destruct stop.
    - subst k. eexists. cbn [apply]. rewrite run_done by (cbn; lia). f_equal. lia.
    - cbn [apply s_done].
      destruct (IH r1 s' ns' live' (S i) (S p) (o + n)%nat f1 HP') as (o' & R); auto.
      + unfold memn in M. congruence.
      + eapply stops_at_ext; [|exact H1]. intros d _. cbn [Nat.add]. apply rest_stream_cons.
      + lia.
      + exists o'. rewrite R. f_equal. lia. }
  destruct r0 as [|v r1].
  - (* the inner list is exhausted: schedule the concat action, which subscribes the list again *)
    destruct f as [|f]; [lia|]. erewrite run_step by (cbn -[Nat.eqb]; rewrite HL; reflexivity).
    destruct f as [|f]; [lia|]. erewrite run_step by (unfold set_q; cbn -[Nat.eqb]; rewrite HL; reflexivity).
    unfold set_q. cbn [s_net s_cons s_done s_live s_q s_idx s_pulls s_out app rep_list].
    apply CONS; [|lia]. eapply stops_at_ext; [|exact H]. intros d _. cbn [Nat.add].
    rewrite rest_stream_nil, rest_stream_full. reflexivity.
  - apply CONS; [exact H|lia].
Qed.

(* the concat action of repeat alone in the queue: the state every warm-up below reaches *)
Lemma rep_conc_any : forall k s ns live i p o f,
  P ns -> existsb (Nat.eqb 0) live = true -> stops_at C (cyc v0 l0) s 0 k -> (3 * k + 4 <= f)%nat ->
  exists o', run gen (KRep (v0 :: l0)) N C f (St N C ns s false live [TConc 0] i p o)
             = Returned (p + k)%nat o' true.
Proof.
  intros k s ns live i p o f HP HL H Hf.
  destruct f as [|f]; [lia|]. erewrite run_step by (cbn -[Nat.eqb]; rewrite HL; reflexivity).
  unfold set_q. cbn [s_net s_cons s_done s_live s_q s_idx s_pulls s_out app rep_list].
  apply rep_loop_any; auto; [|lia].
  eapply stops_at_ext; [|exact H]. intros d _. cbn [Nat.add]. symmetry. apply rest_stream_full.
Qed.
End RepAny.

(* ---------- pipelines over repeat(of(v :: l)) with ANY consumer ---------- *)
Ltac warm_rep :=
  repeat (lazymatch goal with
          | |- context [St _ _ _ _ _ _ [TConc 0] _ _ _] => fail
          | _ => one_step
          end).

Ltac loop_rep N C P kk :=
  eapply (rep_conc_any _ N C P) with (k := kk);
  [ | try exact I; try reflexivity | reflexivity | eassumption | cbn in *; lia ].

Section RepShapes.
Variable gen : nat -> Z.

(* linear pipelines (also what the model has for share()) *)
Theorem lin_rep_any : forall C v l k fuel,
  stops_at C (cyc v l) (c_init C) 0 k -> (3 * k + 5 <= fuel)%nat ->
  exists out, run_default gen (KRep (v :: l)) n_lin C fuel = Returned k out true.
Proof.
  intros C v l k fuel H Hf. start. loop_rep n_lin C (fun _ : unit => True) k.
  intros ns _ w. exists ns, []. cbn. destruct ns. auto.
Qed.

Theorem merge_rep_any : forall (b : bool) C v l k fuel,
  stops_at C (cyc v l) (c_init C) 0 k -> (3 * k + 8 <= fuel)%nat ->
  exists out, run_default gen (KRep (v :: l)) (n_merge (if b then [0; 1] else [1; 0])) C fuel = Returned k out true.
Proof.
  intros b C v l k fuel H Hf. destruct b; start; warm_rep.
  - loop_rep (n_merge [0; 1]) C (fun _ : mst => True) k. apply merge_emits.
  - loop_rep (n_merge [1; 0]) C (fun _ : mst => True) k. apply merge_emits.
Qed.

Theorem flat_outer_rep_any : forall C v l k fuel,
  stops_at C (cyc v l) (c_init C) 0 k -> (3 * k + 8 <= fuel)%nat ->
  exists out, run_default gen (KRep (v :: l)) n_flat_outer C fuel = Returned k out true.
Proof.
  intros C v l k fuel H Hf. start. warm_rep.
  loop_rep n_flat_outer C (fun _ : mst => True) k. apply flat_outer_emits.
Qed.

Theorem switch_outer_rep_any : forall C v l k fuel,
  stops_at C (cyc v l) (c_init C) 0 k -> (3 * k + 8 <= fuel)%nat ->
  exists out, run_default gen (KRep (v :: l)) n_switch_outer C fuel = Returned k out true.
Proof.
  intros C v l k fuel H Hf. start. warm_rep.
  loop_rep n_switch_outer C (fun ns : sst => w_latest ns = 1%nat) k. apply switch_outer_emits.
Qed.

Theorem concat_after_rep_any : forall C v l k fuel,
  stops_at C (cyc v l) (c_init C) 0 k -> (3 * k + 8 <= fuel)%nat ->
  exists out, run_default gen (KRep (v :: l)) (n_concat false) C fuel = Returned k out true.
Proof.
  intros C v l k fuel H Hf. start. warm_rep.
  loop_rep (n_concat false) C (fun _ : nat => True) k. apply concat_emits.
Qed.

Theorem amb_rep_any : forall (b : bool) C v l k fuel,
  stops_at C (cyc v l) (c_init C) 0 k -> (3 * k + 8 <= fuel)%nat ->
  exists out, run_default gen (KRep (v :: l)) (n_amb b) C fuel = Returned k out true.
Proof.
  intros b C v l k fuel H Hf. destruct b; start; warm_rep.
  - loop_rep (n_amb true) C (fun _ : bool => True) k. apply amb_emits.
  - loop_rep (n_amb false) C (fun _ : bool => True) k. apply amb_emits.
Qed.

Theorem wlf_main_rep_any : forall C v l k fuel,
  stops_at C (cyc v l) (c_init C) 0 k -> (3 * k + 8 <= fuel)%nat ->
  exists out, run_default gen (KRep (v :: l)) (n_wlf true) C fuel = Returned k out true.
Proof.
  intros C v l k fuel H Hf. start. warm_rep.
  loop_rep (n_wlf true) C (fun ns : bool => ns = true) k. apply wlf_emits.
Qed.

Theorem combine_of_s_rep_any : forall C v l k fuel,
  stops_at C (cyc v l) (c_init C) 0 k -> (3 * k + 8 <= fuel)%nat ->
  exists out, run_default gen (KRep (v :: l)) (n_combine false) C fuel = Returned k out true.
Proof.
  intros C v l k fuel H Hf. start. warm_rep.
  loop_rep (n_combine false) C (fun ns : cst => k_has1 ns = true) k. apply combine_emits.
Qed.

(* combine_latest(source, of(9)): the concat action of repeat only subscribes the inner list, so of(9)
   is delivered (and has completed) before the first element is pulled *)
Theorem combine_s_of_rep_any : forall C v l k fuel,
  stops_at C (cyc v l) (c_init C) 0 k -> (3 * k + 8 <= fuel)%nat ->
  exists out, run_default gen (KRep (v :: l)) (n_combine true) C fuel = Returned k out true.
Proof.
  intros C v l k fuel H Hf. start. do 3 one_step.
  eapply (rep_loop_any gen (n_combine true) C (fun ns : cst => k_has1 ns = true)) with (k := k).
  - apply combine_emits.
  - reflexivity.
  - reflexivity.
  - eapply stops_at_ext; [|exact H]. intros d _. cbn [Nat.add]. symmetry. apply rest_stream_full.
  - cbn in *; lia.
Qed.

(* source.take_until(of(1)) and of(1).with_latest_from(source): of(1)'s action runs right after the
   concat action of repeat, before any element is pulled *)
Theorem take_until_rep : forall C v l fuel, (4 <= fuel)%nat ->
  run_default gen (KRep (v :: l)) n_take_until C fuel = Returned 0 0 true.
Proof. intros C v l fuel Hf. start. do 2 one_step. rewrite run_done by (cbn in *; lia). reflexivity. Qed.

Theorem wlf_other_rep : forall C v l fuel, (5 <= fuel)%nat ->
  run_default gen (KRep (v :: l)) (n_wlf false) C fuel = Returned 0 0 true.
Proof. intros C v l fuel Hf. start. do 3 one_step. rewrite run_done by (cbn in *; lia). reflexivity. Qed.
End RepShapes.

(* ---------- instances: consumers that look at the values, over repeat ---------- *)
Lemma cyc_small : forall v l j, (j < length (v :: l))%nat -> cyc v l j = nth j (v :: l) v.
Proof. intros v l j H. unfold cyc. rewrite Nat.mod_small by exact H. reflexivity. Qed.

(* repeat(of(v :: l)).take_while(pr): completes at the first element of the list that fails pr *)
Theorem take_while_rep : forall gen pr incl v l k fuel,
  (k < length (v :: l))%nat ->
  (forall j, (j < k)%nat -> pr (nth j (v :: l) v) = true) -> pr (nth k (v :: l) v) = false ->
  (3 * k + 8 <= fuel)%nat ->
  exists out, run_default gen (KRep (v :: l)) n_lin (c_take_while pr incl) fuel = Returned (S k) out true.
Proof.
  intros gen pr incl v l k fuel Hk Ht Hf Hfuel. apply lin_rep_any; [|lia].
  apply take_while_stops; cbn [Nat.add].
  - intros j Hj. rewrite cyc_small by lia. auto.
  - rewrite cyc_small by lia. exact Hf.
Qed.

(* repeat(...).map(f).take(n+1) (also with take_while etc. behind the map: [stops_map]) *)
Theorem map_take_rep : forall gen f v l n fuel, (3 * n + 8 <= fuel)%nat ->
  exists out, run_default gen (KRep (v :: l)) n_lin (c_map f (c_take (S n))) fuel = Returned (S n) out true.
Proof. intros. apply lin_rep_any; [apply stops_map; apply take_stops|lia]. Qed.

(* repeat_value(v).map(f).take_while(pr): f sees the same value every time, so it completes at the
   first element or never -- with a stateless f.  (Stateful mappers are outside the consumer model.) *)
Theorem map_take_while_rep : forall gen f pr incl v l k fuel,
  (k < length (v :: l))%nat ->
  (forall j, (j < k)%nat -> pr (f (nth j (v :: l) v)) = true) -> pr (f (nth k (v :: l) v)) = false ->
  (3 * k + 8 <= fuel)%nat ->
  exists out, run_default gen (KRep (v :: l)) n_lin (c_map f (c_take_while pr incl)) fuel = Returned (S k) out true.
Proof.
  intros gen f pr incl v l k fuel Hk Ht Hf Hfuel. apply lin_rep_any; [|lia].
  apply stops_map. apply (take_while_stops (fun j => f (cyc v l j))); cbn [Nat.add].
  - intros j Hj. rewrite cyc_small by lia. auto.
  - rewrite cyc_small by lia. exact Hf.
Qed.

(* ---------- filter stages: any predicate ---------- *)
(* the filtered stream of the S n elements gen i .. gen (i + n) *)
Definition filtered (pr : Z -> bool) (gen : nat -> Z) (i n : nat) : list Z :=
  filter pr (map gen (seq i n)).
Definition lgen (l : list Z) (j : nat) : Z := nth j l 0.

Lemma filtered_last_nonempty : forall pr gen n i, pr (gen (i + n)%nat) = true -> filtered pr gen i (S n) <> [].
Proof.
  intros pr gen. induction n as [|n IH]; intros i H; unfold filtered in *; cbn [seq map filter].
  - rewrite Nat.add_0_r in H. rewrite H. discriminate.
  - destruct (pr (gen i)); [discriminate|]. apply (IH (S i)). replace (S i + n)%nat with (i + S n)%nat by lia. exact H.
Qed.

Lemma stops_filter_S : forall gen pr C k s i,
  stops_at (c_filter pr C) gen s i (S k) <->
  if pr (gen i)
  then (let '(s', m, stop) := c_step C s (gen i) in
        if stop then k = 0%nat else stops_at (c_filter pr C) gen s' (S i) k)
  else stops_at (c_filter pr C) gen s (S i) k.
Proof.
  intros. cbn [stops_at]. set (F := c_filter pr C) at 2 3 4.
  cbn [c_filter c_step]. destruct (pr (gen i)); [|tauto].
  destruct (c_step C s (gen i)) as [[s' m] stop]. tauto.
Qed.

(* source.filter(pr)...consumer pulls exactly S n elements  iff  the last of them passes pr and the
   consumer completes exactly at the last element of the filtered stream of those S n elements *)
Theorem stops_filter_iff : forall gen pr C n s i,
  stops_at (c_filter pr C) gen s i (S n) <->
  pr (gen (i + n)%nat) = true /\
  stops_at C (lgen (filtered pr gen i (S n))) s 0 (length (filtered pr gen i (S n))).
Proof.
  intros gen pr C. induction n as [|n IH]; intros s i.
  - unfold filtered. cbn [seq map filter stops_at c_filter c_step]. rewrite Nat.add_0_r.
    destruct (pr (gen i)) eqn:E.
    + cbn [length stops_at lgen nth]. destruct (c_step C s (gen i)) as [[s' m] stop].
      destruct stop; cbn [stops_at]; tauto.
    + cbn [length stops_at]. split; [intros []|intros [H _]; discriminate].
  - assert (U : filtered pr gen i (S (S n)) =
                if pr (gen i) then gen i :: filtered pr gen (S i) (S n) else filtered pr gen (S i) (S n)).
    { unfold filtered. cbn [seq map filter]. reflexivity. }
    rewrite U. clear U.
    replace (i + S n)%nat with (S i + n)%nat by lia.
    rewrite stops_filter_S. destruct (pr (gen i)) eqn:E.
    + destruct (c_step C s (gen i)) as [[s' m] stop] eqn:EC. cbn [length].
      set (fl := filtered pr gen (S i) (S n)).
      assert (R : stops_at C (lgen (gen i :: fl)) s 0 (S (length fl)) <->
                  if stop then length fl = 0%nat else stops_at C (lgen fl) s' 0 (length fl)).
      { cbn [stops_at]. change (lgen (gen i :: fl) 0) with (gen i). rewrite EC. destruct stop; [tauto|].
        split; apply stops_at_ext; intros d _; reflexivity. }
      rewrite R. clear R. destruct stop.
      * split; [intros H; discriminate|]. intros [Hp Hl]. exfalso.
        apply (filtered_last_nonempty pr gen n (S i) Hp). apply length_zero_iff_nil. exact Hl.
      * subst fl. apply IH.
    + apply IH.
Qed.

(* the direction used to discharge [stops_at] for the linear theorems *)
Corollary stops_filter_any : forall gen pr C n s i,
  pr (gen (i + n)%nat) = true ->
  stops_at C (lgen (filtered pr gen i (S n))) s 0 (length (filtered pr gen i (S n))) ->
  stops_at (c_filter pr C) gen s i (S n).
Proof. intros. apply stops_filter_iff. auto. Qed.
