From RxVerif Require Import Base.Prelude Base.PreludeFacts Ops.Slice.

Definition lastn {A} (k : nat) (l : list A) : list A := skipn (length l - k) l.

Lemma zlen_app {A} (l1 l2 : list A) : zlen (l1 ++ l2) = zlen l1 + zlen l2.
Proof. unfold zlen. rewrite app_length. lia. Qed.

Lemma lastn_length {A} k (l : list A) : length (lastn k l) = Nat.min k (length l).
Proof. unfold lastn. rewrite skipn_length. lia. Qed.

Lemma tl_skipn {A} (l : list A) : tl l = skipn 1 l.
Proof. destruct l; reflexivity. Qed.

Lemma skipn_skipn {A} (l : list A) : forall m n, skipn m (skipn n l) = skipn (m + n) l.
Proof.
  induction l as [|x t IH]; intros m n.
  - now rewrite !skipn_nil.
  - destruct n as [|n].
    + cbn [skipn]. now replace (m + 0)%nat with m by lia.
    + replace (m + S n)%nat with (S (m + n)) by lia. cbn [skipn]. apply IH.
Qed.

Lemma zlen_snoc {A} (q : list A) (x : A) : zlen (q ++ [x]) = Z.of_nat (length q) + 1.
Proof. unfold zlen. rewrite app_length. cbn [length]. lia. Qed.

Lemma skipn_snoc_full {A} (l : list A) (x : A) m :
  (m <= length l)%nat -> skipn m (l ++ [x]) = skipn m l ++ [x].
Proof.
  intros H. rewrite skipn_app. replace (m - length l)%nat with 0%nat by lia. reflexivity.
Qed.

Lemma take_last_push_lastn {A} (k : Z) (l : list A) (x : A) :
  0 <= k ->
  take_last_push k (lastn (Z.to_nat k) l) x = lastn (Z.to_nat k) (l ++ [x]).
Proof.
  intros Hk. unfold take_last_push. rewrite zlen_snoc, lastn_length.
  unfold lastn. rewrite app_length. cbn [length].
  destruct (Z.gtb_spec (Z.of_nat (Nat.min (Z.to_nat k) (length l)) + 1) k) as [H|H].
  - assert (Hl : (Z.to_nat k <= length l)%nat) by lia.
    rewrite tl_skipn.
    rewrite <- skipn_snoc_full by lia.
    rewrite skipn_skipn. f_equal. lia.
  - assert (Hl : (length l < Z.to_nat k)%nat) by lia.
    replace (length l - Z.to_nat k)%nat with 0%nat by lia.
    replace (length l + 1 - Z.to_nat k)%nat with 0%nat by lia.
    reflexivity.
Qed.

Lemma take_last_fold {A} (k : Z) (l l0 : list A) :
  0 <= k ->
  fold_left (take_last_push k) l (lastn (Z.to_nat k) l0) = lastn (Z.to_nat k) (l0 ++ l).
Proof.
  intros Hk. revert l0. induction l as [|x t IH]; intros l0; cbn [fold_left].
  - now rewrite app_nil_r.
  - rewrite take_last_push_lastn by assumption. rewrite IH.
    now rewrite <- app_assoc.
Qed.

Lemma take_last_spec {A} (k : Z) (l : list A) :
  0 <= k -> take_last k l = skipn (length l - Z.to_nat k) l.
Proof.
  intros Hk. unfold take_last.
  change (@nil A) with (lastn (Z.to_nat k) (@nil A)) at 1.
  rewrite take_last_fold by assumption. reflexivity.
Qed.

Lemma firstn_snoc_next {A} (l : list A) (x : A) :
  forall m, (m <= length l)%nat ->
  firstn m l ++ firstn 1 (skipn m l ++ [x]) = firstn (S m) (l ++ [x]).
Proof.
  induction l as [|y t IH]; intros m Hm.
  - cbn [length] in Hm. replace m with 0%nat by lia. reflexivity.
  - destruct m as [|m].
    + reflexivity.
    + cbn [length] in Hm. cbn [firstn skipn app]. f_equal. apply IH. lia.
Qed.

Lemma skip_last_step_inv {A} (k : Z) (l : list A) (x : A) :
  0 <= k ->
  skip_last_step k (lastn (Z.to_nat k) l, firstn (length l - Z.to_nat k) l) x
  = (lastn (Z.to_nat k) (l ++ [x]), firstn (length (l ++ [x]) - Z.to_nat k) (l ++ [x])).
Proof.
  intros Hk. unfold skip_last_step. rewrite zlen_snoc, lastn_length.
  unfold lastn. rewrite app_length. cbn [length].
  destruct (Z.gtb_spec (Z.of_nat (Nat.min (Z.to_nat k) (length l)) + 1) k) as [H|H].
  - assert (Hl : (Z.to_nat k <= length l)%nat) by lia.
    f_equal.
    + rewrite tl_skipn. rewrite <- skipn_snoc_full by lia.
      rewrite skipn_skipn. f_equal. lia.
    + replace (length l + 1 - Z.to_nat k)%nat with (S (length l - Z.to_nat k)) by lia.
      apply firstn_snoc_next. lia.
  - assert (Hl : (length l < Z.to_nat k)%nat) by lia.
    replace (length l - Z.to_nat k)%nat with 0%nat by lia.
    replace (length l + 1 - Z.to_nat k)%nat with 0%nat by lia.
    reflexivity.
Qed.

Lemma skip_last_fold {A} (k : Z) (l l0 : list A) :
  0 <= k ->
  fold_left (skip_last_step k) l (lastn (Z.to_nat k) l0, firstn (length l0 - Z.to_nat k) l0)
  = (lastn (Z.to_nat k) (l0 ++ l), firstn (length (l0 ++ l) - Z.to_nat k) (l0 ++ l)).
Proof.
  intros Hk. revert l0. induction l as [|x t IH]; intros l0; cbn [fold_left].
  - now rewrite app_nil_r.
  - rewrite skip_last_step_inv by assumption. rewrite IH. now rewrite <- app_assoc.
Qed.

Lemma skip_last_spec {A} (k : Z) (l : list A) :
  0 <= k -> skip_last k l = firstn (length l - Z.to_nat k) l.
Proof.
  intros Hk. unfold skip_last.
  change (@nil A, @nil A) with
    (lastn (Z.to_nat k) (@nil A), firstn (length (@nil A) - Z.to_nat k) (@nil A)).
  rewrite skip_last_fold by assumption. reflexivity.
Qed.

(* naturality: the positional operators commute with [map] *)
Lemma every_nth_from_map {A B} (f : A -> B) step (l : list A) :
  forall i, every_nth_from i step (map f l) = map f (every_nth_from i step l).
Proof.
  induction l as [|x t IH]; intros i; cbn [every_nth_from map]; [reflexivity|].
  destruct (i mod step =? 0); cbn [map]; now rewrite IH.
Qed.

Lemma tag_from_map_snd {A} (l : list (Z * A)) : forall i, map snd (tag_from i l) = map snd l.
Proof.
  induction l as [|[j x] t IH]; intros i; cbn [tag_from map snd]; [reflexivity|].
  now rewrite IH.
Qed.

Lemma tag_from_length {A} (l : list (Z * A)) : forall i, length (tag_from i l) = length l.
Proof.
  induction l as [|[j x] t IH]; intros i; cbn [tag_from length]; [reflexivity|].
  now rewrite IH.
Qed.

Lemma skipn_tag_from {A} (l : list (Z * A)) :
  forall m i, skipn m (tag_from i l) = tag_from (i + Z.of_nat m) (skipn m l).
Proof.
  induction l as [|[j x] t IH]; intros m i.
  - cbn [tag_from]. rewrite !skipn_nil. reflexivity.
  - destruct m as [|m].
    + cbn [skipn]. replace (i + Z.of_nat 0) with i by lia. reflexivity.
    + cbn [tag_from skipn]. rewrite IH. f_equal. lia.
Qed.

Lemma filter_tag_lt {A} (l : list (Z * A)) :
  forall i stop,
  map snd (filter (fun ix => fst ix <? stop) (tag_from i l))
  = firstn (Z.to_nat (stop - i)) (map snd l).
Proof.
  induction l as [|[j x] t IH]; intros i stop.
  - cbn. now rewrite firstn_nil.
  - cbn [tag_from filter fst map snd].
    destruct (Z.ltb_spec i stop) as [H|H].
    + cbn [map snd]. rewrite IH.
      replace (Z.to_nat (stop - i)) with (S (Z.to_nat (stop - (i + 1)))) by lia.
      reflexivity.
    + replace (Z.to_nat (stop - i)) with 0%nat by lia. cbn [firstn].
      (* nothing later passes either *)
      rewrite IH. replace (Z.to_nat (stop - (i + 1))) with 0%nat by lia. reflexivity.
Qed.

Lemma every_nth_1 {A} (l : list A) : every_nth 1 l = l.
Proof.
  unfold every_nth. generalize 0. induction l as [|x t IH]; intros i; cbn [every_nth_from].
  - reflexivity.
  - rewrite Z.mod_1_r. cbn. now rewrite IH.
Qed.

(* ---- segments: every branch of slice_ reduces to [firstn a (skipn b l)] ---- *)
Lemma firstn_clip {A} (l : list A) a : firstn a l = firstn (Nat.min a (length l)) l.
Proof.
  destruct (Nat.le_gt_cases a (length l)) as [H|H].
  - now rewrite Nat.min_l by assumption.
  - rewrite Nat.min_r by lia. rewrite firstn_all. apply firstn_all2. lia.
Qed.

Lemma skipn_clip {A} (l : list A) b : skipn b l = skipn (Nat.min b (length l)) l.
Proof.
  destruct (Nat.le_gt_cases b (length l)) as [H|H].
  - now rewrite Nat.min_l by assumption.
  - rewrite Nat.min_r by lia. rewrite skipn_all. apply skipn_all2. lia.
Qed.

Lemma seg_eq {A} (l : list A) a b a' b' :
  Nat.min b (length l) = Nat.min b' (length l) ->
  Nat.min a (length l - b) = Nat.min a' (length l - b') ->
  firstn a (skipn b l) = firstn a' (skipn b' l).
Proof.
  intros Hb Ha.
  rewrite (firstn_clip (skipn b l)), (firstn_clip (skipn b' l)).
  rewrite !skipn_length. rewrite Ha.
  rewrite (skipn_clip l b), (skipn_clip l b'). now rewrite Hb.
Qed.

Lemma seg_eq_l {A} (l : list A) a a' b' :
  Nat.min 0 (length l) = Nat.min b' (length l) ->
  Nat.min a (length l - 0) = Nat.min a' (length l - b') ->
  firstn a l = firstn a' (skipn b' l).
Proof. intros H1 H2. change (firstn a l) with (firstn a (skipn 0 l)). now apply seg_eq. Qed.

Lemma seg_nil {A} (x y : list A) a a' : a = 0%nat -> a' = 0%nat -> firstn a x = firstn a' y.
Proof. intros -> ->. reflexivity. Qed.

Definition seg {A} (a b : nat) (l : list A) := firstn a (skipn b l).

Definition run_tagged {A} (plan : list pop) (tl : list (Z * A)) : list (Z * A) :=
  fold_left (fun acc p => run_pop p acc) plan tl.

Lemma run_plan_tagged {A} plan (l : list A) :
  run_plan plan l = map snd (run_tagged plan (map (fun x => (0, x)) l)).
Proof. reflexivity. Qed.

Lemma run_tagged_cons {A} p plan (tl : list (Z * A)) :
  run_tagged (p :: plan) tl = run_tagged plan (run_pop p tl).
Proof. reflexivity. Qed.

Lemma map_snd_tag0 {A} (l : list A) : map snd (map (fun x => (0, x)) l) = l.
Proof. rewrite map_map. cbn. apply map_id. Qed.

Section PopFacts.
Context {A : Type}.
Implicit Types (tl : list (Z * A)).

Lemma pop_take tl n : map snd (run_pop (PTake n) tl) = firstn (Z.to_nat n) (map snd tl).
Proof. cbn. now rewrite ztake_firstn, firstn_map. Qed.

Lemma pop_skip tl n : map snd (run_pop (PSkip n) tl) = skipn (Z.to_nat n) (map snd tl).
Proof. cbn. now rewrite zskip_skipn, skipn_map. Qed.

Lemma pop_take_last tl n : 0 <= n ->
  map snd (run_pop (PTakeLast n) tl) = skipn (length (map snd tl) - Z.to_nat n) (map snd tl).
Proof. intros H. cbn. rewrite take_last_spec by assumption. now rewrite skipn_map, map_length. Qed.

Lemma pop_skip_last tl n : 0 <= n ->
  map snd (run_pop (PSkipLast n) tl) = firstn (length (map snd tl) - Z.to_nat n) (map snd tl).
Proof. intros H. cbn. rewrite skip_last_spec by assumption. now rewrite firstn_map, map_length. Qed.

Lemma pop_every_nth tl n : map snd (run_pop (PEveryNth n) tl) = every_nth n (map snd tl).
Proof. cbn. unfold every_nth. now rewrite every_nth_from_map. Qed.

(* the tagged path of a negative start with a non-negative stop *)
Lemma pop_tagged_tail tl k stop : 0 <= k ->
  map snd (run_tagged [PTagIndex; PTakeLast k; PFilterTagLt stop; PUntag] tl)
  = firstn (Z.to_nat (stop - Z.of_nat (length tl - Z.to_nat k)))
           (skipn (length tl - Z.to_nat k) (map snd tl)).
Proof.
  intros Hk. unfold run_tagged. cbn [fold_left].
  cbn [run_pop]. rewrite map_map. cbn [snd].
  change (map (fun x : Z * A => snd x)) with (@map (Z * A) A snd).
  rewrite take_last_spec by assumption. rewrite tag_from_length.
  rewrite skipn_tag_from. rewrite filter_tag_lt. rewrite skipn_map.
  reflexivity.
Qed.
End PopFacts.
