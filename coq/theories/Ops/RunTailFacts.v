(* C02/C03, trace-level corollaries of the runner facts (Ops/MultiFacts.v):
   * the terminal notification is the last thing the trace says, except for
     the unsubscribes / timer cancellations of the SAME step (tag) that follow
     it: "released at that instant", read off the observable trace;
   * the dispose theorem for whole runs ([run], from subscription). *)
From RxVerif Require Import Base.Prelude Ops.Machine Ops.MachineFacts Ops.Multi Ops.MultiFacts.

Section Tail.
Context {A B : Type}.

(* an observation that is not a terminal notification *)
Definition nt (o : obs B) : bool :=
  match o with OEmit e => negb (is_terminal e) | _ => true end.
(* a release observation: an unsubscribe or a timer cancellation *)
Definition relo (o : obs B) : Prop := exists j, o = OUnsub j \/ o = OCancel j.
(* what may follow the terminal: releases carrying the terminal's tag *)
Definition release_tail (k : nat) (post : list (nat * obs B)) : Prop :=
  Forall (fun x => fst x = k /\ relo (snd x)) post.
Definition closed_tr (tr : list (nat * obs B)) : Prop :=
  forall pre k t post, tr = pre ++ (k, OEmit t) :: post -> is_terminal t = true ->
    release_tail k post.

Definition ntt (x : nat * obs B) : bool := nt (snd x).

Lemma relo_nt o : relo o -> nt o = true.
Proof. intros [j [->| ->]]; reflexivity. Qed.

Lemma split_skip (l1 : list (nat * obs B)) : forall l2 pre x post,
  forallb ntt l1 = true -> ntt x = false -> l1 ++ l2 = pre ++ x :: post ->
  exists pre', pre = l1 ++ pre' /\ l2 = pre' ++ x :: post.
Proof.
  induction l1 as [|y t IH]; intros l2 pre x post H1 Hx E.
  - exists pre. auto.
  - cbn [forallb] in H1. apply andb_true_iff in H1. destruct H1 as [Hy Ht].
    destruct pre as [|p pre]; cbn [app] in E.
    + injection E as -> _. congruence.
    + injection E as <- E. destruct (IH _ _ _ _ Ht Hx E) as [pre' [-> ->]].
      exists pre'. auto.
Qed.

Lemma split_unique (a : list (nat * obs B)) x0 rel pre x post :
  forallb ntt a = true -> forallb ntt rel = true -> ntt x = false ->
  a ++ x0 :: rel = pre ++ x :: post -> pre = a /\ x = x0 /\ post = rel.
Proof.
  intros Ha Hrel Hx E. destruct (split_skip a _ _ _ _ Ha Hx E) as [pre' [-> E2]].
  destruct pre' as [|p pre']; cbn [app] in E2.
  - injection E2 as -> ->. now rewrite app_nil_r.
  - injection E2 as _ E2. exfalso.
    assert (H : forallb ntt (pre' ++ x :: post) = true) by (rewrite <- E2; exact Hrel).
    rewrite forallb_app in H. cbn [forallb] in H. rewrite Hx in H.
    rewrite andb_false_r in H. discriminate.
Qed.

Lemma ntt_map k (o : list (obs B)) : forallb ntt (map (fun x => (k, x)) o) = forallb nt o.
Proof. induction o as [|x t IH]; [reflexivity|]. cbn. now rewrite IH. Qed.

(* shape of what one step (or the subscribe step) appends to the trace *)
Inductive step_shape (r' : rstate) (o : list (obs B)) : Prop :=
| SS_nt : forallb nt o = true -> step_shape r' o
| SS_term : forall a t rel, o = a ++ OEmit t :: rel -> forallb nt a = true ->
    is_terminal t = true -> Forall relo rel -> r_stopped r' = true -> step_shape r' o.

Lemma closed_nil : closed_tr [].
Proof. intros pre k t post E. destruct pre; discriminate. Qed.

Lemma closed_step k o tr r' :
  step_shape r' o -> (r_stopped r' = true -> tr = []) -> closed_tr tr ->
  closed_tr (map (fun x => (k, x)) o ++ tr).
Proof.
  intros [Hn | a t rel -> Ha Ht Hrel Hst] Hstop Hc pre k' t' post E Ht'.
  - destruct (split_skip _ _ _ _ _ (eq_trans (ntt_map k o) Hn)
               (f_equal negb Ht' : ntt (k', OEmit t') = false) E) as [pre' [-> E2]].
    exact (Hc _ _ _ _ E2 Ht').
  - rewrite (Hstop Hst), app_nil_r, map_app in E. cbn [map] in E.
    assert (Hr : forallb ntt (map (fun x => (k, x)) rel) = true).
    { rewrite ntt_map. apply forallb_forall. intros x Hx.
      apply relo_nt. rewrite Forall_forall in Hrel. auto. }
    destruct (split_unique _ _ _ _ _ _ (eq_trans (ntt_map k a) Ha) Hr
                (f_equal negb Ht' : ntt (k', OEmit t') = false) E) as [_ [Hx ->]].
    injection Hx as -> _. unfold release_tail. apply Forall_forall.
    intros x Hx. apply in_map_iff in Hx. destruct Hx as [y [<- Hy]].
    rewrite Forall_forall in Hrel. cbn [fst snd]. auto.
Qed.

Lemma apply_cmds_nt (cs : list (cmd B)) : forall r, forallb nt (snd (apply_cmds r cs)) = true.
Proof.
  induction cs as [|c t IH]; intros r; cbn [apply_cmds]; [reflexivity|].
  destruct c; cbn;
    try (destruct (mem _ _));
    match goal with |- context [apply_cmds ?r' t] => specialize (IH r'); destruct (apply_cmds r' t) end;
    cbn [snd fst app forallb nt andb] in *; exact IH.
Qed.

Lemma release_relo r : Forall relo (snd (@release B r)).
Proof.
  unfold release. cbn [snd]. apply Forall_app. split; apply Forall_forall; intros x Hx;
    apply in_map_iff in Hx; destruct Hx as [j [<- _]]; exists j; auto.
Qed.

Lemma finish_shape2 r f :
  (f = Cont /\ @finish B r f = (r, []))
  \/ (exists t rel, is_terminal t = true /\ snd (@finish B r f) = OEmit t :: rel
                    /\ Forall relo rel /\ fst (@finish B r f) = RState [] [] true).
Proof.
  destruct f; [left; auto| |]; right; unfold finish.
  - exists Done, (snd (@release B r)). pose proof (release_relo r). unfold release in *. cbn [fst snd] in *. auto.
  - exists (Err e), (snd (@release B r)). pose proof (release_relo r). unfold release in *. cbn [fst snd] in *. auto.
Qed.

Lemma filter_noemit_nt (o : list (obs B)) :
  forallb nt (filter (fun o => match o with OEmit _ => false | _ => true end) o) = true.
Proof. induction o as [|x t IH]; [reflexivity|]. destruct x; cbn; auto. Qed.

Context (m : machine A B).

Lemma rstep_shape s r now i :
  step_shape (snd (fst (rstep m s r now i))) (snd (rstep m s r now i)).
Proof.
  unfold rstep. destruct (r_stopped r) eqn:Hst; [apply SS_nt; reflexivity|].
  assert (D : forall r0,
    step_shape
      (snd (fst (let '(s', cs, f) := x_step m s now i in
                 let '(r1, o1) := apply_cmds r0 cs in
                 let '(r2, o2) := match i with
                                  | ISrc k e => if is_terminal e && mem k (r_live r1)
                                                then (RState (remove k (r_live r1)) (r_timers r1) (r_stopped r1), [OUnsub k])
                                                else (r1, [])
                                  | _ => (r1, [])
                                  end in
                 let '(r3, o3) := finish r2 f in (s', r3, o1 ++ o2 ++ o3))))
      (snd (let '(s', cs, f) := x_step m s now i in
            let '(r1, o1) := apply_cmds r0 cs in
            let '(r2, o2) := match i with
                             | ISrc k e => if is_terminal e && mem k (r_live r1)
                                           then (RState (remove k (r_live r1)) (r_timers r1) (r_stopped r1), [OUnsub k])
                                           else (r1, [])
                             | _ => (r1, [])
                             end in
            let '(r3, o3) := finish r2 f in (s', r3, o1 ++ o2 ++ o3)))).
  { intros r0. destruct (x_step m s now i) as [[s' cs] f].
    pose proof (apply_cmds_nt cs r0) as He.
    destruct (apply_cmds r0 cs) as [r1 o1]. cbn [fst snd] in *.
    set (X := match i with
              | ISrc k e => if is_terminal e && mem k (r_live r1)
                            then (RState (remove k (r_live r1)) (r_timers r1) (r_stopped r1), [OUnsub k])
                            else (r1, [])
              | _ => (r1, [])
              end).
    assert (HX : forallb nt (snd X) = true).
    { subst X. destruct i as [k e| |]; cbn; auto. destruct (is_terminal e && mem k (r_live r1)); cbn; auto. }
    destruct X as [r2 o2]. cbn [fst snd] in HX.
    destruct (finish_shape2 r2 f) as [[-> Hf]|[t [rel [Ht [Hf1 [Hrel Hf2]]]]]].
    - rewrite Hf. cbn [fst snd]. apply SS_nt. rewrite app_nil_r, forallb_app, He, HX. reflexivity.
    - destruct (finish r2 f) as [r3 o3]. cbn [fst snd] in *. subst o3 r3.
      apply SS_term with (a := o1 ++ o2) (t := t) (rel := rel); auto.
      + now rewrite app_assoc.
      + rewrite forallb_app, He, HX. reflexivity. }
  destruct i as [k e|tag|].
  - destruct (mem k (r_live r)); [apply D|apply SS_nt; reflexivity].
  - destruct (mem tag (r_timers r)); [apply D|apply SS_nt; reflexivity].
  - destruct (x_step m s now IDispose) as [[s' cs] f].
    destruct (apply_cmds r cs) as [r1 o1]. cbn [fst snd].
    apply SS_nt. unfold release. cbn [snd]. rewrite forallb_app, filter_noemit_nt. cbn [andb].
    apply forallb_forall. intros x Hx. apply relo_nt.
    pose proof (release_relo r1) as H. unfold release in H. cbn [snd] in H.
    rewrite Forall_forall in H. auto.
Qed.

Lemma run_from_closed ins : forall s r k, closed_tr (fst (run_from m s r k ins)).
Proof.
  induction ins as [|[now i] rest IH]; intros s r k; cbn [run_from]; [apply closed_nil|].
  pose proof (rstep_shape s r now i) as K.
  destruct (rstep m s r now i) as [[s' r'] o]. cbn [fst snd] in K.
  specialize (IH s' r' (S k)).
  pose proof (run_from_stopped m rest s' r' (S k)) as Hs.
  destruct (run_from m s' r' (S k) rest) as [tr rf]. cbn [fst snd] in *.
  apply closed_step with (r' := r'); auto.
  intros H. specialize (Hs H). now injection Hs.
Qed.

(* C02: whatever follows a terminal notification in the trace of a run is an
   unsubscribe or a timer cancellation of the SAME step *)
Theorem run_closed ins : closed_tr (fst (run m ins)).
Proof.
  unfold run. destruct (x_start m) as [[s0 cs] f].
  pose proof (apply_cmds_nt cs (RState [] [] false)) as He.
  destruct (apply_cmds (RState [] [] false) cs) as [r1 o1]. cbn [fst snd] in *.
  pose proof (finish_shape2 r1 f) as F.
  destruct (finish r1 f) as [r2 o2]. cbn [fst snd] in F.
  pose proof (run_from_closed ins s0 r2 1) as C.
  pose proof (run_from_stopped m ins s0 r2 1) as Hs.
  destruct (run_from m s0 r2 1 ins) as [tr rf]. cbn [fst snd] in *.
  apply closed_step with (r' := r2); auto.
  - destruct F as [[-> Hf]|[t [rel [Ht [Hf1 [Hrel Hf2]]]]]].
    + injection Hf as -> ->. apply SS_nt. now rewrite app_nil_r.
    + subst o2 r2. apply SS_term with (a := o1) (t := t) (rel := rel); auto.
  - intros H. specialize (Hs H). now injection Hs.
Qed.

(* no trace entry carries a later tag than the terminal notification *)
Lemma run_from_tags_ge ins : forall s r k x, In x (fst (run_from m s r k ins)) -> (k <= fst x)%nat.
Proof.
  induction ins as [|[now i] rest IH]; intros s r k x; cbn [run_from]; [intros []|].
  destruct (rstep m s r now i) as [[s' r'] o].
  specialize (IH s' r' (S k) x). destruct (run_from m s' r' (S k) rest) as [tr rf]. cbn [fst] in *.
  intros H. apply in_app_or in H. destruct H as [H|H].
  - apply in_map_iff in H. destruct H as [y [<- _]]. cbn. lia.
  - specialize (IH H). lia.
Qed.

Lemma run_from_sorted ins : forall s r k pre x post,
  fst (run_from m s r k ins) = pre ++ x :: post -> Forall (fun y => (fst y <= fst x)%nat) pre.
Proof.
  induction ins as [|[now i] rest IH]; intros s r k pre x post; cbn [run_from].
  - intros E. destruct pre; discriminate.
  - destruct (rstep m s r now i) as [[s' r'] o].
    specialize (IH s' r' (S k)). pose proof (run_from_tags_ge rest s' r' (S k)) as G.
    destruct (run_from m s' r' (S k) rest) as [tr rf]. cbn [fst] in *.
    intros E. apply Forall_forall. intros y Hy.
    assert (Hx : In x (map (fun z => (k, z)) o ++ tr)) by (rewrite E; apply in_elt).
    (* position of y relative to the first block *)
    revert pre E Hy. induction o as [|z o IHo]; intros pre E Hy; cbn [map app] in *.
    + specialize (IH _ _ _ E). rewrite Forall_forall in IH. auto.
    + destruct pre as [|p pre]; [destruct Hy|]. cbn [app] in E. injection E as <- E.
      destruct Hy as [<-|Hy].
      * cbn [fst]. assert (Hx' : In x (map (fun z => (k, z)) o ++ tr)) by (rewrite E; apply in_elt).
        apply in_app_or in Hx'. destruct Hx' as [H|H].
        -- apply in_map_iff in H. destruct H as [w [<- _]]. cbn. lia.
        -- specialize (G _ H). lia.
      * apply IHo with (pre := pre); auto. rewrite E. apply in_elt.
Qed.

Theorem run_nothing_later ins k t k' o :
  In (k, OEmit t) (fst (run m ins)) -> is_terminal t = true ->
  In (k', o) (fst (run m ins)) -> (k' <= k)%nat.
Proof.
  intros H1 Ht H2. apply in_split in H1. destruct H1 as [pre [post E]].
  pose proof (run_closed ins pre k t post E Ht) as C.
  (* tags are sorted along the trace *)
  assert (S : Forall (fun y => (fst y <= k)%nat) pre).
  { revert E. unfold run. destruct (x_start m) as [[s0 cs] f].
    destruct (apply_cmds (RState [] [] false) cs) as [r1 o1].
    destruct (finish r1 f) as [r2 o2].
    pose proof (run_from_sorted ins s0 r2 1) as RS. pose proof (run_from_tags_ge ins s0 r2 1) as G.
    destruct (run_from m s0 r2 1 ins) as [tr rf]. cbn [fst] in *.
    generalize (o1 ++ o2). intros l. revert pre. induction l as [|z l IHl]; intros pre E; cbn [map app] in E.
    - exact (RS _ _ _ E).
    - destruct pre as [|p pre]; [constructor|]. cbn [app] in E. injection E as <- E.
      constructor; [cbn; lia|]. exact (IHl _ E). }
  rewrite E in H2. apply in_app_or in H2. destruct H2 as [H2|[H2|H2]].
  - rewrite Forall_forall in S. exact (S _ H2).
  - injection H2 as <- _. lia.
  - unfold release_tail in C. rewrite Forall_forall in C. destruct (C _ H2) as [<- _]. cbn. lia.
Qed.

(* C03 for whole runs *)
Lemma start_rinv : forall s0 cs f, x_start m = (s0, cs, f) ->
  rinv (fst (@finish B (fst (apply_cmds (RState [] [] false) cs)) f)).
Proof.
  intros s0 cs f _. pose proof (apply_cmds_stopped (B := B) cs (RState [] [] false)) as Hs.
  destruct (apply_cmds (RState [] [] false) cs) as [r1 o1]. cbn [fst snd r_stopped] in *.
  destruct (@finish_shape B r1 f) as [[-> Hf]|[t [_ [_ Hf2]]]]; unfold rinv.
  - rewrite Hf. cbn [fst]. congruence.
  - intros _. exact Hf2.
Qed.

Theorem run_after_dispose ins1 ins2 now :
  fst (run m (ins1 ++ (now, IDispose) :: ins2)) = fst (run m (ins1 ++ [(now, IDispose)]))
  /\ released (snd (run m (ins1 ++ (now, IDispose) :: ins2))).
Proof.
  unfold run. destruct (x_start m) as [[s0 cs] f] eqn:E.
  pose proof (start_rinv s0 cs f E) as R.
  destruct (apply_cmds (RState [] [] false) cs) as [r1 o1]. cbn [fst] in R.
  destruct (finish r1 f) as [r2 o2]. cbn [fst] in R.
  destruct (run_from_after_dispose m ins1 ins2 now s0 r2 1 R) as [H1 H2].
  destruct (run_from m s0 r2 1 (ins1 ++ (now, IDispose) :: ins2)) as [tr rf].
  destruct (run_from m s0 r2 1 (ins1 ++ [(now, IDispose)])) as [tr2 rf2].
  cbn [fst snd] in *. subst tr2. split; [reflexivity|exact H2].
Qed.
End Tail.
