(* C05 catalogue: the element-wise operators of reactivex/operators as Mealy
   machines, one definition per operator, following the code line by line
   (file named above each).  Callbacks return [res]: [Raise e] models a user
   function raising exception e. *)
From RxVerif Require Import Base.Prelude Ops.Machine.

Section Ops.
Context {A B : Type}.

Definition passthrough_err {X} : X -> Z -> list B * fin := fun _ e => ([], Fail e).
Definition passthrough_done {X} : X -> list B * fin := fun _ => ([], Complete).

(* _map.py: map_ *)
Definition op_map (f : A -> res B) : mealy A B :=
  Mealy tt ([], Cont)
    (fun s x => match f x with Ok b => (s, [b], Cont) | Raise e => (s, [], Fail e) end)
    passthrough_err passthrough_done.

(* _map.py: map_indexed_ : index kept per subscription *)
Definition op_map_indexed (f : A -> nat -> res B) : mealy A B :=
  Mealy 0%nat ([], Cont)
    (fun i x => match f x i with Ok b => (S i, [b], Cont) | Raise e => (i, [], Fail e) end)
    passthrough_err passthrough_done.
End Ops.

Section OpsA.
Context {A : Type}.
Notation perr := (@passthrough_err A A).
Notation pdone := (@passthrough_done A A).

(* _filter.py: filter_ *)
Definition op_filter (p : A -> res bool) : mealy A A :=
  Mealy tt ([], Cont)
    (fun s x => match p x with
                | Ok true => (s, [x], Cont) | Ok false => (s, [], Cont)
                | Raise e => (s, [], Fail e) end)
    (passthrough_err (X:=unit)) (passthrough_done (X:=unit)).

(* _filter.py: filter_indexed_ (count advances only when the predicate returned) *)
Definition op_filter_indexed (p : A -> nat -> res bool) : mealy A A :=
  Mealy 0%nat ([], Cont)
    (fun i x => match p x i with
                | Ok true => (S i, [x], Cont) | Ok false => (S i, [], Cont)
                | Raise e => (i, [], Fail e) end)
    (passthrough_err (X:=nat)) (passthrough_done (X:=nat)).

(* _take.py: take_ ; count < 0 raises when the operator is built (not modelled
   here: [take_ok]); count = 0 returns empty() and never subscribes *)
Definition take_ok (count : Z) : bool := 0 <=? count.
Definition op_take (count : Z) : mealy A A :=
  Mealy count (if count =? 0 then ([], Complete) else ([], Cont))
    (fun remaining x =>
       if remaining >? 0 then
         let r := remaining - 1 in
         (r, [x], if r =? 0 then Complete else Cont)
       else (remaining, [], Cont))
    (passthrough_err (X:=Z)) (passthrough_done (X:=Z)).

(* _skip.py: skip_ *)
Definition op_skip (count : Z) : mealy A A :=
  Mealy count ([], Cont)
    (fun remaining x => if remaining <=? 0 then (remaining, [x], Cont)
                        else (remaining - 1, [], Cont))
    (passthrough_err (X:=Z)) (passthrough_done (X:=Z)).

(* _takewhile.py: take_while_ *)
Definition op_take_while (p : A -> res bool) (inclusive : bool) : mealy A A :=
  Mealy true ([], Cont)
    (fun running x =>
       if negb running then (running, [], Cont)
       else match p x with
            | Raise e => (running, [], Fail e)
            | Ok true => (true, [x], Cont)
            | Ok false => (false, if inclusive then [x] else [], Complete)
            end)
    (passthrough_err (X:=bool)) (passthrough_done (X:=bool)).

(* _takewhile.py: take_while_indexed_ *)
Definition op_take_while_indexed (p : A -> nat -> res bool) (inclusive : bool) : mealy A A :=
  Mealy (true, 0%nat) ([], Cont)
    (fun '(running, i) x =>
       if negb running then ((running, i), [], Cont)
       else match p x i with
            | Raise e => ((running, i), [], Fail e)
            | Ok true => ((true, S i), [x], Cont)
            | Ok false => ((false, S i), if inclusive then [x] else [], Complete)
            end)
    (passthrough_err (X:=bool*nat)) (passthrough_done (X:=bool*nat)).

(* _skipwhile.py: skip_while_ *)
Definition op_skip_while (p : A -> res bool) : mealy A A :=
  Mealy false ([], Cont)
    (fun running x =>
       if running then (running, [x], Cont)
       else match p x with
            | Raise e => (running, [], Fail e)
            | Ok true => (false, [], Cont)
            | Ok false => (true, [x], Cont)
            end)
    (passthrough_err (X:=bool)) (passthrough_done (X:=bool)).

(* _distinct.py: distinct_ with key mapper and comparer (HashSet = list scan).
   The comparer is called as comparer(a, item) for stored a, in insertion
   order, stopping at the first match. *)
Section Distinct.
Context {K : Type}.
Fixpoint hs_find (cmp : K -> K -> res bool) (set : list K) (item : K) : res bool :=
  match set with
  | [] => Ok false
  | a :: t => match cmp a item with
              | Raise e => Raise e
              | Ok true => Ok true
              | Ok false => hs_find cmp t item
              end
  end.
Definition op_distinct (key : A -> res K) (cmp : K -> K -> res bool) : mealy A A :=
  Mealy ([] : list K) ([], Cont)
    (fun set x =>
       match key x with
       | Raise e => (set, [], Fail e)
       | Ok k => match hs_find cmp set k with
                 | Raise e => (set, [], Fail e)
                 | Ok true => (set, [], Cont)
                 | Ok false => (set ++ [k], [x], Cont)
                 end
       end)
    (passthrough_err (X:=list K)) (passthrough_done (X:=list K)).

(* _distinctuntilchanged.py *)
Definition op_distinct_until_changed (key : A -> res K) (cmp : K -> K -> res bool) : mealy A A :=
  Mealy (None : option K) ([], Cont)
    (fun cur x =>
       match key x with
       | Raise e => (cur, [], Fail e)
       | Ok k =>
           match cur with
           | None => (Some k, [x], Cont)
           | Some c => match cmp c k with
                       | Raise e => (cur, [], Fail e)
                       | Ok true => (cur, [], Cont)
                       | Ok false => (Some k, [x], Cont)
                       end
           end
       end)
    (passthrough_err (X:=option K)) (passthrough_done (X:=option K)).
End Distinct.

(* _pairwise.py *)
Definition op_pairwise : mealy A (A * A) :=
  Mealy (None : option A) ([], Cont)
    (fun prev x => match prev with
                   | None => (Some x, [], Cont)
                   | Some p => (Some x, [(p, x)], Cont)
                   end)
    (fun _ e => ([], Fail e)) (fun _ => ([], Complete)).

(* _startswith.py: concat(from_iterable(args), source): the arguments are
   emitted inside subscribe(), then the source is mirrored *)
Definition op_start_with (args : list A) : mealy A A :=
  Mealy tt (args, Cont) (fun s x => (s, [x], Cont))
    (passthrough_err (X:=unit)) (passthrough_done (X:=unit)).

(* _defaultifempty.py *)
Definition op_default_if_empty (d : A) : mealy A A :=
  Mealy false ([], Cont) (fun _ x => (true, [x], Cont))
    (passthrough_err (X:=bool))
    (fun found => (if found then [] else [d], Complete)).

(* _ignoreelements.py *)
Definition op_ignore_elements : mealy A A :=
  Mealy tt ([], Cont) (fun s _ => (s, [], Cont))
    (passthrough_err (X:=unit)) (passthrough_done (X:=unit)).

(* _takelast.py *)
Definition q_push (count : Z) (q : list A) (x : A) : list A :=
  let q' := q ++ [x] in if zlen q' >? count then tl q' else q'.
Definition op_take_last (count : Z) : mealy A A :=
  Mealy ([] : list A) ([], Cont) (fun q x => (q_push count q x, [], Cont))
    (passthrough_err (X:=list A)) (fun q => (q, Complete)).

(* _skiplast.py (after the fix: the front element is emitted whatever its value) *)
Definition op_skip_last (count : Z) : mealy A A :=
  Mealy ([] : list A) ([], Cont)
    (fun q x => let q' := q ++ [x] in
                if zlen q' >? count then (tl q', firstn 1 q', Cont) else (q', [], Cont))
    (passthrough_err (X:=list A)) (passthrough_done (X:=list A)).

(* _takelastbuffer.py *)
Definition op_take_last_buffer (count : Z) : mealy A (list A) :=
  Mealy ([] : list A) ([], Cont) (fun q x => (q_push count q x, [], Cont))
    (fun _ e => ([], Fail e)) (fun q => ([q], Complete)).

(* _elementatordefault.py; index < 0 raises at build time.  [exn_range] is the
   interned ArgumentOutOfRangeException *)
Definition op_element_at (index : Z) (default : option A) (exn_range : Z) : mealy A A :=
  Mealy index ([], Cont)
    (fun i x => if i =? 0 then (i, [x], Complete) else (i - 1, [], Cont))
    (passthrough_err (X:=Z))
    (fun _ => match default with None => ([], Fail exn_range) | Some d => ([d], Complete) end).

(* _find.py: find_value_ with yield_index = false (find) / true (find_index).
   The output type is a sum so that both variants share one machine. *)
Definition op_find (p : A -> nat -> res bool) (yield_index : bool) : mealy A (option A + Z) :=
  Mealy 0%nat ([], Cont)
    (fun i x => match p x i with
                | Raise e => (i, [], Fail e)
                | Ok true => (i, [if yield_index then inr (Z.of_nat i) else inl (Some x)], Complete)
                | Ok false => (S i, [], Cont)
                end)
    (fun _ e => ([], Fail e))
    (fun _ => ([if yield_index then inr (-1) else inl None], Complete)).

(* _materialize.py *)
Definition op_materialize : mealy A (ev A) :=
  Mealy tt ([], Cont) (fun s x => (s, [Next x], Cont))
    (fun _ e => ([Err e], Complete)) (fun _ => ([Done], Complete)).

(* _dematerialize.py: value.accept(observer) *)
Definition op_dematerialize : mealy (ev A) A :=
  Mealy tt ([], Cont)
    (fun s n => match n with
                | Next x => (s, [x], Cont)
                | Err e => (s, [], Fail e)
                | Done => (s, [], Complete)
                end)
    (passthrough_err (X:=unit)) (passthrough_done (X:=unit)).
End OpsA.

(* _skipwhile.py: skip_while_indexed_ = map_indexed(indexer) ; skip_while(skipper) ; map(mapper) *)
Definition op_skip_while_indexed {A} (p : A -> nat -> res bool) : mealy A A :=
  compose (compose (op_map_indexed (fun x i => Ok (x, i)))
                   (op_skip_while (fun xi : A * nat => p (fst xi) (snd xi))))
          (op_map (fun xi : A * nat => Ok (fst xi))).
