(* C15/C16: helper lemmas for machines driven by observables a mapper makes (no timers): one
   simulator step by the outcome of the handler, and vocabulary for multi-port timelines. *)
From RxVerif Require Import Base.Prelude Ops.Machine Ops.Multi Ops.MultiFacts Ops.Timed Ops.TimedSim
  Ops.TimedFacts Ops.TimedSubFacts.

(* ---- multi-port timelines: (instant, port, notification) ---- *)
Section PortTimelines.
Context {A : Type}.
Notation tin := (Z * nat * ev A)%type.

(* number of notifications of port 0 (the source) *)
Definition count0 (l : list tin) : nat := length (filter (fun i => Nat.eqb (snd (fst i)) 0) l).
(* port k does not notify in l *)
Definition port_silent (k : nat) (l : list tin) : Prop := forall t e, ~ In (t, k, e) l.
(* an on_next or an on_completed *)
Definition fires (e : ev A) : Prop := match e with Err _ => False | _ => True end.

Lemma port_silent_nil k : port_silent k [].
Proof. intros ? ? []. Qed.
Lemma port_silent_cons k i l : snd (fst i) <> k -> port_silent k l -> port_silent k (i :: l).
Proof. intros H1 H2 t e [E|E]; [apply H1; rewrite E; reflexivity|exact (H2 t e E)]. Qed.
Lemma count0_cons0 t e l : count0 ((t, 0%nat, e) :: l) = S (count0 l).
Proof. reflexivity. Qed.
Lemma count0_consS t k e l : count0 ((t, S k, e) :: l) = count0 l.
Proof. reflexivity. Qed.
End PortTimelines.

(* ---- one simulator step of a machine that uses no timers, by the outcome of the handler ---- *)
Section PortSteps.
Context {A B : Type} (m : machine A B).

Definition detach (k : nat) (e : ev A) (r : rstate) : rstate :=
  if is_terminal e && mem k (r_live r) then RState (remove k (r_live r)) (r_timers r) (r_stopped r) else r.

Definition fin_ev (f : fin) : list (ev B) :=
  match f with Cont => [] | Complete => [Done] | Fail c => [Err c] end.

Lemma upd_no_timers_r (p : pend) t (o : list (obs B)) r : r_timers r = [] -> upd p t o r = [].
Proof. intros H. unfold upd. rewrite H. apply filter_false. Qed.

(* a port that is not subscribed (never was, detached after its terminal, unsubscribed) is not heard *)
Lemma sim_port_dead f s live t k e ext : mem k live = false ->
  sim_emits (sim m (S f) s (RState live [] false) [] ((t, ISrc k e) :: ext))
  = sim_emits (sim m f s (RState live [] false) [] ext).
Proof.
  intros H. rewrite sim_S. cbn [next_event earliest]. unfold rstep. cbn [r_stopped r_live]. rewrite H.
  rewrite sim_emits_cons. cbn [emits flat_map map app]. rewrite upd_no_timers_r by reflexivity. reflexivity.
Qed.

Lemma sim_port_cont f s live t k e ext s' cs r1 o1 : mem k live = true ->
  x_step m s t (ISrc k e) = (s', cs, Cont) -> apply_cmds (RState live [] false) cs = (r1, o1) ->
  r_timers r1 = [] ->
  sim_emits (sim m (S f) s (RState live [] false) [] ((t, ISrc k e) :: ext))
  = map (fun n => (t, n)) (emits o1) ++ sim_emits (sim m f s' (detach k e r1) [] ext).
Proof.
  intros H Hs Ha Ht. rewrite sim_S. cbn [next_event earliest]. unfold rstep. cbn [r_stopped r_live]. rewrite H, Hs, Ha.
  unfold detach. destruct (is_terminal e && mem k (r_live r1)); cbn [finish];
    rewrite sim_emits_cons, upd_no_timers_r by (cbn [r_timers]; exact Ht);
    rewrite !emits_app; cbn [emits flat_map app]; rewrite app_nil_r; reflexivity.
Qed.

Lemma sim_port_end f s live t k e ext s' cs r1 o1 fn : mem k live = true ->
  x_step m s t (ISrc k e) = (s', cs, fn) -> fn <> Cont -> apply_cmds (RState live [] false) cs = (r1, o1) ->
  sim_emits (sim m (S f) s (RState live [] false) [] ((t, ISrc k e) :: ext))
  = map (fun n => (t, n)) (emits o1 ++ fin_ev fn).
Proof.
  intros H Hs Hn Ha. rewrite sim_S. cbn [next_event earliest]. unfold rstep. cbn [r_stopped r_live]. rewrite H, Hs, Ha.
  set (d := if is_terminal e && mem k (r_live r1) then _ else _). destruct d as [r2 o2] eqn:Ed.
  assert (Eo2 : emits o2 = []).
  { subst d. destruct (is_terminal e && mem k (r_live r1)); injection Ed as <- <-; reflexivity. }
  destruct fn as [| |c]; [contradiction| |]; cbn [finish release fin_ev];
    rewrite sim_emits_cons, sim_stopped by reflexivity;
    rewrite app_nil_r; f_equal; rewrite emits_app; f_equal; rewrite emits_app, Eo2; cbn [app];
    pose proof (@release_emits B r2) as Hr; cbn [release snd] in Hr;
    [exact (f_equal (cons Done) Hr)|exact (f_equal (cons (Err c)) Hr)].
Qed.
End PortSteps.
