(* C40, second part: effect balance of using (created / released for EVERY
   outcome of the two factories), effects that never occur, effects that occur
   exactly at a terminal notification (and not at dispose), and the closed form
   of do_action with ARBITRARY (raising) callbacks on a conforming source. *)
From RxVerif Require Import Base.Prelude Ops.Machine Ops.MachineFacts Ops.Multi Ops.MultiFacts Ops.Using
  Ops.Elementwise Ops.RaiseFacts Ops.Lift Ops.UsingFacts.
Require Import Lia.
Local Open Scope nat_scope.

(* ------------------------------------------------------------------------ *)
(* N1: an effect code that no handler issues (from states satisfying P) occurs
   in the trace exactly as often as subscribe() issued it                      *)
Section Never.
Context {A B : Type} (m : machine A B) (n : Z) (P : x_state m -> Prop).

Definition never_steps : Prop := forall s now i, P s ->
  cnt_cmd n (snd (fst (x_step m s now i))) = 0 /\ P (fst (fst (x_step m s now i))).

Hypothesis H : never_steps.

Lemma deliver_never s r0 now (i : inp A) (X : rstate -> rstate * list (obs B)) :
  (forall r1, cnt_obs n (snd (X r1)) = 0) -> P s ->
  let res := (let '(s', cs, f) := x_step m s now i in
              let '(r1, o1) := apply_cmds r0 cs in
              let '(r2, o2) := X r1 in
              let '(r3, o3) := finish r2 f in (s', r3, o1 ++ o2 ++ o3)) in
  cnt_obs n (snd res) = 0 /\ P (fst (fst res)).
Proof.
  intros HX HP. cbv zeta. destruct (H s now i HP) as [Hc Hi].
  destruct (x_step m s now i) as [[s' cs] f]. cbn [fst snd] in *.
  pose proof (apply_cmds_cnt n cs r0) as H1. destruct (apply_cmds r0 cs) as [r1 o1]. cbn [fst snd] in *.
  pose proof (HX r1) as H3. destruct (X r1) as [r2 o2]. cbn [fst snd] in *.
  pose proof (finish_cnt (B := B) n r2 f) as H5. destruct (finish r2 f) as [r3 o3]. cbn [fst snd] in *.
  rewrite !cnt_obs_app, H1, H3, H5, Hc. auto.
Qed.

Lemma rstep_never s r now i : P s ->
  cnt_obs n (snd (rstep m s r now i)) = 0 /\ P (fst (fst (rstep m s r now i))).
Proof.
  intros HP. unfold rstep. destruct (r_stopped r); [cbn; auto|].
  destruct i as [k e|tag|].
  - destruct (mem k (r_live r)); [|cbn; auto].
    apply (deliver_never s r now (ISrc k e)
             (fun r1 => if is_terminal e && mem k (r_live r1)
                        then (RState (remove k (r_live r1)) (r_timers r1) (r_stopped r1), [OUnsub k])
                        else (r1, []))); auto.
    intros r1. destruct (is_terminal e && mem k (r_live r1)); reflexivity.
  - destruct (mem tag (r_timers r)); [|cbn; auto].
    apply (deliver_never s _ now (ITick tag) (fun r1 => (r1, []))); auto.
  - destruct (H s now IDispose HP) as [Hc Hi].
    destruct (x_step m s now IDispose) as [[s' cs] f]. cbn [fst snd] in *.
    pose proof (apply_cmds_cnt n cs r) as H1. destruct (apply_cmds r cs) as [r1 o1]. cbn [fst snd] in *.
    pose proof (release_cnt (B := B) n r1) as H2. destruct (release r1) as [r2 o2]. cbn [fst snd] in *.
    rewrite cnt_obs_app, filter_noemit_cnt, H1, Hc, H2. auto.
Qed.

Lemma run_from_never ins : forall s r k, P s -> cnt_tr n (fst (run_from m s r k ins)) = 0.
Proof.
  induction ins as [|[now i] rest IH]; intros s r k HP; cbn [run_from]; [reflexivity|].
  destruct (rstep_never s r now i HP) as [K1 K2].
  destruct (rstep m s r now i) as [[s' r'] o]. cbn [fst snd] in *.
  specialize (IH s' r' (S k) K2). destruct (run_from m s' r' (S k) rest) as [tr rf]. cbn [fst] in *.
  now rewrite cnt_tr_app, cnt_tr_tag, K1, IH.
Qed.

Theorem run_never ins : P (fst (fst (x_start m))) ->
  cnt_tr n (fst (run m ins)) = cnt_cmd n (snd (fst (x_start m))).
Proof.
  intros HP. unfold run. destruct (x_start m) as [[s0 cs] f]. cbn [fst snd] in *.
  pose proof (apply_cmds_cnt n cs (RState [] [] false)) as H1.
  destruct (apply_cmds (RState [] [] false) cs) as [r1 o1]. cbn [fst snd] in *.
  pose proof (finish_cnt (B := B) n r1 f) as H5. destruct (finish r1 f) as [r2 o2]. cbn [fst snd] in *.
  pose proof (run_from_never ins s0 r2 1 HP) as G. destruct (run_from m s0 r2 1 ins) as [tr rf]. cbn [fst] in *.
  rewrite cnt_tr_app, cnt_tr_tag, cnt_obs_app, H1, H5, G. lia.
Qed.

(* ... also when the source already notifies inside its subscribe() *)
Lemma only_effects_cnt (cs : list (cmd B)) : cnt_cmd n (only_effects cs) = cnt_cmd n cs.
Proof.
  unfold cnt_cmd, only_effects. induction cs as [|c t IH]; [reflexivity|].
  destruct c; cbn [filter is_ceff]; try exact IH. destruct (Z.eqb n0 n); cbn [length]; congruence.
Qed.

Lemma feed_dead_never pre : forall s, P s ->
  cnt_cmd n (snd (feed_dead m s pre)) = 0 /\ P (fst (feed_dead m s pre)).
Proof.
  induction pre as [|e t IH]; intros s HP; cbn [feed_dead]; [auto|].
  destruct (H s 0%Z (ISrc 0 e) HP) as [Hc Hi].
  destruct (x_step m s 0%Z (ISrc 0 e)) as [[s' cs] f]. cbn [fst snd] in *.
  destruct (is_terminal e); cbn [fst snd]; [rewrite only_effects_cnt; auto|].
  destruct (IH s' Hi) as [I1 I2]. destruct (feed_dead m s' t) as [s'' cs']. cbn [fst snd] in *.
  rewrite cnt_cmd_app, only_effects_cnt, Hc, I1. auto.
Qed.

Lemma feed_pre_never pre : forall s, P s ->
  cnt_cmd n (snd (fst (feed_pre m s pre))) = 0 /\ P (fst (fst (feed_pre m s pre))).
Proof.
  induction pre as [|e t IH]; intros s HP; cbn [feed_pre]; [auto|].
  destruct (H s 0%Z (ISrc 0 e) HP) as [Hc Hi].
  destruct (x_step m s 0%Z (ISrc 0 e)) as [[s' cs] f]. cbn [fst snd] in *.
  assert (D : is_terminal e = false ->
     cnt_cmd n (snd (fst (let '(s'', cs') := feed_dead m s' t in (s'', cs ++ cs', f)))) = 0 /\
     P (fst (fst (let '(s'', cs') := feed_dead m s' t in (s'', cs ++ cs', f))))).
  { intros _. destruct (feed_dead_never t s' Hi) as [I1 I2]. destruct (feed_dead m s' t) as [s'' cs'].
    cbn [fst snd] in *. rewrite cnt_cmd_app, Hc, I1. auto. }
  destruct f; destruct (is_terminal e) eqn:Ht; cbn [fst snd]; auto.
  - rewrite cnt_cmd_app, Hc. auto.
  - destruct (IH s' Hi) as [I1 I2]. destruct (feed_pre m s' t) as [[s'' cs'] f']. cbn [fst snd] in *.
    rewrite cnt_cmd_app, Hc, I1. auto.
Qed.

End Never.

Theorem run_never_with_pre {A B} (m : machine A B) n (P : x_state m -> Prop) pre ins :
  never_steps m n P -> P (fst (fst (x_start m))) ->
  cnt_tr n (fst (run (with_pre m pre) ins)) = cnt_cmd n (snd (fst (x_start m))).
Proof.
  intros H HP.
  assert (K : P (fst (fst (x_start (with_pre m pre)))) /\
              cnt_cmd n (snd (fst (x_start (with_pre m pre)))) = cnt_cmd n (snd (fst (x_start m)))).
  { cbn [with_pre x_start]. destruct (x_start m) as [[s0 cs0] f0]. cbn [fst snd] in *.
    destruct (live f0 && subscribes0 cs0); cbn [fst snd]; [|auto].
    destruct (feed_pre_never m n P H pre s0 HP) as [I1 I2]. destruct (feed_pre m s0 pre) as [[s1 cs1] f1].
    cbn [fst snd] in *. rewrite cnt_cmd_app, I1. auto. }
  destruct K as [K1 K2]. rewrite <- K2.
  exact (run_never (with_pre m pre) n P H ins K1).
Qed.

(* ------------------------------------------------------------------------ *)
(* using: the effect balance for every outcome of the two factories          *)
Lemma using_never_created rf obf sched : never_steps (x_using rf obf sched) E_CREATED (fun _ => True).
Proof.
  intros [has pend] now i _. split; [|exact I].
  destruct i as [k [x|e|]|tag|]; destruct has; try destruct pend; reflexivity.
Qed.

Lemma using_never_released_without_resource rf obf sched :
  never_steps (x_using rf obf sched) E_RELEASED (fun s => fst s = false).
Proof.
  intros [has pend] now i HP. cbn in HP. subst has.
  destruct i as [k [x|e|]|tag|]; try destruct pend; split; reflexivity.
Qed.

Definition has_resource (rf : res bool) : bool := match rf with Ok true => true | _ => false end.

Lemma using_start_created rf obf sched :
  cnt_cmd E_CREATED (snd (fst (x_start (x_using rf obf sched)))) = if has_resource rf then 1 else 0.
Proof. destruct rf as [[|]|e]; destruct obf as [[]|e']; destruct sched; reflexivity. Qed.

Lemma using_start_no_resource rf obf sched : has_resource rf = false ->
  fst (fst (fst (x_start (x_using rf obf sched)))) = false /\
  cnt_cmd E_RELEASED (snd (fst (x_start (x_using rf obf sched)))) = 0.
Proof. destruct rf as [[|]|e]; [discriminate| |]; intros _; destruct obf as [[]|e']; destruct sched; split; reflexivity. Qed.

Theorem using_effect_balance rf obf sched pre ins :
  let tr := fst (run (with_pre (x_using rf obf sched) pre) ins) in
  cnt_tr E_CREATED tr = (if has_resource rf then 1 else 0) /\
  cnt_tr E_RELEASED tr = (if has_resource rf then if ended (emitted tr) || has_dispose ins then 1 else 0 else 0).
Proof.
  cbv zeta. split.
  - rewrite (run_never_with_pre _ _ _ pre ins (using_never_created rf obf sched) I). apply using_start_created.
  - destruct (has_resource rf) eqn:Hr.
    + destruct rf as [[|]|e]; try discriminate.
      exact (once_observable _ _ _ (once_with_pre _ _ _ pre (using_once obf sched) (using_calm _ _ _)) ins).
    + destruct (using_start_no_resource rf obf sched Hr) as [H1 H2].
      rewrite (run_never_with_pre _ _ _ pre ins (using_never_released_without_resource rf obf sched) H1).
      exact H2.
Qed.

(* a factory raises and no scheduler was passed: the subscriber receives exactly
   on_error(that exception), inside subscribe(), whatever happens afterwards *)
Definition using_failure (rf : res bool) (obf : res unit) : option Z :=
  match rf with
  | Raise e => Some e
  | Ok _ => match obf with Raise e => Some e | Ok _ => None end
  end.

Theorem using_factory_failure_emits rf obf e pre ins : using_failure rf obf = Some e ->
  temitted (fst (run (with_pre (x_using rf obf false) pre) ins)) = [(0, Err e)].
Proof.
  intros Hf.
  assert (E : x_start (with_pre (x_using rf obf false) pre) = x_start (x_using rf obf false)
              /\ exists s cs, x_start (x_using rf obf false) = (s, cs, Fail e)
                              /\ forall r, emits (snd (apply_cmds (B := Z) r cs)) = []).
  { destruct rf as [has|e1]; [destruct obf as [[]|e2]; [discriminate|]|]; cbn in Hf; inversion Hf; subst.
    - split; [reflexivity|]. destruct has; eexists; eexists; (split; [reflexivity|]); intros r; reflexivity.
    - split; [reflexivity|]. eexists; eexists; (split; [reflexivity|]); intros r; reflexivity. }
  destruct E as [E1 [s [cs [E2 E3]]]].
  unfold run. rewrite E1, E2.
  specialize (E3 (RState [] [] false)).
  destruct (apply_cmds (RState [] [] false) cs) as [r1 o1]. cbn [snd] in E3.
  unfold finish, release. rewrite run_from_stopped by reflexivity. cbn [fst]. rewrite app_nil_r.
  rewrite temitted_tag, emits_app, E3. cbn [app].
  change (emits (OEmit (Err e) :: ?l)) with (Err e :: emits l).
  pose proof (release_emits (B := Z) r1) as R. unfold release in R. cbn [snd] in R. rewrite R. reflexivity.
Qed.

(* ------------------------------------------------------------------------ *)
(* do_action with ARBITRARY callbacks on a conforming source: closed form      *)
Definition tapo (fn : option (Z -> res unit)) (x : Z) : res Z :=
  match fn with None => Ok x | Some f => tapf f x end.
(* the error the subscriber gets when the source fails with e *)
Definition do_err_out (fe : option (Z -> res unit)) (e : Z) : Z :=
  match fe with Some f => match f e with Ok _ => e | Raise e' => e' end | None => e end.
Definition do_done_out (fd : option (res unit)) : fin :=
  match fd with Some (Raise e) => Fail e | _ => Complete end.
(* how the source's termination is seen downstream *)
Definition do_term (fe : option (Z -> res unit)) (fd : option (res unit)) (t : term) : term :=
  match t with
  | TErr e => TErr (do_err_out fe e)
  | TDone => match fd with Some (Raise e) => TErr e | _ => TDone end
  | TNever => TNever
  end.

Definition op_do (fn fe : option (Z -> res unit)) (fd : option (res unit)) : mealy Z Z :=
  Mealy tt ([], Cont)
    (fun s x => match tapo fn x with Ok b => (s, [b], Cont) | Raise e => (s, [], Fail e) end)
    (fun _ e => ([], Fail (do_err_out fe e)))
    (fun _ => ([], do_done_out fd)).

Lemma do_action_sim_op fn fe fd : sim (x_do_action fn fe fd) (lift (op_do fn fe fd)) (fun _ _ => True).
Proof.
  constructor; [reflexivity|reflexivity|exact I|].
  intros s1 s2 now i _. destruct i as [k [x|e|]|tag|]; cbn; auto.
  - destruct fn as [f|]; cbn; auto. unfold tapf. destruct (f x) as [[]|e]; cbn; auto.
  - unfold do_err_out. destruct fe as [f|]; cbn; auto. destruct (f e) as [[]|e']; cbn; auto.
  - destruct fd as [[[]|e]|]; cbn; auto.
Qed.

Lemma op_do_from fn fe fd xs t s k :
  exec_from (op_do fn fe fd) s k (events xs t)
  = nexts (fst (until_raise (tapo fn) k xs))
    ++ close (k + length xs) (do_term fe fd t) (snd (until_raise (tapo fn) k xs)).
Proof.
  revert k; induction xs as [|x r IH]; intros k.
  - destruct t; cbn; rewrite ?Nat.add_0_r; try reflexivity. destruct fd as [[[]|e]|]; reflexivity.
  - rewrite events_cons, exec_from_cons. cbn -[exec_from]. destruct (tapo fn x) as [b|e]; cbn -[exec_from].
    + rewrite IH. destruct (until_raise (tapo fn) (S k) r) as [o e']. cbn [fst snd].
      rewrite <- plus_n_Sm. reflexivity.
    + reflexivity.
Qed.

Theorem do_action_closed_form fn fe fd xs t :
  temitted (fst (run (x_do_action fn fe fd) (feed0 (events xs t))))
  = nexts (fst (until_raise (tapo fn) 1 xs))
    ++ close (S (length xs)) (do_term fe fd t) (snd (until_raise (tapo fn) 1 xs)).
Proof.
  rewrite (sim_temitted _ _ _ (do_action_sim_op fn fe fd)), lift_exec.
  unfold exec. cbn -[exec_from]. apply op_do_from.
Qed.

Lemma until_raise_calm fn : calm1 fn -> forall xs k, until_raise (tapo fn) k xs = (indexed k xs, None).
Proof.
  intros Hc. induction xs as [|x r IH]; intros k; cbn [until_raise indexed]; [reflexivity|].
  assert (E : tapo fn x = Ok x).
  { unfold tapo, tapf. destruct fn as [f|]; [|reflexivity]. now rewrite (Hc f x eq_refl). }
  rewrite E, IH. reflexivity.
Qed.

(* an exception raised by the on_error callback REPLACES the source's error *)
Theorem do_error_callback_replaces fn fe fd xs e e' : calm1 fn -> fe e = Raise e' ->
  temitted (fst (run (x_do_action fn (Some fe) fd) (feed0 (events xs (TErr e)))))
  = nexts (indexed 1 xs) ++ [(S (length xs), Err e')].
Proof.
  intros Hc Hf. rewrite do_action_closed_form, (until_raise_calm fn Hc). cbn [fst snd close do_term tterm].
  unfold do_err_out. now rewrite Hf.
Qed.

(* an exception raised by the on_completed callback turns completion into on_error *)
Theorem do_completed_callback_replaces fn fe xs e : calm1 fn ->
  temitted (fst (run (x_do_action fn fe (Some (Raise e))) (feed0 (events xs TDone))))
  = nexts (indexed 1 xs) ++ [(S (length xs), Err e)].
Proof.
  intros Hc. rewrite do_action_closed_form, (until_raise_calm fn Hc). reflexivity.
Qed.

(* do_on_terminate whose callback raises: either termination becomes on_error(its exception) *)
Lemma do_on_terminate_sim_op f :
  sim (x_do_on_terminate f)
      (lift (op_do None (match f with Ok _ => None | Raise e => Some (fun _ => Raise e) end)
                        (match f with Ok _ => None | Raise e => Some (Raise e) end)))
      (fun _ _ => True).
Proof.
  constructor; [reflexivity|reflexivity|exact I|].
  intros s1 s2 now i _. destruct i as [k [x|e|]|tag|]; destruct f as [[]|e0]; cbn; auto.
Qed.

Theorem do_on_terminate_closed_form f xs t :
  temitted (fst (run (x_do_on_terminate f) (feed0 (events xs t))))
  = nexts (indexed 1 xs)
    ++ tterm (S (length xs)) (match f, t with
                              | Raise e, TErr _ | Raise e, TDone => TErr e
                              | _, _ => t
                              end).
Proof.
  rewrite (sim_temitted _ _ _ (do_on_terminate_sim_op f)), lift_exec.
  unfold exec. cbn -[exec_from]. rewrite op_do_from.
  rewrite (until_raise_calm None) by (intros g x Hg; discriminate). cbn [fst snd close].
  destruct f as [[]|e]; destruct t; reflexivity.
Qed.

(* ------------------------------------------------------------------------ *)
(* T1: an effect issued exactly by the handler that terminates the subscription
   (and NOT by dispose) occurs once iff a terminal notification was emitted     *)
Section AtEnd.
Context {A B : Type} (m : machine A B) (n : Z) (P : x_state m -> Prop).

Record once_at_end : Prop := {
  oae_start_cnt : cnt_cmd n (snd (fst (x_start m))) = if live (snd (x_start m)) then 0 else 1;
  oae_start_inv : live (snd (x_start m)) = true -> P (fst (fst (x_start m)));
  oae_step_cnt : forall s now i, P s ->
    cnt_cmd n (snd (fst (x_step m s now i)))
    = if is_dispose i then 0 else if live (snd (x_step m s now i)) then 0 else 1;
  oae_step_inv : forall s now i, P s -> live (snd (x_step m s now i)) = true ->
    P (fst (fst (x_step m s now i))) }.

Hypothesis H : once_at_end.

Lemma deliver_end s r0 now (i : inp A) (X : rstate -> rstate * list (obs B)) :
  (forall r1, cnt_obs n (snd (X r1)) = 0 /\ r_stopped (fst (X r1)) = r_stopped r1) ->
  is_dispose i = false -> r_stopped r0 = false -> P s ->
  let res := (let '(s', cs, f) := x_step m s now i in
              let '(r1, o1) := apply_cmds r0 cs in
              let '(r2, o2) := X r1 in
              let '(r3, o3) := finish r2 f in (s', r3, o1 ++ o2 ++ o3)) in
  cnt_obs n (snd res) = (if r_stopped (snd (fst res)) then 1 else 0)
  /\ (r_stopped (snd (fst res)) = false -> P (fst (fst res))).
Proof.
  intros HX Hi H0 HP. cbv zeta.
  pose proof (oae_step_cnt H s now i HP) as Hc. pose proof (oae_step_inv H s now i HP) as Hinv.
  rewrite Hi in Hc.
  destruct (x_step m s now i) as [[s' cs] f]. cbn [fst snd] in *.
  pose proof (apply_cmds_cnt n cs r0) as H1. pose proof (apply_cmds_stopped cs r0) as H2.
  destruct (apply_cmds r0 cs) as [r1 o1]. cbn [fst snd] in *.
  destruct (HX r1) as [H3 H4]. destruct (X r1) as [r2 o2]. cbn [fst snd] in *.
  pose proof (finish_cnt (B := B) n r2 f) as H5. pose proof (finish_stopped (B := B) r2 f) as H6.
  destruct (finish r2 f) as [r3 o3]. cbn [fst snd] in *.
  rewrite !cnt_obs_app, H1, H3, H5, Hc, H6.
  destruct (live f); [|split; [reflexivity|discriminate]].
  assert (E : r_stopped r2 = false) by congruence. rewrite E. split; [lia|auto].
Qed.

Lemma rstep_end s r now i : r_stopped r = false -> P s ->
  cnt_obs n (snd (rstep m s r now i))
  = (if is_dispose i then 0 else if r_stopped (snd (fst (rstep m s r now i))) then 1 else 0)
  /\ (r_stopped (snd (fst (rstep m s r now i))) = false -> P (fst (fst (rstep m s r now i)))).
Proof.
  intros H0 HP. unfold rstep. rewrite H0.
  destruct i as [k e|tag|]; cbn [is_dispose].
  - destruct (mem k (r_live r)); [|cbn; rewrite H0; auto].
    apply (deliver_end s r now (ISrc k e)
             (fun r1 => if is_terminal e && mem k (r_live r1)
                        then (RState (remove k (r_live r1)) (r_timers r1) (r_stopped r1), [OUnsub k])
                        else (r1, []))); auto.
    intros r1. destruct (is_terminal e && mem k (r_live r1)); auto.
  - destruct (mem tag (r_timers r)); [|cbn; rewrite H0; auto].
    apply (deliver_end s _ now (ITick tag) (fun r1 => (r1, []))); auto.
  - pose proof (oae_step_cnt H s now IDispose HP) as Hc. cbn [is_dispose] in Hc.
    destruct (x_step m s now IDispose) as [[s' cs] f]. cbn [fst snd] in *.
    pose proof (apply_cmds_cnt n cs r) as H1. destruct (apply_cmds r cs) as [r1 o1]. cbn [fst snd] in *.
    pose proof (release_cnt (B := B) n r1) as H2.
    destruct (release r1) as [r2 o2] eqn:Er. cbn [fst snd] in *.
    rewrite cnt_obs_app, filter_noemit_cnt, H1, Hc, H2. split; [reflexivity|].
    unfold release in Er. inversion Er; subst. discriminate.
Qed.

Lemma rstep_dispose_emits s r now : emits (snd (rstep m s r now IDispose)) = [].
Proof.
  unfold rstep. destruct (r_stopped r); [reflexivity|].
  destruct (x_step m s now IDispose) as [[s' cs] f]. destruct (apply_cmds r cs) as [r1 o1].
  pose proof (release_emits (B := B) r1) as R. destruct (release r1) as [r2 o2]. cbn [fst snd] in *.
  now rewrite emits_app, filter_noemit, R.
Qed.

Lemma run_from_end ins : forall s r k, r_stopped r = false -> P s ->
  cnt_tr n (fst (run_from m s r k ins)) = if ended (emitted (fst (run_from m s r k ins))) then 1 else 0.
Proof.
  induction ins as [|[now i] rest IH]; intros s r k H0 HP; cbn [run_from]; [reflexivity|].
  destruct (rstep_end s r now i H0 HP) as [K1 K2].
  pose proof (rstep_stop_reason m s r now i H0) as K3.
  assert (K4 : is_dispose i = true -> emits (snd (rstep m s r now i)) = [])
    by (destruct i; try discriminate; intros _; apply rstep_dispose_emits).
  destruct (rstep m s r now i) as [[s' r'] o]. cbn [fst snd] in *.
  destruct (r_stopped r') eqn:Hr.
  - rewrite run_from_stopped by exact Hr. cbn [fst snd]. rewrite app_nil_r, cnt_tr_tag, K1.
    rewrite <- (app_nil_r (map _ o)), emitted_tag_app. cbn [emitted flat_map]. rewrite app_nil_r.
    destruct i as [k0 e|tag|]; cbn [is_dispose] in *; rewrite ?orb_false_r in K3; try (now rewrite <- K3).
    now rewrite (K4 eq_refl).
  - specialize (IH s' r' (S k) Hr (K2 eq_refl)). destruct (run_from m s' r' (S k) rest) as [tr rf].
    cbn [fst snd] in *. symmetry in K3. apply orb_false_iff in K3. destruct K3 as [K3 K5].
    rewrite K5 in K1. rewrite cnt_tr_app, cnt_tr_tag, K1, emitted_tag_app. unfold ended in *.
    rewrite existsb_app, K3. cbn [orb]. exact IH.
Qed.

Theorem effect_at_end ins :
  cnt_tr n (fst (run m ins)) = if ended (emitted (fst (run m ins))) then 1 else 0.
Proof.
  unfold run. pose proof (oae_start_cnt H) as Hc. pose proof (oae_start_inv H) as Hi.
  destruct (x_start m) as [[s0 cs] f]. cbn [fst snd] in *.
  pose proof (apply_cmds_cnt n cs (RState [] [] false)) as H1.
  pose proof (apply_cmds_stopped cs (RState [] [] false)) as H2.
  pose proof (apply_cmds_emits cs (RState [] [] false)) as H3.
  destruct (apply_cmds (RState [] [] false) cs) as [r1 o1]. cbn [fst snd r_stopped] in *.
  pose proof (finish_cnt (B := B) n r1 f) as H5.
  destruct (finish_shape (B := B) r1 f) as [[-> Hf]|[t [Ht [Hf1 Hf2]]]].
  - rewrite Hf in *. cbn [fst snd live] in *.
    pose proof (run_from_end ins s0 r1 1 H2 (Hi eq_refl)) as G.
    destruct (run_from m s0 r1 1 ins) as [tr rf]. cbn [fst snd] in *.
    rewrite cnt_tr_app, cnt_tr_tag, app_nil_r, H1, Hc, emitted_tag_app. unfold ended in *.
    rewrite existsb_app. fold (ended (emits o1)). rewrite (all_next_not_ended _ H3). exact G.
  - assert (Hl : live f = false) by (destruct f; [cbn in Hf1; discriminate|reflexivity|reflexivity]).
    destruct (finish r1 f) as [r2 o2]. cbn [fst snd] in *. subst r2.
    rewrite run_from_stopped by reflexivity. cbn [fst snd].
    rewrite app_nil_r, cnt_tr_tag, cnt_obs_app, H1, H5, Hc, Hl.
    rewrite <- (app_nil_r (map _ (o1 ++ o2))), emitted_tag_app. cbn [emitted flat_map].
    rewrite app_nil_r, ended_emits_app, Hf1. cbn. rewrite Ht. now rewrite orb_true_r.
Qed.
End AtEnd.

Section AtEndPre.
Context {A B : Type}.

Lemma feed_pre_end (m : machine A B) n P : once_at_end m n P -> calm_on_next m -> forall pre s, P s ->
  cnt_cmd n (snd (fst (feed_pre m s pre))) = (if live (snd (feed_pre m s pre)) then 0 else 1)
  /\ (live (snd (feed_pre m s pre)) = true -> P (fst (fst (feed_pre m s pre)))).
Proof.
  intros H Hcalm. induction pre as [|e t IH]; intros s HP; cbn [feed_pre]; [auto|].
  pose proof (oae_step_cnt _ _ _ H s 0%Z (ISrc 0 e) HP) as Hc.
  pose proof (oae_step_inv _ _ _ H s 0%Z (ISrc 0 e) HP) as Hi.
  assert (Hn : is_terminal e = false -> snd (x_step m s 0%Z (ISrc 0 e)) = Cont)
    by (destruct e; try discriminate; intros _; apply Hcalm).
  destruct (x_step m s 0%Z (ISrc 0 e)) as [[s' cs] f]. cbn [fst snd is_dispose] in *.
  destruct f; cbn [live negb fst snd] in *.
  - destruct (is_terminal e); cbn [fst snd live].
    + rewrite cnt_cmd_app, Hc. auto.
    + destruct (IH s' (Hi eq_refl)) as [I1 I2]. destruct (feed_pre m s' t) as [[s'' cs'] f']. cbn [fst snd] in *.
      rewrite cnt_cmd_app, Hc, I1. auto.
  - destruct (is_terminal e); [cbn; auto|]. discriminate (Hn eq_refl).
  - destruct (is_terminal e); [cbn; auto|]. discriminate (Hn eq_refl).
Qed.

Theorem at_end_with_pre (m : machine A B) n P pre : once_at_end m n P -> calm_on_next m ->
  once_at_end (with_pre m pre) n P.
Proof.
  intros H Hcalm. pose proof (oae_start_cnt _ _ _ H) as Hc. pose proof (oae_start_inv _ _ _ H) as Hi.
  constructor; cbn [with_pre x_start x_step]; try apply H.
  - destruct (x_start m) as [[s0 cs0] f0]. cbn [fst snd] in *.
    destruct (live f0) eqn:Hl; cbn [andb]; [|cbn; now rewrite Hl].
    destruct (subscribes0 cs0); [|cbn; now rewrite Hl].
    destruct (feed_pre_end m n P H Hcalm pre s0 (Hi eq_refl)) as [I1 I2].
    destruct (feed_pre m s0 pre) as [[s1 cs1] f1]. cbn [fst snd] in *. now rewrite cnt_cmd_app, Hc, I1.
  - destruct (x_start m) as [[s0 cs0] f0]. cbn [fst snd] in *.
    destruct (live f0) eqn:Hl; cbn [andb]; [|cbn; rewrite Hl; discriminate].
    destruct (subscribes0 cs0); [|cbn; auto].
    destruct (feed_pre_end m n P H Hcalm pre s0 (Hi eq_refl)) as [I1 I2].
    destruct (feed_pre m s0 pre) as [[s1 cs1] f1]. cbn [fst snd] in *. exact I2.
Qed.
End AtEndPre.

(* instances: do_on_terminate / do_after_terminate run their callback exactly when a
   terminal notification passes, whatever the callback does, and never at dispose *)
Lemma do_on_terminate_at_end f : once_at_end (x_do_on_terminate f) E_TERMINATE (fun _ => True).
Proof.
  constructor; cbn; auto. intros s now i _.
  destruct i as [k [x|e|]|tag|]; destruct f as [[]|e0]; reflexivity.
Qed.
Lemma do_after_terminate_at_end f : once_at_end (x_do_after_terminate f) E_AFTER_TERMINATE (fun _ => True).
Proof.
  constructor; cbn; auto. intros s now i _. destruct i as [k [x|e|]|tag|]; reflexivity.
Qed.
Lemma do_on_terminate_calm f : calm_on_next (x_do_on_terminate f).
Proof. intros s now k x. reflexivity. Qed.
Lemma do_after_terminate_calm f : calm_on_next (x_do_after_terminate f).
Proof. intros s now k x. reflexivity. Qed.

Theorem terminate_callbacks_run_at_terminal f pre ins :
  let tr1 := fst (run (with_pre (x_do_on_terminate f) pre) ins) in
  let tr2 := fst (run (with_pre (x_do_after_terminate f) pre) ins) in
  cnt_tr E_TERMINATE tr1 = (if ended (emitted tr1) then 1 else 0) /\
  cnt_tr E_AFTER_TERMINATE tr2 = (if ended (emitted tr2) then 1 else 0).
Proof.
  cbv zeta. split.
  - exact (effect_at_end _ _ _ (at_end_with_pre _ _ _ pre (do_on_terminate_at_end f) (do_on_terminate_calm f)) ins).
  - exact (effect_at_end _ _ _ (at_end_with_pre _ _ _ pre (do_after_terminate_at_end f) (do_after_terminate_calm f)) ins).
Qed.

(* do_on_subscribe: the callback runs exactly once, inside subscribe(), whatever follows *)
Lemma do_on_subscribe_never f : never_steps (x_do_on_subscribe f) E_SUBSCRIBE (fun _ => True).
Proof. intros s now i _. split; [|exact I]. destruct i as [k [x|e|]|tag|]; reflexivity. Qed.

Theorem on_subscribe_runs_once f pre ins :
  cnt_tr E_SUBSCRIBE (fst (run (with_pre (x_do_on_subscribe f) pre) ins)) = 1.
Proof.
  rewrite (run_never_with_pre _ _ _ pre ins (do_on_subscribe_never f) I). destruct f as [[]|e]; reflexivity.
Qed.
