(* C15: delay_with_mapper at run level.  Over ALL interleavings of the notifications of the
   source (port 0), of the optional subscription delay (port 1 when [has_sub]) and of the delay
   observables the mapper makes (port base + j for the j-th accepted element; base = 1, or 2
   with a subscription delay), the closed world [simulate] of the machine
   [x_delay_with_mapper] (Ops/Timed.v, operators/_delaywithmapper.py) equals the walk
   [dwm_spec]; the walk's property-level reading follows. *)
From RxVerif Require Import Base.Prelude Ops.Machine Ops.Multi Ops.MultiFacts Ops.Timed Ops.TimedSim
  Ops.TimedFacts Ops.TimedSubFacts Ops.SimPortSteps.

Section DelayMapperRun.
Context {A : Type}.
Notation tin := (Z * nat * ev A)%type.
Context (has_sub : bool) (mapper : A -> nat -> res unit).

Definition dwm_base : nat := if has_sub then 2%nat else 1%nat.

(* [l1]: the subscription delay is still awaited; [l0]: the source is subscribed and has not
   terminated; [at_end]: the source completed; [cnt]: elements accepted so far;
   [pend]: (port of the delay observable, element) for every element not delivered yet *)
Fixpoint dwm_spec (l1 l0 at_end : bool) (cnt : nat) (pend : list (nat * A)) (ins : list tin)
  : list (Z * ev A) :=
  match ins with
  | [] => []
  | (t, O, e) :: rest =>
      if l0 then
        match e with
        | Next x =>
            match mapper x cnt with
            | Raise c => [(t, Err c)]
            | Ok _ => dwm_spec l1 l0 at_end (S cnt) (pend ++ [((dwm_base + cnt)%nat, x)]) rest
            end
        | Err c => [(t, Err c)]
        | Done => match pend with [] => [(t, Done)] | _ :: _ => dwm_spec l1 false true cnt pend rest end
        end
      else dwm_spec l1 l0 at_end cnt pend rest
  | (t, k, e) :: rest =>
      if l1 && Nat.eqb k 1 then
        match e with
        | Err c => [(t, Err c)]
        | _ => dwm_spec false true at_end cnt pend rest     (* on_next or on_completed: start() *)
        end
      else
        match lookup k pend with
        | Some x =>
            match e with
            | Err c => [(t, Err c)]
            | _ =>                                            (* first on_next OR on_completed *)
                (t, Next x) ::
                (if at_end && Nat.eqb (length (remove_key k pend)) 0 then [(t, Done)]
                 else dwm_spec l1 l0 at_end cnt (remove_key k pend) rest)
            end
        | None => dwm_spec l1 l0 at_end cnt pend rest
        end
  end.

Definition dwm_out (ins : list tin) : list (Z * ev A) :=
  dwm_spec has_sub (negb has_sub) false 0 [] ins.

(* ---- bookkeeping ---- *)
Definition dwm_live (l1 l0 : bool) (pend : list (nat * A)) : list nat :=
  (if l1 then [1%nat] else []) ++ (if l0 then [0%nat] else []) ++ map fst pend.

Definition dwm_inv (cnt : nat) (pend : list (nat * A)) : Prop :=
  Forall (fun p => (dwm_base <= fst p < dwm_base + cnt)%nat) pend /\ NoDup (map fst pend).

Lemma mem_keys k (pend : list (nat * A)) :
  mem k (map fst pend) = match lookup k pend with Some _ => true | None => false end.
Proof.
  induction pend as [|[j x] p IH]; [reflexivity|]. cbn [map fst lookup]. unfold mem in *. cbn [existsb].
  destruct (Nat.eqb k j); [reflexivity|exact IH].
Qed.

Lemma remove_keys k (pend : list (nat * A)) : remove k (map fst pend) = map fst (remove_key k pend).
Proof.
  induction pend as [|[j x] p IH]; [reflexivity|]. cbn [map fst remove remove_key].
  destruct (Nat.eqb k j); [reflexivity|]. cbn [map fst]. now rewrite IH.
Qed.

Lemma lookup_none_notin k (pend : list (nat * A)) : ~ In k (map fst pend) -> lookup k pend = None.
Proof.
  induction pend as [|[j x] p IH]; intros H; [reflexivity|]. cbn [lookup].
  destruct (Nat.eqb k j) eqn:E.
  - apply Nat.eqb_eq in E. exfalso. apply H. left. cbn. auto.
  - apply IH. intros Hi. apply H. right. exact Hi.
Qed.

Lemma lookup_some_in k (pend : list (nat * A)) x : lookup k pend = Some x -> In (k, x) pend.
Proof.
  induction pend as [|[j y] p IH]; intros H; [discriminate H|]. cbn [lookup] in H.
  destruct (Nat.eqb k j) eqn:E.
  - apply Nat.eqb_eq in E. injection H as ->. left. now subst.
  - right. auto.
Qed.

Lemma remove_key_incl k (pend : list (nat * A)) p : In p (remove_key k pend) -> In p pend.
Proof.
  induction pend as [|[j y] q IH]; intros H; [destruct H|]. cbn [remove_key] in H.
  destruct (Nat.eqb k j); [right; exact H|]. destruct H as [H|H]; [left; exact H|right; auto].
Qed.

Lemma remove_key_nodup k (pend : list (nat * A)) :
  NoDup (map fst pend) -> NoDup (map fst (remove_key k pend)) /\ ~ In k (map fst (remove_key k pend)).
Proof.
  induction pend as [|[j y] q IH]; intros H; [split; [constructor|intros []]|].
  cbn [remove_key map fst] in *. inversion H as [|? ? Hn Hd]; subst.
  destruct (Nat.eqb k j) eqn:E.
  - apply Nat.eqb_eq in E. subst. split; assumption.
  - apply Nat.eqb_neq in E. destruct (IH Hd) as [H1 H2]. cbn [map fst]. split.
    + constructor; [|exact H1]. intros Hi. apply Hn. apply in_map_iff in Hi. destruct Hi as [p [Ep Hp]].
      apply in_map_iff. exists p. split; [exact Ep|]. eapply remove_key_incl; eauto.
    + intros [Hi|Hi]; [apply E; auto|exact (H2 Hi)].
Qed.

Lemma dwm_inv_remove k cnt pend : dwm_inv cnt pend -> dwm_inv cnt (remove_key k pend).
Proof.
  intros [H1 H2]. split; [|apply remove_key_nodup, H2].
  rewrite Forall_forall in *. intros p Hp. apply H1. eapply remove_key_incl; eauto.
Qed.

Lemma dwm_inv_add cnt pend x : dwm_inv cnt pend -> dwm_inv (S cnt) (pend ++ [((dwm_base + cnt)%nat, x)]).
Proof.
  intros [H1 H2]. split.
  - apply Forall_app. split.
    + rewrite Forall_forall in *. intros p Hp. specialize (H1 p Hp). lia.
    + constructor; [cbn; lia|constructor].
  - rewrite map_app. cbn [map fst].
    assert (Hn : ~ In (dwm_base + cnt)%nat (map fst pend)).
    { intros Hi. apply in_map_iff in Hi. destruct Hi as [p [Ep Hp]]. rewrite Forall_forall in H1.
      specialize (H1 p Hp). lia. }
    clear H1. induction (map fst pend) as [|j l IH]; cbn.
    + constructor; [intros []|constructor].
    + inversion H2; subst. constructor.
      * intros Hi. apply in_app_or in Hi. destruct Hi as [Hi|[Hi|[]]]; [contradiction|].
        apply Hn. left. auto.
      * apply IH; [assumption|]. intros Hi. apply Hn. right. exact Hi.
Qed.

Lemma dwm_inv_low k cnt pend : dwm_inv cnt pend -> (k < dwm_base)%nat -> lookup k pend = None.
Proof.
  intros [H1 _] Hk. apply lookup_none_notin. intros Hi. apply in_map_iff in Hi. destruct Hi as [p [Ep Hp]].
  rewrite Forall_forall in H1. specialize (H1 p Hp). lia.
Qed.

Lemma mem_app k a b : mem k (a ++ b) = mem k a || mem k b.
Proof. unfold mem. apply existsb_app. Qed.

Local Notation M := (x_delay_with_mapper has_sub mapper).

Lemma dwm_live_add (l0 : bool) (pend : list (nat * A)) (k : nat) (x : A) :
  (if l0 then [0%nat] else @nil nat) ++ map fst pend ++ [k] = dwm_live false l0 (pend ++ [(k, x)]).
Proof. unfold dwm_live. rewrite map_app. reflexivity. Qed.

Lemma dwm_live_mem_S l0 (pend : list (nat * A)) k :
  mem (S k) (dwm_live false l0 pend) = match lookup (S k) pend with Some _ => true | None => false end.
Proof. unfold dwm_live. rewrite !mem_app, mem_keys. destruct l0; reflexivity. Qed.

Lemma dwm_live_remove_S l0 (pend : list (nat * A)) k :
  remove (S k) (dwm_live false l0 pend) = dwm_live false l0 (remove_key (S k) pend).
Proof. unfold dwm_live. destruct l0; cbn [app remove Nat.eqb]; now rewrite remove_keys. Qed.

Lemma dwm_sim : forall (ins : list tin) fuel cnt ae pend l1 l0, (length ins <= fuel)%nat ->
  dwm_inv cnt pend ->
  (l1 = true -> has_sub = true /\ l0 = false /\ pend = []) ->
  sim_emits (sim M fuel (DwmSt cnt ae pend) (RState (dwm_live l1 l0 pend) [] false) [] (ext2_of ins))
  = dwm_spec l1 l0 ae cnt pend ins.
Proof.
  induction ins as [|[[t k] e] rest IH]; intros fuel cnt ae pend l1 l0 Hf Hinv Hl1.
  - now rewrite ext2_of_nil, sim_nil.
  - destruct fuel as [|f]; [cbn in Hf; lia|]. cbn [length] in Hf.
    rewrite ext2_of_cons. cbn [dwm_spec].
    assert (Hlow : forall j, (j < dwm_base)%nat -> mem j (map fst pend) = false).
    { intros j Hj. rewrite mem_keys, (dwm_inv_low j cnt pend Hinv Hj). reflexivity. }
    assert (Hb : (1 <= dwm_base)%nat) by (unfold dwm_base; destruct has_sub; lia).
    destruct k as [|k].
    + (* the source *)
      assert (Hm : mem 0 (dwm_live l1 l0 pend) = l0).
      { unfold dwm_live. rewrite !mem_app, Hlow by lia. destruct l1, l0; reflexivity. }
      destruct l0.
      2: { rewrite sim_port_dead by exact Hm. apply IH; [lia|exact Hinv|exact Hl1]. }
      assert (El1 : l1 = false) by (destruct l1; [destruct (Hl1 eq_refl) as (_ & H & _); discriminate H|reflexivity]).
      subst l1.
      destruct e as [x|c|].
      * destruct (mapper x cnt) as [u|c] eqn:Em.
        -- etransitivity; [eapply sim_port_cont; [exact Hm|cbn; rewrite Em; reflexivity|cbn; reflexivity|reflexivity]|].
           cbn [emits flat_map map app]. unfold detach. cbn [is_terminal andb r_live]. fold dwm_base.
           pose proof (dwm_live_add true pend (dwm_base + cnt)%nat x) as E. cbn [app] in E. rewrite E.
           apply IH; [lia|apply dwm_inv_add, Hinv|discriminate].
        -- etransitivity; [eapply sim_port_end; [exact Hm|cbn; rewrite Em; reflexivity|discriminate|cbn; reflexivity]|].
           reflexivity.
      * etransitivity; [eapply sim_port_end; [exact Hm|cbn; reflexivity|discriminate|cbn; reflexivity]|]. reflexivity.
      * destruct pend as [|p pend'].
        -- etransitivity; [eapply sim_port_end; [exact Hm|cbn; reflexivity|discriminate|cbn; reflexivity]|]. reflexivity.
        -- etransitivity; [eapply sim_port_cont; [exact Hm|cbn; reflexivity|cbn; reflexivity|reflexivity]|].
           cbn [emits flat_map map app]. unfold detach. cbn [is_terminal andb r_live].
           change (fst p :: map fst pend') with (map fst (p :: pend')). rewrite Hlow by lia.
           apply (IH f cnt true (p :: pend') false false); [lia|exact Hinv|discriminate].
    + destruct l1.
      * (* waiting for the subscription delay *)
        destruct (Hl1 eq_refl) as (Hs & -> & ->). cbn [andb].
        destruct k as [|k].
        -- cbn [Nat.eqb].
           destruct e as [y|c|].
           ++ etransitivity; [eapply sim_port_cont; [reflexivity|cbn; rewrite Hs; reflexivity|cbn; reflexivity|reflexivity]|].
              cbn [emits flat_map map app]. unfold detach. cbn [is_terminal andb].
              apply (IH f cnt ae [] false true); [lia|exact Hinv|discriminate].
           ++ etransitivity; [eapply sim_port_end; [reflexivity|cbn; rewrite Hs; reflexivity|discriminate|cbn; reflexivity]|]. reflexivity.
           ++ etransitivity; [eapply sim_port_cont; [reflexivity|cbn; rewrite Hs; reflexivity|cbn; reflexivity|reflexivity]|].
              cbn [emits flat_map map app]. unfold detach. cbn.
              apply (IH f cnt ae [] false true); [lia|exact Hinv|discriminate].
        -- cbn [Nat.eqb lookup]. rewrite sim_port_dead by reflexivity. apply IH; [lia|exact Hinv|intros _; auto].
      * cbn [andb]. pose proof (dwm_live_mem_S l0 pend k) as Hm.
        destruct (lookup (S k) pend) as [x|] eqn:El.
        2: { rewrite sim_port_dead by exact Hm. apply IH; [lia|exact Hinv|discriminate]. }
        assert (Hsp : has_sub && Nat.eqb (S k) 1 = false).
        { destruct k as [|k]; [|destruct has_sub; reflexivity]. destruct has_sub eqn:Hs; [|reflexivity].
          exfalso. rewrite (dwm_inv_low 1 cnt pend Hinv) in El by (unfold dwm_base; rewrite Hs; lia). discriminate El. }
        assert (Hd : mem (S k) (dwm_live false l0 (remove_key (S k) pend)) = false).
        { rewrite dwm_live_mem_S. rewrite lookup_none_notin; [reflexivity|]. apply remove_key_nodup, Hinv. }
        assert (Hstep : forall e', (forall c, e' <> Err c) ->
                  x_step M (DwmSt cnt ae pend) t (ISrc (S k) e')
                  = (DwmSt cnt ae (remove_key (S k) pend), [CEmit x; CUnsub (S k)],
                     if ae && Nat.eqb (length (remove_key (S k) pend)) 0 then Complete else Cont)).
        { intros e' He'. cbn [x_step x_delay_with_mapper dw_cnt dw_at_end dw_delays]. rewrite Hsp, El.
          destruct e' as [y|c|]; [reflexivity|exfalso; exact (He' c eq_refl)|reflexivity]. }
        assert (Hcmd : apply_cmds (RState (dwm_live false l0 pend) [] false) [CEmit x; CUnsub (S k)]
                       = (RState (dwm_live false l0 (remove_key (S k) pend)) [] false, [OEmit (Next x); @OUnsub A (S k)])).
        { cbn [apply_cmds r_live r_timers r_stopped]. rewrite Hm, dwm_live_remove_S. reflexivity. }
        assert (Hgo : forall e', (forall c, e' <> Err c) ->
                  sim_emits (sim M (S f) (DwmSt cnt ae pend) (RState (dwm_live false l0 pend) [] false) []
                               ((t, ISrc (S k) e') :: ext2_of rest))
                  = (t, Next x) :: (if ae && Nat.eqb (length (remove_key (S k) pend)) 0 then [(t, Done)]
                                    else dwm_spec false l0 ae cnt (remove_key (S k) pend) rest)).
        { intros e' He'. specialize (Hstep e' He').
          destruct (ae && Nat.eqb (length (remove_key (S k) pend)) 0) eqn:Efin.
          - etransitivity; [eapply sim_port_end; [exact Hm|exact Hstep|discriminate|exact Hcmd]|]. reflexivity.
          - etransitivity; [eapply sim_port_cont; [exact Hm|exact Hstep|exact Hcmd|reflexivity]|].
            cbn [emits flat_map map app]. f_equal. unfold detach. cbn [r_live]. rewrite Hd, Bool.andb_false_r.
            apply IH; [lia|apply dwm_inv_remove, Hinv|discriminate]. }
        destruct e as [y|c|].
        -- apply Hgo. discriminate.
        -- etransitivity; [eapply sim_port_end;
             [exact Hm|cbn [x_step x_delay_with_mapper dw_cnt dw_at_end dw_delays]; rewrite Hsp; reflexivity
             |discriminate|cbn; reflexivity]|].
           reflexivity.
        -- apply Hgo. discriminate.
Qed.

Theorem delay_with_mapper_walk t0 (ins : list tin) :
  timed_emits t0 (simulate M t0 (ext2_of ins)) = dwm_out ins.
Proof.
  unfold simulate, simulate_fuel, timed_emits, dwm_out.
  cbn [x_start x_delay_with_mapper apply_cmds finish fst snd app emits flat_map map r_live r_timers r_stopped].
  rewrite upd_no_timers_r by reflexivity.
  assert (Hinv : dwm_inv 0 []) by (split; constructor).
  assert (Hlen : (length ins <= 3 * length (ext2_of ins) + 4)%nat) by (unfold ext2_of; rewrite map_length; lia).
  assert (Hlive : [if has_sub then 1%nat else 0%nat] = dwm_live has_sub (negb has_sub) []) by (destruct has_sub; reflexivity).
  rewrite Hlive.
  apply (dwm_sim ins _ 0 false [] has_sub (negb has_sub) Hlen Hinv). intros E. rewrite E. auto.
Qed.

(* ---- property-level reading of the walk (no subscription delay): the element the source
   delivered as its j-th notification is emitted at the FIRST notification of port j+1 after it
   arrived, and that notification is an on_next or an on_completed ---- *)
Lemma lookup_app_inv k (pend : list (nat * A)) b y x : lookup k (pend ++ [(b, y)]) = Some x ->
  lookup k pend = Some x \/ (k = b /\ x = y).
Proof.
  induction pend as [|[j z] p IH]; cbn [app lookup].
  - destruct (Nat.eqb k b) eqn:E; [|discriminate]. apply Nat.eqb_eq in E. intros H. injection H as ->. right. auto.
  - destruct (Nat.eqb k j); [left; assumption|exact IH].
Qed.

Lemma lookup_remove_inv k j (pend : list (nat * A)) x : NoDup (map fst pend) ->
  lookup k (remove_key j pend) = Some x -> lookup k pend = Some x /\ k <> j.
Proof.
  intros Hn H. assert (Hk : k <> j).
  { intros ->. rewrite lookup_none_notin in H; [discriminate H|]. apply remove_key_nodup, Hn. }
  split; [|exact Hk]. clear Hn. induction pend as [|[i z] p IH]; [discriminate H|].
  cbn [remove_key lookup] in *. destruct (Nat.eqb j i) eqn:Eji.
  - apply Nat.eqb_eq in Eji. subst i. destruct (Nat.eqb k j) eqn:Ekj; [apply Nat.eqb_eq in Ekj; contradiction|exact H].
  - cbn [lookup] in H. destruct (Nat.eqb k i); [exact H|exact (IH H)].
Qed.

Definition from_pend (x : A) (t : Z) (pend : list (nat * A)) (ins : list tin) : Prop :=
  exists k mid e rest, lookup k pend = Some x /\ ins = mid ++ (t, k, e) :: rest /\ fires e /\ port_silent k mid.
Definition from_src (x : A) (t : Z) (c : nat) (ins : list tin) : Prop :=
  exists pre tx mid e rest,
    ins = pre ++ (tx, 0%nat, Next x) :: mid ++ (t, (c + count0 pre)%nat, e) :: rest
    /\ fires e /\ port_silent (c + count0 pre)%nat mid.

Lemma from_pend_cons i x t pend ins :
  (forall k, lookup k pend <> None -> snd (fst i) <> k) -> from_pend x t pend ins -> from_pend x t pend (i :: ins).
Proof.
  intros Hi (k & mid & e & rest & Hl & E & He & Hs). exists k, (i :: mid), e, rest. rewrite E.
  repeat split; [exact Hl|exact He|]. apply port_silent_cons; [|exact Hs]. apply Hi. rewrite Hl. discriminate.
Qed.

Lemma dwm_next_origin : forall (ins : list tin) l0 ae cnt pend t x, dwm_inv cnt pend ->
  In (t, Next x) (dwm_spec false l0 ae cnt pend ins) ->
  from_pend x t pend ins \/ (l0 = true /\ from_src x t (dwm_base + cnt) ins).
Proof.
  induction ins as [|[[t' k] e'] rest IH]; intros l0 ae cnt pend t x Hinv Hin; [destruct Hin|].
  assert (Hk0 : forall j, lookup j pend <> None -> 0%nat <> j).
  { intros j Hj <-. apply Hj. apply (dwm_inv_low 0 cnt pend Hinv). unfold dwm_base. destruct has_sub; lia. }
  cbn [dwm_spec] in Hin. destruct k as [|k].
  - destruct l0.
    2: { destruct (IH _ _ _ _ _ _ Hinv Hin) as [H|[H _]]; [|discriminate H]. left. apply from_pend_cons; assumption. }
    destruct e' as [y|c|].
    + destruct (mapper y cnt) as [u|c]; [|destruct Hin as [Hin|[]]; discriminate Hin].
      destruct (IH _ _ _ _ _ _ (dwm_inv_add cnt pend y Hinv) Hin) as [(j & mid & e & rest' & Hl & E & He & Hs)|[_ H]].
      * apply lookup_app_inv in Hl. destruct Hl as [Hl|[-> ->]].
        -- left. apply from_pend_cons; [exact Hk0|]. exists j, mid, e, rest'. auto.
        -- right. split; [reflexivity|]. exists [], t', mid, e, rest'. cbn [count0 filter length app].
           rewrite Nat.add_0_r, E. auto.
      * right. split; [reflexivity|]. destruct H as (pre & tx & mid & e & rest' & E & He & Hs).
        exists ((t', 0%nat, Next y) :: pre), tx, mid, e, rest'.
        assert (Ec : (dwm_base + cnt + count0 ((t', 0%nat, Next y) :: pre) = dwm_base + S cnt + count0 pre)%nat).
        { unfold count0. cbn [filter fst snd Nat.eqb length]. lia. }
        rewrite Ec, E. auto.
    + destruct Hin as [Hin|[]]; discriminate Hin.
    + destruct pend as [|p pend']; [destruct Hin as [Hin|[]]; discriminate Hin|].
      destruct (IH _ _ _ _ _ _ Hinv Hin) as [H|[H _]]; [|discriminate H]. left. apply from_pend_cons; assumption.
  - cbn [andb] in Hin. destruct (lookup (S k) pend) as [y|] eqn:El.
    + assert (Hgen : fires e' ->
        In (t, Next x) ((t', Next y) :: (if ae && Nat.eqb (length (remove_key (S k) pend)) 0 then [(t', Done)]
                                        else dwm_spec false l0 ae cnt (remove_key (S k) pend) rest)) ->
        from_pend x t pend ((t', S k, e') :: rest) \/ (l0 = true /\ from_src x t (dwm_base + cnt) ((t', S k, e') :: rest))).
      { intros He' [H|H].
        - injection H as Et Ex. subst t' y. left. exists (S k), [], e', rest.
          repeat split; [exact El|exact He'|intros ? ? []].
        - destruct (ae && Nat.eqb (length (remove_key (S k) pend)) 0); [destruct H as [H|[]]; discriminate H|].
          destruct (IH _ _ _ _ _ _ (dwm_inv_remove (S k) cnt pend Hinv) H) as [(j & mid & e & rest' & Hl & E & He & Hs)|[El0 H']].
          + left. destruct (lookup_remove_inv j (S k) pend x (proj2 Hinv) Hl) as [Hl' Hne].
            exists j, ((t', S k, e') :: mid), e, rest'. rewrite E.
            repeat split; [exact Hl'|exact He|]. apply port_silent_cons; [cbn; auto|exact Hs].
          + right. split; [exact El0|]. destruct H' as (pre & tx & mid & e & rest' & E & He & Hs).
            exists ((t', S k, e') :: pre), tx, mid, e, rest'. unfold count0 in *. cbn [filter fst snd Nat.eqb]. rewrite E. auto. }
      destruct e' as [z|c|]; [apply Hgen; [exact I|exact Hin]|destruct Hin as [Hin|[]]; discriminate Hin|apply Hgen; [exact I|exact Hin]].
    + destruct (IH _ _ _ _ _ _ Hinv Hin) as [H|[El0 H]].
      * left. apply from_pend_cons; [|exact H]. intros j Hj Ej. cbn [fst snd] in Ej. subst j. contradiction.
      * right. split; [exact El0|]. destruct H as (pre & tx & mid & e & rest' & E & He & Hs).
        exists ((t', S k, e') :: pre), tx, mid, e, rest'. unfold count0 in *. cbn [filter fst snd Nat.eqb]. rewrite E. auto.
Qed.

(* the j-th notification of the source, an element x accepted by the mapper, is emitted at t:
   t is the instant of the first notification of port j+1 after the element arrived, and that
   notification is an on_next or an on_completed *)
Theorem dwm_emitted_at_first_fire (ins : list tin) t x : has_sub = false ->
  In (t, Next x) (dwm_out ins) ->
  exists pre tx mid e rest,
    ins = pre ++ (tx, 0%nat, Next x) :: mid ++ (t, S (count0 pre), e) :: rest
    /\ fires e /\ port_silent (S (count0 pre)) mid.
Proof.
  intros Hs Hin. unfold dwm_out in Hin. rewrite Hs in Hin. cbn [negb] in Hin.
  destruct (dwm_next_origin ins true false 0 [] t x (conj (Forall_nil _) (NoDup_nil _)) Hin)
    as [(k & mid & e & rest & Hl & _)|[_ H]]; [discriminate Hl|].
  unfold from_src, dwm_base in H. rewrite Hs in H. exact H.
Qed.

Theorem delay_with_mapper_emitted_at_first_fire t0 (ins : list tin) t x : has_sub = false ->
  In (t, Next x) (timed_emits t0 (simulate M t0 (ext2_of ins))) ->
  exists pre tx mid e rest,
    ins = pre ++ (tx, 0%nat, Next x) :: mid ++ (t, S (count0 pre), e) :: rest
    /\ fires e /\ port_silent (S (count0 pre)) mid.
Proof. intros Hs. rewrite delay_with_mapper_walk. apply dwm_emitted_at_first_fire, Hs. Qed.

(* ---- conversely: as long as nothing fails, every element IS emitted when its delay observable
   first notifies ---- *)
Definition no_err_tl (l : list tin) : Prop := forall t k c, ~ In (t, k, Err c) l.
Definition mapper_total : Prop := forall y i, exists u, mapper y i = Ok u.

Lemma no_err_tl_tail i l : no_err_tl (i :: l) -> no_err_tl l.
Proof. intros H t k c Hi. apply (H t k c). right. exact Hi. Qed.

Lemma lookup_app_l k (pend : list (nat * A)) q x : lookup k pend = Some x -> lookup k (pend ++ q) = Some x.
Proof.
  induction pend as [|[j y] p IH]; intros H; [discriminate H|]. cbn [app lookup] in *.
  destruct (Nat.eqb k j); [exact H|exact (IH H)].
Qed.

Lemma lookup_app_fresh k (pend : list (nat * A)) x : lookup k pend = None -> lookup k (pend ++ [(k, x)]) = Some x.
Proof.
  induction pend as [|[j y] p IH]; intros H; cbn [app lookup] in *; [now rewrite Nat.eqb_refl|].
  destruct (Nat.eqb k j); [discriminate H|exact (IH H)].
Qed.

Lemma lookup_remove_other k j (pend : list (nat * A)) : k <> j -> lookup k (remove_key j pend) = lookup k pend.
Proof.
  intros Hn. induction pend as [|[i y] p IH]; [reflexivity|]. cbn [remove_key lookup].
  destruct (Nat.eqb j i) eqn:Eji.
  - apply Nat.eqb_eq in Eji. subst i. destruct (Nat.eqb k j) eqn:Ekj; [apply Nat.eqb_eq in Ekj; contradiction|reflexivity].
  - cbn [lookup]. destruct (Nat.eqb k i); [reflexivity|exact IH].
Qed.

Lemma dwm_inv_fresh cnt pend : dwm_inv cnt pend -> lookup (dwm_base + cnt)%nat pend = None.
Proof.
  intros [H1 _]. apply lookup_none_notin. intros Hi. apply in_map_iff in Hi. destruct Hi as [p [Ep Hp]].
  rewrite Forall_forall in H1. specialize (H1 p Hp). lia.
Qed.

(* while the source is live and has not completed *)
Lemma dwm_prefix : mapper_total -> forall (pre : list tin) cnt pend tail, dwm_inv cnt pend ->
  no_err_tl pre -> (forall t, ~ In (t, 0%nat, Done) pre) ->
  exists outs pend', dwm_inv (cnt + count0 pre) pend' /\
    dwm_spec false true false cnt pend (pre ++ tail)
    = outs ++ dwm_spec false true false (cnt + count0 pre) pend' tail.
Proof.
  intros Hmt. induction pre as [|[[t' k] e'] pre IH]; intros cnt pend tail Hinv Hne Hnd.
  - exists [], pend. cbn [count0 filter length app]. rewrite Nat.add_0_r. auto.
  - assert (Hne' := no_err_tl_tail _ _ Hne).
    assert (Hnd' : forall t, ~ In (t, 0%nat, Done) pre) by (intros t Hi; apply (Hnd t); right; exact Hi).
    cbn [app dwm_spec]. destruct k as [|k].
    + rewrite count0_cons0. destruct e' as [y|c|].
      * destruct (Hmt y cnt) as [u ->].
        destruct (IH (S cnt) _ tail (dwm_inv_add cnt pend y Hinv) Hne' Hnd') as (outs & pend' & Hi & E).
        exists outs, pend'. replace (cnt + S (count0 pre))%nat with (S cnt + count0 pre)%nat by lia. auto.
      * exfalso. apply (Hne t' 0%nat c). left. reflexivity.
      * exfalso. apply (Hnd t'). left. reflexivity.
    + rewrite count0_consS. cbn [andb]. destruct (lookup (S k) pend) as [y|] eqn:El.
      * assert (Hf : fires e') by (destruct e' as [z|c|]; [exact I|exfalso; apply (Hne t' (S k) c); left; reflexivity|exact I]).
        destruct (IH cnt _ tail (dwm_inv_remove (S k) cnt pend Hinv) Hne' Hnd') as (outs & pend' & Hi & E).
        exists ((t', Next y) :: outs), pend'. split; [exact Hi|]. cbn [andb]. rewrite E.
        destruct e' as [z|c|]; [reflexivity|destruct Hf|reflexivity].
      * exact (IH cnt pend tail Hinv Hne' Hnd').
Qed.

(* while an element is pending, whatever else happens (short of a failure) *)
Lemma dwm_keep_pending : mapper_total -> forall (mid : list tin) l0 ae cnt pend k x tail,
  lookup k pend = Some x -> no_err_tl mid -> port_silent k mid ->
  exists outs l0' ae' cnt' pend',
    dwm_spec false l0 ae cnt pend (mid ++ tail) = outs ++ dwm_spec false l0' ae' cnt' pend' tail
    /\ lookup k pend' = Some x.
Proof.
  intros Hmt. induction mid as [|[[t' j] e'] mid IH]; intros l0 ae cnt pend k x tail Hl Hne Hs.
  - exists [], l0, ae, cnt, pend. auto.
  - assert (Hne' := no_err_tl_tail _ _ Hne).
    assert (Hs' : port_silent k mid) by (intros t e Hi; apply (Hs t e); right; exact Hi).
    cbn [app dwm_spec]. destruct j as [|j].
    + destruct l0; [|exact (IH false ae cnt pend k x tail Hl Hne' Hs')].
      destruct e' as [y|c|].
      * destruct (Hmt y cnt) as [u ->]. apply IH; [apply lookup_app_l; exact Hl|exact Hne'|exact Hs'].
      * exfalso. apply (Hne t' 0%nat c). left. reflexivity.
      * destruct pend as [|p pend']; [discriminate Hl|]. apply IH; assumption.
    + cbn [andb]. destruct (lookup (S j) pend) as [y|] eqn:El; [|apply IH; assumption].
      assert (Hkj : k <> S j) by (intros ->; apply (Hs t' e'); left; reflexivity).
      assert (Hl' : lookup k (remove_key (S j) pend) = Some x) by (rewrite lookup_remove_other; assumption).
      assert (Hlen : Nat.eqb (length (remove_key (S j) pend)) 0 = false) by (destruct (remove_key (S j) pend); [discriminate Hl'|reflexivity]).
      rewrite Hlen, Bool.andb_false_r.
      destruct (IH l0 ae cnt _ k x tail Hl' Hne' Hs') as (outs & l0' & ae' & cnt' & pend' & E & Hp).
      exists ((t', Next y) :: outs), l0', ae', cnt', pend'. split; [|exact Hp]. rewrite E.
      destruct e' as [z|c|]; [reflexivity|exfalso; apply (Hne t' (S j) c); left; reflexivity|reflexivity].
Qed.

(* no subscription delay, a mapper that does not raise, no error notification and no completion
   of the source before the element arrives, no error while it is pending: the j-th notification
   of the source, the element x, is emitted at the first notification (on_next or on_completed)
   of port j+1 after it arrived *)
Theorem dwm_emits_when_fired (pre mid rest : list tin) tx t x e : has_sub = false -> mapper_total ->
  no_err_tl pre -> (forall t', ~ In (t', 0%nat, Done) pre) ->
  no_err_tl mid -> port_silent (S (count0 pre)) mid -> fires e ->
  In (t, Next x) (dwm_out (pre ++ (tx, 0%nat, Next x) :: mid ++ (t, S (count0 pre), e) :: rest)).
Proof.
  intros Hs Hmt Hne Hnd Hnm Hsil He. unfold dwm_out. rewrite Hs. cbn [negb].
  destruct (dwm_prefix Hmt pre 0 [] ((tx, 0%nat, Next x) :: mid ++ (t, S (count0 pre), e) :: rest)
              (conj (Forall_nil _) (NoDup_nil _)) Hne Hnd) as (o1 & p1 & Hi & ->).
  apply in_or_app. right. change (0 + count0 pre)%nat with (count0 pre) in *. cbn [dwm_spec]. destruct (Hmt x (count0 pre)) as [u ->].
  assert (Hb : (dwm_base + count0 pre)%nat = S (count0 pre)) by (unfold dwm_base; rewrite Hs; reflexivity).
  pose proof (lookup_app_fresh _ p1 x (dwm_inv_fresh _ _ Hi)) as Hl. rewrite Hb in *.
  destruct (dwm_keep_pending Hmt mid true false (S (count0 pre)) _ (S (count0 pre)) x
              ((t, S (count0 pre), e) :: rest) Hl Hnm Hsil) as (o2 & l0' & ae' & cnt' & p2 & -> & Hl2).
  apply in_or_app. right. cbn [dwm_spec andb]. rewrite Hl2.
  destruct e as [z|c|]; [left; reflexivity|destruct He|left; reflexivity].
Qed.

Theorem delay_with_mapper_emits_when_fired t0 (pre mid rest : list tin) tx t x e : has_sub = false -> mapper_total ->
  no_err_tl pre -> (forall t', ~ In (t', 0%nat, Done) pre) ->
  no_err_tl mid -> port_silent (S (count0 pre)) mid -> fires e ->
  In (t, Next x) (timed_emits t0 (simulate M t0
        (ext2_of (pre ++ (tx, 0%nat, Next x) :: mid ++ (t, S (count0 pre), e) :: rest)))).
Proof. intros. rewrite delay_with_mapper_walk. apply dwm_emits_when_fired; assumption. Qed.
End DelayMapperRun.

(* the two readings for the operator without a subscription delay *)
Theorem delay_with_mapper_nosub_emitted_at_first_fire {A} (mapper : A -> nat -> res unit) t0 (ins : list (Z * nat * ev A)) t x :
  In (t, Next x) (timed_emits t0 (simulate (x_delay_with_mapper false mapper) t0 (ext2_of ins))) ->
  exists pre tx mid e rest,
    ins = pre ++ (tx, 0%nat, Next x) :: mid ++ (t, S (count0 pre), e) :: rest
    /\ fires e /\ port_silent (S (count0 pre)) mid.
Proof. exact (delay_with_mapper_emitted_at_first_fire false mapper t0 ins t x eq_refl). Qed.

Theorem delay_with_mapper_nosub_emits_when_fired {A} (mapper : A -> nat -> res unit) t0
  (pre mid rest : list (Z * nat * ev A)) tx t x e :
  mapper_total mapper -> no_err_tl pre -> (forall t', ~ In (t', 0%nat, Done) pre) ->
  no_err_tl mid -> port_silent (S (count0 pre)) mid -> fires e ->
  In (t, Next x) (timed_emits t0 (simulate (x_delay_with_mapper false mapper) t0
        (ext2_of (pre ++ (tx, 0%nat, Next x) :: mid ++ (t, S (count0 pre), e) :: rest)))).
Proof. exact (delay_with_mapper_emits_when_fired false mapper t0 pre mid rest tx t x e eq_refl). Qed.
