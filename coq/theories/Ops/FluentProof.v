(* C39 -- facts about the GENERATED tables (Gen/FluentTable.v, rewritten from
   reactivex/observable/mixins/*.py and reactivex/operators/__init__.py on every
   run).  The tables are finite, so these are closed computations (vm_compute);
   everything that quantifies over calls comes from Ops/FluentFacts.v. *)
From Coq Require Import List String Bool.
From RxVerif Require Import Ops.Fluent Ops.FluentFacts Gen.FluentTable.
Import ListNotations.
Open Scope string_scope.

(* guard constants (`P is None`, `P is NotSet`) and delegation depth (self.m(...)) *)
Definition K39 : list const := ["None"; "NotSet"].
Definition fuel39 : nat := 2.

Definition ok39 (e : entry) : bool := entry_ok fluent_table op_table fuel39 K39 e.
Definition pos39 (e : entry) : bool := entry_pos_ok fluent_table op_table fuel39 K39 e.
Definition meth39 (e : entry) (c : call) : option result := eval_method fluent_table op_table fuel39 e c.
Definition dir39 (n : string) (c : call) : option result := direct op_table n c.

(* methods that do NOT forward every accepted call to the same-named operator
   (findings about /repo; witnesses below) *)
Definition known_mismatch : list string :=
  ["do"; "pluck_attr"; "skip_while_indexed"; "starmap_indexed"; "switch_map_indexed"; "take_while_indexed"].
(* of these, the ones whose only defect is the NAME of a parameter *)
Definition keyword_name_only : list string :=
  ["pluck_attr"; "skip_while_indexed"; "switch_map_indexed"; "take_while_indexed"].
(* methods that forward faithfully but accept fewer calls than the operator *)
Definition narrower_than_operator : list string := ["filter_indexed"; "map"; "multicast"; "switch_map"].

Definition listed (l : list string) (e : entry) : bool := mem (ename e) l.

Lemma table_guards : forallb (guards_in K39) fluent_table = true.
Proof. vm_cast_no_check (eq_refl true). Qed.

(* exactly the listed methods fail the check (one evaluation of the check on all entries) *)
Lemma table_known_fail : map ename (filter (fun e => negb (ok39 e)) fluent_table) = known_mismatch.
Proof. vm_cast_no_check (eq_refl known_mismatch). Qed.

Lemma table_ok : forall e, In e fluent_table -> ~ In (ename e) known_mismatch -> ok39 e = true.
Proof.
  intros e Hin Hn. destruct (ok39 e) eqn:Hok; [reflexivity|]. exfalso. apply Hn.
  rewrite <- table_known_fail.
  apply (in_map ename (filter (fun e => negb (ok39 e)) fluent_table) e).
  apply (proj2 (filter_In (fun e => negb (ok39 e)) e fluent_table)).
  split; [exact Hin | rewrite Hok; reflexivity].
Qed.

Lemma table_positional : forallb (fun e => pos39 e && negb (has_varpos (esig e)))
                                 (filter (listed keyword_name_only) fluent_table) = true.
Proof. vm_cast_no_check (eq_refl true). Qed.

Lemma table_narrower :
  map ename (filter (fun e => negb (listed known_mismatch e) && negb (entry_sig_same op_table e)) fluent_table)
  = narrower_than_operator.
Proof. vm_cast_no_check (eq_refl narrower_than_operator). Qed.

Lemma table_names_unique : nodupb (map ename fluent_table) = true /\ nodupb (map oname op_table) = true.
Proof. split; vm_cast_no_check (eq_refl true). Qed.

Lemma table_every_method_has_operator :
  forallb (fun e => match find_op op_table (ename e) with Some _ => true | None => false end) fluent_table = true.
Proof. vm_cast_no_check (eq_refl true). Qed.

(* ---- theorems over the generated table --------------------------------------- *)
Lemma forwarding : forall e, In e fluent_table -> ~ In (ename e) known_mismatch ->
  forall c b, bind (esig e) c = Some b ->
  exists r, meth39 e c = Some r /\ dir39 (ename e) c = Some r.
Proof.
  intros e Hin Hn c b Hb.
  exact (forward_sound _ _ _ _ _ table_guards (table_ok e Hin Hn) c b Hb).
Qed.

Lemma forwarding_checked : forall e, In e fluent_table -> ok39 e = true ->
  forall c b, bind (esig e) c = Some b ->
  exists r, meth39 e c = Some r /\ dir39 (ename e) c = Some r.
Proof. intros e _ H c b Hb. exact (forward_sound _ _ _ _ _ table_guards H c b Hb). Qed.

Lemma exactness : forall e, In e fluent_table -> ~ In (ename e) known_mismatch ->
  ~ In (ename e) narrower_than_operator ->
  forall c, meth39 e c = dir39 (ename e) c.
Proof.
  intros e Hin Hn Hw c.
  apply (exact_sound _ _ _ _ _ table_guards (table_ok e Hin Hn)).
  destruct (entry_sig_same op_table e) eqn:Hs; [reflexivity|]. exfalso. apply Hw.
  rewrite <- table_narrower.
  apply (in_map ename (filter (fun e => negb (listed known_mismatch e) && negb (entry_sig_same op_table e))
                              fluent_table) e).
  apply (proj2 (filter_In (fun e => negb (listed known_mismatch e) && negb (entry_sig_same op_table e))
                          e fluent_table)).
  split; [exact Hin|]. rewrite Hs. unfold listed.
  destruct (mem (ename e) known_mismatch) eqn:Hm; [apply mem_In in Hm; contradiction | reflexivity].
Qed.

Lemma positional_forwarding : forall e, In e fluent_table -> In (ename e) keyword_name_only ->
  forall c b, ckws c = [] -> bind (esig e) c = Some b ->
  exists r, meth39 e c = Some r /\ dir39 (ename e) c = Some r.
Proof.
  intros e Hin Hl c b Hk Hb.
  pose proof table_positional as H. rewrite forallb_forall in H.
  assert (Hf : In e (filter (listed keyword_name_only) fluent_table)).
  { apply filter_In. split; [exact Hin|]. unfold listed. apply mem_In. exact Hl. }
  specialize (H e Hf). apply andb_true_iff in H. destruct H as [H1 H2]. apply negb_true_iff in H2.
  exact (positional_sound _ _ _ _ _ table_guards H1 H2 c b Hk Hb).
Qed.

(* ---- refutations: a call the method accepts that a direct call of the same-named
   operator binds differently (or rejects) ---------------------------------------- *)
Definition witness (n : string) : call :=
  if String.eqb n "do" then mkcall [VOpaque 0] []
  else if String.eqb n "pluck_attr" then mkcall [] [("attr", VOpaque 0)]
  else if String.eqb n "starmap_indexed" then mkcall [] []
  else if String.eqb n "switch_map_indexed" then mkcall [] [("mapper_indexed", VOpaque 0)]
  else mkcall [] [("predicate_indexed", VOpaque 0)].

Definition ores_eqb (a b : option result) : bool :=
  match a, b with Some x, Some y => result_eqb x y | None, None => true | _, _ => false end.

Lemma ores_eqb_refl : forall a, ores_eqb a a = true.
Proof.
  assert (V : forall v, value_eqb v v = true) by (intros [c|i]; simpl; [apply String.eqb_refl | apply PeanoNat.Nat.eqb_refl]).
  assert (L1 : forall l, leqb value_eqb l l = true) by (induction l; simpl; [reflexivity | rewrite V; assumption]).
  assert (L2 : forall l, leqb kv_eqb l l = true).
  { induction l as [|[k v] r IH]; simpl; [reflexivity|]. unfold kv_eqb. simpl.
    rewrite String.eqb_refl, V. exact IH. }
  intros [[o [n v]]|]; simpl; [|reflexivity]. unfold result_eqb, benv_eqb. simpl.
  rewrite String.eqb_refl, L1, L2. reflexivity.
Qed.

Definition refutes (n : string) (c : call) : bool :=
  match find_entry fluent_table n with
  | Some e => match bind (esig e) c with
              | Some _ => negb (ores_eqb (meth39 e c) (dir39 n c))
              | None => false
              end
  | None => false
  end.

Lemma table_refuted : forallb (fun n => refutes n (witness n)) known_mismatch = true.
Proof. vm_cast_no_check (eq_refl true). Qed.

Lemma mismatch_refuted : forall n, In n known_mismatch ->
  exists e c b, find_entry fluent_table n = Some e /\ bind (esig e) c = Some b
                /\ meth39 e c <> dir39 n c.
Proof.
  intros n Hn. pose proof table_refuted as H. rewrite forallb_forall in H. specialize (H n Hn).
  unfold refutes in H. destruct (find_entry fluent_table n) as [e|]; [|discriminate].
  destruct (bind (esig e) (witness n)) as [b|] eqn:Hb; [|discriminate].
  exists e, (witness n), b. split; [reflexivity|]. split; [exact Hb|].
  intros Heq. rewrite Heq in H. rewrite ores_eqb_refl in H. discriminate.
Qed.

(* the operator accepts the empty call (or, for multicast, a keyword) that the method rejects *)
Definition narrow_witness (n : string) : call :=
  if String.eqb n "multicast" then mkcall [] [("mapper", VOpaque 0)] else mkcall [] [].

Lemma table_narrower_witness :
  forallb (fun n => match find_entry fluent_table n with
                    | Some e => match meth39 e (narrow_witness n), dir39 n (narrow_witness n) with
                                | None, Some _ => true | _, _ => false end
                    | None => false end) narrower_than_operator = true.
Proof. vm_cast_no_check (eq_refl true). Qed.
