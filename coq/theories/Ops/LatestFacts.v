(* C13: combine_latest and with_latest_from against closed forms over whole
   delivery sequences: every emitted tuple is the snapshot of the latest element
   of every source at that moment, and a tuple is emitted exactly at the
   deliveries at which every source has delivered something. *)
From RxVerif Require Import Base.Prelude Ops.Machine Ops.Multi Ops.RunLemmas Ops.Combinators Ops.CombineFacts.

Section Latest.
Context {A : Type}.

(* the last element source k delivered in `seen` *)
Definition latest (k : nat) (seen : list (nat * A)) : option A :=
  fold_left (fun acc p => if Nat.eqb (fst p) k then Some (snd p) else acc) seen None.

Definition snapshot (n : nat) (seen : list (nat * A)) : list (option A) :=
  map (fun j => latest j seen) (seq 0 n).

Definition is_some (v : option A) : bool := match v with Some _ => true | None => false end.
Definition full (vs : list (option A)) : bool := forallb is_some vs.
Definition strip (vs : list (option A)) : list A :=
  flat_map (fun v => match v with Some y => [y] | None => [] end) vs.

Lemma latest_snoc k seen k' x :
  latest k (seen ++ [(k', x)]) = if Nat.eqb k' k then Some x else latest k seen.
Proof. unfold latest. rewrite fold_left_app. reflexivity. Qed.

Lemma snapshot_length n seen : length (snapshot n seen) = n.
Proof. unfold snapshot. now rewrite map_length, seq_length. Qed.

Lemma snapshot_nth n seen j : (j < n)%nat -> nth j (snapshot n seen) None = latest j seen.
Proof.
  intros Hj. unfold snapshot.
  rewrite (nth_indep _ None (latest 0 seen)) by (rewrite map_length, seq_length; exact Hj).
  rewrite (map_nth (fun j => latest j seen) (seq 0 n) 0%nat j). now rewrite seq_nth.
Qed.

Lemma snapshot_snoc n seen k x : (k < n)%nat ->
  nth_set k (Some x) (snapshot n seen) = snapshot n (seen ++ [(k, x)]).
Proof.
  intros Hk. apply (nth_ext _ _ None None).
  - rewrite nth_set_length by (rewrite snapshot_length; exact Hk). now rewrite !snapshot_length.
  - intros j Hj. rewrite nth_set_length in Hj by (rewrite snapshot_length; exact Hk).
    rewrite snapshot_length in Hj. rewrite (snapshot_nth _ _ _ Hj), latest_snoc.
    destruct (Nat.eqb_spec k j) as [->|Hne].
    + apply nth_nth_set_same. now rewrite snapshot_length.
    + rewrite nth_nth_set_other by congruence. now apply snapshot_nth.
Qed.

(* a value once present stays present: fullness is monotone along deliveries *)
Lemma latest_some_mono k seen p : is_some (latest k seen) = true -> is_some (latest k (seen ++ [p])) = true.
Proof. destruct p as [k' x]. rewrite latest_snoc. destruct (Nat.eqb k' k); auto. Qed.

Lemma full_mono n seen p : full (snapshot n seen) = true -> full (snapshot n (seen ++ [p])) = true.
Proof.
  unfold full, snapshot. rewrite !forallb_forall. intros H v Hv.
  apply in_map_iff in Hv. destruct Hv as [j [<- Hj]].
  apply latest_some_mono. apply H. apply in_map_iff. now exists j.
Qed.

(* ---- combine_latest ---------------------------------------------------- *)

Fixpoint cl_spec (n : nat) (seen ins : list (nat * A)) : list (list A) :=
  match ins with
  | [] => []
  | p :: t =>
      let seen' := seen ++ [p] in
      (if full (snapshot n seen') then [strip (snapshot n seen')] else []) ++ cl_spec n seen' t
  end.

Fixpoint cl_feed (n : nat) (st : list (option A) * bool * list bool) (ins : list (nat * A))
    (outs : list (list A)) : (list (option A) * bool * list bool) * list (list A) :=
  match ins with
  | [] => (st, outs)
  | (k, x) :: t =>
      let '(st', cs, _) := x_step (x_combine_latest n) st 0 (ISrc k (Next x)) in
      cl_feed n st' t (outs ++ cemits cs)
  end.

Lemma cl_feed_from n (ins : list (nat * A)) : forall seen done outs,
  Forall (fun p => (fst p < n)%nat) ins ->
  cl_feed n (snapshot n seen, full (snapshot n seen), done) ins outs
  = ((snapshot n (seen ++ ins), full (snapshot n (seen ++ ins)), done), outs ++ cl_spec n seen ins).
Proof.
  induction ins as [|[k x] t IH]; intros seen done outs Hf.
  - cbn. now rewrite !app_nil_r.
  - inversion Hf as [|? ? Hk Ht]; subst. cbn [fst] in Hk.
    cbn [cl_feed cl_spec x_combine_latest x_step].
    rewrite (snapshot_snoc n seen k x Hk).
    change (forallb (fun v : option A => match v with Some _ => true | None => false end)) with full.
    change (flat_map (fun v : option A => match v with Some y => [y] | None => [] end)) with strip.
    replace (seen ++ (k, x) :: t) with ((seen ++ [(k, x)]) ++ t) by now rewrite <- app_assoc.
    assert (Hor : full (snapshot n seen) || full (snapshot n (seen ++ [(k, x)]))
                  = full (snapshot n (seen ++ [(k, x)]))).
    { destruct (full (snapshot n seen)) eqn:E; [|reflexivity].
      cbn. symmetry. now apply full_mono. }
    rewrite Hor.
    destruct (full (snapshot n (seen ++ [(k, x)]))) eqn:Hfull.
    + cbn [cemits flat_map app]. rewrite <- Hfull at 1.
      rewrite (IH (seen ++ [(k, x)]) done _ Ht). rewrite <- !app_assoc. reflexivity.
    + cbn [cemits flat_map app]. rewrite <- Hfull at 1.
      rewrite (IH (seen ++ [(k, x)]) done _ Ht). rewrite ?app_nil_r, <- ?app_assoc. reflexivity.
Qed.

Lemma snapshot_nil n : snapshot n [] = repeat None n.
Proof.
  unfold snapshot. generalize 0%nat. induction n as [|m IH]; intros s; cbn; [reflexivity|].
  f_equal. apply IH.
Qed.

(* n >= 1 sources, ANY sequence of deliveries: the emitted tuples are exactly the
   full snapshots, one per delivery from the first moment every source has a value *)
Theorem combine_latest_closed_form n (ins : list (nat * A)) done :
  (0 < n)%nat -> Forall (fun p => (fst p < n)%nat) ins ->
  snd (cl_feed n (repeat None n, false, done) ins []) = cl_spec n [] ins.
Proof.
  intros Hn Hf.
  assert (H0 : full (snapshot n []) = false).
  { rewrite snapshot_nil. destruct n; [lia|reflexivity]. }
  pose proof (cl_feed_from n ins [] done [] Hf) as H.
  rewrite H0, snapshot_nil in H. rewrite H. reflexivity.
Qed.

(* every emitted tuple has one component per source *)
Lemma strip_full_length vs : full vs = true -> length (strip vs) = length vs.
Proof.
  induction vs as [|[y|] t IH]; cbn; intros H; [reflexivity| |discriminate].
  f_equal. apply IH. exact H.
Qed.

Lemma strip_full_nth vs j (d : A) : full vs = true -> (j < length vs)%nat ->
  nth j vs None = Some (nth j (strip vs) d).
Proof.
  revert j. induction vs as [|[y|] t IH]; cbn; intros j H Hj; [lia| |discriminate].
  destruct j; [reflexivity|]. apply IH; [exact H|lia].
Qed.

Theorem combine_latest_tuples_are_latest n (seen ins : list (nat * A)) tuple :
  In tuple (cl_spec n seen ins) ->
  exists pre post, ins = pre ++ post /\ pre <> [] /\ length tuple = n /\
    forall j d, (j < n)%nat -> latest j (seen ++ pre) = Some (nth j tuple d).
Proof.
  revert seen. induction ins as [|p t IH]; intros seen Hin; [contradiction|].
  cbn [cl_spec] in Hin. apply in_app_or in Hin. destruct Hin as [Hin|Hin].
  - destruct (full (snapshot n (seen ++ [p]))) eqn:Hfull; [|contradiction].
    destruct Hin as [<-|[]]. exists [p], t. repeat split; [discriminate| |].
    + rewrite strip_full_length by exact Hfull. apply snapshot_length.
    + intros j d Hj. rewrite <- (snapshot_nth n _ j Hj).
      apply strip_full_nth; [exact Hfull|now rewrite snapshot_length].
  - destruct (IH (seen ++ [p]) Hin) as [pre [post [E [Hne [Hlen Hl]]]]].
    exists (p :: pre), post. repeat split; [now rewrite E|discriminate|exact Hlen|].
    intros j d Hj. specialize (Hl j d Hj). now rewrite <- app_assoc in Hl.
Qed.

(* ---- with_latest_from: parent = source 0, children = sources 1..n ----------- *)

Definition child_snapshot (n : nat) (seen : list (nat * A)) : list (option A) :=
  map (fun j => latest (S j) seen) (seq 0 n).

Fixpoint wlf_spec (n : nat) (seen ins : list (nat * A)) : list (list A) :=
  match ins with
  | [] => []
  | (k, x) :: t =>
      (match k with
       | O => if full (child_snapshot n seen) then [x :: strip (child_snapshot n seen)] else []
       | S _ => []
       end) ++ wlf_spec n (seen ++ [(k, x)]) t
  end.

Fixpoint wlf_feed (n : nat) (st : list (option A)) (ins : list (nat * A)) (outs : list (list A))
    : list (option A) * list (list A) :=
  match ins with
  | [] => (st, outs)
  | (k, x) :: t =>
      let '(st', cs, _) := x_step (x_with_latest_from n) st 0 (ISrc k (Next x)) in
      wlf_feed n st' t (outs ++ cemits cs)
  end.

Lemma child_snapshot_length n seen : length (child_snapshot n seen) = n.
Proof. unfold child_snapshot. now rewrite map_length, seq_length. Qed.

Lemma child_snapshot_nth n seen j : (j < n)%nat -> nth j (child_snapshot n seen) None = latest (S j) seen.
Proof.
  intros Hj. unfold child_snapshot.
  rewrite (nth_indep _ None (latest 1 seen)) by (rewrite map_length, seq_length; exact Hj).
  rewrite (map_nth (fun j => latest (S j) seen) (seq 0 n) 0%nat j). now rewrite seq_nth.
Qed.

Lemma child_snapshot_parent n seen x : child_snapshot n (seen ++ [(0%nat, x)]) = child_snapshot n seen.
Proof. unfold child_snapshot. apply map_ext. intros j. now rewrite latest_snoc. Qed.

Lemma child_snapshot_child n seen j x : (j < n)%nat ->
  nth_set j (Some x) (child_snapshot n seen) = child_snapshot n (seen ++ [(S j, x)]).
Proof.
  intros Hj. apply (nth_ext _ _ None None).
  - rewrite nth_set_length by (rewrite child_snapshot_length; exact Hj). now rewrite !child_snapshot_length.
  - intros i Hi. rewrite nth_set_length in Hi by (rewrite child_snapshot_length; exact Hj).
    rewrite child_snapshot_length in Hi. rewrite (child_snapshot_nth _ _ _ Hi), latest_snoc.
    cbn [Nat.eqb]. destruct (Nat.eqb_spec j i) as [->|Hne].
    + apply nth_nth_set_same. now rewrite child_snapshot_length.
    + rewrite nth_nth_set_other by congruence. now apply child_snapshot_nth.
Qed.

Lemma wlf_feed_from n (ins : list (nat * A)) : forall seen outs,
  Forall (fun p => (fst p <= n)%nat) ins ->
  wlf_feed n (child_snapshot n seen) ins outs
  = (child_snapshot n (seen ++ ins), outs ++ wlf_spec n seen ins).
Proof.
  induction ins as [|[k x] t IH]; intros seen outs Hf.
  - cbn. now rewrite !app_nil_r.
  - inversion Hf as [|? ? Hk Ht]; subst. cbn [fst] in Hk.
    cbn [wlf_feed wlf_spec]. destruct k as [|j].
    + cbn [x_with_latest_from x_step].
      change (forallb (fun v : option A => match v with Some _ => true | None => false end)) with full.
      change (flat_map (fun v : option A => match v with Some y => [y] | None => [] end)) with strip.
      replace (seen ++ (0%nat, x) :: t) with ((seen ++ [(0%nat, x)]) ++ t) by now rewrite <- app_assoc.
      rewrite <- (child_snapshot_parent n seen x) at 1.
      destruct (full (child_snapshot n seen)); cbn [cemits flat_map app];
        rewrite (IH (seen ++ [(0%nat, x)]) _ Ht), ?app_nil_r, <- ?app_assoc; reflexivity.
    + cbn [x_with_latest_from x_step]. rewrite (child_snapshot_child n seen j x) by lia.
      replace (seen ++ (S j, x) :: t) with ((seen ++ [(S j, x)]) ++ t) by now rewrite <- app_assoc.
      cbn [cemits flat_map app]. rewrite (IH (seen ++ [(S j, x)]) _ Ht), ?app_nil_r, <- ?app_assoc.
      reflexivity.
Qed.

Lemma child_snapshot_nil n : child_snapshot n [] = repeat None n.
Proof.
  unfold child_snapshot. generalize 0%nat. induction n as [|m IH]; intros s; cbn; [reflexivity|].
  f_equal. apply IH.
Qed.

(* ANY sequence of deliveries: exactly the parent's elements that arrive once every
   child has delivered something are emitted, each with the children's latest elements *)
Theorem with_latest_from_closed_form n (ins : list (nat * A)) :
  Forall (fun p => (fst p <= n)%nat) ins ->
  snd (wlf_feed n (repeat None n) ins []) = wlf_spec n [] ins.
Proof.
  intros Hf. pose proof (wlf_feed_from n ins [] [] Hf) as H.
  rewrite child_snapshot_nil in H. rewrite H. reflexivity.
Qed.
End Latest.

(* ---- fork_join: the tuple of LAST elements, once, when every source has completed -- *)
Section ForkJoin.
Context {A : Type}.

(* deliveries: (source, Some x) = element, (source, None) = completion *)
Fixpoint fj_spec (n : nat) (seen : list (nat * A)) (done : list bool) (ins : list (nat * option A))
  : list (list A) * bool :=
  match ins with
  | [] => ([], false)
  | (k, Some x) :: t => fj_spec n (seen ++ [(k, x)]) done t
  | (k, None) :: t =>
      let done1 := nth_set k true done in
      match latest k seen with
      | None => ([], true)                       (* a source completing empty completes the output at once *)
      | Some _ => if forallb (fun d => d) done1
                  then ([strip (snapshot n seen)], true)
                  else fj_spec n seen done1 t
      end
  end.

Fixpoint fj_feed (n : nat) (st : list (option A) * list bool) (ins : list (nat * option A))
  (outs : list (list A)) : list (list A) * bool :=
  match ins with
  | [] => (outs, false)
  | (k, o) :: t =>
      let '(st', cs, f) := x_step (x_fork_join n) st 0
                             (ISrc k (match o with Some x => Next x | None => Done end)) in
      match f with
      | Cont => fj_feed n st' t (outs ++ cemits cs)
      | _ => (outs ++ cemits cs, true)
      end
  end.

Lemma fj_feed_from n (ins : list (nat * option A)) : forall seen done outs,
  Forall (fun p => (fst p < n)%nat) ins ->
  fj_feed n (snapshot n seen, done) ins outs
  = (outs ++ fst (fj_spec n seen done ins), snd (fj_spec n seen done ins)).
Proof.
  induction ins as [|[k [x|]] t IH]; intros seen done outs Hf.
  - cbn. now rewrite app_nil_r.
  - inversion Hf as [|? ? Hk Ht]; subst. cbn [fst] in Hk.
    cbn [fj_feed fj_spec x_fork_join x_step]. rewrite (snapshot_snoc n seen k x Hk).
    cbn [cemits flat_map app]. rewrite app_nil_r. apply IH. exact Ht.
  - inversion Hf as [|? ? Hk Ht]; subst. cbn [fst] in Hk.
    cbn [fj_feed fj_spec x_fork_join x_step]. rewrite (snapshot_nth n seen k Hk).
    destruct (latest k seen) as [y|].
    + change (flat_map (fun v : option A => match v with Some y => [y] | None => [] end)) with (@strip A).
      destruct (forallb (fun d : bool => d) (nth_set k true done)).
      * cbn [cemits flat_map app fst snd]. reflexivity.
      * cbn [cemits flat_map app]. rewrite app_nil_r. apply IH. exact Ht.
    + cbn [cemits flat_map app fst snd]. now rewrite app_nil_r.
Qed.

(* n sources, ANY sequence of deliveries and completions: the machine's output up to its
   termination is [fj_spec]: nothing until every source has completed, then ONE tuple made of
   the last element of every source -- or an immediate, empty completion as soon as a source
   completes without having delivered anything *)
Theorem fork_join_closed_form n (ins : list (nat * option A)) :
  Forall (fun p => (fst p < n)%nat) ins ->
  fj_feed n (repeat None n, repeat false n) ins [] = fj_spec n [] (repeat false n) ins.
Proof.
  intros Hf. rewrite <- snapshot_nil. rewrite (fj_feed_from n ins [] (repeat false n) [] Hf).
  cbn [app]. destruct (fj_spec n [] (repeat false n) ins). reflexivity.
Qed.

(* at most one tuple is ever emitted *)
Lemma fj_spec_at_most_one n (ins : list (nat * option A)) : forall seen done,
  (length (fst (fj_spec n seen done ins)) <= 1)%nat.
Proof.
  induction ins as [|[k [x|]] t IH]; intros seen done; cbn [fj_spec]; [cbn; lia|apply IH|].
  destruct (latest k seen); [|cbn; lia].
  destruct (forallb (fun d : bool => d) (nth_set k true done)); [cbn; lia|apply IH].
Qed.
End ForkJoin.
