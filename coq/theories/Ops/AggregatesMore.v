(* C06, second batch: contains, first/last/single with a predicate, to_set,
   sequence_equal against an iterable, sum/average with a key selector. *)
From RxVerif Require Import Base.Prelude Ops.Machine Ops.MachineFacts Ops.ComposeFacts Ops.Elementwise
  Ops.ElementwiseFacts Ops.Aggregates Ops.AggregatesFacts.

Section More.
Context {A : Type}.

(* contains(v, comparer): decided by the first element equal to v *)
Theorem contains_spec (eqb : A -> A -> bool) (v : A) (xs : list A) t :
  untag (exec (op_contains (pure2 eqb) v) (events xs t))
  = if existsb (fun x => eqb x v) xs then [Next true; Done]
    else match t with TDone => [Next false; Done] | TErr e => [Err e] | TNever => [] end.
Proof.
  unfold op_contains.
  change (fun x : A => pure2 eqb x v) with (pure (fun x : A => eqb x v)).
  fold (op_some_pred (pure (fun x : A => eqb x v))). apply some_pred_spec.
Qed.

(* first / last / single with a predicate = the plain operator on the filtered list *)
Theorem first_pred_spec (p : A -> bool) default (xs : list A) t :
  untag (exec (op_first_pred (pure p) default) (events xs t))
  = untag (exec (op_first default) (events (filter p xs) t)).
Proof. unfold op_first_pred. now rewrite compose_exec, filter_untag. Qed.

Theorem last_pred_spec (p : A -> bool) default (xs : list A) t :
  untag (exec (op_last_pred (pure p) default) (events xs t))
  = untag (exec (op_last default) (events (filter p xs) t)).
Proof. unfold op_last_pred. now rewrite compose_exec, filter_untag. Qed.

Theorem single_pred_spec (p : A -> bool) default (xs : list A) t :
  untag (exec (op_single_pred (pure p) default) (events xs t))
  = untag (exec (op_single default) (events (filter p xs) t)).
Proof. unfold op_single_pred. now rewrite compose_exec, filter_untag. Qed.

(* ---- to_set: first occurrences, in arrival order, emitted once at completion *)
Definition dedup_step (eqb : A -> A -> bool) (s : list A) (x : A) : list A :=
  if existsb (eqb x) s then s else s ++ [x].
Definition dedup (eqb : A -> A -> bool) (xs : list A) : list A := fold_left (dedup_step eqb) xs [].

Lemma to_set_from eqb (xs : list A) t s k :
  untag (exec_from (op_to_set eqb) s k (events xs t))
  = match t with TDone => [Next (fold_left (dedup_step eqb) xs s); Done] | TErr e => [Err e] | TNever => [] end.
Proof.
  revert s k; induction xs as [|x r IH]; intros s k.
  - destruct t; reflexivity.
  - rewrite events_cons, exec_from_cons. cbn -[exec_from untag]. rewrite IH. reflexivity.
Qed.

Theorem to_set_spec eqb (xs : list A) t :
  untag (exec (op_to_set eqb) (events xs t))
  = match t with TDone => [Next (dedup eqb xs); Done] | TErr e => [Err e] | TNever => [] end.
Proof. unfold exec. cbn -[exec_from untag]. apply to_set_from. Qed.

Lemma dedup_from_sound eqb (xs : list A) : forall s y,
  In y (fold_left (dedup_step eqb) xs s) -> In y s \/ In y xs.
Proof.
  induction xs as [|x r IH]; intros s y H; [left; exact H|].
  cbn [fold_left] in H. apply IH in H. destruct H as [H|H]; [|right; right; exact H].
  unfold dedup_step in H. destruct (existsb (eqb x) s); [left; exact H|].
  apply in_app_or in H. destruct H as [H|[<-|[]]]; [left; exact H|right; left; reflexivity].
Qed.

(* every member of the emitted set is an element of the source ... *)
Theorem dedup_sound eqb (xs : list A) y : In y (dedup eqb xs) -> In y xs.
Proof. intros H. apply dedup_from_sound in H. destruct H as [[]|H]. exact H. Qed.

Lemma dedup_from_keeps eqb (xs : list A) : forall s y, In y s -> In y (fold_left (dedup_step eqb) xs s).
Proof.
  induction xs as [|x r IH]; intros s y H; [exact H|].
  cbn [fold_left]. apply IH. unfold dedup_step. destruct (existsb (eqb x) s); [exact H|].
  apply in_or_app. left. exact H.
Qed.

(* ... and every element of the source is represented (up to the comparer) *)
Theorem dedup_complete eqb (xs : list A) : (forall x, eqb x x = true) ->
  forall x, In x xs -> exists y, In y (dedup eqb xs) /\ eqb x y = true.
Proof.
  intros Hrefl. unfold dedup. generalize (@nil A).
  induction xs as [|a r IH]; intros s x Hin; [contradiction|].
  cbn [fold_left]. destruct Hin as [->|Hin]; [|apply IH; exact Hin].
  unfold dedup_step at 2. destruct (existsb (eqb x) s) eqn:E.
  - apply existsb_exists in E. destruct E as [y [Hy Hxy]].
    exists y. split; [apply dedup_from_keeps; exact Hy|exact Hxy].
  - exists x. split; [|apply Hrefl]. apply dedup_from_keeps. apply in_or_app. right. left. reflexivity.
Qed.

(* ---- sequence_equal(iterable) ----------------------------------------------- *)
(* None: a mismatch decided the answer (false) early; Some q: undecided, q still expected *)
Fixpoint se_run (eqb : A -> A -> bool) (qr xs : list A) {struct xs} : option (list A) :=
  match xs with
  | [] => Some qr
  | x :: r => match qr with
              | v :: t => if eqb v x then se_run eqb t r else None
              | [] => None
              end
  end.

Lemma sequence_equal_from eqb (second xs : list A) t qr k :
  untag (exec_from (op_sequence_equal_iter (pure2 eqb) second) qr k (events xs t))
  = match se_run eqb qr xs with
    | None => [Next false; Done]
    | Some q => match t with
                | TDone => [Next (match q with [] => true | _ => false end); Done]
                | TErr e => [Err e]
                | TNever => []
                end
    end.
Proof.
  revert qr k; induction xs as [|x r IH]; intros qr k.
  - destruct t, qr; reflexivity.
  - rewrite events_cons, exec_from_cons. cbn -[exec_from untag].
    destruct qr as [|v q]; [reflexivity|]. unfold pure2. cbn [se_run]. destruct (eqb v x); [|reflexivity].
    cbn -[exec_from untag]. apply IH.
Qed.

Theorem sequence_equal_iter_spec eqb (second xs : list A) t :
  untag (exec (op_sequence_equal_iter (pure2 eqb) second) (events xs t))
  = match se_run eqb second xs with
    | None => [Next false; Done]
    | Some q => match t with
                | TDone => [Next (match q with [] => true | _ => false end); Done]
                | TErr e => [Err e]
                | TNever => []
                end
    end.
Proof. unfold exec. cbn -[exec_from untag]. apply sequence_equal_from. Qed.

(* the answer is true exactly when the two sequences are pointwise equal and equally long *)
Theorem se_run_true_iff eqb (qr xs : list A) :
  se_run eqb qr xs = Some [] <-> Forall2 (fun v x => eqb v x = true) qr xs.
Proof.
  revert qr; induction xs as [|x r IH]; intros qr.
  - cbn [se_run]. split.
    + intros H. assert (qr = []) as -> by congruence. constructor.
    + intros H. inversion H. reflexivity.
  - destruct qr as [|v q]; cbn [se_run].
    + split; [discriminate|intros H; inversion H].
    + destruct (eqb v x) eqn:E.
      * rewrite IH. split.
        -- intros H. constructor; assumption.
        -- intros H. inversion H. assumption.
      * split; [discriminate|]. intros H. inversion H. congruence.
Qed.
End More.

(* ---- sum / average with a key selector --------------------------------------- *)
Section Keyed.
Context {A : Type}.

Lemma map_untag (f : A -> Z) (xs : list A) t :
  untag (exec (op_map (pure f)) (events xs t)) = events (map f xs) t.
Proof.
  rewrite map_spec, untag_app, untag_nexts, untag_tterm. unfold events. f_equal. f_equal.
  generalize 1%nat. induction (map f xs) as [|y r IH]; intros k; cbn; [reflexivity|]. now rewrite IH.
Qed.

Theorem sum_key_spec (key : A -> Z) (xs : list A) t :
  untag (exec (op_sum_key (pure key)) (events xs t))
  = match t with TDone => [Next (fold_left Z.add (map key xs) 0); Done] | TErr e => [Err e] | TNever => [] end.
Proof. unfold op_sum_key. rewrite compose_exec, map_untag. apply sum_spec. Qed.

(* average(key) as the exact pair (sum, count): emitted at completion; an empty
   source fails with "no elements" *)
Theorem average_pair_spec (key : A -> Z) (xs : list A) t :
  untag (exec (op_average_pair (pure key)) (events xs t))
  = match t with
    | TDone => match xs with
               | [] => [Err EXN_NO_ELEMENTS]
               | _ => [Next (fold_left (fun (s : Z * Z) x => (fst s + x, snd s + 1)) (map key xs) (0, 0)); Done]
               end
    | TErr e => [Err e]
    | TNever => []
    end.
Proof.
  unfold op_average_pair. rewrite !compose_exec, map_untag.
  change (fun (s : Z * Z) (x : Z) => Ok (fst s + x, snd s + 1))
    with (pure2 (fun (s : Z * Z) (x : Z) => (fst s + x, snd s + 1))).
  rewrite scan_seed_spec, last_spec. destruct t; try reflexivity.
  rewrite last_opt_scanl. destruct xs; reflexivity.
Qed.

Lemma average_fold (ys : list Z) : forall s c,
  fold_left (fun (p : Z * Z) x => (fst p + x, snd p + 1)) ys (s, c)
  = (s + fold_left Z.add ys 0, c + Z.of_nat (length ys)).
Proof.
  induction ys as [|y r IH]; intros s c.
  - cbn. f_equal; lia.
  - cbn [fold_left length fst snd]. rewrite IH.
    assert (H : forall a, fold_left Z.add r a = a + fold_left Z.add r 0).
    { clear. induction r as [|z r IH]; intros a; cbn; [lia|]. rewrite IH, (IH z). lia. }
    rewrite (H (0 + y)). f_equal; lia.
Qed.

(* ... and the pair is (sum of the keys, number of elements) *)
Corollary average_pair_value (key : A -> Z) (xs : list A) :
  fold_left (fun (s : Z * Z) x => (fst s + x, snd s + 1)) (map key xs) (0, 0)
  = (fold_left Z.add (map key xs) 0, Z.of_nat (length xs)).
Proof. rewrite average_fold, map_length. f_equal; lia. Qed.
End Keyed.

(* ---- extrema: max_by / min_by over integer keys -------------------------------- *)
Section Extrema.
Context {A : Type}.
Variable key : A -> Z.
Variable cmp : Z -> Z -> res Z.
Variable rank : Z -> Z.
(* the comparer never raises and orders keys by [rank] (identity for max_by,
   negation for min_by) *)
Hypothesis cmp_ok : forall a b, exists c, cmp a b = Ok c
  /\ (c >? 0) = (rank a >? rank b) /\ (c >=? 0) = (rank a >=? rank b).

Definition ext_inv (seen : list A) (st : option Z * list A) : Prop :=
  match fst st with
  | None => seen = [] /\ snd st = []
  | Some lk => (forall y, In y seen -> rank (key y) <= rank lk)
               /\ (exists y, In y seen /\ rank (key y) = rank lk)
               /\ snd st = filter (fun y => rank (key y) =? rank lk) seen
  end.

Lemma filter_none (p : A -> bool) (l : list A) : (forall y, In y l -> p y = false) -> filter p l = [].
Proof.
  induction l as [|a l IH]; intros H; [reflexivity|]. cbn. rewrite (H a (or_introl eq_refl)).
  apply IH. intros y Hy. apply H. right. exact Hy.
Qed.

Lemma filter_same (p q : A -> bool) (l : list A) : (forall y, In y l -> p y = q y) -> filter p l = filter q l.
Proof.
  induction l as [|a l IH]; intros H; [reflexivity|]. cbn. rewrite (H a (or_introl eq_refl)).
  rewrite IH; [reflexivity|]. intros y Hy. apply H. right. exact Hy.
Qed.

Lemma extrema_from (xs : list A) t : forall seen st k, ext_inv seen st ->
  exists items,
    untag (exec_from (op_extrema_by (pure key) cmp) st k (events xs t))
    = match t with TDone => [Next items; Done] | TErr e => [Err e] | TNever => [] end
    /\ exists st', snd st' = items /\ ext_inv (seen ++ xs) st'.
Proof.
  induction xs as [|x r IH]; intros seen [last items] k Hinv.
  - exists items. split; [destruct t; reflexivity|]. exists (last, items). rewrite app_nil_r. auto.
  - rewrite events_cons, exec_from_cons. cbn -[exec_from untag pure].
    change (pure key x) with (Ok (key x)). cbn -[exec_from untag pure].
    destruct last as [lk|].
    + destruct Hinv as (Hle & (y0 & Hy0 & Hy0k) & Hit). cbn [fst snd] in *.
      destruct (cmp_ok (key x) lk) as (c & Hc & Hgt & Hge). rewrite Hc.
      cbn -[exec_from untag pure].
      replace (seen ++ x :: r) with ((seen ++ [x]) ++ r) by now rewrite <- app_assoc.
      apply IH. unfold ext_inv. cbn [fst snd].
      rewrite Hgt, Hge.
      destruct (rank (key x) >? rank lk) eqn:Egt.
      * (* strictly better: the collection restarts with x *)
        assert (Hlt : rank lk < rank (key x)) by lia.
        assert (Hge' : (rank (key x) >=? rank lk) = true) by lia. rewrite Hge'.
        split; [|split].
        -- intros y Hy. apply in_app_or in Hy. destruct Hy as [Hy|[<-|[]]]; [specialize (Hle y Hy)|]; lia.
        -- exists x. split; [apply in_or_app; right; left; reflexivity|reflexivity].
        -- rewrite filter_app. cbn [filter]. rewrite Z.eqb_refl.
           rewrite filter_none; [reflexivity|]. intros y Hy. specialize (Hle y Hy). lia.
      * destruct (rank (key x) >=? rank lk) eqn:Ege.
        -- (* equally good: appended *)
           assert (Heq : rank (key x) = rank lk) by lia.
           split; [|split].
           ++ intros y Hy. apply in_app_or in Hy. destruct Hy as [Hy|[<-|[]]]; [apply Hle; exact Hy|lia].
           ++ exists y0. split; [apply in_or_app; left; exact Hy0|exact Hy0k].
           ++ rewrite filter_app. cbn [filter]. rewrite Heq, Z.eqb_refl, Hit. reflexivity.
        -- (* worse: ignored *)
           assert (Hlt : rank (key x) < rank lk) by lia.
           split; [|split].
           ++ intros y Hy. apply in_app_or in Hy. destruct Hy as [Hy|[<-|[]]]; [apply Hle; exact Hy|lia].
           ++ exists y0. split; [apply in_or_app; left; exact Hy0|exact Hy0k].
           ++ rewrite filter_app. cbn [filter].
              assert (E : (rank (key x) =? rank lk) = false) by lia. rewrite E, app_nil_r. exact Hit.
    + destruct Hinv as [-> Hit]. cbn [fst snd] in *. subst items. cbn -[exec_from untag pure].
      apply (IH [x] (Some (key x), [x]) (S k)). unfold ext_inv. cbn [fst snd app].
      split; [|split].
      * intros y [<-|[]]. lia.
      * exists x. split; [left; reflexivity|reflexivity].
      * cbn [filter]. now rewrite Z.eqb_refl.
Qed.

(* the list emitted at completion: every element whose key is extremal, in arrival order *)
Theorem extrema_spec (xs : list A) t :
  exists items,
    untag (exec (op_extrema_by (pure key) cmp) (events xs t))
    = match t with TDone => [Next items; Done] | TErr e => [Err e] | TNever => [] end
    /\ match xs with
       | [] => items = []
       | _ => exists m, (forall y, In y xs -> rank (key y) <= m)
                        /\ (exists y, In y xs /\ rank (key y) = m)
                        /\ items = filter (fun y => rank (key y) =? m) xs
       end.
Proof.
  unfold exec. cbn -[exec_from untag].
  destruct (extrema_from xs t [] (None, []) 1) as (items & Hrun & st' & Hst & Hinv).
  { unfold ext_inv. cbn. auto. }
  exists items. split; [exact Hrun|]. cbn [app] in Hinv. unfold ext_inv in Hinv.
  destruct xs as [|x r].
  - destruct (fst st'); [|destruct Hinv as [_ H]; congruence].
    destruct Hinv as (_ & (y & [] & _) & _).
  - destruct (fst st') as [lk|]; [|destruct Hinv as [H _]; discriminate].
    destruct Hinv as (Hle & Hex & Hit). exists (rank lk). rewrite <- Hst. auto.
Qed.
End Extrema.

(* instances: max_by / min_by with the integer comparer a - b *)
Lemma max_cmp_ok : forall a b : Z, exists c, pure2 Z.sub a b = Ok c
  /\ (c >? 0) = ((fun z => z) a >? (fun z => z) b) /\ (c >=? 0) = ((fun z => z) a >=? (fun z => z) b).
Proof. intros a b. exists (a - b). unfold pure2. repeat split; lia. Qed.

Lemma min_cmp_ok : forall a b : Z, exists c, res_neg (pure2 Z.sub a b) = Ok c
  /\ (c >? 0) = (Z.opp a >? Z.opp b) /\ (c >=? 0) = (Z.opp a >=? Z.opp b).
Proof. intros a b. exists (- (a - b)). unfold pure2, res_neg. repeat split; lia. Qed.

Theorem max_by_spec {A} (key : A -> Z) (xs : list A) t :
  exists items,
    untag (exec (op_max_by (pure key) (pure2 Z.sub)) (events xs t))
    = match t with TDone => [Next items; Done] | TErr e => [Err e] | TNever => [] end
    /\ match xs with
       | [] => items = []
       | _ => exists m, (forall y, In y xs -> key y <= m) /\ (exists y, In y xs /\ key y = m)
                        /\ items = filter (fun y => key y =? m) xs
       end.
Proof. unfold op_max_by. exact (extrema_spec key (pure2 Z.sub) (fun z => z) max_cmp_ok xs t). Qed.

Theorem min_by_spec {A} (key : A -> Z) (xs : list A) t :
  exists items,
    untag (exec (op_min_by (pure key) (pure2 Z.sub)) (events xs t))
    = match t with TDone => [Next items; Done] | TErr e => [Err e] | TNever => [] end
    /\ match xs with
       | [] => items = []
       | _ => exists m, (forall y, In y xs -> m <= key y) /\ (exists y, In y xs /\ key y = m)
                        /\ items = filter (fun y => key y =? m) xs
       end.
Proof.
  unfold op_min_by.
  destruct (extrema_spec key (fun x y => res_neg (pure2 Z.sub x y)) Z.opp min_cmp_ok xs t) as (items & H1 & H2).
  exists items. split; [exact H1|]. destruct xs as [|x r]; [exact H2|].
  destruct H2 as (m & Hle & (y & Hy & Hym) & Hit). exists (- m). split; [|split].
  - intros z Hz. specialize (Hle z Hz). lia.
  - exists y. split; [exact Hy|lia].
  - rewrite Hit. apply filter_same. intros z _. lia.
Qed.

(* ---- max / min over integers: max_by(identity) ; map(first of the list) ---------- *)
Lemma filter_eq_head (m : Z) (xs : list Z) : In m xs ->
  exists rest, filter (fun y => y =? m) xs = m :: rest.
Proof.
  induction xs as [|x r IH]; intros Hin; [contradiction|]. cbn [filter].
  destruct (Z.eqb_spec x m) as [->|Hne].
  - eexists. reflexivity.
  - destruct Hin as [->|Hin]; [congruence|]. exact (IH Hin).
Qed.

Lemma first_only_stage (items : list Z) :
  untag (exec (op_map (@first_only Z)) [Next items; Done])
  = match items with [] => [Err EXN_NO_ELEMENTS] | x :: _ => [Next x; Done] end.
Proof. destruct items; reflexivity. Qed.

Theorem max_spec (xs : list Z) t :
  untag (exec (op_max (pure2 Z.sub)) (events xs t))
  = match t with
    | TDone => match xs with
               | [] => [Err EXN_NO_ELEMENTS]
               | x :: r => [Next (fold_left Z.max r x); Done]
               end
    | TErr e => [Err e]
    | TNever => []
    end.
Proof.
  unfold op_max. rewrite compose_exec.
  change (fun x : Z => Ok x) with (pure (fun x : Z => x)).
  destruct (max_by_spec (fun x : Z => x) xs t) as (items & H1 & H2). rewrite H1.
  destruct t; [|reflexivity|reflexivity].
  rewrite first_only_stage. destruct xs as [|x r]; [now subst items|].
  destruct H2 as (m & Hle & (y & Hy & Hym) & Hit). cbn beta in *. subst y.
  destruct (filter_eq_head m (x :: r) Hy) as [rest Hf]. rewrite Hit, Hf.
  (* m is the maximum *)
  assert (Hm : m = fold_left Z.max r x).
  { assert (G : forall l a, (forall y, In y (a :: l) -> y <= fold_left Z.max l a)
                          /\ In (fold_left Z.max l a) (a :: l)).
    { clear. induction l as [|b l IH]; intros a.
      - cbn. split; [intros y [<-|[]]; lia|left; reflexivity].
      - cbn [fold_left]. destruct (IH (Z.max a b)) as [I1 I2]. split.
        + intros y [<-|[<-|Hy]].
          * specialize (I1 (Z.max a b) (or_introl eq_refl)). lia.
          * specialize (I1 (Z.max a b) (or_introl eq_refl)). lia.
          * apply I1. right. exact Hy.
        + destruct I2 as [I2|I2].
          * rewrite <- I2. destruct (Z.max_spec a b) as [[_ ->]|[_ ->]]; [right; left; reflexivity|left; reflexivity].
          * right. right. exact I2. }
    destruct (G r x) as [G1 G2]. specialize (Hle _ G2). specialize (G1 _ Hy). lia. }
  now rewrite Hm.
Qed.

Theorem min_spec (xs : list Z) t :
  untag (exec (op_min (pure2 Z.sub)) (events xs t))
  = match t with
    | TDone => match xs with
               | [] => [Err EXN_NO_ELEMENTS]
               | x :: r => [Next (fold_left Z.min r x); Done]
               end
    | TErr e => [Err e]
    | TNever => []
    end.
Proof.
  unfold op_min. rewrite compose_exec.
  change (fun x : Z => Ok x) with (pure (fun x : Z => x)).
  destruct (min_by_spec (fun x : Z => x) xs t) as (items & H1 & H2). rewrite H1.
  destruct t; [|reflexivity|reflexivity].
  rewrite first_only_stage. destruct xs as [|x r]; [now subst items|].
  destruct H2 as (m & Hle & (y & Hy & Hym) & Hit). cbn beta in *. subst y.
  destruct (filter_eq_head m (x :: r) Hy) as [rest Hf]. rewrite Hit, Hf.
  assert (Hm : m = fold_left Z.min r x).
  { assert (G : forall l a, (forall y, In y (a :: l) -> fold_left Z.min l a <= y)
                          /\ In (fold_left Z.min l a) (a :: l)).
    { clear. induction l as [|b l IH]; intros a.
      - cbn. split; [intros y [<-|[]]; lia|left; reflexivity].
      - cbn [fold_left]. destruct (IH (Z.min a b)) as [I1 I2]. split.
        + intros y [<-|[<-|Hy]].
          * specialize (I1 (Z.min a b) (or_introl eq_refl)). lia.
          * specialize (I1 (Z.min a b) (or_introl eq_refl)). lia.
          * apply I1. right. exact Hy.
        + destruct I2 as [I2|I2].
          * rewrite <- I2. destruct (Z.min_spec a b) as [[_ ->]|[_ ->]]; [left; reflexivity|right; left; reflexivity].
          * right. right. exact I2. }
    destruct (G r x) as [G1 G2]. specialize (Hle _ G2). specialize (G1 _ Hy). lia. }
  now rewrite Hm.
Qed.
