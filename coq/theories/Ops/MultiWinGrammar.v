(* C01 for the window/group runner (Ops/MultiWin.v): notification grammar of
   the subscribers the runner serves, for EVERY machine, EVERY subscription
   policy [imm] and EVERY input sequence.

   * the OUTER subscriber (elements and handed observables are its on_next
     calls): Next* (Err | Done)? -- [run_outer_grammar], [run_emitted_grammar];
   * a handed window / group g: [wevents g] is the merged record of what ALL
     subscriptions of g received (the trace does not tell subscriptions of the
     same g apart: a notification is logged once per live subscription, and a
     subscription made after g's terminal is answered with that terminal).
     For that record: elements, then copies of ONE terminal, at most as many
     copies as subscriptions of g were attempted ([run_window_grammar]); so
     with at most one subscription of g -- the case of a single subscriber --
     it is Next* (Err | Done)? ([run_window_single_subscriber_grammar]).  With
     two subscriptions of g the merged record is NOT in the grammar although
     each subscriber's own sequence is ([two_subscribers_merged_record]). *)
From RxVerif Require Import Base.Prelude Ops.Machine Ops.MultiWin Ops.MultiWinFacts Ops.Windows.

Local Arguments Multi.mem : simpl never.
Local Arguments Multi.remove : simpl never.
Local Arguments Multi.sort_nat : simpl never.

Definition nonterm {X} (e : ev X) : Prop := is_terminal e = false.

Lemma nonterm_wf {X} (l : list (ev X)) rest : Forall nonterm l -> wellformed (l ++ rest) = wellformed rest.
Proof.
  induction 1 as [|e t He Ht IH]; [reflexivity|].
  destruct e; cbn in *; try discriminate. exact IH.
Qed.

Lemma nonterm_wf_term {X} (l : list (ev X)) t : Forall nonterm l -> wellformed (l ++ [t]) = true.
Proof. intros H. rewrite nonterm_wf by exact H. destruct t; reflexivity. Qed.

Lemma nonterm_wf_nil {X} (l : list (ev X)) : Forall nonterm l -> wellformed l = true.
Proof. intros H. rewrite <- (app_nil_r l), nonterm_wf by exact H. reflexivity. Qed.

Section Grammar.
Context {A W B : Type}.

(* ================================================= windows and groups === *)
Variable g : nat.

(* subscriptions of g made inside the on_next that hands it *)
Definition is_hand (x : obs W B) : bool := match x with OHand j _ => Nat.eqb g j | _ => false end.
Definition hcnt (o : list (obs W B)) : nat := length (filter is_hand o).
Lemma hcnt_app a b : hcnt (a ++ b) = (hcnt a + hcnt b)%nat.
Proof. unfold hcnt. now rewrite filter_app, app_length. Qed.

(* what all subscriptions of g have received so far ([Wl]) against the runner
   state, with [a] = subscriptions of g attempted so far *)
Definition winP (r : rstate W) (Wl : list (ev W)) (a : nat) : Prop :=
  match wterm_of g (r_wterm r) with
  | None => Forall nonterm Wl /\ (count_of g (r_wsubs r) <= a)%nat
  | Some t => is_terminal t = true /\ count_of g (r_wsubs r) = 0%nat
              /\ exists ns n, Wl = ns ++ repeat t n /\ Forall nonterm ns /\ (n <= a)%nat
  end.

Lemma winP_ext r r' Wl a : r_wterm r' = r_wterm r -> r_wsubs r' = r_wsubs r -> winP r Wl a -> winP r' Wl a.
Proof. unfold winP. intros -> ->. auto. Qed.

Lemma winP_mono r Wl a a' : (a <= a')%nat -> winP r Wl a -> winP r Wl a'.
Proof.
  unfold winP. intros Hle. destruct (wterm_of g (r_wterm r)).
  - intros (H1 & H2 & ns & n & H3 & H4 & H5). repeat split; auto. exists ns, n. repeat split; auto. lia.
  - intros [H1 H2]. split; [auto|lia].
Qed.

Lemma winP_shape r Wl a : winP r Wl a ->
  exists ns t n, Wl = ns ++ repeat t n /\ Forall nonterm ns /\ is_terminal t = true /\ (n <= a)%nat.
Proof.
  unfold winP. destruct (wterm_of g (r_wterm r)) as [t|].
  - intros (H1 & _ & ns & n & H3 & H4 & H5). exists ns, t, n. auto.
  - intros [H1 _]. exists Wl, Done, 0%nat. cbn [repeat]. rewrite app_nil_r. repeat split; auto. lia.
Qed.

Lemma maybe_release_fields (r : rstate W) :
  r_wterm (fst (@maybe_release W B r)) = r_wterm r /\ r_wsubs (fst (@maybe_release W B r)) = r_wsubs r.
Proof.
  unfold maybe_release. destruct r as [lv tm ou ws wt hd rl]. cbn.
  destruct ou, rl, ws; cbn; auto.
Qed.

Lemma hcnt_release (r : rstate W) : hcnt (snd (@maybe_release W B r)) = 0%nat.
Proof.
  unfold maybe_release.
  destruct (negb (r_outer r) && negb (r_released r) && match r_wsubs r with [] => true | _ => false end);
    cbn [snd]; [|reflexivity].
  rewrite hcnt_app.
  assert (H1 : forall l, hcnt (map (@OUnsub W B) l) = 0%nat) by (induction l; auto).
  assert (H2 : forall l, hcnt (map (@OCancel W B) l) = 0%nat) by (induction l; auto).
  now rewrite H1, H2.
Qed.

Lemma winP_release r Wl a : winP r Wl a -> winP (fst (@maybe_release W B r)) Wl a.
Proof. destruct (maybe_release_fields r) as [H1 H2]. apply winP_ext; assumption. Qed.

Lemma count_of_snoc j (l : list nat) : count_of g (l ++ [j]) = (count_of g l + if Nat.eqb g j then 1 else 0)%nat.
Proof. unfold count_of. rewrite filter_app, app_length. cbn [filter]. destruct (Nat.eqb g j); reflexivity. Qed.

Lemma repeat_snoc {X} (t : X) n : repeat t n ++ [t] = repeat t (S n).
Proof. induction n as [|n IH]; [reflexivity|]. cbn [repeat app]. now rewrite IH. Qed.

Lemma wobs1_same (e : ev W) : wobs (B:=B) g [OWin g e] = [e].
Proof. cbn. now rewrite Nat.eqb_refl. Qed.
Lemma wobs1_other j (e : ev W) : g <> j -> wobs (B:=B) g [OWin j e] = [].
Proof. intros H. cbn. destruct (Nat.eqb_spec g j); [congruence|reflexivity]. Qed.

(* the subscriber subscribes to handed observable j *)
Lemma winP_sub_win r j Wl a : winP r Wl a ->
  winP (fst (@sub_win W B r j)) (Wl ++ wobs g (snd (@sub_win W B r j))) (a + if Nat.eqb g j then 1 else 0)
  /\ hcnt (snd (@sub_win W B r j)) = 0%nat.
Proof.
  intros HP. unfold sub_win. destruct (wterm_of j (r_wterm r)) as [t|] eqn:Ej; cbn [fst snd].
  - split; [|reflexivity]. destruct (Nat.eqb_spec g j) as [<-|Hne].
    + rewrite wobs1_same. unfold winP in *. rewrite Ej in *.
      destruct HP as (H1 & H2 & ns & n & H3 & H4 & H5). repeat split; auto.
      exists ns, (S n). rewrite H3, <- app_assoc, repeat_snoc. repeat split; auto. lia.
    + rewrite wobs1_other by exact Hne. rewrite app_nil_r. apply winP_mono with (a := a); [lia|exact HP].
  - destruct (mem j (r_handed r) && negb (r_released r)); cbn [fst snd]; rewrite app_nil_r;
      (split; [|reflexivity]).
    + unfold winP in *. cbn [r_wterm r_wsubs]. rewrite count_of_snoc.
      destruct (wterm_of g (r_wterm r)) as [t|] eqn:Eg.
      * destruct (Nat.eqb_spec g j) as [<-|Hne]; [congruence|].
        destruct HP as (H1 & H2 & ns & n & H3 & H4 & H5). repeat split; auto; [lia|].
        exists ns, n. repeat split; auto. lia.
      * destruct HP as [H1 H2]. split; [auto|]. destruct (Nat.eqb g j); lia.
    + apply winP_mono with (a := a); [lia|exact HP].
Qed.

Lemma count_of_filter_same (l : list nat) : count_of g (filter (fun j => negb (Nat.eqb g j)) l) = 0%nat.
Proof.
  unfold count_of. induction l as [|j t IH]; [reflexivity|]. cbn [filter].
  destruct (Nat.eqb g j) eqn:E; cbn [negb filter]; [exact IH|]. rewrite E. exact IH.
Qed.

Lemma count_of_remove_le j (l : list nat) : (count_of g (remove j l) <= count_of g l)%nat.
Proof.
  unfold count_of. induction l as [|i t IH]; [apply Nat.le_refl|]. rewrite remove_cons.
  destruct (Nat.eqb j i); cbn [filter]; destruct (Nat.eqb g i); cbn [length]; lia.
Qed.

Lemma Forall_repeat {X} (outQ : X -> Prop) x n : outQ x -> Forall outQ (repeat x n).
Proof. intros H. induction n; cbn; auto. Qed.

Context (imm : nat -> bool).
Definition hc (o : list (obs W B)) : nat := if imm g then hcnt o else 0%nat.
Lemma hc_app a b : hc (a ++ b) = (hc a + hc b)%nat.
Proof. unfold hc. destruct (imm g); [apply hcnt_app|reflexivity]. Qed.
Lemma hc_of_hcnt0 o : hcnt o = 0%nat -> hc o = 0%nat.
Proof. unfold hc. destruct (imm g); auto. Qed.

Ltac triv HP r :=
  cbn [fst snd wobs flat_map app]; rewrite ?app_nil_r; unfold hc, hcnt; cbn [filter is_hand length];
  destruct (imm g); rewrite ?Nat.add_0_r;
  first [exact HP | apply (winP_ext r); [reflexivity|reflexivity|exact HP]].

Lemma winP_apply_cmd r c Wl a : winP r Wl a ->
  winP (fst (apply_cmd imm r c)) (Wl ++ wobs g (snd (apply_cmd imm r c))) (a + hc (snd (apply_cmd imm r c))).
Proof.
  intros HP. destruct c as [b|j key|j e|k|k|tg d|tg|n|k]; cbn [apply_cmd].
  - destruct (r_outer r); triv HP r.
  - destruct (r_outer r); cbn [fst snd]; [|triv HP r].
    set (r1 := RState (r_live r) (r_timers r) true (r_wsubs r) (r_wterm r) (r_handed r ++ [j]) (r_released r)).
    assert (HP1 : winP r1 Wl a) by (apply (winP_ext r); [reflexivity|reflexivity|exact HP]).
    destruct (imm j) eqn:Ei.
    + destruct (winP_sub_win r1 j Wl a HP1) as [H1 H2].
      destruct (sub_win r1 j) as [r2 o] eqn:Es. cbn [fst snd] in *.
      change (OHand j key :: o) with ([OHand (W:=W) (B:=B) j key] ++ o). rewrite wobs_app, hc_app.
      cbn [wobs flat_map app]. rewrite (hc_of_hcnt0 o H2), Nat.add_0_r.
      unfold hc, hcnt. cbn [filter is_hand].
      destruct (Nat.eqb_spec g j) as [<-|Hne].
      * rewrite Ei. exact H1.
      * rewrite Nat.add_0_r in H1. destruct (imm g); cbn [length]; rewrite Nat.add_0_r; exact H1.
    + cbn [fst snd wobs flat_map app]. rewrite app_nil_r.
      unfold hc, hcnt. cbn [filter is_hand].
      destruct (Nat.eqb_spec g j) as [<-|Hne].
      * rewrite Ei, Nat.add_0_r. exact HP1.
      * destruct (imm g); cbn [length]; rewrite Nat.add_0_r; exact HP1.
  - destruct (wterm_of j (r_wterm r)) as [tj|] eqn:Ej; cbn [fst snd].
    + triv HP r.
    + assert (Hh : forall n, hcnt (repeat (@OWin W B j e) n) = 0%nat) by (induction n; auto).
      destruct (is_terminal e) eqn:Ee.
      * match goal with |- context [maybe_release ?r1] => set (rr := r1) end.
        pose proof (winP_release rr) as HR. pose proof (wobs_release (B:=B) g rr) as HW.
        pose proof (hcnt_release rr) as HH.
        destruct (maybe_release rr) as [r2 o2]. cbn [fst snd] in *.
        rewrite wobs_app, HW, app_nil_r, hc_app, (hc_of_hcnt0 _ (Hh _)), (hc_of_hcnt0 _ HH), !Nat.add_0_r.
        apply HR. unfold winP in *. subst rr. cbn [r_wterm r_wsubs]. rewrite wterm_of_app.
        destruct (Nat.eqb_spec g j) as [<-|Hne].
        -- rewrite Ej in *. cbn [wterm_of]. rewrite Nat.eqb_refl. destruct HP as [H1 H2].
           rewrite wobs_repeat_same. repeat split; auto; [apply count_of_filter_same|].
           exists Wl, (count_of g (r_wsubs r)). auto.
        -- rewrite wobs_repeat_other by exact Hne. rewrite app_nil_r. cbn [wterm_of].
           destruct (Nat.eqb_spec g j); [congruence|].
           rewrite (count_of_filter_other g j (r_wsubs r) Hne).
           destruct (wterm_of g (r_wterm r)); exact HP.
      * cbn [fst snd]. rewrite (hc_of_hcnt0 _ (Hh _)), Nat.add_0_r.
        destruct (Nat.eqb_spec g j) as [<-|Hne].
        -- rewrite wobs_repeat_same. unfold winP in *. rewrite Ej in *. destruct HP as [H1 H2]. split; [|exact H2].
           apply Forall_app. split; [exact H1|]. apply Forall_repeat. exact Ee.
        -- rewrite wobs_repeat_other by exact Hne. rewrite app_nil_r. exact HP.
  - destruct (r_released r); triv HP r.
  - destruct (mem k (r_live r)); triv HP r.
  - destruct (r_released r); triv HP r.
  - destruct (mem tg (r_timers r)); triv HP r.
  - triv HP r.
  - destruct (r_released r); triv HP r.
Qed.

Lemma winP_apply_cmds cs : forall r Wl a, winP r Wl a ->
  winP (fst (apply_cmds imm r cs)) (Wl ++ wobs g (snd (apply_cmds imm r cs))) (a + hc (snd (apply_cmds imm r cs))).
Proof.
  induction cs as [|c t IH]; intros r Wl a HP; cbn [apply_cmds].
  - cbn [fst snd wobs flat_map]. rewrite app_nil_r. unfold hc, hcnt. cbn. destruct (imm g); rewrite Nat.add_0_r; exact HP.
  - pose proof (winP_apply_cmd r c Wl a HP) as H1. destruct (apply_cmd imm r c) as [r1 o1]. cbn [fst snd] in H1.
    specialize (IH r1 _ _ H1). destruct (apply_cmds imm r1 t) as [r2 o2]. cbn [fst snd] in *.
    rewrite wobs_app, hc_app, app_assoc, Nat.add_assoc. exact IH.
Qed.

Lemma winP_end_outer r Wl a : winP r Wl a ->
  winP (fst (@end_outer W B r)) Wl a /\ wobs g (snd (@end_outer W B r)) = [] /\ hcnt (snd (@end_outer W B r)) = 0%nat.
Proof.
  intros HP. unfold end_outer. split; [|split].
  - apply winP_release. apply (winP_ext r); [reflexivity|reflexivity|exact HP].
  - apply wobs_release.
  - apply hcnt_release.
Qed.

Lemma winP_finish r f Wl a : winP r Wl a ->
  winP (fst (@finish W B r f)) Wl a /\ wobs g (snd (@finish W B r f)) = [] /\ hcnt (snd (@finish W B r f)) = 0%nat.
Proof.
  intros HP. destruct f; cbn [finish]; [auto| |]; (destruct (r_outer r); [|auto]);
    destruct (winP_end_outer r Wl a HP) as (H1 & H2 & H3);
    destruct (end_outer r) as [r' o]; cbn [fst snd] in *; repeat split; auto.
Qed.

Context (m : machine A W B).

Definition ic (i : inp A) : nat := match i with ISubWin j => if Nat.eqb g j then 1%nat else 0%nat | _ => 0%nat end.

Lemma winP_deliver s r now i Wl a : winP r Wl a ->
  winP (snd (fst (deliver imm m s r now i))) (Wl ++ wobs g (snd (deliver imm m s r now i)))
    (a + hc (snd (deliver imm m s r now i))).
Proof.
  intros HP. unfold deliver. destruct (x_step m s now i) as [[s' cs] f].
  pose proof (winP_apply_cmds cs r Wl a HP) as H1. destruct (apply_cmds imm r cs) as [r1 o1]. cbn [fst snd] in H1.
  destruct (winP_finish r1 f _ _ H1) as (H2 & H3 & H4). destruct (finish r1 f) as [r2 o2]. cbn [fst snd] in *.
  set (X := match i with
            | ISrc k e => if is_terminal e && mem k (r_live r2)
                          then (RState (remove k (r_live r2)) (r_timers r2) (r_outer r2) (r_wsubs r2) (r_wterm r2)
                                       (r_handed r2) (r_released r2), [OUnsub k])
                          else (r2, [])
            | _ => (r2, [])
            end).
  assert (HX : r_wterm (fst X) = r_wterm r2 /\ r_wsubs (fst X) = r_wsubs r2
               /\ wobs g (snd X) = [] /\ hcnt (snd X) = 0%nat).
  { subst X. destruct i as [k e|tag| | |]; cbn [fst snd]; auto.
    destruct (is_terminal e && mem k (r_live r2)); cbn [fst snd r_wterm r_wsubs]; auto. }
  destruct X as [r3 o3]. cbn [fst snd] in *. destruct HX as (X1 & X2 & X3 & X4).
  rewrite !wobs_app, !hc_app, H3, X3, (hc_of_hcnt0 _ H4), (hc_of_hcnt0 _ X4), !app_nil_r, !Nat.add_0_r.
  apply (winP_ext r2); assumption.
Qed.

Lemma winP_rstep s r now i Wl a : winP r Wl a ->
  winP (snd (fst (rstep imm m s r now i))) (Wl ++ wobs g (snd (rstep imm m s r now i)))
    (a + hc (snd (rstep imm m s r now i)) + ic i).
Proof.
  intros HP. assert (Z0 : winP r (Wl ++ wobs (B:=B) g []) (a + hc [] + 0)).
  { cbn [wobs flat_map]. rewrite app_nil_r. unfold hc, hcnt. cbn. destruct (imm g); rewrite !Nat.add_0_r; exact HP. }
  destruct i as [k e|tag| |j|j]; cbn [rstep ic].
  - destruct (mem k (r_live r)); [|exact Z0]. rewrite Nat.add_0_r. apply winP_deliver. exact HP.
  - destruct (mem tag (r_timers r)); [|exact Z0]. rewrite Nat.add_0_r. apply winP_deliver.
    apply (winP_ext r); [reflexivity|reflexivity|exact HP].
  - destruct (r_outer r); [|exact Z0]. destruct (winP_end_outer r Wl a HP) as (H1 & H2 & H3).
    destruct (end_outer r) as [r' o]. cbn [fst snd] in *.
    rewrite H2, (hc_of_hcnt0 _ H3), app_nil_r, !Nat.add_0_r. exact H1.
  - destruct (winP_sub_win r j Wl a HP) as [H1 H2]. destruct (sub_win r j) as [r' o]. cbn [fst snd] in *.
    rewrite (hc_of_hcnt0 _ H2), Nat.add_0_r. exact H1.
  - destruct (mem j (r_wsubs r)); [|exact Z0].
    match goal with |- context [maybe_release ?r1] => set (rr := r1) end.
    pose proof (winP_release rr) as HR. pose proof (wobs_release (B:=B) g rr) as HW.
    pose proof (hcnt_release rr) as HH.
    destruct (maybe_release rr) as [r2 o2]. cbn [fst snd] in *.
    rewrite HW, (hc_of_hcnt0 _ HH), app_nil_r, !Nat.add_0_r. apply HR.
    unfold winP in *. subst rr. cbn [r_wterm r_wsubs].
    pose proof (count_of_remove_le j (r_wsubs r)) as Hle.
    destruct (wterm_of g (r_wterm r)).
    + destruct HP as (H1 & H2 & H3). repeat split; auto. lia.
    + destruct HP as [H1 H2]. split; [auto|lia].
Qed.

(* subscriptions of g attempted by the subscriber over a run: those made inside
   the on_next that hands g (policy [imm]) and the explicit ones *)
Definition icount (ins : list (Z * inp A)) : nat := fold_right (fun x n => (ic (snd x) + n)%nat) 0%nat ins.
Definition attempts (tr : list (nat * obs W B)) (ins : list (Z * inp A)) : nat :=
  (hc (map snd tr) + icount ins)%nat.

Lemma winP_run_from ins : forall s r k Wl a, winP r Wl a ->
  winP (snd (run_from imm m s r k ins)) (Wl ++ wevents g (fst (run_from imm m s r k ins)))
    (a + attempts (fst (run_from imm m s r k ins)) ins).
Proof.
  unfold attempts.
  induction ins as [|[now i] rest IH]; intros s r k Wl a HP; cbn [run_from].
  - cbn [fst snd wevents flat_map map icount fold_right]. rewrite app_nil_r.
    unfold hc, hcnt. cbn. destruct (imm g); rewrite !Nat.add_0_r; exact HP.
  - pose proof (winP_rstep s r now i Wl a HP) as H1.
    destruct (rstep imm m s r now i) as [[s' r'] o]. cbn [fst snd] in H1.
    specialize (IH s' r' (S k) _ _ H1).
    destruct (run_from imm m s' r' (S k) rest) as [tr rf]. cbn [fst snd] in *.
    rewrite wevents_app, wevents_tag, map_app, map_map. cbn [snd]. rewrite map_id, hc_app.
    cbn [icount fold_right snd]. fold (icount rest).
    rewrite app_assoc.
    replace (a + (hc o + hc (map snd tr) + (ic i + icount rest)))%nat
      with (a + hc o + ic i + (hc (map snd tr) + icount rest))%nat by lia.
    exact IH.
Qed.

Lemma winP0 : winP (@rstate0 W) [] 0.
Proof. unfold winP. cbn. split; [constructor|lia]. Qed.

Theorem run_window_grammar ins :
  exists ns t n,
    wevents g (fst (run imm m ins)) = ns ++ repeat t n
    /\ Forall nonterm ns /\ is_terminal t = true
    /\ (n <= attempts (fst (run imm m ins)) ins)%nat.
Proof.
  rewrite run_unfold. cbn [fst]. unfold start_state, start_obs.
  destruct (x_start m) as [[s0 cs] f]. cbn [fst snd].
  pose proof (winP_apply_cmds cs rstate0 [] 0 winP0) as H1.
  destruct (apply_cmds imm rstate0 cs) as [r1 o1]. cbn [fst snd app] in *.
  destruct (winP_finish r1 f _ _ H1) as (H2 & H3 & H4).
  destruct (finish r1 f) as [r2 o2]. cbn [fst snd] in *.
  pose proof (winP_run_from ins s0 r2 1 _ _ H2) as H5.
  apply winP_shape in H5. destruct H5 as (ns & t & n & E1 & E2 & E3 & E4).
  exists ns, t, n. repeat split; auto.
  - rewrite wevents_app, wevents_tag, wobs_app, H3, app_nil_r. exact E1.
  - unfold attempts in *. rewrite map_app, map_map. cbn [snd]. rewrite map_id, !hc_app, (hc_of_hcnt0 _ H4).
    lia.
Qed.

(* a window / group with at most one subscription: the grammar *)
Theorem run_window_single_subscriber_grammar ins :
  (attempts (fst (run imm m ins)) ins <= 1)%nat ->
  wellformed (wevents g (fst (run imm m ins))) = true.
Proof.
  intros Ha. destruct (run_window_grammar ins) as (ns & t & n & E1 & E2 & E3 & E4). rewrite E1.
  destruct n as [|[|n]]; [| |lia]; cbn [repeat].
  - rewrite app_nil_r. apply nonterm_wf_nil. exact E2.
  - apply nonterm_wf_term. exact E2.
Qed.
End Grammar.

(* ======================================================= the outer === *)
Section Outer.
Context {A W B : Type}.

(* the outer subscriber's notifications: elements (buffers) and handed
   observables are its on_next calls *)
Definition oview1 (o : obs W B) : list (ev (option B)) :=
  match o with
  | OEmit (Next b) => [Next (Some b)]
  | OEmit (Err e) => [Err e]
  | OEmit Done => [Done]
  | OHand _ _ => [Next None]
  | _ => []
  end.
Definition oview (o : list (obs W B)) : list (ev (option B)) := flat_map oview1 o.
Definition outer_view (tr : list (nat * obs W B)) : list (ev (option B)) :=
  flat_map (fun x => oview1 (snd x)) tr.

Lemma oview_app a b : oview (a ++ b) = oview a ++ oview b.
Proof. unfold oview. apply flat_map_app. Qed.
Lemma outer_view_app a b : outer_view (a ++ b) = outer_view a ++ outer_view b.
Proof. unfold outer_view. apply flat_map_app. Qed.
Lemma outer_view_tag k o : outer_view (map (fun x => (k, x)) o) = oview o.
Proof. unfold outer_view, oview. induction o as [|x t IH]; [reflexivity|]. cbn [map flat_map snd]. now rewrite IH. Qed.

Lemma silent_oview (o : list (obs W B)) : outer_silent o -> oview o = [].
Proof.
  induction o as [|x t IH]; intros H; [reflexivity|]. cbn [oview flat_map]. fold (oview t).
  rewrite IH by (intros y Hy; apply H; right; exact Hy).
  specialize (H x (or_introl eq_refl)). destruct x; cbn in *; try discriminate; reflexivity.
Qed.

Context (imm : nat -> bool).

(* commands never end the outer: only [finish] / dispose do *)
Lemma maybe_release_outer (r : rstate W) : r_outer (fst (@maybe_release W B r)) = r_outer r.
Proof.
  unfold maybe_release. destruct r as [lv tm ou ws wt hd rl]. cbn. destruct ou, rl, ws; reflexivity.
Qed.

Lemma apply_cmd_outer (r : rstate W) (c : cmd W B) :
  r_outer (fst (apply_cmd imm r c)) = r_outer r /\ Forall nonterm (oview (snd (apply_cmd imm r c))).
Proof.
  destruct c as [b|j key|j e|k|k|tg d|tg|n|k]; cbn [apply_cmd].
  - destruct (r_outer r) eqn:E; cbn [fst snd oview flat_map oview1 app]; split; auto. repeat constructor.
  - destruct (r_outer r) eqn:E; cbn [fst snd]; [|split; [auto|constructor]].
    destruct (imm j).
    + match goal with |- context [sub_win ?r1 j] =>
        destruct (sub_win_mono (B:=B) r1 j) as (_ & H2 & _); pose proof (sub_win_silent (B:=B) r1 j) as H3;
        destruct (sub_win r1 j) as [r2 o] end.
      cbn [fst snd r_outer] in *. split; [congruence|].
      change (OHand j key :: o) with ([OHand (W:=W) (B:=B) j key] ++ o).
      rewrite oview_app, (silent_oview o H3). repeat constructor.
    + cbn [fst snd r_outer]. split; [auto|]. repeat constructor.
  - destruct (wterm_of j (r_wterm r)); cbn [fst snd]; [split; [auto|constructor]|].
    destruct (is_terminal e).
    + match goal with |- context [maybe_release ?r1] =>
        pose proof (maybe_release_outer r1) as H1; pose proof (maybe_release_silent (B:=B) r1) as H2;
        destruct (maybe_release r1) as [r2 o2] end.
      cbn [fst snd r_outer] in *. split; [exact H1|].
      rewrite oview_app, (silent_oview _ (repeat_silent j e _)), (silent_oview _ H2). constructor.
    + cbn [fst snd]. split; [auto|]. rewrite (silent_oview _ (repeat_silent j e _)). constructor.
  - destruct (r_released r); cbn [fst snd r_outer]; split; auto; constructor.
  - destruct (mem k (r_live r)); cbn [fst snd r_outer]; split; auto; constructor.
  - destruct (r_released r); cbn [fst snd r_outer]; split; auto; constructor.
  - destruct (mem tg (r_timers r)); cbn [fst snd r_outer]; split; auto; constructor.
  - cbn [fst snd]. split; auto. constructor.
  - destruct (r_released r); cbn [fst snd r_outer]; split; auto; constructor.
Qed.

Lemma apply_cmds_outer (cs : list (cmd W B)) : forall r : rstate W,
  r_outer (fst (apply_cmds imm r cs)) = r_outer r /\ Forall nonterm (oview (snd (apply_cmds imm r cs))).
Proof.
  induction cs as [|c t IH]; intros r; cbn [apply_cmds]; [split; [auto|constructor]|].
  destruct (apply_cmd_outer r c) as [H1 H2]. destruct (apply_cmd imm r c) as [r1 o1]. cbn [fst snd] in *.
  destruct (IH r1) as [H3 H4]. destruct (apply_cmds imm r1 t) as [r2 o2]. cbn [fst snd] in *.
  split; [congruence|]. rewrite oview_app. apply Forall_app. auto.
Qed.

(* what a step shows the outer subscriber *)
Inductive outer_step (r' : rstate W) (v : list (ev (option B))) : Prop :=
| OS_next : Forall nonterm v -> outer_step r' v
| OS_term : forall ns t, v = ns ++ [t] -> Forall nonterm ns -> r_outer r' = false -> outer_step r' v.

Lemma end_outer_ends (r : rstate W) :
  r_outer (fst (@end_outer W B r)) = false /\ oview (snd (@end_outer W B r)) = [].
Proof.
  unfold end_outer. split.
  - rewrite maybe_release_outer. reflexivity.
  - apply silent_oview, maybe_release_silent.
Qed.

Lemma finish_outer (r : rstate W) f :
  outer_step (fst (@finish W B r f)) (oview (snd (@finish W B r f))).
Proof.
  destruct f; cbn [finish]; [apply OS_next; constructor| |];
    (destruct (r_outer r) eqn:E; [|apply OS_next; constructor]);
    destruct (end_outer_ends r) as [H1 H2]; destruct (end_outer r) as [r' o]; cbn [fst snd] in *.
  - apply OS_term with (ns := []) (t := Done); auto.
    change (OEmit Done :: o) with ([OEmit (W:=W) (B:=B) Done] ++ o). now rewrite oview_app, H2.
  - apply OS_term with (ns := []) (t := Err e); auto.
    change (OEmit (Err e) :: o) with ([OEmit (W:=W) (B:=B) (Err e)] ++ o). now rewrite oview_app, H2.
Qed.

Context (m : machine A W B).

Lemma deliver_outer s (r : rstate W) now i :
  outer_step (snd (fst (deliver imm m s r now i))) (oview (snd (deliver imm m s r now i))).
Proof.
  unfold deliver. destruct (x_step m s now i) as [[s' cs] f].
  destruct (apply_cmds_outer cs r) as [_ H1]. destruct (apply_cmds imm r cs) as [r1 o1]. cbn [fst snd] in *.
  pose proof (finish_outer r1 f) as H2. destruct (finish r1 f) as [r2 o2]. cbn [fst snd] in *.
  set (X := match i with
            | ISrc k e => if is_terminal e && mem k (r_live r2)
                          then (RState (remove k (r_live r2)) (r_timers r2) (r_outer r2) (r_wsubs r2) (r_wterm r2)
                                       (r_handed r2) (r_released r2), [OUnsub k])
                          else (r2, [])
            | _ => (r2, [])
            end).
  assert (HX : r_outer (fst X) = r_outer r2 /\ oview (snd X) = []).
  { subst X. destruct i as [k e|tag| | |]; cbn [fst snd]; auto.
    destruct (is_terminal e && mem k (r_live r2)); cbn [fst snd r_outer]; auto. }
  destruct X as [r3 o3]. cbn [fst snd] in *. destruct HX as [X1 X2].
  rewrite !oview_app, X2, app_nil_r.
  destruct H2 as [Hn | ns t Hv Hns Ho].
  - apply OS_next. apply Forall_app. auto.
  - apply OS_term with (ns := oview o1 ++ ns) (t := t).
    + rewrite Hv. now rewrite app_assoc.
    + apply Forall_app. auto.
    + congruence.
Qed.

Lemma rstep_outer s (r : rstate W) now i :
  outer_step (snd (fst (rstep imm m s r now i))) (oview (snd (rstep imm m s r now i))).
Proof.
  destruct i as [k e|tag| |j|j]; cbn [rstep].
  - destruct (mem k (r_live r)); [apply deliver_outer|apply OS_next; constructor].
  - destruct (mem tag (r_timers r)); [apply deliver_outer|apply OS_next; constructor].
  - destruct (r_outer r); [|apply OS_next; constructor].
    destruct (end_outer_ends r) as [_ H2]. destruct (end_outer r) as [r' o]. cbn [fst snd] in *.
    rewrite H2. apply OS_next. constructor.
  - pose proof (sub_win_silent (B:=B) r j) as H. destruct (sub_win r j) as [r' o]. cbn [fst snd] in *.
    rewrite (silent_oview _ H). apply OS_next. constructor.
  - destruct (mem j (r_wsubs r)); [|apply OS_next; constructor].
    match goal with |- context [maybe_release ?r1] =>
      pose proof (maybe_release_silent (B:=B) r1) as H; destruct (maybe_release r1) as [r2 o2] end.
    cbn [fst snd] in *. rewrite (silent_oview _ H). apply OS_next. constructor.
Qed.

(* invariant: what the outer has seen is all elements, or the outer has ended
   and it is in the grammar *)
Definition outQ (r : rstate W) (v : list (ev (option B))) : Prop :=
  Forall nonterm v \/ (r_outer r = false /\ wellformed v = true).

Lemma outQ_run_from ins : forall s (r : rstate W) k v, outQ r v ->
  outQ (snd (run_from imm m s r k ins)) (v ++ outer_view (fst (run_from imm m s r k ins))).
Proof.
  induction ins as [|[now i] rest IH]; intros s r k v HQ; cbn [run_from].
  - cbn [fst snd outer_view flat_map]. rewrite app_nil_r. exact HQ.
  - pose proof (rstep_outer s r now i) as H1. pose proof (rstep_silent imm m s r now i) as H2.
    destruct (rstep_mono imm m s r now i) as [_ H3].
    destruct (rstep imm m s r now i) as [[s' r'] o]. cbn [fst snd] in *.
    assert (HQ' : outQ r' (v ++ oview o)).
    { destruct HQ as [Hv | [Ho Hw]].
      - destruct H1 as [Hn | ns t Hvv Hns Ho'].
        + left. apply Forall_app. auto.
        + right. split; [exact Ho'|]. rewrite Hvv, app_assoc. apply nonterm_wf_term. apply Forall_app. auto.
      - right. rewrite (silent_oview _ (H2 Ho)), app_nil_r. auto. }
    specialize (IH s' r' (S k) _ HQ'). destruct (run_from imm m s' r' (S k) rest) as [tr rf]. cbn [fst snd] in *.
    rewrite outer_view_app, outer_view_tag, app_assoc. exact IH.
Qed.

Lemma outQ_wf r v : outQ r v -> wellformed v = true.
Proof. intros [H | [_ H]]; [apply nonterm_wf_nil; exact H|exact H]. Qed.

(* THEOREM: the outer subscriber of EVERY window/group machine, under every
   policy and on every input sequence, sees  Next* (Err | Done)?  *)
Theorem run_outer_grammar ins : wellformed (outer_view (fst (run imm m ins))) = true.
Proof.
  rewrite run_unfold. cbn [fst]. unfold start_state, start_obs.
  destruct (x_start m) as [[s0 cs] f]. cbn [fst snd].
  destruct (apply_cmds_outer cs rstate0) as [_ H1].
  destruct (apply_cmds imm rstate0 cs) as [r1 o1]. cbn [fst snd] in *.
  pose proof (finish_outer r1 f) as H2. destruct (finish r1 f) as [r2 o2]. cbn [fst snd] in *.
  assert (HQ : outQ r2 (oview (o1 ++ o2))).
  { rewrite oview_app. destruct H2 as [Hn | ns t Hv Hns Ho].
    - left. apply Forall_app. auto.
    - right. split; [exact Ho|]. rewrite Hv, app_assoc. apply nonterm_wf_term. apply Forall_app. auto. }
  pose proof (outQ_run_from ins s0 r2 1 _ HQ) as H3. apply outQ_wf in H3.
  rewrite outer_view_app, outer_view_tag. exact H3.
Qed.

(* the plain elements alone (buffers): [emitted] *)
Definition strip1 (e : ev (option B)) : list (ev B) :=
  match e with Next (Some b) => [Next b] | Next None => [] | Err z => [Err z] | Done => [Done] end.
Definition strip (l : list (ev (option B))) : list (ev B) := flat_map strip1 l.

Lemma strip_nonterm l : Forall nonterm l -> Forall nonterm (strip l).
Proof.
  induction 1 as [|e t He Ht IH]; [constructor|]. cbn [strip flat_map]. fold (strip t).
  destruct e as [[b|]|z|]; cbn in *; try discriminate; auto.
Qed.

Lemma strip_wf l : wellformed l = true -> wellformed (strip l) = true.
Proof.
  induction l as [|e t IH]; [reflexivity|]. intros H. cbn [strip flat_map]. fold (strip t).
  destruct e as [[b|]|z|]; cbn [strip1 app] in *.
  - cbn [wellformed] in *. auto.
  - cbn [wellformed] in H. auto.
  - cbn [wellformed] in H. destruct t; [reflexivity|discriminate].
  - cbn [wellformed] in H. destruct t; [reflexivity|discriminate].
Qed.

Lemma emitted_strip (tr : list (nat * obs W B)) : emitted tr = strip (outer_view tr).
Proof.
  unfold emitted, strip, outer_view. induction tr as [|x t IH]; [reflexivity|].
  cbn [flat_map]. rewrite flat_map_app, IH. f_equal.
  destruct (snd x) as [[b|z|]| | | | | | |]; reflexivity.
Qed.

Theorem run_emitted_grammar ins : wellformed (emitted (fst (run imm m ins))) = true.
Proof. rewrite emitted_strip. apply strip_wf, run_outer_grammar. Qed.
End Outer.

(* the merged record of a window with TWO subscriptions is not in the grammar
   (each notification is logged once per subscription), and neither is that of
   a window subscribed again after its terminal (the late subscription is
   answered with the terminal): the hypothesis of
   [run_window_single_subscriber_grammar] cannot be dropped.  This is a fact
   about the projection [wevents], which merges the subscriptions of one
   window, not about what any single subscriber sees. *)
Lemma two_subscribers_merged_record :
  wevents 0 (fst (run all_imm (x_window_count (A:=Z) (B:=unit) 2 2)
                    [(0, ISubWin 0%nat); (0, ISrc 0%nat (Next 1)); (0, ISrc 0%nat (Next 2))]))
  = [Next 1; Next 1; Next 2; Next 2; Done; Done]
  /\ wevents 0 (fst (run all_imm (x_window_count (A:=Z) (B:=unit) 1 1)
                       [(0, ISrc 0%nat (Next 1)); (0, ISubWin 0%nat)]))
     = [Next 1; Done; Done].
Proof. vm_compute. auto. Qed.

Lemma window_grammar_all_subscriptions_refuted :
  ~ (forall (imm : nat -> bool) (m : machine Z Z unit) ins g,
       wellformed (wevents g (fst (run imm m ins))) = true).
Proof.
  intros H.
  specialize (H all_imm (x_window_count (A:=Z) (B:=unit) 1 1) [(0, ISrc 0%nat (Next 1)); (0, ISubWin 0%nat)] 0%nat).
  vm_compute in H. discriminate.
Qed.
