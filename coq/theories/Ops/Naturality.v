(* C08: operators that do not inspect their elements are NATURAL in the element
   type: relabelling every element by an arbitrary function g (which may
   identify values or map None/0/False/"" anywhere) commutes with the
   operator.  So no value -- falsy or not -- is treated specially. *)
From RxVerif Require Import Base.Prelude Ops.Machine Ops.MachineFacts Ops.Elementwise Ops.Aggregates.

Definition ev_map {A B} (g : A -> B) (e : ev A) : ev B :=
  match e with Next a => Next (g a) | Err x => Err x | Done => Done end.

Section Sim.
Context {A A' B B' : Type} (g : A -> A') (h : B -> B').
Context (m : mealy A B) (m' : mealy A' B').

Record msim := {
  R : m_state m -> m_state m' -> Prop;
  sim_init : R (m_init m) (m_init m');
  sim_pre : m_pre m' = (map h (fst (m_pre m)), snd (m_pre m));
  sim_next : forall s s' x, R s s' ->
     R (fst (fst (m_next m s x))) (fst (fst (m_next m' s' (g x))))
     /\ snd (fst (m_next m' s' (g x))) = map h (snd (fst (m_next m s x)))
     /\ snd (m_next m' s' (g x)) = snd (m_next m s x);
  sim_err : forall s s' e, R s s' -> m_err m' s' e = (map h (fst (m_err m s e)), snd (m_err m s e));
  sim_done : forall s s', R s s' -> m_done m' s' = (map h (fst (m_done m s)), snd (m_done m s)) }.

Definition tag_map (l : list (nat * ev B)) : list (nat * ev B') :=
  map (fun p => (fst p, ev_map h (snd p))) l.

Lemma emit_map k outs f : tag_map (emit k outs f) = emit k (map h outs) f.
Proof.
  unfold tag_map, emit. rewrite map_app, !map_map. cbn [fst snd ev_map].
  f_equal. destruct f; reflexivity.
Qed.

Lemma sim_exec_from (S : msim) ins : forall s s' k, R S s s' ->
  exec_from m' s' k (map (ev_map g) ins) = tag_map (exec_from m s k ins).
Proof.
  induction ins as [|i rest IH]; intros s s' k HR; [reflexivity|].
  destruct i as [x|e|]; cbn [map ev_map exec_from].
  - destruct (sim_next S s s' x HR) as (HR' & Ho & Hf).
    destruct (m_next m s x) as [[t o] f]. destruct (m_next m' s' (g x)) as [[t' o'] f'].
    cbn [fst snd] in *. subst o' f'.
    unfold tag_map. rewrite map_app. fold (tag_map (emit k o f)). rewrite emit_map. f_equal.
    destruct (live f); [|reflexivity]. apply IH. exact HR'.
  - rewrite (sim_err S s s' e HR). destruct (m_err m s e) as [o f]. cbn [fst snd].
    now rewrite emit_map.
  - rewrite (sim_done S s s' HR). destruct (m_done m s) as [o f]. cbn [fst snd].
    now rewrite emit_map.
Qed.

Theorem sim_exec (S : msim) ins :
  exec m' (map (ev_map g) ins) = tag_map (exec m ins).
Proof.
  unfold exec. rewrite (sim_pre S). destruct (m_pre m) as [o f]. cbn [fst snd].
  unfold tag_map. rewrite map_app. fold (tag_map (emit 0 o f)). rewrite emit_map. f_equal.
  destruct (live f); [|reflexivity]. apply (sim_exec_from S). apply (sim_init S).
Qed.
End Sim.

(* ---- instances: relabelling by an ARBITRARY g --------------------------- *)
Section Instances.
Context {A A' : Type} (g : A -> A').

Lemma zlen_map {X Y} (f : X -> Y) l : zlen (map f l) = zlen l.
Proof. unfold zlen. now rewrite map_length. Qed.

Lemma map_tl {X Y} (f : X -> Y) (l : list X) : map f (tl l) = tl (map f l).
Proof. destruct l; reflexivity. Qed.

Lemma q_push_map c (q : list A) x : q_push c (map g q) (g x) = map g (q_push c q x).
Proof.
  unfold q_push. change [g x] with (map g [x]). rewrite <- map_app, zlen_map.
  destruct (zlen (q ++ [x]) >? c); [|reflexivity]. now rewrite <- map_tl.
Qed.

Definition sim_take c : msim g g (op_take c) (op_take c).
Proof.
  apply (Build_msim g g (op_take c) (op_take c) (fun s s' => s' = s)).
  - reflexivity.
  - cbn. destruct (c =? 0); reflexivity.
  - intros s s' x ->. cbn. destruct (s >? 0); [destruct (s - 1 =? 0)|]; repeat split; reflexivity.
  - intros s s' e ->. reflexivity.
  - intros s s' ->. reflexivity.
Defined.

Definition sim_skip c : msim g g (op_skip c) (op_skip c).
Proof.
  apply (Build_msim g g (op_skip c) (op_skip c) (fun s s' => s' = s)).
  - reflexivity.
  - reflexivity.
  - intros s s' x ->. cbn. destruct (s <=? 0); repeat split; reflexivity.
  - intros s s' e ->. reflexivity.
  - intros s s' ->. reflexivity.
Defined.

Definition sim_take_last c : msim g g (op_take_last c) (op_take_last c).
Proof.
  apply (Build_msim g g (op_take_last c) (op_take_last c) (fun s s' => s' = map g s)).
  - reflexivity.
  - reflexivity.
  - intros s s' x ->. cbn. repeat split. apply q_push_map.
  - intros s s' e ->. reflexivity.
  - intros s s' ->. reflexivity.
Defined.

Definition sim_take_last_buffer c : msim g (map g) (op_take_last_buffer c) (op_take_last_buffer c).
Proof.
  apply (Build_msim g (map g) (op_take_last_buffer c) (op_take_last_buffer c)
           (fun s s' => s' = map g s)).
  - reflexivity.
  - reflexivity.
  - intros s s' x ->. cbn. repeat split. apply q_push_map.
  - intros s s' e ->. reflexivity.
  - intros s s' ->. reflexivity.
Defined.

Definition sim_skip_last c : msim g g (op_skip_last c) (op_skip_last c).
Proof.
  apply (Build_msim g g (op_skip_last c) (op_skip_last c) (fun s s' => s' = map g s)).
  - reflexivity.
  - reflexivity.
  - intros s s' x ->. cbn. change [g x] with (map g [x]). rewrite <- map_app, zlen_map.
    destruct (zlen (s ++ [x]) >? c); cbn; repeat split; auto.
    + now rewrite <- map_tl.
    + destruct (s ++ [x]); reflexivity.
  - intros s s' e ->. reflexivity.
  - intros s s' ->. reflexivity.
Defined.

Definition sim_pairwise : msim g (fun p => (g (fst p), g (snd p))) op_pairwise op_pairwise.
Proof.
  apply (Build_msim g (fun p => (g (fst p), g (snd p))) op_pairwise op_pairwise
           (fun s s' => s' = option_map g s)).
  - reflexivity.
  - reflexivity.
  - intros s s' x ->. destruct s; cbn; repeat split; reflexivity.
  - intros s s' e ->. reflexivity.
  - intros s s' ->. reflexivity.
Defined.

Definition sim_start_with args : msim g g (op_start_with args) (op_start_with (map g args)).
Proof.
  apply (Build_msim g g (op_start_with args) (op_start_with (map g args)) (fun _ _ => True)).
  - exact I.
  - reflexivity.
  - intros s s' x _. cbn. repeat split; reflexivity.
  - intros; reflexivity.
  - intros; reflexivity.
Defined.

Definition sim_default_if_empty d : msim g g (op_default_if_empty d) (op_default_if_empty (g d)).
Proof.
  apply (Build_msim g g (op_default_if_empty d) (op_default_if_empty (g d)) (fun s s' => s' = s)).
  - reflexivity.
  - reflexivity.
  - intros s s' x ->. cbn. repeat split; reflexivity.
  - intros s s' e ->. reflexivity.
  - intros s s' ->. cbn. destruct s; reflexivity.
Defined.

Definition sim_ignore_elements : msim g g op_ignore_elements op_ignore_elements.
Proof.
  apply (Build_msim g g op_ignore_elements op_ignore_elements (fun _ _ => True)).
  - exact I.
  - reflexivity.
  - intros s s' x _. cbn. repeat split; reflexivity.
  - intros; reflexivity.
  - intros; reflexivity.
Defined.

Definition sim_element_at i d exn :
  msim g g (op_element_at i d exn) (op_element_at i (option_map g d) exn).
Proof.
  apply (Build_msim g g (op_element_at i d exn) (op_element_at i (option_map g d) exn)
           (fun s s' => s' = s)).
  - reflexivity.
  - reflexivity.
  - intros s s' x ->. cbn. destruct (s =? 0); repeat split; reflexivity.
  - intros s s' e ->. reflexivity.
  - intros s s' ->. cbn. destruct d; reflexivity.
Defined.

Definition sim_first d : msim g g (op_first d) (op_first (option_map g d)).
Proof.
  apply (Build_msim g g (op_first d) (op_first (option_map g d)) (fun _ _ => True)).
  - exact I.
  - reflexivity.
  - intros s s' x _. cbn. repeat split; reflexivity.
  - intros; reflexivity.
  - intros s s' _. cbn. destruct d; reflexivity.
Defined.

Definition sim_last d : msim g g (op_last d) (op_last (option_map g d)).
Proof.
  apply (Build_msim g g (op_last d) (op_last (option_map g d)) (fun s s' => s' = option_map g s)).
  - reflexivity.
  - reflexivity.
  - intros s s' x ->. cbn. repeat split; reflexivity.
  - intros s s' e ->. reflexivity.
  - intros s s' ->. cbn. destruct s, d; reflexivity.
Defined.

Definition sim_single d : msim g g (op_single d) (op_single (option_map g d)).
Proof.
  apply (Build_msim g g (op_single d) (op_single (option_map g d)) (fun s s' => s' = option_map g s)).
  - reflexivity.
  - reflexivity.
  - intros s s' x ->. destruct s; cbn; repeat split; reflexivity.
  - intros s s' e ->. reflexivity.
  - intros s s' ->. cbn. destruct s, d; reflexivity.
Defined.

Definition sim_to_list : msim g (map g) op_to_list op_to_list.
Proof.
  apply (Build_msim g (map g) op_to_list op_to_list (fun s s' => s' = map g s)).
  - reflexivity.
  - reflexivity.
  - intros s s' x ->. cbn. repeat split. now rewrite map_app.
  - intros s s' e ->. reflexivity.
  - intros s s' ->. reflexivity.
Defined.

Definition sim_some : msim g (fun b : bool => b) op_some op_some.
Proof.
  apply (Build_msim g (fun b : bool => b) op_some op_some (fun _ _ => True)).
  - exact I.
  - reflexivity.
  - intros s s' x _. cbn. repeat split; reflexivity.
  - intros; reflexivity.
  - intros; reflexivity.
Defined.

Definition sim_materialize : msim g (ev_map g) op_materialize op_materialize.
Proof.
  apply (Build_msim g (ev_map g) op_materialize op_materialize (fun _ _ => True)).
  - exact I.
  - reflexivity.
  - intros s s' x _. cbn. repeat split; reflexivity.
  - intros; reflexivity.
  - intros; reflexivity.
Defined.

(* callbacks see the relabelled value: map/filter commute when the callback
   factors through g *)
Definition sim_map {B} (f' : A' -> res B) : msim g (fun b : B => b) (op_map (fun x => f' (g x))) (op_map f').
Proof.
  apply (Build_msim g (fun b : B => b) (op_map (fun x => f' (g x))) (op_map f') (fun _ _ => True)).
  - exact I.
  - reflexivity.
  - intros s s' x _. cbn. destruct (f' (g x)); cbn; repeat split; reflexivity.
  - intros; reflexivity.
  - intros; reflexivity.
Defined.

Definition sim_filter (p' : A' -> res bool) : msim g g (op_filter (fun x => p' (g x))) (op_filter p').
Proof.
  apply (Build_msim g g (op_filter (fun x => p' (g x))) (op_filter p') (fun _ _ => True)).
  - exact I.
  - reflexivity.
  - intros s s' x _. cbn. destruct (p' (g x)) as [[|]|]; cbn; repeat split; reflexivity.
  - intros; reflexivity.
  - intros; reflexivity.
Defined.
End Instances.
