(* Sequential composition of operators: the composite machine emits exactly
   what the second machine emits when fed the first machine's output. *)
From RxVerif Require Import Base.Prelude Ops.Machine Ops.MachineFacts.

Definition fin_ev {B} (f : fin) : list (ev B) :=
  match f with Cont => [] | Complete => [Done] | Fail e => [Err e] end.

Lemma untag_emit {B} k (outs : list B) f : untag (emit k outs f) = map Next outs ++ fin_ev f.
Proof.
  unfold emit, untag. rewrite map_app, map_map. cbn [snd].
  f_equal. destruct f; reflexivity.
Qed.

Section Compose.
Context {A B C : Type} (m1 : mealy A B) (m2 : mealy B C).

(* feeding a batch of elements into m2, as exec sees it *)
Lemma exec_from_feed (outs : list B) : forall s2 k2 tail,
  untag (exec_from m2 s2 k2 (map Next outs ++ tail))
  = map Next (snd (fst (feed m2 s2 outs))) ++
    (if live (snd (feed m2 s2 outs))
     then untag (exec_from m2 (fst (fst (feed m2 s2 outs))) (k2 + length outs) tail)
     else fin_ev (snd (feed m2 s2 outs))).
Proof.
  induction outs as [|b t IH]; intros s2 k2 tail.
  - cbn [map app feed live length fst snd]. now rewrite Nat.add_0_r.
  - cbn [map app feed length]. rewrite exec_from_cons.
    destruct (m_next m2 s2 b) as [[s2' o] f].
    rewrite untag_app, untag_emit.
    destruct f; cbn [live fin_ev].
    + rewrite IH. destruct (feed m2 s2' t) as [[s2'' o'] f'].
      cbn [fst snd]. rewrite map_app, app_nil_r, <- app_assoc. rewrite <- plus_n_Sm. reflexivity.
    + cbn [untag map fst snd]. now rewrite app_nil_r.
    + cbn [untag map fst snd]. now rewrite app_nil_r.
Qed.

(* a batch followed by how m1 left, against feed_fin *)
Lemma exec_from_feed_fin (outs : list B) (f1 : fin) s2 k2 :
  f1 <> Cont ->
  untag (exec_from m2 s2 k2 (map Next outs ++ fin_ev f1))
  = map Next (snd (fst (feed_fin m2 s2 outs f1))) ++ fin_ev (snd (feed_fin m2 s2 outs f1)).
Proof.
  intros Hf1. rewrite exec_from_feed. unfold feed_fin.
  destruct (feed m2 s2 outs) as [[s2' o] f]. cbn [fst snd].
  destruct f; cbn [live].
  - destruct f1; [congruence| |]; cbn [fin_ev exec_from].
    + destruct (m_done m2 s2') as [o' f']. cbn [fst snd].
      rewrite untag_emit. now rewrite map_app, <- app_assoc.
    + destruct (m_err m2 s2' e) as [o' f']. cbn [fst snd].
      rewrite untag_emit. now rewrite map_app, <- app_assoc.
  - reflexivity.
  - reflexivity.
Qed.

Lemma compose_off ins : forall s1 s2 k, exec_from (compose m1 m2) (s1, s2, false) k ins = [].
Proof.
  induction ins as [|i rest IH]; intros s1 s2 k; [reflexivity|].
  destruct i as [x|e|]; cbn [exec_from compose m_next m_err m_done emit map app live]; try reflexivity.
  apply IH.
Qed.

Lemma compose_from ins : forall s1 s2 k k2,
  untag (exec_from (compose m1 m2) (s1, s2, true) k ins)
  = untag (exec_from m2 s2 k2 (untag (exec_from m1 s1 k ins))).
Proof.
  induction ins as [|i rest IH]; intros s1 s2 k k2; [reflexivity|].
  destruct i as [x|e|].
  - cbn [exec_from compose m_next].
    destruct (m_next m1 s1 x) as [[s1' o1] f1].
    rewrite (untag_app (emit k o1 f1)), untag_emit.
    destruct f1; cbn [live fin_ev].
    + (* m1 continues *)
      unfold feed_fin. rewrite app_nil_r, exec_from_feed.
      destruct (feed m2 s2 o1) as [[s2' o] f]. cbn [fst snd].
      destruct f; cbn [live].
      * rewrite untag_app, untag_emit. cbn [fin_ev]. rewrite app_nil_r. f_equal.
        apply IH.
      * rewrite untag_app, untag_emit. cbn [untag map]. now rewrite app_nil_r.
      * rewrite untag_app, untag_emit. cbn [untag map]. now rewrite app_nil_r.
    + (* m1 completes *)
      cbn [untag map]. rewrite app_nil_r.
      rewrite (exec_from_feed_fin o1 Complete) by discriminate.
      destruct (feed_fin m2 s2 o1 Complete) as [[s2' o] f]. cbn [fst snd].
      rewrite untag_app, untag_emit.
      destruct f; cbn [live fin_ev]; rewrite ?app_nil_r.
      * rewrite compose_off. cbn. now rewrite app_nil_r.
      * reflexivity.
      * reflexivity.
    + cbn [untag map]. rewrite app_nil_r.
      rewrite (exec_from_feed_fin o1 (Fail e)) by discriminate.
      destruct (feed_fin m2 s2 o1 (Fail e)) as [[s2' o] f]. cbn [fst snd].
      rewrite untag_app, untag_emit.
      destruct f; cbn [live fin_ev]; rewrite ?app_nil_r.
      * rewrite compose_off. cbn. now rewrite app_nil_r.
      * reflexivity.
      * reflexivity.
  - cbn [exec_from compose m_err].
    destruct (m_err m1 s1 e) as [o1 f1]. rewrite untag_emit.
    destruct f1.
    + cbn [fin_ev]. rewrite app_nil_r. unfold feed_fin.
      pose proof (exec_from_feed o1 s2 k2 []) as Hf. rewrite app_nil_r in Hf. rewrite Hf. clear Hf.
      destruct (feed m2 s2 o1) as [[s2' o] f]. cbn [fst snd exec_from untag map].
      destruct f; cbn [live fin_ev]; rewrite untag_emit; cbn [fin_ev]; reflexivity.
    + rewrite (exec_from_feed_fin o1 Complete) by discriminate.
      destruct (feed_fin m2 s2 o1 Complete) as [[s2' o] f]. cbn [fst snd]. now rewrite untag_emit.
    + rewrite (exec_from_feed_fin o1 (Fail e0)) by discriminate.
      destruct (feed_fin m2 s2 o1 (Fail e0)) as [[s2' o] f]. cbn [fst snd]. now rewrite untag_emit.
  - cbn [exec_from compose m_done].
    destruct (m_done m1 s1) as [o1 f1]. rewrite untag_emit.
    destruct f1.
    + cbn [fin_ev]. rewrite app_nil_r. unfold feed_fin.
      pose proof (exec_from_feed o1 s2 k2 []) as Hf. rewrite app_nil_r in Hf. rewrite Hf. clear Hf.
      destruct (feed m2 s2 o1) as [[s2' o] f]. cbn [fst snd exec_from untag map].
      destruct f; cbn [live fin_ev]; rewrite untag_emit; cbn [fin_ev]; reflexivity.
    + rewrite (exec_from_feed_fin o1 Complete) by discriminate.
      destruct (feed_fin m2 s2 o1 Complete) as [[s2' o] f]. cbn [fst snd]. now rewrite untag_emit.
    + rewrite (exec_from_feed_fin o1 (Fail e)) by discriminate.
      destruct (feed_fin m2 s2 o1 (Fail e)) as [[s2' o] f]. cbn [fst snd]. now rewrite untag_emit.
Qed.

(* The composition theorem, for ARBITRARY input streams (also non-conforming):
   what a two-stage pipeline delivers is what stage 2 delivers on stage 1's
   output. *)
Theorem compose_exec ins :
  untag (exec (compose m1 m2) ins) = untag (exec m2 (untag (exec m1 ins))).
Proof.
  unfold exec at 1 2. cbn [compose m_pre m_init].
  destruct (m_pre m2) as [o2 f2] eqn:Hp2. cbn [fst snd].
  destruct f2; cbn [live].
  - (* m2 subscribes to m1 *)
    unfold compose_start. unfold exec at 1.
    destruct (m_pre m1) as [o1 f1] eqn:Hp1. cbn [fst snd].
    rewrite !untag_app, !untag_emit. cbn [fin_ev].
    rewrite map_app, app_nil_r, <- !app_assoc. f_equal.
    destruct f1; cbn [live fin_ev].
    + unfold feed_fin. cbn [app]; rewrite ?app_nil_r.
      rewrite (exec_from_feed o1).
      destruct (feed m2 (m_init m2) o1) as [[s2' o] f]. cbn [fst snd].
      destruct f; cbn [live fin_ev fst snd]; rewrite ?app_nil_r.
      * f_equal. apply compose_from.
      * reflexivity.
      * reflexivity.
    + cbn [untag map app]; rewrite ?app_nil_r.
      rewrite (exec_from_feed_fin o1 Complete) by discriminate.
      destruct (feed_fin m2 (m_init m2) o1 Complete) as [[s2' o] f]. cbn [fst snd].
      destruct f; cbn [live fin_ev untag map app]; rewrite ?app_nil_r; try reflexivity.
      rewrite compose_off. cbn [untag map app]. now rewrite ?app_nil_r.
    + cbn [untag map app]; rewrite ?app_nil_r.
      rewrite (exec_from_feed_fin o1 (Fail e)) by discriminate.
      destruct (feed_fin m2 (m_init m2) o1 (Fail e)) as [[s2' o] f]. cbn [fst snd].
      destruct f; cbn [live fin_ev untag map app]; rewrite ?app_nil_r; try reflexivity.
      rewrite compose_off. cbn [untag map app]. now rewrite ?app_nil_r.
  - now rewrite !app_nil_r.
  - now rewrite !app_nil_r.
Qed.
End Compose.
