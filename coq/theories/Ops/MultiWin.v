(* Operators that hand OBSERVABLES downstream (windows, groups): machines and the
   runner that plays the library's subscription plumbing for them.

   This extends Ops/Multi.v (whose header explains the basic idea) by the one
   thing window/group operators add: the operator hands observables to the
   subscriber, the subscriber subscribes to them (possibly later, possibly
   never, possibly disposing early), and the operator's own subscriptions
   (source, boundary/duration sources, timers) are released only when the
   OUTER subscription AND every subscription of a handed observable are gone.

   Machine side.  Inputs at the operator's boundary
     ISrc k e / ITick tag        as in Ops/Multi.v
     IDispose                    the subscriber disposes the OUTER subscription
     ISubWin g / IUnsubWin g     the subscriber subscribes to / disposes a
                                 subscription of handed observable g
   (only ISrc/ITick reach the operator's handlers).  Commands
     CEmit b                     plain element on the outer (buffers)
     CHand g key                 observer.on_next(add_ref(subject_g, r)) /
                                 observer.on_next(GroupedObservable(key, ...)):
                                 window/group g handed downstream
     CWin g e                    subject_g.on_next/on_error/on_completed
     CSub/CUnsub/CTimer/CCancel/CEffect   as in Ops/Multi.v
     CSubLive k                  a subscription made behind `if d.is_disposed:
                                 return` (d = the underlying disposable of the
                                 RefCountDisposable; operators/_window.py
                                 window_when_): as CSub k while the underlying
                                 disposable has not been released, nothing at
                                 all (the handler returned before making it)
                                 once it has
   and [fin]: the handler's last action is observer.on_completed()/on_error().
   Unlike in Ops/Multi.v a machine may be stepped again after it ended the
   outer sequence (window subscribers keep the operator alive).

   Runner side: what the library gives these operators.
   * internal/utils.py add_ref and observable/groupedobservable.py: subscribing
     to handed observable g is CompositeDisposable(r.disposable,
     subject_g.subscribe(observer)): one reference of the RefCountDisposable
     per live subscription of a handed observable ([r_wsubs]);
   * subject/subject.py: a notification on subject g reaches every live
     subscription of g; after g's terminal the subscriptions are detached
     (AutoDetachObserver) and their references released; notifications on a
     terminated subject are dropped; a subscription made after the terminal
     receives the terminal at once;
   * disposable/refcountdisposable.py: dispose() of the outer subscription
     (subscriber's dispose, or the auto-detach after the outer terminal) sets
     is_primary_disposed ([r_outer] = false); the underlying disposable -- which
     holds every source subscription and timer of the operator (ASSUMED, and
     checked by the K2 correspondence through the unsubscribe instants) -- is
     disposed when primary is disposed and the count is zero ([maybe_release]),
     at the very point of the handler where that becomes true; later
     `r.disposable` requests get an empty disposable ([r_released]);
   * things added to an already disposed composite/serial disposable are
     disposed at once: a CSub/CTimer after the release is observed as
     subscribe+unsubscribe / schedule+cancel;
   * the outer observer is auto-detaching: nothing reaches the subscriber on
     the outer after its terminal or its dispose;
   * each source subscription is auto-detaching (as in Ops/Multi.v).

   [imm g] is the subscriber's policy "subscribe to g inside the on_next call
   that hands it" (the only window-level action that happens in the middle of
   an operator handler; all others are boundary inputs). *)
From RxVerif Require Import Base.Prelude Ops.Machine.
From RxVerif Require Ops.Multi.

Notation mem := Multi.mem.
Notation remove := Multi.remove.
Notation sort_nat := Multi.sort_nat.

Inductive inp (A : Type) :=
| ISrc (k : nat) (e : ev A) | ITick (tag : nat) | IDispose | ISubWin (g : nat) | IUnsubWin (g : nat).
Arguments ISrc {A} k e. Arguments ITick {A} tag. Arguments IDispose {A}.
Arguments ISubWin {A} g. Arguments IUnsubWin {A} g.

Inductive cmd (W B : Type) :=
| CEmit (b : B) | CHand (g : nat) (key : Z) | CWin (g : nat) (e : ev W)
| CSub (k : nat) | CUnsub (k : nat)
| CTimer (tag : nat) (delay : Z) | CCancel (tag : nat) | CEffect (n : Z)
| CSubLive (k : nat).
Arguments CEmit {W B} b. Arguments CHand {W B} g key. Arguments CWin {W B} g e.
Arguments CSub {W B} k. Arguments CUnsub {W B} k.
Arguments CTimer {W B} tag delay. Arguments CCancel {W B} tag. Arguments CEffect {W B} n.
Arguments CSubLive {W B} k.

Inductive obs (W B : Type) :=
| OEmit (e : ev B) | OHand (g : nat) (key : Z) | OWin (g : nat) (e : ev W)
| OSub (k : nat) | OUnsub (k : nat)
| OTimer (tag : nat) (delay : Z) | OCancel (tag : nat) | OEffect (n : Z).
Arguments OEmit {W B} e. Arguments OHand {W B} g key. Arguments OWin {W B} g e.
Arguments OSub {W B} k. Arguments OUnsub {W B} k.
Arguments OTimer {W B} tag delay. Arguments OCancel {W B} tag. Arguments OEffect {W B} n.

Record machine (A W B : Type) := Machine {
  x_state : Type;
  x_start : x_state * list (cmd W B) * fin;                  (* inside subscribe() *)
  x_step : x_state -> Z -> inp A -> x_state * list (cmd W B) * fin }.
Arguments Machine {A W B x_state}.
Arguments x_state {A W B}. Arguments x_start {A W B}. Arguments x_step {A W B}.

(* runner state *)
Record rstate (W : Type) := RState {
  r_live : list nat;              (* source subscriptions held by the underlying disposable *)
  r_timers : list nat;            (* pending timers held by it *)
  r_outer : bool;                 (* outer subscription live = not is_primary_disposed *)
  r_wsubs : list nat;             (* live subscriptions of handed observables = references held *)
  r_wterm : list (nat * ev W);    (* terminated subjects with their terminal *)
  r_handed : list nat;            (* observables the subscriber received *)
  r_released : bool }.            (* RefCountDisposable.is_disposed *)
Arguments RState {W}. Arguments r_live {W}. Arguments r_timers {W}. Arguments r_outer {W}.
Arguments r_wsubs {W}. Arguments r_wterm {W}. Arguments r_handed {W}. Arguments r_released {W}.

Fixpoint wterm_of {W} (g : nat) (l : list (nat * ev W)) : option (ev W) :=
  match l with [] => None | (j, e) :: t => if Nat.eqb g j then Some e else wterm_of g t end.

Definition count_of (g : nat) (l : list nat) : nat := length (filter (Nat.eqb g) l).

Section Run.
Context {A W B : Type}.

Definition rstate0 : rstate W := RState [] [] true [] [] [] false.

(* RefCountDisposable.dispose / release: the underlying disposable goes when
   the primary is disposed and no reference is left *)
Definition maybe_release (r : rstate W) : rstate W * list (obs W B) :=
  if negb (r_outer r) && negb (r_released r) && match r_wsubs r with [] => true | _ => false end
  then (RState [] [] false [] (r_wterm r) (r_handed r) true,
        map OUnsub (sort_nat (r_live r)) ++ map OCancel (sort_nat (r_timers r)))
  else (r, []).

(* the subscriber subscribes to handed observable g *)
Definition sub_win (r : rstate W) (g : nat) : rstate W * list (obs W B) :=
  match wterm_of g (r_wterm r) with
  | Some t => (r, [OWin g t])
  | None =>
      if mem g (r_handed r) && negb (r_released r)
      then (RState (r_live r) (r_timers r) (r_outer r) (r_wsubs r ++ [g]) (r_wterm r) (r_handed r)
                   (r_released r), [])
      else (r, [])
  end.

Context (imm : nat -> bool).

Definition apply_cmd (r : rstate W) (c : cmd W B) : rstate W * list (obs W B) :=
  match c with
  | CEmit b => if r_outer r then (r, [OEmit (Next b)]) else (r, [])
  | CHand g key =>
      if r_outer r then
        let r1 := RState (r_live r) (r_timers r) (r_outer r) (r_wsubs r) (r_wterm r) (r_handed r ++ [g])
                         (r_released r) in
        if imm g then let '(r2, o) := sub_win r1 g in (r2, OHand g key :: o) else (r1, [OHand g key])
      else (r, [])
  | CWin g e =>
      match wterm_of g (r_wterm r) with
      | Some _ => (r, [])
      | None =>
          let o := repeat (OWin g e) (count_of g (r_wsubs r)) in
          if is_terminal e then
            let r1 := RState (r_live r) (r_timers r) (r_outer r)
                             (filter (fun j => negb (Nat.eqb g j)) (r_wsubs r))
                             (r_wterm r ++ [(g, e)]) (r_handed r) (r_released r) in
            let '(r2, o2) := maybe_release r1 in (r2, o ++ o2)
          else (r, o)
      end
  | CSub k =>
      if r_released r then (r, [OSub k; OUnsub k])
      else (RState (r_live r ++ [k]) (r_timers r) (r_outer r) (r_wsubs r) (r_wterm r) (r_handed r)
                   (r_released r), [OSub k])
  | CUnsub k =>
      if mem k (r_live r)
      then (RState (remove k (r_live r)) (r_timers r) (r_outer r) (r_wsubs r) (r_wterm r) (r_handed r)
                   (r_released r), [OUnsub k])
      else (r, [])
  | CTimer tag d =>
      if r_released r then (r, [OTimer tag d; OCancel tag])
      else (RState (r_live r) (r_timers r ++ [tag]) (r_outer r) (r_wsubs r) (r_wterm r) (r_handed r)
                   (r_released r), [OTimer tag d])
  | CCancel tag =>
      if mem tag (r_timers r)
      then (RState (r_live r) (remove tag (r_timers r)) (r_outer r) (r_wsubs r) (r_wterm r) (r_handed r)
                   (r_released r), [OCancel tag])
      else (r, [])
  | CEffect n => (r, [OEffect n])
  | CSubLive k =>
      if r_released r then (r, [])
      else (RState (r_live r ++ [k]) (r_timers r) (r_outer r) (r_wsubs r) (r_wterm r) (r_handed r)
                   (r_released r), [OSub k])
  end.

Fixpoint apply_cmds (r : rstate W) (cs : list (cmd W B)) : rstate W * list (obs W B) :=
  match cs with
  | [] => (r, [])
  | c :: t =>
      let '(r1, o1) := apply_cmd r c in
      let '(r2, o2) := apply_cmds r1 t in (r2, o1 ++ o2)
  end.

(* the outer subscription ends (its terminal was delivered, or the subscriber
   disposed it): RefCountDisposable.dispose() *)
Definition end_outer (r : rstate W) : rstate W * list (obs W B) :=
  maybe_release (RState (r_live r) (r_timers r) false (r_wsubs r) (r_wterm r) (r_handed r) (r_released r)).

Definition finish (r : rstate W) (f : fin) : rstate W * list (obs W B) :=
  match f with
  | Cont => (r, [])
  | Complete => if r_outer r then let '(r', o) := end_outer r in (r', OEmit Done :: o) else (r, [])
  | Fail e => if r_outer r then let '(r', o) := end_outer r in (r', OEmit (Err e) :: o) else (r, [])
  end.

Context (m : machine A W B).

(* an input that reaches the operator's handlers *)
Definition deliver (s : x_state m) (r0 : rstate W) (now : Z) (i : inp A)
  : x_state m * rstate W * list (obs W B) :=
  let '(s', cs, f) := x_step m s now i in
  let '(r1, o1) := apply_cmds r0 cs in
  let '(r2, o2) := finish r1 f in
  (* auto-detach of a source subscription after its terminal *)
  let '(r3, o3) :=
    match i with
    | ISrc k e => if is_terminal e && mem k (r_live r2)
                  then (RState (remove k (r_live r2)) (r_timers r2) (r_outer r2) (r_wsubs r2) (r_wterm r2)
                               (r_handed r2) (r_released r2), [OUnsub k])
                  else (r2, [])
    | _ => (r2, [])
    end in
  (s', r3, o1 ++ o2 ++ o3).

(* one input at the boundary *)
Definition rstep (s : x_state m) (r : rstate W) (now : Z) (i : inp A)
  : x_state m * rstate W * list (obs W B) :=
  match i with
  | ISrc k _ => if mem k (r_live r) then deliver s r now i else (s, r, [])
  | ITick tag =>
      if mem tag (r_timers r)
      then deliver s (RState (r_live r) (remove tag (r_timers r)) (r_outer r) (r_wsubs r) (r_wterm r)
                             (r_handed r) (r_released r)) now i
      else (s, r, [])
  | IDispose => if r_outer r then let '(r', o) := end_outer r in (s, r', o) else (s, r, [])
  | ISubWin g => let '(r', o) := sub_win r g in (s, r', o)
  | IUnsubWin g =>
      if mem g (r_wsubs r)
      then let '(r', o) := maybe_release (RState (r_live r) (r_timers r) (r_outer r) (remove g (r_wsubs r))
                                                 (r_wterm r) (r_handed r) (r_released r)) in
           (s, r', o)
      else (s, r, [])
  end.

Fixpoint run_from (s : x_state m) (r : rstate W) (k : nat) (ins : list (Z * inp A))
  : list (nat * obs W B) * rstate W :=
  match ins with
  | [] => ([], r)
  | (now, i) :: rest =>
      let '(s', r', o) := rstep s r now i in
      let '(tr, rf) := run_from s' r' (S k) rest in
      (map (fun x => (k, x)) o ++ tr, rf)
  end.

Definition start_state : x_state m * rstate W :=
  let '(s0, cs, f) := x_start m in
  (s0, fst (finish (fst (apply_cmds rstate0 cs)) f)).
Definition start_obs : list (obs W B) :=
  let '(s0, cs, f) := x_start m in
  snd (apply_cmds rstate0 cs) ++ snd (finish (fst (apply_cmds rstate0 cs)) f).

Definition run (ins : list (Z * inp A)) : list (nat * obs W B) * rstate W :=
  let '(tr, rf) := run_from (fst start_state) (snd start_state) 1 ins in
  (map (fun x => (0%nat, x)) start_obs ++ tr, rf).

(* states after a run *)
Fixpoint after (s : x_state m) (r : rstate W) (l : list (Z * inp A)) : x_state m * rstate W :=
  match l with
  | [] => (s, r)
  | (now, i) :: t => let '(s', r', _) := rstep s r now i in after s' r' t
  end.
End Run.

(* projections of a trace *)
Definition wevents {W B} (g : nat) (tr : list (nat * obs W B)) : list (ev W) :=
  flat_map (fun x => match snd x with OWin j e => if Nat.eqb g j then [e] else [] | _ => [] end) tr.
Definition twevents {W B} (g : nat) (tr : list (nat * obs W B)) : list (nat * ev W) :=
  flat_map (fun x => match snd x with OWin j e => if Nat.eqb g j then [(fst x, e)] else [] | _ => [] end) tr.
Definition hands {W B} (tr : list (nat * obs W B)) : list (nat * Z) :=
  flat_map (fun x => match snd x with OHand g key => [(g, key)] | _ => [] end) tr.
Definition emitted {W B} (tr : list (nat * obs W B)) : list (ev B) :=
  flat_map (fun x => match snd x with OEmit e => [e] | _ => [] end) tr.

Definition all_imm : nat -> bool := fun _ => true.
