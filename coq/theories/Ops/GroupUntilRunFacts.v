(* C19: group_by_until -- RUN-LEVEL theorem for every interleaving of the source
   port (0) and the duration ports (1 + j = the observable returned by the j-th
   call of the duration mapper), every key / element / duration callback
   (raising ones included), the subscriber subscribing to every group inside the
   on_next call that hands it ([all_imm]) and never disposing anything.

   The routing part of the runner's trace (group hand-overs, notifications on
   the groups, the outer's terminal -- with their input positions) EQUALS the
   trace of a small functional specification [gbu_spec]: a map "key -> live
   group" in creation order, a counter for fresh group ids, and a flag "over".

     element x, key k:
       a live group has key k   -> the mapped element goes to it, nothing else;
       no live group has key k  -> group [next] is created and handed with k,
                                   the mapped element goes to it, nothing else;
     duration port 1+g fires (element or completion) while g is live
                                -> g completes and is no longer live: the next
                                   element of its key creates a fresh group;
     source completes           -> every live group completes, then the outer;
     source errors / a live group's duration observable errors / the key,
     element or duration mapper raises
                                -> every live group (the one just handed
                                   included) gets the error, then the outer;
     after any of the last two nothing happens any more (over).

   The machine of Ops/Groups.v, the subscription plumbing of Ops/MultiWin.v
   (ref-counted release, terminated subjects, auto-detach of the duration
   subscriptions) are all on the left-hand side; none of it is in the spec. *)
From RxVerif Require Import Base.Prelude Ops.Machine Ops.MultiWin Ops.MultiWinFacts Ops.Groups Ops.GroupFacts.

Local Arguments Multi.mem : simpl never.
Local Arguments Multi.remove : simpl never.

Definition tev {X} (z : option Z) : ev X := match z with None => Done | Some e => Err e end.

(* ------------------------------------------------------------- the spec -- *)
Record gbu_st := GbuSt { gbu_live : list (Z * nat); gbu_next : nat; gbu_over : bool }.

Fixpoint gbu_find (k : Z) (l : list (Z * nat)) : option nat :=
  match l with [] => None | (j, g) :: t => if j =? k then Some g else gbu_find k t end.
Definition gbu_is_live (g : nat) (l : list (Z * nat)) : bool := existsb (fun p => Nat.eqb g (snd p)) l.
Definition gbu_drop (g : nat) (l : list (Z * nat)) : list (Z * nat) :=
  filter (fun p => negb (Nat.eqb g (snd p))) l.

Section Spec.
Context {A W B : Type}.
Variables (key : A -> res Z) (elem : A -> res W) (dur : nat -> res bool).

(* the duration observable of group g (the g-th call of the duration mapper) is
   a real observable, not reactivex.never() *)
Definition gbu_hot (g : nat) : bool := match dur g with Ok true => true | _ => false end.

(* every live group, in creation order, then the outer *)
Definition gbu_end (l : list (Z * nat)) (z : option Z) : list (obs W B) :=
  map (fun p => OWin (snd p) (tev z)) l ++ [OEmit (tev z)].

Definition gbu_step (s : gbu_st) (i : inp A) : gbu_st * list (obs W B) :=
  if gbu_over s then (s, []) else
  let live := gbu_live s in
  let stop := GbuSt [] (gbu_next s) true in
  match i with
  | ISrc O (Next x) =>
      match key x with
      | Raise e => (stop, gbu_end live (Some e))
      | Ok k =>
          match gbu_find k live with
          | Some g =>
              match elem x with
              | Ok y => (s, [OWin g (Next y)])
              | Raise e => (stop, gbu_end live (Some e))
              end
          | None =>
              let g := gbu_next s in
              match dur g with
              | Raise e => (stop, gbu_end live (Some e))
              | Ok _ =>
                  match elem x with
                  | Ok y => (GbuSt (live ++ [(k, g)]) (S g) false, [OHand g k; OWin g (Next y)])
                  | Raise e => (stop, OHand g k :: gbu_end (live ++ [(k, g)]) (Some e))
                  end
              end
          end
      end
  | ISrc O Done => (stop, gbu_end live None)
  | ISrc O (Err e) => (stop, gbu_end live (Some e))
  | ISrc (S d) e =>
      if gbu_is_live d live && gbu_hot d then
        match e with
        | Err z => (stop, gbu_end live (Some z))
        | _ => (GbuSt (gbu_drop d live) (gbu_next s) false, [OWin d Done])
        end
      else (s, [])
  | _ => (s, [])
  end.

Fixpoint gbu_run (s : gbu_st) (k : nat) (ins : list (Z * inp A)) : list (nat * obs W B) :=
  match ins with
  | [] => []
  | (_, i) :: rest => map (fun x => (k, x)) (snd (gbu_step s i)) ++ gbu_run (fst (gbu_step s i)) (S k) rest
  end.
Fixpoint gbu_after (s : gbu_st) (ins : list (Z * inp A)) : gbu_st :=
  match ins with [] => s | (_, i) :: rest => gbu_after (fst (gbu_step s i)) rest end.

Definition gbu_init : gbu_st := GbuSt [] 0 false.
Definition gbu_spec (ins : list (Z * inp A)) : list (nat * obs W B) := gbu_run gbu_init 1 ins.
End Spec.

(* the routing part of a trace / of an observation list *)
Definition is_route {W B} (o : obs W B) : bool :=
  match o with OEmit _ | OHand _ _ | OWin _ _ => true | _ => false end.
Definition routing {W B} (tr : list (nat * obs W B)) : list (nat * obs W B) :=
  filter (fun x => is_route (snd x)) tr.
(* inputs on the ports (source, durations); timer ticks are accepted too: the operator has no timer *)
Definition is_port {A} (i : inp A) : bool := match i with ISrc _ _ | ITick _ => true | _ => false end.
Definition ports_only {A} (ins : list (Z * inp A)) : Prop := forall p, In p ins -> is_port (snd p) = true.

(* ------------------------------------------------------ list arithmetic -- *)
Lemma filter_true {X} (l : list X) : filter (fun _ => true) l = l.
Proof. induction l as [|x t IH]; [reflexivity|]. cbn. now rewrite IH. Qed.

Lemma mem_cons j g (t : list nat) : mem j (g :: t) = Nat.eqb j g || mem j t.
Proof. reflexivity. Qed.

Lemma mem_In j (l : list nat) : mem j l = true <-> In j l.
Proof.
  unfold Multi.mem. rewrite existsb_exists. split.
  - intros [y [Hy He]]. apply Nat.eqb_eq in He. now subst.
  - intros H. exists j. split; [exact H|apply Nat.eqb_refl].
Qed.

Lemma mem_false j (l : list nat) : mem j l = false <-> ~ In j l.
Proof.
  rewrite <- mem_In. destruct (mem j l).
  - split; [discriminate|]. intros H. exfalso. apply H. reflexivity.
  - split; [intros _; discriminate|reflexivity].
Qed.

Lemma filter_notin (q l : list nat) : (forall j, In j l -> In j q) -> filter (fun j => negb (mem j q)) l = [].
Proof.
  induction l as [|x t IH]; intros H; [reflexivity|]. cbn [filter].
  assert (E : mem x q = true) by (apply mem_In, H; left; reflexivity). rewrite E. cbn [negb].
  apply IH. intros j Hj. apply H. right. exact Hj.
Qed.

Lemma filter_filter_mem g (t l : list nat) :
  filter (fun j => negb (mem j t)) (filter (fun j => negb (Nat.eqb g j)) l) = filter (fun j => negb (mem j (g :: t))) l.
Proof.
  induction l as [|x r IH]; [reflexivity|]. cbn [filter]. rewrite mem_cons, (Nat.eqb_sym x g).
  destruct (Nat.eqb g x); cbn [negb orb filter]; [exact IH|]. rewrite IH. reflexivity.
Qed.

Lemma count_of_notin g (l : list nat) : ~ In g l -> count_of g l = 0%nat.
Proof.
  unfold count_of. induction l as [|x t IH]; intros H; [reflexivity|]. cbn [filter].
  destruct (Nat.eqb_spec g x) as [->|Hne]; [exfalso; apply H; left; reflexivity|].
  apply IH. intros Hin. apply H. right. exact Hin.
Qed.

Lemma count_of_nodup g (l : list nat) : NoDup l -> In g l -> count_of g l = 1%nat.
Proof.
  unfold count_of. induction 1 as [|x t Hx Ht IH]; intros Hin; [destruct Hin|]. cbn [filter].
  destruct (Nat.eqb_spec g x) as [->|Hne].
  - cbn [length]. f_equal. apply (count_of_notin x t Hx).
  - destruct Hin as [->|Hin]; [congruence|]. apply IH. exact Hin.
Qed.

Lemma count_of_app g (a b : list nat) : count_of g (a ++ b) = (count_of g a + count_of g b)%nat.
Proof. unfold count_of. now rewrite filter_app, app_length. Qed.

Lemma remove_nodup d (l : list nat) : NoDup l -> remove d l = filter (fun j => negb (Nat.eqb d j)) l.
Proof.
  induction 1 as [|x t Hx Ht IH]; [reflexivity|]. rewrite remove_cons. cbn [filter].
  destruct (Nat.eqb_spec d x) as [->|Hne]; cbn [negb].
  - clear IH. induction t as [|y r IHr]; [reflexivity|]. cbn [filter].
    destruct (Nat.eqb_spec x y) as [->|Hy]; [exfalso; apply Hx; left; reflexivity|]. cbn [negb]. f_equal.
    apply IHr; [intros H; apply Hx; right; exact H|now inversion Ht].
  - now rewrite IH.
Qed.

Lemma remove_map_S d (l : list nat) : remove (S d) (map S l) = map S (remove d l).
Proof.
  induction l as [|x t IH]; [reflexivity|]. cbn [map]. rewrite !remove_cons.
  change (Nat.eqb (S d) (S x)) with (Nat.eqb d x). destruct (Nat.eqb d x); [reflexivity|]. cbn [map]. now rewrite IH.
Qed.

Lemma mem_map_S d (l : list nat) : mem (S d) (map S l) = mem d l.
Proof. unfold Multi.mem. induction l as [|x t IH]; [reflexivity|]. cbn [map existsb]. now rewrite IH. Qed.

Lemma filter_comm {X} (f g : X -> bool) (l : list X) : filter f (filter g l) = filter g (filter f l).
Proof.
  induction l as [|x t IH]; [reflexivity|]. cbn [filter].
  destruct (f x) eqn:Ef, (g x) eqn:Eg; cbn [filter]; rewrite ?Ef, ?Eg, IH; reflexivity.
Qed.

Lemma flat_map_ext_In {X Y} (f g : X -> list Y) (l : list X) :
  (forall x, In x l -> f x = g x) -> flat_map f l = flat_map g l.
Proof.
  induction l as [|x t IH]; intros H; [reflexivity|]. cbn [flat_map].
  rewrite (H x (or_introl eq_refl)), IH; [reflexivity|]. intros y Hy. apply H. right. exact Hy.
Qed.

Lemma NoDup_filter {X} (f : X -> bool) (l : list X) : NoDup l -> NoDup (filter f l).
Proof.
  induction 1 as [|x t Hx Ht IH]; [constructor|]. cbn [filter]. destruct (f x); [|exact IH].
  constructor; [|exact IH]. intros H. apply filter_In in H. apply Hx, H.
Qed.

(* ------------------------------------------------ facts about the spec -- *)
Lemma gbu_is_live_In g l : gbu_is_live g l = true <-> In g (map snd l).
Proof.
  unfold gbu_is_live. rewrite existsb_exists, in_map_iff. split.
  - intros [p [Hp He]]. apply Nat.eqb_eq in He. exists p. auto.
  - intros [p [He Hp]]. exists p. split; [exact Hp|]. apply Nat.eqb_eq. auto.
Qed.

Lemma gbu_find_In k l g : gbu_find k l = Some g -> In (k, g) l.
Proof.
  induction l as [|[j g0] t IH]; [discriminate|]. cbn [gbu_find].
  destruct (Z.eqb_spec j k) as [->|Hne]; [intros [= ->]; left; reflexivity|]. intros H. right. auto.
Qed.

Lemma gbu_find_none k l : gbu_find k l = None -> ~ In k (map fst l).
Proof.
  induction l as [|[j g0] t IH]; [intros _ []|]. cbn [gbu_find map fst In].
  destruct (Z.eqb_spec j k) as [->|Hne]; [discriminate|]. intros H [E|Hin]; [congruence|]. now apply IH.
Qed.

Lemma map_snd_drop d l : map snd (gbu_drop d l) = filter (fun j => negb (Nat.eqb d j)) (map snd l).
Proof.
  unfold gbu_drop. induction l as [|[j g] t IH]; [reflexivity|]. cbn [filter map snd].
  destruct (Nat.eqb d g); cbn [negb map snd]; now rewrite IH.
Qed.

Lemma gbu_drop_In d l p : In p (gbu_drop d l) -> In p l /\ snd p <> d.
Proof.
  unfold gbu_drop. intros H. apply filter_In in H. destruct H as [H1 H2]. split; [exact H1|].
  intros E. rewrite E, Nat.eqb_refl in H2. discriminate.
Qed.

Lemma NoDup_map_filter {X Y} (f : X -> Y) (p : X -> bool) (l : list X) : NoDup (map f l) -> NoDup (map f (filter p l)).
Proof.
  induction l as [|x t IH]; [auto|]. cbn [map filter]. intros H. inversion H as [|? ? Hx Ht]; subst.
  destruct (p x); [|apply IH; exact Ht]. cbn [map]. constructor; [|apply IH; exact Ht].
  intros Hin. apply Hx. apply in_map_iff in Hin. destruct Hin as [y [Hy Hin]]. apply filter_In in Hin.
  apply in_map_iff. exists y. tauto.
Qed.

Section Refine.
Context {A W B : Type}.
Variables (key : A -> res Z) (elem : A -> res W) (dur : nat -> res bool).
Notation M := (x_group_by_until (B:=B) key elem dur).
Notation hot := (gbu_hot dur).
Notation step := (gbu_step (B:=B) key elem dur).

Lemma routing_app (a b : list (nat * obs W B)) : routing (a ++ b) = routing a ++ routing b.
Proof. unfold routing. apply filter_app. Qed.
Lemma routing_tag k (o : list (obs W B)) : routing (map (fun x => (k, x)) o) = map (fun x => (k, x)) (filter is_route o).
Proof.
  unfold routing. induction o as [|x t IH]; [reflexivity|]. cbn [map filter snd].
  destruct (is_route x); cbn [map]; now rewrite IH.
Qed.

(* the writers-table entry of a live group *)
Definition wr (p : Z * nat) : Z * nat * nat := (fst p, snd p, if hot (snd p) then S (snd p) else 0%nat).

Lemma gb_groups_wr l : gb_groups (map wr l) = map snd l.
Proof. unfold gb_groups. rewrite map_map. reflexivity. Qed.

Lemma gb_lookup_wr k l : gb_lookup k (map wr l) = gbu_find k l.
Proof. induction l as [|[j g] t IH]; [reflexivity|]. cbn [map wr fst snd gb_lookup gbu_find]. now rewrite IH. Qed.

Lemma gb_by_dur_wr d l : NoDup (map snd l) -> gbu_is_live d l = true -> hot d = true ->
  exists k, In (k, d) l /\ gb_by_dur (S d) (map wr l) = Some (k, d).
Proof.
  intros Hnd Hl Hh. induction l as [|[j g] t IH]; [discriminate|].
  cbn [map snd] in Hnd. inversion Hnd as [|? ? Hg Ht]; subst.
  cbn [map wr fst snd gb_by_dur]. cbn [gbu_is_live existsb snd] in Hl.
  destruct (Nat.eqb_spec d g) as [->|Hne].
  - rewrite Hh. rewrite Nat.eqb_refl. exists j. split; [left; reflexivity|reflexivity].
  - cbn [orb] in Hl. destruct (IH Ht Hl) as [k [Hin Hk]]. exists k. split; [right; exact Hin|].
    destruct (hot g).
    + change (Nat.eqb (S d) (S g)) with (Nat.eqb d g). destruct (Nat.eqb_spec d g); [congruence|exact Hk].
    + exact Hk.
Qed.

Lemma gb_del_wr k d l : NoDup (map snd l) -> NoDup (map fst l) -> In (k, d) l ->
  gb_del k (map wr l) = map wr (gbu_drop d l).
Proof.
  intros Hg Hk Hin. induction l as [|[j g] t IH]; [destruct Hin|].
  cbn [map fst snd] in Hg, Hk. inversion Hg as [|? ? Hg1 Hg2]; subst. inversion Hk as [|? ? Hk1 Hk2]; subst.
  cbn [map wr fst snd gb_del]. unfold gbu_drop. cbn [filter snd]. fold (gbu_drop d t).
  destruct Hin as [E|Hin].
  - injection E as -> ->. rewrite Z.eqb_refl, Nat.eqb_refl. cbn [negb].
    assert (E : gbu_drop d t = t).
    { unfold gbu_drop. clear -Hg1. induction t as [|[j g] t IH]; [reflexivity|]. cbn [filter snd].
      destruct (Nat.eqb_spec d g) as [->|Hne]; [exfalso; apply Hg1; left; reflexivity|]. cbn [negb]. f_equal.
      apply IH. intros H. apply Hg1. right. exact H. }
    now rewrite E.
  - assert (j <> k) by (intros ->; apply Hk1; apply in_map_iff; exists (k, d); auto).
    assert (g <> d) by (intros ->; apply Hg1; apply in_map_iff; exists (k, d); auto).
    destruct (Z.eqb_spec j k); [congruence|]. destruct (Nat.eqb_spec d g); [congruence|]. cbn [negb map wr fst snd].
    now rewrite (IH Hg2 Hk2 Hin).
Qed.

(* ---- refinement relation between (machine state, runner state) and the spec state ---- *)
Record gbu_rel (s : gb_st) (r : rstate W) (st : gbu_st) : Prop := {
  gr_w : gb_writers s = map wr (gbu_live st);
  gr_n : gb_next s = gbu_next st;
  gr_c : gb_calls s = gbu_next st;
  gr_live : r_live r = 0%nat :: map S (filter hot (map snd (gbu_live st)));
  gr_tm : r_timers r = [];
  gr_outer : r_outer r = true;
  gr_rel : r_released r = false;
  gr_ws : r_wsubs r = map snd (gbu_live st);
  gr_wt : forall g, gbu_is_live g (gbu_live st) = true \/ (gbu_next st <= g)%nat -> wterm_of g (r_wterm r) = None;
  gr_lt : forall p, In p (gbu_live st) -> (snd p < gbu_next st)%nat;
  gr_ndg : NoDup (map snd (gbu_live st));
  gr_ndk : NoDup (map fst (gbu_live st)) }.

Definition gbu_R (s : gb_st) (r : rstate W) (st : gbu_st) : Prop :=
  if gbu_over st then r_live r = [] /\ r_timers r = [] else gbu_rel s r st.

Lemma mem_live d (l : list (Z * nat)) :
  mem (S d) (0%nat :: map S (filter hot (map snd l))) = gbu_is_live d l && hot d.
Proof.
  rewrite mem_cons. cbn [Nat.eqb orb]. rewrite mem_map_S.
  destruct (mem d (filter hot (map snd l))) eqn:E.
  - apply mem_In, filter_In in E. destruct E as [E1 E2]. rewrite E2, (proj2 (gbu_is_live_In d l) E1). reflexivity.
  - destruct (gbu_is_live d l) eqn:El; [|reflexivity]. destruct (hot d) eqn:Eh; [|reflexivity].
    exfalso. apply (proj1 (mem_false _ _) E). apply filter_In. split; [apply gbu_is_live_In; exact El|exact Eh].
Qed.

(* ---- the runner on `for wrt in writers.values(): wrt.on_xxx()` ---- *)
Lemma fanout (e : ev W) : is_terminal e = true -> forall q, NoDup q -> forall r : rstate W,
  r_outer r = true -> (forall g, In g q -> wterm_of g (r_wterm r) = None) ->
  r_live (fst (apply_cmds (B:=B) all_imm r (map (fun g => CWin g e) q))) = r_live r
  /\ r_timers (fst (apply_cmds (B:=B) all_imm r (map (fun g => CWin g e) q))) = r_timers r
  /\ r_outer (fst (apply_cmds (B:=B) all_imm r (map (fun g => CWin g e) q))) = true
  /\ r_released (fst (apply_cmds (B:=B) all_imm r (map (fun g => CWin g e) q))) = r_released r
  /\ r_wsubs (fst (apply_cmds (B:=B) all_imm r (map (fun g => CWin g e) q))) = filter (fun j => negb (mem j q)) (r_wsubs r)
  /\ snd (apply_cmds (B:=B) all_imm r (map (fun g => CWin g e) q))
     = flat_map (fun g => repeat (OWin g e) (count_of g (r_wsubs r))) q.
Proof.
  intros He. induction 1 as [|g t Hg Ht IH]; intros r Ho Hw.
  - cbn [map apply_cmds fst snd flat_map]. rewrite filter_true. repeat split; auto.
  - cbn [map apply_cmds apply_cmd flat_map]. rewrite (Hw g (or_introl eq_refl)), He.
    unfold maybe_release. cbn [r_outer]. rewrite Ho. cbn [negb andb].
    match goal with |- context [apply_cmds all_imm ?r1 _] => specialize (IH r1) end.
    destruct IH as [I1 [I2 [I3 [I4 [I5 I6]]]]]; [reflexivity| |].
    { intros j Hj. cbn [r_wterm]. rewrite wterm_of_app, (Hw j (or_intror Hj)). cbn [wterm_of].
      destruct (Nat.eqb_spec j g) as [->|]; [contradiction|reflexivity]. }
    match goal with |- context [apply_cmds all_imm ?r1 ?cs] => destruct (apply_cmds all_imm r1 cs) as [r2 o2] end.
    cbn [fst snd r_live r_timers r_outer r_released r_wsubs] in *.
    repeat split; try assumption.
    + rewrite I5. apply filter_filter_mem.
    + rewrite app_nil_r, I6. f_equal. apply flat_map_ext_In. intros j Hj.
      rewrite count_of_filter_other; [reflexivity|]. intros ->. contradiction.
Qed.

Lemma route_unsubs (l1 l2 : list nat) : filter is_route (map (@OUnsub W B) l1 ++ map (@OCancel W B) l2) = [].
Proof.
  rewrite filter_app.
  assert (H1 : forall l, filter is_route (map (@OUnsub W B) l) = []) by (induction l; auto).
  assert (H2 : forall l, filter is_route (map (@OCancel W B) l) = []) by (induction l; auto).
  now rewrite H1, H2.
Qed.

Lemma filter_route_wins (e : ev W) (c : nat -> nat) (q : list nat) :
  filter is_route (flat_map (fun g => repeat (@OWin W B g e) (c g)) q) = flat_map (fun g => repeat (@OWin W B g e) (c g)) q.
Proof.
  induction q as [|g t IH]; [reflexivity|]. cbn [flat_map]. rewrite filter_app, IH. f_equal.
  induction (c g) as [|n IHn]; [reflexivity|]. cbn [repeat filter is_route]. now rewrite IHn.
Qed.

Definition fin_of (z : option Z) : fin := match z with None => Complete | Some e => Fail e end.

(* all groups get the terminal, then the outer: everything is released *)
Lemma finale (r : rstate W) (q : list nat) (z : option Z) :
  r_outer r = true -> r_released r = false -> r_timers r = [] -> NoDup q ->
  (forall g, In g q -> wterm_of g (r_wterm r) = None) ->
  (forall j, In j (r_wsubs r) -> In j q) ->
  let a := apply_cmds (B:=B) all_imm r (map (fun g => CWin g (tev z)) q) in
  let b := finish (fst a) (fin_of z) in
  r_live (fst b) = [] /\ r_timers (fst b) = []
  /\ filter is_route (snd a ++ snd b)
     = flat_map (fun g => repeat (OWin g (tev z)) (count_of g (r_wsubs r))) q ++ [OEmit (tev z)].
Proof.
  intros Ho Hr Ht Hq Hw Hs. cbn zeta.
  assert (He : is_terminal (tev (X:=W) z) = true) by (destruct z; reflexivity).
  destruct (fanout (tev z) He q Hq r Ho Hw) as [I1 [I2 [I3 [I4 [I5 I6]]]]].
  destruct (apply_cmds all_imm r (map (fun g => CWin g (tev z)) q)) as [r1 o1]. cbn [fst snd] in *.
  rewrite (filter_notin q _ Hs) in I5.
  assert (E : finish (B:=B) r1 (fin_of z)
              = (RState [] [] false [] (r_wterm r1) (r_handed r1) true,
                 OEmit (tev z) :: map OUnsub (sort_nat (r_live r1)) ++ map OCancel (sort_nat (r_timers r1)))).
  { destruct z; cbn [fin_of finish tev]; rewrite I3; unfold end_outer, maybe_release;
      cbn [r_outer r_released r_wsubs r_live r_timers r_wterm r_handed]; rewrite I4, Hr, I5; reflexivity. }
  rewrite E. cbn [fst snd r_live r_timers]. repeat split.
  rewrite filter_app, I6, filter_route_wins. f_equal.
  change (OEmit (tev z) :: ?l) with ([@OEmit W B (tev z)] ++ l).
  rewrite filter_app, route_unsubs. destruct z; reflexivity.
Qed.

Lemma wins_one (e : ev W) (ws q : list nat) : (forall g, In g q -> count_of g ws = 1%nat) ->
  flat_map (fun g => repeat (@OWin W B g e) (count_of g ws)) q = map (fun g => OWin g e) q.
Proof.
  induction q as [|g t IH]; intros H; [reflexivity|]. cbn [flat_map map]. rewrite (H g (or_introl eq_refl)).
  cbn [repeat app]. f_equal. apply IH. intros j Hj. apply H. right. exact Hj.
Qed.


Ltac rs := cbn [r_live r_timers r_outer r_wsubs r_wterm r_handed r_released fst snd app apply_cmds apply_cmd
                finish is_terminal all_imm negb andb repeat].

(* a handler that ends with `for wrt in writers.values(): wrt.on_xxx(); observer.on_xxx()` *)
Lemma deliver_end s (r : rstate W) now i s' pre q z :
  x_step M s now i = (s', pre ++ map (fun g => CWin g (tev z)) q, fin_of z) ->
  let r0 := fst (apply_cmds (B:=B) all_imm r pre) in
  r_outer r0 = true -> r_released r0 = false -> r_timers r0 = [] -> NoDup q ->
  (forall g, In g q -> wterm_of g (r_wterm r0) = None) ->
  (forall j, In j (r_wsubs r0) -> In j q) ->
  r_live (snd (fst (deliver all_imm M s r now i))) = []
  /\ r_timers (snd (fst (deliver all_imm M s r now i))) = []
  /\ filter is_route (snd (deliver all_imm M s r now i))
     = filter is_route (snd (apply_cmds (B:=B) all_imm r pre))
       ++ flat_map (fun g => repeat (OWin g (tev z)) (count_of g (r_wsubs r0))) q ++ [OEmit (tev z)].
Proof.
  intros Hx r0 Ho Hr Ht Hq Hw Hs. unfold deliver. rewrite Hx, (apply_cmds_app all_imm).
  fold r0. cbn [fst snd].
  destruct (finale r0 q z Ho Hr Ht Hq Hw Hs) as [F1 [F2 F3]]. cbn zeta in *.
  destruct (apply_cmds all_imm r0 (map (fun g => CWin g (tev z)) q)) as [r1 o1]. cbn [fst snd] in *.
  destruct (finish r1 (fin_of z)) as [r2 o2]. cbn [fst snd] in *.
  assert (E : forall k (e : ev A), is_terminal e && mem k (r_live r2) = false).
  { intros k e. rewrite F1. apply andb_false_r. }
  destruct i as [k e|tag| | |]; try rewrite E; cbn [fst snd]; rewrite ?app_nil_r;
    (repeat split; [exact F1|exact F2|]); rewrite <- app_assoc, filter_app, F3; reflexivity.
Qed.

Lemma over_R s (r : rstate W) st : gbu_over st = true -> r_live r = [] -> r_timers r = [] -> gbu_R s r st.
Proof. intros Ho H1 H2. unfold gbu_R. rewrite Ho. auto. Qed.

Lemma end_map (l : list (Z * nat)) (z : option Z) :
  map (fun g => @OWin W B g (tev z)) (map snd l) ++ [OEmit (tev z)] = gbu_end l z.
Proof. unfold gbu_end. now rewrite map_map. Qed.


Ltac ending s' pre q z :=
  match goal with |- context [deliver all_imm ?m ?s ?r ?now ?i] =>
    destruct (deliver_end s r now i s' pre q z) as [D1 [D2 D3]] end.

Lemma gbu_refine_step s (r : rstate W) st now i : gbu_R s r st -> is_port i = true ->
  gbu_R (fst (fst (rstep all_imm M s r now i))) (snd (fst (rstep all_imm M s r now i))) (fst (step st i))
  /\ filter is_route (snd (rstep all_imm M s r now i)) = snd (step st i).
Proof.
  unfold gbu_R at 1. intros HR Hp. unfold gbu_step. destruct (gbu_over st) eqn:Eo.
  - (* over: the runner drops everything *)
    destruct HR as [Hl Ht]. destruct i as [k e|tag| | |]; try discriminate; cbn [rstep].
    + rewrite Hl. change (mem k []) with false. cbn [fst snd]. split; [apply over_R; assumption|reflexivity].
    + rewrite Ht. change (mem tag []) with false. cbn [fst snd]. split; [apply over_R; assumption|reflexivity].
  - destruct i as [k e|tag| | |]; try discriminate.
    2:{ cbn [rstep]. rewrite (gr_tm _ _ _ HR). change (mem tag []) with false. cbn [fst snd].
        split; [unfold gbu_R; rewrite Eo; exact HR|reflexivity]. }
    pose proof HR as HR0. revert HR0.
    destruct st as [live next over]. cbn [gbu_over gbu_live gbu_next] in *. subst over.
    destruct s as [ws nx cl]. destruct r as [rl rt ro rw rwt rh rr].
    destruct HR as [H1 H2 H3 H4 H5 H6 H7 H8 Hwt Hlt Hndg Hndk].
    cbn [gb_writers gb_next gb_calls r_live r_timers r_outer r_released r_wsubs r_wterm gbu_live gbu_next] in *.
    subst ws nx cl rl rt ro rr rw. intros HR0.
    cbn [rstep r_live].
    destruct k as [|d].
    + (* the source port *)
      rewrite mem_cons. cbn [Nat.eqb orb].
      destruct e as [x|z|].
      * destruct (key x) as [k|e] eqn:Hk.
        -- destruct (gbu_find k live) as [g|] eqn:Ef.
           ++ assert (Hg : In g (map snd live))
                by (apply in_map_iff; exists (k, g); split; [reflexivity|apply gbu_find_In; exact Ef]).
              destruct (elem x) as [y|e] eqn:He.
              ** unfold deliver. cbn [x_step x_group_by_until]. unfold gb_on_next. cbn [gb_writers gb_next gb_calls].
                 rewrite Hk, gb_lookup_wr, Ef, He. rs.
                 rewrite (Hwt g (or_introl (proj2 (gbu_is_live_In g live) Hg))), (count_of_nodup g _ Hndg Hg). rs.
                 split; [exact HR0|reflexivity].
              ** ending (GbSt (map wr live) next next) (@nil (cmd W B)) (map snd live) (Some e).
                 { cbn [x_step x_group_by_until]. unfold gb_on_next. cbn [gb_writers gb_next gb_calls].
                   rewrite Hk, gb_lookup_wr, Ef, He. unfold gb_all. rewrite gb_groups_wr. reflexivity. }
                 all: rs; auto.
                 { intros j Hj. apply Hwt. left. apply gbu_is_live_In. exact Hj. }
                 split; [apply over_R; auto|]. rewrite D3. rs.
                 rewrite wins_one by (intros j Hj; apply count_of_nodup; assumption). apply end_map.
           ++ assert (Hfresh : ~ In next (map snd live)).
              { intros Hin. apply in_map_iff in Hin. destruct Hin as [p [Hp1 Hp2]]. specialize (Hlt p Hp2). lia. }
              assert (Hq : NoDup (map snd live ++ [next])) by (apply NoDup_app_snoc; assumption).
              assert (Hwq : forall j, In j (map snd live ++ [next]) -> wterm_of j rwt = None).
              { intros j Hj. apply Hwt. apply in_app_or in Hj. destruct Hj as [Hj|[<-|[]]];
                  [left; apply gbu_is_live_In; exact Hj|right; lia]. }
              destruct (dur next) as [hotb|e] eqn:Hd.
              ** assert (Hh : hot next = hotb) by (unfold gbu_hot; rewrite Hd; destruct hotb; reflexivity).
                 destruct (elem x) as [y|e] eqn:He.
                 --- (* a new group *)
                     unfold deliver. cbn [x_step x_group_by_until]. unfold gb_on_next. cbn [gb_writers gb_next gb_calls].
                     rewrite Hk, gb_lookup_wr, Ef, Hd, He. rs. unfold sub_win. rs.
                     rewrite (Hwt next (or_intror (le_n _))).
                     assert (Em : mem next (rh ++ [next]) = true) by (apply mem_In, in_or_app; right; left; reflexivity).
                     rewrite Em. rs.
                     assert (Ec : count_of next (map snd live ++ [next]) = 1%nat).
                     { rewrite count_of_app, (count_of_notin _ _ Hfresh). unfold count_of. cbn [filter]. now rewrite Nat.eqb_refl. }
                     assert (Hnew : gbu_rel
                               (GbSt (map wr live ++ [(k, next, if hotb then S next else 0%nat)]) (S next) (S next))
                               (RState ((0%nat :: map S (filter hot (map snd live))) ++ (if hotb then [S next] else []))
                                       [] true (map snd live ++ [next]) rwt (rh ++ [next]) false)
                               (GbuSt (live ++ [(k, next)]) (S next) false)).
                     { constructor;
                         cbn [gb_writers gb_next gb_calls r_live r_timers r_outer r_released r_wsubs r_wterm gbu_live gbu_next];
                         rewrite ?map_app, ?filter_app; cbn [map filter snd fst wr]; rewrite ?Hh; try reflexivity.
                       - rewrite <- Hh. reflexivity.
                       - destruct hotb; cbn [map]; rewrite ?map_app, ?app_nil_r; reflexivity.
                       - intros j [Hj|Hj]; apply Hwt; [|right; lia].
                         unfold gbu_is_live in Hj. rewrite existsb_app in Hj. apply orb_prop in Hj.
                         destruct Hj as [Hj|Hj]; [left; exact Hj|right]. cbn [existsb snd] in Hj.
                         rewrite orb_false_r in Hj. apply Nat.eqb_eq in Hj. lia.
                       - intros p0 Hp0. apply in_app_or in Hp0. destruct Hp0 as [Hp0|[<-|[]]]; [specialize (Hlt _ Hp0); lia|cbn; lia].
                       - exact Hq.
                       - apply NoDup_app_snoc; [exact Hndk|apply gbu_find_none; exact Ef]. }
                     destruct hotb; rs; rewrite (Hwt next (or_intror (le_n _))), Ec; rs; rewrite ?app_nil_r in Hnew;
                       (split; [exact Hnew|reflexivity]).
                 --- (* the element mapper raises on the first element of a new group *)
                     assert (Em : mem next (rh ++ [next]) = true) by (apply mem_In, in_or_app; right; left; reflexivity).
                     assert (Hg : gb_groups (map wr live ++ [(k, next, if hotb then S next else 0%nat)]) = map snd live ++ [next]).
                     { unfold gb_groups. rewrite map_app. fold (gb_groups (map wr live)). now rewrite gb_groups_wr. }
                     ending (GbSt (map wr live ++ [(k, next, if hotb then S next else 0%nat)]) (S next) (S next))
                            (CHand (W:=W) (B:=B) next k :: (if hotb then [CSub (S next)] else [])) (map snd live ++ [next]) (Some e).
                     { cbn [x_step x_group_by_until]. unfold gb_on_next. cbn [gb_writers gb_next gb_calls].
                       rewrite Hk, gb_lookup_wr, Ef, Hd, He. unfold gb_all. rewrite Hg. reflexivity. }
                     all: try exact Hq.
                     all: try (destruct hotb; rs; unfold sub_win; rs; rewrite (Hwt next (or_intror (le_n _))), Em; rs; auto; fail).
                     split; [apply over_R; auto|]. rewrite D3.
                     assert (E : forall hb : bool,
                               filter is_route (snd (apply_cmds (B:=B) all_imm
                                 (RState (0%nat :: map S (filter hot (map snd live))) [] true (map snd live) rwt rh false)
                                 (CHand next k :: (if hb then [CSub (S next)] else [])))) = [OHand next k]
                               /\ r_wsubs (fst (apply_cmds (B:=B) all_imm
                                 (RState (0%nat :: map S (filter hot (map snd live))) [] true (map snd live) rwt rh false)
                                 (CHand next k :: (if hb then [CSub (S next)] else [])))) = map snd live ++ [next]).
                     { intros hb. destruct hb; rs; unfold sub_win; rs; rewrite (Hwt next (or_intror (le_n _))), Em; rs; auto. }
                     destruct (E hotb) as [E1 E2]. rewrite E1, E2.
                     rewrite wins_one by (intros j Hj; apply count_of_nodup; assumption).
                     cbn [app]. f_equal. unfold gbu_end. rewrite !map_app, map_map. reflexivity.
              ** (* the duration mapper raises: the group is created but never handed *)
                 assert (Hg : gb_groups (map wr live ++ [(k, next, 0%nat)]) = map snd live ++ [next]).
                 { unfold gb_groups. rewrite map_app. fold (gb_groups (map wr live)). now rewrite gb_groups_wr. }
                 ending (GbSt (map wr live ++ [(k, next, 0%nat)]) (S next) (S next)) (@nil (cmd W B)) (map snd live ++ [next]) (Some e).
                 { cbn [x_step x_group_by_until]. unfold gb_on_next. cbn [gb_writers gb_next gb_calls].
                   rewrite Hk, gb_lookup_wr, Ef, Hd. unfold gb_all. rewrite Hg. reflexivity. }
                 all: rs; auto.
                 { intros j Hj. apply in_or_app. left. exact Hj. }
                 split; [apply over_R; auto|]. rewrite D3. rs. rewrite flat_map_app.
                 rewrite wins_one by (intros j Hj; apply count_of_nodup; assumption).
                 cbn [flat_map]. rewrite (count_of_notin _ _ Hfresh). cbn [repeat app]. rewrite <- app_assoc. apply end_map.
        -- ending (GbSt (map wr live) next next) (@nil (cmd W B)) (map snd live) (Some e).
           { cbn [x_step x_group_by_until]. unfold gb_on_next. rewrite Hk. unfold gb_all. cbn [gb_writers].
             rewrite gb_groups_wr. reflexivity. }
           all: rs; auto.
           { intros j Hj. apply Hwt. left. apply gbu_is_live_In. exact Hj. }
           split; [apply over_R; auto|]. rewrite D3. rs.
           rewrite wins_one by (intros j Hj; apply count_of_nodup; assumption). apply end_map.
      * ending (GbSt (map wr live) next next) (@nil (cmd W B)) (map snd live) (Some z).
        { cbn [x_step x_group_by_until]. unfold gb_all. cbn [gb_writers]. rewrite gb_groups_wr. reflexivity. }
        all: rs; auto.
        { intros j Hj. apply Hwt. left. apply gbu_is_live_In. exact Hj. }
        split; [apply over_R; auto|]. rewrite D3. rs.
        rewrite wins_one by (intros j Hj; apply count_of_nodup; assumption). apply end_map.
      * ending (GbSt (map wr live) next next) (@nil (cmd W B)) (map snd live) (@None Z).
        { cbn [x_step x_group_by_until]. unfold gb_all. cbn [gb_writers]. rewrite gb_groups_wr. reflexivity. }
        all: rs; auto.
        { intros j Hj. apply Hwt. left. apply gbu_is_live_In. exact Hj. }
        split; [apply over_R; auto|]. rewrite D3. rs.
        rewrite wins_one by (intros j Hj; apply count_of_nodup; assumption). apply end_map.
    + (* a duration port *)
      rewrite mem_live. destruct (gbu_is_live d live && hot d) eqn:El.
      2:{ cbn [fst snd]. split; [exact HR0|reflexivity]. }
      apply andb_prop in El. destruct El as [El Eh].
      destruct (gb_by_dur_wr d live Hndg El Eh) as [k [Hin Hby]].
      assert (Hd : In d (map snd live)) by (apply gbu_is_live_In; exact El).
      assert (Erm : remove (S d) (0%nat :: map S (filter hot (map snd live)))
                    = 0%nat :: map S (filter hot (map snd (gbu_drop d live)))).
      { rewrite remove_cons. cbn [Nat.eqb]. f_equal. rewrite remove_map_S. f_equal.
        rewrite remove_nodup by (apply NoDup_filter; exact Hndg). rewrite map_snd_drop. apply filter_comm. }
      assert (Hdead : gbu_is_live d (gbu_drop d live) = false).
      { destruct (gbu_is_live d (gbu_drop d live)) eqn:E; [|reflexivity]. apply gbu_is_live_In in E.
        apply in_map_iff in E. destruct E as [p [Hp1 Hp2]]. apply gbu_drop_In in Hp2. tauto. }
      assert (Hexp : forall e0 : ev A, (forall z, e0 <> Err z) ->
        let dl := deliver all_imm M (GbSt (map wr live) next next)
                    (RState (0%nat :: map S (filter hot (map snd live))) [] true (map snd live) rwt rh false) now (ISrc (S d) e0) in
        gbu_R (fst (fst dl)) (snd (fst dl)) (GbuSt (gbu_drop d live) next false) /\ filter is_route (snd dl) = [OWin d Done]).
      { intros e0 He0. cbn zeta. unfold deliver.
        rewrite (group_expire (B:=B) key elem dur (GbSt (map wr live) next next) now d e0 k d He0 Hby).
        cbn [gb_writers gb_next gb_calls]. rewrite (gb_del_wr k d live Hndg Hndk Hin). rs.
        rewrite (Hwt d (or_introl El)), (count_of_nodup d _ Hndg Hd). rs. unfold maybe_release. rs.
        rewrite mem_live, El, Eh. rs. rewrite Erm, mem_live, Hdead. rs. rewrite andb_false_r. rs.
        split; [|reflexivity]. unfold gbu_R. cbn [gbu_over]. constructor;
          cbn [gb_writers gb_next gb_calls r_live r_timers r_outer r_released r_wsubs r_wterm gbu_live gbu_next]; try reflexivity.
        - now rewrite map_snd_drop.
        - intros j Hj. rewrite wterm_of_app, (Hwt j).
          + cbn [wterm_of]. destruct (Nat.eqb_spec j d) as [->|]; [|reflexivity].
            destruct Hj as [Hj|Hj]; [congruence|]. apply in_map_iff in Hd. destruct Hd as [p [Hp1 Hp2]].
            specialize (Hlt p Hp2). lia.
          + destruct Hj as [Hj|Hj]; [left|right; exact Hj]. apply gbu_is_live_In. apply gbu_is_live_In in Hj.
            apply in_map_iff in Hj. destruct Hj as [p [Hp1 Hp2]]. apply gbu_drop_In in Hp2. apply in_map_iff. exists p. tauto.
        - intros p Hp0. apply gbu_drop_In in Hp0. apply Hlt. tauto.
        - unfold gbu_drop. apply NoDup_map_filter. exact Hndg.
        - unfold gbu_drop. apply NoDup_map_filter. exact Hndk. }
      destruct e as [x|z|].
      * apply (Hexp (Next x)). intros z. discriminate.
      * ending (GbSt (map wr live) next next) (@nil (cmd W B)) (map snd live) (Some z).
        { cbn [x_step x_group_by_until]. unfold gb_all. cbn [gb_writers]. rewrite gb_groups_wr. reflexivity. }
        all: rs; auto.
        { intros j Hj. apply Hwt. left. apply gbu_is_live_In. exact Hj. }
        split; [apply over_R; auto|]. rewrite D3. rs.
        rewrite wins_one by (intros j Hj; apply count_of_nodup; assumption). apply end_map.
      * apply (Hexp Done). intros z. discriminate.
Qed.

Lemma gbu_refine_run ins : forall s (r : rstate W) st k, gbu_R s r st -> ports_only ins ->
  routing (fst (run_from all_imm M s r k ins)) = gbu_run (B:=B) key elem dur st k ins
  /\ gbu_R (fst (after all_imm M s r ins)) (snd (after all_imm M s r ins)) (gbu_after (W:=W) (B:=B) key elem dur st ins).
Proof.
  induction ins as [|[now i] rest IH]; intros s r st k HR Hp; [split; [reflexivity|exact HR]|].
  assert (Hi : is_port i = true) by (apply (Hp (now, i)); left; reflexivity).
  assert (Hrest : ports_only rest) by (intros p Hin; apply Hp; right; exact Hin).
  destruct (gbu_refine_step s r st now i HR Hi) as [HR' Ho].
  rewrite run_from_cons. cbn [fst gbu_run after gbu_after].
  destruct (rstep all_imm M s r now i) as [[s' r'] o] eqn:E. cbn [fst snd] in *.
  destruct (IH s' r' (fst (step st i)) (S k) HR' Hrest) as [I1 I2].
  split; [|exact I2]. rewrite routing_app, routing_tag, Ho, I1. reflexivity.
Qed.

Lemma gbu_R_start : gbu_R (fst (start_state all_imm M)) (snd (start_state all_imm M)) gbu_init.
Proof.
  unfold gbu_R. cbn [gbu_init gbu_over]. constructor; cbn; try reflexivity; try (constructor; fail).
  intros p [].
Qed.

(* THEOREM (C19, group_by_until at run level): for every interleaving of the source port and the
   duration ports, every callback, every group subscribed when handed: the routing part of the
   trace is the trace of the functional specification *)
Theorem group_by_until_refines_spec (ins : list (Z * inp A)) : ports_only ins ->
  routing (fst (run all_imm M ins)) = gbu_spec (B:=B) key elem dur ins.
Proof.
  intros Hp. rewrite run_unfold. cbn [fst]. rewrite routing_app.
  destruct (gbu_refine_run ins _ _ gbu_init 1%nat gbu_R_start Hp) as [H _]. rewrite H. reflexivity.
Qed.
End Refine.

(* ------------------------------------------- consequences of the theorem -- *)
Section Consequences.
Context {A W B : Type}.
Variables (key : A -> res Z) (elem : A -> res W) (dur : nat -> res bool).
Notation M := (x_group_by_until (B:=B) key elem dur).
Notation step := (gbu_step (B:=B) key elem dur).
Notation after_ := (gbu_after (W:=W) (B:=B) key elem dur).
Notation run_ := (gbu_run (B:=B) key elem dur).

Lemma gbu_run_app (a : list (Z * inp A)) : forall st k b,
  run_ st k (a ++ b) = run_ st k a ++ run_ (after_ st a) (k + length a) b.
Proof.
  induction a as [|[now i] t IH]; intros st k b; cbn [app gbu_run gbu_after length].
  - now rewrite Nat.add_0_r.
  - rewrite IH, <- app_assoc, Nat.add_succ_r. reflexivity.
Qed.

(* once over, nothing happens any more *)
Lemma gbu_over_silent (ins : list (Z * inp A)) : forall st k, gbu_over st = true ->
  run_ st k ins = [] /\ after_ st ins = st.
Proof.
  induction ins as [|[now i] t IH]; intros st k Ho; [auto|]. cbn [gbu_run gbu_after].
  assert (E : step st i = (st, [])) by (unfold gbu_step; now rewrite Ho).
  rewrite E. cbn [fst snd map app]. apply IH. exact Ho.
Qed.

Lemma ports_only_app (a b : list (Z * inp A)) : ports_only (a ++ b) -> ports_only a /\ ports_only b.
Proof. intros H. split; intros p Hp; apply H, in_or_app; auto. Qed.

(* an input that ends everything: the trace is the trace up to it, then that input's routing -- nothing after *)
Theorem gbu_ending_run pre now i post : ports_only (pre ++ (now, i) :: post) ->
  gbu_over (fst (step (after_ gbu_init pre) i)) = true ->
  routing (fst (run all_imm M (pre ++ (now, i) :: post)))
  = routing (fst (run all_imm M pre)) ++ map (fun o => (S (length pre), o)) (snd (step (after_ gbu_init pre) i)).
Proof.
  intros Hp Ho. rewrite (group_by_until_refines_spec key elem dur _ Hp).
  rewrite (group_by_until_refines_spec key elem dur pre (proj1 (ports_only_app _ _ Hp))).
  unfold gbu_spec. rewrite gbu_run_app. cbn [gbu_run Nat.add]. f_equal.
  rewrite (proj1 (gbu_over_silent post _ _ Ho)), app_nil_r. reflexivity.
Qed.

(* ---- raising callbacks, run level: the error goes to every live group and the outer; nothing after ---- *)
Theorem gbu_key_raises_run pre now x post e : ports_only (pre ++ (now, ISrc 0%nat (Next x)) :: post) ->
  gbu_over (after_ gbu_init pre) = false -> key x = Raise e ->
  routing (fst (run all_imm M (pre ++ (now, ISrc 0%nat (Next x)) :: post)))
  = routing (fst (run all_imm M pre))
    ++ map (fun o => (S (length pre), o)) (gbu_end (gbu_live (after_ gbu_init pre)) (Some e)).
Proof.
  intros Hp Ho Hk.
  assert (E : step (after_ gbu_init pre) (ISrc 0%nat (Next x))
              = (GbuSt [] (gbu_next (after_ gbu_init pre)) true, gbu_end (gbu_live (after_ gbu_init pre)) (Some e)))
    by (unfold gbu_step; now rewrite Ho, Hk).
  rewrite (gbu_ending_run pre now _ post Hp); rewrite E; reflexivity.
Qed.

Theorem gbu_elem_raises_existing_run pre now x post k g e : ports_only (pre ++ (now, ISrc 0%nat (Next x)) :: post) ->
  gbu_over (after_ gbu_init pre) = false -> key x = Ok k ->
  gbu_find k (gbu_live (after_ gbu_init pre)) = Some g -> elem x = Raise e ->
  routing (fst (run all_imm M (pre ++ (now, ISrc 0%nat (Next x)) :: post)))
  = routing (fst (run all_imm M pre))
    ++ map (fun o => (S (length pre), o)) (gbu_end (gbu_live (after_ gbu_init pre)) (Some e)).
Proof.
  intros Hp Ho Hk Hf He.
  assert (E : step (after_ gbu_init pre) (ISrc 0%nat (Next x))
              = (GbuSt [] (gbu_next (after_ gbu_init pre)) true, gbu_end (gbu_live (after_ gbu_init pre)) (Some e)))
    by (unfold gbu_step; now rewrite Ho, Hk, Hf, He).
  rewrite (gbu_ending_run pre now _ post Hp); rewrite E; reflexivity.
Qed.

(* first element of a new group: the group is handed first, then errored with all the others *)
Theorem gbu_elem_raises_new_run pre now x post k hotb e : ports_only (pre ++ (now, ISrc 0%nat (Next x)) :: post) ->
  let st := after_ gbu_init pre in
  gbu_over st = false -> key x = Ok k -> gbu_find k (gbu_live st) = None ->
  dur (gbu_next st) = Ok hotb -> elem x = Raise e ->
  routing (fst (run all_imm M (pre ++ (now, ISrc 0%nat (Next x)) :: post)))
  = routing (fst (run all_imm M pre))
    ++ map (fun o => (S (length pre), o))
           (OHand (gbu_next st) k :: gbu_end (gbu_live st ++ [(k, gbu_next st)]) (Some e)).
Proof.
  intros Hp st Ho Hk Hf Hd He.
  assert (E : step st (ISrc 0%nat (Next x))
              = (GbuSt [] (gbu_next st) true, OHand (gbu_next st) k :: gbu_end (gbu_live st ++ [(k, gbu_next st)]) (Some e)))
    by (unfold gbu_step; now rewrite Ho, Hk, Hf, Hd, He).
  rewrite (gbu_ending_run pre now _ post Hp); fold st; rewrite E; reflexivity.
Qed.

(* the duration mapper raises: no group is handed; the groups that were live and the outer get the error *)
Theorem gbu_dur_raises_run pre now x post k e : ports_only (pre ++ (now, ISrc 0%nat (Next x)) :: post) ->
  let st := after_ gbu_init pre in
  gbu_over st = false -> key x = Ok k -> gbu_find k (gbu_live st) = None -> dur (gbu_next st) = Raise e ->
  routing (fst (run all_imm M (pre ++ (now, ISrc 0%nat (Next x)) :: post)))
  = routing (fst (run all_imm M pre)) ++ map (fun o => (S (length pre), o)) (gbu_end (gbu_live st) (Some e)).
Proof.
  intros Hp st Ho Hk Hf Hd.
  assert (E : step st (ISrc 0%nat (Next x)) = (GbuSt [] (gbu_next st) true, gbu_end (gbu_live st) (Some e)))
    by (unfold gbu_step; now rewrite Ho, Hk, Hf, Hd).
  rewrite (gbu_ending_run pre now _ post Hp); fold st; rewrite E; reflexivity.
Qed.
End Consequences.

(* ------------------------------ the spec's state, read off the trace itself -- *)
(* group g got a terminal in the trace *)
Definition ends {W B} (g : nat) (o : obs W B) : bool :=
  match o with OWin j e => Nat.eqb g j && is_terminal e | _ => false end.
Definition ended_in {W B} (g : nat) (tr : list (nat * obs W B)) : bool := existsb (fun x => ends g (snd x)) tr.
(* the groups that were handed and have not ended, with their keys, in hand-over order *)
Definition trace_live {W B} (tr : list (nat * obs W B)) : list (Z * nat) :=
  map (fun p => (snd p, fst p)) (filter (fun p => negb (ended_in (fst p) tr)) (hands tr)).
(* the outer sequence has not ended *)
Definition outer_open {W B} (tr : list (nat * obs W B)) : bool := match emitted tr with [] => true | _ => false end.

Section TraceState.
Context {A W B : Type}.
Variables (key : A -> res Z) (elem : A -> res W) (dur : nat -> res bool).
Notation step := (gbu_step (W:=W) (B:=B) key elem dur).
Notation after_ := (gbu_after (W:=W) (B:=B) key elem dur).
Notation run_ := (gbu_run (W:=W) (B:=B) key elem dur).
Notation tag k := (fun x : obs W B => (k, x)).

Lemma ended_in_app g (a b : list (nat * obs W B)) : ended_in g (a ++ b) = ended_in g a || ended_in g b.
Proof. unfold ended_in. apply existsb_app. Qed.
Lemma ended_in_tag g k (o : list (obs W B)) : ended_in g (map (tag k) o) = existsb (ends g) o.
Proof. unfold ended_in. induction o as [|x t IH]; [reflexivity|]. cbn [map existsb snd]. now rewrite IH. Qed.
Lemma emitted_app (a b : list (nat * obs W B)) : emitted (a ++ b) = emitted a ++ emitted b.
Proof. unfold emitted. apply flat_map_app. Qed.

Lemma ends_end g (l : list (Z * nat)) z : existsb (ends g) (gbu_end (W:=W) (B:=B) l z) = gbu_is_live g l.
Proof.
  unfold gbu_end, gbu_is_live. rewrite existsb_app. cbn [existsb ends orb]. rewrite orb_false_r.
  induction l as [|p t IH]; [reflexivity|]. cbn [map existsb ends]. rewrite IH.
  assert (E : is_terminal (tev (X:=W) z) = true) by (destruct z; reflexivity). rewrite E, andb_true_r. reflexivity.
Qed.
Lemma hobs_end (l : list (Z * nat)) z : hobs (gbu_end (W:=W) (B:=B) l z) = [].
Proof. unfold gbu_end. rewrite hobs_app. cbn [hobs flat_map app]. rewrite app_nil_r. induction l; auto. Qed.
Lemma emitted_end k (l : list (Z * nat)) z : emitted (map (tag k) (gbu_end (W:=W) (B:=B) l z)) = [tev z].
Proof.
  unfold gbu_end. rewrite map_app, emitted_app. cbn [map emitted flat_map snd app].
  replace (emitted (map (tag k) (map (fun p : Z * nat => OWin (snd p) (tev z)) l))) with (@nil (ev B)); [reflexivity|].
  induction l; auto.
Qed.

Lemma trace_live_app (tr new : list (nat * obs W B)) :
  trace_live (tr ++ new)
  = filter (fun q => negb (ended_in (snd q) new)) (trace_live tr)
    ++ map (fun p => (snd p, fst p))
           (filter (fun p => negb (ended_in (fst p) tr) && negb (ended_in (fst p) new)) (hands new)).
Proof.
  unfold trace_live. rewrite hands_app, filter_app, map_app. f_equal.
  - induction (hands tr) as [|p t IH]; [reflexivity|]. cbn [filter]. rewrite ended_in_app.
    destruct (ended_in (fst p) tr); cbn [orb negb]; [exact IH|].
    cbn [map filter snd fst]. destruct (ended_in (fst p) new); cbn [negb map]; now rewrite IH.
  - f_equal. apply filter_ext. intros p. rewrite ended_in_app. now destruct (ended_in (fst p) tr), (ended_in (fst p) new).
Qed.

Lemma filter_all_live (l : list (Z * nat)) (f : nat -> bool) : (forall p, In p l -> f (snd p) = true) ->
  filter (fun q => negb (f (snd q))) l = [].
Proof.
  induction l as [|p t IH]; intros H; [reflexivity|]. cbn [filter]. rewrite (H p (or_introl eq_refl)). cbn [negb].
  apply IH. intros q Hq. apply H. right. exact Hq.
Qed.

Lemma is_live_self (l : list (Z * nat)) p : In p l -> gbu_is_live (snd p) l = true.
Proof. intros H. apply gbu_is_live_In. apply in_map. exact H. Qed.

Record tinv (st : gbu_st) (tr : list (nat * obs W B)) : Prop := {
  ti_live : gbu_live st = trace_live tr;
  ti_over : gbu_over st = negb (outer_open tr);
  ti_next : gbu_over st = false -> gbu_next st = length (hands tr);
  ti_lt : forall p, In p (gbu_live st) -> (snd p < gbu_next st)%nat;
  ti_ended : gbu_over st = false -> forall g, ended_in g tr = true -> (g < gbu_next st)%nat }.

Lemma tinv_step st tr k i : tinv st tr -> tinv (fst (step st i)) (tr ++ map (tag k) (snd (step st i))).
Proof.
  intros [Hl Ho Hn Hlt He]. unfold gbu_step.
  destruct (gbu_over st) eqn:Eo.
  { cbn [fst snd map]. rewrite app_nil_r. constructor; auto; rewrite Eo; auto. }
  specialize (Hn eq_refl). specialize (He eq_refl).
  assert (Hopen : emitted tr = []).
  { unfold outer_open in Ho. destruct (emitted tr); [reflexivity|discriminate]. }
  (* the generic shapes of a step's output *)
  assert (Same : forall o : list (obs W B), hobs o = [] -> (forall g, existsb (ends g) o = false) ->
            emitted (map (tag k) o) = [] -> tinv st (tr ++ map (tag k) o)).
  { intros o H1 H2 H3. constructor; rewrite ?Eo.
    - rewrite trace_live_app, hands_tag, H1. cbn [filter map]. rewrite app_nil_r, Hl.
      symmetry. erewrite filter_ext; [apply filter_true|]. intros q. cbn beta. now rewrite ended_in_tag, H2.
    - unfold outer_open. now rewrite emitted_app, H3, app_nil_r, Hopen.
    - intros _. now rewrite hands_app, hands_tag, H1, app_nil_r.
    - exact Hlt.
    - intros _ g. rewrite ended_in_app, ended_in_tag, H2, orb_false_r. apply He. }
  assert (Stop : forall z, tinv (GbuSt [] (gbu_next st) true) (tr ++ map (tag k) (gbu_end (gbu_live st) z))).
  { intros z. constructor; cbn [gbu_live gbu_over gbu_next]; try discriminate.
    - rewrite trace_live_app, hands_tag, hobs_end. cbn [filter map]. rewrite app_nil_r, <- Hl.
      symmetry. apply (filter_all_live (gbu_live st) (fun g => ended_in g (map (tag k) (gbu_end (gbu_live st) z)))).
      intros p Hp. rewrite ended_in_tag, ends_end. apply is_live_self. exact Hp.
    - unfold outer_open. rewrite emitted_app, emitted_end, Hopen. reflexivity.
    - intros p []. }
  destruct i as [[|d] e|tag0| | |]; try (apply (Same []); auto; fail).
  - destruct e as [x|z|]; [|apply (Stop (Some z))|apply (Stop None)].
    destruct (key x) as [kx|e]; [|apply (Stop (Some e))].
    destruct (gbu_find kx (gbu_live st)) as [g|] eqn:Ef.
    + destruct (elem x) as [y|e]; [|apply (Stop (Some e))]. cbn [fst snd].
      apply (Same [OWin g (Next y)]); [reflexivity| |reflexivity].
      intros j. cbn [existsb ends is_terminal]. now rewrite andb_false_r.
    + assert (Hfresh : ended_in (gbu_next st) tr = false).
      { destruct (ended_in (gbu_next st) tr) eqn:E; [|reflexivity]. specialize (He _ E). lia. }
      destruct (dur (gbu_next st)) as [hb|e]; [|apply (Stop (Some e))].
      destruct (elem x) as [y|e]; cbn [fst snd].
      * (* a new group *)
        constructor; cbn [gbu_live gbu_over gbu_next].
        -- rewrite trace_live_app, hands_tag. cbn [hobs flat_map app filter fst].
           rewrite Hfresh, ended_in_tag. cbn [existsb ends is_terminal]. rewrite andb_false_r. cbn [orb negb andb map fst snd].
           rewrite <- Hl. f_equal. symmetry. erewrite filter_ext; [apply filter_true|]. intros q. cbn beta.
           unfold ended_in. cbn [existsb ends snd is_terminal]. now rewrite andb_false_r.
        -- unfold outer_open. rewrite emitted_app, Hopen. reflexivity.
        -- intros _. rewrite hands_app, hands_tag, app_length, <- Hn. cbn. lia.
        -- intros p Hp. apply in_app_or in Hp. destruct Hp as [Hp|[<-|[]]]; [specialize (Hlt p Hp); lia|cbn; lia].
        -- intros _ j. rewrite ended_in_app, ended_in_tag. cbn [existsb ends is_terminal]. rewrite andb_false_r. cbn [orb].
           rewrite orb_false_r. intros Hj. specialize (He j Hj). lia.
      * (* handed, then everything errors *)
        constructor; cbn [gbu_live gbu_over gbu_next]; try discriminate.
        -- rewrite trace_live_app, hands_tag. cbn [hobs flat_map]. fold (hobs (gbu_end (W:=W) (B:=B) (gbu_live st ++ [(kx, gbu_next st)]) (Some e))).
           rewrite hobs_end. cbn [app filter fst].
           rewrite Hfresh, ended_in_tag. cbn [existsb ends orb]. rewrite ends_end.
           assert (E : gbu_is_live (gbu_next st) (gbu_live st ++ [(kx, gbu_next st)]) = true).
           { apply gbu_is_live_In. rewrite map_app. apply in_or_app. right. left. reflexivity. }
           rewrite E. cbn [negb andb map]. rewrite app_nil_r, <- Hl. symmetry.
           apply (filter_all_live (gbu_live st) (fun g => ended_in g (map (tag k) (OHand (gbu_next st) kx :: gbu_end (gbu_live st ++ [(kx, gbu_next st)]) (Some e))))).
           intros p Hp. rewrite ended_in_tag. cbn [existsb ends orb]. rewrite ends_end.
           apply gbu_is_live_In. rewrite map_app. apply in_or_app. left. apply in_map. exact Hp.
        -- unfold outer_open. rewrite emitted_app, Hopen. cbn [map app]. 
           change (emitted ((k, OHand (gbu_next st) kx) :: ?l)) with (emitted l). rewrite emitted_end. reflexivity.
        -- intros p [].
  - (* a duration port *)
    destruct (gbu_is_live d (gbu_live st) && gbu_hot dur d) eqn:El; [|apply (Same []); auto].
    apply andb_prop in El. destruct El as [El _].
    destruct e as [x|z|]; [|apply (Stop (Some z))|]; cbn [fst snd].
    all: constructor; cbn [gbu_live gbu_over gbu_next].
    all: try (unfold outer_open; rewrite emitted_app, Hopen; reflexivity).
    all: try (intros _; rewrite hands_app, hands_tag; cbn [hobs flat_map]; rewrite app_nil_r; exact Hn).
    all: try (intros p Hp; apply gbu_drop_In in Hp; apply Hlt; tauto).
    all: try (intros _ j; rewrite ended_in_app, ended_in_tag; cbn [existsb ends is_terminal]; rewrite andb_true_r, orb_false_r;
              intros Hj; apply orb_prop in Hj; destruct Hj as [Hj|Hj]; [apply He; exact Hj|];
              apply Nat.eqb_eq in Hj; subst j; apply gbu_is_live_In in El; apply in_map_iff in El;
              destruct El as [p [Hp1 Hp2]]; specialize (Hlt p Hp2); lia).
    all: rewrite trace_live_app, hands_tag; cbn [hobs flat_map filter map]; rewrite app_nil_r, <- Hl; unfold gbu_drop;
         apply filter_ext; intros q; unfold ended_in; cbn [existsb ends snd map is_terminal];
         rewrite andb_true_r, orb_false_r, Nat.eqb_sym; reflexivity.
Qed.

Lemma tinv_run ins : forall st tr k, tinv st tr -> tinv (after_ st ins) (tr ++ run_ st k ins).
Proof.
  induction ins as [|[now i] rest IH]; intros st tr k H; cbn [gbu_after gbu_run]; [now rewrite app_nil_r|].
  rewrite app_assoc. apply IH. apply tinv_step. exact H.
Qed.

Lemma tinv_init : tinv gbu_init [].
Proof. constructor; cbn; auto; try discriminate. intros p []. Qed.

(* the spec's state after any input sequence IS what its trace shows: the live map is the list of
   groups handed and not ended, "over" = the outer got its terminal, the next id = groups handed so far *)
Theorem gbu_state_is_trace_state (ins : list (Z * inp A)) :
  let st := after_ gbu_init ins in
  let tr := gbu_spec (W:=W) (B:=B) key elem dur ins in
  gbu_live st = trace_live tr /\ gbu_over st = negb (outer_open tr)
  /\ (gbu_over st = false -> gbu_next st = length (hands tr)).
Proof.
  cbn zeta. destruct (tinv_run ins gbu_init [] 1%nat tinv_init) as [H1 H2 H3 _ _]. cbn [app] in *. auto.
Qed.
End TraceState.

(* ------------------------------------ the same, stated on the run's trace only -- *)
Section TraceLevel.
Context {A W B : Type}.
Variables (key : A -> res Z) (elem : A -> res W) (dur : nat -> res bool).
Notation M := (x_group_by_until (B:=B) key elem dur).
Notation step := (gbu_step (W:=W) (B:=B) key elem dur).
Notation after_ := (gbu_after (W:=W) (B:=B) key elem dur).
Notation TR ins := (routing (fst (run all_imm M ins))).
Notation tag k := (fun x : obs W B => (k, x)).

(* the state of the specification after [pre], read off the trace of the run *)
Definition trace_state (tr : list (nat * obs W B)) : gbu_st :=
  GbuSt (trace_live tr) (length (hands tr)) (negb (outer_open tr)).

Lemma run_state pre : ports_only pre ->
  gbu_live (after_ gbu_init pre) = trace_live (TR pre)
  /\ gbu_over (after_ gbu_init pre) = negb (outer_open (TR pre))
  /\ (gbu_over (after_ gbu_init pre) = false -> gbu_next (after_ gbu_init pre) = length (hands (TR pre))).
Proof.
  intros Hp. rewrite (group_by_until_refines_spec key elem dur pre Hp).
  apply (gbu_state_is_trace_state key elem dur pre).
Qed.

Lemma step_trace_state pre i : ports_only pre ->
  snd (step (after_ gbu_init pre) i) = snd (step (trace_state (TR pre)) i).
Proof.
  intros Hp. destruct (run_state pre Hp) as [H1 [H2 H3]].
  destruct (after_ gbu_init pre) as [live next over] eqn:E. cbn [gbu_live gbu_next gbu_over] in *.
  unfold trace_state. rewrite <- H1, <- H2. destruct over.
  - unfold gbu_step. reflexivity.
  - rewrite <- (H3 eq_refl). reflexivity.
Qed.

(* THEOREM: what the next input adds to the trace is the specification's step from the state that the
   trace so far shows (groups handed and not ended; outer open or not; number of groups handed) *)
Theorem gbu_next_input_run pre now i : ports_only (pre ++ [(now, i)]) ->
  TR (pre ++ [(now, i)]) = TR pre ++ map (tag (S (length pre))) (snd (step (trace_state (TR pre)) i)).
Proof.
  intros Hp. destruct (ports_only_app _ _ Hp) as [Hpre _].
  rewrite (group_by_until_refines_spec key elem dur _ Hp). unfold gbu_spec. rewrite gbu_run_app.
  cbn [gbu_run Nat.add]. rewrite app_nil_r.
  change (gbu_run key elem dur gbu_init 1 pre) with (gbu_spec (B:=B) key elem dur pre).
  rewrite <- (group_by_until_refines_spec key elem dur _ Hpre). f_equal. f_equal. apply step_trace_state. exact Hpre.
Qed.

(* an element with non-raising callbacks goes to exactly one group: the live group of its key if there is
   one (nothing is handed), else a NEW group, numbered by the groups handed so far, handed just before *)
Theorem gbu_element_run pre now x k y : ports_only pre ->
  outer_open (TR pre) = true -> key x = Ok k -> elem x = Ok y ->
  (gbu_find k (trace_live (TR pre)) = None -> exists h, dur (length (hands (TR pre))) = Ok h) ->
  TR (pre ++ [(now, ISrc 0%nat (Next x))])
  = TR pre ++ map (tag (S (length pre)))
       (match gbu_find k (trace_live (TR pre)) with
        | Some g => [OWin g (Next y)]
        | None => [OHand (length (hands (TR pre))) k; OWin (length (hands (TR pre))) (Next y)]
        end).
Proof.
  intros Hpre Ho Hk He Hd.
  assert (Hp : ports_only (pre ++ [(now, ISrc 0%nat (Next x))])).
  { intros p Hin. apply in_app_or in Hin. destruct Hin as [Hin|[<-|[]]]; [apply Hpre; exact Hin|reflexivity]. }
  rewrite (gbu_next_input_run pre now _ Hp). f_equal. f_equal.
  unfold gbu_step, trace_state. cbn [gbu_over gbu_live gbu_next]. rewrite Ho, Hk. cbn [negb].
  destruct (gbu_find k (trace_live (TR pre))); [now rewrite He|].
  destruct (Hd eq_refl) as [h Hh]. now rewrite Hh, He.
Qed.

(* a duration port fires (element or completion): its group, if live, completes -- nothing else happens *)
Theorem gbu_expiry_run pre now d (e : ev A) : ports_only pre ->
  outer_open (TR pre) = true -> (forall z, e <> Err z) ->
  TR (pre ++ [(now, ISrc (S d) e)])
  = TR pre ++ (if gbu_is_live d (trace_live (TR pre)) && gbu_hot dur d then [(S (length pre), OWin d Done)] else [])
  /\ (gbu_is_live d (trace_live (TR pre)) && gbu_hot dur d = true ->
      gbu_is_live d (trace_live (TR (pre ++ [(now, ISrc (S d) e)]))) = false).
Proof.
  intros Hpre Ho He.
  assert (Hp : ports_only (pre ++ [(now, ISrc (S d) e)])).
  { intros p Hin. apply in_app_or in Hin. destruct Hin as [Hin|[<-|[]]]; [apply Hpre; exact Hin|reflexivity]. }
  assert (E : TR (pre ++ [(now, ISrc (S d) e)])
              = TR pre ++ (if gbu_is_live d (trace_live (TR pre)) && gbu_hot dur d then [(S (length pre), OWin d Done)] else [])).
  { rewrite (gbu_next_input_run pre now _ Hp). f_equal.
    unfold gbu_step, trace_state. cbn [gbu_over gbu_live gbu_next]. rewrite Ho. cbn [negb].
    destruct (gbu_is_live d (trace_live (TR pre)) && gbu_hot dur d); [|reflexivity].
    destruct e as [x|z|]; [reflexivity|exfalso; apply (He z); reflexivity|reflexivity]. }
  split; [exact E|]. intros Hl. rewrite E, Hl, trace_live_app. cbn [hands flat_map snd filter map]. rewrite app_nil_r.
  destruct (gbu_is_live d (filter _ (trace_live (TR pre)))) eqn:El; [|reflexivity].
  apply gbu_is_live_In, in_map_iff in El. destruct El as [p [Hp1 Hp2]]. apply filter_In in Hp2. destruct Hp2 as [_ Hp2].
  unfold ended_in in Hp2. cbn [existsb ends snd is_terminal] in Hp2. rewrite Hp1, Nat.eqb_refl in Hp2. discriminate.
Qed.

(* the source's terminal, or the error of a live group's duration observable: every live group gets it,
   in hand-over order, then the outer; nothing afterwards *)
Theorem gbu_source_terminal_run pre now z post : ports_only (pre ++ (now, ISrc 0%nat (tev z)) :: post) ->
  outer_open (TR pre) = true ->
  TR (pre ++ (now, ISrc 0%nat (tev z)) :: post)
  = TR pre ++ map (tag (S (length pre))) (gbu_end (trace_live (TR pre)) z).
Proof.
  intros Hp Ho. destruct (run_state pre (proj1 (ports_only_app _ _ Hp))) as [H1 [H2 _]]. rewrite Ho in H2.
  assert (E : step (after_ gbu_init pre) (ISrc 0%nat (tev z))
              = (GbuSt [] (gbu_next (after_ gbu_init pre)) true, gbu_end (gbu_live (after_ gbu_init pre)) z))
    by (unfold gbu_step; rewrite H2; destruct z; reflexivity).
  rewrite (gbu_ending_run key elem dur pre now _ post Hp); rewrite E, ?H1; reflexivity.
Qed.

(* ---- raising callbacks: every group handed and not ended, then the outer, get the error; nothing after ---- *)
Theorem gbu_key_raises_trace pre now x post e : ports_only (pre ++ (now, ISrc 0%nat (Next x)) :: post) ->
  outer_open (TR pre) = true -> key x = Raise e ->
  TR (pre ++ (now, ISrc 0%nat (Next x)) :: post)
  = TR pre ++ map (tag (S (length pre))) (gbu_end (trace_live (TR pre)) (Some e)).
Proof.
  intros Hp Ho Hk. destruct (run_state pre (proj1 (ports_only_app _ _ Hp))) as [H1 [H2 _]]. rewrite Ho in H2.
  rewrite (gbu_key_raises_run key elem dur pre now x post e Hp H2 Hk), H1. reflexivity.
Qed.

Theorem gbu_elem_raises_existing_trace pre now x post k g e : ports_only (pre ++ (now, ISrc 0%nat (Next x)) :: post) ->
  outer_open (TR pre) = true -> key x = Ok k -> gbu_find k (trace_live (TR pre)) = Some g -> elem x = Raise e ->
  TR (pre ++ (now, ISrc 0%nat (Next x)) :: post)
  = TR pre ++ map (tag (S (length pre))) (gbu_end (trace_live (TR pre)) (Some e)).
Proof.
  intros Hp Ho Hk Hf He. destruct (run_state pre (proj1 (ports_only_app _ _ Hp))) as [H1 [H2 _]]. rewrite Ho in H2.
  rewrite <- H1 in Hf.
  rewrite (gbu_elem_raises_existing_run key elem dur pre now x post k g e Hp H2 Hk Hf He), H1. reflexivity.
Qed.

Theorem gbu_elem_raises_new_trace pre now x post k hb e : ports_only (pre ++ (now, ISrc 0%nat (Next x)) :: post) ->
  let n := length (hands (TR pre)) in
  outer_open (TR pre) = true -> key x = Ok k -> gbu_find k (trace_live (TR pre)) = None ->
  dur n = Ok hb -> elem x = Raise e ->
  TR (pre ++ (now, ISrc 0%nat (Next x)) :: post)
  = TR pre ++ map (tag (S (length pre))) (OHand n k :: gbu_end (trace_live (TR pre) ++ [(k, n)]) (Some e)).
Proof.
  intros Hp n Ho Hk Hf Hd He. destruct (run_state pre (proj1 (ports_only_app _ _ Hp))) as [H1 [H2 H3]].
  rewrite Ho in H2. specialize (H3 H2). fold n in H3. rewrite <- H1 in Hf. rewrite <- H3 in Hd.
  rewrite (gbu_elem_raises_new_run key elem dur pre now x post k hb e Hp H2 Hk Hf Hd He), H1, H3. reflexivity.
Qed.

Theorem gbu_dur_raises_trace pre now x post k e : ports_only (pre ++ (now, ISrc 0%nat (Next x)) :: post) ->
  outer_open (TR pre) = true -> key x = Ok k -> gbu_find k (trace_live (TR pre)) = None ->
  dur (length (hands (TR pre))) = Raise e ->
  TR (pre ++ (now, ISrc 0%nat (Next x)) :: post)
  = TR pre ++ map (tag (S (length pre))) (gbu_end (trace_live (TR pre)) (Some e)).
Proof.
  intros Hp Ho Hk Hf Hd. destruct (run_state pre (proj1 (ports_only_app _ _ Hp))) as [H1 [H2 H3]].
  rewrite Ho in H2. specialize (H3 H2). rewrite <- H1 in Hf. rewrite <- H3 in Hd.
  rewrite (gbu_dur_raises_run key elem dur pre now x post k e Hp H2 Hk Hf Hd), H1. reflexivity.
Qed.

Lemma gbu_over_live st i : (gbu_over st = true -> gbu_live st = []) ->
  gbu_over (fst (step st i)) = true -> gbu_live (fst (step st i)) = [].
Proof.
  intros H. unfold gbu_step. destruct (gbu_over st) eqn:Eo; [intros _; apply H; reflexivity|].
  destruct i as [[|d] [x|z|]|tag0| | |]; cbn [fst]; rewrite ?Eo; try discriminate; try reflexivity.
  - destruct (key x); [|reflexivity]. destruct (gbu_find _ _).
    + destruct (elem x); cbn [fst]; rewrite ?Eo; [discriminate|reflexivity].
    + destruct (dur _); [|reflexivity]. destruct (elem x); cbn [fst gbu_over gbu_live]; [discriminate|reflexivity].
  - destruct (_ && _); cbn [fst gbu_over gbu_live]; rewrite ?Eo; discriminate.
  - destruct (_ && _); cbn [fst gbu_over gbu_live]; rewrite ?Eo; [reflexivity|discriminate].
  - destruct (_ && _); cbn [fst gbu_over gbu_live]; rewrite ?Eo; discriminate.
Qed.

Lemma gbu_over_live_after ins : forall st, (gbu_over st = true -> gbu_live st = []) ->
  gbu_over (after_ st ins) = true -> gbu_live (after_ st ins) = [].
Proof.
  induction ins as [|[now i] rest IH]; intros st H; [exact H|]. cbn [gbu_after]. apply IH. apply gbu_over_live. exact H.
Qed.

(* at every point of every run the live groups have pairwise different keys (so "THE live group of a key"
   makes sense) and pairwise different ids *)
Theorem gbu_live_keys_unique pre : ports_only pre ->
  NoDup (map fst (trace_live (TR pre))) /\ NoDup (map snd (trace_live (TR pre))).
Proof.
  intros Hp. destruct (run_state pre Hp) as [H1 _]. rewrite <- H1.
  destruct (gbu_refine_run (B:=B) key elem dur pre _ _ gbu_init 1%nat (gbu_R_start (B:=B) key elem dur) Hp) as [_ HR].
  unfold gbu_R in HR. destruct (gbu_over (after_ gbu_init pre)) eqn:Eo.
  - rewrite (gbu_over_live_after pre gbu_init (fun H => eq_refl) Eo). split; constructor.
  - destruct HR. split; assumption.
Qed.
End TraceLevel.
