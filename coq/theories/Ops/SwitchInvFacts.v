(* C12: "the previous inner is unsubscribed as soon as a new inner arrives" as a
   statement about EVERY reachable state of the operator under the runner. *)
From RxVerif Require Import Base.Prelude Ops.Machine Ops.MachineFacts Ops.Multi Ops.MultiFacts
  Ops.RunLemmas Ops.Combinators Ops.MergeFacts.

Local Arguments Nat.ltb : simpl never.
Local Arguments Nat.leb : simpl never.
Local Arguments mem : simpl nomatch.
Local Arguments remove : simpl nomatch.

Section SwitchInv.
Context {A : Type}.

(* the shape of every reachable (operator state, runner state): stopped, or exactly the
   outer (while it runs) and the latest inner (while it runs) are subscribed *)
Definition sw_inv (s : nat * bool * bool) (r : rstate) : Prop :=
  r_stopped r = true \/
  exists ol latest has,
    s = (latest, has, negb ol) /\ r = RState (switch_live ol latest has) [] false
    /\ (has = true -> latest <> 0%nat) /\ (ol = true \/ has = true).

Ltac by_compute :=
  unfold rstep, switch_live;
  repeat (cbn; try unfold remove; try unfold mem; cbn; rewrite ?Nat.eqb_refl;
          try match goal with H : _ = Ok _ |- _ => rewrite H end;
          try match goal with H : _ = Raise _ |- _ => rewrite H end).

Lemma sw_inv_step mapper s r now (i : inp A) :
  sw_inv s r ->
  sw_inv (fst (fst (rstep (x_switch_map mapper) s r now i))) (snd (fst (rstep (x_switch_map mapper) s r now i))).
Proof.
  intros [Hs|(ol & latest & has & -> & -> & Hl & Hsome)].
  - rewrite rstep_stopped by exact Hs. left. exact Hs.
  - destruct i as [k e|tag|].
    + destruct k as [|j].
      * destruct ol.
        -- destruct e as [x|err|].
           ++ destruct (mapper x latest) as [[]|err] eqn:Hmap.
              ** right. exists true, (S latest), true.
                 destruct has.
                 --- assert (Hl0 : latest <> 0%nat) by auto. destruct latest as [|l0]; [congruence|].
                     by_compute. repeat split; auto; discriminate.
                 --- destruct latest as [|l0]; by_compute; repeat split; auto; discriminate.
              ** left. destruct has; by_compute; reflexivity.
           ++ left. destruct has; by_compute; reflexivity.
           ++ destruct has.
              ** right. exists false, latest, true. by_compute. repeat split; auto.
              ** left. by_compute. reflexivity.
        -- destruct Hsome as [H|H]; [discriminate|]. subst has.
           assert (Hl0 : latest <> 0%nat) by auto. destruct latest as [|l0]; [congruence|].
           right. exists false, (S l0), true. by_compute. repeat split; auto.
      * destruct (has && Nat.eqb (S j) latest) eqn:Hcur.
        -- apply andb_true_iff in Hcur. destruct Hcur as [-> Heq]. apply Nat.eqb_eq in Heq. subst latest.
           destruct e as [x|err|].
           ++ right. exists ol, (S j), true. destruct ol; by_compute; repeat split; auto.
           ++ left. destruct ol; by_compute; reflexivity.
           ++ destruct ol.
              ** right. exists true, (S j), false. by_compute. repeat split; auto; discriminate.
              ** left. by_compute. reflexivity.
        -- assert (Hmem : mem (S j) (switch_live ol latest has) = false).
           { unfold switch_live, mem. destruct ol, has; cbn [app existsb orb andb] in *;
               rewrite ?Hcur; reflexivity. }
           right. exists ol, latest, has. unfold rstep. cbn [r_stopped r_live]. rewrite Hmem.
           cbn [fst snd]. repeat split; auto.
    + right. exists ol, latest, has. cbn. repeat split; auto.
    + left. unfold rstep, switch_live. destruct ol, has; cbn; reflexivity.
Qed.

(* every state reached after ANY input sequence has that shape *)
Theorem switch_reachable_shape mapper (ins : list (Z * inp A)) :
  sw_inv (fst (after (x_switch_map mapper) (fst (start_state (x_switch_map mapper)))
                     (snd (start_state (x_switch_map mapper))) ins))
         (snd (run (x_switch_map mapper) ins)).
Proof.
  rewrite run_final.
  set (m := x_switch_map mapper).
  assert (H0 : sw_inv (fst (start_state m)) (snd (start_state m))).
  { right. exists true, 0%nat, false. unfold start_state, m. cbn. repeat split; auto; discriminate. }
  exact (run_from_invariant m (fun s r _ => sw_inv s r)
           (fun s r acc now i H => sw_inv_step mapper s r now i H) ins _ _ 1 [] H0).
Qed.

(* in such a state with a running latest inner, a new inner REPLACES it within the same
   step: the previous inner is unsubscribed, the new one subscribed, nothing else happens *)
Theorem switch_new_inner_replaces_previous mapper l0 now (x : A) :
  mapper x (S l0) = Ok tt ->
  rstep (x_switch_map mapper) (S l0, true, negb true) (RState (switch_live true (S l0) true) [] false)
        now (ISrc 0%nat (Next x))
  = ((S (S l0), true, negb true), RState (switch_live true (S (S l0)) true) [] false,
     [OUnsub (S l0); OSub (S (S l0))]).
Proof. intros Hmap. by_compute. reflexivity. Qed.
End SwitchInv.
